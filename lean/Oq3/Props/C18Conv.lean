/-
C18, converse — textual inclusion is an equivalence.

`inclusion_conv`: if the plain top-level loop over the spliced statement list returns, then the
include-aware analysis returns (for every fuel `≥ fuel + F`), in the same context up to
diagnostics, and the flat diagnostics are the weaving (`Woven`) of the main file's and the
included files' diagnostics.  With `C18Equiv.inclusion_equiv`: `inclusion_iff`.
-/
import Oq3.Props.C18Equiv

namespace Oq3.C18E
open Oq3 Oq3.Types Oq3.Symbols Oq3.Sema Oq3.Includes

/-- what the include run has to deliver: for every sufficient fuel, from `c`, the trees `trees`
and the context `c'` -/
def IncOK (bound : Nat) (stmts : List Ast.Stmt) (inc : List PSrc) (c : Ctx) (trees : List ErrTree)
    (c' : Ctx) : Prop :=
  ∀ K, bound ≤ K → syntaxToSemanticInc K stmts inc c = .ok (trees, c')

/-- the statement of the converse for one splice fuel -/
def FlatInc (fuel : Nat) : Prop :=
  ∀ (stmts : List Ast.Stmt) (inc : List PSrc) (flat : List Ast.Stmt) (c : Ctx) (F : Nat) (d' : Ctx),
    splice fuel stmts inc = some flat → IsGlobal c →
    syntaxToSemanticLoop F flat c = .ok ((), d') →
    ∃ trees c' own m, IncOK (fuel + F) stmts inc c trees c' ∧
      c'.semanticErrors = c.semanticErrors ++ own ∧
      d' = { c' with semanticErrors := c.semanticErrors ++ m } ∧ Woven own trees m ∧ IsGlobal c'

theorem loop_zero_run (l : List Ast.Stmt) (c : Ctx) (r : Unit × Ctx) :
    syntaxToSemanticLoop 0 l c = .ok r → False := (C17.loop_zero l c r).mp

theorem ctx_eq_of_fields {a b : Ctx} (h1 : eraseErrs a = eraseErrs b)
    (h2 : a.semanticErrors = b.semanticErrors) : a = b := by
  cases a; cases b
  simp only [eraseErrs, Ctx.mk.injEq] at h1
  simp only at h2
  simp [h1, h2]

/-- a statement that both runs treat the same way -/
theorem step_simple_conv (k : Nat) (ih : FlatInc k) (s : Ast.Stmt) (rest : List Ast.Stmt)
    (inc : List PSrc)
    (hinc : ∀ K, syntaxToSemanticInc (K + 1) (s :: rest) inc = (do
      let o ← C06.topStmtM K s
      C06.attachM o
      syntaxToSemanticInc K rest inc))
    (hspl : splice (k + 1) (s :: rest) inc = (splice k rest inc).map (s :: ·))
    (flat : List Ast.Stmt) (c : Ctx) (F : Nat) (d' : Ctx)
    (hs : splice (k + 1) (s :: rest) inc = some flat) (hg : IsGlobal c)
    (hrun : syntaxToSemanticLoop F flat c = .ok ((), d')) :
    ∃ trees c' own m, IncOK (k + 1 + F) (s :: rest) inc c trees c' ∧
      c'.semanticErrors = c.semanticErrors ++ own ∧
      d' = { c' with semanticErrors := c.semanticErrors ++ m } ∧ Woven own trees m ∧ IsGlobal c' := by
  rw [hspl] at hs
  cases hfr : splice k rest inc with
  | none => rw [hfr] at hs; cases hs
  | some fr =>
    rw [hfr] at hs
    simp only [Option.map_some, Option.some.injEq] at hs
    subst hs
    cases F with
    | zero => exact (loop_zero_run _ _ _ hrun).elim
    | succ F' =>
      rw [C17.loop_cons] at hrun
      obtain ⟨c2, hstep, hrest⟩ := hrun
      unfold C17.topStepM at hstep
      rw [bind_ok'] at hstep
      obtain ⟨o, c1, h1, h2⟩ := hstep
      obtain ⟨n1, hn1⟩ := (topStmtM_errFrame F' s).errs_append h1
      obtain ⟨he2, hs2⟩ := attachM_ok h2
      have hg2 : IsGlobal c2 := (hg.of_ext ((topStmtM_pres F' s).run c _ h1)).of_symtab hs2
      obtain ⟨trees, c', own, m, hinc', ho, hd, hw, hg'⟩ := ih rest inc fr c2 F' d' hfr hg2 hrest
      refine ⟨trees, c', n1 ++ own, n1 ++ m, ?_, ?_, ?_, hw.prepend n1, hg'⟩
      · intro K hK
        obtain ⟨K', rfl⟩ : ∃ K', K = K' + 1 := ⟨K - 1, by omega⟩
        rw [hinc K', bind_ok']
        refine ⟨o, c1, (topStmtM_mono (by omega) s).run c _ h1, ?_⟩
        rw [bind_ok']
        exact ⟨(), c2, h2, hinc' K' (by omega)⟩
      · rw [ho, he2, hn1, List.append_assoc]
      · rw [hd, he2, hn1, List.append_assoc]

/-- **the include arm, built from its parts** (the converse of `include_arm_run`) -/
theorem include_arm_build (k : Nat) (sp : Ast.Span) (f : Ast.FilePath) (p : String)
    (hf : f.toString? = some p) (hp : (p == "stdgates.inc") = false) (rest : List Ast.Stmt)
    (src : PSrc) (inc' : List PSrc) (ast : Ast.Program) (he : src.includeError = none)
    (hpar : src.parsed = some (.clean ast)) (c : Ctx) (hg : IsGlobal c)
    (kids : List ErrTree) (c1 : Ctx) (more : List ErrTree) (c' : Ctx)
    (h1 : syntaxToSemanticInc k ast.statements src.included (eraseErrs c) = .ok (kids, c1))
    (h2 : syntaxToSemanticInc k rest inc' { c1 with semanticErrors := c.semanticErrors } =
      .ok (more, c')) :
    syntaxToSemanticInc (k + 1) (.includeStmt sp (some f) :: rest) (src :: inc') c =
      .ok (.mk src.path c1.semanticErrors kids :: more, c') := by
  unfold syntaxToSemanticInc
  simp only [unwrap, hf, pure_bind, hp, Bool.false_eq_true, if_false]
  rw [bind_ok']
  refine ⟨.global, c, currentScopeType_global hg, ?_⟩
  simp only [bne_self_eq_false, Bool.false_eq_true, if_false, he, hpar]
  simp only [getErrors, setErrors, bind_ok', get_run, pure_run, modify_run, Except.ok.injEq,
    Prod.mk.injEq]
  exact ⟨_, _, ⟨_, _, ⟨rfl, rfl⟩, rfl, rfl⟩, (), _, ⟨trivial, rfl⟩, kids, c1, h1,
    _, _, ⟨_, _, ⟨rfl, rfl⟩, rfl, rfl⟩, (), _, ⟨trivial, rfl⟩, more, c', h2, rfl, rfl⟩

theorem inc_cons_other_all (s : Ast.Stmt) (rest : List Ast.Stmt) (inc : List PSrc) (h : NotInclude s)
    (K : Nat) : syntaxToSemanticInc (K + 1) (s :: rest) inc = (do
      let o ← C06.topStmtM K s
      C06.attachM o
      syntaxToSemanticInc K rest inc) := by
  rw [inc_cons_other K s rest inc h, topStmtM_other K s h]

/-- **the converse, by induction on the splice fuel** -/
theorem flatInc (fuel : Nat) : FlatInc fuel := by
  induction fuel with
  | zero =>
    intro stmts inc flat c F d' hs
    simp [splice] at hs
  | succ k ih =>
    intro stmts inc flat c F d' hs hg hrun
    cases stmts with
    | nil =>
      simp only [splice, Option.some.injEq] at hs
      subst hs
      cases F with
      | zero => exact (loop_zero_run _ _ _ hrun).elim
      | succ F' =>
        have := (C17.loop_nil F' c _).mp hrun
        simp only [Prod.mk.injEq, true_and] at this
        subst this
        refine ⟨[], d', [], [], ?_, by simp, (ctx_errs_self d').symm, .done [], hg⟩
        intro K hK
        obtain ⟨K', rfl⟩ : ∃ K', K = K' + 1 := ⟨K - 1, by omega⟩
        simp [syntaxToSemanticInc, pure_run]
    | cons s rest =>
      have simple : NotInclude s → _ := fun hni =>
        step_simple_conv k ih s rest inc (inc_cons_other_all s rest inc hni)
          (splice_cons_other k s rest inc hni) flat c F d' hs hg hrun
      cases s with
      | includeStmt sp file =>
        cases file with
        | none => simp [splice] at hs
        | some f =>
          cases hf : f.toString? with
          | none => simp [splice, hf] at hs
          | some p =>
            by_cases hp : (p == "stdgates.inc") = true
            · exact step_simple_conv k ih _ rest inc
                (fun K => inc_cons_std K sp f p hf hp rest inc)
                (by simp only [splice, hf, hp, if_true]) flat c F d' hs hg hrun
            · have hp' : (p == "stdgates.inc") = false := by simpa using hp
              simp only [splice, hf, hp', Bool.false_eq_true, if_false] at hs
              cases inc with
              | nil => simp at hs
              | cons src inc' =>
                simp only at hs
                cases he : src.includeError with
                | some err => simp [he] at hs
                | none =>
                  cases hpar : src.parsed with
                  | none => simp [he, hpar] at hs
                  | some pr =>
                    cases pr with
                    | lexErrors n => simp [he, hpar] at hs
                    | syntaxErrors n l => simp [he, hpar] at hs
                    | clean ast =>
                      simp only [he, hpar] at hs
                      cases haf : splice k ast.statements src.included with
                      | none => simp [haf] at hs
                      | some af =>
                        cases hrf : splice k rest inc' with
                        | none => simp [haf, hrf] at hs
                        | some rf =>
                          simp only [haf, hrf, Option.some.injEq] at hs
                          subst hs
                          -- the flat run splits at the end of the spliced statements
                          rw [C17.loop_append] at hrun
                          obtain ⟨cm, hA, hR⟩ := hrun
                          -- the spliced statements, transported to the erased context
                          obtain ⟨nA, hnA, tA⟩ :=
                            (syntaxToSemanticLoop_errFrame F af).transport (d := eraseErrs c) hA rfl
                          simp only [eraseErrs_errs, List.nil_append] at tA
                          obtain ⟨kids, c1, own1, m1, hinc1, ho1, hd1, hw1, hg1⟩ :=
                            ih ast.statements src.included af (eraseErrs c) F _ haf
                              (hg.of_symtab rfl) tA
                          simp only [eraseErrs_errs, List.nil_append] at ho1 hd1
                          -- `cm` is `c1` with the diagnostics `c.semanticErrors ++ m1`
                          have hcm : cm = { c1 with semanticErrors := c.semanticErrors ++ m1 } := by
                            have e1 : nA = m1 := by
                              have := congrArg Ctx.semanticErrors hd1
                              simpa using this
                            have e2 : eraseErrs cm = eraseErrs c1 := by
                              have := congrArg eraseErrs hd1
                              simpa [eraseErrs] using this
                            apply ctx_eq_of_fields
                            · rw [e2]; rfl
                            · rw [hnA, e1]
                          subst hcm
                          -- the rest, transported to the context with the saved diagnostics
                          obtain ⟨nR, hnR, tR⟩ :=
                            (syntaxToSemanticLoop_errFrame (F - af.length) rf).transport
                              (d := { c1 with semanticErrors := c.semanticErrors }) hR rfl
                          obtain ⟨more, c', own2, m2, hinc2, ho2, hd2, hw2, hg2⟩ :=
                            ih rest inc' rf { c1 with semanticErrors := c.semanticErrors }
                              (F - af.length) _ hrf (hg1.of_symtab rfl) tR
                          simp only at ho2 hd2 hnR
                          have e3 : nR = m2 := by
                            have := congrArg Ctx.semanticErrors hd2
                            simpa using this
                          have e4 : eraseErrs d' = eraseErrs c' := by
                            have := congrArg eraseErrs hd2
                            simpa [eraseErrs] using this
                          refine ⟨.mk src.path c1.semanticErrors kids :: more, c', own2, m1 ++ m2,
                            ?_, ho2, ?_, ?_, hg2⟩
                          · intro K hK
                            obtain ⟨K', rfl⟩ : ∃ K', K = K' + 1 := ⟨K - 1, by omega⟩
                            exact include_arm_build K' sp f p hf hp' rest src inc' ast he hpar c hg
                              kids c1 more c' (hinc1 K' (by omega)) (hinc2 K' (by omega))
                          · apply ctx_eq_of_fields
                            · rw [e4]; rfl
                            · rw [hnR, e3]; simp [List.append_assoc]
                          · have := Woven.kid (o0 := []) (p := src.path) (ho1 ▸ hw1) hw2
                            simpa using this
      | _ => exact simple (fun _ _ e => by cases e)

/-! ## the theorems -/

/-- **C18, converse.**  If the plain top-level loop over the spliced statement list returns `d'`
from a context `c` in global scope, then the include-aware analysis of `stmts` with the sources
`inc` returns — for EVERY fuel `K ≥ fuel + F` — trees `trees` and a context `c'` with
`eraseErrs d' = eraseErrs c'`, and the flat diagnostics are the weaving of the main file's new
diagnostics `own` with the diagnostics recorded in `trees`. -/
theorem inclusion_conv (fuel : Nat) (stmts : List Ast.Stmt) (inc : List PSrc) (flat : List Ast.Stmt)
    (c : Ctx) (F : Nat) (d' : Ctx)
    (hs : splice fuel stmts inc = some flat) (hg : IsGlobal c)
    (h : (syntaxToSemanticLoop F flat).run c = .ok ((), d')) :
    ∃ trees c' own m,
      (∀ K, fuel + F ≤ K → (syntaxToSemanticInc K stmts inc).run c = .ok (trees, c')) ∧
      eraseErrs d' = eraseErrs c' ∧
      c'.semanticErrors = c.semanticErrors ++ own ∧ d'.semanticErrors = c.semanticErrors ++ m ∧
      Woven own trees m := by
  obtain ⟨trees, c', own, m, hinc, ho, hd, hw, -⟩ := flatInc fuel stmts inc flat c F d' hs hg h
  refine ⟨trees, c', own, m, hinc, ?_, ho, ?_, hw⟩
  · rw [hd]; rfl
  · rw [hd]

/-- the converse with the diagnostics as a multiset -/
theorem inclusion_conv_perm (fuel : Nat) (stmts : List Ast.Stmt) (inc : List PSrc)
    (flat : List Ast.Stmt) (c : Ctx) (F : Nat) (d' : Ctx)
    (hs : splice fuel stmts inc = some flat) (hg : IsGlobal c)
    (h : (syntaxToSemanticLoop F flat).run c = .ok ((), d')) :
    ∃ K trees c', (syntaxToSemanticInc K stmts inc).run c = .ok (trees, c') ∧
      eraseErrs d' = eraseErrs c' ∧
      d'.semanticErrors.Perm (c'.semanticErrors ++ treesErrs trees) := by
  obtain ⟨trees, c', own, m, hinc, he, ho, hd, hw⟩ := inclusion_conv fuel stmts inc flat c F d' hs hg h
  refine ⟨_, trees, c', hinc _ (Nat.le_refl _), he, ?_⟩
  rw [hd, ho, List.append_assoc]
  exact List.Perm.append_left _ hw.perm

/-- the splice does not depend on the fuel once it succeeds -/
theorem splice_mono_step (fuel : Nat) : ∀ (stmts : List Ast.Stmt) (inc : List PSrc) (flat : List Ast.Stmt),
    splice fuel stmts inc = some flat → splice (fuel + 1) stmts inc = some flat := by
  induction fuel with
  | zero => intro stmts inc flat h; simp [splice] at h
  | succ k ih =>
    intro stmts inc flat hs
    cases stmts with
    | nil => simpa [splice] using hs
    | cons s rest =>
      have simple : NotInclude s → splice (k + 1 + 1) (s :: rest) inc = some flat := by
        intro hni
        rw [splice_cons_other k s rest inc hni] at hs
        rw [splice_cons_other (k + 1) s rest inc hni]
        cases hfr : splice k rest inc with
        | none => rw [hfr] at hs; cases hs
        | some fr => rw [hfr] at hs; rw [ih _ _ _ hfr]; exact hs
      cases s with
      | includeStmt sp file =>
        cases file with
        | none => simp [splice] at hs
        | some f =>
          cases hf : f.toString? with
          | none => simp [splice, hf] at hs
          | some p =>
            by_cases hp : (p == "stdgates.inc") = true
            · simp only [splice, hf, hp, if_true] at hs ⊢
              cases hfr : splice k rest inc with
              | none => rw [hfr] at hs; cases hs
              | some fr => rw [hfr] at hs; rw [ih _ _ _ hfr]; exact hs
            · have hp' : (p == "stdgates.inc") = false := by simpa using hp
              simp only [splice, hf, hp', Bool.false_eq_true, if_false] at hs ⊢
              cases inc with
              | nil => simp at hs
              | cons src inc' =>
                simp only at hs ⊢
                split at hs
                · rename_i ast he hpar
                  split at hs
                  · rename_i a b h1 h2
                    simp only [ih _ _ _ h1, ih _ _ _ h2]
                    exact hs
                  · cases hs
                · cases hs
      | _ => exact simple (fun _ _ e => by cases e)

theorem splice_mono {fuel fuel' : Nat} (h : fuel ≤ fuel') (stmts : List Ast.Stmt) (inc : List PSrc)
    (flat : List Ast.Stmt) (hs : splice fuel stmts inc = some flat) :
    splice fuel' stmts inc = some flat := by
  induction h with
  | refl => exact hs
  | step _ ih => exact splice_mono_step _ _ _ _ ih

/-- **textual inclusion is an equivalence.**  For a splice `flat` of `stmts` with the sources `inc`
and a start context in global scope: the include-aware analysis returns (with some fuel `≥ fuel`)
iff the plain analysis of the spliced list returns (with some fuel) — and whenever one of them
returns, so does the other, with the same context up to diagnostics and the diagnostics woven. -/
theorem inclusion_iff (fuel : Nat) (stmts : List Ast.Stmt) (inc : List PSrc) (flat : List Ast.Stmt)
    (c : Ctx) (hs : splice fuel stmts inc = some flat) (hg : IsGlobal c) :
    (∃ K, fuel ≤ K ∧ ∃ r, (syntaxToSemanticInc K stmts inc).run c = .ok r) ↔
    (∃ F r, (syntaxToSemanticLoop F flat).run c = .ok r) := by
  constructor
  · rintro ⟨K, hK, ⟨trees, c'⟩, h⟩
    obtain ⟨own, m, -, -, hF⟩ :=
      inclusion_equiv K stmts inc flat c trees c' (splice_mono hK _ _ _ hs) hg h
    obtain ⟨d', h1, -, -⟩ := hF _ (Nat.le_refl _)
    exact ⟨_, _, h1⟩
  · rintro ⟨F, ⟨u, d'⟩, h⟩
    obtain ⟨trees, c', own, m, hinc, -⟩ := inclusion_conv fuel stmts inc flat c F d' hs hg h
    exact ⟨fuel + F, by omega, _, hinc _ (Nat.le_refl _)⟩

/-- both results, side by side: any include run (fuel `K ≥ fuel`) and any flat run (fuel `F`) that
return, return the same context up to diagnostics, and the flat diagnostics are the weaving of the
include run's own diagnostics with its trees -/
theorem inclusion_results_agree (fuel : Nat) (stmts : List Ast.Stmt) (inc : List PSrc)
    (flat : List Ast.Stmt) (c : Ctx) (hs : splice fuel stmts inc = some flat) (hg : IsGlobal c)
    (K : Nat) (hK : fuel ≤ K) (trees : List ErrTree) (c' : Ctx)
    (hi : (syntaxToSemanticInc K stmts inc).run c = .ok (trees, c'))
    (F : Nat) (d' : Ctx) (hf : (syntaxToSemanticLoop F flat).run c = .ok ((), d')) :
    eraseErrs d' = eraseErrs c' ∧
    ∃ own m, c'.semanticErrors = c.semanticErrors ++ own ∧
      d'.semanticErrors = c.semanticErrors ++ m ∧ Woven own trees m := by
  obtain ⟨own, m, ho, hw, hF⟩ :=
    inclusion_equiv K stmts inc flat c trees c' (splice_mono hK _ _ _ hs) hg hi
  -- the flat run at a fuel that is large enough for both
  obtain ⟨d2, h2, he2, hd2⟩ := hF (max F (K + flat.length)) (Nat.le_max_right _ _)
  have := (syntaxToSemanticLoop_mono (Nat.le_max_left F (K + flat.length)) flat).run c _ hf
  rw [show (syntaxToSemanticLoop (max F (K + flat.length)) flat).run c =
    syntaxToSemanticLoop (max F (K + flat.length)) flat c from rfl, this] at h2
  simp only [Except.ok.injEq, Prod.mk.injEq, true_and] at h2
  subst h2
  exact ⟨he2, own, m, ho, hd2, hw⟩

end Oq3.C18E
