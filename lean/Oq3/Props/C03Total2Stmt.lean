/-
C03 — totality on the ENLARGED fragment, part 2: the statement-level functions that do not recurse
into statements (gate calls with modifiers, `gphase`, expression statements, declarations,
assignments, io declarations, aliases, delay, def headers), on top of `T2.allE`.
-/
import Oq3.Props.C03Total2Expr

namespace Oq3.Sema.T2
open Oq3 Oq3.Sema Oq3.Types Oq3.Symbols Oq3.Props

/-! ### fragment of the non-recursive statement parts -/

def suppArgs : Option Ast.ArgList → Bool
  | none => true
  | some (.mk _ (some el)) => suppEL el
  | _ => false

def suppOps : List Ast.GateOperand → Bool
  | [] => true
  | o :: r => suppOp o && suppOps r

def suppGateCall : Ast.GateCallExpr → Bool
  | .mk _ (some (.mk _ ops)) al (some _) => suppOps ops && suppArgs al
  | _ => false

def suppMod : Ast.Modifier → Bool
  | .invModifier _ => true
  | .powModifier _ (some p) => suppParen p
  | .ctrlModifier _ none => true
  | .ctrlModifier _ (some p) => suppParen p
  | .negCtrlModifier _ none => true
  | .negCtrlModifier _ (some p) => suppParen p
  | _ => false

def suppMods : List Ast.Modifier → Bool
  | [] => true
  | m :: r => suppMod m && suppMods r

/-- an expression statement: gate call (possibly modified), `gphase`, or any fragment expression
(`measure q;`, `return e;`, `a + b;` …) -/
def suppExprStmt : Option Ast.Expr → Bool
  | some (.gateCallExpr gc) => suppGateCall gc
  | some (.modifiedGateCallExpr _ ms (some gc) _) => suppMods ms && suppGateCall gc
  | some (.modifiedGateCallExpr _ ms none (some (.mk _ arg))) => suppMods ms && suppOptE arg
  | some (.gPhaseCallExpr (.mk _ arg)) => suppOptE arg
  | some e => suppE e
  | none => false

def suppTypedParam (p : Ast.TypedParam) : Bool :=
  p.name.isSome &&
    (match p.paramType with
     | some (.scalarType st) => suppScalarType st
     | some (.arrayRefType _) => true
     | none => p.oldTypedParam)

def suppTypedParams : List Ast.TypedParam → Bool
  | [] => true
  | p :: r => suppTypedParam p && suppTypedParams r

def suppRetSig : Option Ast.ReturnSignature → Bool
  | none => true
  | some rs => match rs.scalarType with
    | none => true
    | some st => suppScalarType st

/-! ### lemmas -/

macro "fuel_ok2" : tactic => `(tactic| (
  simp only [Ast.Expr.size, Ast.ParenExpr.size, Ast.RangeExpr.size, Ast.ExpressionList.size,
    Ast.SetExpression.size, Ast.IndexKind.size, Ast.IndexOperator.size, Ast.IndexedIdentifier.size,
    Ast.GateOperand.size, Ast.QubitList.size, Ast.ArgList.size, Ast.GateCallExpr.size,
    Ast.GPhaseCallExpr.size, Ast.Modifier.size, Ast.optExprSize, Ast.exprsSize, Ast.optParenExprSize,
    Ast.optExpressionListSize, Ast.optIndexKindSize, Ast.optIndexOperatorSize, Ast.indexOperatorsSize,
    Ast.optGateOperandSize, Ast.gateOperandsSize, Ast.optQubitListSize, Ast.optArgListSize,
    Ast.optGateCallExprSize, Ast.optGPhaseCallExprSize, Ast.modifiersSize] at *
  omega))

theorem gateOperandsLoop_succ (ops : List Ast.GateOperand) (hs : suppOps ops = true) (fuel : Nat)
    (hf : 2 * Ast.gateOperandsSize ops + 1 ≤ fuel) : Succ Any (gateOperandsLoop fuel ops) := by
  induction ops generalizing fuel with
  | nil =>
    obtain ⟨f, rfl⟩ : ∃ f, fuel = f + 1 := ⟨fuel - 1, by omega⟩
    unfold gateOperandsLoop; exact Succ.pure _ trivial
  | cons o rest ih =>
    obtain ⟨f, rfl⟩ : ∃ f, fuel = f + 1 := ⟨fuel - 1, by omega⟩
    simp only [suppOps, Bool.and_eq_true] at hs
    unfold gateOperandsLoop
    refine Succ.bindAny ((allE f).op o hs.1 (by clear ih; fuel_ok2)) (fun _ => ?_)
    exact Succ.bindAny (ih hs.2 f (by fuel_ok2)) (fun _ => Succ.pure _ trivial)

theorem qubitList_succ (sp : Ast.Span) (ops : List Ast.GateOperand) (hs : suppOps ops = true)
    (fuel : Nat) (hf : 2 * Ast.optQubitListSize (some (.mk sp ops)) + 1 ≤ fuel) :
    Succ Any (qubitListToAsgTexpr fuel (some (.mk sp ops))) := by
  obtain ⟨f, rfl⟩ : ∃ f, fuel = f + 1 := ⟨fuel - 1, by omega⟩
  unfold qubitListToAsgTexpr
  refine Succ.bind (unwrap_succ _ _) (fun k hk => ?_)
  subst hk
  exact gateOperandsLoop_succ ops hs f (by fuel_ok2)

theorem modifiersLoop_succ (ms : List Ast.Modifier) (hs : suppMods ms = true) (fuel : Nat)
    (hf : 2 * Ast.modifiersSize ms + 1 ≤ fuel) : Succ Any (modifiersLoop fuel ms) := by
  induction ms generalizing fuel with
  | nil =>
    obtain ⟨f, rfl⟩ : ∃ f, fuel = f + 1 := ⟨fuel - 1, by omega⟩
    unfold modifiersLoop; exact Succ.pure _ trivial
  | cons m rest ih =>
    obtain ⟨f, rfl⟩ : ∃ f, fuel = f + 1 := ⟨fuel - 1, by omega⟩
    simp only [suppMods, Bool.and_eq_true] at hs
    obtain ⟨hm, hrest⟩ := hs
    have hr := ih hrest f (by fuel_ok2)
    unfold modifiersLoop
    unfold suppMod at hm
    split at hm
    · dsimp only
      refine Succ.pure_bind _ ?_
      exact Succ.bindAny hr (fun _ => Succ.pure _ trivial)
    · rename_i sp p
      dsimp only
      refine Succ.bind (unwrap_succ _ _) (fun k hk => ?_)
      subst hk
      refine Succ.bind ((allE f).paren _ hm (by clear ih hr; fuel_ok2)) (fun x hx => ?_)
      obtain ⟨t, rfl⟩ := Option.isSome_iff_exists.mp hx
      refine Succ.bind (unwrap_succ _ _) (fun k hk => ?_)
      subst hk
      refine Succ.pure_bind _ ?_
      exact Succ.bindAny hr (fun _ => Succ.pure _ trivial)
    · dsimp only
      refine Succ.pure_bind _ ?_
      exact Succ.bindAny hr (fun _ => Succ.pure _ trivial)
    · rename_i sp p
      dsimp only
      refine Succ.bindAny (((allE f).paren p hm (by clear ih hr; fuel_ok2)).mono (fun _ _ => trivial))
        (fun x => ?_)
      refine Succ.pure_bind _ ?_
      exact Succ.bindAny hr (fun _ => Succ.pure _ trivial)
    · dsimp only
      refine Succ.pure_bind _ ?_
      exact Succ.bindAny hr (fun _ => Succ.pure _ trivial)
    · rename_i sp p
      dsimp only
      refine Succ.bindAny (((allE f).paren p hm (by clear ih hr; fuel_ok2)).mono (fun _ _ => trivial))
        (fun x => ?_)
      refine Succ.pure_bind _ ?_
      exact Succ.bindAny hr (fun _ => Succ.pure _ trivial)
    · simp at hm


theorem gateCall_succ (gc : Ast.GateCallExpr) (mods : List GateModifier) (hs : suppGateCall gc = true)
    (fuel : Nat) (hf : 2 * gc.size + 1 ≤ fuel) : Succ NotAnn (gateCallExprToAsgStmt fuel gc mods) := by
  unfold suppGateCall at hs
  split at hs
  · rename_i sp sq ops al id
    simp only [Bool.and_eq_true] at hs
    obtain ⟨hops, hal⟩ := hs
    obtain ⟨f, rfl⟩ : ∃ f, fuel = f + 1 := ⟨fuel - 1, by omega⟩
    unfold gateCallExprToAsgStmt
    dsimp only
    refine Succ.bindAny (qubitList_succ sq ops hops f (by fuel_ok2)) (fun gateOperands => ?_)
    unfold suppArgs at hal
    split at hal
    · dsimp only
      refine Succ.pure_bind _ ?_
      dsimp only
      refine Succ.bind (unwrap_succ _ _) (fun k hk => ?_)
      subst hk
      refine Succ.bindAny (lookupGateSymbol_succ _ _) (fun r => ?_)
      refine Succ.bindAny (gateCallCheck_succ _ _ _ _ _ _ _ _ (by simp)) (fun _ => ?_)
      exact Succ.pure _ (by not_ann)
    · rename_i sa el
      dsimp only
      refine Succ.bind (unwrap_succ _ _) (fun k hk => ?_)
      subst hk
      refine Succ.bindAny ((allE f).elT _ hal (by fuel_ok2)) (fun paramList => ?_)
      refine Succ.pure_bind _ ?_
      dsimp only
      refine Succ.bind (unwrap_succ _ _) (fun k hk => ?_)
      subst hk
      refine Succ.bindAny (lookupGateSymbol_succ _ _) (fun r => ?_)
      refine Succ.bindAny (gateCallCheck_succ _ _ _ _ _ _ _ _ (by simp)) (fun _ => ?_)
      exact Succ.pure _ (by not_ann)
    · simp at hal
  · simp at hs

/-- result of a statement that is not an annotation / version line: present and not annotated -/
def SomeNotAnn (r : Option Stmt) : Prop := r.isSome = true ∧ NotAnn r

macro "some_not_ann" : tactic => `(tactic| exact ⟨rfl, by not_ann⟩)

theorem exprStmt_succ (o : Option Ast.Expr) (hs : suppExprStmt o = true) (fuel : Nat)
    (hf : 2 * Ast.optExprSize o + 2 ≤ fuel) : Succ SomeNotAnn (exprStmtToAsgStmt fuel o) := by
  obtain ⟨f, rfl⟩ : ∃ f, fuel = f + 1 := ⟨fuel - 1, by omega⟩
  have gc_some : ∀ gc mods, suppGateCall gc = true → 2 * gc.size + 1 ≤ f →
      Succ SomeNotAnn (gateCallExprToAsgStmt f gc mods) := by
    intro gc mods h1 h2
    -- the gate-call function ends in `pure (some (.gateCall ..))`
    unfold suppGateCall at h1
    split at h1
    · rename_i sp sq ops al id
      simp only [Bool.and_eq_true] at h1
      obtain ⟨hops, hal⟩ := h1
      obtain ⟨f', rfl⟩ : ∃ f', f = f' + 1 := ⟨f - 1, by omega⟩
      unfold gateCallExprToAsgStmt
      dsimp only
      refine Succ.bindAny (qubitList_succ sq ops hops f' (by fuel_ok2)) (fun gateOperands => ?_)
      unfold suppArgs at hal
      split at hal
      · dsimp only
        refine Succ.pure_bind _ ?_
        dsimp only
        refine Succ.bind (unwrap_succ _ _) (fun k hk => ?_)
        subst hk
        refine Succ.bindAny (lookupGateSymbol_succ _ _) (fun r => ?_)
        refine Succ.bindAny (gateCallCheck_succ _ _ _ _ _ _ _ _ (by simp)) (fun _ => ?_)
        exact Succ.pure _ (by some_not_ann)
      · rename_i sa el
        dsimp only
        refine Succ.bind (unwrap_succ _ _) (fun k hk => ?_)
        subst hk
        refine Succ.bindAny ((allE f').elT _ hal (by fuel_ok2)) (fun paramList => ?_)
        refine Succ.pure_bind _ ?_
        dsimp only
        refine Succ.bind (unwrap_succ _ _) (fun k hk => ?_)
        subst hk
        refine Succ.bindAny (lookupGateSymbol_succ _ _) (fun r => ?_)
        refine Succ.bindAny (gateCallCheck_succ _ _ _ _ _ _ _ _ (by simp)) (fun _ => ?_)
        exact Succ.pure _ (by some_not_ann)
      · simp at hal
    · simp at h1
  unfold suppExprStmt at hs
  split at hs
  · -- gate call
    rename_i gc
    unfold exprStmtToAsgStmt
    dsimp only
    exact gc_some gc [] hs (by fuel_ok2)
  · -- modified gate call
    rename_i sp ms gc gp
    simp only [Bool.and_eq_true] at hs
    unfold exprStmtToAsgStmt
    dsimp only
    refine Succ.bindAny (modifiersLoop_succ ms hs.1 f (by fuel_ok2)) (fun mods => ?_)
    exact gc_some gc mods hs.2 (by fuel_ok2)
  · -- modified gphase
    rename_i sp ms sg arg
    simp only [Bool.and_eq_true] at hs
    unfold exprStmtToAsgStmt
    dsimp only
    refine Succ.bindAny (modifiersLoop_succ ms hs.1 f (by fuel_ok2)) (fun mods => ?_)
    refine Succ.bind (unwrap_succ _ _) (fun k hk => ?_)
    subst hk
    dsimp only
    refine Succ.bind ((allE f).optE arg hs.2 (by fuel_ok2)) (fun x hx => ?_)
    obtain ⟨t, rfl⟩ := Option.isSome_iff_exists.mp hx
    refine Succ.bind (unwrap_succ _ _) (fun k hk => ?_)
    subst hk
    exact Succ.pure _ (by some_not_ann)
  · -- gphase
    rename_i sg arg
    unfold exprStmtToAsgStmt
    dsimp only
    refine Succ.bind ((allE f).optE arg hs (by fuel_ok2)) (fun x hx => ?_)
    obtain ⟨t, rfl⟩ := Option.isSome_iff_exists.mp hx
    refine Succ.bind (unwrap_succ _ _) (fun k hk => ?_)
    subst hk
    exact Succ.pure _ (by some_not_ann)
  · -- any other fragment expression
    rename_i e h1 h2 h3 h4
    have hgen : Succ SomeNotAnn (do
        match ← exprToAsgTexpr f (some e) with
        | none => fail "expr_stmt_to_asg_stmt: expr::ExprStmt is None"
        | some ex => pure (some (.exprStmt ex))) := by
      refine Succ.bind ((allE f).expr e hs (by fuel_ok2)) (fun x hx => ?_)
      obtain ⟨t, rfl⟩ := Option.isSome_iff_exists.mp hx
      exact Succ.pure _ (by some_not_ann)
    unfold exprStmtToAsgStmt
    dsimp only
    cases e <;> first
      | exact hgen
      | (exfalso; unfold suppE at hs; simp at hs; done)
  · simp at hs


theorem classicalDecl_succ (span : Ast.Span) (st : Ast.ScalarType) (c : Bool) (name : Ast.Name)
    (e : Option Ast.Expr) (hst : suppScalarType st = true) (he : suppOptE0 e = true) (fuel : Nat)
    (hf : 2 * Ast.optExprSize e + 2 ≤ fuel) :
    Succ NotAnnS (classicalDeclarationStatementToAsgStmt fuel span false (some st) c (some name) e) := by
  obtain ⟨f, rfl⟩ : ∃ f, fuel = f + 1 := ⟨fuel - 1, by omega⟩
  unfold classicalDeclarationStatementToAsgStmt
  simp only [Bool.false_eq_true, if_false]
  refine Succ.bind (unwrap_succ _ _) (fun k hk => ?_)
  subst hk
  refine Succ.bindAny (scalarTypeToType_succ _ c hst) (fun lhsType => ?_)
  refine Succ.bind (unwrap_succ _ _) (fun k hk => ?_)
  subst hk
  refine Succ.bindAny ((allE f).opt0 e he (by omega)) (fun initializer => ?_)
  refine Succ.bindAny (newBinding_succ _ _ _) (fun symbolId => ?_)
  cases initializer with
  | none => exact declareClassicalHelper_succ' _ _
  | some init =>
    dsimp only
    repeat' (first
      | exact declareClassicalHelper_succ' _ _
      | exact Succ.pure _ (by intro _ _ h; cases h)
      | exact Succ.pure _ trivial
      | exact insertError_succ _ _
      | (refine Succ.bindAny ?_ (fun _ => ?_))
      | (refine Succ.ite _ ?_ ?_)
      | split)

/-- `x = e;` -/
theorem assignIdent_succ (span : Ast.Span) (id : Ast.Identifier) (rhs : Option Ast.Expr)
    (ii : Option Ast.IndexedIdentifier) (he : suppOptE rhs = true) (fuel : Nat)
    (hf : 2 * Ast.optExprSize rhs + 2 ≤ fuel) :
    Succ SomeNotAnn (assignmentStmtToAsgStmt fuel span (some id) rhs ii) := by
  obtain ⟨f, rfl⟩ : ∃ f, fuel = f + 1 := ⟨fuel - 1, by omega⟩
  unfold assignmentStmtToAsgStmt
  dsimp only
  refine Succ.bind ((allE f).optE rhs he (by omega)) (fun r hr => ?_)
  obtain ⟨t, rfl⟩ := Option.isSome_iff_exists.mp hr
  refine Succ.bind (unwrap_succ _ _) (fun k hk => ?_)
  subst hk
  refine Succ.bindAny (lookupSymbol_succ _ _) (fun r => ?_)
  obtain ⟨symbolId, symbolType⟩ := r
  dsimp only
  repeat' (first
    | exact Succ.pure _ (by some_not_ann)
    | exact Succ.pure _ trivial
    | exact insertError_succ _ _
    | exact mutateConstCheck_succ _ _ _
    | (refine Succ.bindAny ?_ (fun _ => ?_))
    | (refine Succ.ite _ ?_ ?_)
    | split)

/-- `x[i] = e;` -/
theorem assignIndexed_succ (span : Ast.Span) (rhs : Option Ast.Expr) (ii : Ast.IndexedIdentifier)
    (hii : suppII ii = true) (he : suppOptE rhs = true) (fuel : Nat)
    (hf : 2 * (Ast.optExprSize rhs + ii.size) + 2 ≤ fuel) :
    Succ SomeNotAnn (assignmentStmtToAsgStmt fuel span none rhs (some ii)) := by
  obtain ⟨f, rfl⟩ : ∃ f, fuel = f + 1 := ⟨fuel - 1, by omega⟩
  unfold assignmentStmtToAsgStmt
  dsimp only
  refine Succ.bind (unwrap_succ _ _) (fun k hk => ?_)
  subst hk
  refine Succ.bindAny ((allE f).ii _ hii (by omega)) (fun r => ?_)
  obtain ⟨ii', typ⟩ := r
  dsimp only
  have hrest : Succ SomeNotAnn (do
      let expr ← exprToAsgTexpr f rhs
      let expr ← unwrap "assignment_stmt_to_asg_stmt: rhs unwrap() on None" expr
      pure (some (Stmt.assignment (LValue.indexedIdentifier ii') expr))) := by
    refine Succ.bind ((allE f).optE rhs he (by omega)) (fun r hr => ?_)
    obtain ⟨t, rfl⟩ := Option.isSome_iff_exists.mp hr
    refine Succ.bind (unwrap_succ _ _) (fun k hk => ?_)
    subst hk
    exact Succ.pure _ (by some_not_ann)
  repeat' (first
    | exact hrest
    | exact insertError_succ _ _
    | (refine Succ.bindAny ?_ (fun _ => ?_))
    | (refine Succ.ite _ ?_ ?_)
    | split)

theorem ioDecl_succ (st : Ast.ScalarType) (name : Ast.Name) (inp : Bool)
    (hst : suppScalarType st = true) :
    Succ NotAnnS (ioDeclarationStatementToAsgStmt false (some st) (some name) inp) := by
  unfold ioDeclarationStatementToAsgStmt
  simp only [Bool.false_eq_true, if_false]
  refine Succ.pure_bind _ ?_
  refine Succ.bindAny (scalarTypeToType_succ _ false hst) (fun typ => ?_)
  refine Succ.bind (unwrap_succ _ _) (fun k hk => ?_)
  subst hk
  refine Succ.bindAny (newBinding_succ _ _ _) (fun sym => ?_)
  cases inp <;> exact Succ.pure _ (by intro _ _ h; cases h)

theorem bindTypedParams_succ (ps : List Ast.TypedParam) (hs : suppTypedParams ps = true) :
    Succ Any (bindTypedParams ps) := by
  induction ps with
  | nil => unfold bindTypedParams; exact Succ.pure _ trivial
  | cons p rest ih =>
    simp only [suppTypedParams, Bool.and_eq_true] at hs
    obtain ⟨hp, hrest⟩ := hs
    unfold suppTypedParam at hp
    simp only [Bool.and_eq_true] at hp
    obtain ⟨hname, hty⟩ := hp
    obtain ⟨nm, hnm⟩ := Option.isSome_iff_exists.mp hname
    have hjp : ∀ typ : T, Succ Any (do
        let name ← unwrap "bind_typed_parameter_list: param.name() is None" p.name
        let r ← newBinding name.text typ p.span
        let rs ← bindTypedParams rest
        pure (r :: rs)) := by
      intro typ
      rw [hnm]
      refine Succ.bind (unwrap_succ _ _) (fun k hk => ?_)
      subst hk
      refine Succ.bindAny (newBinding_succ _ _ _) (fun r => ?_)
      exact Succ.bindAny (ih hrest) (fun _ => Succ.pure _ trivial)
    unfold bindTypedParams
    dsimp only
    cases hpt : p.paramType with
    | none =>
      simp only [hpt] at hty
      simp only [hty, if_true]
      exact Succ.pure_bind _ (hjp _)
    | some pt =>
      simp only [hpt] at hty
      dsimp only
      cases pt with
      | scalarType st =>
        unfold paramTypeToType
        exact Succ.bindAny (scalarTypeToType_succ st false hty) (fun t => hjp t)
      | arrayRefType sp =>
        unfold paramTypeToType
        exact Succ.pure_bind _ (hjp _)

/-- `bind_typed_parameter_list` on a present list returns a list -/
theorem bindTypedParameterList_succ (tpl : Ast.TypedParamList) (hs : suppTypedParams tpl.typedParams = true) :
    Succ IsSome (bindTypedParameterList (some tpl)) := by
  unfold bindTypedParameterList
  exact Succ.bindAny (bindTypedParams_succ _ hs) (fun _ => Succ.pure _ rfl)

theorem delayDurationCheck_succ (d : TExpr) (node : Ast.Span) : Succ Any (delayDurationCheck d node) :=
  Succ.of_runs (delayDurationCheck_pres _ _) (fun s _ => ⟨(), _, C13.delayDurationCheck_run d node s, trivial⟩)

attribute [local irreducible] SymTab.standardLibraryGates in
theorem standardLibraryGates_succ (node : Ast.Span) : Succ Any (standardLibraryGates node) := by
  refine Succ.of_runs (standardLibraryGates_pres node) (fun s _ => ?_)
  cases h : standardLibraryGates node s with
  | ok r => exact ⟨r.1, r.2, rfl, trivial⟩
  | error e => exact (standardLibraryGates_total node s e h).elim

end Oq3.Sema.T2
