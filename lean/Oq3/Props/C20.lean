/-
C20 — type promotion is a join on the numeric tower and never narrows.

Property theorems only.  The order is the one fixed in DESIGN.md §7 C20:
up to const-ness a type is related to itself; inside the tower `int, uint < float < complex`
the order is lexicographic (kind first, then width, `none` above every `some w`).
Full statements that the unchanged code violates are kept as `witness_*` (negation on a
concrete pair) plus a `_partial` theorem whose guard excludes exactly the witnessed region.
-/
import Oq3.Model.Types

namespace Oq3.Props.C20
open Oq3.Types Oq3.Types.T

/-! ### The specification order -/

def inTower (t : T) : Bool :=
  match tag t with | .int | .uint | .float | .complex => true | _ => false

def rank (t : T) : Nat :=
  match tag t with | .float => 1 | .complex => 2 | _ => 0

def wle : Width → Width → Bool
  | _, none => true
  | some x, some y => x ≤ y
  | none, some _ => false

/-- `a ≤ b` in the specification order (up to const-ness). -/
def le (a b : T) : Bool :=
  unconst a == unconst b ||
  (inTower a && inTower b && (rank a < rank b || (tag a == tag b && wle (width a) (width b))))

/-- the pair has some upper bound -/
def HasBound (a b : T) : Prop := ∃ c, le a c = true ∧ le b c = true

/-! ### helper lemmas (kept here because they are about the spec order only) -/

theorem promoteWidth_comm (a b : T) : promoteWidth a b = promoteWidth b a := by
  unfold promoteWidth; cases width a <;> cases width b <;> simp [Nat.max_comm]

theorem promoteTypeWidth_comm (a b : T) : promoteTypeWidth a b = promoteTypeWidth b a := by
  unfold promoteTypeWidth promoteConstness
  rw [promoteWidth_comm a b, Bool.and_comm]
  cases tag a <;> cases tag b <;> rfl

theorem promoteBaseType_comm (a b : T) : promoteBaseType a b = promoteBaseType b a := by
  unfold promoteBaseType
  cases tag a <;> cases tag b <;> rfl

theorem equalUpToConstness_comm (a b : T) : equalUpToConstness a b = equalUpToConstness b a := by
  unfold equalUpToConstness
  by_cases h : a = b
  · subst h; rfl
  · have h' : ¬ b = a := fun e => h e.symm
    simp only [h, h', if_false]
    cases tag a <;> cases tag b <;> simp [Bool.beq_comm]

theorem unconst_eq_of_equalUpToConstness (a b : T) (h : equalUpToConstness a b = true) :
    unconst a = unconst b := by
  unfold equalUpToConstness at h
  by_cases hab : a = b
  · subst hab; rfl
  · simp only [hab, if_false] at h
    cases a <;> cases b <;> simp_all [tag, width, bitArrayDims, unconst]

theorem equalUpToConstness_of_unconst_eq (a b : T) (h : unconst a = unconst b) :
    equalUpToConstness a b = true := by
  unfold equalUpToConstness
  by_cases hab : a = b
  · simp [hab]
  · simp only [hab, if_false]
    cases a <;> cases b <;> simp_all [tag, width, bitArrayDims, unconst]

theorem tag_unconst (a : T) : tag (unconst a) = tag a := by cases a <;> rfl
theorem width_unconst (a : T) : width (unconst a) = width a := by cases a <;> rfl

theorem tag_eq_of_unconst_eq {a b : T} (h : unconst a = unconst b) : tag a = tag b := by
  rw [← tag_unconst a, ← tag_unconst b, h]

theorem width_eq_of_unconst_eq {a b : T} (h : unconst a = unconst b) : width a = width b := by
  rw [← width_unconst a, ← width_unconst b, h]

theorem wle_refl (w : Width) : wle w w = true := by cases w <;> simp [wle]

theorem le_refl (a : T) : le a a = true := by simp [le]

/-! ### 1. symmetry up to const-ness — full -/

theorem promote_symm (a b : T) : unconst (promoteTypes a b) = unconst (promoteTypes b a) := by
  unfold promoteTypes
  rw [equalUpToConstness_comm b a, promoteTypeWidth_comm b a, promoteBaseType_comm b a]
  cases h : equalUpToConstness a b
  · simp
  · simp [unconst_eq_of_equalUpToConstness a b h]

/-! ### 2. idempotence — full -/

theorem promote_idem (a : T) : promoteTypes a a = a := by
  simp [promoteTypes, equalUpToConstness]

/-! ### 3. upper bound — full -/

theorem promoteTypeWidth_tag {a b : T} (h : promoteTypeWidth a b ≠ void) :
    tag a = tag b ∧ tag (promoteTypeWidth a b) = tag a ∧ inTower a = true ∧
    width (promoteTypeWidth a b) = promoteWidth a b := by
  unfold promoteTypeWidth at *
  split at h <;> simp_all [inTower, tag, width]

theorem wle_promoteWidth_left (a b : T) : wle (width a) (promoteWidth a b) = true := by
  unfold promoteWidth
  cases width a <;> cases width b <;> simp [wle]
  omega

theorem wle_promoteWidth_right (a b : T) : wle (width b) (promoteWidth a b) = true := by
  rw [promoteWidth_comm]; exact wle_promoteWidth_left b a

theorem le_promoteTypeWidth_left {a b : T} (h : promoteTypeWidth a b ≠ void) :
    le a (promoteTypeWidth a b) = true := by
  obtain ⟨_, ht, htow, hw⟩ := promoteTypeWidth_tag h
  have htow' : inTower (promoteTypeWidth a b) = true := by
    unfold inTower at *; rw [ht]; exact htow
  simp [le, htow, htow', ht, hw, wle_promoteWidth_left]

theorem le_promoteBaseType_left {a b : T} (h : promoteBaseType a b ≠ void) :
    le a (promoteBaseType a b) = true := by
  unfold promoteBaseType at *
  split at h <;> simp_all [le, inTower, rank]

/-- the three ways `promote_types` produces its result -/
theorem promoteTypes_cases (a b : T) :
    (equalUpToConstness a b = true ∧ promoteTypes a b = a) ∨
    (equalUpToConstness a b = false ∧ promoteTypeWidth a b ≠ void ∧
      promoteTypes a b = promoteTypeWidth a b) ∨
    (equalUpToConstness a b = false ∧ promoteTypeWidth a b = void ∧
      promoteTypes a b = promoteBaseType a b) := by
  unfold promoteTypes
  cases he : equalUpToConstness a b
  · by_cases hw : promoteTypeWidth a b = void
    · right; right; simp [hw]
    · right; left; simp [hw]
  · left; simp

theorem promote_upper_bound_left (a b : T) (h : promoteTypes a b ≠ void) :
    le a (promoteTypes a b) = true := by
  rcases promoteTypes_cases a b with ⟨_, hp⟩ | ⟨_, hw, hp⟩ | ⟨_, _, hp⟩
  · rw [hp]; exact le_refl a
  · rw [hp]; exact le_promoteTypeWidth_left hw
  · rw [hp] at h ⊢; exact le_promoteBaseType_left h

theorem unconst_promote_void_iff (a b : T) : promoteTypes a b = void ↔ promoteTypes b a = void := by
  have h := promote_symm a b
  constructor <;> intro hv <;> rw [hv] at h
  · cases hp : promoteTypes b a <;> simp_all [unconst]
  · cases hp : promoteTypes a b <;> simp_all [unconst]

theorem le_congr_right {a x y : T} (h : unconst x = unconst y) : le a x = le a y := by
  unfold le inTower rank
  rw [h, tag_eq_of_unconst_eq h, width_eq_of_unconst_eq h]

/-- **Upper bound.** Whenever a common type is produced, both operands are below it. -/
theorem promote_upper_bound (a b : T) (h : promoteTypes a b ≠ void) :
    le a (promoteTypes a b) = true ∧ le b (promoteTypes a b) = true := by
  refine ⟨promote_upper_bound_left a b h, ?_⟩
  have h' : promoteTypes b a ≠ void := fun hv => h ((unconst_promote_void_iff a b).mpr hv)
  rw [le_congr_right (promote_symm a b)]
  exact promote_upper_bound_left b a h'

/-- "never narrows", read off the order: the result's kind rank and, within a kind, its
width are never below an operand's. -/
theorem promote_never_narrows (a b : T) (h : promoteTypes a b ≠ void)
    (ha : inTower a = true) (hne : unconst a ≠ unconst (promoteTypes a b)) :
    rank a < rank (promoteTypes a b) ∨
      (tag a = tag (promoteTypes a b) ∧ wle (width a) (width (promoteTypes a b)) = true) := by
  have := (promote_upper_bound a b h).1
  unfold le at this
  simp only [Bool.or_eq_true, beq_iff_eq, Bool.and_eq_true, decide_eq_true_eq] at this
  rcases this with h1 | ⟨_, h2⟩
  · exact absurd h1 hne
  · rcases h2 with h2 | h2
    · exact Or.inl h2
    · exact Or.inr h2

/-! ### 4. const-ness -/

/-- what the property demands -/
def ConstOnlyIfBoth (a b : T) : Prop :=
  isConst (promoteTypes a b) = true → isConst a = true ∧ isConst b = true

instance (a b : T) : Decidable (ConstOnlyIfBoth a b) := by unfold ConstOnlyIfBoth; infer_instance

/-- finding F19a region 1: operands equal up to const-ness, first const, second not -/
def kfConstFirstOperand (a b : T) : Bool :=
  equalUpToConstness a b && isConst a && !isConst b

/-- finding F19a region 2: cross-kind promotion returns the higher operand with *its* flag -/
def kfConstHigherOperand (a b : T) : Bool :=
  !equalUpToConstness a b && promoteTypeWidth a b == void && promoteBaseType a b != void &&
  isConst (promoteBaseType a b) && !(isConst a && isConst b)

theorem witness_const_first_operand :
    ¬ ConstOnlyIfBoth (int (some 8) true) (int (some 8) false) := by decide

theorem witness_const_higher_operand :
    ¬ ConstOnlyIfBoth (int (some 8) false) (float (some 8) true) := by decide

example : kfConstFirstOperand (int (some 8) true) (int (some 8) false) = true := by decide
example : kfConstHigherOperand (int (some 8) false) (float (some 8) true) = true := by decide

theorem isConst_promoteTypeWidth {a b : T} (h : promoteTypeWidth a b ≠ void) :
    isConst (promoteTypeWidth a b) = (isConst a && isConst b) := by
  unfold promoteTypeWidth promoteConstness at *
  split at h <;> simp_all [isConst]

/-- Outside the two recorded regions the result is const only if both operands are
(and a result that is not `void`). -/
theorem promote_const_only_if_both_partial (a b : T) (hv : promoteTypes a b ≠ void)
    (h1 : kfConstFirstOperand a b = false) (h2 : kfConstHigherOperand a b = false) :
    ConstOnlyIfBoth a b := by
  unfold ConstOnlyIfBoth
  intro hc
  rcases promoteTypes_cases a b with ⟨he, hp⟩ | ⟨_, hw, hp⟩ | ⟨he, hw, hp⟩
  · rw [hp] at hc
    simp [kfConstFirstOperand, he, hc] at h1
    exact ⟨hc, h1⟩
  · rw [hp, isConst_promoteTypeWidth hw] at hc
    simpa using hc
  · rw [hp] at hc hv
    simp [kfConstHigherOperand, he, hw, hc, hv] at h2
    exact h2

/-! ### 5. `void` exactly when there is no bound -/

theorem le_tag_cases {a c : T} (h : le a c = true) :
    unconst a = unconst c ∨ (inTower a = true ∧ inTower c = true) := by
  unfold le at h
  simp only [Bool.or_eq_true, beq_iff_eq, Bool.and_eq_true] at h
  rcases h with h | ⟨⟨h1, h2⟩, _⟩
  · exact Or.inl h
  · exact Or.inr ⟨h1, h2⟩

theorem inTower_of_unconst_eq {a c : T} (h : unconst a = unconst c) : inTower a = inTower c := by
  unfold inTower; rw [tag_eq_of_unconst_eq h]

theorem le_top {a : T} (h : inTower a = true) : le a (complex none false) = true := by
  unfold le inTower at *
  cases ha : tag a <;> simp_all [rank, tag, width, wle, inTower]

/-- decidable characterisation of "has an upper bound" -/
theorem hasBound_iff (a b : T) :
    HasBound a b ↔ (unconst a = unconst b ∨ (inTower a = true ∧ inTower b = true)) := by
  constructor
  · rintro ⟨c, hac, hbc⟩
    rcases le_tag_cases hac with h1 | ⟨h1, h1'⟩ <;> rcases le_tag_cases hbc with h2 | ⟨h2, h2'⟩
    · exact Or.inl (h1.trans h2.symm)
    · exact Or.inr ⟨by rw [inTower_of_unconst_eq h1]; exact h2', h2⟩
    · exact Or.inr ⟨h1, by rw [inTower_of_unconst_eq h2]; exact h1'⟩
    · exact Or.inr ⟨h1, h2⟩
  · rintro (h | ⟨h1, h2⟩)
    · exact ⟨a, le_refl a, by unfold le; simp [h]⟩
    · exact ⟨complex none false, le_top h1, le_top h2⟩

/-- finding F19b: two complex types of different width have a bound but promote to `void` -/
def kfComplexWidths (a b : T) : Bool :=
  tag a == .complex && tag b == .complex && width a != width b

/-- finding F19c: signed with unsigned integer has a bound (any float) but promotes to `void` -/
def kfIntUInt (a b : T) : Bool :=
  (tag a == .int && tag b == .uint) || (tag a == .uint && tag b == .int)

theorem witness_complex_widths :
    promoteTypes (complex (some 32) false) (complex (some 64) false) = void ∧
    HasBound (complex (some 32) false) (complex (some 64) false) :=
  ⟨by decide, (hasBound_iff _ _).mpr (Or.inr ⟨by decide, by decide⟩)⟩

theorem witness_int_uint :
    promoteTypes (int (some 8) false) (uint (some 8) false) = void ∧
    HasBound (int (some 8) false) (uint (some 8) false) :=
  ⟨by decide, (hasBound_iff _ _).mpr (Or.inr ⟨by decide, by decide⟩)⟩

/-- no bound ⇒ `void`: full (an operand pair that is not both `void`). -/
theorem void_of_no_bound (a b : T) (hb : ¬ HasBound a b) : promoteTypes a b = void := by
  rw [hasBound_iff] at hb
  have h1 : equalUpToConstness a b = false := by
    cases h : equalUpToConstness a b
    · rfl
    · exact absurd (Or.inl (unconst_eq_of_equalUpToConstness a b h)) hb
  have h2 : ¬ (inTower a = true ∧ inTower b = true) := fun h => hb (Or.inr h)
  unfold promoteTypes promoteTypeWidth promoteBaseType
  simp only [h1, Bool.false_eq_true, if_false]
  unfold inTower at h2
  cases ha : tag a <;> cases hb : tag b <;> simp_all

theorem tower_void_cases {a b : T} (h1 : inTower a = true) (h2 : inTower b = true)
    (hw : promoteTypeWidth a b = void) (hb : promoteBaseType a b = void) :
    (tag a = .complex ∧ tag b = .complex) ∨ kfIntUInt a b = true := by
  unfold inTower at h1 h2
  unfold promoteTypeWidth at hw
  unfold promoteBaseType at hb
  unfold kfIntUInt
  split at h1 <;> split at h2 <;> simp_all [tag]

theorem complex_widths_ne {a b : T} (ha : tag a = .complex) (hb : tag b = .complex)
    (he : equalUpToConstness a b = false) : kfComplexWidths a b = true := by
  unfold equalUpToConstness at he
  split at he
  · simp at he
  · simp [ha, hb] at he
    simp [kfComplexWidths, ha, hb, he]

theorem unconst_eq_void {t : T} (h : unconst t = void) : t = void := by
  cases t <;> simp_all [unconst]

/-- `void` ⇒ no bound, outside the two recorded regions. -/
theorem no_bound_of_void_partial (a b : T) (hne : ¬ (a = void ∧ b = void))
    (k1 : kfComplexWidths a b = false) (k2 : kfIntUInt a b = false)
    (hv : promoteTypes a b = void) : ¬ HasBound a b := by
  rw [hasBound_iff]
  rintro (h | ⟨h1, h2⟩)
  · have he := equalUpToConstness_of_unconst_eq a b h
    simp only [promoteTypes, he, if_true] at hv
    subst hv
    exact hne ⟨rfl, unconst_eq_void h.symm⟩
  · rcases promoteTypes_cases a b with ⟨_, hp⟩ | ⟨_, hw, hp⟩ | ⟨he, hw, hp⟩
    · rw [hp] at hv; subst hv; simp [inTower, tag] at h1
    · rw [hp] at hv; exact hw hv
    · rw [hp] at hv
      rcases tower_void_cases h1 h2 hw hv with ⟨hc1, hc2⟩ | hk
      · have := complex_widths_ne hc1 hc2 he
        simp [k1] at this
      · simp [k2] at hk

theorem void_iff_no_bound_partial (a b : T) (hne : ¬ (a = void ∧ b = void))
    (k1 : kfComplexWidths a b = false) (k2 : kfIntUInt a b = false) :
    promoteTypes a b = void ↔ ¬ HasBound a b :=
  ⟨no_bound_of_void_partial a b hne k1 k2, void_of_no_bound a b⟩

/-! ### 6. literal castability -/

/-- literal castability is a superset of "the literal type promotes into the target". -/
theorem literal_cast_superset (t lit : T) (ht : t ≠ void)
    (h : unconst (promoteTypes t lit) = unconst t) : canCastLiteral t lit = true := by
  unfold canCastLiteral equalBaseType
  rcases promoteTypes_cases t lit with ⟨he, _⟩ | ⟨_, hw, _⟩ | ⟨_, _, hp⟩
  · have := tag_eq_of_unconst_eq (unconst_eq_of_equalUpToConstness t lit he)
    simp [this]
  · obtain ⟨h1, _⟩ := promoteTypeWidth_tag hw
    simp [h1]
  · rw [hp] at h
    have htag := tag_eq_of_unconst_eq h
    unfold promoteBaseType at h htag
    split at h
    all_goals first
      | (simp_all; done)
      | (exact absurd (unconst_eq_void h.symm) ht)

/-- …and never allows float or complex into an integer target, or complex into float. -/
theorem literal_cast_never_down (t lit : T)
    (h : (tag t = .int ∨ tag t = .uint) ∧ (tag lit = .float ∨ tag lit = .complex) ∨
         (tag t = .float ∧ tag lit = .complex)) :
    canCastLiteral t lit = false := by
  unfold canCastLiteral equalBaseType
  rcases h with ⟨h1 | h1, h2 | h2⟩ | ⟨h1, h2⟩ <;> simp [h1, h2]

/-! ### 7. `implicit_cast_type` -/

theorem implicitCastType_non_div (op : ArithOp) (h : op ≠ .div) (a b : T) :
    implicitCastType op a b = promoteTypes a b := by
  cases op <;> simp_all [implicitCastType]

theorem implicitCastType_div (a b : T) :
    implicitCastType .div a b =
      if tag a = .float ∨ tag b = .float then promoteTypes a b else float none false := by
  simp [implicitCastType]

/-! ### non-vacuity: the hypotheses are met by ordinary types -/

example : promoteTypes (int (some 8) false) (float (some 32) false) ≠ void := by decide
example : promoteTypes (int (some 8) false) (float (some 32) false) = float (some 32) false := by
  decide
example : le (int (some 64) false) (float (some 32) false) = true := by decide
example : kfComplexWidths (int none false) (float none false) = false ∧
          kfIntUInt (int none false) (float none false) = false := by decide

end Oq3.Props.C20
