/-
C10 — literal values reach the semantic graph exactly.

Token level (`Oq3.TokenExt`, the model of `oq3_syntax/src/ast/token_ext.rs`) and the literal paths
of the semantic pass (`literalToAsgTexpr`, the `PrefixExpr`/`TimingLiteral` arms of
`exprToAsgTexpr`).

* `int_value_exact` / `overflow_none`: for every radix, every digit sequence, either letter case,
  either prefix case, underscores anywhere: the accessor returns the positional value iff it is
  `< 2^128`.  `int_value_exact_canonical`: the same for the canonical digits `Nat.toDigits r n`.
* `hex_e_is_digit`, `bitstring_exact`, `bitstring_width`, `timing_unit_exact`, `neg_literal_folded`,
  `bool_exact`, `float_text_clean`.
* witnesses of accessor behaviour that contradicts the property text: `witness_suffix_accepted`
  (`3ab` is 3), `witness_upper_prefix_is_suffix_token`, `witness_bad_digit_none` (`0b12`),
  `witness_imaginary_int_type`.

`str::parse::<f64>` / `f64: Display` are external (DESIGN §5): a float literal's value is the
string the dump carries; `float_text_clean` pins down the text handed to the `f64` parser.
-/
import Oq3.Model.Sema

namespace Oq3.Props.C10
open Oq3.TokenExt

/-! ### positional value of a digit sequence -/

/-- value of the digit sequence `ds` (most significant first) in radix `r`, continuing from `acc` -/
def ofDigitsAcc (r : Nat) : Nat → List Nat → Nat
  | acc, [] => acc
  | acc, d :: ds => ofDigitsAcc r (acc * r + d) ds

/-- the mathematical value of a digit sequence -/
def ofDigits (r : Nat) (ds : List Nat) : Nat := ofDigitsAcc r 0 ds

theorem ofDigitsAcc_append (r acc : Nat) (a b : List Nat) :
    ofDigitsAcc r acc (a ++ b) = ofDigitsAcc r (ofDigitsAcc r acc a) b := by
  induction a generalizing acc with
  | nil => rfl
  | cons d ds ih => simp [ofDigitsAcc, ih]

theorem le_ofDigitsAcc (r acc : Nat) (hr : 0 < r) (ds : List Nat) : acc ≤ ofDigitsAcc r acc ds := by
  induction ds generalizing acc with
  | nil => exact Nat.le_refl _
  | cons d ds ih =>
    simp only [ofDigitsAcc]
    refine Nat.le_trans ?_ (ih _)
    calc acc = acc * 1 := (Nat.mul_one _).symm
      _ ≤ acc * r := Nat.mul_le_mul_left _ hr
      _ ≤ acc * r + d := Nat.le_add_right _ _

/-! ### which characters write which digit -/

/-- `c` writes the digit `d` in radix `r`: the lower-case digit character or its upper-case form -/
def DigitChar (r : Nat) (c : Char) (d : Nat) : Prop :=
  d < r ∧ (c = Nat.digitChar d ∨ c = (Nat.digitChar d).toUpper)

theorem toDigit_lower : ∀ r, r ≤ 16 → ∀ d, d < r → toDigit r (Nat.digitChar d) = some d := by
  decide

theorem toDigit_upper : ∀ r, r ≤ 16 → ∀ d, d < r → toDigit r (Nat.digitChar d).toUpper = some d := by
  decide

theorem toDigit_of_digitChar {r : Nat} (hr : r ≤ 16) {c : Char} {d : Nat} (h : DigitChar r c d) :
    toDigit r c = some d := by
  obtain ⟨hd, rfl | rfl⟩ := h
  · exact toDigit_lower r hr d hd
  · exact toDigit_upper r hr d hd

/-- a digit character is never the underscore, a sign, or (in its radix) a suffix start -/
theorem digitChar_facts : ∀ d, d < 16 →
    (Nat.digitChar d ≠ '_' ∧ (Nat.digitChar d).toUpper ≠ '_') ∧
    (Nat.digitChar d ≠ '+' ∧ (Nat.digitChar d).toUpper ≠ '+') ∧
    (Nat.digitChar d ≠ '-' ∧ (Nat.digitChar d).toUpper ≠ '-') ∧
    (isSuffixStart .hexadecimal (Nat.digitChar d) = false ∧
      isSuffixStart .hexadecimal (Nat.digitChar d).toUpper = false) ∧
    (d < 10 → isAsciiAlphabetic (Nat.digitChar d) = false ∧
      isAsciiAlphabetic (Nat.digitChar d).toUpper = false) := by
  decide

/-- the characters `cs` write, one for one, the digits `ds` -/
inductive Digits (r : Nat) : List Char → List Nat → Prop
  | nil : Digits r [] []
  | cons {c d cs ds} : DigitChar r c d → Digits r cs ds → Digits r (c :: cs) (d :: ds)

theorem Digits.append {r : Nat} {a b : List Char} {x y : List Nat} (h1 : Digits r a x)
    (h2 : Digits r b y) : Digits r (a ++ b) (x ++ y) := by
  induction h1 with
  | nil => exact h2
  | cons hc _ ih => exact .cons hc ih

/-! ### the digit fold -/

theorem foldDigits_exact {r : Nat} (hr : r ≤ 16) (hr0 : 0 < r) :
    ∀ (cs : List Char) (ds : List Nat) (acc : Nat), Digits r cs ds →
      ofDigitsAcc r acc ds < u128Bound → foldDigits r acc cs = some (ofDigitsAcc r acc ds) := by
  intro cs ds acc h
  induction h generalizing acc with
  | nil => intro _; rfl
  | cons hc _ ih =>
    intro hlt
    simp only [foldDigits, toDigit_of_digitChar hr hc, ofDigitsAcc] at hlt ⊢
    have := Nat.lt_of_le_of_lt (le_ofDigitsAcc r _ hr0 _) hlt
    rw [if_pos this]
    exact ih _ hlt

theorem foldDigits_overflow {r : Nat} (hr : r ≤ 16) :
    ∀ (cs : List Char) (ds : List Nat) (acc : Nat), Digits r cs ds →
      acc < u128Bound → u128Bound ≤ ofDigitsAcc r acc ds → foldDigits r acc cs = none := by
  intro cs ds acc h
  induction h generalizing acc with
  | nil => intro h1 h2; simp only [ofDigitsAcc] at h2; omega
  | cons hc _ ih =>
    intro h1 h2
    simp only [foldDigits, toDigit_of_digitChar hr hc, ofDigitsAcc] at h2 ⊢
    split
    · exact ih _ ‹_› h2
    · rfl

/-! ### spellings -/

/-- the prefixes `IntNumber::radix` recognises for each radix (both letter cases) -/
def prefixes : Radix → List (List Char)
  | .decimal => [[]]
  | .binary => [['0', 'b'], ['0', 'B']]
  | .octal => [['0', 'o'], ['0', 'O']]
  | .hexadecimal => [['0', 'x'], ['0', 'X']]

/-- `text` spells the digit sequence `ds` in radix `r`: a prefix of that radix, then the digits in
either letter case with underscores inserted anywhere (before, between, after, doubled) -/
def Spelling (r : Radix) (ds : List Nat) (text : List Char) : Prop :=
  ∃ pre body, pre ∈ prefixes r ∧ text = pre ++ body ∧
    Digits r.toNat (body.filter (· ≠ '_')) ds

theorem radix_toNat_le (r : Radix) : r.toNat ≤ 16 ∧ 0 < r.toNat := by cases r <;> decide

/-- characters of a spelling's body -/
theorem body_chars {r : Radix} {body : List Char} {ds : List Nat}
    (h : Digits r.toNat (body.filter (· ≠ '_')) ds) :
    ∀ c ∈ body, c = '_' ∨ ∃ d, DigitChar r.toNat c d := by
  intro c hc
  by_cases hu : c = '_'
  · exact .inl hu
  · right
    have hm : c ∈ body.filter (· ≠ '_') := by simp [List.mem_filter, hc, hu]
    clear hc
    generalize body.filter (· ≠ '_') = cs at h hm
    induction h with
    | nil => cases hm
    | cons hx _ ih =>
      cases hm with
      | head => exact ⟨_, hx⟩
      | tail _ hm => exact ih hm

theorem splitAtFirst_none (p : Char → Bool) (cs : List Char) (h : ∀ c ∈ cs, p c = false) :
    splitAtFirst p cs = (cs, []) := by
  induction cs with
  | nil => rfl
  | cons c cs ih =>
    simp only [splitAtFirst, h c (List.mem_cons_self ..), Bool.false_eq_true, if_false]
    rw [ih (fun c hc => h c (List.mem_cons_of_mem _ hc))]

theorem not_suffixStart_of_digitChar {r : Radix} {c : Char} {d : Nat} (h : DigitChar r.toNat c d) :
    isSuffixStart r c = false := by
  obtain ⟨hd, hc⟩ := h
  have h16 : d < 16 := Nat.lt_of_lt_of_le hd (radix_toNat_le r).1
  have f := digitChar_facts d h16
  cases r with
  | hexadecimal => rcases hc with rfl | rfl <;> simp [f.2.2.2.1]
  | binary =>
    have h10 : d < 10 := Nat.lt_trans hd (by decide)
    rcases hc with rfl | rfl <;> simp [isSuffixStart, (f.2.2.2.2 h10)]
  | octal =>
    have h10 : d < 10 := Nat.lt_trans hd (by decide)
    rcases hc with rfl | rfl <;> simp [isSuffixStart, (f.2.2.2.2 h10)]
  | decimal =>
    have h10 : d < 10 := hd
    rcases hc with rfl | rfl <;> simp [isSuffixStart, (f.2.2.2.2 h10)]

theorem not_suffixStart_underscore (r : Radix) : isSuffixStart r '_' = false := by
  cases r <;> decide

/-- a decimal spelling's body does not look like a radix prefix -/
theorem radix_decimal_body {body : List Char}
    (h : ∀ c ∈ body, c = '_' ∨ ∃ d, DigitChar 10 c d) : radix body = .decimal := by
  have key : ∀ c, (c = '_' ∨ ∃ d, DigitChar 10 c d) →
      c ≠ 'b' ∧ c ≠ 'B' ∧ c ≠ 'o' ∧ c ≠ 'O' ∧ c ≠ 'x' ∧ c ≠ 'X' := by
    intro c hc
    rcases hc with rfl | ⟨d, hd, hc⟩
    · decide
    · have : ∀ d, d < 10 → ∀ c, (c = Nat.digitChar d ∨ c = (Nat.digitChar d).toUpper) →
          c ≠ 'b' ∧ c ≠ 'B' ∧ c ≠ 'o' ∧ c ≠ 'O' ∧ c ≠ 'x' ∧ c ≠ 'X' := by
        intro d hd c hc
        have : ∀ d, d < 10 → (Nat.digitChar d).toUpper = Nat.digitChar d ∧
            Nat.digitChar d ≠ 'b' ∧ Nat.digitChar d ≠ 'B' ∧ Nat.digitChar d ≠ 'o' ∧
            Nat.digitChar d ≠ 'O' ∧ Nat.digitChar d ≠ 'x' ∧ Nat.digitChar d ≠ 'X' := by decide
        obtain ⟨e, h⟩ := this d hd
        rcases hc with rfl | rfl
        · exact h
        · rw [e]; exact h
      exact this d hd c hc
  rcases body with _ | ⟨a, _ | ⟨b, rest⟩⟩
  · rfl
  · unfold radix; split <;> simp_all
  · have hb := key b (h b (by simp))
    unfold radix
    split <;> simp_all

/-- `u128::from_str_radix` on a non-empty digit string is the digit fold -/
theorem u128FromStrRadix_digits {r : Nat} (hr : r ≤ 16) {cs : List Char} {ds : List Nat}
    (h : Digits r cs ds) (hne : ds ≠ []) :
    u128FromStrRadix cs r = foldDigits r 0 cs := by
  cases h with
  | nil => exact absurd rfl hne
  | @cons c d cs' ds' hc _ =>
    have h16 : d < 16 := Nat.lt_of_lt_of_le hc.1 hr
    have f := digitChar_facts d h16
    have hp : c ≠ '+' := by rcases hc.2 with rfl | rfl; exact f.2.1.1; exact f.2.1.2
    have hm : c ≠ '-' := by rcases hc.2 with rfl | rfl; exact f.2.2.1.1; exact f.2.2.1.2
    unfold u128FromStrRadix
    split <;> simp_all

/-- the accessor on a spelling reduces to `from_str_radix` on the bare digit characters -/
theorem intValue_spelling {r : Radix} {ds : List Nat} {text : List Char}
    (h : Spelling r ds text) :
    ∃ cs, Digits r.toNat cs ds ∧ intValue text = u128FromStrRadix cs r.toNat := by
  obtain ⟨pre, body, hpre, rfl, hb⟩ := h
  refine ⟨_, hb, ?_⟩
  have hchars := body_chars hb
  have hsplit : splitAtFirst (isSuffixStart r) body = (body, []) := by
    apply splitAtFirst_none
    intro c hc
    rcases hchars c hc with rfl | ⟨d, hd⟩
    · exact not_suffixStart_underscore r
    · exact not_suffixStart_of_digitChar hd
  cases r with
  | decimal =>
    simp only [prefixes, List.mem_singleton] at hpre
    subst hpre
    have hr : radix body = .decimal := radix_decimal_body hchars
    simp only [intValue, intSplitIntoParts, List.nil_append, hr, Radix.prefixLen, List.drop_zero,
      hsplit]
  | binary =>
    simp only [prefixes, List.mem_cons, List.not_mem_nil, or_false] at hpre
    rcases hpre with rfl | rfl <;>
      simp only [intValue, intSplitIntoParts, radix, Radix.prefixLen, List.cons_append,
        List.nil_append, List.drop_succ_cons, List.drop_zero, hsplit]
  | octal =>
    simp only [prefixes, List.mem_cons, List.not_mem_nil, or_false] at hpre
    rcases hpre with rfl | rfl <;>
      simp only [intValue, intSplitIntoParts, radix, Radix.prefixLen, List.cons_append,
        List.nil_append, List.drop_succ_cons, List.drop_zero, hsplit]
  | hexadecimal =>
    simp only [prefixes, List.mem_cons, List.not_mem_nil, or_false] at hpre
    rcases hpre with rfl | rfl <;>
      simp only [intValue, intSplitIntoParts, radix, Radix.prefixLen, List.cons_append,
        List.nil_append, List.drop_succ_cons, List.drop_zero, hsplit]

/-- **C10, integers.**  Every spelling of a non-empty digit sequence whose value fits 128 bits is
read as exactly that value: all four radices, both prefix cases, both digit cases, underscores
anywhere. -/
theorem int_value_exact (r : Radix) (ds : List Nat) (text : List Char)
    (h : Spelling r ds text) (hne : ds ≠ []) (hlt : ofDigits r.toNat ds < 2 ^ 128) :
    intValue text = some (ofDigits r.toNat ds) := by
  obtain ⟨cs, hcs, hv⟩ := intValue_spelling h
  rw [hv, u128FromStrRadix_digits (radix_toNat_le r).1 hcs hne]
  exact foldDigits_exact (radix_toNat_le r).1 (radix_toNat_le r).2 cs ds 0 hcs hlt

/-- a value that does not fit 128 bits is `None` (`PosOverflow`), never another number -/
theorem overflow_none (r : Radix) (ds : List Nat) (text : List Char)
    (h : Spelling r ds text) (hne : ds ≠ []) (hge : 2 ^ 128 ≤ ofDigits r.toNat ds) :
    intValue text = none := by
  obtain ⟨cs, hcs, hv⟩ := intValue_spelling h
  rw [hv, u128FromStrRadix_digits (radix_toNat_le r).1 hcs hne]
  exact foldDigits_overflow (radix_toNat_le r).1 cs ds 0 hcs (by decide) hge

/-! ### canonical digits (`Nat.toDigits`, what `toString`/`Nat.repr` print in radix 10) -/

/-- the canonical digit string of `n` is a digit string of value `n` -/
theorem toDigits_digits {r : Nat} (hr1 : 1 < r) (hr : r ≤ 16) (n : Nat) :
    ∃ ds, ds ≠ [] ∧ Digits r (Nat.toDigits r n) ds ∧ ∀ acc, ofDigitsAcc r acc ds = acc * r ^ ds.length + n := by
  induction n using Nat.strongRecOn with
  | _ n ih =>
    rw [Nat.toDigits_eq_if hr1]
    split
    · refine ⟨[n], by simp, .cons ⟨‹_›, .inl rfl⟩ .nil, ?_⟩
      intro acc; simp [ofDigitsAcc]
    · have hlt : n / r < n := Nat.div_lt_self (by omega) hr1
      obtain ⟨ds, hne, hd, hv⟩ := ih _ hlt
      refine ⟨ds ++ [n % r], by simp, ?_, ?_⟩
      · have hmod : n % r < r := Nat.mod_lt _ (by omega)
        exact hd.append (.cons ⟨hmod, .inl rfl⟩ .nil)
      · intro acc
        rw [ofDigitsAcc_append, hv]
        simp only [ofDigitsAcc, List.length_append, List.length_cons, List.length_nil, Nat.pow_succ]
        have := Nat.div_add_mod n r
        rw [Nat.add_mul, Nat.mul_assoc, Nat.add_assoc, Nat.mul_comm (n / r) r, this]

theorem digits_map_upper {r : Nat} {cs : List Char} {ds : List Nat} (h : Digits r cs ds) :
    Digits r (cs.map Char.toUpper) ds := by
  induction h with
  | nil => exact .nil
  | @cons c d cs ds hc _ ih =>
    refine .cons ⟨hc.1, ?_⟩ ih
    rcases hc.2 with rfl | rfl
    · exact .inr rfl
    · right
      have : ∀ d, d < 16 → (Nat.digitChar d).toUpper.toUpper = (Nat.digitChar d).toUpper := by decide
      by_cases h16 : d < 16
      · exact this _ h16
      · have : ∀ d, ¬ d < 16 → Nat.digitChar d = '*' := by
          intro d hd; unfold Nat.digitChar; repeat (rw [if_neg (by omega)])
        rw [this _ h16]; rfl

/-- **C10, integers, canonical form.**  For every `n < 2^128`, every radix, either prefix case:
any text whose body, with the underscores removed, is the canonical digit string of `n`
(`Nat.toDigits r n`; for `r = 10` this is `toString n`) or its upper-case form, is read as `n`. -/
theorem int_value_exact_canonical (r : Radix) (n : Nat) (hn : n < 2 ^ 128) (pre body : List Char)
    (hpre : pre ∈ prefixes r)
    (hbody : body.filter (· ≠ '_') = Nat.toDigits r.toNat n ∨
      body.filter (· ≠ '_') = (Nat.toDigits r.toNat n).map Char.toUpper) :
    intValue (pre ++ body) = some n := by
  have hr1 : 1 < r.toNat := by cases r <;> decide
  obtain ⟨ds, hne, hd, hv⟩ := toDigits_digits hr1 (radix_toNat_le r).1 n
  have hval : ofDigits r.toNat ds = n := by simp [ofDigits, hv]
  have hsp : Spelling r ds (pre ++ body) := by
    refine ⟨pre, body, hpre, rfl, ?_⟩
    rcases hbody with h | h <;> rw [h]
    · exact hd
    · exact digits_map_upper hd
  have := int_value_exact r ds _ hsp hne (by rw [hval]; exact hn)
  rw [this, hval]

/-- the plain decimal spelling `toString n` -/
theorem int_value_toString (n : Nat) (hn : n < 2 ^ 128) : intValueS (toString n) = some n := by
  have : (toString n).toList = Nat.toDigits 10 n := by
    rw [Nat.toString_eq_repr, Nat.toList_repr]
  unfold intValueS
  rw [this]
  have h := int_value_exact_canonical .decimal n hn [] (Nat.toDigits 10 n) (by simp [prefixes])
    (.inl ?_)
  · simpa using h
  · apply List.filter_eq_self.mpr
    intro c hc
    have := Nat.underscore_not_in_toDigits (n := n)
    simp only [ne_eq, decide_not, Bool.not_eq_eq_eq_not, Bool.not_true, decide_eq_false_iff_not]
    rintro rfl; exact this hc

/-- removing underscores undoes inserting them: the `filter (· ≠ '_')` lemma -/
theorem filter_underscores_insert (cs : List Char) (h : '_' ∉ cs) (us : List Char)
    (hus : ∀ c ∈ us, c = '_') (a b : List Char) (hcs : cs = a ++ b) :
    (a ++ us ++ b).filter (· ≠ '_') = cs := by
  subst hcs
  have hu : us.filter (· ≠ '_') = [] := by
    apply List.filter_eq_nil_iff.mpr
    intro c hc; simp [hus c hc]
  have hk : ∀ l : List Char, '_' ∉ l → l.filter (· ≠ '_') = l := by
    intro l hl
    apply List.filter_eq_self.mpr
    intro c hc
    simp only [ne_eq, decide_not, Bool.not_eq_eq_eq_not, Bool.not_true, decide_eq_false_iff_not]
    rintro rfl; exact hl hc
  simp only [List.filter_append, hu, List.append_nil]
  rw [hk a (fun h' => h (List.mem_append_left _ h')), hk b (fun h' => h (List.mem_append_right _ h'))]

/-- an `e`/`E` inside a hexadecimal literal is the digit 14, never an exponent or a suffix -/
theorem hex_e_is_digit (hi lo : List Nat) (a b : List Char) (e : Char) (he : e = 'e' ∨ e = 'E')
    (pre : List Char) (hpre : pre ∈ prefixes .hexadecimal)
    (ha : Digits 16 (a.filter (· ≠ '_')) hi) (hb : Digits 16 (b.filter (· ≠ '_')) lo)
    (hlt : ofDigits 16 (hi ++ 14 :: lo) < 2 ^ 128) :
    intValue (pre ++ (a ++ e :: b)) = some (ofDigits 16 (hi ++ 14 :: lo)) := by
  have hsp : Spelling .hexadecimal (hi ++ 14 :: lo) (pre ++ (a ++ e :: b)) := by
    refine ⟨pre, _, hpre, rfl, ?_⟩
    have he' : (e != '_') = true := by rcases he with rfl | rfl <;> decide
    have : (a ++ e :: b).filter (· ≠ '_') = a.filter (· ≠ '_') ++ e :: b.filter (· ≠ '_') := by
      simp only [List.filter_append, List.filter_cons]
      rcases he with rfl | rfl <;> simp
    rw [this]
    refine ha.append (.cons ⟨by decide, ?_⟩ hb)
    rcases he with rfl | rfl
    · exact .inl (by decide)
    · exact .inr (by decide)
  exact int_value_exact .hexadecimal _ _ hsp (by simp) hlt

/-! ### bit strings -/

/-- `BitString::str` strips exactly the two quotes (either quote character) -/
theorem bitstring_exact (q : Char) (hq : q = '"' ∨ q = '\'') (body : List Char) :
    quotedContents (q :: body ++ [q]) = some body := by
  have hne : (body ++ [q]).isEmpty = false := by cases body <;> rfl
  have hq' : ¬ (q ≠ '"' ∧ q ≠ '\'') := by rcases hq with rfl | rfl <;> decide
  simp only [quotedContents, List.cons_append, hne, Bool.false_eq_true, if_false, hq',
    List.getLast?_append, List.getLast?_singleton, Option.some_or, ne_eq, not_true_eq_false,
    List.dropLast_concat]

/-- everything else is `None`: no quotes, different quotes, a lone quote -/
theorem bitstring_none_cases :
    quotedContents [] = none ∧ quotedContents ['"'] = none ∧
    quotedContents ['"', '0', '\''] = none ∧ quotedContents ['0', '1'] = none := by decide

/-- `BitStringLiteral::to_texpr`: a const bit register whose width is the number of `0`/`1`
characters; the value is kept verbatim (underscores stay in the string, do not count) -/
theorem bitstring_width (s : String) :
    Sema.bitStringLiteralToTexpr s =
      .mk (.literal (.bitString s))
        (.bitArray (.d1 ((s.toList.filter (fun c => c == '0' || c == '1')).length)) true) := rfl

/-! ### time units -/

/-- the six unit spellings (and `im`); anything else is `None` -/
theorem timing_unit_exact :
    timeUnit (some "s") = some .second ∧ timeUnit (some "ms") = some .milliSecond ∧
    timeUnit (some "us") = some .microSecond ∧ timeUnit (some "µs") = some .microSecond ∧
    timeUnit (some "ns") = some .nanoSecond ∧ timeUnit (some "dt") = some .cycle ∧
    timeUnit (some "im") = some .imaginary ∧ timeUnit none = none := by
  refine ⟨?_, ?_, ?_, ?_, ?_, ?_, ?_, ?_⟩ <;> rfl

theorem timing_unit_other (s : String)
    (h : s ∉ ["s", "ms", "us", "µs", "ns", "dt", "im"]) : timeUnit (some s) = none := by
  simp only [List.mem_cons, List.not_mem_nil, or_false, not_or] at h
  unfold timeUnit
  split <;> simp_all

/-! ### floats: the text handed to `str::parse::<f64>` -/

def NoAlpha (cs : List Char) : Prop := ∀ c ∈ cs, isAsciiAlphabetic c = false

theorem splitAtFirst_append_hit (p : Char → Bool) (a : List Char) (c : Char) (b : List Char)
    (ha : ∀ x ∈ a, p x = false) (hc : p c = true) : splitAtFirst p (a ++ c :: b) = (a, c :: b) := by
  induction a with
  | nil => simp [splitAtFirst, hc]
  | cons x xs ih =>
    simp only [List.cons_append, splitAtFirst, ha x (List.mem_cons_self ..), Bool.false_eq_true,
      if_false]
    rw [ih (fun y hy => ha y (List.mem_cons_of_mem _ hy))]

/-- **C10, floats.**  A float literal is `mantissa [e|E exponent] [suffix]` where mantissa and
exponent contain no letters (digits, `.`, `_`, sign) and the suffix, if any, starts with a letter
(not `e`/`E` when there is no exponent part).  `split_into_parts` cuts exactly before the suffix,
and the text handed to the `f64` parser is the rest minus underscores. -/
theorem float_text_clean (mant expo suffix : List Char) (hm : NoAlpha mant)
    (hexpo : expo = [] ∨ ∃ e ex, (e = 'e' ∨ e = 'E') ∧ NoAlpha ex ∧ expo = e :: ex)
    (hsuf : suffix = [] ∨ ∃ s ss, isAsciiAlphabetic s = true ∧ suffix = s :: ss ∧
      (expo = [] → s ≠ 'e' ∧ s ≠ 'E')) :
    floatSplitIntoParts (mant ++ expo ++ suffix) = (mant ++ expo, suffix) ∧
    floatCleanText (mant ++ expo ++ suffix) = (mant ++ expo).filter (· ≠ '_') := by
  have main : floatSplitIntoParts (mant ++ expo ++ suffix) = (mant ++ expo, suffix) := by
    rcases hexpo with rfl | ⟨e, ex, he, hex, rfl⟩
    · rcases hsuf with rfl | ⟨s, ss, hs, rfl, hne⟩
      · simp only [List.append_nil, floatSplitIntoParts, splitAtFirst_none _ _ hm]
      · obtain ⟨h1, h2⟩ := hne rfl
        simp only [List.append_nil, floatSplitIntoParts, splitAtFirst_append_hit _ _ _ _ hm hs]
        simp [h1, h2]
    · have hea : isAsciiAlphabetic e = true := by rcases he with rfl | rfl <;> decide
      have hee : (e == 'e' || e == 'E') = true := by rcases he with rfl | rfl <;> decide
      rcases hsuf with rfl | ⟨s, ss, hs, rfl, -⟩
      · simp only [List.append_nil, floatSplitIntoParts, splitAtFirst_append_hit _ _ _ _ hm hea,
          hee, if_true, splitAtFirst_none _ _ hex]
      · simp only [List.append_assoc, List.cons_append, floatSplitIntoParts,
          splitAtFirst_append_hit _ _ _ _ hm hea, hee, if_true,
          splitAtFirst_append_hit _ _ _ _ hex hs]
  exact ⟨main, by simp only [floatCleanText, main]⟩

/-! ### the literal paths of the semantic pass -/

open Oq3.Sema in
/-- an integer literal becomes `Int{value, sign: true}` of type `int[128] const` -/
theorem int_literal_exact (sp : Ast.Span) (text : String) (v : Option Nat) (n : Nat)
    (h : intValueS text = some n) (c : Ctx) :
    (literalToAsgTexpr ⟨sp, .intNumber text v⟩).run c = .ok (some (intLiteralToTexpr n true), c) := by
  simp only [literalToAsgTexpr, intNumberValue, h, unwrap]
  rfl

open Oq3.Sema in
/-- `true`/`false` keep their truth value -/
theorem bool_exact (sp : Ast.Span) (b : Bool) (c : Ctx) :
    (literalToAsgTexpr ⟨sp, .bool b⟩).run c = .ok (some (.mk (.literal (.bool b)) (.boolT true)), c) :=
  rfl

open Oq3.Sema in
/-- a float literal carries the string of the value the `f64` parser returned -/
theorem float_literal_exact (sp : Ast.Span) (text fmt : String) (c : Ctx) :
    (literalToAsgTexpr ⟨sp, .floatNumber text (some fmt)⟩).run c =
      .ok (some (.mk (.literal (.float fmt)) (.float (some 64) true)), c) := rfl

open Oq3.Sema in
/-- a bit-string literal keeps its characters verbatim; its width is the number of `0`/`1` -/
theorem bitstring_literal_exact (sp : Ast.Span) (q : Char) (hq : q = '"' ∨ q = '\'')
    (body : List Char) (str : Option String) (c : Ctx) :
    (literalToAsgTexpr ⟨sp, .bitString (String.ofList (q :: body ++ [q])) str⟩).run c =
      .ok (some (.mk (.literal (.bitString (String.ofList body)))
        (.bitArray (.d1 ((body.filter (fun c => c == '0' || c == '1')).length)) true)), c) := by
  have : bitStringStr (String.ofList (q :: body ++ [q])) = some (String.ofList body) := by
    simp only [bitStringStr, String.toList_ofList, bitstring_exact q hq body, Option.map_some]
  simp only [literalToAsgTexpr, this, bitStringLiteralToTexpr, String.toList_ofList]
  rfl

open Oq3.Sema in
/-- **C10, minus folding (integers).**  A minus sign directly applied to an integer literal yields
the literal with the same magnitude and the sign flag `false` — no `UnaryExpr` node -/
theorem neg_literal_folded_int (fuel : Nat) (sp sp2 : Ast.Span) (text : String) (v : Option Nat)
    (n : Nat) (h : intValueS text = some n) (c : Ctx) :
    (exprToAsgTexpr (fuel + 1)
        (some (.prefixExpr sp (some .neg) (some (.literal ⟨sp2, .intNumber text v⟩))))).run c =
      .ok (some (.mk (.literal (.int n false)) (.int (some 128) true)), c) := by
  simp only [exprToAsgTexpr, pure_bind, negativeIntToAsgType, intNumberValue, h, unwrap]
  rfl

open Oq3.Sema in
/-- **C10, minus folding (floats).**  The literal's string is the value's string prefixed by `-` -/
theorem neg_literal_folded_float (fuel : Nat) (sp sp2 : Ast.Span) (text fmt : String) (c : Ctx) :
    (exprToAsgTexpr (fuel + 1)
        (some (.prefixExpr sp (some .neg) (some (.literal ⟨sp2, .floatNumber text (some fmt)⟩))))).run c =
      .ok (some (.mk (.literal (.float ("-" ++ fmt))) (.float (some 64) true)), c) := by
  simp only [exprToAsgTexpr, pure_bind, negativeFloatNumberToAsgType, unwrap]
  rfl

open Oq3.Sema in
/-- minus folding for imaginary literals -/
theorem neg_literal_folded_imaginary_int (fuel : Nat) (sp sp2 sp3 : Ast.Span) (it : Option String)
    (text : String) (v : Option Nat) (n : Nat) (h : intValueS text = some n) (c : Ctx) :
    (exprToAsgTexpr (fuel + 1)
        (some (.prefixExpr sp (some .neg) (some (.timingLiteral sp2 (some .imaginary) it
          (some ⟨sp3, .intNumber text v⟩)))))).run c =
      .ok (some (.mk (.literal (.imaginaryInt n false)) (.int (some 64) true)), c) := by
  simp only [exprToAsgTexpr, pure_bind, negativeIntToAsgType, intNumberValue, h, unwrap]
  rfl

open Oq3.Sema in
theorem neg_literal_folded_imaginary_float (fuel : Nat) (sp sp2 sp3 : Ast.Span) (it : Option String)
    (text fmt : String) (c : Ctx) :
    (exprToAsgTexpr (fuel + 1)
        (some (.prefixExpr sp (some .neg) (some (.timingLiteral sp2 (some .imaginary) it
          (some ⟨sp3, .floatNumber text (some fmt)⟩)))))).run c =
      .ok (some (.mk (.literal (.imaginaryFloat ("-" ++ fmt))) (.complex (some 64) true)), c) := by
  simp only [exprToAsgTexpr, pure_bind, negativeFloatNumberToAsgType, unwrap]
  rfl

open Oq3.Sema in
/-- **C10, durations.**  A timing literal keeps value and unit (the AST is the same with and without
a space between number and unit: the unit is a separate token either way) -/
theorem timing_int_exact (fuel : Nat) (sp sp2 : Ast.Span) (it : Option String) (u : TokenExt.TimeUnit)
    (au : Sema.TimeUnit) (hu : timeUnitToAsg u = some au)
    (text : String) (v : Option Nat) (n : Nat) (h : intValueS text = some n) (c : Ctx) :
    (exprToAsgTexpr (fuel + 1)
        (some (.timingLiteral sp (some u) it (some ⟨sp2, .intNumber text v⟩)))).run c =
      .ok (some (.mk (.literal (.timingIntLiteral n true au)) (.duration true)), c) := by
  simp only [exprToAsgTexpr, pure_bind, intNumberValue, h, unwrap, hu]
  rfl

open Oq3.Sema in
theorem timing_float_exact (fuel : Nat) (sp sp2 : Ast.Span) (it : Option String) (u : TokenExt.TimeUnit)
    (au : Sema.TimeUnit) (hu : timeUnitToAsg u = some au) (text fmt : String) (c : Ctx) :
    (exprToAsgTexpr (fuel + 1)
        (some (.timingLiteral sp (some u) it (some ⟨sp2, .floatNumber text (some fmt)⟩)))).run c =
      .ok (some (.mk (.literal (.timingFloatLiteral fmt true au)) (.duration true)), c) := by
  simp only [exprToAsgTexpr, pure_bind, unwrap, hu]
  rfl

/-- the unit map is the identity on the five duration units -/
theorem timeUnitToAsg_exact :
    Sema.timeUnitToAsg .second = some .second ∧ Sema.timeUnitToAsg .milliSecond = some .milliSecond ∧
    Sema.timeUnitToAsg .microSecond = some .microSecond ∧
    Sema.timeUnitToAsg .nanoSecond = some .nanoSecond ∧ Sema.timeUnitToAsg .cycle = some .cycle ∧
    Sema.timeUnitToAsg .imaginary = none := ⟨rfl, rfl, rfl, rfl, rfl, rfl⟩

open Oq3.Sema in
/-- imaginary literals keep their value -/
theorem imaginary_int_exact (fuel : Nat) (sp sp2 : Ast.Span) (it : Option String)
    (text : String) (v : Option Nat) (n : Nat) (h : intValueS text = some n) (c : Ctx) :
    (exprToAsgTexpr (fuel + 1)
        (some (.timingLiteral sp (some .imaginary) it (some ⟨sp2, .intNumber text v⟩)))).run c =
      .ok (some (.mk (.literal (.imaginaryInt n true)) (.int (some 64) true)), c) := by
  simp only [exprToAsgTexpr, pure_bind, intNumberValue, h, unwrap, timeUnitToAsg]
  rfl

open Oq3.Sema in
theorem imaginary_float_exact (fuel : Nat) (sp sp2 : Ast.Span) (it : Option String)
    (text fmt : String) (c : Ctx) :
    (exprToAsgTexpr (fuel + 1)
        (some (.timingLiteral sp (some .imaginary) it (some ⟨sp2, .floatNumber text (some fmt)⟩)))).run c =
      .ok (some (.mk (.literal (.imaginaryFloat fmt)) (.complex (some 64) true)), c) := by
  simp only [exprToAsgTexpr, pure_bind, unwrap, timeUnitToAsg]
  rfl

/-! ### accessor behaviour that contradicts the property text (witnesses) -/

/-- `3ab` is ONE integer token (the lexer glues an identifier-like suffix on); the accessor drops
the suffix and answers 3, and validation does not object: the program `int x = 3ab;` is accepted
with value 3 -/
theorem witness_suffix_accepted : intValueS "3ab" = some 3 ∧ intValueS "0x1fg" = some 31 := by
  decide

/-- the lexer knows only the lower-case prefixes: `0B101` is the token `0` with suffix `B101`;
the accessor then re-reads the whole token text and finds a binary prefix: value 5.  (Consistent
with "either prefix case" only by accident: `0B` + underscore-only or no digits behaves differently
from `0b`.) -/
theorem witness_upper_prefix_is_suffix_token :
    intValueS "0B101" = some 5 ∧ intValueS "0X1F" = some 31 ∧ intValueS "0O17" = some 15 := by
  decide

/-- `0b12` is one binary integer token (the lexer eats decimal digits after `0b`); the accessor
answers `None`, and the semantic pass unwraps it -/
theorem witness_bad_digit_none : intValueS "0b12" = none ∧ intValueS "0o8" = none := by decide

/-- the largest value and the first overflow -/
theorem witness_u128_edge :
    intValueS "340282366920938463463374607431768211455" = some (2 ^ 128 - 1) ∧
    intValueS "340282366920938463463374607431768211456" = none ∧
    intValueS "0xffff_ffff_ffff_ffff_ffff_ffff_ffff_ffff" = some (2 ^ 128 - 1) ∧
    intValueS "0x1_0000_0000_0000_0000_0000_0000_0000_0000" = none := by decide +kernel

/-- an imaginary INTEGER literal is typed `int[64] const`, not complex (`2.0im` is
`complex[float[64]] const`): the source of `float f = 2im;` being accepted (F18) -/
theorem witness_imaginary_int_type (n : Nat) (s : Bool) :
    (Sema.intLiteralToImaginaryTexpr n s).getType = .int (some 64) true ∧
    (Sema.floatLiteralToImaginaryTexpr "2").getType = .complex (some 64) true := ⟨rfl, rfl⟩

end Oq3.Props.C10
