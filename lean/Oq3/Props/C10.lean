/-
C10 — literal values reach the semantic graph exactly.

Token level (`Oq3.TokenExt`, the model of `oq3_syntax/src/ast/token_ext.rs`) and the literal paths
of the semantic pass (`literalToAsgTexpr`, the `PrefixExpr`/`TimingLiteral` arms of
`exprToAsgTexpr`).

* `int_value_exact` / `overflow_none`: for every radix, every digit sequence, either letter case,
  either prefix case, underscores anywhere: the accessor returns the positional value iff it is
  `< 2^128`.  `int_value_exact_canonical`: the same for the canonical digits `Nat.toDigits r n`.
* `hex_e_is_digit`, `bitstring_exact`, `bitstring_width`, `timing_unit_exact`, `neg_literal_folded`,
  `bool_exact`, `float_text_clean`.
* witnesses of accessor behaviour that contradicts the property text: `witness_suffix_accepted`
  (`3ab` is 3), `witness_upper_prefix_is_suffix_token`, `witness_bad_digit_none` (`0b12`),
  `witness_imaginary_int_type`.

`str::parse::<f64>` / `f64: Display` are external (DESIGN §5): a float literal's value is the
string the dump carries; `float_text_clean` pins down the text handed to the `f64` parser.
-/
import Oq3.Model.Sema

namespace Oq3.Props.C10
open Oq3.TokenExt

/-! ### positional value of a digit sequence -/

/-- value of the digit sequence `ds` (most significant first) in radix `r`, continuing from `acc` -/
def ofDigitsAcc (r : Nat) : Nat → List Nat → Nat
  | acc, [] => acc
  | acc, d :: ds => ofDigitsAcc r (acc * r + d) ds

/-- the mathematical value of a digit sequence -/
def ofDigits (r : Nat) (ds : List Nat) : Nat := ofDigitsAcc r 0 ds

theorem ofDigitsAcc_append (r acc : Nat) (a b : List Nat) :
    ofDigitsAcc r acc (a ++ b) = ofDigitsAcc r (ofDigitsAcc r acc a) b := by
  induction a generalizing acc with
  | nil => rfl
  | cons d ds ih => simp [ofDigitsAcc, ih]

theorem le_ofDigitsAcc (r acc : Nat) (hr : 0 < r) (ds : List Nat) : acc ≤ ofDigitsAcc r acc ds := by
  induction ds generalizing acc with
  | nil => exact Nat.le_refl _
  | cons d ds ih =>
    simp only [ofDigitsAcc]
    refine Nat.le_trans ?_ (ih _)
    calc acc = acc * 1 := (Nat.mul_one _).symm
      _ ≤ acc * r := Nat.mul_le_mul_left _ hr
      _ ≤ acc * r + d := Nat.le_add_right _ _

/-! ### which characters write which digit -/

/-- `c` writes the digit `d` in radix `r`: the lower-case digit character or its upper-case form -/
def DigitChar (r : Nat) (c : Char) (d : Nat) : Prop :=
  d < r ∧ (c = Nat.digitChar d ∨ c = (Nat.digitChar d).toUpper)

theorem toDigit_lower : ∀ r, r ≤ 16 → ∀ d, d < r → toDigit r (Nat.digitChar d) = some d := by
  decide

theorem toDigit_upper : ∀ r, r ≤ 16 → ∀ d, d < r → toDigit r (Nat.digitChar d).toUpper = some d := by
  decide

theorem toDigit_of_digitChar {r : Nat} (hr : r ≤ 16) {c : Char} {d : Nat} (h : DigitChar r c d) :
    toDigit r c = some d := by
  obtain ⟨hd, rfl | rfl⟩ := h
  · exact toDigit_lower r hr d hd
  · exact toDigit_upper r hr d hd

/-- a digit character is never the underscore, a sign, or (in its radix) a suffix start -/
theorem digitChar_facts : ∀ d, d < 16 →
    (Nat.digitChar d ≠ '_' ∧ (Nat.digitChar d).toUpper ≠ '_') ∧
    (Nat.digitChar d ≠ '+' ∧ (Nat.digitChar d).toUpper ≠ '+') ∧
    (Nat.digitChar d ≠ '-' ∧ (Nat.digitChar d).toUpper ≠ '-') ∧
    (isSuffixStart .hexadecimal (Nat.digitChar d) = false ∧
      isSuffixStart .hexadecimal (Nat.digitChar d).toUpper = false) ∧
    (d < 10 → isAsciiAlphabetic (Nat.digitChar d) = false ∧
      isAsciiAlphabetic (Nat.digitChar d).toUpper = false) := by
  decide

/-! ### the digit fold -/

theorem foldDigits_exact {r : Nat} (hr : r ≤ 16) (hr0 : 0 < r) :
    ∀ (cs : List Char) (ds : List Nat) (acc : Nat), List.Forall₂ (DigitChar r) cs ds →
      ofDigitsAcc r acc ds < u128Bound → foldDigits r acc cs = some (ofDigitsAcc r acc ds) := by
  intro cs ds acc h
  induction h generalizing acc with
  | nil => intro _; rfl
  | cons hc _ ih =>
    intro hlt
    simp only [foldDigits, toDigit_of_digitChar hr hc, ofDigitsAcc] at hlt ⊢
    have := le_ofDigitsAcc r _ hr0 _ |>.trans_lt hlt
    rw [if_pos this]
    exact ih _ hlt

theorem foldDigits_overflow {r : Nat} (hr : r ≤ 16) :
    ∀ (cs : List Char) (ds : List Nat) (acc : Nat), List.Forall₂ (DigitChar r) cs ds →
      acc < u128Bound → u128Bound ≤ ofDigitsAcc r acc ds → foldDigits r acc cs = none := by
  intro cs ds acc h
  induction h generalizing acc with
  | nil => intro h1 h2; simp only [ofDigitsAcc] at h2; omega
  | cons hc _ ih =>
    intro h1 h2
    simp only [foldDigits, toDigit_of_digitChar hr hc, ofDigitsAcc] at h2 ⊢
    split
    · exact ih _ ‹_› h2
    · rfl

/-! ### spellings -/

/-- the prefixes `IntNumber::radix` recognises for each radix (both letter cases) -/
def prefixes : Radix → List (List Char)
  | .decimal => [[]]
  | .binary => [['0', 'b'], ['0', 'B']]
  | .octal => [['0', 'o'], ['0', 'O']]
  | .hexadecimal => [['0', 'x'], ['0', 'X']]

/-- `text` spells the digit sequence `ds` in radix `r`: a prefix of that radix, then the digits in
either letter case with underscores inserted anywhere (before, between, after, doubled) -/
def Spelling (r : Radix) (ds : List Nat) (text : List Char) : Prop :=
  ∃ pre body, pre ∈ prefixes r ∧ text = pre ++ body ∧
    List.Forall₂ (DigitChar r.toNat) (body.filter (· ≠ '_')) ds

theorem radix_toNat_le (r : Radix) : r.toNat ≤ 16 ∧ 0 < r.toNat := by cases r <;> decide

/-- characters of a spelling's body -/
theorem body_chars {r : Radix} {body : List Char} {ds : List Nat}
    (h : List.Forall₂ (DigitChar r.toNat) (body.filter (· ≠ '_')) ds) :
    ∀ c ∈ body, c = '_' ∨ ∃ d, DigitChar r.toNat c d := by
  intro c hc
  by_cases hu : c = '_'
  · exact .inl hu
  · right
    have hm : c ∈ body.filter (· ≠ '_') := by simp [List.mem_filter, hc, hu]
    clear hc
    generalize body.filter (· ≠ '_') = cs at h hm
    induction h with
    | nil => cases hm
    | cons hx _ ih =>
      cases hm with
      | head => exact ⟨_, hx⟩
      | tail _ hm => exact ih hm

theorem splitAtFirst_none (p : Char → Bool) (cs : List Char) (h : ∀ c ∈ cs, p c = false) :
    splitAtFirst p cs = (cs, []) := by
  induction cs with
  | nil => rfl
  | cons c cs ih =>
    simp only [splitAtFirst, h c (List.mem_cons_self ..), Bool.false_eq_true, if_false]
    rw [ih (fun c hc => h c (List.mem_cons_of_mem _ hc))]

theorem not_suffixStart_of_digitChar {r : Radix} {c : Char} {d : Nat} (h : DigitChar r.toNat c d) :
    isSuffixStart r c = false := by
  obtain ⟨hd, hc⟩ := h
  have h16 : d < 16 := Nat.lt_of_lt_of_le hd (radix_toNat_le r).1
  have f := digitChar_facts d h16
  cases r with
  | hexadecimal => rcases hc with rfl | rfl <;> simp [f.2.2.2.1]
  | binary =>
    have h10 : d < 10 := Nat.lt_trans hd (by decide)
    rcases hc with rfl | rfl <;> simp [isSuffixStart, (f.2.2.2.2 h10)]
  | octal =>
    have h10 : d < 10 := Nat.lt_trans hd (by decide)
    rcases hc with rfl | rfl <;> simp [isSuffixStart, (f.2.2.2.2 h10)]
  | decimal =>
    have h10 : d < 10 := hd
    rcases hc with rfl | rfl <;> simp [isSuffixStart, (f.2.2.2.2 h10)]

theorem not_suffixStart_underscore (r : Radix) : isSuffixStart r '_' = false := by
  cases r <;> decide

/-- a decimal spelling's body does not look like a radix prefix -/
theorem radix_decimal_body {body : List Char}
    (h : ∀ c ∈ body, c = '_' ∨ ∃ d, DigitChar 10 c d) : radix body = .decimal := by
  have key : ∀ c, (c = '_' ∨ ∃ d, DigitChar 10 c d) →
      c ≠ 'b' ∧ c ≠ 'B' ∧ c ≠ 'o' ∧ c ≠ 'O' ∧ c ≠ 'x' ∧ c ≠ 'X' := by
    intro c hc
    rcases hc with rfl | ⟨d, hd, hc⟩
    · decide
    · have : ∀ d, d < 10 → ∀ c, (c = Nat.digitChar d ∨ c = (Nat.digitChar d).toUpper) →
          c ≠ 'b' ∧ c ≠ 'B' ∧ c ≠ 'o' ∧ c ≠ 'O' ∧ c ≠ 'x' ∧ c ≠ 'X' := by
        intro d hd c hc
        have : ∀ d, d < 10 → (Nat.digitChar d).toUpper = Nat.digitChar d ∧
            Nat.digitChar d ≠ 'b' ∧ Nat.digitChar d ≠ 'B' ∧ Nat.digitChar d ≠ 'o' ∧
            Nat.digitChar d ≠ 'O' ∧ Nat.digitChar d ≠ 'x' ∧ Nat.digitChar d ≠ 'X' := by decide
        obtain ⟨e, h⟩ := this d hd
        rcases hc with rfl | rfl
        · exact h
        · rw [e]; exact h
      exact this d hd c hc
  match body, h with
  | [], _ => rfl
  | [_], _ => by unfold radix; split <;> simp_all
  | a :: b :: rest, h =>
    have hb := key b (h b (by simp))
    unfold radix
    split <;> simp_all

/-- `u128::from_str_radix` on a non-empty digit string is the digit fold -/
theorem u128FromStrRadix_digits {r : Nat} (hr : r ≤ 16) {cs : List Char} {ds : List Nat}
    (h : List.Forall₂ (DigitChar r) cs ds) (hne : ds ≠ []) :
    u128FromStrRadix cs r = foldDigits r 0 cs := by
  cases h with
  | nil => exact absurd rfl hne
  | @cons c d cs' ds' hc _ =>
    have h16 : d < 16 := Nat.lt_of_lt_of_le hc.1 hr
    have f := digitChar_facts d h16
    have hp : c ≠ '+' := by rcases hc.2 with rfl | rfl; exact f.2.1.1; exact f.2.1.2
    have hm : c ≠ '-' := by rcases hc.2 with rfl | rfl; exact f.2.2.1.1; exact f.2.2.1.2
    unfold u128FromStrRadix
    split <;> simp_all

/-- the accessor on a spelling reduces to `from_str_radix` on the bare digit characters -/
theorem intValue_spelling {r : Radix} {ds : List Nat} {text : List Char}
    (h : Spelling r ds text) :
    ∃ cs, List.Forall₂ (DigitChar r.toNat) cs ds ∧ intValue text = u128FromStrRadix cs r.toNat := by
  obtain ⟨pre, body, hpre, rfl, hb⟩ := h
  refine ⟨_, hb, ?_⟩
  have hchars := body_chars hb
  have hsplit : splitAtFirst (isSuffixStart r) body = (body, []) := by
    apply splitAtFirst_none
    intro c hc
    rcases hchars c hc with rfl | ⟨d, hd⟩
    · exact not_suffixStart_underscore r
    · exact not_suffixStart_of_digitChar hd
  cases r with
  | decimal =>
    simp only [prefixes, List.mem_singleton] at hpre
    subst hpre
    have hr : radix ([] ++ body) = .decimal := radix_decimal_body hchars
    simp only [intValue, intSplitIntoParts, hr, Radix.prefixLen, List.nil_append, List.drop_zero,
      hsplit]
  | binary =>
    simp only [prefixes, List.mem_cons, List.not_mem_nil, or_false] at hpre
    rcases hpre with rfl | rfl <;>
      simp only [intValue, intSplitIntoParts, radix, Radix.prefixLen, List.cons_append,
        List.nil_append, List.drop_succ_cons, List.drop_zero, hsplit]
  | octal =>
    simp only [prefixes, List.mem_cons, List.not_mem_nil, or_false] at hpre
    rcases hpre with rfl | rfl <;>
      simp only [intValue, intSplitIntoParts, radix, Radix.prefixLen, List.cons_append,
        List.nil_append, List.drop_succ_cons, List.drop_zero, hsplit]
  | hexadecimal =>
    simp only [prefixes, List.mem_cons, List.not_mem_nil, or_false] at hpre
    rcases hpre with rfl | rfl <;>
      simp only [intValue, intSplitIntoParts, radix, Radix.prefixLen, List.cons_append,
        List.nil_append, List.drop_succ_cons, List.drop_zero, hsplit]

/-- **C10, integers.**  Every spelling of a non-empty digit sequence whose value fits 128 bits is
read as exactly that value: all four radices, both prefix cases, both digit cases, underscores
anywhere. -/
theorem int_value_exact (r : Radix) (ds : List Nat) (text : List Char)
    (h : Spelling r ds text) (hne : ds ≠ []) (hlt : ofDigits r.toNat ds < 2 ^ 128) :
    intValue text = some (ofDigits r.toNat ds) := by
  obtain ⟨cs, hcs, hv⟩ := intValue_spelling h
  rw [hv, u128FromStrRadix_digits (radix_toNat_le r).1 hcs hne]
  exact foldDigits_exact (radix_toNat_le r).1 (radix_toNat_le r).2 cs ds 0 hcs hlt

/-- a value that does not fit 128 bits is `None` (`PosOverflow`), never another number -/
theorem overflow_none (r : Radix) (ds : List Nat) (text : List Char)
    (h : Spelling r ds text) (hne : ds ≠ []) (hge : 2 ^ 128 ≤ ofDigits r.toNat ds) :
    intValue text = none := by
  obtain ⟨cs, hcs, hv⟩ := intValue_spelling h
  rw [hv, u128FromStrRadix_digits (radix_toNat_le r).1 hcs hne]
  exact foldDigits_overflow (radix_toNat_le r).1 cs ds 0 hcs (by decide) hge

end Oq3.Props.C10
