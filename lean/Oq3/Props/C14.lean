/-
C14 — tokens partition the input on character boundaries
(with the lexer parts of C01: progress, assertions, totality of `LexedStr`/`to_input`).

Every theorem is for an arbitrary input `s : List Char` and arbitrary Unicode class functions
`uc : UC` (the parameters standing for `unicode-xid` / `unicode-properties`), by induction along
the token stream; there is no bound on the length of the input.

The only theorem with a hypothesis on `uc` is `asserts_hold`: the `debug_assert!` of
`ident_or_unknown_prefix` is reached from the `'p'` and `'O'` arms of `advance_token` without a
prior `is_id_start` test, so it holds only because the letters of `pragma` and `OPENQASM` are
`XID_Start` (`KeywordLettersAreIdStart`; `witness_assert_needs_tables` shows the hypothesis is
necessary).  The harness checks that hypothesis against the real tables.
-/
import Oq3.Lemmas.Lexer
import Oq3.Lemmas.Lexed

namespace Oq3.Props.C14
open Oq3.Lexer Oq3.Lexed Oq3.Gen Oq3.Lemmas.Lexer Oq3.Lemmas.Lexed

/-! ### (a) progress of `advance_token` -/

/-- after bumping the first character, `advance_token` continues to a suffix of what is left -/
theorem advance_suffix (uc : UC) (c : Char) (cs : List Char) :
    (advanceToken uc (c :: cs)).rest <:+ cs :=
  advanceToken_rest_suffix uc c cs

/-- on non-empty input `advance_token` returns a strict suffix: the token is non-empty -/
theorem advance_strict (uc : UC) (s : List Char) (h : s ≠ []) :
    (advanceToken uc s).rest <:+ s ∧ (advanceToken uc s).rest.length < s.length := by
  cases s with
  | nil => exact absurd rfl h
  | cons c cs =>
    exact ⟨(advance_suffix uc c cs).trans (List.suffix_cons _ _), advanceToken_rest_length_lt uc c cs⟩

/-- `Eof` is returned exactly at the end of the input -/
theorem advance_eof_iff (uc : UC) (s : List Char) : (advanceToken uc s).kind = .eof ↔ s = [] := by
  cases s with
  | nil => simp [advanceToken]
  | cons c cs => simp [advanceToken_kind_ne_eof uc c cs]

/-! ### (i) fuel -/

/-- one unit of fuel per character is enough: more fuel changes nothing -/
theorem tokenize_fuel_suffices (uc : UC) (s : List Char) (fuel : Nat) (h : s.length ≤ fuel) :
    tokenizeFuel uc fuel s = tokenize uc s :=
  tokenizeFuel_irrel uc fuel s.length s h (Nat.le_refl _)

/-- the defining equations of the token stream -/
theorem tokenize_step (uc : UC) (c : Char) (cs : List Char) :
    tokenize uc (c :: cs) =
      ⟨(advanceToken uc (c :: cs)).kind, (advanceToken uc (c :: cs)).len,
        consumed (c :: cs) (advanceToken uc (c :: cs)).rest, (advanceToken uc (c :: cs)).ok⟩ ::
      tokenize uc (advanceToken uc (c :: cs)).rest :=
  tokenize_cons uc c cs

/-! ### (b) partition -/

/-- the token texts, concatenated, are the input -/
theorem tokenize_concat (uc : UC) (s : List Char) :
    ((tokenize uc s).map (·.text)).flatten = s :=
  tokenize_texts uc s

/-- (d) a token is a list of whole characters and its `len` is the sum of their UTF-8 sizes -/
theorem token_char_boundary (uc : UC) (s : List Char) :
    ∀ t ∈ tokenize uc s, t.len = utf8Len t.text ∧ utf8Len t.text = (t.text.map Char.utf8Size).sum := by
  intro t ht
  refine ⟨forall_tokenize uc (fun t => t.len = utf8Len t.text) (tokenAt_len uc) s t ht, ?_⟩
  generalize t.text = l
  induction l with
  | nil => rfl
  | cons c cs ih => simp [utf8Len, ih]

/-- the byte lengths of the tokens sum to the byte length of the input -/
theorem tokenize_len_sum (uc : UC) (s : List Char) :
    ((tokenize uc s).map (·.len)).sum = utf8Len s := by
  have h : ∀ ts : List Token, (∀ t ∈ ts, t.len = utf8Len t.text) →
      (ts.map (·.len)).sum = utf8Len ((ts.map (·.text)).flatten) := by
    intro ts
    induction ts with
    | nil => intro _; rfl
    | cons t ts ih =>
      intro h
      simp only [List.map_cons, List.sum_cons, List.flatten_cons, utf8Len_append]
      rw [h t (by simp), ih (fun t' h' => h t' (by simp [h']))]
  rw [h _ (fun t ht => (token_char_boundary uc s t ht).1), tokenize_concat]

/-- (c) every token is non-empty -/
theorem token_nonempty (uc : UC) (s : List Char) :
    ∀ t ∈ tokenize uc s, t.text ≠ [] ∧ 0 < t.len := by
  intro t ht
  have h1 := forall_tokenize uc (fun t => t.text ≠ []) (tokenAt_text_ne_nil uc) s t ht
  exact ⟨h1, by rw [(token_char_boundary uc s t ht).1]; exact utf8Len_pos h1⟩

/-- no token of the stream is `Eof` -/
theorem token_kind_ne_eof (uc : UC) (s : List Char) : ∀ t ∈ tokenize uc s, t.kind ≠ .eof :=
  forall_tokenize uc (fun t => t.kind ≠ .eof) (tokenAt_kind_ne_eof uc) s

/-- (e) `suffix_start` of a literal lies inside the token -/
theorem suffix_start_le_len (uc : UC) (s : List Char) :
    ∀ t ∈ tokenize uc s, ∀ k suf, t.kind = .literal k suf → suf ≤ t.len :=
  forall_tokenize uc (fun t => ∀ k suf, t.kind = .literal k suf → suf ≤ t.len)
    (fun c cs k suf h => tokenAt_suffix_start uc c cs k suf h) s

/-- the number of tokens is at most the number of characters (one step per token) -/
theorem tokenize_length_le (uc : UC) (s : List Char) : (tokenize uc s).length ≤ s.length := by
  have h : ∀ ts : List Token, (∀ t ∈ ts, t.text ≠ []) →
      ts.length ≤ ((ts.map (·.text)).flatten).length := by
    intro ts
    induction ts with
    | nil => intro _; simp
    | cons t ts ih =>
      intro h
      have h1 : 0 < t.text.length := List.length_pos_iff.mpr (h t (by simp))
      have := ih (fun t' h' => h t' (by simp [h']))
      simp only [List.map_cons, List.flatten_cons, List.length_append, List.length_cons]
      omega
  have := h _ (fun t ht => (token_nonempty uc s t ht).1)
  rwa [tokenize_concat] at this

/-- the model is a function (the content of "deterministic" is that the Rust is, which the
harness checks by lexing twice) -/
theorem deterministic (uc : UC) (s₁ s₂ : List Char) (h : s₁ = s₂) :
    tokenize uc s₁ = tokenize uc s₂ := h ▸ rfl

/-! ### (f) the debug assertions -/

/-- Every `debug_assert!` of the lexer holds and `depth -= 1` in `block_comment` never
underflows — provided the letters of `pragma` and `OPENQASM` are identifier starts. -/
theorem asserts_hold (uc : UC) (hu : KeywordLettersAreIdStart uc) (s : List Char) :
    ∀ t ∈ tokenize uc s, t.ok = true :=
  forall_tokenize uc (fun t => t.ok = true) (tokenAt_ok uc hu) s

theorem asserts_hold' (uc : UC) (hu : KeywordLettersAreIdStart uc) (s : List Char) :
    tokenizeOk uc s = true := by
  simp only [tokenizeOk, List.all_eq_true]
  exact asserts_hold uc hu s

/-! ### (g) `LexedStr` -/

/-- `LexedStr::new` returns normally: no byte slice is off a character boundary -/
theorem lexed_new_total (uc : UC) (s : List Char) : ∃ l, LexedStr.new uc s = some l :=
  ⟨_, new_eq uc s⟩

section
variable (uc : UC) (s : List Char) (l : LexedStr) (hl : LexedStr.new uc s = some l)
include hl

theorem lexed_eq : l = lexedOf uc s := by
  rw [new_eq] at hl; exact (Option.some.inj hl).symm

theorem lexed_text : l.text = s := by
  rw [lexed_eq uc s l hl]; rfl

/-- `start.len() == kind.len()` -/
theorem kinds_len_eq_starts_len : l.kind.length = l.start.length := by
  rw [lexed_eq uc s l hl]; simp [lexedOf, offsets_length]

/-- `LexedStr::len()` is the number of tokens; the kind vector ends with the `EOF` sentinel -/
theorem lexed_len : l.len = (tokenize uc s).length := by
  rw [lexed_eq uc s l hl]; exact lexedOf_len uc s

theorem kinds_last_eof : l.kind.getLast? = some .EOF := by
  rw [lexed_eq uc s l hl]; simp [lexedOf]

/-- the start offsets (sentinel included) are strictly increasing -/
theorem starts_strictly_increasing : List.Pairwise (· < ·) l.start := by
  rw [lexed_eq uc s l hl]
  have := offsets_pairwise (tokenize uc s) (fun t ht => (token_nonempty uc s t ht).1) 0
  have htx : texts (tokenize uc s) = s := tokenize_concat uc s
  simpa [lexedOf, htx] using this

theorem first_start_zero : l.start.head? = some 0 := by
  have := lexedOf_start uc s 0 (Nat.zero_le _)
  rw [lexed_eq uc s l hl, List.head?_eq_getElem?, this]
  simp [texts, utf8Len]

/-- the sentinel `EOF` entry starts at the byte length of the input -/
theorem last_start_eq_len : l.start.getLast? = some (utf8Len s) := by
  rw [lexed_eq uc s l hl]; simp [lexedOf]

/-- every start offset is at most the byte length of the input; hence the `as u32` casts are
lossless when `utf8Len s < 2^32` -/
theorem starts_le_len : ∀ x ∈ l.start, x ≤ utf8Len s := by
  intro x hx
  have hp := starts_strictly_increasing uc s l hl
  have hlast := last_start_eq_len uc s l hl
  obtain ⟨init, hinit⟩ : ∃ init, l.start = init ++ [utf8Len s] := by
    rw [lexed_eq uc s l hl]; exact ⟨_, rfl⟩
  rw [hinit] at hx hp
  rcases List.mem_append.mp hx with hx | hx
  · exact Nat.le_of_lt ((List.pairwise_append.mp hp).2.2 x hx _ (by simp))
  · simp at hx; omega

theorem starts_lt_u32 (h32 : utf8Len s < 2 ^ 32) : ∀ x ∈ l.start, x < 2 ^ 32 :=
  fun x hx => Nat.lt_of_le_of_lt (starts_le_len uc s l hl x hx) h32

/-- `kind(i)`: in range for every `i < len()`, and it is the kind of token `i` -/
theorem kind_ok (i : Nat) (hi : i < (tokenize uc s).length) :
    l.kindAt i = some (synKind (tokenize uc s)[i]) := by
  rw [lexed_eq uc s l hl]; exact lexedOf_kindAt uc s i hi

/-- `text(i)`: every index is in range, the byte slice is on character boundaries, and the
result is exactly the text of token `i` -/
theorem slice_ok (i : Nat) (hi : i < (tokenize uc s).length) :
    l.textAt i = some (tokenize uc s)[i].text := by
  rw [lexed_eq uc s l hl]; exact lexedOf_textAt uc s i hi

/-- `text_start(i)` for `i ≤ len()` is the byte length of the first `i` tokens -/
theorem text_start_ok (i : Nat) (hi : i ≤ (tokenize uc s).length) :
    l.textStart i = some (utf8Len (texts ((tokenize uc s).take i))) := by
  rw [lexed_eq uc s l hl]
  simp only [LexedStr.textStart, lexedOf_len, hi, if_true]
  exact lexedOf_start uc s i hi

/-- `text_range(i)` / `text_len(i)`: in range, `lo ≤ hi`, and the length is the token's `len` -/
theorem text_len_ok (i : Nat) (hi : i < (tokenize uc s).length) :
    l.textLen i = some (tokenize uc s)[i].len := by
  rw [lexed_eq uc s l hl]
  have hlen : (tokenize uc s)[i].len = utf8Len (tokenize uc s)[i].text :=
    (token_char_boundary uc s _ (List.getElem_mem hi)).1
  simp only [LexedStr.textLen, LexedStr.textRange, lexedOf_len, hi, if_true]
  rw [lexedOf_start uc s i (by omega), lexedOf_start uc s (i + 1) (by omega)]
  simp only [List.take_succ_eq_append_getElem hi, texts_append, utf8Len_append]
  rw [if_pos (by omega), hlen]
  simp [texts]

/-- error records point at tokens -/
theorem error_index_lt_len : ∀ e ∈ l.error, e.token < l.len := by
  rw [lexed_eq uc s l hl, lexedOf_len]
  intro e he
  have := specErrors_token (tokenize uc s) 0 e he
  omega

/-! ### (h) `to_input` -/

/-- `to_input` returns normally (every `kind(i)`, `text(i)`, `was_joint()` is in range), and
the joint bits are parallel to the kinds -/
theorem to_input_total : ∃ inp, l.toInput = some inp ∧ inp.joint.length = inp.kind.length := by
  have hlen := lexed_len uc s l hl
  obtain ⟨st, hst, hinv⟩ := toInputLoop_some l l.len 0 ⟨Input.empty, false⟩
    ⟨rfl, by simp⟩
    (fun j _ hj => by
      have hj' : j < (tokenize uc s).length := by omega
      exact ⟨by rw [kind_ok uc s l hl j hj']; rfl, by rw [slice_ok uc s l hl j hj']; rfl⟩)
  exact ⟨st.res, by simp [LexedStr.toInput, hst], hinv.1⟩

/-- `Input::is_joint(n)` is in range for every token index (and one word beyond) -/
theorem is_joint_total (inp : Input) (hi : l.toInput = some inp) (n : Nat) (hn : n < inp.len) :
    ∃ b, inp.isJoint n = some b := by
  obtain ⟨inp', h1, h2⟩ := to_input_total uc s l hl
  rw [hi] at h1; cases h1
  refine ⟨inp.joint.getD n false, ?_⟩
  unfold Input.isJoint
  rw [if_pos]
  simp only [Input.len] at hn
  omega

end

/-! ### non-vacuity: concrete token streams, evaluated by the kernel -/

/-- ASCII-only class functions: letters are `XID_Start`, letters/digits/`_` are `XID_Continue`,
no emoji -/
def ucAscii : UC where
  xidStart c := ('a' ≤ c && c ≤ 'z') || ('A' ≤ c && c ≤ 'Z')
  xidContinue c := ('a' ≤ c && c ≤ 'z') || ('A' ≤ c && c ≤ 'Z') || ('0' ≤ c && c ≤ '9') || c == '_'
  isEmoji _ := false

theorem ucAscii_letters : KeywordLettersAreIdStart ucAscii := by
  unfold KeywordLettersAreIdStart; decide

/-- view of a token stream: kind, len, text -/
def view (ts : List Token) : List (TokenKind × Nat × List Char) :=
  ts.map fun t => (t.kind, t.len, t.text)

example : view (tokenize ucAscii ['a', ' ', '1', '.', '5', 'e']) =
    [(.ident, 1, ['a']), (.whitespace, 1, [' ']),
     (.literal (.float .decimal true) 4, 4, ['1', '.', '5', 'e'])] := by decide

example : view (tokenize ucAscii ['/', '*', '/', '*', '*', '/', 'x']) =
    [(.blockComment false, 7, ['/', '*', '/', '*', '*', '/', 'x'])] := by decide

example : view (tokenize ucAscii ['3', 'n', 's', ';']) =
    [(.literal (.int .decimal false) 1, 1, ['3']), (.ident, 2, ['n', 's']), (.semi, 1, [';'])] := by
  decide

example : view (tokenize ucAscii ['"', '0', '_', '_', '1', '"', 'µ']) =
    [(.literal (.bitStr true true) 6, 6, ['"', '0', '_', '_', '1', '"']), (.unknown, 2, ['µ'])] := by
  decide

/-- `$_` is one `Dollar` token of length 2 -/
example : view (tokenize ucAscii ['$', '_', '$', '7']) =
    [(.dollar, 2, ['$', '_']), (.hardwareIdent, 2, ['$', '7'])] := by decide

example : (LexedStr.new ucAscii ['a', ' ', '1', '.', '5', 'e']).map (fun l => (l.kind, l.start)) =
    some ([.IDENT, .WHITESPACE, .FLOAT_NUMBER, .EOF], [0, 1, 2, 6]) := by decide

example : ((LexedStr.new ucAscii ['a', ' ', '1', '.', '5', 'e']).bind (·.toInput)) =
    some ⟨[.IDENT, .FLOAT_NUMBER], [false, true]⟩ := by decide

example : (tokenize ucAscii ['p', 'r', 'a', 'g', 'x', ' ', '#', 'd', 'i']).all (·.ok) = true := by
  decide

/-- The hypothesis of `asserts_hold` is necessary: with class functions for which `p` is not an
identifier start, `debug_assert!(is_id_start(self.prev()))` fails on the input `p`. -/
theorem witness_assert_needs_tables :
    ∃ uc : UC, tokenizeOk uc ['p'] = false :=
  ⟨⟨fun _ => false, fun _ => false, fun _ => false⟩, by decide⟩

end Oq3.Props.C14
