/-
C08 — expressions are typed consistently; conversions are explicit or diagnosed.

Part 1  `WT S e`: the typing predicate on ASG expressions (relative to a symbol vector `S`), and
        `well_typed`: every expression returned by `exprToAsgTexpr` — any fuel, any context —
        satisfies it, deeply (all sub-expressions), w.r.t. every symbol vector that extends the
        final one.  Proof: a Hoare-style specification `Spec` pushed through the twelve functions
        of the expression part of the mutual block by a proof script (one `_step` lemma per
        function, then induction on fuel), as in `Lemmas/GrammarInv.lean`.
Part 2  `decl_decision_partial`, `assign_decision_partial` and the guards `kf…` of the regions in
        which the unchanged code accepts silently; `witness_*` (closed programs, kernel-evaluated).
Part 3  `no_silent_downward_*`.
-/
import Lean
import Oq3.Model.Sema
import Oq3.Props.C19
import Oq3.Props.C20

namespace Oq3.Props.C08
open Oq3 Oq3.Types Oq3.Symbols Oq3.Sema

/-! ### successful runs in `M = StateT Ctx (Except Outcome)` -/

theorem M.bind_ok {α β} (x : M α) (f : α → M β) (s : Ctx) (r : β × Ctx) :
    (x >>= f) s = .ok r ↔ ∃ a s1, x s = .ok (a, s1) ∧ f a s1 = .ok r := by
  show (StateT.bind x f) s = .ok r ↔ _
  unfold StateT.bind
  simp only [bind, Except.bind]
  cases x s with
  | error e => simp
  | ok p =>
    obtain ⟨a, s1⟩ := p
    simp only [Except.ok.injEq, Prod.mk.injEq]
    constructor
    · intro h; exact ⟨a, s1, ⟨rfl, rfl⟩, h⟩
    · rintro ⟨_, _, ⟨rfl, rfl⟩, h⟩; exact h

theorem M.map_ok {α β} (f : α → β) (x : M α) (s : Ctx) (r : β × Ctx) :
    (f <$> x) s = .ok r ↔ ∃ a s1, x s = .ok (a, s1) ∧ r = (f a, s1) := by
  show (StateT.map f x) s = .ok r ↔ _
  unfold StateT.map
  simp only [bind, Except.bind, pure, Except.pure]
  cases x s with
  | error e => simp
  | ok p =>
    obtain ⟨a, s1⟩ := p
    simp only [Except.ok.injEq, Prod.mk.injEq]
    constructor
    · intro h; exact ⟨a, s1, ⟨rfl, rfl⟩, h.symm⟩
    · rintro ⟨_, _, ⟨rfl, rfl⟩, h⟩; exact h.symm

@[simp] theorem M.pure_ok {α} (a : α) (s : Ctx) (r : α × Ctx) :
    (pure a : M α) s = .ok r ↔ r = (a, s) := by
  show Except.ok (a, s) = Except.ok r ↔ _
  constructor <;> intro h <;> simp_all

@[simp] theorem M.get_ok (s : Ctx) (r : Ctx × Ctx) : (get : M Ctx) s = .ok r ↔ r = (s, s) := by
  show Except.ok (s, s) = Except.ok r ↔ _
  constructor <;> intro h <;> simp_all

@[simp] theorem M.set_ok (s0 s : Ctx) (r : PUnit × Ctx) :
    (set s0 : M PUnit) s = .ok r ↔ r = (⟨⟩, s0) := by
  show Except.ok (PUnit.unit, s0) = Except.ok r ↔ _
  constructor <;> intro h <;> simp_all

@[simp] theorem M.modify_ok (f : Ctx → Ctx) (s : Ctx) (r : PUnit × Ctx) :
    (modify f : M PUnit) s = .ok r ↔ r = (⟨⟩, f s) := by
  show Except.ok (PUnit.unit, f s) = Except.ok r ↔ _
  constructor <;> intro h <;> simp_all

@[simp] theorem M.fail_ok {α} (site : String) (s : Ctx) (r : α × Ctx) :
    (fail site : M α) s = .ok r ↔ False := by
  show Except.error _ = Except.ok r ↔ _
  simp

@[simp] theorem M.throw_ok {α} (o : Outcome) (s : Ctx) (r : α × Ctx) :
    (throw o : M α) s = .ok r ↔ False := by
  show Except.error _ = Except.ok r ↔ _
  simp

@[simp] theorem exists2_eq {α β : Type} {a0 : α} {b0 : β} {Q : α → β → Prop} :
    (∃ a b, (a = a0 ∧ b = b0) ∧ Q a b) ↔ Q a0 b0 := by
  constructor
  · rintro ⟨_, _, ⟨rfl, rfl⟩, h⟩; exact h
  · intro h; exact ⟨a0, b0, ⟨rfl, rfl⟩, h⟩

@[simp] theorem M.get_bind_ok {β} (f : Ctx → M β) (s : Ctx) (r : β × Ctx) :
    (get >>= f) s = .ok r ↔ f s s = .ok r := by
  rw [M.bind_ok]; simp

@[simp] theorem M.set_bind_ok {β} (s0 : Ctx) (f : PUnit → M β) (s : Ctx) (r : β × Ctx) :
    (set s0 >>= f) s = .ok r ↔ f ⟨⟩ s0 = .ok r := by
  rw [M.bind_ok]; simp
  exact ⟨fun ⟨⟨⟩, h⟩ => h, fun h => ⟨⟨⟩, h⟩⟩

@[simp] theorem M.modify_bind_ok {β} (g : Ctx → Ctx) (f : PUnit → M β) (s : Ctx) (r : β × Ctx) :
    (modify g >>= f) s = .ok r ↔ f ⟨⟩ (g s) = .ok r := by
  rw [M.bind_ok]; simp
  exact ⟨fun ⟨⟨⟩, h⟩ => h, fun h => ⟨⟨⟩, h⟩⟩

@[simp] theorem M.pure_bind_ok {α β} (a : α) (f : α → M β) (s : Ctx) (r : β × Ctx) :
    (pure a >>= f) s = .ok r ↔ f a s = .ok r := by
  rw [M.bind_ok]; simp

theorem M.unwrap_ok {α} (site : String) (o : Option α) (s : Ctx) (r : α × Ctx) :
    (unwrap site o) s = .ok r ↔ o = some r.1 ∧ r.2 = s := by
  cases o with
  | none => simp [unwrap]
  | some a =>
    simp only [unwrap, M.pure_ok, Option.some.injEq]
    constructor
    · rintro rfl; exact ⟨rfl, rfl⟩
    · rintro ⟨rfl, rfl⟩; rfl

/-! ### the specification format -/

/-- the symbol vector only grows (symbol ids are stable) -/
def Ext (c c' : Ctx) : Prop := c.symbolTable.all <+: c'.symbolTable.all

theorem Ext.refl (c : Ctx) : Ext c c := List.prefix_refl _
theorem Ext.trans {a b c : Ctx} (h1 : Ext a b) (h2 : Ext b c) : Ext a c := List.IsPrefix.trans h1 h2

/-- on every successful run of `x` the symbol vector only grows, and the result satisfies `R`
provided `S` extends the final symbol vector -/
structure Spec (S : List Sym) {α} (x : M α) (R : α → Prop) : Prop where
  run : ∀ c a c', x c = .ok (a, c') → Ext c c' ∧ (c'.symbolTable.all <+: S → R a)

variable {S : List Sym}

theorem Spec.pure {α} {a : α} {R : α → Prop} (h : R a) : Spec S (pure a : M α) R := by
  refine ⟨fun c a' c' hr => ?_⟩
  simp only [M.pure_ok, Prod.mk.injEq] at hr
  obtain ⟨rfl, rfl⟩ := hr
  exact ⟨Ext.refl _, fun _ => h⟩

theorem Spec.pure_eq {α} (a : α) : Spec S (Pure.pure a : M α) (fun b => b = a) := Spec.pure rfl

theorem Spec.bind {α β} {x : M α} {f : α → M β} {R1 : α → Prop} {R2 : β → Prop}
    (hx : Spec S x R1) (hf : ∀ a, Spec S (f a) (fun b => R1 a → R2 b)) : Spec S (x >>= f) R2 := by
  refine ⟨fun c b c' hr => ?_⟩
  obtain ⟨a, c1, h1, h2⟩ := (M.bind_ok x f c (b, c')).mp hr
  obtain ⟨e1, r1⟩ := hx.run c a c1 h1
  obtain ⟨e2, r2⟩ := (hf a).run c1 b c' h2
  exact ⟨e1.trans e2, fun hS => r2 hS (r1 (List.IsPrefix.trans e2 hS))⟩

theorem Spec.mono {α} {x : M α} {R R' : α → Prop} (hx : Spec S x R) (h : ∀ a, R a → R' a) :
    Spec S x R' := by
  refine ⟨fun c a c' hr => ?_⟩
  obtain ⟨e, r⟩ := hx.run c a c' hr
  exact ⟨e, fun hS => h a (r hS)⟩

theorem Spec.fail {α} (site : String) (R : α → Prop) : Spec S (fail site : M α) R := by
  refine ⟨fun c a c' hr => ?_⟩; simp at hr

theorem Spec.throw {α} (o : Outcome) (R : α → Prop) : Spec S (throw o : M α) R := by
  refine ⟨fun c a c' hr => ?_⟩; simp at hr

theorem Spec.unwrap {α} (site : String) (o : Option α) :
    Spec S (unwrap site o) (fun a => o = some a) := by
  refine ⟨fun c a c' hr => ?_⟩
  obtain ⟨h1, h2⟩ := (M.unwrap_ok site o c (a, c')).mp hr
  simp only at h1 h2
  subst h2
  exact ⟨Ext.refl _, fun _ => h1⟩

theorem Spec.ite {α} (p : Prop) [Decidable p] {x y : M α} {R : α → Prop} (hx : Spec S x R)
    (hy : Spec S y R) : Spec S (if p then x else y) R := by
  split <;> assumption

/-- a computation that leaves the symbol table alone -/
theorem Spec.of_symtab_eq {α} {x : M α} {R : α → Prop}
    (h : ∀ c a c', x c = .ok (a, c') → c'.symbolTable = c.symbolTable ∧ R a) : Spec S x R := by
  refine ⟨fun c a c' hr => ?_⟩
  obtain ⟨h1, h2⟩ := h c a c' hr
  exact ⟨by unfold Ext; rw [h1]; exact List.prefix_refl _, fun _ => h2⟩

theorem Spec.insertError (k : SemanticErrorKind) (node : Ast.Span) :
    Spec S (insertError k node) (fun _ => True) := by
  apply Spec.of_symtab_eq
  intro c a c' hr
  simp only [Sema.insertError, M.modify_ok, Prod.mk.injEq] at hr
  obtain ⟨_, rfl⟩ := hr
  exact ⟨rfl, trivial⟩

theorem Spec.currentScopeType : Spec S currentScopeType (fun _ => True) := by
  apply Spec.of_symtab_eq
  intro c a c' hr
  simp only [Sema.currentScopeType, M.get_bind_ok] at hr
  cases hst : c.symbolTable.stack with
  | nil => simp [hst] at hr
  | cons s rest =>
    simp only [hst, M.pure_ok, Prod.mk.injEq] at hr; exact ⟨by rw [hr.2], trivial⟩

theorem Spec.inGlobalScope : Spec S inGlobalScope (fun _ => True) := by
  unfold Sema.inGlobalScope
  exact Spec.bind Spec.currentScopeType (fun _ => Spec.pure (fun _ => trivial))

/-- what one table step does to the context -/
theorem symStep_ok (site : String) (op : Op) (c : Ctx) (o : Out) (c' : Ctx)
    (h : symStep site op c = .ok (o, c')) :
    (c.symbolTable.step op).2 = o ∧ c' = { c with symbolTable := (c.symbolTable.step op).1 } := by
  simp only [symStep, M.get_bind_ok] at h
  cases ho : (c.symbolTable.step op).2 <;> simp only [ho] at h <;>
    first
    | (simp at h; done)
    | (simp only [M.set_bind_ok, M.pure_ok, Prod.mk.injEq] at h
       exact ⟨h.1.symm, h.2⟩)

theorem Spec.symStep (site : String) (op : Op) : Spec S (symStep site op) (fun _ => True) := by
  refine ⟨fun c o c' hr => ?_⟩
  obtain ⟨_, rfl⟩ := symStep_ok site op c o c' hr
  exact ⟨C19.all_prefix_step _ _, fun _ => trivial⟩

/-! ### the typing predicate -/

/-- the type the symbol vector gives to a lookup result: the symbol's type, `Undefined` for a
failed lookup (`SymbolRecordResult::as_tuple`) -/
def SymTyped (S : List Sym) (sym : SymbolIdResult) (t : T) : Prop :=
  match sym with
  | .ok id => ∃ name, S[id]? = some ⟨name, t⟩
  | .error _ => t = .undefined

/-- `MeasureExpression::to_texpr`: the bit shape of the operand -/
def measureShape : T → T
  | .qubit | .hwqubit => .bit false
  | .qubitArray dims => .bitArray dims false
  | _ => .undefined

/-- the type each literal class gets (all const).  NB the imaginary INTEGER literal is
`int[64]`, not complex (`witness_imaginary_int_not_complex`). -/
def literalType : Literal → Option T
  | .bool _ => some (.boolT true)
  | .int _ _ => some (.int (some 128) true)
  | .float _ => some (.float (some 64) true)
  | .imaginaryInt _ _ => some (.int (some 64) true)
  | .imaginaryFloat _ => some (.complex (some 64) true)
  | .bitString v =>
    some (.bitArray (.d1 ((v.toList.filter (fun c => c == '0' || c == '1')).length)) true)
  | .timingIntLiteral .. => some (.duration true)
  | .timingFloatLiteral .. => some (.duration true)
  | .array => none

def ixTexprs : IndexOperator → List TExpr
  | .setExpression es => es
  | .expressionList es => es

/-- an arithmetic operand: already of the node's type, or an explicit cast to it -/
def Operand (orig : TExpr) (τ : T) (actual : TExpr) : Prop :=
  (actual = orig ∧ orig.getType = τ) ∨ (actual = castToTexpr orig τ ∧ orig.getType ≠ τ)

/-- **the typing rules the semantic pass implements.**  Forms with no rule (`nullExpr`, a bare
`setExpression`, `unaryExpr` other than minus, `powerOp`, the `array` literal) never occur. -/
inductive WT (S : List Sym) : TExpr → Prop
  /-- an identifier has the type of its symbol (`Undefined` when the lookup failed) -/
  | identifier {sym t} : SymTyped S sym t → WT S (.mk (.identifier sym) t)
  /-- a literal has the type of its literal class, const -/
  | literal {l t} : literalType l = some t → WT S (.mk (.literal l) t)
  /-- a cast has its target type -/
  | cast {e t} : WT S e → WT S (.mk (.cast e t) t)
  /-- a measurement has the bit shape of its operand -/
  | measure {e} : WT S e → WT S (.mk (.measureExpression e) (measureShape e.getType))
  /-- unary minus has the operand's type -/
  | minus {e} : WT S e → WT S (.mk (.unaryExpr .minus e) e.getType)
  /-- an arithmetic node has the type `τ = implicit_cast_type(op, τ₁, τ₂)` and each operand is of
  type `τ` or is `Cast(_, τ)` -/
  | arith {op l0 r0 l r} : WT S l0 → WT S r0 →
      Operand l0 (implicitCastType op l0.getType r0.getType) l →
      Operand r0 (implicitCastType op l0.getType r0.getType) r →
      WT S (.mk (.binaryExpr (.arithOp op) l r) (implicitCastType op l0.getType r0.getType))
  /-- `==`, `!=`: the code assigns `ToDo`, operands untouched -/
  | cmp {op l r} : WT S l → WT S r → WT S (.mk (.binaryExpr (.cmpOp op) l r) .todo)
  /-- `++` (and `**`, which `binary_op_to_asg_type` maps to concatenation): `ToDo` -/
  | concat {l r} : WT S l → WT S r → WT S (.mk (.binaryExpr .concatenationOp l r) .todo)
  | hardwareQubit {name} : WT S (.mk (.hardwareQubit name) .hwqubit)
  /-- index expressions are `ToDo` -/
  | indexExpression {e ix} : WT S e → (∀ x, x ∈ ixTexprs ix → WT S x) →
      WT S (.mk (.indexExpression e ix) .todo)
  | indexedIdentifier {sym ixs} : (∀ ix, ix ∈ ixs → ∀ x, x ∈ ixTexprs ix → WT S x) →
      WT S (.mk (.indexedIdentifier (.mk sym ixs)) .todo)
  /-- gate operands carry the type of the symbol (of the whole register when indexed) -/
  | gateOperandIdent {sym t} : SymTyped S sym t → WT S (.mk (.gateOperand (.identifier sym)) t)
  | gateOperandHw {name} : WT S (.mk (.gateOperand (.hardwareQubit name)) .hwqubit)
  | gateOperandIndexed {sym ixs t} : SymTyped S sym t →
      (∀ ix, ix ∈ ixs → ∀ x, x ∈ ixTexprs ix → WT S x) →
      WT S (.mk (.gateOperand (.indexedIdentifier (.mk sym ixs))) t)
  /-- `return e` has the type of `e`; `return` is `Void` -/
  | returnSome {e} : WT S e → WT S (.mk (.returnExpr (some e)) e.getType)
  | returnNone : WT S (.mk (.returnExpr none) .void)
  /-- a call has the return type recorded in the subroutine's symbol -/
  | call {id name n ret params} : S[id]? = some ⟨name, .subroutine n ret⟩ →
      (∀ ps, params = some ps → ∀ x, x ∈ ps → WT S x) →
      WT S (.mk (.subroutineCall (.ok id) params) ret)
  | range {a b c} : WT S a → (∀ x, b = some x → WT S x) → WT S c →
      WT S (.mk (.rangeExpression a b c) .range)

/-- results of the various functions -/
def OptWT (S : List Sym) : Option TExpr → Prop
  | some e => WT S e
  | none => True

def ListWT (S : List Sym) (es : List TExpr) : Prop := ∀ x, x ∈ es → WT S x

@[simp] theorem optWT_some (e : TExpr) : OptWT S (some e) ↔ WT S e := Iff.rfl
@[simp] theorem optWT_none : OptWT S none ↔ True := Iff.rfl
@[simp] theorem listWT_nil : ListWT S [] ↔ True := by simp [ListWT]
@[simp] theorem listWT_cons (e : TExpr) (es : List TExpr) :
    ListWT S (e :: es) ↔ WT S e ∧ ListWT S es := by simp [ListWT]

/-! ### the computing constructors of asg.rs produce well-typed nodes -/

theorem wt_castToTexpr {e : TExpr} (t : T) (h : WT S e) : WT S (castToTexpr e t) := .cast h

theorem wt_measure {e : TExpr} (h : WT S e) : WT S (measureExpressionToTexpr e) := by
  have : measureExpressionToTexpr e = .mk (.measureExpression e) (measureShape e.getType) := by
    unfold measureExpressionToTexpr measureShape
    cases e.getType <;> rfl
  rw [this]; exact .measure h

theorem wt_minus {e : TExpr} (h : WT S e) : WT S (unaryExprToTexpr .minus e) := .minus h

theorem wt_newTexprWithCast (op : BinaryOp) (hop : op ≠ .powerOp) {l r : TExpr} (hl : WT S l)
    (hr : WT S r) : WT S (newTexprWithCast op l r) := by
  cases op with
  | arithOp a =>
    simp only [newTexprWithCast]
    refine .arith hl hr ?_ ?_
    · by_cases h : implicitCastType a l.getType r.getType = l.getType
      · rw [if_pos h]; exact .inl ⟨rfl, h.symm⟩
      · rw [if_neg h]; exact .inr ⟨rfl, fun h' => h h'.symm⟩
    · by_cases h : implicitCastType a l.getType r.getType = r.getType
      · rw [if_pos h]; exact .inl ⟨rfl, h.symm⟩
      · rw [if_neg h]; exact .inr ⟨rfl, fun h' => h h'.symm⟩
  | cmpOp c => exact .cmp hl hr
  | concatenationOp => exact .concat hl hr
  | powerOp => exact absurd rfl hop

theorem wt_literal {l : Literal} {t : T} (h : literalType l = some t) : WT S (.mk (.literal l) t) :=
  .literal h

theorem wt_range {a c : TExpr} {b : Option TExpr} (ha : WT S a) (hb : OptWT S b) (hc : WT S c) :
    WT S (rangeExpressionToTexpr a b c) := by
  refine .range ha ?_ hc
  intro x hx; subst hx; exact hb

theorem wt_return {v : Option TExpr} (h : OptWT S v) : WT S (returnExpressionToTexpr v) := by
  cases v with
  | none => exact .returnNone
  | some e => exact .returnSome h

theorem wt_hardwareQubit (h : Ast.HardwareQubit) : WT S (hardwareQubitToAsgTexpr h) := .hardwareQubit

/-- parameter lists of calls -/
def OptListWT (S : List Sym) : Option (List TExpr) → Prop
  | some ps => ListWT S ps
  | none => True

theorem wt_call {sym : SymbolIdResult} {t ret : T} {n : Nat} {params : Option (List TExpr)}
    (h1 : SymTyped S sym t) (h2 : t = .subroutine n ret) (h3 : OptListWT S params) :
    WT S (subroutineCallToTexpr sym params ret) := by
  subst h2
  cases sym with
  | error e => cases h1
  | ok id =>
    obtain ⟨name, hn⟩ := h1
    refine .call hn ?_
    intro ps hps; subst hps; exact h3

def IxWT (S : List Sym) (ix : IndexOperator) : Prop := ListWT S (ixTexprs ix)

def IxsWT (S : List Sym) (ixs : List IndexOperator) : Prop := ∀ ix, ix ∈ ixs → IxWT S ix

/-- an `IndexedIdentifier` and the type returned next to it -/
def IIWT (S : List Sym) : IndexedIdentifier → T → Prop
  | .mk sym ixs, t => SymTyped S sym t ∧ IxsWT S ixs

theorem wt_indexExpression {e : TExpr} {ix : IndexOperator} (h1 : WT S e) (h2 : IxWT S ix) :
    WT S (indexExpressionToTexpr e ix) := .indexExpression h1 h2

theorem wt_indexedIdentifier {ii : IndexedIdentifier} {t : T} (h : IIWT S ii t) :
    WT S (indexedIdentifierToTexpr ii) := by
  cases ii with
  | mk sym ixs => exact .indexedIdentifier h.2

theorem wt_gateOperand_ident {sym : SymbolIdResult} {t : T} (h : SymTyped S sym t) :
    WT S (gateOperandToTexpr (.identifier sym) t) := .gateOperandIdent h

theorem wt_gateOperand_hw (name : String) :
    WT S (gateOperandToTexpr (.hardwareQubit name) .hwqubit) := .gateOperandHw

theorem wt_gateOperand_indexed {ii : IndexedIdentifier} {t : T} (h : IIWT S ii t) :
    WT S (gateOperandToTexpr (.indexedIdentifier ii) t) := by
  cases ii with
  | mk sym ixs => exact .gateOperandIndexed h.1 h.2

theorem ixWT_set {es : List TExpr} (h : ListWT S es) : IxWT S (.setExpression es) := h
theorem ixWT_list {es : List TExpr} (h : ListWT S es) : IxWT S (.expressionList es) := h

theorem iiWT_mk {sym : SymbolIdResult} {t : T} {ixs : List IndexOperator} (h1 : SymTyped S sym t)
    (h2 : IxsWT S ixs) : IIWT S (.mk sym ixs) t := ⟨h1, h2⟩

theorem ixsWT_nil : IxsWT S [] := by intro ix h; cases h
theorem ixsWT_cons {ix : IndexOperator} {ixs : List IndexOperator} (h1 : IxWT S ix)
    (h2 : IxsWT S ixs) : IxsWT S (ix :: ixs) := by
  intro x hx
  cases hx with
  | head => exact h1
  | tail _ h => exact h2 x h

theorem listWT_cons' {e : TExpr} {es : List TExpr} (h1 : WT S e) (h2 : ListWT S es) :
    ListWT S (e :: es) := (listWT_cons e es).mpr ⟨h1, h2⟩

/-! ### primitives of the pass -/

theorem Spec.bind_unit {β} {x : M PUnit} {f : PUnit → M β} {R2 : β → Prop}
    (hx : Spec S x (fun _ => True)) (hf : Spec S (f ⟨⟩) R2) : Spec S (x >>= f) R2 :=
  Spec.bind hx (fun _ => Spec.mono hf (fun _ h _ => h))

theorem tableLookup_ok (name : String) (c : Ctx) (r : SymbolIdResult × T) (c' : Ctx)
    (h : tableLookup name c = .ok (r, c')) :
    c'.symbolTable = c.symbolTable ∧ SymTyped c.symbolTable.all r.1 r.2 := by
  simp only [tableLookup, M.bind_ok] at h
  obtain ⟨o, c1, h1, h2⟩ := h
  obtain ⟨ho, rfl⟩ := symStep_ok _ _ _ _ _ h1
  simp only [SymTab.step] at ho h2 ⊢
  cases hl : c.symbolTable.lookupId name with
  | none =>
    simp only [hl] at ho h2 ⊢
    subst ho
    simp only [M.pure_ok, Prod.mk.injEq] at h2
    obtain ⟨rfl, rfl⟩ := h2
    exact ⟨rfl, rfl⟩
  | some id =>
    simp only [hl] at ho h2 ⊢
    cases hg : c.symbolTable.all[id]? with
    | none => simp only [hg] at ho; subst ho; simp at h2
    | some sy =>
      simp only [hg] at ho h2 ⊢
      subst ho
      simp only [M.pure_ok, Prod.mk.injEq] at h2
      obtain ⟨rfl, rfl⟩ := h2
      exact ⟨rfl, ⟨sy.name, hg⟩⟩

theorem SymTyped.of_prefix {S0 : List Sym} {sym : SymbolIdResult} {t : T} (h : SymTyped S0 sym t)
    (hp : S0 <+: S) : SymTyped S sym t := by
  cases sym with
  | error e => exact h
  | ok id =>
    obtain ⟨name, hn⟩ := h
    obtain ⟨rest, rfl⟩ := hp
    refine ⟨name, ?_⟩
    have hlt : id < S0.length := by
      rcases Nat.lt_or_ge id S0.length with h | h
      · exact h
      · rw [List.getElem?_eq_none h] at hn; cases hn
    rw [List.getElem?_append_left hlt]; exact hn

theorem Spec.tableLookup (name : String) :
    Spec S (tableLookup name) (fun r => SymTyped S r.1 r.2) := by
  refine ⟨fun c r c' h => ?_⟩
  obtain ⟨h1, h2⟩ := tableLookup_ok name c r c' h
  refine ⟨by unfold Ext; rw [h1]; exact List.prefix_refl _, fun hS => ?_⟩
  rw [h1] at hS
  exact h2.of_prefix hS

/-! ### the proof script -/

open Lean Elab Tactic Meta in
/-- the program `x` of a goal `Spec S x R` -/
def specProgram (g : MVarId) : MetaM (Option Lean.Expr) := do
  let t ← instantiateMVars (← g.getType)
  let t := t.consumeMData
  if t.isAppOfArity ``Spec 4 then return some (t.getArg! 2).consumeMData else return none

open Lean Elab Tactic Meta in
/-- succeeds iff the goal is `Spec S x R` and the head symbol of `x` is the given constant
(a cheap guard in front of every rule: a failing `exact` on these large terms is expensive) -/
elab "spec_head " id:ident : tactic => withMainContext do
  let n ← realizeGlobalConstNoOverloadWithInfo id
  match ← specProgram (← getMainGoal) with
  | some x =>
    match x.getAppFn.consumeMData with
    | Lean.Expr.const m _ => if m == n then pure () else throwError "head"
    | _ => throwError "head"
  | none => throwError "not a Spec goal"

open Lean Elab Tactic Meta in
/-- succeeds iff the goal is `Spec S x R` and `x` is an `if` or a `match` -/
elab "spec_is_split" : tactic => withMainContext do
  match ← specProgram (← getMainGoal) with
  | some x =>
    match x.getAppFn.consumeMData with
    | Lean.Expr.const m _ =>
      if m == ``ite || m == ``dite then pure ()
      else if (← isMatcher m) then pure ()
      else throwError "not a split"
    | _ => throwError "not a split"
  | none => throwError "not a Spec goal"

open Lean Elab Tactic Meta in
/-- succeeds iff the goal is `Spec S (x >>= f) R` and `x` is an `if` or a `match` (its branches
cannot determine a common postcondition by unification: the weakest one is used) -/
elab "spec_bind_is_split" : tactic => withMainContext do
  match ← specProgram (← getMainGoal) with
  | some p =>
    if p.isAppOfArity ``Bind.bind 6 then
      match (p.getArg! 4).consumeMData.getAppFn.consumeMData with
      | Lean.Expr.const m _ =>
        if m == ``ite || m == ``dite then pure ()
        else if (← isMatcher m) then pure ()
        else throwError "not a split"
      | _ => throwError "not a split"
    else throwError "not a bind"
  | none => throwError "not a Spec goal"

/-- extensible: closing a pure side goal about well-typedness -/
syntax "wt_close" : tactic
macro_rules | `(tactic| wt_close) => `(tactic| first
  | done
  | trivial
  | assumption
  | (with_reducible refine And.intro ?_ ?_ <;> wt_close))

/-- a leaf: the accumulated facts imply the postcondition -/
macro "spec_leaf" : tactic => `(tactic|
  (try simp only [and_imp]
   all_goals
    (intros
     subst_vars
     try simp only [optWT_some, optWT_none, listWT_nil, and_true, true_and,
       forall_const, imp_self] at *
     wt_close)))

/-- use a specification: directly, or weakened to the postcondition at hand -/
syntax "spec_use " term : tactic
macro_rules | `(tactic| spec_use $t) => `(tactic| first
  | with_reducible exact $t
  | ((with_reducible refine Spec.mono $t ?_); spec_leaf))

/-- extensible: specifications of already-treated functions -/
syntax "spec_lemma" : tactic
macro_rules | `(tactic| spec_lemma) => `(tactic| fail "no lemma")

/-- extensible: induction hypotheses of the mutual block (local names `h_<fn>`) -/
syntax "spec_ih" : tactic
macro_rules | `(tactic| spec_ih) => `(tactic| fail "no ih")

macro "spec_step" : tactic => `(tactic| first
  | (cases ‹_ + 1 = Nat.succ _›)
  | (spec_head Sema.fail; first
      | with_reducible exact Spec.fail _ _
      | with_reducible exact Spec.fail _ (fun _ => True)
      | exact Spec.fail _ _)
  | (spec_head throw; with_reducible exact Spec.throw _ _)
  | (spec_head Sema.unwrap; spec_use (Spec.unwrap _ _))
  | (spec_head Sema.insertError; spec_use (Spec.insertError _ _))
  | (spec_head Sema.currentScopeType; spec_use Spec.currentScopeType)
  | (spec_head Sema.inGlobalScope; spec_use Spec.inGlobalScope)
  | (spec_head Sema.tableLookup; spec_use (Spec.tableLookup _))
  | spec_lemma
  | spec_ih
  | (spec_head Bind.bind; first
      | with_reducible apply Spec.bind_unit
      | (spec_bind_is_split; with_reducible apply Spec.bind (R1 := fun _ => True))
      | with_reducible apply Spec.bind)
  | intro _
  | (spec_is_split; split)
  | (spec_head Pure.pure; first
      | with_reducible exact Spec.pure_eq _
      | ((with_reducible refine Spec.pure ?_); spec_leaf))
  | dsimp only)

macro "spec" : tactic => `(tactic| repeat' spec_step)

theorem Spec.lookupSymbol (name : String) (node : Ast.Span) :
    Spec S (lookupSymbol name node) (fun r => SymTyped S r.1 r.2) := by
  unfold Sema.lookupSymbol; spec
macro_rules | `(tactic| spec_lemma) => `(tactic| (spec_head Sema.lookupSymbol; spec_use (Spec.lookupSymbol _ _)))

theorem Spec.lookupGateSymbol (name : String) (node : Ast.Span) :
    Spec S (lookupGateSymbol name node) (fun r => SymTyped S r.1 r.2) := by
  unfold Sema.lookupGateSymbol; spec
macro_rules | `(tactic| spec_lemma) => `(tactic| (spec_head Sema.lookupGateSymbol; spec_use (Spec.lookupGateSymbol _ _)))

theorem Spec.lookupIdentifier (i : Ast.Identifier) :
    Spec S (lookupIdentifier i) (fun r => SymTyped S r.1 r.2) := Spec.lookupSymbol _ _
macro_rules | `(tactic| spec_lemma) => `(tactic| (spec_head Sema.lookupIdentifier; spec_use (Spec.lookupIdentifier _)))

theorem Spec.binaryOpToAsgType (op : Ast.BinaryOp) :
    Spec S (binaryOpToAsgType op) (fun r => r ≠ .powerOp) := by
  unfold Sema.binaryOpToAsgType
  split <;> first
    | exact Spec.fail _ _
    | (refine Spec.pure ?_; intro h; cases h)
macro_rules | `(tactic| spec_lemma) => `(tactic| (spec_head Sema.binaryOpToAsgType; spec_use (Spec.binaryOpToAsgType _)))

theorem Spec.intNumberValue (site text : String) :
    Spec S (intNumberValue site text) (fun _ => True) := by
  unfold Sema.intNumberValue; spec
macro_rules | `(tactic| spec_lemma) => `(tactic| (spec_head Sema.intNumberValue; spec_use (Spec.intNumberValue _ _)))

theorem Spec.negativeIntToAsgType (text : String) :
    Spec S (negativeIntToAsgType text) (fun _ => True) := by
  unfold Sema.negativeIntToAsgType; spec
macro_rules | `(tactic| spec_lemma) => `(tactic| (spec_head Sema.negativeIntToAsgType; spec_use (Spec.negativeIntToAsgType _)))

theorem Spec.negativeFloatNumberToAsgType (fmt : Option String) :
    Spec S (negativeFloatNumberToAsgType fmt) (fun _ => True) := by
  unfold Sema.negativeFloatNumberToAsgType; spec
macro_rules | `(tactic| spec_lemma) => `(tactic| (spec_head Sema.negativeFloatNumberToAsgType; spec_use (Spec.negativeFloatNumberToAsgType _)))

macro_rules | `(tactic| wt_close) => `(tactic| exact wt_literal rfl)
theorem optListWT_some {ps : List TExpr} (h : ListWT S ps) : OptListWT S (some ps) := h
theorem optListWT_none : OptListWT S none := trivial
theorem listWT_nil' : ListWT S [] := by intro x h; cases h

macro_rules | `(tactic| wt_close) => `(tactic| with_reducible first
  | exact wt_hardwareQubit _
  | exact wt_gateOperand_hw _
  | exact ixsWT_nil
  | exact listWT_nil'
  | exact optListWT_none
  | (apply wt_newTexprWithCast <;> wt_close)
  | (apply wt_castToTexpr <;> wt_close)
  | (apply wt_minus <;> wt_close)
  | (apply wt_measure <;> wt_close)
  | (apply wt_range <;> wt_close)
  | (apply wt_return <;> wt_close)
  | (apply wt_call <;> wt_close)
  | (apply wt_indexExpression <;> wt_close)
  | (apply wt_indexedIdentifier <;> wt_close)
  | (apply wt_gateOperand_ident <;> wt_close)
  | (apply wt_gateOperand_indexed <;> wt_close)
  | (apply ixWT_set <;> wt_close)
  | (apply ixWT_list <;> wt_close)
  | (apply iiWT_mk <;> wt_close)
  | (apply ixsWT_cons <;> wt_close)
  | (apply listWT_cons' <;> wt_close)
  | (apply optListWT_some <;> wt_close)
  | (apply WT.identifier <;> wt_close))

theorem Spec.literalToAsgTexpr (l : Ast.Literal) : Spec S (literalToAsgTexpr l) (OptWT S) := by
  unfold Sema.literalToAsgTexpr; spec
macro_rules | `(tactic| spec_lemma) => `(tactic| (spec_head Sema.literalToAsgTexpr; spec_use (Spec.literalToAsgTexpr _)))

theorem Spec.getConstValue (id : Nat) : Spec S (getConstValue id) (fun _ => True) := by
  apply Spec.of_symtab_eq
  intro c a c' hr
  simp only [Sema.getConstValue, M.get_bind_ok, M.pure_ok, Prod.mk.injEq] at hr
  exact ⟨by rw [hr.2], trivial⟩
macro_rules | `(tactic| spec_lemma) => `(tactic| (spec_head Sema.getConstValue; spec_use (Spec.getConstValue _)))

theorem Spec.designatorToAsg (d : Option Ast.Designator) :
    Spec S (designatorToAsg d) (fun _ => True) := by
  unfold Sema.designatorToAsg; spec
macro_rules | `(tactic| spec_lemma) => `(tactic| (spec_head Sema.designatorToAsg; spec_use (Spec.designatorToAsg _)))

theorem Spec.scalarTypeToType (st : Ast.ScalarType) (isconst : Bool) :
    Spec S (scalarTypeToType st isconst) (fun _ => True) := by
  unfold Sema.scalarTypeToType; spec
macro_rules | `(tactic| spec_lemma) => `(tactic| (spec_head Sema.scalarTypeToType; spec_use (Spec.scalarTypeToType _ _)))

theorem Spec.notGlobalCheck (node : Ast.Span) :
    Spec S (notGlobalCheck node) (fun _ => True) := by
  unfold Sema.notGlobalCheck; spec
macro_rules | `(tactic| spec_lemma) => `(tactic| (spec_head Sema.notGlobalCheck; spec_use (Spec.notGlobalCheck _)))

theorem Spec.gateNotGlobalCheck (name : Option Ast.Name) :
    Spec S (gateNotGlobalCheck name) (fun _ => True) := by
  unfold Sema.gateNotGlobalCheck; spec
macro_rules | `(tactic| spec_lemma) => `(tactic| (spec_head Sema.gateNotGlobalCheck; spec_use (Spec.gateNotGlobalCheck _)))

theorem Spec.returnGlobalCheck (node : Ast.Span) :
    Spec S (returnGlobalCheck node) (fun _ => True) := by
  unfold Sema.returnGlobalCheck; spec
macro_rules | `(tactic| spec_lemma) => `(tactic| (spec_head Sema.returnGlobalCheck; spec_use (Spec.returnGlobalCheck _)))

theorem Spec.delayDurationCheck (d : TExpr) (n : Ast.Span) :
    Spec S (delayDurationCheck d n) (fun _ => True) := by
  unfold Sema.delayDurationCheck; spec
macro_rules | `(tactic| spec_lemma) => `(tactic| (spec_head Sema.delayDurationCheck; spec_use (Spec.delayDurationCheck _ _)))

theorem Spec.quantumBinopCheck (l r : TExpr) (a b : Option Ast.Expr) :
    Spec S (quantumBinopCheck l r a b) (fun _ => True) := by
  unfold Sema.quantumBinopCheck; spec
macro_rules | `(tactic| spec_lemma) => `(tactic| (spec_head Sema.quantumBinopCheck; spec_use (Spec.quantumBinopCheck _ _ _ _)))

theorem Spec.gateOperandIdentCheck (t : T) (n : Ast.Span) :
    Spec S (gateOperandIdentCheck t n) (fun _ => True) := by
  unfold Sema.gateOperandIdentCheck; spec
macro_rules | `(tactic| spec_lemma) => `(tactic| (spec_head Sema.gateOperandIdentCheck; spec_use (Spec.gateOperandIdentCheck _ _)))

theorem Spec.gateOperandIndexedCheck (t : T) (n : Ast.Span) :
    Spec S (gateOperandIndexedCheck t n) (fun _ => True) := by
  unfold Sema.gateOperandIndexedCheck; spec
macro_rules | `(tactic| spec_lemma) => `(tactic| (spec_head Sema.gateOperandIndexedCheck; spec_use (Spec.gateOperandIndexedCheck _ _)))

theorem Spec.gateCallCheck (sp : Ast.Span) (q : Option Ast.QubitList) (al : Option Ast.ArgList) (g : Ast.Identifier) (sr : SymbolIdResult) (gt : T) (np nq : Nat) :
    Spec S (gateCallCheck sp q al g sr gt np nq) (fun _ => True) := by
  unfold Sema.gateCallCheck; spec
macro_rules | `(tactic| spec_lemma) => `(tactic| (spec_head Sema.gateCallCheck; spec_use (Spec.gateCallCheck _ _ _ _ _ _ _ _)))

theorem Spec.defArityCheck (a b : Nat) (al : Option Ast.ArgList) :
    Spec S (defArityCheck a b al) (fun _ => True) := by
  unfold Sema.defArityCheck; spec
macro_rules | `(tactic| spec_lemma) => `(tactic| (spec_head Sema.defArityCheck; spec_use (Spec.defArityCheck _ _ _)))

theorem Spec.mutateConstCheck (ok : Bool) (t : T) (n : Ast.Span) :
    Spec S (mutateConstCheck ok t n) (fun _ => True) := by
  unfold Sema.mutateConstCheck; spec
macro_rules | `(tactic| spec_lemma) => `(tactic| (spec_head Sema.mutateConstCheck; spec_use (Spec.mutateConstCheck _ _ _)))

/-! ### the expression part of the mutual block -/

/-- the specifications of the twelve expression functions at one fuel level -/
structure AllSpec (S : List Sym) (fuel : Nat) : Prop where
  exprToAsgTexpr : ∀ (e : Option Ast.Expr), Spec S (Sema.exprToAsgTexpr fuel e) (OptWT S)
  parenExprToAsgTexpr : ∀ (p : Ast.ParenExpr), Spec S (Sema.parenExprToAsgTexpr fuel p) (OptWT S)
  setExpressionToAsgType : ∀ (se : Ast.SetExpression), Spec S (Sema.setExpressionToAsgType fuel se) (ListWT S)
  rangeExpressionToAsgType : ∀ (r : Ast.RangeExpr), Spec S (Sema.rangeExpressionToAsgType fuel r) (fun r => WT S r.1 ∧ OptWT S r.2.1 ∧ WT S r.2.2)
  callExprToAsgTexpr : ∀ (sp : Ast.Span) (al : Option Ast.ArgList) (i : Option Ast.Identifier), Spec S (Sema.callExprToAsgTexpr fuel sp al i) (WT S)
  gateOperandToAsgTexpr : ∀ (g : Ast.GateOperand), Spec S (Sema.gateOperandToAsgTexpr fuel g) (WT S)
  indexOperatorToAsgType : ∀ (ix : Ast.IndexOperator), Spec S (Sema.indexOperatorToAsgType fuel ix) (IxWT S)
  expressionListToAsgType : ∀ (el : Ast.ExpressionList), Spec S (Sema.expressionListToAsgType fuel el) (ListWT S)
  expressionListToAsgTexpr : ∀ (el : Ast.ExpressionList), Spec S (Sema.expressionListToAsgTexpr fuel el) (ListWT S)
  exprsLoop : ∀ (es : List Ast.Expr), Spec S (Sema.exprsLoop fuel es) (ListWT S)
  indexedIdentifierToAsgType : ∀ (ii : Ast.IndexedIdentifier), Spec S (Sema.indexedIdentifierToAsgType fuel ii) (fun r => IIWT S r.1 r.2)
  indexOperatorsLoop : ∀ (ixs : List Ast.IndexOperator), Spec S (Sema.indexOperatorsLoop fuel ixs) (IxsWT S)

set_option hygiene false in
macro_rules | `(tactic| spec_ih) => `(tactic| first
  | (spec_head Sema.exprToAsgTexpr; spec_use (h_exprToAsgTexpr _))
  | (spec_head Sema.parenExprToAsgTexpr; spec_use (h_parenExprToAsgTexpr _))
  | (spec_head Sema.setExpressionToAsgType; spec_use (h_setExpressionToAsgType _))
  | (spec_head Sema.rangeExpressionToAsgType; spec_use (h_rangeExpressionToAsgType _))
  | (spec_head Sema.callExprToAsgTexpr; spec_use (h_callExprToAsgTexpr _ _ _))
  | (spec_head Sema.gateOperandToAsgTexpr; spec_use (h_gateOperandToAsgTexpr _))
  | (spec_head Sema.indexOperatorToAsgType; spec_use (h_indexOperatorToAsgType _))
  | (spec_head Sema.expressionListToAsgType; spec_use (h_expressionListToAsgType _))
  | (spec_head Sema.expressionListToAsgTexpr; spec_use (h_expressionListToAsgTexpr _))
  | (spec_head Sema.exprsLoop; spec_use (h_exprsLoop _))
  | (spec_head Sema.indexedIdentifierToAsgType; spec_use (h_indexedIdentifierToAsgType _))
  | (spec_head Sema.indexOperatorsLoop; spec_use (h_indexOperatorsLoop _)))

set_option maxHeartbeats 1600000 in
theorem exprToAsgTexpr_step (fuel : Nat) (ih : AllSpec S fuel) (e : Option Ast.Expr) :
    Spec S (Sema.exprToAsgTexpr (fuel + 1) e) (OptWT S) := by
  obtain ⟨h_exprToAsgTexpr, h_parenExprToAsgTexpr, h_setExpressionToAsgType, h_rangeExpressionToAsgType, h_callExprToAsgTexpr, h_gateOperandToAsgTexpr, h_indexOperatorToAsgType, h_expressionListToAsgType, h_expressionListToAsgTexpr, h_exprsLoop, h_indexedIdentifierToAsgType, h_indexOperatorsLoop⟩ := ih
  unfold Sema.exprToAsgTexpr; spec

set_option maxHeartbeats 1600000 in
theorem parenExprToAsgTexpr_step (fuel : Nat) (ih : AllSpec S fuel) (p : Ast.ParenExpr) :
    Spec S (Sema.parenExprToAsgTexpr (fuel + 1) p) (OptWT S) := by
  obtain ⟨h_exprToAsgTexpr, h_parenExprToAsgTexpr, h_setExpressionToAsgType, h_rangeExpressionToAsgType, h_callExprToAsgTexpr, h_gateOperandToAsgTexpr, h_indexOperatorToAsgType, h_expressionListToAsgType, h_expressionListToAsgTexpr, h_exprsLoop, h_indexedIdentifierToAsgType, h_indexOperatorsLoop⟩ := ih
  unfold Sema.parenExprToAsgTexpr; spec

set_option maxHeartbeats 1600000 in
theorem setExpressionToAsgType_step (fuel : Nat) (ih : AllSpec S fuel) (se : Ast.SetExpression) :
    Spec S (Sema.setExpressionToAsgType (fuel + 1) se) (ListWT S) := by
  obtain ⟨h_exprToAsgTexpr, h_parenExprToAsgTexpr, h_setExpressionToAsgType, h_rangeExpressionToAsgType, h_callExprToAsgTexpr, h_gateOperandToAsgTexpr, h_indexOperatorToAsgType, h_expressionListToAsgType, h_expressionListToAsgTexpr, h_exprsLoop, h_indexedIdentifierToAsgType, h_indexOperatorsLoop⟩ := ih
  unfold Sema.setExpressionToAsgType; spec

set_option maxHeartbeats 1600000 in
theorem rangeExpressionToAsgType_step (fuel : Nat) (ih : AllSpec S fuel) (r : Ast.RangeExpr) :
    Spec S (Sema.rangeExpressionToAsgType (fuel + 1) r) (fun r => WT S r.1 ∧ OptWT S r.2.1 ∧ WT S r.2.2) := by
  obtain ⟨h_exprToAsgTexpr, h_parenExprToAsgTexpr, h_setExpressionToAsgType, h_rangeExpressionToAsgType, h_callExprToAsgTexpr, h_gateOperandToAsgTexpr, h_indexOperatorToAsgType, h_expressionListToAsgType, h_expressionListToAsgTexpr, h_exprsLoop, h_indexedIdentifierToAsgType, h_indexOperatorsLoop⟩ := ih
  unfold Sema.rangeExpressionToAsgType; spec

set_option maxHeartbeats 1600000 in
theorem callExprToAsgTexpr_step (fuel : Nat) (ih : AllSpec S fuel) (sp : Ast.Span) (al : Option Ast.ArgList) (i : Option Ast.Identifier) :
    Spec S (Sema.callExprToAsgTexpr (fuel + 1) sp al i) (WT S) := by
  obtain ⟨h_exprToAsgTexpr, h_parenExprToAsgTexpr, h_setExpressionToAsgType, h_rangeExpressionToAsgType, h_callExprToAsgTexpr, h_gateOperandToAsgTexpr, h_indexOperatorToAsgType, h_expressionListToAsgType, h_expressionListToAsgTexpr, h_exprsLoop, h_indexedIdentifierToAsgType, h_indexOperatorsLoop⟩ := ih
  unfold Sema.callExprToAsgTexpr; spec

set_option maxHeartbeats 1600000 in
theorem gateOperandToAsgTexpr_step (fuel : Nat) (ih : AllSpec S fuel) (g : Ast.GateOperand) :
    Spec S (Sema.gateOperandToAsgTexpr (fuel + 1) g) (WT S) := by
  obtain ⟨h_exprToAsgTexpr, h_parenExprToAsgTexpr, h_setExpressionToAsgType, h_rangeExpressionToAsgType, h_callExprToAsgTexpr, h_gateOperandToAsgTexpr, h_indexOperatorToAsgType, h_expressionListToAsgType, h_expressionListToAsgTexpr, h_exprsLoop, h_indexedIdentifierToAsgType, h_indexOperatorsLoop⟩ := ih
  unfold Sema.gateOperandToAsgTexpr; spec

set_option maxHeartbeats 1600000 in
theorem indexOperatorToAsgType_step (fuel : Nat) (ih : AllSpec S fuel) (ix : Ast.IndexOperator) :
    Spec S (Sema.indexOperatorToAsgType (fuel + 1) ix) (IxWT S) := by
  obtain ⟨h_exprToAsgTexpr, h_parenExprToAsgTexpr, h_setExpressionToAsgType, h_rangeExpressionToAsgType, h_callExprToAsgTexpr, h_gateOperandToAsgTexpr, h_indexOperatorToAsgType, h_expressionListToAsgType, h_expressionListToAsgTexpr, h_exprsLoop, h_indexedIdentifierToAsgType, h_indexOperatorsLoop⟩ := ih
  unfold Sema.indexOperatorToAsgType; spec

set_option maxHeartbeats 1600000 in
theorem expressionListToAsgType_step (fuel : Nat) (ih : AllSpec S fuel) (el : Ast.ExpressionList) :
    Spec S (Sema.expressionListToAsgType (fuel + 1) el) (ListWT S) := by
  obtain ⟨h_exprToAsgTexpr, h_parenExprToAsgTexpr, h_setExpressionToAsgType, h_rangeExpressionToAsgType, h_callExprToAsgTexpr, h_gateOperandToAsgTexpr, h_indexOperatorToAsgType, h_expressionListToAsgType, h_expressionListToAsgTexpr, h_exprsLoop, h_indexedIdentifierToAsgType, h_indexOperatorsLoop⟩ := ih
  unfold Sema.expressionListToAsgType; spec

set_option maxHeartbeats 1600000 in
theorem expressionListToAsgTexpr_step (fuel : Nat) (ih : AllSpec S fuel) (el : Ast.ExpressionList) :
    Spec S (Sema.expressionListToAsgTexpr (fuel + 1) el) (ListWT S) := by
  obtain ⟨h_exprToAsgTexpr, h_parenExprToAsgTexpr, h_setExpressionToAsgType, h_rangeExpressionToAsgType, h_callExprToAsgTexpr, h_gateOperandToAsgTexpr, h_indexOperatorToAsgType, h_expressionListToAsgType, h_expressionListToAsgTexpr, h_exprsLoop, h_indexedIdentifierToAsgType, h_indexOperatorsLoop⟩ := ih
  unfold Sema.expressionListToAsgTexpr; spec

set_option maxHeartbeats 1600000 in
theorem exprsLoop_step (fuel : Nat) (ih : AllSpec S fuel) (es : List Ast.Expr) :
    Spec S (Sema.exprsLoop (fuel + 1) es) (ListWT S) := by
  obtain ⟨h_exprToAsgTexpr, h_parenExprToAsgTexpr, h_setExpressionToAsgType, h_rangeExpressionToAsgType, h_callExprToAsgTexpr, h_gateOperandToAsgTexpr, h_indexOperatorToAsgType, h_expressionListToAsgType, h_expressionListToAsgTexpr, h_exprsLoop, h_indexedIdentifierToAsgType, h_indexOperatorsLoop⟩ := ih
  unfold Sema.exprsLoop; spec

set_option maxHeartbeats 1600000 in
theorem indexedIdentifierToAsgType_step (fuel : Nat) (ih : AllSpec S fuel) (ii : Ast.IndexedIdentifier) :
    Spec S (Sema.indexedIdentifierToAsgType (fuel + 1) ii) (fun r => IIWT S r.1 r.2) := by
  obtain ⟨h_exprToAsgTexpr, h_parenExprToAsgTexpr, h_setExpressionToAsgType, h_rangeExpressionToAsgType, h_callExprToAsgTexpr, h_gateOperandToAsgTexpr, h_indexOperatorToAsgType, h_expressionListToAsgType, h_expressionListToAsgTexpr, h_exprsLoop, h_indexedIdentifierToAsgType, h_indexOperatorsLoop⟩ := ih
  unfold Sema.indexedIdentifierToAsgType; spec

set_option maxHeartbeats 1600000 in
theorem indexOperatorsLoop_step (fuel : Nat) (ih : AllSpec S fuel) (ixs : List Ast.IndexOperator) :
    Spec S (Sema.indexOperatorsLoop (fuel + 1) ixs) (IxsWT S) := by
  obtain ⟨h_exprToAsgTexpr, h_parenExprToAsgTexpr, h_setExpressionToAsgType, h_rangeExpressionToAsgType, h_callExprToAsgTexpr, h_gateOperandToAsgTexpr, h_indexOperatorToAsgType, h_expressionListToAsgType, h_expressionListToAsgTexpr, h_exprsLoop, h_indexedIdentifierToAsgType, h_indexOperatorsLoop⟩ := ih
  unfold Sema.indexOperatorsLoop; spec

theorem allSpec (fuel : Nat) : AllSpec S fuel := by
  induction fuel with
  | zero =>
    constructor
    · intros; unfold Sema.exprToAsgTexpr; exact Spec.throw _ _
    · intros; unfold Sema.parenExprToAsgTexpr; exact Spec.throw _ _
    · intros; unfold Sema.setExpressionToAsgType; exact Spec.throw _ _
    · intros; unfold Sema.rangeExpressionToAsgType; exact Spec.throw _ _
    · intros; unfold Sema.callExprToAsgTexpr; exact Spec.throw _ _
    · intros; unfold Sema.gateOperandToAsgTexpr; exact Spec.throw _ _
    · intros; unfold Sema.indexOperatorToAsgType; exact Spec.throw _ _
    · intros; unfold Sema.expressionListToAsgType; exact Spec.throw _ _
    · intros; unfold Sema.expressionListToAsgTexpr; exact Spec.throw _ _
    · intros; unfold Sema.exprsLoop; exact Spec.throw _ _
    · intros; unfold Sema.indexedIdentifierToAsgType; exact Spec.throw _ _
    · intros; unfold Sema.indexOperatorsLoop; exact Spec.throw _ _
  | succ fuel ih =>
    constructor
    · intros; exact exprToAsgTexpr_step fuel ih _
    · intros; exact parenExprToAsgTexpr_step fuel ih _
    · intros; exact setExpressionToAsgType_step fuel ih _
    · intros; exact rangeExpressionToAsgType_step fuel ih _
    · intros; exact callExprToAsgTexpr_step fuel ih _ _ _
    · intros; exact gateOperandToAsgTexpr_step fuel ih _
    · intros; exact indexOperatorToAsgType_step fuel ih _
    · intros; exact expressionListToAsgType_step fuel ih _
    · intros; exact expressionListToAsgTexpr_step fuel ih _
    · intros; exact exprsLoop_step fuel ih _
    · intros; exact indexedIdentifierToAsgType_step fuel ih _
    · intros; exact indexOperatorsLoop_step fuel ih _

/-- **C08, typing.**  Every expression returned by `expr_to_asg_texpr` — any fuel, any context —
is well typed, deeply, relative to every symbol vector that extends the final one (symbol ids are
stable: the vector only grows, first component). -/
theorem well_typed (fuel : Nat) (e : Option Ast.Expr) (c c' : Ctx) (t : TExpr)
    (h : (exprToAsgTexpr fuel e).run c = .ok (some t, c')) :
    c.symbolTable.all <+: c'.symbolTable.all ∧
      ∀ S, c'.symbolTable.all <+: S → WT S t := by
  refine ⟨((allSpec (S := []) fuel).exprToAsgTexpr e).run c _ c' h |>.1, fun S hS => ?_⟩
  exact (((allSpec (S := S) fuel).exprToAsgTexpr e).run c _ c' h).2 hS

/-- in particular relative to the symbol table at the moment the expression has been analysed -/
theorem well_typed_final (fuel : Nat) (e : Option Ast.Expr) (c c' : Ctx) (t : TExpr)
    (h : (exprToAsgTexpr fuel e).run c = .ok (some t, c')) : WT c'.symbolTable.all t :=
  (well_typed fuel e c c' t h).2 _ (List.prefix_refl _)

/-- the same for the other expression-producing functions of the pass -/
theorem well_typed_gate_operand (fuel : Nat) (g : Ast.GateOperand) (c c' : Ctx) (t : TExpr)
    (h : (gateOperandToAsgTexpr fuel g).run c = .ok (t, c')) : WT c'.symbolTable.all t :=
  (((allSpec fuel).gateOperandToAsgTexpr g).run c _ c' h).2 (List.prefix_refl _)

theorem well_typed_expression_list (fuel : Nat) (el : Ast.ExpressionList) (c c' : Ctx)
    (ts : List TExpr) (h : (expressionListToAsgTexpr fuel el).run c = .ok (ts, c')) :
    ∀ t, t ∈ ts → WT c'.symbolTable.all t :=
  (((allSpec fuel).expressionListToAsgTexpr el).run c _ c' h).2 (List.prefix_refl _)

/-- `**` never reaches the graph as `PowerOp`: `binary_op_to_asg_type` maps it to concatenation
(finding F08); consequently no `WT` rule for `powerOp` is needed -/
theorem power_is_concatenation (c : Ctx) :
    (binaryOpToAsgType .powerOp).run c = .ok (.concatenationOp, c) := rfl

/-- read-outs of `WT`: the statements of the property, one by one -/
theorem wt_identifier_type {S : List Sym} {id : Nat} {t : T} (h : WT S (.mk (.identifier (.ok id)) t)) :
    ∃ name, S[id]? = some ⟨name, t⟩ := by
  cases h with | identifier h => exact h

theorem wt_literal_type {S : List Sym} {l : Literal} {t : T} (h : WT S (.mk (.literal l) t)) :
    literalType l = some t := by
  cases h with | literal h => exact h

theorem wt_cast_type {S : List Sym} {e : TExpr} {ty t : T} (h : WT S (.mk (.cast e ty) t)) :
    t = ty ∧ WT S e := by
  cases h with | cast h => exact ⟨rfl, h⟩

theorem wt_measure_type {S : List Sym} {e : TExpr} {t : T} (h : WT S (.mk (.measureExpression e) t)) :
    t = measureShape e.getType ∧ WT S e := by
  cases h with | measure h => exact ⟨rfl, h⟩

theorem wt_arith_type {S : List Sym} {op : ArithOp} {l r : TExpr} {t : T}
    (h : WT S (.mk (.binaryExpr (.arithOp op) l r) t)) :
    ∃ l0 r0, WT S l0 ∧ WT S r0 ∧ t = implicitCastType op l0.getType r0.getType ∧
      Operand l0 t l ∧ Operand r0 t r := by
  cases h with | arith h1 h2 h3 h4 => exact ⟨_, _, h1, h2, rfl, h3, h4⟩

/-- each operand of an arithmetic node has the node's type -/
theorem wt_arith_operand_types {S : List Sym} {op : ArithOp} {l r : TExpr} {t : T}
    (h : WT S (.mk (.binaryExpr (.arithOp op) l r) t)) : l.getType = t ∧ r.getType = t := by
  obtain ⟨l0, r0, -, -, -, hl, hr⟩ := wt_arith_type h
  constructor
  · rcases hl with ⟨rfl, h⟩ | ⟨rfl, -⟩
    · exact h
    · rfl
  · rcases hr with ⟨rfl, h⟩ | ⟨rfl, -⟩
    · exact h
    · rfl

/-! ## Part 2 — the declaration and assignment decisions -/

/-- the diagnostic `kind` was logged, last, at `span` -/
def LoggedLast (k : SemanticErrorKind) (span : Ast.Span) (c : Ctx) : Prop :=
  ∃ pre, c.semanticErrors = pre ++ [⟨k, span.start, span.stop⟩]

/-- the value `v` stored for a target of type `target`, computed from the analysed value `orig`:
its type equals the target up to const-ness, or it is an explicit cast of `orig` to exactly the
target type -/
def Accepted (target : T) (orig v : TExpr) : Prop :=
  (v = orig ∧ equalUpToConstness target orig.getType = true) ∨ v = castToTexpr orig target

def isLiteralExpr : TExpr → Bool
  | .mk (.literal _) _ => true
  | _ => false

/-- **guard (F18a/F18b).**  The region in which `classical_declaration_statement_to_asg_stmt`
stores the initializer unchanged and logs nothing although its type differs from the declared type:
a non-literal initializer whose promotion with the declared type is neither the declared type
(up to const), nor `Void`, nor the initializer's own type. -/
def kfDeclSilent (lhs : T) (init : TExpr) : Bool :=
  !equalUpToConstness lhs init.getType && !isLiteralExpr init &&
  !equalUpToConstness (promoteTypesNotEqual lhs init.getType) lhs &&
  !(decide (promoteTypesNotEqual lhs init.getType = T.void)) &&
  !(decide (promoteTypesNotEqual lhs init.getType = init.getType))

set_option maxHeartbeats 4000000 in
/-- **the silent region, characterised**: a non-literal initializer of the SAME numeric kind
(`int`/`uint`/`float`) as the target, whose type is const while the target is not, and which is wider
than the target (or has no width): `const int n = 3; int[8] y = n;`, `int[8] y = 1+2;`.
For a non-const value the decision is never silent. -/
theorem kfDeclSilent_region (lhs : T) (init : TExpr) (h : kfDeclSilent lhs init = true) :
    isLiteralExpr init = false ∧ tag lhs = tag init.getType ∧
    (tag lhs = .int ∨ tag lhs = .uint ∨ tag lhs = .float) ∧
    isConst lhs = false ∧ isConst init.getType = true ∧
    ∃ a, width lhs = some a ∧ ∀ b, width init.getType = some b → a < b := by
  simp only [kfDeclSilent, Bool.and_eq_true, Bool.not_eq_true', decide_eq_false_iff_not] at h
  obtain ⟨⟨⟨⟨h1, h2⟩, h3⟩, h4⟩, h5⟩ := h
  refine ⟨h2, ?_⟩
  generalize init.getType = it at *
  clear h2
  by_cases hw : promoteTypeWidth lhs it = T.void
  · -- cross-kind promotion returns one of the operands verbatim
    exfalso
    simp only [promoteTypesNotEqual, hw, ne_eq, not_true_eq_false, if_false] at h3 h4 h5
    unfold promoteBaseType at h3 h4 h5
    split at h3 <;> simp_all [equalUpToConstness]
  · obtain ⟨ht, -, htow, -⟩ := C20.promoteTypeWidth_tag hw
    simp only [promoteTypesNotEqual, hw, ne_eq, not_false_eq_true, if_true] at h3 h4 h5
    clear htow ht h4
    unfold promoteTypeWidth at hw h3 h5
    split at hw
    all_goals first
      | (exact absurd rfl hw)
      | (rename_i hl hi
         cases lhs <;> simp only [tag, reduceCtorEq] at hl
         cases it <;> simp only [tag, reduceCtorEq] at hi
         rename_i wl cl wi ci
         cases wl <;> cases wi <;> cases cl <;> cases ci <;>
           simp_all [equalUpToConstness, promoteWidth, promoteConstness, width, isConst, tag] <;>
           omega)

theorem declareClassicalHelper_ok (sym : SymbolIdResult) (v : Option TExpr) (c c' : Ctx) (s : Stmt)
    (h : declareClassicalHelper sym v c = .ok (s, c')) :
    s = .declareClassical sym v ∧ c'.semanticErrors = c.semanticErrors := by
  unfold declareClassicalHelper at h
  cases v with
  | none =>
    simp only [M.pure_ok, Prod.mk.injEq] at h
    exact ⟨h.1, by rw [h.2]⟩
  | some init =>
    simp only at h
    split at h
    · cases sym with
      | error e =>
        simp only [M.pure_bind_ok, M.pure_ok, Prod.mk.injEq] at h
        exact ⟨h.1, by rw [h.2]⟩
      | ok id =>
        simp only [insertConstValue, M.modify_bind_ok, M.pure_ok, Prod.mk.injEq] at h
        exact ⟨h.1, by rw [h.2]⟩
    · simp only [M.pure_ok, Prod.mk.injEq] at h
      exact ⟨h.1, by rw [h.2]⟩

theorem insertError_ok (k : SemanticErrorKind) (sp : Ast.Span) (c c' : Ctx) (u : Unit)
    (h : insertError k sp c = .ok (u, c')) :
    c' = { c with semanticErrors := c.semanticErrors ++ [⟨k, sp.start, sp.stop⟩] } := by
  simp only [Sema.insertError, M.modify_ok, Prod.mk.injEq] at h
  exact h.2

/-- **C08, declaration decision.**  For a (non-array) classical declaration with an initializer
that analyses to `init`: the stored initializer is `init` itself with a type equal to the declared
type up to const-ness, or `Cast(init, declared type)`, or `IncompatibleTypesError` is the last
diagnostic logged, at the declaration — outside the guard `kfDeclSilent`. -/
theorem decl_decision_partial (fuel : Nat) (span : Ast.Span) (st : Ast.ScalarType) (constToken : Bool)
    (name : Ast.Name) (expr : Option Ast.Expr) (c c' : Ctx) (stmt : Stmt)
    (h : (classicalDeclarationStatementToAsgStmt (fuel + 1) span false (some st) constToken
      (some name) expr).run c = .ok (stmt, c')) :
    ∃ lhsType c1 init c2 sym,
      (scalarTypeToType st constToken).run c = .ok (lhsType, c1) ∧
      (exprToAsgTexpr fuel expr).run c1 = .ok (init, c2) ∧
      match init with
      | none => stmt = .declareClassical sym none
      | some init => ∃ v, stmt = .declareClassical sym (some v) ∧
          (kfDeclSilent lhsType init = false →
            Accepted lhsType init v ∨
              (v = init ∧ LoggedLast .incompatibleTypesError span c')) := by
  simp only [StateT.run, classicalDeclarationStatementToAsgStmt, Bool.false_eq_true, if_false,
    unwrap, M.bind_ok, M.pure_ok, Prod.mk.injEq, exists2_eq] at h
  obtain ⟨lhsType, c1, h1, init, c2, h2, sym, c3, h3, h4⟩ := h
  refine ⟨lhsType, c1, init, c2, sym, h1, h2, ?_⟩
  cases init with
  | none =>
    simp only at h4
    exact (declareClassicalHelper_ok _ _ _ _ _ h4).1
  | some init =>
    simp only at h4 ⊢
    by_cases he : equalUpToConstness lhsType init.getType = true
    · rw [if_pos he] at h4
      simp only [M.pure_ok, Prod.mk.injEq] at h4
      exact ⟨init, h4.1, fun _ => .inl (.inl ⟨rfl, he⟩)⟩
    · rw [if_neg he] at h4
      have castCase : ∀ {cX : Ctx}, declareClassicalHelper sym (some (castToTexpr init lhsType)) cX =
          .ok (stmt, c') → ∃ v, stmt = .declareClassical sym (some v) ∧
            (kfDeclSilent lhsType init = false → Accepted lhsType init v ∨
              (v = init ∧ LoggedLast .incompatibleTypesError span c')) := by
        intro cX hh
        exact ⟨_, (declareClassicalHelper_ok _ _ _ _ _ hh).1, fun _ => .inl (.inr rfl)⟩
      have errCase : ∀ {cX : Ctx}, (do insertError .incompatibleTypesError span
                                       declareClassicalHelper sym (some init)) cX =
          .ok (stmt, c') → ∃ v, stmt = .declareClassical sym (some v) ∧
            (kfDeclSilent lhsType init = false → Accepted lhsType init v ∨
              (v = init ∧ LoggedLast .incompatibleTypesError span c')) := by
        intro cX hh
        simp only [M.bind_ok] at hh
        obtain ⟨u, cY, e1, e2⟩ := hh
        have := insertError_ok _ _ _ _ _ e1
        obtain ⟨hs, herr⟩ := declareClassicalHelper_ok _ _ _ _ _ e2
        refine ⟨_, hs, fun _ => .inr ⟨rfl, ⟨cX.semanticErrors, ?_⟩⟩⟩
        rw [herr, this]
      have otherCase : isLiteralExpr init = false →
          (if equalUpToConstness (promoteTypesNotEqual lhsType init.getType) lhsType = true then
              declareClassicalHelper sym (some (castToTexpr init lhsType))
            else
              if (decide (promoteTypesNotEqual lhsType init.getType = T.void) ||
                  decide (promoteTypesNotEqual lhsType init.getType = init.getType)) = true then do
                insertError SemanticErrorKind.incompatibleTypesError span
                declareClassicalHelper sym (some init)
              else declareClassicalHelper sym (some init)) c3 = .ok (stmt, c') →
          ∃ v, stmt = .declareClassical sym (some v) ∧
            (kfDeclSilent lhsType init = false → Accepted lhsType init v ∨
              (v = init ∧ LoggedLast .incompatibleTypesError span c')) := by
        intro hnotlit hh
        by_cases hpe : equalUpToConstness (promoteTypesNotEqual lhsType init.getType) lhsType = true
        · rw [if_pos hpe] at hh; exact castCase hh
        · rw [if_neg hpe] at hh
          by_cases hsil : (decide (promoteTypesNotEqual lhsType init.getType = T.void) ||
                  decide (promoteTypesNotEqual lhsType init.getType = init.getType)) = true
          · rw [if_pos hsil] at hh; exact errCase hh
          · rw [if_neg hsil] at hh
            refine ⟨_, (declareClassicalHelper_ok _ _ _ _ _ hh).1, fun hk => ?_⟩
            exfalso
            simp only [Bool.or_eq_true, decide_eq_true_eq, not_or] at hsil
            simp [kfDeclSilent, he, hnotlit, hpe, hsil.1, hsil.2] at hk
      obtain ⟨e, t⟩ := init
      cases e with
      | literal lit =>
        simp only [TExpr.expression] at h4
        by_cases hc : Sema.canCastLiteral lhsType (TExpr.mk (.literal lit) t).getType lit = true
        · rw [if_pos hc] at h4; exact castCase h4
        · rw [if_neg hc] at h4; exact errCase h4
      | _ => exact otherCase rfl h4

/-! ## Part 3 — downward conversions -/

/-- the scalar kinds of the property (a `bit` and a bit register are the same kind) -/
inductive Kind | int | uint | float | complex | angle | bit | bool | duration | stretch
  deriving DecidableEq, Repr

def kindOf : T → Option Kind
  | .int .. => some .int | .uint .. => some .uint | .float .. => some .float
  | .complex .. => some .complex | .angle .. => some .angle | .bit _ => some .bit
  | .bitArray .. => some .bit | .boolT _ => some .bool | .duration _ => some .duration
  | .stretch _ => some .stretch
  | _ => none

/-- position in the numeric tower `int, uint < float < complex` -/
def towerRank : Kind → Option Nat
  | .int | .uint => some 0 | .float => some 1 | .complex => some 2 | _ => none

/-- **a conversion `value → target` that changes kind downwards**: down the numeric tower
(float→int, complex→real), or between different kinds one of which is bit, bool, duration, stretch
or angle -/
def DownKind (target value : T) : Bool :=
  match kindOf target, kindOf value with
  | some kt, some kv =>
    (match towerRank kt, towerRank kv with
      | some a, some b => decide (a < b)
      | _, _ => false) ||
    (kt != kv && ((towerRank kt).isNone || (towerRank kv).isNone))
  | _, _ => false

set_option maxHeartbeats 4000000 in
theorem downKind_facts (t v : T) (h : DownKind t v = true) :
    equalUpToConstness t v = false ∧ Types.canCastLiteral t v = false ∧
    equalUpToConstness (promoteTypesNotEqual t v) t = false ∧
    (promoteTypesNotEqual t v = T.void ∨ promoteTypesNotEqual t v = v) ∧
    promoteTypes t v ≠ t ∧ equalUpToDims v t = false ∧ v ≠ t ∧ tag t ≠ tag v := by
  cases t <;> cases v <;> simp [DownKind, kindOf, towerRank] at h <;>
    simp [equalUpToConstness, Types.canCastLiteral, equalBaseType, tag, promoteTypesNotEqual,
      promoteTypeWidth, promoteBaseType, promoteTypes, equalUpToDims, numDims, equalUpToShape,
      Dims.numDims]

/-- the condition under which the declaration code inserts a cast -/
def declCastCond (lhs : T) (i : TExpr) : Bool :=
  match i.expression with
  | .literal lit => Sema.canCastLiteral lhs i.getType lit
  | _ => equalUpToConstness (promoteTypesNotEqual lhs i.getType) lhs

/-- the condition under which the declaration code logs `IncompatibleTypesError` -/
def declErrCond (lhs : T) (i : TExpr) : Bool :=
  match i.expression with
  | .literal lit => !Sema.canCastLiteral lhs i.getType lit
  | _ => !equalUpToConstness (promoteTypesNotEqual lhs i.getType) lhs &&
      (decide (promoteTypesNotEqual lhs i.getType = T.void) ||
        decide (promoteTypesNotEqual lhs i.getType = i.getType))

/-- the four outcomes of the declaration code, with their conditions -/
def DeclTable (lhsType : T) (i : TExpr) (sym : SymbolIdResult) (span : Ast.Span) (stmt : Stmt)
    (c' : Ctx) : Prop :=
  (equalUpToConstness lhsType i.getType = true ∧ stmt = .declareClassical sym (some i)) ∨
  (equalUpToConstness lhsType i.getType = false ∧ declCastCond lhsType i = true ∧
    stmt = .declareClassical sym (some (castToTexpr i lhsType))) ∨
  (equalUpToConstness lhsType i.getType = false ∧ declErrCond lhsType i = true ∧
    stmt = .declareClassical sym (some i) ∧ LoggedLast .incompatibleTypesError span c') ∨
  (kfDeclSilent lhsType i = true ∧ stmt = .declareClassical sym (some i))

/-- **the declaration decision table, exactly.** -/
theorem decl_decision_table (fuel : Nat) (span : Ast.Span) (st : Ast.ScalarType) (constToken : Bool)
    (name : Ast.Name) (expr : Option Ast.Expr) (c c' : Ctx) (stmt : Stmt)
    (h : (classicalDeclarationStatementToAsgStmt (fuel + 1) span false (some st) constToken
      (some name) expr).run c = .ok (stmt, c')) :
    ∃ lhsType c1 init c2 sym,
      (scalarTypeToType st constToken).run c = .ok (lhsType, c1) ∧
      (exprToAsgTexpr fuel expr).run c1 = .ok (init, c2) ∧
      ∀ i, init = some i → DeclTable lhsType i sym span stmt c' := by
  simp only [StateT.run, classicalDeclarationStatementToAsgStmt, Bool.false_eq_true, if_false,
    unwrap, M.bind_ok, M.pure_ok, Prod.mk.injEq, exists2_eq] at h
  obtain ⟨lhsType, c1, h1, init, c2, h2, sym, c3, h3, h4⟩ := h
  refine ⟨lhsType, c1, init, c2, sym, h1, h2, ?_⟩
  intro i hi
  subst hi
  simp only at h4
  by_cases he : equalUpToConstness lhsType i.getType = true
  · rw [if_pos he] at h4
    simp only [M.pure_ok, Prod.mk.injEq] at h4
    exact .inl ⟨he, h4.1⟩
  · rw [if_neg he] at h4
    have he' : equalUpToConstness lhsType i.getType = false := by simpa using he
    have errCase : ∀ {cX : Ctx}, (do insertError .incompatibleTypesError span
                                     declareClassicalHelper sym (some i)) cX = .ok (stmt, c') →
        stmt = .declareClassical sym (some i) ∧ LoggedLast .incompatibleTypesError span c' := by
      intro cX hh
      simp only [M.bind_ok] at hh
      obtain ⟨u, cY, e1, e2⟩ := hh
      have := insertError_ok _ _ _ _ _ e1
      obtain ⟨hs, herr⟩ := declareClassicalHelper_ok _ _ _ _ _ e2
      refine ⟨hs, ⟨cX.semanticErrors, ?_⟩⟩
      rw [herr, this]
    have otherCase : isLiteralExpr i = false →
        declCastCond lhsType i = equalUpToConstness (promoteTypesNotEqual lhsType i.getType) lhsType →
        declErrCond lhsType i = (!equalUpToConstness (promoteTypesNotEqual lhsType i.getType) lhsType &&
          (decide (promoteTypesNotEqual lhsType i.getType = T.void) ||
            decide (promoteTypesNotEqual lhsType i.getType = i.getType))) →
        (if equalUpToConstness (promoteTypesNotEqual lhsType i.getType) lhsType = true then
            declareClassicalHelper sym (some (castToTexpr i lhsType))
          else
            if (decide (promoteTypesNotEqual lhsType i.getType = T.void) ||
                decide (promoteTypesNotEqual lhsType i.getType = i.getType)) = true then do
              insertError SemanticErrorKind.incompatibleTypesError span
              declareClassicalHelper sym (some i)
            else declareClassicalHelper sym (some i)) c3 = .ok (stmt, c') →
        DeclTable lhsType i sym span stmt c' := by
      intro hnotlit hcc hec hh
      by_cases hpe : equalUpToConstness (promoteTypesNotEqual lhsType i.getType) lhsType = true
      · rw [if_pos hpe] at hh
        exact .inr (.inl ⟨he', by rw [hcc, hpe], (declareClassicalHelper_ok _ _ _ _ _ hh).1⟩)
      · rw [if_neg hpe] at hh
        by_cases hsil : (decide (promoteTypesNotEqual lhsType i.getType = T.void) ||
                decide (promoteTypesNotEqual lhsType i.getType = i.getType)) = true
        · rw [if_pos hsil] at hh
          obtain ⟨a, b⟩ := errCase hh
          refine .inr (.inr (.inl ⟨he', ?_, a, b⟩))
          rw [hec, hsil]; simp [hpe]
        · rw [if_neg hsil] at hh
          refine .inr (.inr (.inr ⟨?_, (declareClassicalHelper_ok _ _ _ _ _ hh).1⟩))
          simp only [Bool.or_eq_true, decide_eq_true_eq, not_or] at hsil
          simp [kfDeclSilent, he, hnotlit, hpe, hsil.1, hsil.2]
    obtain ⟨e, t⟩ := i
    cases e with
    | literal lit =>
      simp only [TExpr.expression] at h4
      by_cases hc : Sema.canCastLiteral lhsType (TExpr.mk (.literal lit) t).getType lit = true
      · rw [if_pos hc] at h4
        exact .inr (.inl ⟨he', hc, (declareClassicalHelper_ok _ _ _ _ _ h4).1⟩)
      · rw [if_neg hc] at h4
        obtain ⟨a, b⟩ := errCase h4
        refine .inr (.inr (.inl ⟨he', ?_, a, b⟩))
        simp only [declErrCond, TExpr.expression]
        simpa using hc
    | _ => exact otherCase rfl rfl rfl h4

/-! ### assignments -/

def isIntLiteralExpr : TExpr → Bool
  | .mk (.literal (.int _ _)) _ => true
  | _ => false

/-- **guard (F18d).**  `assignment_stmt_to_asg_stmt` stores an integer literal unchanged and logs
nothing for EVERY target type other than `uint` (`duration d; d = 1;`, `bool b; b = 1;`,
`float f; f = 1;`, `int x; x = 1;` …) -/
def kfAssignIntLiteral (symT : T) (expr : TExpr) : Bool :=
  isIntLiteralExpr expr && (tag symT != .uint) && (expr.getType != symT) &&
  !equalUpToDims expr.getType symT

/-- the condition under which the assignment code inserts a cast (given that the types differ and
are not "equal up to dimensions") -/
def assignCastCond (symT : T) (expr : TExpr) : Bool :=
  match expr.expression with
  | .literal (.int _ sign) => tag symT == .uint && sign
  | _ => decide (promoteTypes symT expr.getType = symT)

/-- `k` is the first diagnostic logged after `c0` -/
def LoggedFirstSince (c0 : Ctx) (k : SemanticErrorKind) (span : Ast.Span) (c : Ctx) : Prop :=
  ∃ post, c.semanticErrors = c0.semanticErrors ++ ⟨k, span.start, span.stop⟩ :: post

theorem mutateConstCheck_ok (ok : Bool) (t : T) (sp : Ast.Span) (c c' : Ctx) (u : Unit)
    (h : mutateConstCheck ok t sp c = .ok (u, c')) :
    ∃ post, c'.semanticErrors = c.semanticErrors ++ post := by
  unfold mutateConstCheck at h
  split at h
  · exact ⟨_, by rw [insertError_ok _ _ _ _ _ h]⟩
  · simp only [M.pure_ok, Prod.mk.injEq] at h
    exact ⟨[], by rw [h.2]; simp⟩

theorem lookupSymbol_errors (name : String) (sp : Ast.Span) (c c' : Ctx) (r : SymbolIdResult × T)
    (h : lookupSymbol name sp c = .ok (r, c')) (hok : r.1.isOk = true) :
    c'.semanticErrors = c.semanticErrors := by
  simp only [lookupSymbol, M.bind_ok] at h
  obtain ⟨r0, c1, h1, h2⟩ := h
  have hc1 : c1.semanticErrors = c.semanticErrors := by
    simp only [tableLookup, M.bind_ok] at h1
    obtain ⟨o, c2, h3, h4⟩ := h1
    obtain ⟨-, rfl⟩ := symStep_ok _ _ _ _ _ h3
    cases o <;> simp at h4 <;> (try (obtain ⟨-, rfl⟩ := h4)) <;> rfl
  by_cases hr : r0.1.isOk = true
  · simp only [hr, Bool.not_true, Bool.false_eq_true, if_false, M.pure_ok, Prod.mk.injEq] at h2
    rw [h2.2, hc1]
  · simp only [hr, Bool.not_false, if_true, M.bind_ok, M.pure_ok, Prod.mk.injEq] at h2
    obtain ⟨u, c2, -, h5, -⟩ := h2
    rw [← h5] at hr
    exact absurd hok hr

theorem assign_tail_ok (w : TExpr) (ok : Bool) (symT : T) (span : Ast.Span) (sym : SymbolIdResult)
    (cX c' : Ctx) (stmt : Option Stmt)
    (h : (do let expr ← (pure w : M TExpr)
             mutateConstCheck ok symT span
             pure (some (Stmt.assignment (LValue.identifier sym) expr))) cX = .ok (stmt, c')) :
    stmt = some (.assignment (.identifier sym) w) ∧
      ∃ post, c'.semanticErrors = cX.semanticErrors ++ post := by
  rw [M.pure_bind_ok, M.bind_ok] at h
  obtain ⟨u, c1, h1, h2⟩ := h
  simp only [M.pure_ok, Prod.mk.injEq] at h2
  obtain ⟨rfl, rfl⟩ := h2
  exact ⟨rfl, mutateConstCheck_ok _ _ _ _ _ _ h1⟩

theorem assign_err_tail_ok (k : SemanticErrorKind) (w : TExpr) (ok : Bool) (symT : T)
    (span : Ast.Span) (sym : SymbolIdResult) (cX c' : Ctx) (stmt : Option Stmt)
    (h : (do insertError k span
             let expr ← (pure w : M TExpr)
             mutateConstCheck ok symT span
             pure (some (Stmt.assignment (LValue.identifier sym) expr))) cX = .ok (stmt, c')) :
    stmt = some (.assignment (.identifier sym) w) ∧ LoggedFirstSince cX k span c' := by
  rw [M.bind_ok] at h
  obtain ⟨u, c1, h1, h2⟩ := h
  obtain ⟨hs, post, hp⟩ := assign_tail_ok _ _ _ _ _ _ _ _ h2
  refine ⟨hs, post, ?_⟩
  rw [hp, insertError_ok _ _ _ _ _ h1]
  simp

/-- **C08, assignment decision.**  For `name = rhs;` where `rhs` analyses to `expr` and `name`
resolves to a symbol of type `symT`: the stored value is `expr` itself of exactly the symbol's type,
or `Cast(expr, symT)`, or one of `IncompatibleDimensionError` / `CastError` /
`IncompatibleTypesError` is the first diagnostic logged after both sides were evaluated, at the
assignment — outside the guard `kfAssignIntLiteral`. -/
theorem assign_decision_partial (fuel : Nat) (span : Ast.Span) (name : Ast.Identifier)
    (rhs : Option Ast.Expr) (ii : Option Ast.IndexedIdentifier) (c c' : Ctx) (stmt : Option Stmt)
    (h : (assignmentStmtToAsgStmt (fuel + 1) span (some name) rhs ii).run c = .ok (stmt, c')) :
    ∃ expr c1 sym symT c2,
      (exprToAsgTexpr fuel rhs).run c = .ok (some expr, c1) ∧
      (lookupSymbol name.text name.span).run c1 = .ok ((sym, symT), c2) ∧
      (sym.isOk = true → kfAssignIntLiteral symT expr = false →
        ∃ v, stmt = some (.assignment (.identifier sym) v) ∧
        ((v = expr ∧ expr.getType = symT) ∨
        (v = castToTexpr expr symT ∧ expr.getType ≠ symT ∧ assignCastCond symT expr = true) ∨
        (v = expr ∧ ∃ k, (k = .incompatibleDimensionError ∨ k = .castError ∨
            k = .incompatibleTypesError) ∧ LoggedFirstSince c2 k span c'))) := by
  simp only [StateT.run, assignmentStmtToAsgStmt, M.bind_ok] at h
  obtain ⟨e0, c1, h1, expr, c1', h2, ⟨sym, symT⟩, c2, h3, h4⟩ := h
  obtain ⟨he0, hc1'⟩ := (M.unwrap_ok _ _ _ _).mp h2
  simp only at he0 hc1' h4
  subst hc1' he0
  refine ⟨expr, c1', sym, symT, c2, h1, h3, fun hok hk => ?_⟩
  -- the ways a branch ends
  have direct : ∀ w, (do let expr ← (pure w : M TExpr)
                         mutateConstCheck sym.isOk symT span
                         pure (some (Stmt.assignment (LValue.identifier sym) expr))) c2 = .ok (stmt, c') →
      stmt = some (.assignment (.identifier sym) w) :=
    fun w hh => (assign_tail_ok _ _ _ _ _ _ _ _ hh).1
  have logged : ∀ k, (k = .incompatibleDimensionError ∨ k = .castError ∨ k = .incompatibleTypesError) →
      (do insertError k span
          let expr ← (pure expr : M TExpr)
          mutateConstCheck sym.isOk symT span
          pure (some (Stmt.assignment (LValue.identifier sym) expr))) c2 = .ok (stmt, c') →
      ∃ v, stmt = some (.assignment (.identifier sym) v) ∧
        ((v = expr ∧ expr.getType = symT) ∨
        (v = castToTexpr expr symT ∧ expr.getType ≠ symT ∧ assignCastCond symT expr = true) ∨
        (v = expr ∧ ∃ k, (k = .incompatibleDimensionError ∨ k = .castError ∨
            k = .incompatibleTypesError) ∧ LoggedFirstSince c2 k span c')) := by
    intro k hk hh
    obtain ⟨hs, hl⟩ := assign_err_tail_ok _ _ _ _ _ _ _ _ _ hh
    exact ⟨expr, hs, .inr (.inr ⟨rfl, k, hk, hl⟩)⟩
  rw [show (sym.isOk && expr.getType != symT) = (expr.getType != symT) by rw [hok, Bool.true_and]] at h4
  by_cases hne : (expr.getType != symT) = true
  · rw [if_pos hne] at h4
    by_cases hd : equalUpToDims expr.getType symT = true
    · rw [if_pos hd] at h4
      exact logged _ (.inl rfl) h4
    · rw [if_neg hd] at h4
      have hne' : expr.getType ≠ symT := by simpa using hne
      have general : assignCastCond symT expr = decide (promoteTypes symT expr.getType = symT) →
          (if promoteTypes symT expr.getType = symT then do
              let expr ← (pure (castToTexpr expr (promoteTypes symT expr.getType)) : M TExpr)
              mutateConstCheck sym.isOk symT span
              pure (some (Stmt.assignment (LValue.identifier sym) expr))
            else do
              insertError .incompatibleTypesError span
              let expr ← (pure expr : M TExpr)
              mutateConstCheck sym.isOk symT span
              pure (some (Stmt.assignment (LValue.identifier sym) expr))) c2 = .ok (stmt, c') →
          ∃ v, stmt = some (.assignment (.identifier sym) v) ∧
            ((v = expr ∧ expr.getType = symT) ∨
            (v = castToTexpr expr symT ∧ expr.getType ≠ symT ∧ assignCastCond symT expr = true) ∨
            (v = expr ∧ ∃ k, (k = .incompatibleDimensionError ∨ k = .castError ∨
                k = .incompatibleTypesError) ∧ LoggedFirstSince c2 k span c')) := by
        intro hcc hh
        by_cases hp : promoteTypes symT expr.getType = symT
        · rw [if_pos hp, hp] at hh
          exact ⟨_, direct _ hh, .inr (.inl ⟨rfl, hne', by rw [hcc]; simpa using hp⟩)⟩
        · rw [if_neg hp] at hh
          exact logged _ (.inr (.inr rfl)) hh
      obtain ⟨e, t⟩ := expr
      cases e with
      | literal lit =>
        cases lit with
        | int value sign =>
          simp only [TExpr.expression] at h4
          cases symT with
          | uint w cst =>
            simp only at h4
            cases sign with
            | true =>
              simp only [if_true] at h4
              exact ⟨_, direct _ h4, .inr (.inl ⟨rfl, hne', rfl⟩)⟩
            | false =>
              simp only [Bool.false_eq_true, if_false] at h4
              exact logged _ (.inr (.inl rfl)) h4
          | _ =>
            exfalso
            simp [kfAssignIntLiteral, isIntLiteralExpr, tag, hne, hd] at hk
        | _ => exact general rfl h4
      | _ => exact general rfl h4
  · rw [if_neg hne] at h4
    simp only [bne_iff_ne, ne_eq, Decidable.not_not] at hne
    exact ⟨_, direct _ h4, .inl ⟨rfl, hne⟩⟩

/-! ### no silent downward conversion -/

/-- a negative integer literal stored into an unsigned target -/
def NegLitToUint (target : T) (value : TExpr) : Bool :=
  tag target == .uint &&
  match value with
  | .mk (.literal (.int _ sign)) _ => !sign
  | _ => false

/-- a width narrowing (same kind, target narrower than the value or the value of unspecified
width) of a NON-constant value -/
def NarrowNonConst (target value : T) : Bool :=
  tag target == tag value &&
  (tag target == .int || tag target == .uint || tag target == .float || tag target == .angle ||
    tag target == .complex) &&
  !isConst value &&
  match width target, width value with
  | some _, none => true
  | some a, some b => decide (a < b)
  | _, _ => false

set_option maxHeartbeats 4000000 in
theorem narrow_facts (t v : T) (h : NarrowNonConst t v = true) :
    equalUpToConstness t v = false ∧
    equalUpToConstness (promoteTypesNotEqual t v) t = false ∧
    (promoteTypesNotEqual t v = T.void ∨ promoteTypesNotEqual t v = v) ∧
    isConst v = false ∧ promoteTypes t v ≠ t ∧ equalUpToDims v t = false ∧ v ≠ t := by
  cases t <;> cases v <;> simp [NarrowNonConst, tag] at h <;>
    (rename_i wt ct wv cv
     cases wt <;> cases wv <;> simp [width] at h <;>
     simp_all [equalUpToConstness, tag, promoteTypesNotEqual, promoteTypeWidth, promoteBaseType,
        promoteTypes, equalUpToDims, numDims, equalUpToShape, width, promoteWidth,
        promoteConstness, isConst] <;> omega)

theorem literalType_const {l : Literal} {t : T} (h : literalType l = some t) : isConst t = true := by
  cases l <;> simp [literalType] at h <;> subst h <;> rfl

theorem isLiteralExpr_iff (e : TExpr) : isLiteralExpr e = true ↔ ∃ l t, e = .mk (.literal l) t := by
  obtain ⟨x, t⟩ := e
  cases x <;> simp [isLiteralExpr]

/-- what well-typedness says about a literal value -/
theorem wt_literal_facts {S : List Sym} {e : TExpr} (hwt : WT S e) (hl : isLiteralExpr e = true) :
    isConst e.getType = true ∧
    (∀ n s t, e = .mk (.literal (.int n s)) t → t = .int (some 128) true) := by
  obtain ⟨l, t, rfl⟩ := (isLiteralExpr_iff e).mp hl
  have := wt_literal_type hwt
  refine ⟨literalType_const this, ?_⟩
  intro n s t' he
  cases he
  simpa [literalType] using this.symm

/-- **C08, no silent downward conversion (declarations) — full at the level of types.**
If the initializer's type is a downward change of kind w.r.t. the declared type, or the initializer
is a negative integer literal for an unsigned target, or it is a non-constant value wider than the
target: the initializer is stored unchanged AND `IncompatibleTypesError` is logged at the
declaration.  (The exception is not in this decision but in the literal's TYPE: an imaginary integer
literal is typed `int[64]`, see `witness_imaginary_int_downward`.) -/
theorem no_silent_downward_decl (fuel : Nat) (span : Ast.Span) (st : Ast.ScalarType)
    (constToken : Bool) (name : Ast.Name) (expr : Option Ast.Expr) (c c' : Ctx) (stmt : Stmt)
    (h : (classicalDeclarationStatementToAsgStmt (fuel + 1) span false (some st) constToken
      (some name) expr).run c = .ok (stmt, c')) :
    ∃ lhsType c1 init c2 sym,
      (scalarTypeToType st constToken).run c = .ok (lhsType, c1) ∧
      (exprToAsgTexpr fuel expr).run c1 = .ok (init, c2) ∧
      ∀ i, init = some i →
        (DownKind lhsType i.getType = true ∨ NegLitToUint lhsType i = true ∨
          NarrowNonConst lhsType i.getType = true) →
        stmt = .declareClassical sym (some i) ∧ LoggedLast .incompatibleTypesError span c' := by
  obtain ⟨lhsType, c1, init, c2, sym, h1, h2, htab⟩ :=
    decl_decision_table fuel span st constToken name expr c c' stmt h
  refine ⟨lhsType, c1, init, c2, sym, h1, h2, fun i hi hdown => ?_⟩
  subst hi
  have hwt : WT c2.symbolTable.all i := well_typed_final fuel expr c1 c2 i h2
  have hlit := fun hl => wt_literal_facts hwt hl
  rcases htab i rfl with ⟨he, -⟩ | ⟨he, hc, -⟩ | ⟨-, -, hs, hl⟩ | ⟨hk, -⟩
  · -- stored directly: the types are equal up to const-ness
    exfalso
    rcases hdown with hd | hd | hd
    · rw [(downKind_facts _ _ hd).1] at he; cases he
    · obtain ⟨e, t⟩ := i
      cases e <;> simp [NegLitToUint] at hd
      rename_i lit
      cases lit <;> simp at hd
      rename_i n sgn
      have := (hlit rfl).2 n sgn t rfl
      subst this
      cases lhsType <;> simp [tag] at hd
      simp [equalUpToConstness, tag, TExpr.getType] at he
    · rw [(narrow_facts _ _ hd).1] at he; cases he
  · -- a cast was inserted
    exfalso
    rcases hdown with hd | hd | hd
    · have f := downKind_facts _ _ hd
      obtain ⟨e, t⟩ := i
      cases e with
      | literal lit =>
        simp only [declCastCond, TExpr.expression, Sema.canCastLiteral] at hc
        split at hc
        · rename_i n sgn htag
          have := (hlit rfl).2 n sgn t rfl
          subst this
          cases lhsType <;> simp [tag] at htag
          simp [DownKind, kindOf, towerRank, TExpr.getType] at hd
        · rw [f.2.1] at hc; cases hc
      | _ =>
        simp only [declCastCond, TExpr.expression] at hc
        rw [f.2.2.1] at hc; cases hc
    · obtain ⟨e, t⟩ := i
      cases e <;> simp [NegLitToUint] at hd
      rename_i lit
      cases lit <;> simp at hd
      rename_i n sgn
      obtain ⟨htag, hsgn⟩ := hd
      subst hsgn
      cases lhsType <;> simp [tag] at htag
      simp [declCastCond, TExpr.expression, Sema.canCastLiteral, tag] at hc
    · have f := narrow_facts _ _ hd
      by_cases hl : isLiteralExpr i = true
      · have := (hlit hl).1
        rw [f.2.2.2.1] at this; cases this
      · obtain ⟨e, t⟩ := i
        cases e with
        | literal lit => exact hl rfl
        | _ =>
          simp only [declCastCond, TExpr.expression] at hc
          rw [f.2.1] at hc; cases hc
  · exact ⟨hs, hl⟩
  · -- the silent region: same kind, const value
    exfalso
    obtain ⟨hnl, htag, -, -, hci, -⟩ := kfDeclSilent_region _ _ hk
    rcases hdown with hd | hd | hd
    · exact (downKind_facts _ _ hd).2.2.2.2.2.2.2 htag
    · obtain ⟨e, t⟩ := i
      cases e <;> simp [NegLitToUint] at hd
      simp [isLiteralExpr] at hnl
    · rw [(narrow_facts _ _ hd).2.2.2.1] at hci; cases hci

/-- **C08, no silent downward conversion (assignments)** — outside `kfAssignIntLiteral`. -/
theorem no_silent_downward_assign_partial (fuel : Nat) (span : Ast.Span) (name : Ast.Identifier)
    (rhs : Option Ast.Expr) (ii : Option Ast.IndexedIdentifier) (c c' : Ctx) (stmt : Option Stmt)
    (h : (assignmentStmtToAsgStmt (fuel + 1) span (some name) rhs ii).run c = .ok (stmt, c')) :
    ∃ expr c1 sym symT c2,
      (exprToAsgTexpr fuel rhs).run c = .ok (some expr, c1) ∧
      (lookupSymbol name.text name.span).run c1 = .ok ((sym, symT), c2) ∧
      (sym.isOk = true → kfAssignIntLiteral symT expr = false →
        (DownKind symT expr.getType = true ∨ NegLitToUint symT expr = true ∨
          NarrowNonConst symT expr.getType = true) →
        stmt = some (.assignment (.identifier sym) expr) ∧
        ∃ k, (k = .incompatibleDimensionError ∨ k = .castError ∨ k = .incompatibleTypesError) ∧
          LoggedFirstSince c2 k span c') := by
  obtain ⟨expr, c1, sym, symT, c2, h1, h2, hdec⟩ :=
    assign_decision_partial fuel span name rhs ii c c' stmt h
  refine ⟨expr, c1, sym, symT, c2, h1, h2, fun hok hk hdown => ?_⟩
  have hwt : WT c1.symbolTable.all expr := well_typed_final fuel rhs c c1 expr h1
  have hlit := fun hl => wt_literal_facts hwt hl
  obtain ⟨v, hv, hcases⟩ := hdec hok hk
  have hdims : equalUpToDims expr.getType symT = false ∧ expr.getType ≠ symT := by
    rcases hdown with hd | hd | hd
    · exact ⟨(downKind_facts _ _ hd).2.2.2.2.2.1, (downKind_facts _ _ hd).2.2.2.2.2.2.1⟩
    · obtain ⟨e, t⟩ := expr
      cases e <;> simp [NegLitToUint] at hd
      rename_i lit
      cases lit <;> simp at hd
      rename_i n sgn
      have := (hlit rfl).2 n sgn t rfl
      subst this
      cases symT <;> simp [tag] at hd
      simp [equalUpToDims, TExpr.getType, numDims, equalUpToShape, tag]
    · exact ⟨(narrow_facts _ _ hd).2.2.2.2.2.1, (narrow_facts _ _ hd).2.2.2.2.2.2⟩
  rcases hcases with ⟨-, he⟩ | ⟨-, -, hc⟩ | ⟨rfl, k, hkk, hl⟩
  · exact absurd he hdims.2
  · exfalso
    rcases hdown with hd | hd | hd
    · have f := downKind_facts _ _ hd
      obtain ⟨e, t⟩ := expr
      cases e with
      | literal lit =>
        cases lit with
        | int n sgn =>
          have := (hlit rfl).2 n sgn t rfl
          subst this
          simp only [assignCastCond, TExpr.expression, Bool.and_eq_true, beq_iff_eq] at hc
          cases symT <;> simp [tag] at hc
          simp [DownKind, kindOf, towerRank, TExpr.getType] at hd
        | _ =>
          simp only [assignCastCond, TExpr.expression, decide_eq_true_eq] at hc
          exact f.2.2.2.2.1 hc
      | _ =>
        simp only [assignCastCond, TExpr.expression, decide_eq_true_eq] at hc
        exact f.2.2.2.2.1 hc
    · obtain ⟨e, t⟩ := expr
      cases e <;> simp [NegLitToUint] at hd
      rename_i lit
      cases lit <;> simp at hd
      obtain ⟨-, hsgn⟩ := hd
      subst hsgn
      simp [assignCastCond, TExpr.expression] at hc
    · have f := narrow_facts _ _ hd
      by_cases hl : isLiteralExpr expr = true
      · have := (hlit hl).1
        rw [f.2.2.2.1] at this; cases this
      · obtain ⟨e, t⟩ := expr
        cases e with
        | literal lit => exact hl rfl
        | _ =>
          simp only [assignCastCond, TExpr.expression, decide_eq_true_eq] at hc
          exact f.2.2.2.2.1 hc
  · exact ⟨hv, k, hkk, hl⟩

/-! ## witnesses (closed programs: the I5 dump of the named source, evaluated by the kernel) -/

def isCastExpr : TExpr → Bool
  | .mk (.cast _ _) _ => true
  | _ => false

/-- per statement: for a declaration with initializer / an assignment, the type of the stored
value and whether it is a cast -/
def stmtObs : Stmt → Option (T × Bool)
  | .declareClassical _ (some v) => some (v.getType, isCastExpr v)
  | .assignment _ v => some (v.getType, isCastExpr v)
  | _ => none

/-- what a witness observes: the statements' stored values, the types of the user's symbols
(ids 7, 8, …), and all diagnostics -/
def observe (p : Ast.Program) : Option (List (Option (T × Bool)) × List T × List SemErr) :=
  match analyze p with
  | .ok c => some (c.program.map stmtObs, (c.symbolTable.all.drop 7).map (·.ty), c.semanticErrors)
  | .error _ => none

/-- `const int n = 3; int[8] y = n;` -/
def progF18a : Ast.Program :=
  ⟨⟨0, 30⟩, [(.classicalDeclarationStatement ⟨0, 16⟩ false (some (.mk ⟨6, 9⟩ .int none none)) true (some ⟨⟨10, 11⟩, "n"⟩) (some (.literal ⟨⟨14, 15⟩, .intNumber "3" (some 3)⟩))), (.classicalDeclarationStatement ⟨17, 30⟩ false (some (.mk ⟨17, 23⟩ .int (some (.mk ⟨20, 23⟩ (some (.literal ⟨⟨21, 22⟩, .intNumber "8" (some 8)⟩)))) none)) false (some ⟨⟨24, 25⟩, "y"⟩) (some (.identifier ⟨⟨28, 29⟩, "n"⟩)))]⟩

/-- `int[8] y = 1+2;` -/
def progF18b : Ast.Program :=
  ⟨⟨0, 15⟩, [(.classicalDeclarationStatement ⟨0, 15⟩ false (some (.mk ⟨0, 6⟩ .int (some (.mk ⟨3, 6⟩ (some (.literal ⟨⟨4, 5⟩, .intNumber "8" (some 8)⟩)))) none)) false (some ⟨⟨7, 8⟩, "y"⟩) (some (.binExpr ⟨11, 14⟩ (some (.arithOp .add)) (some (.literal ⟨⟨11, 12⟩, .intNumber "1" (some 1)⟩)) (some (.literal ⟨⟨13, 14⟩, .intNumber "2" (some 2)⟩)))))]⟩

/-- `float f = 2im;` -/
def progF18c : Ast.Program :=
  ⟨⟨0, 14⟩, [(.classicalDeclarationStatement ⟨0, 14⟩ false (some (.mk ⟨0, 5⟩ .float none none)) false (some ⟨⟨6, 7⟩, "f"⟩) (some (.timingLiteral ⟨10, 13⟩ (some .imaginary) (some "im") (some ⟨⟨10, 11⟩, .intNumber "2" (some 2)⟩))))]⟩

/-- `int x = 2im;` -/
def progF18c2 : Ast.Program :=
  ⟨⟨0, 12⟩, [(.classicalDeclarationStatement ⟨0, 12⟩ false (some (.mk ⟨0, 3⟩ .int none none)) false (some ⟨⟨4, 5⟩, "x"⟩) (some (.timingLiteral ⟨8, 11⟩ (some .imaginary) (some "im") (some ⟨⟨8, 9⟩, .intNumber "2" (some 2)⟩))))]⟩

/-- `duration d; d = 1;` -/
def progF18d : Ast.Program :=
  ⟨⟨0, 18⟩, [(.classicalDeclarationStatement ⟨0, 11⟩ false (some (.mk ⟨0, 8⟩ .duration none none)) false (some ⟨⟨9, 10⟩, "d"⟩) none), (.assignmentStmt ⟨12, 18⟩ (some ⟨⟨12, 13⟩, "d"⟩) (some (.literal ⟨⟨16, 17⟩, .intNumber "1" (some 1)⟩)) none)]⟩

/-- `bool b; b = -1;` -/
def progF18d2 : Ast.Program :=
  ⟨⟨0, 15⟩, [(.classicalDeclarationStatement ⟨0, 7⟩ false (some (.mk ⟨0, 4⟩ .bool none none)) false (some ⟨⟨5, 6⟩, "b"⟩) none), (.assignmentStmt ⟨8, 15⟩ (some ⟨⟨8, 9⟩, "b"⟩) (some (.prefixExpr ⟨12, 14⟩ (some .neg) (some (.literal ⟨⟨13, 14⟩, .intNumber "1" (some 1)⟩)))) none)]⟩

/-- `int[8] y = 2.5;` -/
def progCtl1 : Ast.Program :=
  ⟨⟨0, 15⟩, [(.classicalDeclarationStatement ⟨0, 15⟩ false (some (.mk ⟨0, 6⟩ .int (some (.mk ⟨3, 6⟩ (some (.literal ⟨⟨4, 5⟩, .intNumber "8" (some 8)⟩)))) none)) false (some ⟨⟨7, 8⟩, "y"⟩) (some (.literal ⟨⟨11, 14⟩, .floatNumber "2.5" (some "2.5")⟩)))]⟩

/-- `uint x = -1;` -/
def progCtl2 : Ast.Program :=
  ⟨⟨0, 12⟩, [(.classicalDeclarationStatement ⟨0, 12⟩ false (some (.mk ⟨0, 4⟩ .uint none none)) false (some ⟨⟨5, 6⟩, "x"⟩) (some (.prefixExpr ⟨9, 11⟩ (some .neg) (some (.literal ⟨⟨10, 11⟩, .intNumber "1" (some 1)⟩)))))]⟩

/-- **F18a** `const int n = 3; int[8] y = n;`: `y : int[8]` is initialised with the identifier of
type `const int` unchanged, no cast, no diagnostic; the guard holds -/
theorem witness_const_identifier_narrowed :
    observe progF18a = some ([some (.int none true, true), some (.int none true, false)],
      [.int none true, .int (some 8) false], []) ∧
    kfDeclSilent (.int (some 8) false) (.mk (.identifier (.ok 7)) (.int none true)) = true := by
  constructor
  · decide +kernel
  · decide

/-- **F18b** `int[8] y = 1+2;`: the sum has type `const int[128]`, stored unchanged, nothing logged -/
theorem witness_arithmetic_initializer_narrowed :
    observe progF18b = some ([some (.int (some 128) true, false)], [.int (some 8) false], []) ∧
    kfDeclSilent (.int (some 8) false)
      (.mk (.binaryExpr (.arithOp .add) (intLiteralToTexpr 1 true) (intLiteralToTexpr 2 true))
        (.int (some 128) true)) = true := by
  constructor
  · decide +kernel
  · decide

/-- **F18c** `float f = 2im;` and `int x = 2im;`: an imaginary integer literal is typed
`const int[64]`, so the literal-cast table accepts it for `float` and for `int` targets: a cast is
inserted, nothing logged — a complex→real conversion accepted silently.  (`2.0im` is
`complex[float[64]]` and is rejected.) -/
theorem witness_imaginary_int_downward :
    observe progF18c = some ([some (.float none false, true)], [.float none false], []) ∧
    observe progF18c2 = some ([some (.int none false, true)], [.int none false], []) := by
  constructor <;> decide +kernel

/-- **F18d** `duration d; d = 1;` and `bool b; b = -1;`: an integer literal is stored unchanged
into a target of any non-`uint` type, nothing logged; the guard holds -/
theorem witness_int_literal_assigned :
    observe progF18d = some ([none, some (.int (some 128) true, false)], [.duration false], []) ∧
    observe progF18d2 = some ([none, some (.int (some 128) true, false)], [.boolT false], []) ∧
    kfAssignIntLiteral (.duration false) (intLiteralToTexpr 1 true) = true ∧
    kfAssignIntLiteral (.boolT false) (intLiteralToTexpr 1 false) = true := by
  refine ⟨?_, ?_, ?_, ?_⟩
  · decide +kernel
  · decide +kernel
  · decide
  · decide

/-- controls: `int[8] y = 2.5;` and `uint x = -1;` are stored unchanged WITH the diagnostic -/
theorem witness_downward_diagnosed :
    observe progCtl1 = some ([some (.float (some 64) true, false)], [.int (some 8) false],
      [⟨.incompatibleTypesError, 0, 15⟩]) ∧
    observe progCtl2 = some ([some (.int (some 128) true, false)], [.uint none false],
      [⟨.incompatibleTypesError, 0, 12⟩]) := by
  constructor <;> decide +kernel

/-- `int a; uint b; a + b;` -/
def progVoidArith : Ast.Program :=
  ⟨⟨0, 21⟩, [(.classicalDeclarationStatement ⟨0, 6⟩ false (some (.mk ⟨0, 3⟩ .int none none)) false (some ⟨⟨4, 5⟩, "a"⟩) none), (.classicalDeclarationStatement ⟨7, 14⟩ false (some (.mk ⟨7, 11⟩ .uint none none)) false (some ⟨⟨12, 13⟩, "b"⟩) none), (.exprStmt ⟨15, 21⟩ (some (.binExpr ⟨15, 20⟩ (some (.arithOp .add)) (some (.identifier ⟨⟨15, 16⟩, "a"⟩)) (some (.identifier ⟨⟨19, 20⟩, "b"⟩)))))]⟩

/-- `complex c; c / 2;` -/
def progComplexDiv : Ast.Program :=
  ⟨⟨0, 17⟩, [(.classicalDeclarationStatement ⟨0, 10⟩ false (some (.mk ⟨0, 7⟩ .complex none none)) false (some ⟨⟨8, 9⟩, "c"⟩) none), (.exprStmt ⟨11, 17⟩ (some (.binExpr ⟨11, 16⟩ (some (.arithOp .div)) (some (.identifier ⟨⟨11, 12⟩, "c"⟩)) (some (.literal ⟨⟨15, 16⟩, .intNumber "2" (some 2)⟩)))))]⟩

/-- a binary expression statement: its type, and for each operand its type and whether it is a cast -/
structure BinObs where
  ty : T
  leftTy : T
  leftIsCast : Bool
  rightTy : T
  rightIsCast : Bool
  deriving DecidableEq

def binObs : Stmt → List BinObs
  | .exprStmt (.mk (.binaryExpr _ l r) t) => [⟨t, l.getType, isCastExpr l, r.getType, isCastExpr r⟩]
  | _ => []

def observeBin (p : Ast.Program) : Option (List BinObs × List SemErr) :=
  match analyze p with
  | .ok c => some (c.program.flatMap binObs, c.semanticErrors)
  | .error _ => none

/-- "the common type of its operands" can be `Void`, with both operands cast to `Void` and NO
diagnostic: `int a; uint b; a + b;` (the promotion table has no `int`/`uint` entry, C20 F19c);
`WT` holds — it says what the code does — but the property's reading "common type" does not -/
theorem witness_void_arithmetic_undiagnosed :
    observeBin progVoidArith = some ([⟨.void, .void, true, .void, true⟩], []) ∧
    implicitCastType .add (.int none false) (.uint none false) = .void := by
  constructor
  · decide +kernel
  · decide

/-- `/` with no `float` operand yields `float` regardless of the operands: `complex c; c / 2;` casts
the complex operand DOWN to `float`, silently -/
theorem witness_complex_division_downward :
    observeBin progComplexDiv =
      some ([⟨.float none false, .float none false, true, .float none false, true⟩], []) ∧
    implicitCastType .div (.complex none false) (.int (some 128) true) = .float none false := by
  constructor
  · decide +kernel
  · decide

end Oq3.Props.C08
