/-
C08 — expressions are typed consistently; conversions are explicit or diagnosed.

Part 1  `WT S e`: the typing predicate on ASG expressions (relative to a symbol vector `S`), and
        `well_typed`: every expression returned by `exprToAsgTexpr` — any fuel, any context —
        satisfies it, deeply (all sub-expressions), w.r.t. every symbol vector that extends the
        final one.  Proof: a Hoare-style specification `Spec` pushed through the twelve functions
        of the expression part of the mutual block by a proof script (one `_step` lemma per
        function, then induction on fuel), as in `Lemmas/GrammarInv.lean`.
Part 2  `decl_decision_partial`, `assign_decision_partial` and the guards `kf…` of the regions in
        which the unchanged code accepts silently; `witness_*` (closed programs, kernel-evaluated).
Part 3  `no_silent_downward_*`.
-/
import Lean
import Oq3.Model.Sema
import Oq3.Props.C19
import Oq3.Props.C20

namespace Oq3.Props.C08
open Oq3 Oq3.Types Oq3.Symbols Oq3.Sema

/-! ### successful runs in `M = StateT Ctx (Except Outcome)` -/

theorem M.bind_ok {α β} (x : M α) (f : α → M β) (s : Ctx) (r : β × Ctx) :
    (x >>= f) s = .ok r ↔ ∃ a s1, x s = .ok (a, s1) ∧ f a s1 = .ok r := by
  show (StateT.bind x f) s = .ok r ↔ _
  unfold StateT.bind
  simp only [bind, Except.bind]
  cases x s with
  | error e => simp
  | ok p =>
    obtain ⟨a, s1⟩ := p
    simp only [Except.ok.injEq, Prod.mk.injEq]
    constructor
    · intro h; exact ⟨a, s1, ⟨rfl, rfl⟩, h⟩
    · rintro ⟨_, _, ⟨rfl, rfl⟩, h⟩; exact h

@[simp] theorem M.pure_ok {α} (a : α) (s : Ctx) (r : α × Ctx) :
    (pure a : M α) s = .ok r ↔ r = (a, s) := by
  show Except.ok (a, s) = Except.ok r ↔ _
  constructor <;> intro h <;> simp_all

@[simp] theorem M.get_ok (s : Ctx) (r : Ctx × Ctx) : (get : M Ctx) s = .ok r ↔ r = (s, s) := by
  show Except.ok (s, s) = Except.ok r ↔ _
  constructor <;> intro h <;> simp_all

@[simp] theorem M.set_ok (s0 s : Ctx) (r : PUnit × Ctx) :
    (set s0 : M PUnit) s = .ok r ↔ r = (⟨⟩, s0) := by
  show Except.ok (PUnit.unit, s0) = Except.ok r ↔ _
  constructor <;> intro h <;> simp_all

@[simp] theorem M.modify_ok (f : Ctx → Ctx) (s : Ctx) (r : PUnit × Ctx) :
    (modify f : M PUnit) s = .ok r ↔ r = (⟨⟩, f s) := by
  show Except.ok (PUnit.unit, f s) = Except.ok r ↔ _
  constructor <;> intro h <;> simp_all

@[simp] theorem M.fail_ok {α} (site : String) (s : Ctx) (r : α × Ctx) :
    (fail site : M α) s = .ok r ↔ False := by
  show Except.error _ = Except.ok r ↔ _
  simp

@[simp] theorem M.throw_ok {α} (o : Outcome) (s : Ctx) (r : α × Ctx) :
    (throw o : M α) s = .ok r ↔ False := by
  show Except.error _ = Except.ok r ↔ _
  simp

@[simp] theorem exists2_eq {α β : Type} {a0 : α} {b0 : β} {Q : α → β → Prop} :
    (∃ a b, (a = a0 ∧ b = b0) ∧ Q a b) ↔ Q a0 b0 := by
  constructor
  · rintro ⟨_, _, ⟨rfl, rfl⟩, h⟩; exact h
  · intro h; exact ⟨a0, b0, ⟨rfl, rfl⟩, h⟩

@[simp] theorem M.get_bind_ok {β} (f : Ctx → M β) (s : Ctx) (r : β × Ctx) :
    (get >>= f) s = .ok r ↔ f s s = .ok r := by
  rw [M.bind_ok]; simp

@[simp] theorem M.set_bind_ok {β} (s0 : Ctx) (f : PUnit → M β) (s : Ctx) (r : β × Ctx) :
    (set s0 >>= f) s = .ok r ↔ f ⟨⟩ s0 = .ok r := by
  rw [M.bind_ok]; simp
  exact ⟨fun ⟨⟨⟩, h⟩ => h, fun h => ⟨⟨⟩, h⟩⟩

@[simp] theorem M.modify_bind_ok {β} (g : Ctx → Ctx) (f : PUnit → M β) (s : Ctx) (r : β × Ctx) :
    (modify g >>= f) s = .ok r ↔ f ⟨⟩ (g s) = .ok r := by
  rw [M.bind_ok]; simp
  exact ⟨fun ⟨⟨⟩, h⟩ => h, fun h => ⟨⟨⟩, h⟩⟩

@[simp] theorem M.pure_bind_ok {α β} (a : α) (f : α → M β) (s : Ctx) (r : β × Ctx) :
    (pure a >>= f) s = .ok r ↔ f a s = .ok r := by
  rw [M.bind_ok]; simp

theorem M.unwrap_ok {α} (site : String) (o : Option α) (s : Ctx) (r : α × Ctx) :
    (unwrap site o) s = .ok r ↔ o = some r.1 ∧ r.2 = s := by
  cases o with
  | none => simp [unwrap]
  | some a =>
    simp only [unwrap, M.pure_ok, Option.some.injEq]
    constructor
    · rintro rfl; exact ⟨rfl, rfl⟩
    · rintro ⟨rfl, rfl⟩; rfl

/-! ### the specification format -/

/-- the symbol vector only grows (symbol ids are stable) -/
def Ext (c c' : Ctx) : Prop := c.symbolTable.all <+: c'.symbolTable.all

theorem Ext.refl (c : Ctx) : Ext c c := List.prefix_refl _
theorem Ext.trans {a b c : Ctx} (h1 : Ext a b) (h2 : Ext b c) : Ext a c := List.IsPrefix.trans h1 h2

/-- on every successful run of `x` the symbol vector only grows, and the result satisfies `R`
provided `S` extends the final symbol vector -/
structure Spec (S : List Sym) {α} (x : M α) (R : α → Prop) : Prop where
  run : ∀ c a c', x c = .ok (a, c') → Ext c c' ∧ (c'.symbolTable.all <+: S → R a)

variable {S : List Sym}

theorem Spec.pure {α} {a : α} {R : α → Prop} (h : R a) : Spec S (pure a : M α) R := by
  refine ⟨fun c a' c' hr => ?_⟩
  simp only [M.pure_ok, Prod.mk.injEq] at hr
  obtain ⟨rfl, rfl⟩ := hr
  exact ⟨Ext.refl _, fun _ => h⟩

theorem Spec.pure_eq {α} (a : α) : Spec S (Pure.pure a : M α) (fun b => b = a) := Spec.pure rfl

theorem Spec.bind {α β} {x : M α} {f : α → M β} {R1 : α → Prop} {R2 : β → Prop}
    (hx : Spec S x R1) (hf : ∀ a, Spec S (f a) (fun b => R1 a → R2 b)) : Spec S (x >>= f) R2 := by
  refine ⟨fun c b c' hr => ?_⟩
  obtain ⟨a, c1, h1, h2⟩ := (M.bind_ok x f c (b, c')).mp hr
  obtain ⟨e1, r1⟩ := hx.run c a c1 h1
  obtain ⟨e2, r2⟩ := (hf a).run c1 b c' h2
  exact ⟨e1.trans e2, fun hS => r2 hS (r1 (List.IsPrefix.trans e2 hS))⟩

theorem Spec.mono {α} {x : M α} {R R' : α → Prop} (hx : Spec S x R) (h : ∀ a, R a → R' a) :
    Spec S x R' := by
  refine ⟨fun c a c' hr => ?_⟩
  obtain ⟨e, r⟩ := hx.run c a c' hr
  exact ⟨e, fun hS => h a (r hS)⟩

theorem Spec.fail {α} (site : String) (R : α → Prop) : Spec S (fail site : M α) R := by
  refine ⟨fun c a c' hr => ?_⟩; simp at hr

theorem Spec.throw {α} (o : Outcome) (R : α → Prop) : Spec S (throw o : M α) R := by
  refine ⟨fun c a c' hr => ?_⟩; simp at hr

theorem Spec.unwrap {α} (site : String) (o : Option α) :
    Spec S (unwrap site o) (fun a => o = some a) := by
  refine ⟨fun c a c' hr => ?_⟩
  obtain ⟨h1, h2⟩ := (M.unwrap_ok site o c (a, c')).mp hr
  simp only at h1 h2
  subst h2
  exact ⟨Ext.refl _, fun _ => h1⟩

theorem Spec.ite {α} (p : Prop) [Decidable p] {x y : M α} {R : α → Prop} (hx : Spec S x R)
    (hy : Spec S y R) : Spec S (if p then x else y) R := by
  split <;> assumption

/-- a computation that leaves the symbol table alone -/
theorem Spec.of_symtab_eq {α} {x : M α} {R : α → Prop}
    (h : ∀ c a c', x c = .ok (a, c') → c'.symbolTable = c.symbolTable ∧ R a) : Spec S x R := by
  refine ⟨fun c a c' hr => ?_⟩
  obtain ⟨h1, h2⟩ := h c a c' hr
  exact ⟨by unfold Ext; rw [h1]; exact List.prefix_refl _, fun _ => h2⟩

theorem Spec.insertError (k : SemanticErrorKind) (node : Ast.Span) :
    Spec S (insertError k node) (fun _ => True) := by
  apply Spec.of_symtab_eq
  intro c a c' hr
  simp only [Sema.insertError, M.modify_ok, Prod.mk.injEq] at hr
  obtain ⟨_, rfl⟩ := hr
  exact ⟨rfl, trivial⟩

theorem Spec.currentScopeType : Spec S currentScopeType (fun _ => True) := by
  apply Spec.of_symtab_eq
  intro c a c' hr
  simp only [Sema.currentScopeType, M.get_bind_ok] at hr
  cases hst : c.symbolTable.stack with
  | nil => simp [hst] at hr
  | cons s rest =>
    simp only [hst, M.pure_ok, Prod.mk.injEq] at hr; exact ⟨by rw [hr.2], trivial⟩

theorem Spec.inGlobalScope : Spec S inGlobalScope (fun _ => True) := by
  unfold Sema.inGlobalScope
  exact Spec.bind Spec.currentScopeType (fun _ => Spec.pure (fun _ => trivial))

/-- what one table step does to the context -/
theorem symStep_ok (site : String) (op : Op) (c : Ctx) (o : Out) (c' : Ctx)
    (h : symStep site op c = .ok (o, c')) :
    (c.symbolTable.step op).2 = o ∧ c' = { c with symbolTable := (c.symbolTable.step op).1 } := by
  simp only [symStep, M.get_bind_ok] at h
  cases ho : (c.symbolTable.step op).2 <;> simp only [ho] at h <;>
    first
    | (simp at h; done)
    | (simp only [M.set_bind_ok, M.pure_ok, Prod.mk.injEq] at h
       exact ⟨h.1.symm, h.2⟩)

theorem Spec.symStep (site : String) (op : Op) : Spec S (symStep site op) (fun _ => True) := by
  refine ⟨fun c o c' hr => ?_⟩
  obtain ⟨_, rfl⟩ := symStep_ok site op c o c' hr
  exact ⟨C19.all_prefix_step _ _, fun _ => trivial⟩

/-! ### the typing predicate -/

/-- the type the symbol vector gives to a lookup result: the symbol's type, `Undefined` for a
failed lookup (`SymbolRecordResult::as_tuple`) -/
def SymTyped (S : List Sym) (sym : SymbolIdResult) (t : T) : Prop :=
  match sym with
  | .ok id => ∃ name, S[id]? = some ⟨name, t⟩
  | .error _ => t = .undefined

/-- `MeasureExpression::to_texpr`: the bit shape of the operand -/
def measureShape : T → T
  | .qubit | .hwqubit => .bit false
  | .qubitArray dims => .bitArray dims false
  | _ => .undefined

/-- the type each literal class gets (all const).  NB the imaginary INTEGER literal is
`int[64]`, not complex (`witness_imaginary_int_not_complex`). -/
def literalType : Literal → Option T
  | .bool _ => some (.boolT true)
  | .int _ _ => some (.int (some 128) true)
  | .float _ => some (.float (some 64) true)
  | .imaginaryInt _ _ => some (.int (some 64) true)
  | .imaginaryFloat _ => some (.complex (some 64) true)
  | .bitString v =>
    some (.bitArray (.d1 ((v.toList.filter (fun c => c == '0' || c == '1')).length)) true)
  | .timingIntLiteral .. => some (.duration true)
  | .timingFloatLiteral .. => some (.duration true)
  | .array => none

def ixTexprs : IndexOperator → List TExpr
  | .setExpression es => es
  | .expressionList es => es

/-- an arithmetic operand: already of the node's type, or an explicit cast to it -/
def Operand (orig : TExpr) (τ : T) (actual : TExpr) : Prop :=
  (actual = orig ∧ orig.getType = τ) ∨ (actual = castToTexpr orig τ ∧ orig.getType ≠ τ)

/-- **the typing rules the semantic pass implements.**  Forms with no rule (`nullExpr`, a bare
`setExpression`, `unaryExpr` other than minus, `powerOp`, the `array` literal) never occur. -/
inductive WT (S : List Sym) : TExpr → Prop
  /-- an identifier has the type of its symbol (`Undefined` when the lookup failed) -/
  | identifier {sym t} : SymTyped S sym t → WT S (.mk (.identifier sym) t)
  /-- a literal has the type of its literal class, const -/
  | literal {l t} : literalType l = some t → WT S (.mk (.literal l) t)
  /-- a cast has its target type -/
  | cast {e t} : WT S e → WT S (.mk (.cast e t) t)
  /-- a measurement has the bit shape of its operand -/
  | measure {e} : WT S e → WT S (.mk (.measureExpression e) (measureShape e.getType))
  /-- unary minus has the operand's type -/
  | minus {e} : WT S e → WT S (.mk (.unaryExpr .minus e) e.getType)
  /-- an arithmetic node has the type `τ = implicit_cast_type(op, τ₁, τ₂)` and each operand is of
  type `τ` or is `Cast(_, τ)` -/
  | arith {op l0 r0 l r} : WT S l0 → WT S r0 →
      Operand l0 (implicitCastType op l0.getType r0.getType) l →
      Operand r0 (implicitCastType op l0.getType r0.getType) r →
      WT S (.mk (.binaryExpr (.arithOp op) l r) (implicitCastType op l0.getType r0.getType))
  /-- `==`, `!=`: the code assigns `ToDo`, operands untouched -/
  | cmp {op l r} : WT S l → WT S r → WT S (.mk (.binaryExpr (.cmpOp op) l r) .todo)
  /-- `++` (and `**`, which `binary_op_to_asg_type` maps to concatenation): `ToDo` -/
  | concat {l r} : WT S l → WT S r → WT S (.mk (.binaryExpr .concatenationOp l r) .todo)
  | hardwareQubit {name} : WT S (.mk (.hardwareQubit name) .hwqubit)
  /-- index expressions are `ToDo` -/
  | indexExpression {e ix} : WT S e → (∀ x, x ∈ ixTexprs ix → WT S x) →
      WT S (.mk (.indexExpression e ix) .todo)
  | indexedIdentifier {sym ixs} : (∀ ix, ix ∈ ixs → ∀ x, x ∈ ixTexprs ix → WT S x) →
      WT S (.mk (.indexedIdentifier (.mk sym ixs)) .todo)
  /-- gate operands carry the type of the symbol (of the whole register when indexed) -/
  | gateOperandIdent {sym t} : SymTyped S sym t → WT S (.mk (.gateOperand (.identifier sym)) t)
  | gateOperandHw {name} : WT S (.mk (.gateOperand (.hardwareQubit name)) .hwqubit)
  | gateOperandIndexed {sym ixs t} : SymTyped S sym t →
      (∀ ix, ix ∈ ixs → ∀ x, x ∈ ixTexprs ix → WT S x) →
      WT S (.mk (.gateOperand (.indexedIdentifier (.mk sym ixs))) t)
  /-- `return e` has the type of `e`; `return` is `Void` -/
  | returnSome {e} : WT S e → WT S (.mk (.returnExpr (some e)) e.getType)
  | returnNone : WT S (.mk (.returnExpr none) .void)
  /-- a call has the return type recorded in the subroutine's symbol -/
  | call {id name n ret params} : S[id]? = some ⟨name, .subroutine n ret⟩ →
      (∀ ps, params = some ps → ∀ x, x ∈ ps → WT S x) →
      WT S (.mk (.subroutineCall (.ok id) params) ret)
  | range {a b c} : WT S a → (∀ x, b = some x → WT S x) → WT S c →
      WT S (.mk (.rangeExpression a b c) .range)

/-- results of the various functions -/
def OptWT (S : List Sym) : Option TExpr → Prop
  | some e => WT S e
  | none => True

def ListWT (S : List Sym) (es : List TExpr) : Prop := ∀ x, x ∈ es → WT S x

@[simp] theorem optWT_some (e : TExpr) : OptWT S (some e) ↔ WT S e := Iff.rfl
@[simp] theorem optWT_none : OptWT S none ↔ True := Iff.rfl
@[simp] theorem listWT_nil : ListWT S [] ↔ True := by simp [ListWT]
@[simp] theorem listWT_cons (e : TExpr) (es : List TExpr) :
    ListWT S (e :: es) ↔ WT S e ∧ ListWT S es := by simp [ListWT]

/-! ### the computing constructors of asg.rs produce well-typed nodes -/

theorem wt_castToTexpr {e : TExpr} (t : T) (h : WT S e) : WT S (castToTexpr e t) := .cast h

theorem wt_measure {e : TExpr} (h : WT S e) : WT S (measureExpressionToTexpr e) := by
  have : measureExpressionToTexpr e = .mk (.measureExpression e) (measureShape e.getType) := by
    unfold measureExpressionToTexpr measureShape
    cases e.getType <;> rfl
  rw [this]; exact .measure h

theorem wt_minus {e : TExpr} (h : WT S e) : WT S (unaryExprToTexpr .minus e) := .minus h

theorem wt_newTexprWithCast (op : BinaryOp) (hop : op ≠ .powerOp) {l r : TExpr} (hl : WT S l)
    (hr : WT S r) : WT S (newTexprWithCast op l r) := by
  cases op with
  | arithOp a =>
    simp only [newTexprWithCast]
    refine .arith hl hr ?_ ?_
    · by_cases h : implicitCastType a l.getType r.getType = l.getType
      · rw [if_pos h]; exact .inl ⟨rfl, h.symm⟩
      · rw [if_neg h]; exact .inr ⟨rfl, fun h' => h h'.symm⟩
    · by_cases h : implicitCastType a l.getType r.getType = r.getType
      · rw [if_pos h]; exact .inl ⟨rfl, h.symm⟩
      · rw [if_neg h]; exact .inr ⟨rfl, fun h' => h h'.symm⟩
  | cmpOp c => exact .cmp hl hr
  | concatenationOp => exact .concat hl hr
  | powerOp => exact absurd rfl hop

theorem wt_literal {l : Literal} {t : T} (h : literalType l = some t) : WT S (.mk (.literal l) t) :=
  .literal h

theorem wt_range {a c : TExpr} {b : Option TExpr} (ha : WT S a) (hb : OptWT S b) (hc : WT S c) :
    WT S (rangeExpressionToTexpr a b c) := by
  refine .range ha ?_ hc
  intro x hx; subst hx; exact hb

theorem wt_return {v : Option TExpr} (h : OptWT S v) : WT S (returnExpressionToTexpr v) := by
  cases v with
  | none => exact .returnNone
  | some e => exact .returnSome h

theorem wt_hardwareQubit (h : Ast.HardwareQubit) : WT S (hardwareQubitToAsgTexpr h) := .hardwareQubit

/-- parameter lists of calls -/
def OptListWT (S : List Sym) : Option (List TExpr) → Prop
  | some ps => ListWT S ps
  | none => True

theorem wt_call {sym : SymbolIdResult} {t ret : T} {n : Nat} {params : Option (List TExpr)}
    (h1 : SymTyped S sym t) (h2 : t = .subroutine n ret) (h3 : OptListWT S params) :
    WT S (subroutineCallToTexpr sym params ret) := by
  subst h2
  cases sym with
  | error e => cases h1
  | ok id =>
    obtain ⟨name, hn⟩ := h1
    refine .call hn ?_
    intro ps hps; subst hps; exact h3

def IxWT (S : List Sym) (ix : IndexOperator) : Prop := ListWT S (ixTexprs ix)

def IxsWT (S : List Sym) (ixs : List IndexOperator) : Prop := ∀ ix, ix ∈ ixs → IxWT S ix

/-- an `IndexedIdentifier` and the type returned next to it -/
def IIWT (S : List Sym) : IndexedIdentifier → T → Prop
  | .mk sym ixs, t => SymTyped S sym t ∧ IxsWT S ixs

theorem wt_indexExpression {e : TExpr} {ix : IndexOperator} (h1 : WT S e) (h2 : IxWT S ix) :
    WT S (indexExpressionToTexpr e ix) := .indexExpression h1 h2

theorem wt_indexedIdentifier {ii : IndexedIdentifier} {t : T} (h : IIWT S ii t) :
    WT S (indexedIdentifierToTexpr ii) := by
  cases ii with
  | mk sym ixs => exact .indexedIdentifier h.2

theorem wt_gateOperand_ident {sym : SymbolIdResult} {t : T} (h : SymTyped S sym t) :
    WT S (gateOperandToTexpr (.identifier sym) t) := .gateOperandIdent h

theorem wt_gateOperand_hw (name : String) :
    WT S (gateOperandToTexpr (.hardwareQubit name) .hwqubit) := .gateOperandHw

theorem wt_gateOperand_indexed {ii : IndexedIdentifier} {t : T} (h : IIWT S ii t) :
    WT S (gateOperandToTexpr (.indexedIdentifier ii) t) := by
  cases ii with
  | mk sym ixs => exact .gateOperandIndexed h.1 h.2

theorem ixWT_set {es : List TExpr} (h : ListWT S es) : IxWT S (.setExpression es) := h
theorem ixWT_list {es : List TExpr} (h : ListWT S es) : IxWT S (.expressionList es) := h

theorem iiWT_mk {sym : SymbolIdResult} {t : T} {ixs : List IndexOperator} (h1 : SymTyped S sym t)
    (h2 : IxsWT S ixs) : IIWT S (.mk sym ixs) t := ⟨h1, h2⟩

theorem ixsWT_nil : IxsWT S [] := by intro ix h; cases h
theorem ixsWT_cons {ix : IndexOperator} {ixs : List IndexOperator} (h1 : IxWT S ix)
    (h2 : IxsWT S ixs) : IxsWT S (ix :: ixs) := by
  intro x hx
  cases hx with
  | head => exact h1
  | tail _ h => exact h2 x h

theorem listWT_cons' {e : TExpr} {es : List TExpr} (h1 : WT S e) (h2 : ListWT S es) :
    ListWT S (e :: es) := (listWT_cons e es).mpr ⟨h1, h2⟩

/-! ### primitives of the pass -/

theorem Spec.bind_unit {β} {x : M PUnit} {f : PUnit → M β} {R2 : β → Prop}
    (hx : Spec S x (fun _ => True)) (hf : Spec S (f ⟨⟩) R2) : Spec S (x >>= f) R2 :=
  Spec.bind hx (fun _ => Spec.mono hf (fun _ h _ => h))

theorem tableLookup_ok (name : String) (c : Ctx) (r : SymbolIdResult × T) (c' : Ctx)
    (h : tableLookup name c = .ok (r, c')) :
    c'.symbolTable = c.symbolTable ∧ SymTyped c.symbolTable.all r.1 r.2 := by
  simp only [tableLookup, M.bind_ok] at h
  obtain ⟨o, c1, h1, h2⟩ := h
  obtain ⟨ho, rfl⟩ := symStep_ok _ _ _ _ _ h1
  simp only [SymTab.step] at ho h2 ⊢
  cases hl : c.symbolTable.lookupId name with
  | none =>
    simp only [hl] at ho h2 ⊢
    subst ho
    simp only [M.pure_ok, Prod.mk.injEq] at h2
    obtain ⟨rfl, rfl⟩ := h2
    exact ⟨rfl, rfl⟩
  | some id =>
    simp only [hl] at ho h2 ⊢
    cases hg : c.symbolTable.all[id]? with
    | none => simp only [hg] at ho; subst ho; simp at h2
    | some sy =>
      simp only [hg] at ho h2 ⊢
      subst ho
      simp only [M.pure_ok, Prod.mk.injEq] at h2
      obtain ⟨rfl, rfl⟩ := h2
      exact ⟨rfl, ⟨sy.name, hg⟩⟩

theorem SymTyped.of_prefix {S0 : List Sym} {sym : SymbolIdResult} {t : T} (h : SymTyped S0 sym t)
    (hp : S0 <+: S) : SymTyped S sym t := by
  cases sym with
  | error e => exact h
  | ok id =>
    obtain ⟨name, hn⟩ := h
    obtain ⟨rest, rfl⟩ := hp
    refine ⟨name, ?_⟩
    have hlt : id < S0.length := by
      rcases Nat.lt_or_ge id S0.length with h | h
      · exact h
      · rw [List.getElem?_eq_none h] at hn; cases hn
    rw [List.getElem?_append_left hlt]; exact hn

theorem Spec.tableLookup (name : String) :
    Spec S (tableLookup name) (fun r => SymTyped S r.1 r.2) := by
  refine ⟨fun c r c' h => ?_⟩
  obtain ⟨h1, h2⟩ := tableLookup_ok name c r c' h
  refine ⟨by unfold Ext; rw [h1]; exact List.prefix_refl _, fun hS => ?_⟩
  rw [h1] at hS
  exact h2.of_prefix hS

/-! ### the proof script -/

open Lean Elab Tactic Meta in
/-- the program `x` of a goal `Spec S x R` -/
def specProgram (g : MVarId) : MetaM (Option Lean.Expr) := do
  let t ← instantiateMVars (← g.getType)
  let t := t.consumeMData
  if t.isAppOfArity ``Spec 4 then return some (t.getArg! 2).consumeMData else return none

open Lean Elab Tactic Meta in
/-- succeeds iff the goal is `Spec S x R` and the head symbol of `x` is the given constant
(a cheap guard in front of every rule: a failing `exact` on these large terms is expensive) -/
elab "spec_head " id:ident : tactic => withMainContext do
  let n ← realizeGlobalConstNoOverloadWithInfo id
  match ← specProgram (← getMainGoal) with
  | some x =>
    match x.getAppFn.consumeMData with
    | Lean.Expr.const m _ => if m == n then pure () else throwError "head"
    | _ => throwError "head"
  | none => throwError "not a Spec goal"

open Lean Elab Tactic Meta in
/-- succeeds iff the goal is `Spec S x R` and `x` is an `if` or a `match` -/
elab "spec_is_split" : tactic => withMainContext do
  match ← specProgram (← getMainGoal) with
  | some x =>
    match x.getAppFn.consumeMData with
    | Lean.Expr.const m _ =>
      if m == ``ite || m == ``dite then pure ()
      else if (← isMatcher m) then pure ()
      else throwError "not a split"
    | _ => throwError "not a split"
  | none => throwError "not a Spec goal"

open Lean Elab Tactic Meta in
/-- succeeds iff the goal is `Spec S (x >>= f) R` and `x` is an `if` or a `match` (its branches
cannot determine a common postcondition by unification: the weakest one is used) -/
elab "spec_bind_is_split" : tactic => withMainContext do
  match ← specProgram (← getMainGoal) with
  | some p =>
    if p.isAppOfArity ``Bind.bind 6 then
      match (p.getArg! 4).consumeMData.getAppFn.consumeMData with
      | Lean.Expr.const m _ =>
        if m == ``ite || m == ``dite then pure ()
        else if (← isMatcher m) then pure ()
        else throwError "not a split"
      | _ => throwError "not a split"
    else throwError "not a bind"
  | none => throwError "not a Spec goal"

/-- extensible: closing a pure side goal about well-typedness -/
syntax "wt_close" : tactic
macro_rules | `(tactic| wt_close) => `(tactic| first
  | done
  | trivial
  | assumption
  | (constructor <;> wt_close))

/-- a leaf: the accumulated facts imply the postcondition -/
macro "spec_leaf" : tactic => `(tactic|
  (try simp only [and_imp]
   intros
   subst_vars
   try simp only [optWT_some, optWT_none, listWT_nil, and_true, true_and,
     forall_const, imp_self] at *
   wt_close))

/-- use a specification: directly, or weakened to the postcondition at hand -/
syntax "spec_use " term : tactic
macro_rules | `(tactic| spec_use $t) => `(tactic| first
  | with_reducible exact $t
  | ((with_reducible refine Spec.mono $t ?_); spec_leaf))

/-- extensible: specifications of already-treated functions -/
syntax "spec_lemma" : tactic
macro_rules | `(tactic| spec_lemma) => `(tactic| fail "no lemma")

/-- extensible: induction hypotheses of the mutual block (local names `h_<fn>`) -/
syntax "spec_ih" : tactic
macro_rules | `(tactic| spec_ih) => `(tactic| fail "no ih")

macro "spec_step" : tactic => `(tactic| first
  | (cases ‹_ + 1 = Nat.succ _›)
  | (spec_head Sema.fail; first
      | with_reducible exact Spec.fail _ _
      | with_reducible exact Spec.fail _ (fun _ => True)
      | exact Spec.fail _ _)
  | (spec_head throw; with_reducible exact Spec.throw _ _)
  | (spec_head Sema.unwrap; spec_use (Spec.unwrap _ _))
  | (spec_head Sema.insertError; spec_use (Spec.insertError _ _))
  | (spec_head Sema.currentScopeType; spec_use Spec.currentScopeType)
  | (spec_head Sema.inGlobalScope; spec_use Spec.inGlobalScope)
  | (spec_head Sema.tableLookup; spec_use (Spec.tableLookup _))
  | spec_lemma
  | spec_ih
  | (spec_head Bind.bind; first
      | with_reducible apply Spec.bind_unit
      | (spec_bind_is_split; with_reducible apply Spec.bind (R1 := fun _ => True))
      | with_reducible apply Spec.bind)
  | intro _
  | (spec_is_split; split)
  | (spec_head Pure.pure; first
      | with_reducible exact Spec.pure_eq _
      | ((with_reducible refine Spec.pure ?_); spec_leaf))
  | dsimp only)

macro "spec" : tactic => `(tactic| repeat' spec_step)

theorem Spec.lookupSymbol (name : String) (node : Ast.Span) :
    Spec S (lookupSymbol name node) (fun r => SymTyped S r.1 r.2) := by
  unfold Sema.lookupSymbol; spec
macro_rules | `(tactic| spec_lemma) => `(tactic| (spec_head Sema.lookupSymbol; spec_use (Spec.lookupSymbol _ _)))

theorem Spec.lookupGateSymbol (name : String) (node : Ast.Span) :
    Spec S (lookupGateSymbol name node) (fun r => SymTyped S r.1 r.2) := by
  unfold Sema.lookupGateSymbol; spec
macro_rules | `(tactic| spec_lemma) => `(tactic| (spec_head Sema.lookupGateSymbol; spec_use (Spec.lookupGateSymbol _ _)))

theorem Spec.lookupIdentifier (i : Ast.Identifier) :
    Spec S (lookupIdentifier i) (fun r => SymTyped S r.1 r.2) := Spec.lookupSymbol _ _
macro_rules | `(tactic| spec_lemma) => `(tactic| (spec_head Sema.lookupIdentifier; spec_use (Spec.lookupIdentifier _)))

theorem Spec.binaryOpToAsgType (op : Ast.BinaryOp) :
    Spec S (binaryOpToAsgType op) (fun r => r ≠ .powerOp) := by
  unfold Sema.binaryOpToAsgType
  split <;> first
    | exact Spec.fail _ _
    | (refine Spec.pure ?_; intro h; cases h)
macro_rules | `(tactic| spec_lemma) => `(tactic| (spec_head Sema.binaryOpToAsgType; spec_use (Spec.binaryOpToAsgType _)))

theorem Spec.intNumberValue (site text : String) :
    Spec S (intNumberValue site text) (fun _ => True) := by
  unfold Sema.intNumberValue; spec
macro_rules | `(tactic| spec_lemma) => `(tactic| (spec_head Sema.intNumberValue; spec_use (Spec.intNumberValue _ _)))

theorem Spec.negativeIntToAsgType (text : String) :
    Spec S (negativeIntToAsgType text) (fun _ => True) := by
  unfold Sema.negativeIntToAsgType; spec
macro_rules | `(tactic| spec_lemma) => `(tactic| (spec_head Sema.negativeIntToAsgType; spec_use (Spec.negativeIntToAsgType _)))

theorem Spec.negativeFloatNumberToAsgType (fmt : Option String) :
    Spec S (negativeFloatNumberToAsgType fmt) (fun _ => True) := by
  unfold Sema.negativeFloatNumberToAsgType; spec
macro_rules | `(tactic| spec_lemma) => `(tactic| (spec_head Sema.negativeFloatNumberToAsgType; spec_use (Spec.negativeFloatNumberToAsgType _)))

macro_rules | `(tactic| wt_close) => `(tactic| exact wt_literal rfl)
macro_rules | `(tactic| wt_close) => `(tactic| first
  | exact wt_hardwareQubit _
  | exact wt_gateOperand_hw _
  | exact ixsWT_nil
  | (apply wt_newTexprWithCast <;> wt_close)
  | (apply wt_castToTexpr <;> wt_close)
  | (apply wt_minus <;> wt_close)
  | (apply wt_measure <;> wt_close)
  | (apply wt_range <;> wt_close)
  | (apply wt_return <;> wt_close)
  | (apply wt_call <;> wt_close)
  | (apply wt_indexExpression <;> wt_close)
  | (apply wt_indexedIdentifier <;> wt_close)
  | (apply wt_gateOperand_ident <;> wt_close)
  | (apply wt_gateOperand_indexed <;> wt_close)
  | (apply ixWT_set <;> wt_close)
  | (apply ixWT_list <;> wt_close)
  | (apply iiWT_mk <;> wt_close)
  | (apply ixsWT_cons <;> wt_close)
  | (apply listWT_cons' <;> wt_close)
  | (apply WT.identifier <;> wt_close))

theorem Spec.unitCheck_template : True := trivial

theorem Spec.literalToAsgTexpr (l : Ast.Literal) : Spec S (literalToAsgTexpr l) (OptWT S) := by
  unfold Sema.literalToAsgTexpr; spec
macro_rules | `(tactic| spec_lemma) => `(tactic| (spec_head Sema.literalToAsgTexpr; spec_use (Spec.literalToAsgTexpr _)))

theorem Spec.getConstValue (id : Nat) : Spec S (getConstValue id) (fun _ => True) := by
  apply Spec.of_symtab_eq
  intro c a c' hr
  simp only [Sema.getConstValue, M.get_bind_ok, M.pure_ok, Prod.mk.injEq] at hr
  exact ⟨by rw [hr.2], trivial⟩
macro_rules | `(tactic| spec_lemma) => `(tactic| (spec_head Sema.getConstValue; spec_use (Spec.getConstValue _)))

theorem Spec.designatorToAsg (d : Option Ast.Designator) :
    Spec S (designatorToAsg d) (fun _ => True) := by
  unfold Sema.designatorToAsg; spec
macro_rules | `(tactic| spec_lemma) => `(tactic| (spec_head Sema.designatorToAsg; spec_use (Spec.designatorToAsg _)))

theorem Spec.scalarTypeToType (st : Ast.ScalarType) (isconst : Bool) :
    Spec S (scalarTypeToType st isconst) (fun _ => True) := by
  unfold Sema.scalarTypeToType; spec
macro_rules | `(tactic| spec_lemma) => `(tactic| (spec_head Sema.scalarTypeToType; spec_use (Spec.scalarTypeToType _ _)))

theorem Spec.notGlobalCheck (node : Ast.Span) :
    Spec S (notGlobalCheck node) (fun _ => True) := by
  unfold Sema.notGlobalCheck; spec
macro_rules | `(tactic| spec_lemma) => `(tactic| (spec_head Sema.notGlobalCheck; spec_use (Spec.notGlobalCheck _)))

theorem Spec.gateNotGlobalCheck (name : Option Ast.Name) :
    Spec S (gateNotGlobalCheck name) (fun _ => True) := by
  unfold Sema.gateNotGlobalCheck; spec
macro_rules | `(tactic| spec_lemma) => `(tactic| (spec_head Sema.gateNotGlobalCheck; spec_use (Spec.gateNotGlobalCheck _)))

theorem Spec.returnGlobalCheck (node : Ast.Span) :
    Spec S (returnGlobalCheck node) (fun _ => True) := by
  unfold Sema.returnGlobalCheck; spec
macro_rules | `(tactic| spec_lemma) => `(tactic| (spec_head Sema.returnGlobalCheck; spec_use (Spec.returnGlobalCheck _)))

theorem Spec.delayDurationCheck (d : TExpr) (n : Ast.Span) :
    Spec S (delayDurationCheck d n) (fun _ => True) := by
  unfold Sema.delayDurationCheck; spec
macro_rules | `(tactic| spec_lemma) => `(tactic| (spec_head Sema.delayDurationCheck; spec_use (Spec.delayDurationCheck _ _)))

theorem Spec.quantumBinopCheck (l r : TExpr) (a b : Option Ast.Expr) :
    Spec S (quantumBinopCheck l r a b) (fun _ => True) := by
  unfold Sema.quantumBinopCheck; spec
macro_rules | `(tactic| spec_lemma) => `(tactic| (spec_head Sema.quantumBinopCheck; spec_use (Spec.quantumBinopCheck _ _ _ _)))

theorem Spec.gateOperandIdentCheck (t : T) (n : Ast.Span) :
    Spec S (gateOperandIdentCheck t n) (fun _ => True) := by
  unfold Sema.gateOperandIdentCheck; spec
macro_rules | `(tactic| spec_lemma) => `(tactic| (spec_head Sema.gateOperandIdentCheck; spec_use (Spec.gateOperandIdentCheck _ _)))

theorem Spec.gateOperandIndexedCheck (t : T) (n : Ast.Span) :
    Spec S (gateOperandIndexedCheck t n) (fun _ => True) := by
  unfold Sema.gateOperandIndexedCheck; spec
macro_rules | `(tactic| spec_lemma) => `(tactic| (spec_head Sema.gateOperandIndexedCheck; spec_use (Spec.gateOperandIndexedCheck _ _)))

theorem Spec.gateCallCheck (sp : Ast.Span) (q : Option Ast.QubitList) (al : Option Ast.ArgList) (g : Ast.Identifier) (sr : SymbolIdResult) (gt : T) (np nq : Nat) :
    Spec S (gateCallCheck sp q al g sr gt np nq) (fun _ => True) := by
  unfold Sema.gateCallCheck; spec
macro_rules | `(tactic| spec_lemma) => `(tactic| (spec_head Sema.gateCallCheck; spec_use (Spec.gateCallCheck _ _ _ _ _ _ _ _)))

theorem Spec.defArityCheck (a b : Nat) (al : Option Ast.ArgList) :
    Spec S (defArityCheck a b al) (fun _ => True) := by
  unfold Sema.defArityCheck; spec
macro_rules | `(tactic| spec_lemma) => `(tactic| (spec_head Sema.defArityCheck; spec_use (Spec.defArityCheck _ _ _)))

theorem Spec.mutateConstCheck (ok : Bool) (t : T) (n : Ast.Span) :
    Spec S (mutateConstCheck ok t n) (fun _ => True) := by
  unfold Sema.mutateConstCheck; spec
macro_rules | `(tactic| spec_lemma) => `(tactic| (spec_head Sema.mutateConstCheck; spec_use (Spec.mutateConstCheck _ _ _)))

/-! ### the expression part of the mutual block -/

/-- the specifications of the twelve expression functions at one fuel level -/
structure AllSpec (S : List Sym) (fuel : Nat) : Prop where
  exprToAsgTexpr : ∀ (e : Option Ast.Expr), Spec S (Sema.exprToAsgTexpr fuel e) (OptWT S)
  parenExprToAsgTexpr : ∀ (p : Ast.ParenExpr), Spec S (Sema.parenExprToAsgTexpr fuel p) (OptWT S)
  setExpressionToAsgType : ∀ (se : Ast.SetExpression), Spec S (Sema.setExpressionToAsgType fuel se) (ListWT S)
  rangeExpressionToAsgType : ∀ (r : Ast.RangeExpr), Spec S (Sema.rangeExpressionToAsgType fuel r) (fun r => WT S r.1 ∧ OptWT S r.2.1 ∧ WT S r.2.2)
  callExprToAsgTexpr : ∀ (sp : Ast.Span) (al : Option Ast.ArgList) (i : Option Ast.Identifier), Spec S (Sema.callExprToAsgTexpr fuel sp al i) (WT S)
  gateOperandToAsgTexpr : ∀ (g : Ast.GateOperand), Spec S (Sema.gateOperandToAsgTexpr fuel g) (WT S)
  indexOperatorToAsgType : ∀ (ix : Ast.IndexOperator), Spec S (Sema.indexOperatorToAsgType fuel ix) (IxWT S)
  expressionListToAsgType : ∀ (el : Ast.ExpressionList), Spec S (Sema.expressionListToAsgType fuel el) (ListWT S)
  expressionListToAsgTexpr : ∀ (el : Ast.ExpressionList), Spec S (Sema.expressionListToAsgTexpr fuel el) (ListWT S)
  exprsLoop : ∀ (es : List Ast.Expr), Spec S (Sema.exprsLoop fuel es) (ListWT S)
  indexedIdentifierToAsgType : ∀ (ii : Ast.IndexedIdentifier), Spec S (Sema.indexedIdentifierToAsgType fuel ii) (fun r => IIWT S r.1 r.2)
  indexOperatorsLoop : ∀ (ixs : List Ast.IndexOperator), Spec S (Sema.indexOperatorsLoop fuel ixs) (IxsWT S)

set_option hygiene false in
macro_rules | `(tactic| spec_ih) => `(tactic| first
  | (spec_head Sema.exprToAsgTexpr; spec_use (h_exprToAsgTexpr _))
  | (spec_head Sema.parenExprToAsgTexpr; spec_use (h_parenExprToAsgTexpr _))
  | (spec_head Sema.setExpressionToAsgType; spec_use (h_setExpressionToAsgType _))
  | (spec_head Sema.rangeExpressionToAsgType; spec_use (h_rangeExpressionToAsgType _))
  | (spec_head Sema.callExprToAsgTexpr; spec_use (h_callExprToAsgTexpr _ _ _))
  | (spec_head Sema.gateOperandToAsgTexpr; spec_use (h_gateOperandToAsgTexpr _))
  | (spec_head Sema.indexOperatorToAsgType; spec_use (h_indexOperatorToAsgType _))
  | (spec_head Sema.expressionListToAsgType; spec_use (h_expressionListToAsgType _))
  | (spec_head Sema.expressionListToAsgTexpr; spec_use (h_expressionListToAsgTexpr _))
  | (spec_head Sema.exprsLoop; spec_use (h_exprsLoop _))
  | (spec_head Sema.indexedIdentifierToAsgType; spec_use (h_indexedIdentifierToAsgType _))
  | (spec_head Sema.indexOperatorsLoop; spec_use (h_indexOperatorsLoop _)))

set_option maxHeartbeats 1600000 in
theorem exprToAsgTexpr_step (fuel : Nat) (ih : AllSpec S fuel) (e : Option Ast.Expr) :
    Spec S (Sema.exprToAsgTexpr (fuel + 1) e) (OptWT S) := by
  obtain ⟨h_exprToAsgTexpr, h_parenExprToAsgTexpr, h_setExpressionToAsgType, h_rangeExpressionToAsgType, h_callExprToAsgTexpr, h_gateOperandToAsgTexpr, h_indexOperatorToAsgType, h_expressionListToAsgType, h_expressionListToAsgTexpr, h_exprsLoop, h_indexedIdentifierToAsgType, h_indexOperatorsLoop⟩ := ih
  unfold Sema.exprToAsgTexpr; spec

set_option maxHeartbeats 1600000 in
theorem parenExprToAsgTexpr_step (fuel : Nat) (ih : AllSpec S fuel) (p : Ast.ParenExpr) :
    Spec S (Sema.parenExprToAsgTexpr (fuel + 1) p) (OptWT S) := by
  obtain ⟨h_exprToAsgTexpr, h_parenExprToAsgTexpr, h_setExpressionToAsgType, h_rangeExpressionToAsgType, h_callExprToAsgTexpr, h_gateOperandToAsgTexpr, h_indexOperatorToAsgType, h_expressionListToAsgType, h_expressionListToAsgTexpr, h_exprsLoop, h_indexedIdentifierToAsgType, h_indexOperatorsLoop⟩ := ih
  unfold Sema.parenExprToAsgTexpr; spec

set_option maxHeartbeats 1600000 in
theorem setExpressionToAsgType_step (fuel : Nat) (ih : AllSpec S fuel) (se : Ast.SetExpression) :
    Spec S (Sema.setExpressionToAsgType (fuel + 1) se) (ListWT S) := by
  obtain ⟨h_exprToAsgTexpr, h_parenExprToAsgTexpr, h_setExpressionToAsgType, h_rangeExpressionToAsgType, h_callExprToAsgTexpr, h_gateOperandToAsgTexpr, h_indexOperatorToAsgType, h_expressionListToAsgType, h_expressionListToAsgTexpr, h_exprsLoop, h_indexedIdentifierToAsgType, h_indexOperatorsLoop⟩ := ih
  unfold Sema.setExpressionToAsgType; spec

set_option maxHeartbeats 1600000 in
theorem rangeExpressionToAsgType_step (fuel : Nat) (ih : AllSpec S fuel) (r : Ast.RangeExpr) :
    Spec S (Sema.rangeExpressionToAsgType (fuel + 1) r) (fun r => WT S r.1 ∧ OptWT S r.2.1 ∧ WT S r.2.2) := by
  obtain ⟨h_exprToAsgTexpr, h_parenExprToAsgTexpr, h_setExpressionToAsgType, h_rangeExpressionToAsgType, h_callExprToAsgTexpr, h_gateOperandToAsgTexpr, h_indexOperatorToAsgType, h_expressionListToAsgType, h_expressionListToAsgTexpr, h_exprsLoop, h_indexedIdentifierToAsgType, h_indexOperatorsLoop⟩ := ih
  unfold Sema.rangeExpressionToAsgType; spec

set_option maxHeartbeats 1600000 in
theorem callExprToAsgTexpr_step (fuel : Nat) (ih : AllSpec S fuel) (sp : Ast.Span) (al : Option Ast.ArgList) (i : Option Ast.Identifier) :
    Spec S (Sema.callExprToAsgTexpr (fuel + 1) sp al i) (WT S) := by
  obtain ⟨h_exprToAsgTexpr, h_parenExprToAsgTexpr, h_setExpressionToAsgType, h_rangeExpressionToAsgType, h_callExprToAsgTexpr, h_gateOperandToAsgTexpr, h_indexOperatorToAsgType, h_expressionListToAsgType, h_expressionListToAsgTexpr, h_exprsLoop, h_indexedIdentifierToAsgType, h_indexOperatorsLoop⟩ := ih
  unfold Sema.callExprToAsgTexpr; spec

set_option maxHeartbeats 1600000 in
theorem gateOperandToAsgTexpr_step (fuel : Nat) (ih : AllSpec S fuel) (g : Ast.GateOperand) :
    Spec S (Sema.gateOperandToAsgTexpr (fuel + 1) g) (WT S) := by
  obtain ⟨h_exprToAsgTexpr, h_parenExprToAsgTexpr, h_setExpressionToAsgType, h_rangeExpressionToAsgType, h_callExprToAsgTexpr, h_gateOperandToAsgTexpr, h_indexOperatorToAsgType, h_expressionListToAsgType, h_expressionListToAsgTexpr, h_exprsLoop, h_indexedIdentifierToAsgType, h_indexOperatorsLoop⟩ := ih
  unfold Sema.gateOperandToAsgTexpr; spec

set_option maxHeartbeats 1600000 in
theorem indexOperatorToAsgType_step (fuel : Nat) (ih : AllSpec S fuel) (ix : Ast.IndexOperator) :
    Spec S (Sema.indexOperatorToAsgType (fuel + 1) ix) (IxWT S) := by
  obtain ⟨h_exprToAsgTexpr, h_parenExprToAsgTexpr, h_setExpressionToAsgType, h_rangeExpressionToAsgType, h_callExprToAsgTexpr, h_gateOperandToAsgTexpr, h_indexOperatorToAsgType, h_expressionListToAsgType, h_expressionListToAsgTexpr, h_exprsLoop, h_indexedIdentifierToAsgType, h_indexOperatorsLoop⟩ := ih
  unfold Sema.indexOperatorToAsgType; spec

set_option maxHeartbeats 1600000 in
theorem expressionListToAsgType_step (fuel : Nat) (ih : AllSpec S fuel) (el : Ast.ExpressionList) :
    Spec S (Sema.expressionListToAsgType (fuel + 1) el) (ListWT S) := by
  obtain ⟨h_exprToAsgTexpr, h_parenExprToAsgTexpr, h_setExpressionToAsgType, h_rangeExpressionToAsgType, h_callExprToAsgTexpr, h_gateOperandToAsgTexpr, h_indexOperatorToAsgType, h_expressionListToAsgType, h_expressionListToAsgTexpr, h_exprsLoop, h_indexedIdentifierToAsgType, h_indexOperatorsLoop⟩ := ih
  unfold Sema.expressionListToAsgType; spec

set_option maxHeartbeats 1600000 in
theorem expressionListToAsgTexpr_step (fuel : Nat) (ih : AllSpec S fuel) (el : Ast.ExpressionList) :
    Spec S (Sema.expressionListToAsgTexpr (fuel + 1) el) (ListWT S) := by
  obtain ⟨h_exprToAsgTexpr, h_parenExprToAsgTexpr, h_setExpressionToAsgType, h_rangeExpressionToAsgType, h_callExprToAsgTexpr, h_gateOperandToAsgTexpr, h_indexOperatorToAsgType, h_expressionListToAsgType, h_expressionListToAsgTexpr, h_exprsLoop, h_indexedIdentifierToAsgType, h_indexOperatorsLoop⟩ := ih
  unfold Sema.expressionListToAsgTexpr; spec

set_option maxHeartbeats 1600000 in
theorem exprsLoop_step (fuel : Nat) (ih : AllSpec S fuel) (es : List Ast.Expr) :
    Spec S (Sema.exprsLoop (fuel + 1) es) (ListWT S) := by
  obtain ⟨h_exprToAsgTexpr, h_parenExprToAsgTexpr, h_setExpressionToAsgType, h_rangeExpressionToAsgType, h_callExprToAsgTexpr, h_gateOperandToAsgTexpr, h_indexOperatorToAsgType, h_expressionListToAsgType, h_expressionListToAsgTexpr, h_exprsLoop, h_indexedIdentifierToAsgType, h_indexOperatorsLoop⟩ := ih
  unfold Sema.exprsLoop; spec

set_option maxHeartbeats 1600000 in
theorem indexedIdentifierToAsgType_step (fuel : Nat) (ih : AllSpec S fuel) (ii : Ast.IndexedIdentifier) :
    Spec S (Sema.indexedIdentifierToAsgType (fuel + 1) ii) (fun r => IIWT S r.1 r.2) := by
  obtain ⟨h_exprToAsgTexpr, h_parenExprToAsgTexpr, h_setExpressionToAsgType, h_rangeExpressionToAsgType, h_callExprToAsgTexpr, h_gateOperandToAsgTexpr, h_indexOperatorToAsgType, h_expressionListToAsgType, h_expressionListToAsgTexpr, h_exprsLoop, h_indexedIdentifierToAsgType, h_indexOperatorsLoop⟩ := ih
  unfold Sema.indexedIdentifierToAsgType; spec

set_option maxHeartbeats 1600000 in
theorem indexOperatorsLoop_step (fuel : Nat) (ih : AllSpec S fuel) (ixs : List Ast.IndexOperator) :
    Spec S (Sema.indexOperatorsLoop (fuel + 1) ixs) (IxsWT S) := by
  obtain ⟨h_exprToAsgTexpr, h_parenExprToAsgTexpr, h_setExpressionToAsgType, h_rangeExpressionToAsgType, h_callExprToAsgTexpr, h_gateOperandToAsgTexpr, h_indexOperatorToAsgType, h_expressionListToAsgType, h_expressionListToAsgTexpr, h_exprsLoop, h_indexedIdentifierToAsgType, h_indexOperatorsLoop⟩ := ih
  unfold Sema.indexOperatorsLoop; spec

theorem allSpec (fuel : Nat) : AllSpec S fuel := by
  induction fuel with
  | zero =>
    constructor
    · intros; unfold Sema.exprToAsgTexpr; exact Spec.throw _ _
    · intros; unfold Sema.parenExprToAsgTexpr; exact Spec.throw _ _
    · intros; unfold Sema.setExpressionToAsgType; exact Spec.throw _ _
    · intros; unfold Sema.rangeExpressionToAsgType; exact Spec.throw _ _
    · intros; unfold Sema.callExprToAsgTexpr; exact Spec.throw _ _
    · intros; unfold Sema.gateOperandToAsgTexpr; exact Spec.throw _ _
    · intros; unfold Sema.indexOperatorToAsgType; exact Spec.throw _ _
    · intros; unfold Sema.expressionListToAsgType; exact Spec.throw _ _
    · intros; unfold Sema.expressionListToAsgTexpr; exact Spec.throw _ _
    · intros; unfold Sema.exprsLoop; exact Spec.throw _ _
    · intros; unfold Sema.indexedIdentifierToAsgType; exact Spec.throw _ _
    · intros; unfold Sema.indexOperatorsLoop; exact Spec.throw _ _
  | succ fuel ih =>
    constructor
    · intros; exact exprToAsgTexpr_step fuel ih _
    · intros; exact parenExprToAsgTexpr_step fuel ih _
    · intros; exact setExpressionToAsgType_step fuel ih _
    · intros; exact rangeExpressionToAsgType_step fuel ih _
    · intros; exact callExprToAsgTexpr_step fuel ih _ _ _
    · intros; exact gateOperandToAsgTexpr_step fuel ih _
    · intros; exact indexOperatorToAsgType_step fuel ih _
    · intros; exact expressionListToAsgType_step fuel ih _
    · intros; exact expressionListToAsgTexpr_step fuel ih _
    · intros; exact exprsLoop_step fuel ih _
    · intros; exact indexedIdentifierToAsgType_step fuel ih _
    · intros; exact indexOperatorsLoop_step fuel ih _

end Oq3.Props.C08
