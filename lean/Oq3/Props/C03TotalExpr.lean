/-
C03, totality on a syntactic fragment — the fragment (`supp*`, decidable, purely syntactic) and the
expression-level functions.

Fragment of expressions: integer / float / bool / bit-string literals whose token the token-level
model can evaluate (`IntNumber::value` is `Some`, i.e. `< 2^128`; the float has a value; the bit
string is well quoted), and identifiers (declared or not).  Operands: identifiers, hardware qubits,
indexed identifiers whose index operators are expression lists of fragment expressions.
Designators: absent or an integer literal.  Types: every scalar type except `complex[float[..]]`
with an inner type node, with such a designator.
-/
import Oq3.Props.C03TotalBase

namespace Oq3.Sema
open Oq3.Types Oq3.Symbols Oq3.Props

/-! ### the fragment -/

def suppLiteral (l : Ast.Literal) : Bool :=
  match l.kind with
  | .bool _ => true
  | .intNumber text _ => (TokenExt.intValueS text).isSome
  | .floatNumber _ fmt => fmt.isSome
  | .bitString text _ => (TokenExt.bitStringStr text).isSome
  | _ => false

def suppExpr : Ast.Expr → Bool
  | .literal l => suppLiteral l
  | .identifier _ => true
  | _ => false

def suppIndexOp : Ast.IndexOperator → Bool
  | .mk _ (some (.expressionList (.mk _ es))) => es.all suppExpr
  | _ => false

def suppOperand : Ast.GateOperand → Bool
  | .identifier _ => true
  | .hardwareQubit _ => true
  | .indexedIdentifier (.mk _ (some _) ixs) => ixs.all suppIndexOp
  | _ => false

def suppDesignator : Option Ast.Designator → Bool
  | none => true
  | some (.mk _ (some (.literal l))) =>
    match l.kind with
    | .intNumber text _ => (TokenExt.intValueS text).isSome
    | _ => false
  | _ => false

def suppScalarType : Ast.ScalarType → Bool
  | .mk _ kind d none => kind != .none && suppDesignator d
  | _ => false

/-! ### non-recursive functions on the fragment -/

macro "succ_step" : tactic => `(tactic| first
  | exact Succ.pure _ trivial
  | exact insertError_succ _ _
  | exact newBinding_succ _ _ _
  | exact lookupSymbol_succ _ _
  | exact lookupGateSymbol_succ _ _
  | exact lookupIdentifier_succ _
  | exact currentScopeType_succ
  | exact insertConstValue_succ _ _
  | exact pushAnnotation_succ _
  | exact annotationsIsEmpty_succ
  | exact takeAnnotations_succ
  | exact insertStmt_succ _
  | (refine Succ.bind (unwrap_succ _ _) (fun _ hq => ?_); subst hq)
  | (refine Succ.bindAny ?_ (fun _ => ?_))
  | (refine Succ.ite _ ?_ ?_)
  | split
  | dsimp only)

macro "succ" : tactic => `(tactic| repeat' succ_step)

theorem intNumberValue_succ (site text : String) (h : (TokenExt.intValueS text).isSome = true) :
    Succ Any (intNumberValue site text) := by
  unfold intNumberValue
  obtain ⟨v, hv⟩ := Option.isSome_iff_exists.mp h
  rw [hv]
  exact (unwrap_succ _ _).mono (fun _ _ => trivial)

theorem literalToAsgTexpr_succ (l : Ast.Literal) (h : suppLiteral l = true) :
    Succ (fun r => r.isSome = true) (literalToAsgTexpr l) := by
  unfold literalToAsgTexpr
  unfold suppLiteral at h
  cases hk : l.kind <;> simp only [hk] at h ⊢
  case intNumber text v =>
    exact Succ.bind (intNumberValue_succ _ _ h) (fun _ _ => Succ.pure _ rfl)
  case floatNumber text fmt =>
    obtain ⟨v, rfl⟩ := Option.isSome_iff_exists.mp h
    exact Succ.bind (unwrap_succ _ _) (fun _ _ => Succ.pure _ rfl)
  case bitString text str =>
    obtain ⟨v, hv⟩ := Option.isSome_iff_exists.mp h
    simp only [hv]
    exact Succ.pure _ rfl
  case bool b => exact Succ.pure _ rfl
  all_goals simp at h

theorem inGlobalScope_succ : Succ Any inGlobalScope := by
  unfold inGlobalScope
  exact Succ.bind currentScopeType_succ (fun _ _ => Succ.pure _ trivial)

theorem designatorToAsg_succ (d : Option Ast.Designator) (h : suppDesignator d = true) :
    Succ Any (designatorToAsg d) := by
  unfold suppDesignator at h
  split at h
  · unfold designatorToAsg; simp only [getAstDesignatorExpression]; exact Succ.pure _ trivial
  · rename_i l
    unfold designatorToAsg; simp only [getAstDesignatorExpression]
    cases hk : l.kind <;> simp only [hk] at h ⊢
    case intNumber text v =>
      exact Succ.bind (intNumberValue_succ _ _ h) (fun _ _ => Succ.pure _ trivial)
    all_goals simp at h
  · simp at h

theorem scalarTypeToType_succ (st : Ast.ScalarType) (c : Bool) (h : suppScalarType st = true) :
    Succ Any (scalarTypeToType st c) := by
  unfold suppScalarType at h
  split at h
  · rename_i sp kind d
    simp only [Bool.and_eq_true, bne_iff_ne, ne_eq] at h
    unfold scalarTypeToType
    refine Succ.bind (designatorToAsg_succ _ h.2) (fun w _ => ?_)
    cases kind <;> first | exact Succ.pure _ trivial | exact absurd rfl h.1
  · simp at h

theorem declareClassicalHelper_succ (sym : SymbolIdResult) (init : Option TExpr) :
    Succ Any (declareClassicalHelper sym init) := by
  unfold declareClassicalHelper; succ

theorem bindParams_succ (typ : T) (ps : List Ast.Param) : Succ Any (bindParams typ ps) := by
  induction ps with
  | nil => unfold bindParams; exact Succ.pure _ trivial
  | cons p ps ih =>
    unfold bindParams
    exact Succ.bind (newBinding_succ _ _ _) (fun _ _ => Succ.bind ih (fun _ _ => Succ.pure _ trivial))

theorem bindParameterList_succ (pl : Option Ast.ParamList) (typ : T) :
    Succ Any (bindParameterList pl typ) := by
  unfold bindParameterList
  cases pl with
  | none => exact Succ.pure _ trivial
  | some pl => exact Succ.bind (bindParams_succ _ _) (fun _ _ => Succ.pure _ trivial)

theorem notGlobalCheck_succ (node : Ast.Span) : Succ Any (notGlobalCheck node) := by
  unfold notGlobalCheck
  refine Succ.bind inGlobalScope_succ (fun b _ => ?_)
  cases b <;> first | exact Succ.pure _ trivial | exact insertError_succ _ _

theorem gateNotGlobalCheck_succ (name : Ast.Name) : Succ Any (gateNotGlobalCheck (some name)) := by
  unfold gateNotGlobalCheck
  refine Succ.bind inGlobalScope_succ (fun b _ => ?_)
  cases b
  · exact Succ.bind (unwrap_succ _ _) (fun _ _ => insertError_succ _ _)
  · exact Succ.pure _ trivial

theorem gateOperandIdentCheck_succ (typ : T) (node : Ast.Span) :
    Succ Any (gateOperandIdentCheck typ node) := by
  unfold gateOperandIdentCheck; succ

theorem gateOperandIndexedCheck_succ (typ : T) (node : Ast.Span) :
    Succ Any (gateOperandIndexedCheck typ node) := by
  unfold gateOperandIndexedCheck; succ

theorem mutateConstCheck_succ (ok : Bool) (ty : T) (node : Ast.Span) :
    Succ Any (mutateConstCheck ok ty node) := by
  unfold mutateConstCheck; succ

/-- the arity block of a gate call: total once the qubit list is present and parameters can only
come from an argument list -/
theorem gateCallCheck_succ (span : Ast.Span) (ql : Ast.QubitList) (argList : Option Ast.ArgList)
    (gateId : Ast.Identifier) (sym : SymbolIdResult) (gateType : T) (numParams numQubits : Nat)
    (ha : numParams ≠ 0 → argList.isSome) :
    Succ Any (gateCallCheck span (some ql) argList gateId sym gateType numParams numQubits) :=
  Succ.of_runs (gateCallCheck_pres _ _ _ _ _ _ _ _)
    (fun s _ => ⟨(), _, C13.gateCallCheck_run span ql argList gateId sym gateType numParams numQubits s ha,
      trivial⟩)

/-! ### expression-level functions of the mutual block (no recursion inside the fragment) -/

/-- a fragment expression translates to `some _` with one unit of fuel -/
theorem exprToAsgTexpr_succ (fuel : Nat) (e : Ast.Expr) (h : suppExpr e = true) :
    Succ (fun r => r.isSome = true) (exprToAsgTexpr (fuel + 1) (some e)) := by
  unfold suppExpr at h
  split at h
  · rename_i l
    unfold exprToAsgTexpr
    exact literalToAsgTexpr_succ l h
  · rename_i i
    unfold exprToAsgTexpr
    exact Succ.bind (lookupIdentifier_succ i) (fun _ _ => Succ.pure _ rfl)
  · simp at h

/-- `exprs().filter_map(..)` over fragment expressions -/
theorem exprsLoop_succ (es : List Ast.Expr) (h : es.all suppExpr = true) (fuel : Nat)
    (hf : es.length + 2 ≤ fuel) : Succ Any (exprsLoop fuel es) := by
  induction es generalizing fuel with
  | nil =>
    obtain ⟨f, rfl⟩ : ∃ f, fuel = f + 1 := ⟨fuel - 1, by simp at hf; omega⟩
    unfold exprsLoop; exact Succ.pure _ trivial
  | cons x rest ih =>
    obtain ⟨f, rfl⟩ : ∃ f, fuel = f + 2 := ⟨fuel - 2, by simp at hf; omega⟩
    simp only [List.all_cons, Bool.and_eq_true] at h
    simp only [List.length_cons] at hf
    unfold exprsLoop
    refine Succ.bind (exprToAsgTexpr_succ f x h.1) (fun t _ => ?_)
    refine Succ.bind (ih h.2 (f + 1) (by omega)) (fun ts _ => ?_)
    cases t <;> exact Succ.pure _ trivial

theorem expressionListToAsgTexpr_succ (sp : Ast.Span) (es : List Ast.Expr)
    (h : es.all suppExpr = true) (fuel : Nat) (hf : es.length + 3 ≤ fuel) :
    Succ Any (expressionListToAsgTexpr fuel (.mk sp es)) := by
  obtain ⟨f, rfl⟩ : ∃ f, fuel = f + 1 := ⟨fuel - 1, by omega⟩
  unfold expressionListToAsgTexpr
  exact exprsLoop_succ es h f (by omega)

theorem expressionListToAsgType_succ (sp : Ast.Span) (es : List Ast.Expr)
    (h : es.all suppExpr = true) (fuel : Nat) (hf : es.length + 4 ≤ fuel) :
    Succ Any (expressionListToAsgType fuel (.mk sp es)) := by
  obtain ⟨f, rfl⟩ : ∃ f, fuel = f + 1 := ⟨fuel - 1, by omega⟩
  unfold expressionListToAsgType
  exact expressionListToAsgTexpr_succ sp es h f (by omega)

end Oq3.Sema
