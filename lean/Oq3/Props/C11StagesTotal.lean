/-
C11 (gates, real stages) — the lex-checked parse RETURNS: with the fuel bound of `Props/C01Term.lean`
/ `Props/C01Work2.lean` (`20 * n + 18` for `n` tokens; the no-progress hook off, as in the unhooked
code, or above `61 * n + 27`; at most 789 473 tokens so that the step limit of `Parser::nth` is never
reached) the grammar returns, hence every stage of `parse_text_check_lex` returns:

* `parseLexed_total`: the parser stages return a tree on every text of that size;
* `checkLexParse_total`: `SourceFile::parse_check_lex` returns `(None, lexer diagnostics)` or
  `(Some tree, parser diagnostics)`, unless `validation::validate` panics on the tree or the root assert
  fails (the two sites of `Model/Validation.lean` / `lib.rs` that no theorem excludes yet);
* `analyzeText_lex_or_runs`: so for such a text the string entry point either skips the analysis
  because of a lexer error, or gets past the lexical gate with the parser's own diagnostics.

`n` is bounded by the number of characters of the text (`C14.tokenize_length_le`), which is what the
hypotheses mention.
-/
import Oq3.Props.C11Stages
import Oq3.Props.C01Work2

namespace Oq3.Props.C11Stages
open Oq3.Gen Oq3.Lexer Oq3.Lexed Oq3.Parser Oq3.Grammar Oq3.Builder Oq3.Acc Oq3.Stages
open Oq3.Lemmas.Lexer Oq3.Lemmas.Lexed Oq3.Props.C01Term Oq3.Props.C01Work2

/-- **the parser stages return** -/
theorem parseLexed_total (uc : UC) (fuel npl : Nat) (text : List Char)
    (hn : text.length ≤ 789473) (hf : 20 * text.length + 18 ≤ fuel)
    (hnpl : npl = 0 ∨ 61 * text.length + 27 < npl) :
    ∃ t errs, parseLexed fuel npl (lexedOf uc text) = .ok (t, errs) ∧ t.text = text := by
  obtain ⟨inp, hi, hk⟩ := toInput_kinds uc text
  have hsz : inp.kind.toArray.size ≤ text.length := by
    rw [List.size_toArray, hk]
    exact Nat.le_trans (List.length_filter_le _ _)
      (by rw [List.length_map]; exact Oq3.Props.C14.tokenize_length_le uc text)
  obtain ⟨events, pos, hp, -⟩ := parse_terminates2 fuel inp.kind.toArray inp.joint.toArray npl
    (by simp only [fuelA, fuelB]; omega)
    (by simp only [workRS_eq, workFS_eq]; omega)
    (by rcases hnpl with h | h
        · exact Or.inl h
        · right; simp only [workRE_eq, workFE_eq]; omega)
  obtain ⟨steps, tree, errs, hs, hb, ht⟩ :=
    Oq3.Props.C02.lossless uc text _ inp fuel npl events pos (new_eq uc text) hi hp
  have hbal := Oq3.Props.C01.balance_assertions_hold fuel _ _ npl events pos hp steps hs
  refine ⟨tree, errs, ?_, ht⟩
  unfold parseLexed
  simp only [hi, hp, hs, hbal, Bool.not_true, Bool.false_eq_true, if_false, hb]

/-- **`parse_check_lex` returns** (up to the two sites after the tree is built) -/
theorem checkLexParse_total (uc : UC) (fuel npl : Nat) (text : List Char)
    (hn : text.length ≤ 789473) (hf : 20 * text.length + 18 ≤ fuel)
    (hnpl : npl = 0 ∨ 61 * text.length + 27 < npl) :
    (∃ r, checkLexParse uc fuel npl text = .ok r) ∨
    (∃ site, checkLexParse uc fuel npl text = .error (.validate site)) ∨
    checkLexParse uc fuel npl text = .error .rootKind := by
  cases h : checkLexParse uc fuel npl text with
  | ok r => exact Or.inl ⟨r, rfl⟩
  | error f =>
    right
    obtain ⟨he, hcases⟩ := checkLexParse_fails_only uc fuel npl text f h
    rcases hcases with ⟨o, rfl⟩ | ⟨site, rfl⟩ | rfl
    · exfalso
      obtain ⟨t, errs, hp, -⟩ := parseLexed_total uc fuel npl text hn hf hnpl
      rw [checkLexParse_clean uc fuel npl text he] at h
      unfold parserDiagnostics at h
      rw [hp] at h
      simp only at h
      cases hv : Oq3.Validation.validate t 0 with
      | error site => rw [hv] at h; cases h
      | ok verrs =>
        rw [hv] at h
        simp only at h
        split at h <;> cases h
    · exact Or.inl ⟨site, rfl⟩
    · exact Or.inr rfl

/-- for a text of that size: lexer error ⇒ skipped; no lexer error ⇒ the parser stages hand a tree
that spells the text to `validate` -/
theorem analyzeText_lex_or_runs (afuel : Nat) (uc : UC) (fuel npl : Nat) (text : List Char)
    (hn : text.length ≤ 789473) (hf : 20 * text.length + 18 ≤ fuel)
    (hnpl : npl = 0 ∨ 61 * text.length + 27 < npl) :
    ((lexedOf uc text).error ≠ [] ∧ analyzeText afuel uc fuel npl text = .ok none) ∨
    ((lexedOf uc text).error = [] ∧
      ∃ t errs, parseLexed fuel npl (lexedOf uc text) = .ok (t, errs) ∧ t.text = text) := by
  by_cases he : (lexedOf uc text).error = []
  · exact Or.inr ⟨he, parseLexed_total uc fuel npl text hn hf hnpl⟩
  · exact Or.inl ⟨he, analyzeText_lex_error afuel uc fuel npl text he⟩

end Oq3.Props.C11Stages
