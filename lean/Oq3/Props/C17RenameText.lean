/-
C17 — renaming invariance THROUGH the lexer and the parser (end to end over texts).

Two texts given as layouts of lexeme lists (C15; `Props/C17Lex.lean`) with the SAME leading
separator and the same separators, whose lexemes differ only in the TEXT of identifier lexemes:
`renItems ρ items₁ items₂` (a Boolean check, `Lemmas/RenameTextLex.lean`) — position by position
the same separator, the same lexeme kind, and the text `phi ρ kind text`: `ρ` applied to the text of
an `IDENT` lexeme, every other text unchanged.  Both layouts are admissible (`sepOK`, `itemsOK`:
in particular the new identifier texts are identifiers that do not fuse with their neighbours —
`itemsOK` of the second layout — and, by `renItems`, they have kind `IDENT`: not keywords, type
names, `_`).  `ρ : Ren` (`Props/C17RenameSym.lean`) is a function on names, injective, fixing the
built-in constants, `U` and the standard gate names.

Proved, for every fuel:

(a) `rename_same_input`: `to_input` of the two texts is the SAME parser input (kinds and joint
    bits), hence (`rename_same_events`) the same events, the same `process` steps and the same
    tree shape; `rename_rawToks`: the token table of the second text is the token table of the
    first with the `IDENT` texts renamed; `rename_tree`: the builder succeeds on both and the
    second tree is `mapTree (phi ρ)` of the first — same shape, same kinds, `IDENT` leaves renamed
    (new parser invariant `tokIdE`, `Lemmas/RenameTextInv.lean` + generated
    `Lemmas/RenameTextGrammar.lean`: a one-token event has the kind of its raw token, a composite
    token is not an `IDENT` and glues none; builder naturality `Lemmas/RenameTextBuilder.lean`).
(b) `program_rename` (`Lemmas/RenameTextBuild.lean`): the typed accessors commute with the
    renaming, for every tree satisfying `renOk ρ`; `rename_invariant_text_ast_partial`: the typed
    ASTs of the two texts are related by `renameAst ρ`, modulo spans (name lengths change).
(c) `rename_invariant_text_partial`: composing with `C17Rename.rename_equivariant` and
    `C17.analyze_eraseSpans` — the front end fails on both texts or on neither, and the analysis of
    the second text is `renameCtx ρ` of the analysis of the first, modulo the positions stored in
    the diagnostics: same outcome (normal return or the same panic), same graph, same ids and
    types in the symbol table with the names renamed, same diagnostic kinds in the same order
    (`rename_invariant_text_ok_partial` spells the fields out); `rename_relayout_text_partial`: the
    same with an arbitrary change of layout on top (composition with `layout_invariant_text`).

WHY `_partial` — the one hypothesis that is not about the input texts:

    hok : ∀ c, frontTree uc fuel npl text₁ = some c → renTreeOk ρ c = true

`frontTree` is the front end up to the syntax tree; `renTreeOk ρ c` (decidable, computable by
running the model: `hokB`, `hok_of_check`) says of the tree of the FIRST text, trivia dropped, below the root
(`Lemmas/RenameTextAcc.lean: renOk`):
  1. a `NAME`/`IDENTIFIER`/`PARAM` node whose first child is a token has an `IDENT` there (or a
     text fixed by `ρ`); a `HARDWARE_QUBIT`/`PRAGMA_STATEMENT`/`ANNOTATION_STATEMENT` node does not
     start with an `IDENT` token (or `ρ` fixes it).  This is a property of the GRAMMAR (the sites
     that complete these kinds — `name_r`, `var_name`, `identifier`, `hardware_qubit`,
     `param_untyped`, `param_untyped_or_hardware_qubit`, `arg_gate_call_qubit`, the pragma and
     annotation arms of `stmt` — wrap exactly one `IDENT` / `HARDWAREIDENT` / `PRAGMA` / `ANNOTATION`
     token, or nothing).  It is NOT proved here, and it is what is MISSING for the full statement:
     it is not a state invariant in the `Pres` style of the generated grammar proofs.  It needs
     (i) Hoare triples with a "fresh marker" precondition for the functions that complete a marker
     handed in by the caller (`param_untyped…`, `arg_gate_call_qubit`, `stmt` after `opt_item`
     gave the marker back), and (ii) the forward-parent structure: `expr_bp` EXTENDS an
     `IDENTIFIER` node backwards to a marker started by its caller (`lhs.extend_to(m)`), so "what
     follows the `Start IDENTIFIER` event" is not "what the node contains" — `process` has to be
     followed through the link, with the knowledge that nothing was pushed between the two markers.
  2. the identifier of a `TIMING_LITERAL` (the time unit `ns`, `us`, `dt`, … or whatever
     identifier follows the number) is fixed by `ρ`.  This one is a genuine side condition:
     `renameAst` does not rename time units, so a renaming that moves `ns` (or a user name used
     right after a numeric literal) is not an admissible renaming of that program.

Witnesses (`Props/C17RenameTextWit.lean`), under `underscoreRen` (`x ↦ _x` on user names; name
lengths change, so every span after the first name moves), all hypotheses — `hok` included —
discharged by evaluation: `wit_instance` (`qubit a;reset a;` / `qubit _a;reset _a;`) and
`wit2_instance` (`gate g(w) q{U(w,0,0) q;}qubit a;g(pi) a;` and its renaming, with the fixed names
`U`, `pi`; the two analyses evaluated: symbols `w q g a` become `_w _q _g _a`).
-/
import Oq3.Lemmas.RenameTextLex
import Oq3.Lemmas.RenameTextBuilder
import Oq3.Lemmas.RenameTextBuild

namespace Oq3.C17RenameText
open Oq3.Gen Oq3.Lexer Oq3.Lexed Oq3.Ref Oq3.Parser Oq3.Grammar Oq3.Builder Oq3.Bridge
open Oq3.Lemmas.Lexer Oq3.Lemmas.Lexed Oq3.Lemmas.LexLocal Oq3.Props.C15 Oq3.BuilderLayout
open Oq3.C17Lex Oq3.C17Rename Oq3.RenameText Oq3.Acc Oq3.C17 Oq3.Sema

variable {uc : UC}

/-! ## the front end up to the syntax tree -/

/-- text ↦ syntax tree (I4): lexer, `to_input`, parser, `process`, `build_tree` -/
def frontTree (uc : UC) (fuel npl : Nat) (s : List Char) : Option CNode :=
  match LexedStr.new uc s with
  | none => none
  | some l =>
    match l.toInput with
    | none => none
    | some inp =>
      match parseSourceFile fuel inp.kind.toArray inp.joint.toArray npl with
      | .error _ => none
      | .ok (events, _) =>
        match process events.toList with
        | none => none
        | some steps =>
          match buildTree (rawToksOf l) steps with
          | .error _ => none
          | .ok (t, _, _) => some (cnodeOf t)

/-- `frontEnd` = typed accessors after `frontTree` -/
theorem frontEnd_eq (uc : UC) (fuel npl : Nat) (s : List Char) :
    frontEnd uc fuel npl s =
      (frontTree uc fuel npl s).bind fun c =>
        match Build.program c with
        | .ok p => some p
        | .error _ => none := by
  unfold frontEnd frontTree
  cases LexedStr.new uc s with
  | none => rfl
  | some l =>
    simp only
    cases l.toInput with
    | none => rfl
    | some inp =>
      simp only
      cases parseSourceFile fuel inp.kind.toArray inp.joint.toArray npl with
      | error e => rfl
      | ok r =>
        obtain ⟨events, pos⟩ := r
        simp only
        cases process events.toList with
        | none => rfl
        | some steps =>
          simp only
          cases buildTree (rawToksOf l) steps with
          | error e => rfl
          | ok r => obtain ⟨t, e, b⟩ := r; rfl

/-- the side condition of the accessor layer, on the tree without trivia, below the root -/
def renTreeOk (ρ : Ren) (c : CNode) : Bool := rootRenOk ρ (eraseTrivia c)


/-- the hypothesis `hok` as a Boolean check (run the model front end on the first text) -/
def hokB (uc : UC) (fuel npl : Nat) (ρ : Ren) (s : List Char) : Bool :=
  (frontTree uc fuel npl s).all (renTreeOk ρ)

theorem hok_of_check {uc : UC} {fuel npl : Nat} {ρ : Ren} {s : List Char}
    (h : hokB uc fuel npl ρ s = true) : ∀ c, frontTree uc fuel npl s = some c → renTreeOk ρ c = true := by
  intro c hc
  unfold hokB at h
  rw [hc] at h
  exact h

/-- the analysis of a program whose span-erased form is the renamed span-erased form of another -/
theorem analyze_rename_erased (ρ : Ren) (afuel : Nat) {p1 p2 : Ast.Program}
    (h : eraseSpans p2 = renameAst ρ (eraseSpans p1)) :
    (analyzeWith afuel p2).map erCtx =
      (analyzeWith afuel p1).map (fun c => renameCtx ρ (erCtx c)) := by
  rw [← analyze_eraseSpans, h, rename_equivariant, analyze_eraseSpans]
  cases analyzeWith afuel p1 <;> rfl

section TwoTexts
variable (hu : AsciiUC uc) (ρ : Ren) (lead : Sep) (items₁ items₂ : List (Lexeme × Sep))
  (hren : renItems ρ items₁ items₂ = true)
  (h1 : sepOK lead (itemsText items₁) = true) (h1' : itemsOK uc items₁ = true)
  (h2 : sepOK lead (itemsText items₂) = true) (h2' : itemsOK uc items₂ = true)
include hu hren h1 h1' h2 h2'

/-! ## (a) same parser input, same events, related trees -/

/-- **(a) the parser input is the same**: kinds and joint bits -/
theorem rename_same_input :
    (lexedOf uc (sepText lead ++ itemsText items₂)).toInput =
      (lexedOf uc (sepText lead ++ itemsText items₁)).toInput ∧
    (lexedOf uc (sepText lead ++ itemsText items₁)).toInput =
      some ⟨items₁.map (·.1.kind), jointOf items₁⟩ := by
  rw [layout_input hu lead items₁ h1 h1', layout_input hu lead items₂ h2 h2',
    renItems_kinds hren, renItems_joint hren]
  exact ⟨rfl, rfl⟩

/-- **(a) the parser returns the same events (hence the same steps) on the two texts** — it is run
on the same input -/
theorem rename_same_events (fuel npl : Nat) :
    parseSourceFile fuel (items₂.map (·.1.kind)).toArray (jointOf items₂).toArray npl =
      parseSourceFile fuel (items₁.map (·.1.kind)).toArray (jointOf items₁).toArray npl := by
  rw [renItems_kinds hren, renItems_joint hren]

/-- **(a) the trees**: when the parser and `process` succeed on the (common) input, the builder
succeeds on both token tables and the tree of the second text is the tree of the first with the
`IDENT` leaves renamed: same shape, same kinds -/
theorem rename_tree (fuel npl : Nat) (events : Array Ev) (pos : Nat) (steps : List Step)
    (hp : parseSourceFile fuel (items₁.map (·.1.kind)).toArray (jointOf items₁).toArray npl =
      .ok (events, pos))
    (hs : process events.toList = some steps) :
    ∃ t e e', buildTree (rawToksOf (lexedOf uc (sepText lead ++ itemsText items₁))) steps = .ok (t, e, true) ∧
      buildTree (rawToksOf (lexedOf uc (sepText lead ++ itemsText items₂))) steps =
        .ok (mapTree (phi ρ) t, e', true) ∧
      Oq3.BuilderLayout.tokenKindsOk steps = true := by
  have hi1 := (rename_same_input hu ρ lead items₁ items₂ hren h1 h1' h2 h2').2
  obtain ⟨_, hk, t, e, hb⟩ := builder_ready uc _ _ fuel npl events pos steps hi1 hp hs
  obtain ⟨hr, hfit, hid⟩ := parse_fits uc _ _ fuel npl events pos steps hi1 hp hs
  obtain ⟨e', hb'⟩ := buildTree_rename (phi ρ) (fun k t h => phi_ne ρ t h) _ steps hr hfit hid hb
  refine ⟨t, e, e', hb, ?_, hk⟩
  rw [rename_rawToks hu lead items₁ items₂ hren h1 h1' h2 h2']
  exact hb'

/-! ## (b) the typed ASTs -/

/-- **Renaming invariance, text to typed AST** (see the file header for `hok`): the front end
succeeds on both texts or on neither, and the typed AST of the second text is `renameAst ρ` of the
typed AST of the first, modulo spans. -/
theorem rename_invariant_text_ast_partial (fuel npl : Nat)
    (hok : ∀ c, frontTree uc fuel npl (sepText lead ++ itemsText items₁) = some c → renTreeOk ρ c = true) :
    (frontEnd uc fuel npl (sepText lead ++ itemsText items₂)).map eraseSpans =
      (frontEnd uc fuel npl (sepText lead ++ itemsText items₁)).map (fun p => renameAst ρ (eraseSpans p)) := by
  obtain ⟨hi21, hi1⟩ := rename_same_input hu ρ lead items₁ items₂ hren h1 h1' h2 h2'
  have hi2 := hi21.trans hi1
  simp only [frontTree, new_eq, hi1] at hok
  simp only [frontEnd, new_eq, hi1, hi2]
  cases hp : parseSourceFile fuel (items₁.map (·.1.kind)).toArray (jointOf items₁).toArray npl with
  | error e => rfl
  | ok r =>
    obtain ⟨events, pos⟩ := r
    simp only [hp] at hok ⊢
    cases hs : process events.toList with
    | none => rfl
    | some steps =>
      simp only [hs] at hok ⊢
      obtain ⟨t, e, e', hb1, hb2, hk⟩ :=
        rename_tree hu ρ lead items₁ items₂ hren h1 h1' h2 h2' fuel npl events pos steps hp hs
      simp only [hb1] at hok
      rw [hb1, hb2]
      simp only
      have hroot := hok _ rfl
      have k1 := Oq3.C17Layout.builder_headOk hk hb1
      have k2 := Oq3.C17Layout.builder_headOk hk hb2
      have key : (Build.program (cnodeOf (mapTree (phi ρ) t))).map eraseSpans =
          ((Build.program (cnodeOf t)).map eraseSpans).map (renameAst ρ) := by
        rw [← Oq3.C17Layout.accessors_blind _ k2, ← Oq3.C17Layout.accessors_blind _ k1,
          eraseTrivia_cnodeOf_mapTree, program_rename _ hroot]
      cases hq1 : Build.program (cnodeOf t) with
      | error x =>
        rw [hq1] at key
        cases hq2 : Build.program (cnodeOf (mapTree (phi ρ) t)) with
        | error y => rfl
        | ok p2 => rw [hq2] at key; cases key
      | ok p1 =>
        rw [hq1] at key
        cases hq2 : Build.program (cnodeOf (mapTree (phi ρ) t)) with
        | error y => rw [hq2] at key; cases key
        | ok p2 =>
          rw [hq2] at key
          simp only [Except.map, Except.ok.injEq] at key
          simp only [Option.map_some, key]

/-! ## (c) the analyses -/

/-- **Renaming invariance, text to analysis** (see the file header for `hok`).  The front end fails
on both texts or on neither; the semantic pass gives the same panic / fuel-out on both, or contexts
related by the renaming: the context of the second text, with the positions in its diagnostics
erased (`erCtx`), is `renameCtx ρ` of the context of the first text with the positions erased — same
graph, same symbol ids and types with the names renamed, same diagnostic kinds in the same order. -/
theorem rename_invariant_text_partial (fuel npl afuel : Nat)
    (hok : ∀ c, frontTree uc fuel npl (sepText lead ++ itemsText items₁) = some c → renTreeOk ρ c = true) :
    (frontEnd uc fuel npl (sepText lead ++ itemsText items₂)).map
        (fun p => (analyzeWith afuel p).map erCtx) =
      (frontEnd uc fuel npl (sepText lead ++ itemsText items₁)).map
        (fun p => (analyzeWith afuel p).map (fun c => renameCtx ρ (erCtx c))) := by
  have h := rename_invariant_text_ast_partial hu ρ lead items₁ items₂ hren h1 h1' h2 h2' fuel npl hok
  cases hf1 : frontEnd uc fuel npl (sepText lead ++ itemsText items₁) with
  | none =>
    rw [hf1] at h
    cases hf2 : frontEnd uc fuel npl (sepText lead ++ itemsText items₂) with
    | none => rfl
    | some p2 => rw [hf2] at h; cases h
  | some p1 =>
    rw [hf1] at h
    cases hf2 : frontEnd uc fuel npl (sepText lead ++ itemsText items₂) with
    | none => rw [hf2] at h; cases h
    | some p2 =>
      rw [hf2] at h
      simp only [Option.map_some, Option.some.injEq] at h ⊢
      exact analyze_rename_erased ρ afuel h

/-- field by field: if the first text is analysed to `c`, the second is analysed to some `c'` with
the same graph, the same constant values, the symbol table of `c` with every name renamed (same
ids, types, order and counter) and the same diagnostic kinds in the same order -/
theorem rename_invariant_text_ok_partial (fuel npl afuel : Nat)
    (hok : ∀ c, frontTree uc fuel npl (sepText lead ++ itemsText items₁) = some c → renTreeOk ρ c = true)
    {p1 : Ast.Program} (hf : frontEnd uc fuel npl (sepText lead ++ itemsText items₁) = some p1)
    {c : Ctx} (hc : analyzeWith afuel p1 = .ok c) :
    ∃ p2 c', frontEnd uc fuel npl (sepText lead ++ itemsText items₂) = some p2 ∧
      analyzeWith afuel p2 = .ok c' ∧ c'.program = c.program ∧ c'.constValues = c.constValues ∧
      c'.symbolTable.all = c.symbolTable.all.map (fun s => { s with name := ρ.f s.name }) ∧
      c'.symbolTable.counter = c.symbolTable.counter ∧
      c'.semanticErrors.map (·.kind) = c.semanticErrors.map (·.kind) := by
  have h := rename_invariant_text_partial hu ρ lead items₁ items₂ hren h1 h1' h2 h2' fuel npl afuel hok
  rw [hf] at h
  cases hf2 : frontEnd uc fuel npl (sepText lead ++ itemsText items₂) with
  | none => rw [hf2] at h; cases h
  | some p2 =>
    rw [hf2] at h
    simp only [Option.map_some, Option.some.injEq] at h
    rw [hc] at h
    cases hc2 : analyzeWith afuel p2 with
    | error e => rw [hc2] at h; cases h
    | ok c' =>
      rw [hc2] at h
      simp only [Except.map, Except.ok.injEq] at h
      have e1 := congrArg Ctx.program h
      have e2 := congrArg Ctx.constValues h
      have e3 := congrArg Ctx.symbolTable h
      have e4 := congrArg (fun x => x.semanticErrors.map (·.kind)) h
      refine ⟨p2, c', rfl, hc2, e1, e2, ?_, ?_, ?_⟩
      · have := congrArg Oq3.Symbols.SymTab.all e3; exact this
      · have := congrArg Oq3.Symbols.SymTab.counter e3; exact this
      · simpa [erCtx, renameCtx, rnCtx, erErr, List.map_map, Function.comp_def] using e4

end TwoTexts

/-! ## renaming AND re-layout -/

/-- **Renaming composed with a change of layout** (`C17Lex.layout_invariant_text`): `itemsM` is the
renamed first layout (same separators), `items₂` any admissible layout of the same lexemes that
agrees with it on the gaps inside composite operators; leading separators arbitrary. -/
theorem rename_relayout_text_partial (hu : AsciiUC uc) (ρ : Ren) (lead₁ lead₂ : Sep)
    (items₁ itemsM items₂ : List (Lexeme × Sep))
    (hren : renItems ρ items₁ itemsM = true)
    (h1 : sepOK lead₁ (itemsText items₁) = true) (h1' : itemsOK uc items₁ = true)
    (hM : sepOK lead₁ (itemsText itemsM) = true) (hM' : itemsOK uc itemsM = true)
    (hsame : itemsM.map (·.1) = items₂.map (·.1))
    (h2 : sepOK lead₂ (itemsText items₂) = true) (h2' : itemsOK uc items₂ = true)
    (hj : glueGapsAgree itemsM items₂) (fuel npl afuel : Nat)
    (hok : ∀ c, frontTree uc fuel npl (sepText lead₁ ++ itemsText items₁) = some c → renTreeOk ρ c = true) :
    (frontEnd uc fuel npl (sepText lead₂ ++ itemsText items₂)).map
        (fun p => (analyzeWith afuel p).map erCtx) =
      (frontEnd uc fuel npl (sepText lead₁ ++ itemsText items₁)).map
        (fun p => (analyzeWith afuel p).map (fun c => renameCtx ρ (erCtx c))) :=
  (layout_invariant_text hu lead₁ lead₂ itemsM items₂ hsame hM hM' h2 h2' hj fuel npl afuel).symm.trans
    (rename_invariant_text_partial hu ρ lead₁ items₁ itemsM hren h1 h1' hM hM' fuel npl afuel hok)

end Oq3.C17RenameText
