/-
C16 — the RELOCATION half of compositionality (the part left open in `Props/C16.lean`).

`Lemmas/Reloc.lean` + the generated `Lemmas/GrammarReloc.lean` (tools/gen_grammar_reloc.py) prove,
for EVERY function of the grammar model and every fuel (`Oq3.Grammar.allRL`):

  a successful run from a state `s0` (input `K0`, position `q`, events `X`) is reproduced from every
  state `lift c s0` — input with `K0` as the suffix from `c.p` on, position `c.p + q`, events
  `c.E0 ++ X` —: it returns the same value with marker positions shifted by `|c.E0|`, and ends in
  `lift c t0` where `t0` is the end state of the original run.

So the NEW events a function pushes are a function of the input suffix alone (forward-parent links
are relative offsets; `protectedPos`, the only absolute datum, is shifted along), and so is the
number of tokens it consumes.  The counters `steps`, `sinceBump`, `live` and the two hang limits are
carried along unchanged (they only matter for the hang detectors).

Stated here for the statement level:

* `rebase s` — the state seen from its own position: the input suffix from `s.pos` on, position 0,
  no events; `relocates`: a run from `rebase s` is the run from `s` with `s.events` in front.
* `stmt_relocates`, `item_relocates`, `exprBlockStatements_relocates`, `sourceFileContents_relocates`.
* `block_statements_cons` / `file_items_cons` (**sequence compositionality**): the events of a
  statement sequence are the events of its first statement followed by the events of the REST OF
  THE SEQUENCE PARSED ON ITS OWN (from the empty event list, on the remaining input); by
  iteration, the concatenation of the events of the statements parsed on their own inputs.
  Side condition: none — except that "the first statement" means what `stmt` (resp. `item`)
  consumes on the actual input.  Whether that is the statement the author had in mind is the
  question of the `Follow` conditions: for the statement shapes of `Props/C04.lean` the `accept_*`
  lemmas say exactly which tokens are consumed, under conditions on the next token stated with
  `opFirst` (an assignment statement keeps looking for a binary operator after its `;`) —
  `assign_then_rest` is the instance for `x = y;` followed by anything that starts no operator.
  The recorded exceptions are exactly the cases where `stmt`/`item` consumes something else than
  the intended statement, or dispatches differently at top level:
    F09a `int x;;` (`item`: the empty statement after an item is an error, `C16.witness_semicolon_first`),
    F09b `y; let a = q;` (`item` vs `stmt` on `let`, `C16.witness_let_after_stmt`),
    F09c `float[8](x);` at statement start (declaration path), F09d `{ … };` (a block-like
    statement eats a following `;`), F09e `x = 1; -y;` (`opFirst MINUS = true`:
    `C16.witness_assign_then_minus`), F09f (a scope ending a block is a bare BLOCK_EXPR).
  They do not contradict the theorems here (which hold for ALL inputs); they are what the
  hypotheses `stmt … = ok t` / `item … = ok t` hide.
-/
import Oq3.Lemmas.GrammarReloc
import Oq3.Lemmas.GrammarProt
import Oq3.Props.C04
import Oq3.Props.C16

namespace Oq3.Props.C16
open Oq3.Gen Oq3.Parser Oq3.Grammar

/-- the state seen from its own position: the input suffix, no events -/
def rebase (s : P) : P :=
  { s with kinds := s.kinds.extract s.pos s.kinds.size, joint := s.joint.extract s.pos s.joint.size,
           pos := 0, events := #[], protectedPos := [] }

/-- the context of a state: everything `rebase` forgets -/
def ctxOf (s : P) : Ctx := ⟨s.kinds, s.joint, s.pos, s.events, s.protectedPos⟩

theorem lift_rebase (s : P) : lift (ctxOf s) (rebase s) = s := by
  simp [lift, rebase, ctxOf]

theorem getD_extract {α} (a : Array α) (p i : Nat) (d : α) :
    (a.extract p a.size).getD i d = a.getD (p + i) d := by
  simp only [Array.getD_eq_getD_getElem?, Array.getElem?_extract]
  by_cases h : i < a.size - p
  · simp only [Nat.min_self, h, if_true]
  · simp only [Nat.min_self, h, if_false]
    rw [Array.getElem?_eq_none (by omega)]

theorem fits_rebase (s : P) (hp : ∀ q ∈ s.protectedPos, q < s.events.size) : Fits (ctxOf s) (rebase s) :=
  ⟨fun i => (getD_extract s.kinds s.pos i .EOF).symm, fun i => (getD_extract s.joint s.pos i false).symm, hp⟩

@[simp] theorem lift_ctxOf_events (s t0 : P) : (lift (ctxOf s) t0).events = s.events ++ t0.events := rfl
@[simp] theorem lift_ctxOf_pos (s t0 : P) : (lift (ctxOf s) t0).pos = s.pos + t0.pos := rfl
@[simp] theorem lift_ctxOf_kinds (s t0 : P) : (lift (ctxOf s) t0).kinds = s.kinds := rfl

/-- **Relocation, general form**: a run from `rebase s` is the run from `s`, with `s.events` in
front, `s.pos` added, and marker positions in the result shifted -/
theorem relocates {α} [Sh α] {x0 x : G α} (s : P) (h : RL s.events.size x0 x)
    (hp : ∀ q ∈ s.protectedPos, q < s.events.size) (r0 : α × P) (hr : x0 (rebase s) = .ok r0) :
    x s = .ok (Sh.sh s.events.size r0.1, lift (ctxOf s) r0.2) := by
  have := (h.run (ctxOf s) (rebase s) r0 rfl (fits_rebase s hp) hr).1
  rwa [lift_rebase] at this

theorem stmt_relocates (fuel : Nat) (s : P) (hp : ∀ q ∈ s.protectedPos, q < s.events.size) (t0 : P)
    (h : stmt fuel (rebase s) = .ok ((), t0)) : stmt fuel s = .ok ((), lift (ctxOf s) t0) :=
  relocates s ((allRL fuel).stmt _) hp ((), t0) h

theorem item_relocates (fuel : Nat) (b : Bool) (s : P) (hp : ∀ q ∈ s.protectedPos, q < s.events.size) (t0 : P)
    (h : item fuel b (rebase s) = .ok ((), t0)) : item fuel b s = .ok ((), lift (ctxOf s) t0) :=
  relocates s ((allRL fuel).item _ b) hp ((), t0) h

theorem exprBlockStatements_relocates (fuel : Nat) (s : P) (hp : ∀ q ∈ s.protectedPos, q < s.events.size)
    (t0 : P) (h : exprBlockStatements fuel (rebase s) = .ok ((), t0)) :
    exprBlockStatements fuel s = .ok ((), lift (ctxOf s) t0) :=
  relocates s ((allRL fuel).exprBlockStatements _) hp ((), t0) h

theorem sourceFileContents_relocates (fuel : Nat) (b : Bool) (s : P)
    (hp : ∀ q ∈ s.protectedPos, q < s.events.size) (t0 : P)
    (h : sourceFileContents fuel b (rebase s) = .ok ((), t0)) :
    sourceFileContents fuel b s = .ok ((), lift (ctxOf s) t0) :=
  relocates s ((allRL fuel).sourceFileContents _ b) hp ((), t0) h

/-- the same for expressions (`expr_bp` with a fresh marker): value = the completed marker, shifted -/
theorem exprBp_relocates (fuel : Nat) (r : Restrictions) (bp : Nat) (s : P)
    (hp : ∀ q ∈ s.protectedPos, q < s.events.size) (v : Option (CompletedMarker × BlockLike)) (t0 : P)
    (h : exprBp fuel none r bp (rebase s) = .ok (v, t0)) :
    exprBp fuel none r bp s = .ok (Sh.sh s.events.size v, lift (ctxOf s) t0) :=
  relocates s ((allRL fuel).exprBp _ none r bp) hp (v, t0) h

/-! ## sequence compositionality -/

/-- **Statements in a block compose.**  If the block loop is at a statement (not at `}` / end of
input), `stmt` parses one statement from `s` reaching `t`, and the REST of the sequence, parsed on
its own (`rebase t`: the remaining input, no events), ends in `u0`, then the loop from `s` ends in
`lift (ctxOf t) u0`: its events are `t.events ++ u0.events` — the events of the first statement
followed by the events of the rest parsed on its own — and it consumes `t.pos + u0.pos` tokens. -/
theorem block_statements_cons (fuel : Nat) (s t u0 : P)
    (hgo : s.kindAt s.pos ≠ .EOF ∧ s.kindAt s.pos ≠ .R_CURLY)
    (h1 : stmt fuel s = .ok ((), t))
    (hp : ∀ q ∈ t.protectedPos, q < t.events.size)
    (h2 : exprBlockStatements fuel (rebase t) = .ok ((), u0)) :
    exprBlockStatements (fuel + 1) s = .ok ((), lift (ctxOf t) u0) := by
  have h3 := exprBlockStatements_relocates fuel t hp u0 h2
  rw [exprBlockStatements.eq_2]
  simp only [G.bind_apply, G.andM_apply, G.notM_apply, at_simple_eq .EOF rfl, at_simple_eq .R_CURLY rfl]
  have e1 : (s.kindAt s.pos == SyntaxKind.EOF) = false := by simpa using hgo.1
  have e2 : (s.kindAt s.pos == SyntaxKind.R_CURLY) = false := by simpa using hgo.2
  simp only [e1, e2, Bool.not_false, if_true, G.pure_apply]
  rw [G.bind_apply, h1]
  exact h3

/-- **Top-level items compose**, in the same sense, with `item` as the dispatcher. -/
theorem file_items_cons (fuel : Nat) (s t u0 : P)
    (hgo : s.kindAt s.pos ≠ .EOF)
    (h1 : item fuel false s = .ok ((), t))
    (hp : ∀ q ∈ t.protectedPos, q < t.events.size)
    (h2 : sourceFileContents fuel false (rebase t) = .ok ((), u0)) :
    sourceFileContents (fuel + 1) false s = .ok ((), lift (ctxOf t) u0) := by
  have h3 := sourceFileContents_relocates fuel false t hp u0 h2
  have e1 : (s.kindAt s.pos == SyntaxKind.EOF) = false := by simpa using hgo
  have hc : (at' .EOF <||> (at' .R_CURLY <&&> pure false)) s = .ok (false, s) := by
    simp only [G.orM_apply, G.andM_apply, at_simple_eq .EOF rfl, at_simple_eq .R_CURLY rfl, e1,
      Bool.false_eq_true, if_false, G.pure_apply]
    cases (s.kindAt s.pos == SyntaxKind.R_CURLY) <;> rfl
  rw [sourceFileContents.eq_2, G.bind_apply, hc]
  simp only [Bool.not_false, if_true]
  rw [G.bind_apply, h1]
  exact h3

/-- the side condition on `protectedPos` is an invariant of the grammar (`Lemmas/ProtInv.lean`,
generated `Lemmas/GrammarProt.lean`): it holds in every state reached from one where it holds — in
particular from the initial state of a parse, whose list is empty -/
theorem block_statements_cons' (fuel : Nat) (s t u0 : P) (hs : ProtOK s)
    (hgo : s.kindAt s.pos ≠ .EOF ∧ s.kindAt s.pos ≠ .R_CURLY)
    (h1 : stmt fuel s = .ok ((), t))
    (h2 : exprBlockStatements fuel (rebase t) = .ok ((), u0)) :
    exprBlockStatements (fuel + 1) s = .ok ((), lift (ctxOf t) u0) ∧ ProtOK t :=
  have ht : ProtOK t := ((allPO fuel).stmt).run s ((), t) hs h1
  ⟨block_statements_cons fuel s t u0 hgo h1 ht h2, ht⟩

theorem file_items_cons' (fuel : Nat) (s t u0 : P) (hs : ProtOK s)
    (hgo : s.kindAt s.pos ≠ .EOF)
    (h1 : item fuel false s = .ok ((), t))
    (h2 : sourceFileContents fuel false (rebase t) = .ok ((), u0)) :
    sourceFileContents (fuel + 1) false s = .ok ((), lift (ctxOf t) u0) ∧ ProtOK t :=
  have ht : ProtOK t := ((allPO fuel).item false).run s ((), t) hs h1
  ⟨file_items_cons fuel s t u0 hgo h1 ht h2, ht⟩

theorem protOK_rebase (s : P) : ProtOK (rebase s) := fun q hq => by cases hq

/-- the events and the position promised by the two `…_cons` theorems, spelled out -/
theorem cons_events (t u0 : P) :
    (lift (ctxOf t) u0).events = t.events ++ u0.events ∧ (lift (ctxOf t) u0).pos = t.pos + u0.pos :=
  ⟨rfl, rfl⟩

/-! ## a `Follow` instance -/

open Oq3.Props.C04 in
/-- `x = y;` followed by a token that starts no operator, then anything: the block loop's events
are the twelve events of the assignment statement followed by the events of the rest parsed on its
own.  (With `-` as the next token the hypothesis `hf` fails and the statement is a different one:
F09e, `witness_assign_then_minus`.) -/
theorem assign_then_rest (fuel : Nat) (s u0 : P) (hr : Ready s)
    (h0 : s.kindAt (s.pos + 0) = .IDENT) (h1 : s.kindAt (s.pos + 1) = .EQ)
    (h2 : s.kindAt (s.pos + 2) = .IDENT) (h3 : s.kindAt (s.pos + 3) = .SEMICOLON)
    (k : SyntaxKind) (hk : s.kindAt (s.pos + 4) = k) (hf : opFirst k = false) :
    ∃ t, stmt (fuel + 40) s = .ok ((), t) ∧
      t.events = s.events ++ (#[.start .TOMBSTONE (some 1), .start .IDENTIFIER (some 3), .token .IDENT 1, .finish,
        .start .ASSIGNMENT_STMT none, .token .EQ 1, .start .TOMBSTONE (some 1),
        .start .IDENTIFIER none, .token .IDENT 1, .finish, .token .SEMICOLON 1, .finish] : Array Ev) ∧
      t.pos = s.pos + 4 ∧
      (exprBlockStatements (fuel + 40) (rebase t) = .ok ((), u0) →
        exprBlockStatements (fuel + 41) s = .ok ((), lift (ctxOf t) u0)) := by
  obtain ⟨_, sb, hacc⟩ := accept_assign_ident fuel s hr h0 h1 h2 h3 k hk hf
  refine ⟨_, hacc, rfl, rfl, fun hrest => ?_⟩
  have hcur : s.kindAt s.pos = .IDENT := by simpa using h0
  refine block_statements_cons (fuel + 40) s _ u0 ⟨by rw [hcur]; decide, by rw [hcur]; decide⟩ hacc ?_ hrest
  intro q hq
  have := hr.prot q hq
  show q < (s.events ++ _).size
  rw [Array.size_append]; omega

theorem opFirst_minus : opFirst .MINUS = true ∧ opFirst .IDENT = false ∧ opFirst .INT_TY = false ∧
    opFirst .IF_KW = false ∧ opFirst .R_CURLY = false ∧ opFirst .EOF = false := by decide

end Oq3.Props.C16
