/-
C12 — diagnostics carry valid spans; a diagnostic-free tree has no error nodes.

Proved (all inputs):
* `lex_error_ranges`: every lexer diagnostic's range is a token's range: `lo ≤ hi ≤ |text|`,
  both ends token starts (character boundaries, since tokens are whole characters — C14);
* `parse_error_positions`: every parser diagnostic emitted by `intersperse_trivia` sits at the
  start offset of a raw token (or at the end of the text): `pos = text_start(p)`, `p ≤ len`;
* `text_start_le` : such an offset never exceeds the length of the text.
"No silent error node" is proved in `Props/C12NoSilent.lean` (for the repaired grammar; the pinned
grammar had one blind site, `array_type_spec`, finding F10), the semantic clause in
`Props/C12Sema.lean`.
-/
import Oq3.Props.C14
import Oq3.Lemmas.Builder

namespace Oq3.Props.C12
open Oq3.Gen Oq3.Parser Oq3.Builder

/-! ### lexer diagnostics -/

open Oq3.Lexer Oq3.Lexed in
/-- a lexer error's range is the range of an existing token: in bounds and ordered -/
theorem lex_error_ranges (uc : UC) (s : List Char) (l : LexedStr) (hl : LexedStr.new uc s = some l) :
    ∀ e ∈ l.error, ∃ lo hi, l.textRange e.token = some (lo, hi) ∧ lo ≤ hi ∧
      hi ≤ Oq3.Lexer.utf8Len s ∧ lo ∈ l.start ∧ hi ∈ l.start := by
  intro e he
  have hlt := Oq3.Props.C14.error_index_lt_len uc s l hl e he
  have hlen := Oq3.Props.C14.lexed_len uc s l hl
  have hi : e.token < (tokenize uc s).length := by omega
  have hks := Oq3.Props.C14.kinds_len_eq_starts_len uc s l hl
  have hpw := Oq3.Props.C14.starts_strictly_increasing uc s l hl
  have hle := Oq3.Props.C14.starts_le_len uc s l hl
  have hslen : l.start.length = l.len + 1 := by
    have : l.kind.length ≥ 1 := by
      have := Oq3.Props.C14.kinds_last_eof uc s l hl
      cases hk : l.kind with
      | nil => simp [hk] at this
      | cons a b => simp
    unfold LexedStr.len at *; omega
  have h1 : e.token < l.start.length := by omega
  have h2 : e.token + 1 < l.start.length := by omega
  refine ⟨l.start[e.token], l.start[e.token + 1], ?_, ?_, hle _ (List.getElem_mem h2),
    List.getElem_mem h1, List.getElem_mem h2⟩
  · unfold LexedStr.textRange
    simp [hlt, List.getElem?_eq_getElem h1, List.getElem?_eq_getElem h2]
  · exact Nat.le_of_lt (List.pairwise_iff_getElem.mp hpw _ _ h1 h2 (by omega))

/-! ### parser diagnostics -/

/-- every error emitted so far sits at the start of a raw token (or at the end of the table) -/
def ErrOK (toks : List RawTok) (out : List StrStep) : Prop :=
  ∀ e ∈ errorsOf out, ∃ p, p ≤ toks.length ∧ e.pos = textStart toks p

structure PosInv (toks : List RawTok) (b : B) : Prop where
  pos_le : b.pos ≤ toks.length
  err : ErrOK toks b.out

theorem errOK_emit_nonerr {toks out} (h : ErrOK toks out) (s : StrStep)
    (hs : ∀ m p, s ≠ .error m p) : ErrOK toks (out ++ [s]) := by
  intro e he
  rw [errorsOf_append] at he
  cases s with
  | error m p => exact absurd rfl (hs m p)
  | token k t => simp [errorsOf] at he; exact h e he
  | enter k => simp [errorsOf] at he; exact h e he
  | exit => simp [errorsOf] at he; exact h e he

theorem PosInv.emit {toks b} (h : PosInv toks b) (s : StrStep) (hs : ∀ m p, s ≠ .error m p) :
    PosInv toks (emit b s) := ⟨h.pos_le, errOK_emit_nonerr h.err s hs⟩

theorem eatTriviasAux_pos {toks : List RawTok} (rest : List RawTok) (b : B) (h : PosInv toks b)
    (hr : toks.drop b.pos = rest) : PosInv toks (eatTriviasAux rest b) := by
  induction rest generalizing b with
  | nil => exact h
  | cons t rest ih =>
    simp only [eatTriviasAux]
    split
    · have hlt : b.pos < toks.length := by
        have : (toks.drop b.pos).length = (t :: rest).length := by rw [hr]
        simp at this; omega
      apply ih
      · exact ⟨by simp [Oq3.Builder.emit]; omega,
          errOK_emit_nonerr h.err _ (by intro _ _ hc; cases hc)⟩
      · have := congrArg List.tail hr
        simpa [List.tail_drop, Oq3.Builder.emit] using this
    · exact h

theorem eatNTrivias_pos {toks : List RawTok} (n : Nat) (b b' : B) (h : PosInv toks b)
    (hok : eatNTrivias toks n b = .ok b') : PosInv toks b' := by
  induction n generalizing b with
  | zero => simp only [eatNTrivias, Except.ok.injEq] at hok; subst hok; exact h
  | succ n ih =>
    simp only [eatNTrivias] at hok
    split at hok
    · simp at hok
    · rename_i t ht
      split at hok
      · simp at hok
      · have hlt : b.pos < toks.length := (List.getElem?_eq_some_iff.mp ht).1
        exact ih _ ⟨by simp [Oq3.Builder.emit]; omega,
          errOK_emit_nonerr h.err _ (by intro _ _ hc; cases hc)⟩ hok

theorem flushPending_pos {toks : List RawTok} (b b' : B) (h : PosInv toks b)
    (hok : flushPending b = .ok b') : PosInv toks b' := by
  unfold flushPending at hok
  split at hok
  · simp at hok
  · simp only [Except.ok.injEq] at hok; subst hok
    exact ⟨h.pos_le, errOK_emit_nonerr h.err _ (by intro _ _ hc; cases hc)⟩
  · simp only [Except.ok.injEq] at hok; subst hok; exact ⟨h.pos_le, h.err⟩

theorem step_pos {toks : List RawTok} (b b' : B) (s : Step) (h : PosInv toks b)
    (hok : step toks b s = .ok b') : PosInv toks b' := by
  cases s with
  | token k n =>
    simp only [step, bind, Except.bind] at hok
    split at hok
    · simp at hok
    · rename_i b1 hb1
      have h1 := flushPending_pos b b1 h hb1
      have h2 : PosInv toks (eatTrivias toks b1) := eatTriviasAux_pos _ b1 h1 rfl
      unfold doToken at hok
      split at hok
      · simp at hok
      · simp only [Except.ok.injEq] at hok; subst hok
        exact ⟨by simp [Oq3.Builder.emit]; omega,
          errOK_emit_nonerr h2.err _ (by intro _ _ hc; cases hc)⟩
  | enter k =>
    simp only [step] at hok
    split at hok
    · simp only [Except.ok.injEq] at hok; subst hok
      exact ⟨h.pos_le, errOK_emit_nonerr h.err _ (by intro _ _ hc; cases hc)⟩
    · simp only [bind, Except.bind] at hok
      split at hok
      · simp at hok
      · rename_i b1 hb1
        have h1 := flushPending_pos b b1 h hb1
        split at hok
        · simp at hok
        · rename_i b2 hb2
          have h2 := eatNTrivias_pos _ b1 b2 h1 hb2
          exact eatNTrivias_pos _ _ b' (h2.emit _ (by intro _ _ hc; cases hc)) hok
  | exit =>
    simp only [step] at hok
    split at hok
    · simp at hok
    · simp only [Except.ok.injEq] at hok; subst hok
      exact ⟨h.pos_le, errOK_emit_nonerr h.err _ (by intro _ _ hc; cases hc)⟩
    · simp only [Except.ok.injEq] at hok; subst hok; exact ⟨h.pos_le, h.err⟩
  | error msg =>
    simp only [step, Except.ok.injEq] at hok; subst hok
    refine ⟨h.pos_le, ?_⟩
    intro e he
    simp only [Oq3.Builder.emit, errorsOf_append, List.mem_append] at he
    rcases he with he | he
    · exact h.err e he
    · simp [errorsOf] at he; subst he; exact ⟨b.pos, h.pos_le, rfl⟩

theorem steps_pos {toks : List RawTok} (ss : List Step) (b b' : B) (h : PosInv toks b)
    (hok : steps toks ss b = .ok b') : PosInv toks b' := by
  induction ss generalizing b with
  | nil => simp only [steps, Except.ok.injEq] at hok; subst hok; exact h
  | cons s ss ih =>
    simp only [steps, bind, Except.bind] at hok
    split at hok
    · simp at hok
    · rename_i b1 hb1; exact ih b1 (step_pos b b1 s h hb1) hok

/-- **Parser diagnostics sit on token starts.** For every token table and every step list on
which `intersperse_trivia` returns, each emitted error's offset is `text_start(p)` for some
`p ≤ len`. -/
theorem parse_error_positions (toks : List RawTok) (ss : List Step) (out : List StrStep) (eof : Bool)
    (hok : intersperseTrivia toks ss = .ok (out, eof)) : ErrOK toks out := by
  simp only [intersperseTrivia, bind, Except.bind] at hok
  split at hok
  · simp at hok
  · rename_i b hb
    have h0 : PosInv toks ({} : B) := ⟨Nat.zero_le _, by intro e he; simp [errorsOf] at he⟩
    have h1 := steps_pos ss _ b h0 hb
    split at hok
    · simp only [Except.ok.injEq, Prod.mk.injEq] at hok
      obtain ⟨rfl, _⟩ := hok
      have h2 : PosInv toks (eatTrivias toks b) := eatTriviasAux_pos _ b h1 rfl
      exact errOK_emit_nonerr h2.err _ (by intro _ _ hc; cases hc)
    · simp at hok

/-- a token start never exceeds the length of the text -/
theorem text_start_le (toks : List RawTok) (p : Nat) : textStart toks p ≤ Oq3.Builder.utf8Len (rawText toks) := by
  unfold textStart rawText Oq3.Builder.utf8Len
  have : ∀ (l : List RawTok), ((l.map (fun t => t.text)).flatten.map Char.utf8Size).sum =
      (l.map (fun t => (t.text.map Char.utf8Size).sum)).sum := by
    intro l; induction l with
    | nil => rfl
    | cons x xs ih =>
      simp only [List.map_cons, List.flatten_cons, List.map_append, List.sum_append, List.sum_cons]
      rw [ih]
  rw [this]
  conv => rhs; rw [← List.take_append_drop p toks]
  simp only [List.map_append, List.sum_append, Oq3.Builder.utf8Len]
  omega

end Oq3.Props.C12
