/-
C05 — the AST mirrors the program's derivation: precedence and associativity.

Part 1 (this file): the Pratt round-trip theorem, for an ARBITRARY operator table; the
OpenQASM 3 specification table; and the exact list of operator pairs on which the
implementation's table (translated from `current_op` on every run) disagrees with it.
-/
import Oq3.Model.Pratt

namespace Oq3.Props.C05
open Oq3.Gen Oq3.Pratt

variable (t : Tab)

/-- next token is not a binary operator of power ≥ bp -/
def Follow (bp : Nat) : List Tok → Prop
  | .op o :: _ => t.pow o < bp
  | _ => True

/-- canonical at level `bp`: exactly the trees the Pratt loop run at minimum power `bp`
rebuilds from their own minimal-parenthesis print -/
def Canon : Nat → E → Prop
  | _, .atom _ => True
  | _, .paren e => Canon 1 e
  | _, .pre o e => t.preOK o = true ∧ Canon prefixBp e
  | bp, .bin o l r =>
      bp ≤ t.pow o ∧ Canon (rbp t o) r ∧
      (match l with
        | .bin o' _ _ => t.pow o < rbp t o' ∧ Canon bp l
        | _ => Canon bp l)

/-- every binary operator binds weaker than the operand position of a prefix operator -/
def Small : Prop := ∀ o, t.pow o < prefixBp

/-- fuel monotonicity -/
theorem mono :
    (∀ fuel bp ts r, exprBp t fuel bp ts = some r → ∀ k, exprBp t (fuel + k) bp ts = some r) ∧
    (∀ fuel ts r, primary t fuel ts = some r → ∀ k, primary t (fuel + k) ts = some r) ∧
    (∀ fuel bp lhs ts r, loop t fuel bp lhs ts = some r → ∀ k, loop t (fuel + k) bp lhs ts = some r) := by
  have h : ∀ fuel,
      (∀ bp ts r, exprBp t fuel bp ts = some r → ∀ k, exprBp t (fuel + k) bp ts = some r) ∧
      (∀ ts r, primary t fuel ts = some r → ∀ k, primary t (fuel + k) ts = some r) ∧
      (∀ bp lhs ts r, loop t fuel bp lhs ts = some r → ∀ k, loop t (fuel + k) bp lhs ts = some r) := by
    intro fuel
    induction fuel with
    | zero => simp [exprBp, primary, loop]
    | succ n ih =>
      obtain ⟨ihE, ihP, ihL⟩ := ih
      refine ⟨?_, ?_, ?_⟩
      · intro bp ts r h k
        rw [Nat.add_right_comm]
        simp only [exprBp] at h ⊢
        cases hp : primary t n ts with
        | none => simp [hp] at h
        | some pr =>
          obtain ⟨lhs, ts'⟩ := pr
          simp only [hp] at h
          simp only [ihP _ _ hp k]
          exact ihL _ _ _ _ h k
      · intro ts r h k
        rw [Nat.add_right_comm]
        simp only [primary] at h ⊢
        match ts, h with
        | .atom n' :: ts, h => simpa using h
        | .pre o :: ts, h =>
          simp only at h ⊢
          split
          · rename_i hp
            simp only [hp, if_true] at h
            cases he : exprBp t n prefixBp ts with
            | none => simp [he] at h
            | some er =>
              simp only [ihE _ _ _ he k]
              simpa [he] using h
          · rename_i hp; simp [hp] at h
        | .lp :: ts, h =>
          simp only at h ⊢
          cases he : exprBp t n 1 ts with
          | none => simp [he] at h
          | some er =>
            simp only [ihE _ _ _ he k]
            simpa [he] using h
      · intro bp lhs ts r h k
        rw [Nat.add_right_comm]
        simp only [loop] at h ⊢
        match ts, h with
        | .op o :: ts', h =>
          simp only at h ⊢
          split
          · rename_i hlt; simpa [hlt] using h
          · rename_i hlt
            simp only [hlt, if_false] at h
            cases he : exprBp t n (rbp t o) ts' with
            | none => simp [he] at h
            | some er =>
              obtain ⟨r', ts''⟩ := er
              simp only [he] at h
              simp only [ihE _ _ _ he k]
              exact ihL _ _ _ _ h k
        | [], h => simpa using h
        | .atom _ :: _, h => simpa using h
        | .pre _ :: _, h => simpa using h
        | .lp :: _, h => simpa using h
        | .rp :: _, h => simpa using h
  exact ⟨fun f => (h f).1, fun f => (h f).2.1, fun f => (h f).2.2⟩

/-- along the right spine of `e`, every level stops at `rest` -/
def RightOK : E → List Tok → Prop
  | .bin o _ r, rest => Follow t (rbp t o) rest ∧ RightOK r rest
  | .pre _ e, rest => RightOK e rest
  | _, _ => True

theorem pow_le_rbp (o : Op) : t.pow o ≤ rbp t o := by
  unfold rbp; split <;> omega

theorem rightOK_of_canon (hs : Small t) (e : E) (b : Nat) (o : Op) (xs : List Tok)
    (hc : Canon t b e) (hp : t.pow o < b) : RightOK t e (.op o :: xs) := by
  induction e generalizing b with
  | atom n => trivial
  | paren e ih => trivial
  | pre o' e ih =>
    simp only [Canon] at hc
    exact ih _ hc.2 (hs o)
  | bin o' l r ihl ihr =>
    simp only [Canon] at hc
    obtain ⟨h1, h2, _⟩ := hc
    have := pow_le_rbp t o'
    refine ⟨?_, ?_⟩
    · show t.pow o < rbp t o'; omega
    · exact ihr _ h2 (by omega)

theorem rightOK_nonop (e : E) (xs : List Tok) (h : ∀ o ys, xs ≠ .op o :: ys) : RightOK t e xs := by
  induction e with
  | atom n => trivial
  | paren e ih => trivial
  | pre o e ih => exact ih
  | bin o' l r ihl ihr =>
    refine ⟨?_, ihr⟩
    unfold Follow
    split
    · rename_i o ys; exact absurd rfl (h o ys)
    · trivial

theorem loop_stop (bp : Nat) (lhs : E) (rest : List Tok) (h : Follow t bp rest) :
    loop t 1 bp lhs rest = some (lhs, rest) := by
  unfold loop
  split
  · rename_i o ts'; simp only [Follow] at h; simp [h]
  · rfl

theorem follow_prefix (hs : Small t) (rest : List Tok) : Follow t prefixBp rest := by
  unfold Follow; split
  · exact hs _
  · trivial

/-- generalised statement: parsing `print e ++ rest` at level `bp` yields whatever continuing
the loop with `lhs = e` at `rest` yields -/
theorem Q (hs : Small t) (e : E) : ∀ bp rest res, Canon t bp e → RightOK t e rest →
    (∃ f, loop t f bp e rest = some res) → ∃ f, exprBp t f bp (print e ++ rest) = some res := by
  induction e with
  | atom n =>
    intro bp rest res _ _ ⟨f, hf⟩
    refine ⟨f + 2, ?_⟩
    have hl := (mono t).2.2 _ _ _ _ _ hf 1
    simp [exprBp, primary, print, hl]
  | paren e ih =>
    intro bp rest res hc _ ⟨f, hf⟩
    simp only [Canon] at hc
    have hin := ih 1 (.rp :: rest) (e, .rp :: rest) hc
      (rightOK_nonop t e _ (by intro o ys h; cases h))
      ⟨1, loop_stop t 1 e _ (by simp [Follow])⟩
    obtain ⟨f1, hf1⟩ := hin
    refine ⟨f1 + f + 2, ?_⟩
    have h1 := (mono t).1 _ _ _ _ hf1 f
    have h2 := (mono t).2.2 _ _ _ _ _ hf (f1 + 1)
    have e1 : f1 + f + 2 = (f1 + f + 1) + 1 := by omega
    have e2 : f + (f1 + 1) = f1 + f + 1 := by omega
    rw [e1]
    simp only [exprBp, print, List.cons_append, List.append_assoc, List.nil_append]
    have e3 : f1 + f + 1 = (f1 + f) + 1 := by omega
    rw [e3]
    simp only [primary, h1]
    simpa [e2, e3] using h2
  | pre o e ih =>
    intro bp rest res hc hr ⟨f, hf⟩
    simp only [Canon] at hc
    obtain ⟨hpre, hc⟩ := hc
    have hin := ih prefixBp rest (e, rest) hc hr ⟨1, loop_stop t _ e rest (follow_prefix t hs rest)⟩
    obtain ⟨f1, hf1⟩ := hin
    refine ⟨f1 + f + 2, ?_⟩
    have h1 := (mono t).1 _ _ _ _ hf1 f
    have h2 := (mono t).2.2 _ _ _ _ _ hf (f1 + 1)
    have e1 : f1 + f + 2 = (f1 + f + 1) + 1 := by omega
    have e2 : f + (f1 + 1) = f1 + f + 1 := by omega
    rw [e1]
    simp only [exprBp, print, List.cons_append]
    have e3 : f1 + f + 1 = (f1 + f) + 1 := by omega
    rw [e3]
    simp only [primary, hpre, if_true, h1]
    simpa [e2, e3] using h2
  | bin o l r ihl ihr =>
    intro bp rest res hc hr ⟨f, hf⟩
    simp only [Canon] at hc
    obtain ⟨hbp, hcr, hcl⟩ := hc
    obtain ⟨hfo, hrr⟩ := hr
    have hR := ihr (rbp t o) rest (r, rest) hcr hrr ⟨1, loop_stop t _ r rest hfo⟩
    obtain ⟨fr, hfr⟩ := hR
    have hcl' : Canon t bp l := by
      cases l <;> simp_all
    have hrl : RightOK t l (.op o :: (print r ++ rest)) := by
      cases l with
      | atom n => trivial
      | paren e => trivial
      | pre o' e' =>
        simp only [Canon] at hcl
        exact rightOK_of_canon t hs e' _ o _ hcl.2 (hs o)
      | bin o' l' r' =>
        simp only at hcl
        obtain ⟨hlt, hcl2⟩ := hcl
        simp only [Canon] at hcl2
        exact ⟨hlt, rightOK_of_canon t hs r' _ o _ hcl2.2.1 hlt⟩
    have hloop : ∃ f', loop t f' bp l (.op o :: (print r ++ rest)) = some res := by
      refine ⟨fr + f + 1, ?_⟩
      have h1 := (mono t).1 _ _ _ _ hfr f
      have h2 := (mono t).2.2 _ _ _ _ _ hf fr
      have e2 : f + fr = fr + f := by omega
      simp only [loop, Nat.not_lt.mpr hbp, if_false, h1]
      simpa [e2] using h2
    have := ihl bp (.op o :: (print r ++ rest)) res hcl' hrl hloop
    simpa [print, List.append_assoc] using this

/-- **Pratt round trip**, for every operator table whose powers stay below the prefix level:
a tree that is canonical for the table is returned unchanged from its own print; parentheses
override; prefix operators take the following primary. -/
theorem pratt_roundtrip (hs : Small t) (e : E) (bp : Nat) (rest : List Tok)
    (hc : Canon t bp e) (hf : Follow t bp rest) :
    ∃ f, exprBp t f bp (print e ++ rest) = some (e, rest) := by
  refine Q t hs e bp rest (e, rest) hc ?_ ⟨1, loop_stop t bp e rest hf⟩
  cases rest with
  | nil => exact rightOK_nonop t e [] (by intro o ys h; cases h)
  | cons x xs =>
    cases x with
    | op o => exact rightOK_of_canon t hs e bp o xs hc hf
    | atom n => exact rightOK_nonop t e _ (by intro o ys h; cases h)
    | pre o => exact rightOK_nonop t e _ (by intro o ys h; cases h)
    | lp => exact rightOK_nonop t e _ (by intro o ys h; cases h)
    | rp => exact rightOK_nonop t e _ (by intro o ys h; cases h)

/-! ### the specification table and where the implementation's table departs from it -/

/-- the 19 binary operators of OpenQASM 3 -/
def binOps : List Op :=
  [.PIPE2, .AMP2, .PIPE, .CARET, .AMP, .EQ2, .NEQ, .L_ANGLE, .LTEQ, .R_ANGLE, .GTEQ, .SHL, .SHR,
   .PLUS, .MINUS, .STAR, .SLASH, .PERCENT, .DOUBLE_STAR]

/-- OpenQASM 3 precedence levels (higher binds tighter); unary `! - ~` sit at level 11,
between `**` (12, right-associative) and `* / %` (10) -/
def specLevel : Op → Nat
  | .PIPE2 => 1 | .AMP2 => 2 | .PIPE => 3 | .CARET => 4 | .AMP => 5
  | .EQ2 | .NEQ => 6
  | .L_ANGLE | .LTEQ | .R_ANGLE | .GTEQ => 7
  | .SHL | .SHR => 8
  | .PLUS | .MINUS => 9
  | .STAR | .SLASH | .PERCENT => 10
  | .DOUBLE_STAR => 12
  | _ => 0

def specUnaryLevel : Nat := 11

def specTab : Tab :=
  { pow := specLevel, assoc := fun o => if o == .DOUBLE_STAR then .right else .left
    preOK := fun o => o == .MINUS || o == .BANG || o == .TILDE }

/-- the three unary operators of OpenQASM 3 -/
def unaryOps : List Op := [.MINUS, .BANG, .TILDE]

/-- unary operators the implementation does not accept at the start of an expression -/
def unaryRejected : List Op := unaryOps.filter fun o => !implTab.preOK o

/-- does `a o1 b o2 c` group as `(a o1 b) o2 c` under table `t`? -/
def groupsLeft (t : Tab) (o1 o2 : Op) : Bool := !(decide (rbp t o1 ≤ t.pow o2))

/-- ordered operator pairs whose grouping in `a o1 b o2 c` differs between the implementation's
(translated) table and the specification -/
def disagree : List (Op × Op) :=
  (binOps.flatMap fun o1 => binOps.map fun o2 => (o1, o2)).filter fun p =>
    groupsLeft implTab p.1 p.2 != groupsLeft specTab p.1 p.2

/-- binary operators that the implementation lets bind inside the operand of a prefix
operator differently from the specification: under the spec only `**` binds tighter than a
unary operator; the implementation parses the operand at power 255, so nothing does -/
def unaryDisagree : List Op :=
  binOps.filter fun o => (decide (specUnaryLevel < specLevel o)) != (decide (prefixBp ≤ implTab.pow o))

/-- all 19 operators are operators of the implementation's table, with powers below 255 -/
theorem implTab_ops : (binOps.all fun o => decide (0 < implTab.pow o ∧ implTab.pow o < prefixBp)) = true := by
  decide +kernel

/-- the implementation's table has no power at or above the prefix level -/
theorem implTab_small : Small implTab := by
  intro o
  have hb : (Ops.currentOpRows.all fun r =>
      match r.2.2 with | some (bp, _, _) => decide (bp < prefixBp) | none => true) = true := by
    decide +kernel
  have h : ∀ r ∈ Ops.currentOpRows, match r.2.2 with | some (bp, _, _) => bp < prefixBp | none => True := by
    intro r hr
    have := (List.all_eq_true.mp hb) r hr
    cases h2 : r.2.2 with
    | none => trivial
    | some q => obtain ⟨bp, k, a⟩ := q; simp only [h2] at this ⊢; simpa using this
  unfold implTab rowFor
  simp only
  cases hf : (Ops.currentOpRows.findSome? fun r =>
      match r.2.2 with
      | some (bp, k, a) => if k == o then some (bp, a) else none
      | none => none) with
  | none => simp [prefixBp]
  | some p =>
    obtain ⟨bp, a⟩ := p
    simp only
    obtain ⟨r, hr, hrv⟩ := List.exists_of_findSome?_eq_some hf
    have := h r hr
    cases hr2 : r.2.2 with
    | none => simp [hr2] at hrv
    | some q =>
      obtain ⟨bp', k', a'⟩ := q
      simp only [hr2] at hrv this
      split at hrv
      · simp only [Option.some.injEq, Prod.mk.injEq] at hrv; omega
      · simp at hrv

/-- **Round trip for the implementation's table** (instance of `pratt_roundtrip`). -/
theorem impl_roundtrip (e : E) (bp : Nat) (rest : List Tok)
    (hc : Canon implTab bp e) (hf : Follow implTab bp rest) :
    ∃ f, exprBp implTab f bp (print e ++ rest) = some (e, rest) :=
  pratt_roundtrip implTab implTab_small e bp rest hc hf

/-! non-vacuity: `a + b * c - d` is canonical for the implementation's table -/
theorem pows : implTab.pow .PLUS = 10 ∧ implTab.pow .MINUS = 10 ∧ implTab.pow .STAR = 11 ∧
    implTab.assoc .PLUS = .left ∧ implTab.assoc .MINUS = .left ∧ implTab.assoc .STAR = .left := by
  decide +kernel

example : Canon implTab 1 (.bin .MINUS (.bin .PLUS (.atom 0) (.bin .STAR (.atom 1) (.atom 2))) (.atom 3)) := by
  obtain ⟨h1, h2, h3, h4, h5, h6⟩ := pows
  simp [Canon, rbp, h1, h2, h3, h4, h5, h6]

end Oq3.Props.C05
