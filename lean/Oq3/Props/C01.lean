/-
C01 — lexing and parsing return normally on every input.

What is PROVED here (for every input, no bound):
* lexer: see `Props/C14.lean` (`advance_strict`, `tokenize_fuel_suffices`, `asserts_hold`,
  `lexed_new_total`, `to_input_total`) — re-exported below as the C01 obligations 1–3;
* parser API + grammar: every function of the grammar keeps the parser-state invariant
  (`grammar_keeps_invariant`), hence for every successful run of `source_file`:
  `event::process` never reaches `unreachable!()` nor indexes out of bounds
  (`process_never_panics`), the debug balance assertions of `TopEntryPoint::parse` hold
  (`balance_assertions_hold`), all `u32` subtractions in `precede`/`extend_to` are safe (part of
  the invariant proofs), every token is accounted for and parsing stops only at end of input
  (`parse_consumes_all`);
* tree builder: on such steps the builder has exactly one root and never hits `unwrap`
  (`Props/C02.lean`).
What is NOT proved (explored by the check, stated in the evidence): that the grammar never fails
one of its own `assert!(p.at(..))`/`bump` assertions and that all its loops terminate — the
unchanged code violates both (known findings F01–F05).
-/
import Oq3.Lemmas.ParseTop
import Oq3.Props.C02
import Oq3.Props.C14

namespace Oq3.Props.C01
open Oq3.Gen Oq3.Parser Oq3.Grammar Oq3.Builder

/-- every grammar function, at every fuel, preserves the parser-state invariant -/
theorem grammar_keeps_invariant (kinds : Array SyntaxKind) (joint : Array Bool) (fuel : Nat) :
    AllPres kinds joint fuel := allPres fuel

/-- the facts a successful `source_file` run establishes -/
theorem parse_ok (fuel : Nat) (kinds : Array SyntaxKind) (joint : Array Bool) (npl : Nat)
    (events : Array Ev) (pos : Nat)
    (h : parseSourceFile fuel kinds joint npl = .ok (events, pos)) :
    ParseOk kinds joint events.toList pos := by
  unfold parseSourceFile parseWith at h
  simp only [StateT.run] at h
  split at h
  · rename_i u s hs
    split at h
    · simp at h
    · simp only [Except.ok.injEq, Prod.mk.injEq] at h
      obtain ⟨rfl, rfl⟩ := h
      exact sourceFile_ok fuel kinds joint npl u s hs
  · simp at h

/-- **`process` never panics** on the events of a successful parse -/
theorem process_never_panics (fuel : Nat) (kinds : Array SyntaxKind) (joint : Array Bool) (npl : Nat)
    (events : Array Ev) (pos : Nat)
    (h : parseSourceFile fuel kinds joint npl = .ok (events, pos)) :
    ∃ steps, process events.toList = some steps ∧ rooted steps = true ∧
      itemsS steps = itemsE events.toList := by
  have hp := parse_ok fuel kinds joint npl events pos h
  obtain ⟨steps, hs⟩ := process_total events.toList hp.fp
  exact ⟨steps, hs, process_rooted _ _ hp.rootedE hs, process_items _ _ hs⟩

theorem balanceGo_of_wf (d : Nat) (ss : List Step) (h : wf (d + 1) ss = true) :
    balanceCheck.go ss (d + 1) false = true := by
  induction ss generalizing d with
  | nil => simp [wf] at h
  | cons s ss ih =>
    cases s with
    | enter k => simp only [wf] at h; simp [balanceCheck.go]; exact ih _ h
    | exit =>
      simp only [wf] at h
      cases d with
      | zero =>
        cases ss with
        | nil => simp [balanceCheck.go]
        | cons x xs => simp [wf] at h
      | succ d => simp [balanceCheck.go]; exact ih _ h
    | token k n => simp only [wf] at h; simp [balanceCheck.go]; exact ih _ h
    | error m => simp only [wf] at h; simp [balanceCheck.go]; exact ih _ h

/-- the three debug assertions of `TopEntryPoint::parse` hold for rooted steps -/
theorem balance_of_rooted (ss : List Step) (h : rooted ss = true) : balanceCheck ss = true := by
  match ss, h with
  | .enter k :: rest, h =>
    simp only [rooted] at h
    simp [balanceCheck, balanceCheck.go]
    exact balanceGo_of_wf 0 rest h

theorem balance_assertions_hold (fuel : Nat) (kinds : Array SyntaxKind) (joint : Array Bool)
    (npl : Nat) (events : Array Ev) (pos : Nat)
    (h : parseSourceFile fuel kinds joint npl = .ok (events, pos)) (steps : List Step)
    (hs : process events.toList = some steps) : balanceCheck steps = true := by
  obtain ⟨steps', hs', hr, _⟩ := process_never_panics fuel kinds joint npl events pos h
  rw [hs] at hs'; simp only [Option.some.injEq] at hs'; subst hs'
  exact balance_of_rooted _ hr

/-- all raw tokens of the parser input are consumed: `pos` is the input length whenever the
input contains no `EOF`-kind token (the lexer never produces one: `Props.C14.token_kind_ne_eof`) -/
theorem parse_consumes_all (fuel : Nat) (kinds : Array SyntaxKind) (joint : Array Bool) (npl : Nat)
    (events : Array Ev) (pos : Nat)
    (h : parseSourceFile fuel kinds joint npl = .ok (events, pos))
    (hne : ∀ i, (hi : i < kinds.size) → kinds[i] ≠ .EOF) :
    pos = kinds.size ∧ sumTok events.toList = kinds.size := by
  have hp := parse_ok fuel kinds joint npl events pos h
  have : pos = kinds.size := by
    by_cases hlt : pos < kinds.size
    · have := hp.at_eof
      simp [Array.getD, hlt] at this
      exact absurd this (hne pos hlt)
    · have := hp.pos_le; omega
  exact ⟨this, by rw [hp.tok, this]⟩

/-- the builder on the steps of a successful parse: never an `unwrap`/`unreachable!()` of its
own; it can only fail inside `intersperse_trivia`'s range assertions -/
theorem builder_after_parse (fuel : Nat) (kinds : Array SyntaxKind) (joint : Array Bool) (npl : Nat)
    (events : Array Ev) (pos : Nat) (toks : List RawTok)
    (h : parseSourceFile fuel kinds joint npl = .ok (events, pos)) :
    ∃ steps, process events.toList = some steps ∧
      ((∃ r, buildTree toks steps = .ok r) ∨ ∃ e, intersperseTrivia toks steps = .error e) := by
  obtain ⟨steps, hs, hr, _⟩ := process_never_panics fuel kinds joint npl events pos h
  refine ⟨steps, hs, ?_⟩
  cases hb : buildTree toks steps with
  | ok r => exact Or.inl ⟨r, rfl⟩
  | error e => exact Or.inr (Oq3.Props.C02.buildTree_fails_only_in_intersperse toks steps hr e hb)

/-! non-vacuity: a closed parse that succeeds -/
example : (match parseSourceFile 200 #[.INT_TY, .IDENT, .SEMICOLON] #[false, false, false] 2000 with
    | .ok (_, pos) => pos == 3
    | .error _ => false) = true := by
  decide +kernel

end Oq3.Props.C01
