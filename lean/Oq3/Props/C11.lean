/-
C11 (second and third clause) — the gates between the stages, stated outright.
The lexical clause is `Props/C11Lex.lean`.
-/
import Oq3.Model.Pipeline

namespace Oq3.Props.C11
open Oq3.Pipeline

/-- the lex-checked parse returns a tree if and only if there is no lexical diagnostic; without
a tree its diagnostics are exactly the lexical ones, with a tree they are exactly the parser's -/
theorem check_lex_iff {Tree Err : Type} (lexErrors : List Err) (parse : Unit → Tree × List Err) :
    ((parseTextCheckLex lexErrors parse).1.isSome ↔ lexErrors = []) ∧
    (lexErrors ≠ [] → parseTextCheckLex lexErrors parse = (none, lexErrors)) ∧
    (lexErrors = [] → parseTextCheckLex lexErrors parse = (some (parse ()).1, (parse ()).2)) := by
  unfold parseTextCheckLex
  cases lexErrors <;> simp

mutual
theorem haveSyntaxErrors_iff : ∀ s : Src, haveSyntaxErrors s = someFileHasErrors s
  | .mk errors included => by
    simp only [haveSyntaxErrors, someFileHasErrors, anyHave_iff included]
    cases errors with
    | none => simp
    | some n => cases n <;> simp
theorem anyHave_iff : ∀ l : List Src, anyHaveSyntaxErrors l = someOfHasErrors l
  | [] => rfl
  | s :: ss => by simp only [anyHaveSyntaxErrors, someOfHasErrors, haveSyntaxErrors_iff s, anyHave_iff ss]
end

/-- semantic analysis is skipped (empty result) exactly when the source or any transitively
included file has a syntax diagnostic, and runs otherwise -/
theorem gate_on_syntax_errors {Ctx : Type} (empty : Ctx) (src : Src) (analyze : Unit → Ctx) :
    (someFileHasErrors src = true → analyzeSource empty src analyze = (empty, true)) ∧
    (someFileHasErrors src = false → analyzeSource empty src analyze = (analyze (), false)) := by
  unfold analyzeSource
  rw [haveSyntaxErrors_iff]
  cases someFileHasErrors src <;> simp

/-! non-vacuity -/
example : haveSyntaxErrors (.mk (some 0) [.mk (some 0) [.mk (some 2) []], .mk none []]) = true := by decide
example : haveSyntaxErrors (.mk (some 0) [.mk (some 0) [], .mk none []]) = false := by decide

end Oq3.Props.C11
