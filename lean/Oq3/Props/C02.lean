/-
C02 — the syntax tree is lossless.

Part 1 (this file, grammar-independent): for EVERY raw token table and EVERY step list that
is one rooted, balanced node (`rooted`), whenever `intersperse_trivia` returns, the tree
builder returns exactly one root node, no builder `unwrap`/`assert` fails, the leaves of the
tree are exactly the emitted token steps in order, and their texts concatenate to the texts of
the raw tokens consumed — all of them when `is_eof` holds.  Diagnostics are the emitted error
steps in order.
-/
import Oq3.Lemmas.Builder

namespace Oq3.Props.C02
open Oq3.Gen Oq3.Parser Oq3.Builder

theorem tbinv_nil : TBInv [] 0 {} :=
  ⟨rfl, rfl, rfl, by simp [TB.leaves, tokensOf, Tree.leavesList], rfl⟩

/-- after all parser steps of a rooted list the builder is in `PendingExit` with only the root
open, and everything emitted so far is accounted for -/
theorem steps_rooted (toks : List RawTok) (ss : List Step) (hr : rooted ss = true) (b : B)
    (hok : steps toks ss {} = .ok b) : BInv toks b 0 := by
  match ss, hr with
  | .enter k :: rest, hr =>
    simp only [rooted] at hr
    simp only [steps, step, bind, Except.bind] at hok
    have hbase : BInv toks (emit { ({} : B) with state := .normal } (.enter k)) 1 := by
      refine ⟨by simp [emit], by simp [emit, tokensOf, textsOf, rawText], by simp [emit], by simp,
        ⟨{ ({} : TB) with parents := [(k, [])] }, ?_⟩⟩
      simpa [emit, pendingExtra] using tbinv_nil.emit_enter k
    exact steps_inv rest _ b 1 hbase hr hok

/-- **Single root, lossless leaves.** -/
theorem buildTree_spec (toks : List RawTok) (ss : List Step) (hr : rooted ss = true)
    (out : List StrStep) (eof : Bool) (hok : intersperseTrivia toks ss = .ok (out, eof)) :
    ∃ k cs n, buildTree toks ss = .ok (.node k cs, errorsOf out, eof) ∧
      (Tree.node k cs).leaves = tokensOf out ∧
      n ≤ toks.length ∧ (Tree.node k cs).text = rawText (toks.take n) ∧
      (eof = true → n = toks.length) := by
  simp only [intersperseTrivia, bind, Except.bind] at hok
  split at hok
  · simp at hok
  · rename_i b hb
    have hinv := steps_rooted toks ss hr b hb
    have hst := hinv.root rfl
    simp only [hst, Except.ok.injEq, Prod.mk.injEq] at hok
    obtain ⟨hout, heof⟩ := hok
    obtain ⟨h2, hs2⟩ := eatTrivias_inv b 0 hinv (by simp [hst, pendingExtra])
    obtain ⟨tb, htb⟩ := h2.tb
    simp only [hs2, hst, pendingExtra, if_true] at htb
    obtain ⟨k, cs, hrun, hleaves⟩ := htb.emit_exit_root
    refine ⟨k, cs, (eatTrivias toks b).pos, ?_, ?_, h2.pos_le, ?_, ?_⟩
    · simp only [buildTree, intersperseTrivia, bind, Except.bind, hb, hst]
      rw [← hout, ← heof]
      have hrun' : tbSteps (emit (eatTrivias toks b) StrStep.exit).out {} = _ := hrun
      simp only [hrun', tbFinish]
      simp [emit, errorsOf_append, errorsOf]
    · rw [hleaves, ← hout]; simp [emit, tokensOf_append, tokensOf]
    · simp only [Tree.text, hleaves]
      exact h2.text_eq
    · intro he
      rw [he] at heof
      simpa [emit] using heof

/-- when the builder reaches the end of the token table the tree's text is the whole input -/
theorem leaves_spell_input (toks : List RawTok) (ss : List Step) (hr : rooted ss = true)
    (tree : Tree) (errs : List SynErr) (hok : buildTree toks ss = .ok (tree, errs, true)) :
    tree.text = rawText toks := by
  simp only [buildTree, bind, Except.bind] at hok
  split at hok
  · simp at hok
  · rename_i r hr2
    obtain ⟨out, eof⟩ := r
    obtain ⟨k, cs, n, hbt, _, _, htext, heof⟩ := buildTree_spec toks ss hr out eof hr2
    simp only [buildTree, bind, Except.bind, hr2] at hbt
    rw [hbt] at hok
    simp only [Except.ok.injEq, Prod.mk.injEq] at hok
    obtain ⟨rfl, _, rfl⟩ := hok
    rw [htext, heof rfl, List.take_length]

/-- the builder never fails by itself: the only way `build_tree` can panic on a rooted step
list is a token step that does not fit the token table (`range_text`) or a trivia count that
does not (`eat_n_trivias`), both inside `intersperse_trivia` -/
theorem buildTree_fails_only_in_intersperse (toks : List RawTok) (ss : List Step)
    (hr : rooted ss = true) (e : String) (h : buildTree toks ss = .error e) :
    ∃ e', intersperseTrivia toks ss = .error e' := by
  cases hi : intersperseTrivia toks ss with
  | error e' => exact ⟨e', rfl⟩
  | ok r =>
    obtain ⟨out, eof⟩ := r
    obtain ⟨k, cs, n, hbt, _⟩ := buildTree_spec toks ss hr out eof hi
    rw [hbt] at h; simp at h

/-! non-vacuity: a concrete rooted step list and token table -/
example : rooted [.enter .SOURCE_FILE, .enter .EXPR_STMT, .token .IDENT 1, .token .SEMICOLON 1,
    .exit, .exit] = true := by decide

end Oq3.Props.C02
