/-
C05 (roles): the typed accessors of `oq3_syntax::ast` return the right constituents in the right
roles — and where they do not, exactly what they return instead.

Object of the theorems: `Oq3/Model/Accessors.lean` (+ the generated `Oq3/Gen/Nodes.lean`), the
model of `ast/generated/nodes.rs`, `node_ext.rs`, `expr_ext.rs`, `type_ext.rs`, `traits.rs`, tied
to the real accessors by the correspondence run `vf/acc_corr.py` (model dump = `oq3-run ast` dump
on the implementation's own trees).

Every accessor is first characterised as an EXPLICIT FUNCTION OF THE CHILD LIST of its node
(`*_eq`, proved by unfolding; they hold for ALL trees, well formed or not), then role corollaries
are derived under a shape hypothesis on `n.childNodes` (the child NODES; tokens and trivia between
them are arbitrary), each followed by a non-vacuity `example` on a tree printed by the real parser
(`tools/tree_to_lean.py`, i.e. `oq3-run tree`).

The defect F07 (`IfStmt::{then,else}_branch_*`) and the `AssignmentStmt::identifier` defect
(`a[0] = b;`) are THEOREMS here (`f07_*`, `assign_indexed_lhs_identifier_is_rhs`), not test
observations.
-/
import Oq3.Model.Accessors
import Oq3.Props.C05RolesTrees

namespace Oq3.Props.C05Roles
open Oq3.Gen Oq3.Acc

/-! ## 0. `support::child / children / token` as functions of the child list -/

/-- the child nodes of a castable kind, in source order -/
def castable (can : SyntaxKind → Bool) (n : CNode) : List CNode :=
  n.childNodes.filter (fun c => can c.kind)

theorem filterMap_cast (can : SyntaxKind → Bool) (l : List CNode) :
    l.filterMap (Acc.cast can) = l.filter (fun c => can c.kind) := by
  induction l with
  | nil => rfl
  | cons c cs ih => by_cases h : can c.kind = true <;> simp +decide [Acc.cast, h, ih]

theorem findSome_cast (can : SyntaxKind → Bool) (l : List CNode) :
    l.findSome? (Acc.cast can) = (l.filter (fun c => can c.kind)).head? := by
  induction l with
  | nil => rfl
  | cons c cs ih => by_cases h : can c.kind = true <;> simp +decide [Acc.cast, h, ih]

/-- `support::children::<N>` = ALL child nodes of castable kind, in child order -/
theorem children_eq (can : SyntaxKind → Bool) (n : CNode) :
    support.children can n = castable can n := filterMap_cast can n.childNodes

/-- `support::child::<N>` = the FIRST child node of castable kind -/
theorem child_eq (can : SyntaxKind → Bool) (n : CNode) :
    support.child can n = (castable can n).head? := findSome_cast can n.childNodes

theorem child_eq_find (can : SyntaxKind → Bool) (n : CNode) :
    support.child can n = n.childNodes.find? (fun c => can c.kind) := by
  rw [child_eq, castable, List.head?_filter]

/-- `support::token` = the first child TOKEN of that kind (nodes of the same kind are skipped) -/
theorem token_eq (n : CNode) (k : SyntaxKind) :
    support.token n k = n.childTokens.find? (fun t => t.kind == k) := rfl

/-- the result of `children` preserves child order and multiplicity (it is a sublist) -/
theorem children_sublist (can : SyntaxKind → Bool) (n : CNode) :
    (support.children can n).Sublist n.children := by
  rw [children_eq]
  exact (List.filter_sublist).trans List.filter_sublist

theorem mem_children (can : SyntaxKind → Bool) (n c : CNode) :
    c ∈ support.children can n ↔ c ∈ n.childNodes ∧ can c.kind = true := by
  rw [children_eq, castable, List.mem_filter]

/-- a list accessor over a node all of whose child nodes are castable returns exactly the child
nodes: argument / operand / statement order = child order (instances: `ExpressionList::exprs`,
`QubitList::gate_operands`, `ParamList::params`, `TypedParamList::typed_params`,
`BlockExpr::statements`, `SourceFile::statements`, `ModifiedGateCallExpr::modifiers`, …) -/
theorem children_eq_childNodes (can : SyntaxKind → Bool) (n : CNode)
    (h : ∀ c ∈ n.childNodes, can c.kind = true) : support.children can n = n.childNodes := by
  rw [children_eq, castable, List.filter_eq_self]
  exact h

/-- a child found by `child` is a child node of castable kind -/
theorem child_some (can : SyntaxKind → Bool) (n c : CNode) (h : support.child can n = some c) :
    c ∈ n.childNodes ∧ can c.kind = true := by
  rw [child_eq_find] at h
  exact ⟨List.mem_of_find?_eq_some h, by simpa using List.find?_some h⟩

theorem child_none (can : SyntaxKind → Bool) (n : CNode) :
    support.child can n = none ↔ ∀ c ∈ n.childNodes, can c.kind = false := by
  rw [child_eq_find, List.find?_eq_none]
  simp

/-! ### kind-table facts (the generated enum tables) -/

theorem stmt_expr_disjoint (k : SyntaxKind) :
    ¬ (Stmt.canCast k = true ∧ Expr.canCast k = true) := by
  cases k <;> decide

theorem expr_not_stmt {k : SyntaxKind} (h : Expr.canCast k = true) : Stmt.canCast k = false := by
  cases hs : Stmt.canCast k
  · rfl
  · exact absurd ⟨hs, h⟩ (stmt_expr_disjoint k)

theorem stmt_not_expr {k : SyntaxKind} (h : Stmt.canCast k = true) : Expr.canCast k = false := by
  cases he : Expr.canCast k
  · rfl
  · exact absurd ⟨h, he⟩ (stmt_expr_disjoint k)

/-- the three `GateOperand` kinds are `Expr` kinds too -/
theorem gateOperand_is_expr (k : SyntaxKind) (h : GateOperand.canCast k = true) :
    Expr.canCast k = true := by
  cases k <;> first | rfl | exact absurd h (by decide)

theorem modifier_not_gateCall {k : SyntaxKind} (h : Modifier.canCast k = true) :
    GateCallExpr.canCast k = false ∧ GPhaseCallExpr.canCast k = false := by
  cases k <;> first | exact ⟨rfl, rfl⟩ | exact absurd h (by decide)

abbrev exprs (n : CNode) : List CNode := castable Expr.canCast n
abbrev stmts (n : CNode) : List CNode := castable Stmt.canCast n
abbrev blocks (n : CNode) : List CNode := castable BlockExpr.canCast n

/-- the `i`-th `Expr` child, if it is a block -/
def nthBlock (i : Nat) (n : CNode) : Option CNode :=
  match (exprs n)[i]? with
  | some e => if e.kind = .BLOCK_EXPR then some e else none
  | none => none

/-! ## 1. `IfStmt` -/

theorem if_condition_eq (n : CNode) :
    IfStmt.condition n =
      match exprs n with
      | [] => none
      | [e] => if e.kind = .BLOCK_EXPR then none else some e
      | e :: _ :: _ => some e := by
  unfold IfStmt.condition
  rw [children_eq]
  rcases h : castable Expr.canCast n with _ | ⟨e, _ | ⟨e2, r⟩⟩ <;> simp +decide [Expr.isBlockExpr, exprs, h]

theorem if_then_branch_block_eq (n : CNode) : IfStmt.then_branch_block n = nthBlock 1 n := by
  unfold IfStmt.then_branch_block nthBlock
  rw [children_eq]
  cases (castable Expr.canCast n)[1]? <;> simp +decide [Expr.isBlockExpr]

theorem if_else_branch_block_eq (n : CNode) : IfStmt.else_branch_block n = nthBlock 2 n := by
  unfold IfStmt.else_branch_block nthBlock
  rw [children_eq]
  cases (castable Expr.canCast n)[2]? <;> simp +decide [Expr.isBlockExpr]

/-- `then_branch_stmt` and `else_branch_stmt` are THE SAME function: the first `Stmt` child -/
theorem if_then_stmt_eq_else_stmt (n : CNode) :
    IfStmt.then_branch_stmt n = (stmts n).head? ∧ IfStmt.else_branch_stmt n = (stmts n).head? :=
  ⟨child_eq _ n, child_eq _ n⟩

/-- the "then" role: the 2nd `Expr` child if it is a block, else the first `Stmt` child, else panic -/
theorem if_true_body_eq (n : CNode) :
    IfStmt.true_body_block_or_stmt n =
      match nthBlock 1 n, (stmts n).head? with
      | some b, _ => .ok (.blockExpr b)
      | none, some s => .ok (.stmt s)
      | none, none => .panic := by
  unfold IfStmt.true_body_block_or_stmt
  rw [if_then_branch_block_eq, (if_then_stmt_eq_else_stmt n).1]
  cases nthBlock 1 n <;> cases (stmts n).head? <;> rfl

/-- the "else" role: the 3rd `Expr` child if it is a block, else the first `Stmt` child (!) -/
theorem if_false_body_eq (n : CNode) :
    IfStmt.false_body_block_or_stmt n =
      match nthBlock 2 n, (stmts n).head? with
      | some b, _ => some (.blockExpr b)
      | none, some s => some (.stmt s)
      | none, none => none := by
  unfold IfStmt.false_body_block_or_stmt
  rw [if_else_branch_block_eq, (if_then_stmt_eq_else_stmt n).2]
  cases nthBlock 2 n <;> cases (stmts n).head? <;> rfl

theorem if_true_body_panic_iff (n : CNode) :
    IfStmt.true_body_block_or_stmt n = .panic ↔ nthBlock 1 n = none ∧ stmts n = [] := by
  rw [if_true_body_eq]
  cases nthBlock 1 n <;> rcases stmts n with _ | ⟨s, r⟩ <;> simp

/-- computing `exprs`/`stmts` of a node with known child nodes -/
theorem castable_of (can : SyntaxKind → Bool) (n : CNode) (l : List CNode) (h : n.childNodes = l) :
    castable can n = l.filter (fun c => can c.kind) := by rw [castable, h]

section IfRoles
variable {n c t e s s1 s2 : CNode}

/-- well-formed `if (c) {..} else {..}`: all three roles are right -/
theorem if_roles_block_block (h : n.childNodes = [c, t, e])
    (hc : Expr.canCast c.kind = true)
    (ht : t.kind = .BLOCK_EXPR) (he : e.kind = .BLOCK_EXPR) :
    IfStmt.condition n = some c ∧
    IfStmt.true_body_block_or_stmt n = .ok (.blockExpr t) ∧
    IfStmt.false_body_block_or_stmt n = some (.blockExpr e) := by
  have hx : exprs n = [c, t, e] := by
    rw [exprs, castable_of _ n _ h]; simp +decide [hc, ht, he]
  refine ⟨?_, ?_, ?_⟩
  · rw [if_condition_eq, hx]
  · rw [if_true_body_eq]; simp +decide [nthBlock, hx, ht]
  · rw [if_false_body_eq]; simp +decide [nthBlock, hx, he]

/-- `if (c) {..}` without else: then = the block, else = `None` -/
theorem if_roles_block_only (h : n.childNodes = [c, t])
    (hc : Expr.canCast c.kind = true) (ht : t.kind = .BLOCK_EXPR) :
    IfStmt.condition n = some c ∧
    IfStmt.true_body_block_or_stmt n = .ok (.blockExpr t) ∧
    IfStmt.false_body_block_or_stmt n = none := by
  have hx : exprs n = [c, t] := by
    rw [exprs, castable_of _ n _ h]; simp +decide [hc, ht]
  have hs : stmts n = [] := by
    rw [stmts, castable_of _ n _ h]; simp +decide [expr_not_stmt hc, ht]
  refine ⟨?_, ?_, ?_⟩
  · rw [if_condition_eq, hx]
  · rw [if_true_body_eq]; simp +decide [nthBlock, hx, ht]
  · rw [if_false_body_eq]; simp +decide [nthBlock, hx, hs]

/-- `if (c) {..} else s;`: right -/
theorem if_roles_block_stmt (h : n.childNodes = [c, t, s])
    (hc : Expr.canCast c.kind = true) (ht : t.kind = .BLOCK_EXPR)
    (hs : Stmt.canCast s.kind = true) :
    IfStmt.condition n = some c ∧
    IfStmt.true_body_block_or_stmt n = .ok (.blockExpr t) ∧
    IfStmt.false_body_block_or_stmt n = some (.stmt s) := by
  have hx : exprs n = [c, t] := by
    rw [exprs, castable_of _ n _ h]; simp +decide [hc, ht, stmt_not_expr hs]
  have hst : stmts n = [s] := by
    rw [stmts, castable_of _ n _ h]; simp +decide [expr_not_stmt hc, ht, hs]
  refine ⟨?_, ?_, ?_⟩
  · rw [if_condition_eq, hx]
  · rw [if_true_body_eq]; simp +decide [nthBlock, hx, ht]
  · rw [if_false_body_eq]; simp +decide [nthBlock, hx, hst]

/-- **F07 (a)** `if (c) s; else {..}`: the accessors SWAP the branches — "then" is the else
block, "else" is the then statement -/
theorem f07_swap (h : n.childNodes = [c, s, e])
    (hc : Expr.canCast c.kind = true)
    (hs : Stmt.canCast s.kind = true) (he : e.kind = .BLOCK_EXPR) :
    IfStmt.condition n = some c ∧
    IfStmt.true_body_block_or_stmt n = .ok (.blockExpr e) ∧
    IfStmt.false_body_block_or_stmt n = some (.stmt s) := by
  have hx : exprs n = [c, e] := by
    rw [exprs, castable_of _ n _ h]; simp +decide [hc, he, stmt_not_expr hs]
  have hst : stmts n = [s] := by
    rw [stmts, castable_of _ n _ h]; simp +decide [expr_not_stmt hc, he, hs]
  refine ⟨?_, ?_, ?_⟩
  · rw [if_condition_eq, hx]
  · rw [if_true_body_eq]; simp +decide [nthBlock, hx, he]
  · rw [if_false_body_eq]; simp +decide [nthBlock, hx, hst]

/-- **F07 (b)** `if (c) s1; else s2;`: BOTH roles return the then statement; `s2` is unreachable -/
theorem f07_same (h : n.childNodes = [c, s1, s2])
    (hc : Expr.canCast c.kind = true) (hcb : c.kind ≠ .BLOCK_EXPR)
    (h1 : Stmt.canCast s1.kind = true) (h2 : Stmt.canCast s2.kind = true) :
    IfStmt.condition n = some c ∧
    IfStmt.true_body_block_or_stmt n = .ok (.stmt s1) ∧
    IfStmt.false_body_block_or_stmt n = some (.stmt s1) := by
  have hx : exprs n = [c] := by
    rw [exprs, castable_of _ n _ h]; simp +decide [hc, stmt_not_expr h1, stmt_not_expr h2]
  have hst : stmts n = [s1, s2] := by
    rw [stmts, castable_of _ n _ h]; simp +decide [expr_not_stmt hc, h1, h2]
  refine ⟨?_, ?_, ?_⟩
  · rw [if_condition_eq, hx]; simp +decide [hcb]
  · rw [if_true_body_eq]; simp +decide [nthBlock, hx, hst]
  · rw [if_false_body_eq]; simp +decide [nthBlock, hx, hst]

/-- **F07 (c)** `if (c) s;` WITHOUT else: the statement is returned as the else branch too -/
theorem f07_phantom_else (h : n.childNodes = [c, s])
    (hc : Expr.canCast c.kind = true) (hcb : c.kind ≠ .BLOCK_EXPR)
    (hs : Stmt.canCast s.kind = true) :
    IfStmt.condition n = some c ∧
    IfStmt.true_body_block_or_stmt n = .ok (.stmt s) ∧
    IfStmt.false_body_block_or_stmt n = some (.stmt s) := by
  have hx : exprs n = [c] := by
    rw [exprs, castable_of _ n _ h]; simp +decide [hc, stmt_not_expr hs]
  have hst : stmts n = [s] := by
    rw [stmts, castable_of _ n _ h]; simp +decide [expr_not_stmt hc, hs]
  refine ⟨?_, ?_, ?_⟩
  · rw [if_condition_eq, hx]; simp +decide [hcb]
  · rw [if_true_body_eq]; simp +decide [nthBlock, hx, hst]
  · rw [if_false_body_eq]; simp +decide [nthBlock, hx, hst]

end IfRoles

/-- F07 in general: whenever an `if` has any statement child and no block in third `Expr`
position, the "else" accessor answers with the FIRST statement child — whether or not the source
has an `else` at all (the `else` keyword is never consulted) -/
theorem f07_else_is_first_stmt (n : CNode) (s : CNode) (r : List CNode)
    (hb : nthBlock 2 n = none) (hs : stmts n = s :: r) :
    IfStmt.false_body_block_or_stmt n = some (.stmt s) := by
  rw [if_false_body_eq, hb, hs]; rfl

/-- `if (c) ;` — no block, no statement child: the then accessor panics -/
theorem if_empty_body_panics (n c : CNode) (h : n.childNodes = [c])
    (hc : Expr.canCast c.kind = true) : IfStmt.true_body_block_or_stmt n = .panic := by
  rw [if_true_body_panic_iff]
  constructor
  · simp +decide [nthBlock, exprs, castable_of _ n _ h, hc]
  · rw [stmts, castable_of _ n _ h]; simp +decide [expr_not_stmt hc]

/-! ## 2. `WhileStmt`, `ForStmt` -/

theorem while_condition_eq (n : CNode) : WhileStmt.condition n = IfStmt.condition n := rfl

theorem while_body_eq (n : CNode) : WhileStmt.body n = (blocks n).head? := by
  unfold WhileStmt.body; rw [children_eq]

theorem while_stmt_eq (n : CNode) : WhileStmt.stmt n = (stmts n).head? := by
  unfold WhileStmt.stmt; rw [children_eq]

/-- the loop body: first `BlockExpr` child, else first `Stmt` child, else panic -/
theorem while_block_or_stmt_eq (n : CNode) :
    WhileStmt.block_or_stmt n =
      match (blocks n).head?, (stmts n).head? with
      | some b, _ => .ok (.blockExpr b)
      | none, some s => .ok (.stmt s)
      | none, none => .panic := by
  unfold WhileStmt.block_or_stmt
  rw [while_body_eq, while_stmt_eq]
  cases (blocks n).head? <;> cases (stmts n).head? <;> rfl

theorem while_panic_iff (n : CNode) :
    WhileStmt.block_or_stmt n = .panic ↔ blocks n = [] ∧ stmts n = [] := by
  rw [while_block_or_stmt_eq]
  rcases blocks n with _ | ⟨b, r⟩ <;> rcases stmts n with _ | ⟨s, r'⟩ <;> simp

/-- well-formed `while (c) {..}` -/
theorem while_roles_block {n c t : CNode} (h : n.childNodes = [c, t])
    (hc : Expr.canCast c.kind = true) (hcb : c.kind ≠ .BLOCK_EXPR) (ht : t.kind = .BLOCK_EXPR) :
    WhileStmt.condition n = some c ∧ WhileStmt.block_or_stmt n = .ok (.blockExpr t) := by
  have hx : exprs n = [c, t] := by
    rw [exprs, castable_of _ n _ h]; simp +decide [hc, ht]
  have hbl : blocks n = [t] := by
    rw [blocks, castable_of _ n _ h]; simp +decide [ht, hcb, BlockExpr.canCast]
  refine ⟨?_, ?_⟩
  · rw [while_condition_eq, if_condition_eq, hx]
  · rw [while_block_or_stmt_eq, hbl]; rfl

/-- well-formed `while (c) s;` -/
theorem while_roles_stmt {n c s : CNode} (h : n.childNodes = [c, s])
    (hc : Expr.canCast c.kind = true) (hcb : c.kind ≠ .BLOCK_EXPR)
    (hs : Stmt.canCast s.kind = true) :
    WhileStmt.condition n = some c ∧ WhileStmt.block_or_stmt n = .ok (.stmt s) := by
  have hx : exprs n = [c] := by
    rw [exprs, castable_of _ n _ h]; simp +decide [hc, stmt_not_expr hs]
  have hsb : s.kind ≠ .BLOCK_EXPR := by
    intro hk; rw [hk] at hs; exact absurd hs (by decide)
  have hbl : blocks n = [] := by
    rw [blocks, castable_of _ n _ h]; simp +decide [hcb, hsb, BlockExpr.canCast]
  have hst : stmts n = [s] := by
    rw [stmts, castable_of _ n _ h]; simp +decide [expr_not_stmt hc, hs]
  refine ⟨?_, ?_⟩
  · rw [while_condition_eq, if_condition_eq, hx]; simp +decide [hcb]
  · rw [while_block_or_stmt_eq, hbl, hst]; rfl

theorem for_block_or_stmt_eq (n : CNode) :
    ForStmt.block_or_stmt n =
      match (blocks n).head?, (stmts n).head? with
      | some b, _ => .ok (.blockExpr b)
      | none, some s => .ok (.stmt s)
      | none, none => .panic := by
  unfold ForStmt.block_or_stmt ForStmt.body ForStmt.stmt
  rw [child_eq, child_eq]
  cases (blocks n).head? <;> cases (stmts n).head? <;> rfl

/-- well-formed `for <type> <name> in <iterable> {..}`: every role is the child of its own kind -/
theorem for_roles_block {n ty nm it bl : CNode} (h : n.childNodes = [ty, nm, it, bl])
    (hty : ty.kind = .SCALAR_TYPE) (hnm : nm.kind = .NAME) (hit : it.kind = .FOR_ITERABLE)
    (hbl : bl.kind = .BLOCK_EXPR) :
    ForStmt.scalar_type n = some ty ∧ ForStmt.loop_var n = some nm ∧
    ForStmt.for_iterable n = some it ∧ ForStmt.block_or_stmt n = .ok (.blockExpr bl) := by
  refine ⟨?_, ?_, ?_, ?_⟩
  · unfold ForStmt.scalar_type; rw [child_eq, castable_of _ n _ h]
    simp +decide [hty, ScalarType.canCast]
  · unfold ForStmt.loop_var; rw [child_eq, castable_of _ n _ h]
    simp +decide [hty, hnm, Name.canCast]
  · unfold ForStmt.for_iterable; rw [child_eq, castable_of _ n _ h]
    simp +decide [hty, hnm, hit, ForIterable.canCast]
  · rw [for_block_or_stmt_eq, blocks, castable_of _ n _ h]
    simp +decide [hty, hnm, hit, hbl, BlockExpr.canCast]

/-- well-formed `for <type> <name> in <iterable> s;` -/
theorem for_roles_stmt {n ty nm it s : CNode} (h : n.childNodes = [ty, nm, it, s])
    (hty : ty.kind = .SCALAR_TYPE) (hnm : nm.kind = .NAME) (hit : it.kind = .FOR_ITERABLE)
    (hs : Stmt.canCast s.kind = true) :
    ForStmt.block_or_stmt n = .ok (.stmt s) := by
  have hsb : s.kind ≠ .BLOCK_EXPR := by
    intro hk; rw [hk] at hs; exact absurd hs (by decide)
  rw [for_block_or_stmt_eq, blocks, stmts, castable_of _ n _ h, castable_of _ n _ h]
  simp +decide [hty, hnm, hit, hs, hsb, BlockExpr.canCast]

/-- a range iterable is returned by BOTH `range_expr()` and `for_iterable_expr()` (`RANGE_EXPR`
is an `Expr` kind): the roles of `ForIterable` overlap, a consumer must ask in the right order -/
theorem for_iterable_range_overlap {it r : CNode} (h : it.childNodes = [r])
    (hr : r.kind = .RANGE_EXPR) :
    ForIterable.set_expression it = none ∧ ForIterable.range_expr it = some r ∧
    ForIterable.for_iterable_expr it = some r := by
  refine ⟨?_, ?_, ?_⟩
  · unfold ForIterable.set_expression; rw [child_eq, castable_of _ it _ h]
    simp +decide [hr, SetExpression.canCast]
  · unfold ForIterable.range_expr; rw [child_eq, castable_of _ it _ h]
    simp +decide [hr, RangeExpr.canCast]
  · unfold ForIterable.for_iterable_expr; rw [child_eq, castable_of _ it _ h]
    simp +decide [hr]

/-! ## 3. `RangeExpr::start_step_stop` -/

theorem range_start_step_stop_eq (n : CNode) :
    RangeExpr.start_step_stop n =
      match exprs n with
      | [] => (none, none, none)
      | [a] => (some a, none, none)
      | [a, b] => (some a, none, some b)
      | a :: b :: c :: _ => (some a, some b, some c) := by
  unfold RangeExpr.start_step_stop
  rw [children_eq]
  rcases h : castable Expr.canCast n with _ | ⟨a, _ | ⟨b, _ | ⟨c, r⟩⟩⟩ <;> simp +decide [exprs, h]

/-- `[start:stop]` -/
theorem range_roles_two {n a b : CNode} (h : n.childNodes = [a, b])
    (ha : Expr.canCast a.kind = true) (hb : Expr.canCast b.kind = true) :
    RangeExpr.start_step_stop n = (some a, none, some b) := by
  rw [range_start_step_stop_eq, exprs, castable_of _ n _ h]; simp +decide [ha, hb]

/-- `[start:step:stop]` -/
theorem range_roles_three {n a b c : CNode} (h : n.childNodes = [a, b, c])
    (ha : Expr.canCast a.kind = true) (hb : Expr.canCast b.kind = true)
    (hc : Expr.canCast c.kind = true) :
    RangeExpr.start_step_stop n = (some a, some b, some c) := by
  rw [range_start_step_stop_eq, exprs, castable_of _ n _ h]; simp +decide [ha, hb, hc]

/-- with a single operand the accessor cannot tell `a:` from `:a`: it is always `start` -/
theorem range_roles_one {n a : CNode} (h : n.childNodes = [a])
    (ha : Expr.canCast a.kind = true) :
    RangeExpr.start_step_stop n = (some a, none, none) := by
  rw [range_start_step_stop_eq, exprs, castable_of _ n _ h]; simp +decide [ha]

/-! ## 4. `BinExpr`, `PrefixExpr` -/

theorem bin_lhs_eq (n : CNode) : BinExpr.lhs n = (exprs n)[0]? := by
  unfold BinExpr.lhs; rw [children_eq, List.head?_eq_getElem?]

theorem bin_rhs_eq (n : CNode) : BinExpr.rhs n = (exprs n)[1]? := by
  unfold BinExpr.rhs; rw [children_eq]

/-- the operator: the first child TOKEN whose kind is in the operator table -/
theorem bin_op_details_eq (n : CNode) :
    BinExpr.op_details n =
      (n.childTokens.find? (fun c => (binaryOpOfKind c.kind).isSome)).bind
        (fun c => (binaryOpOfKind c.kind).map (fun op => (c, op))) := by
  unfold BinExpr.op_details
  induction n.childTokens with
  | nil => rfl
  | cons c cs ih =>
    cases hk : binaryOpOfKind c.kind <;> simp +decide [hk, ih]

/-- `l <op> r` -/
theorem bin_roles {n l r : CNode} (h : n.childNodes = [l, r])
    (hl : Expr.canCast l.kind = true) (hr : Expr.canCast r.kind = true) :
    BinExpr.lhs n = some l ∧ BinExpr.rhs n = some r := by
  rw [bin_lhs_eq, bin_rhs_eq, exprs, castable_of _ n _ h]; simp +decide [hl, hr]

/-- the tokens before the operator token are not operators (trivia, parentheses never are) -/
theorem bin_op_kind_of_tokens {n t : CNode} {pre post : List CNode} {op : Oq3.Ast.BinaryOp}
    (h : n.childTokens = pre ++ t :: post)
    (hpre : ∀ c ∈ pre, binaryOpOfKind c.kind = none) (ht : binaryOpOfKind t.kind = some op) :
    BinExpr.op_kind n = some op ∧ BinExpr.op_token n = some t := by
  have : BinExpr.op_details n = some (t, op) := by
    unfold BinExpr.op_details
    rw [h, List.findSome?_append]
    have : pre.findSome? (fun c => (binaryOpOfKind c.kind).map (fun op => (c, op))) = none := by
      rw [List.findSome?_eq_none_iff]; intro c hc; simp +decide [hpre c hc]
    simp +decide [this, ht]
  simp +decide [BinExpr.op_kind, BinExpr.op_token, this]

theorem prefix_op_kind_eq (n : CNode) :
    PrefixExpr.op_kind n =
      match n.children with
      | .token .BANG _ _ _ :: _ => some .logicNot
      | .token .TILDE _ _ _ :: _ => some .not
      | .token .MINUS _ _ _ :: _ => some .neg
      | _ => none := by
  unfold PrefixExpr.op_kind PrefixExpr.op_token
  rcases n.children with _ | ⟨c, r⟩
  · rfl
  · cases c with
    | node k s e cs => rfl
    | token k s e t => cases k <;> rfl

/-! ## 5. `IndexExpr`, `IndexedIdentifier` -/

theorem index_expr_eq (n : CNode) : IndexExpr.expr n = (exprs n).head? := child_eq _ n

theorem index_operator_eq (n : CNode) :
    IndexExpr.index_operator n = (castable IndexOperator.canCast n).head? := child_eq _ n

/-- `base[..]` -/
theorem index_roles {n base op : CNode} (h : n.childNodes = [base, op])
    (hb : Expr.canCast base.kind = true) (ho : op.kind = .INDEX_OPERATOR) :
    IndexExpr.expr n = some base ∧ IndexExpr.index_operator n = some op := by
  have hbo : base.kind ≠ .INDEX_OPERATOR := by
    intro hk; rw [hk] at hb; exact absurd hb (by decide)
  rw [index_expr_eq, index_operator_eq, exprs, castable_of _ n _ h, castable_of _ n _ h]
  simp +decide [hb, ho, hbo, IndexOperator.canCast]

/-- an `INDEX_EXPR` exposes ONE index operator: were a tree to carry two under one node
(`base[i][j]` flattened), the second would be invisible through the typed accessors.  (The real
parser nests instead — `indexNested` below.) -/
theorem index_second_operator_invisible {n base o1 o2 : CNode} (h : n.childNodes = [base, o1, o2])
    (hb : Expr.canCast base.kind = true) (h1 : o1.kind = .INDEX_OPERATOR)
    (_h2 : o2.kind = .INDEX_OPERATOR) :
    IndexExpr.expr n = some base ∧ IndexExpr.index_operator n = some o1 := by
  have hbo : base.kind ≠ .INDEX_OPERATOR := by
    intro hk; rw [hk] at hb; exact absurd hb (by decide)
  rw [index_expr_eq, index_operator_eq, exprs, castable_of _ n _ h, castable_of _ n _ h]
  simp +decide [hb, h1, hbo, IndexOperator.canCast]

/-- `name[..][..]…`: the identifier and ALL index operators, in order -/
theorem indexed_identifier_roles {n i : CNode} {ops : List CNode} (h : n.childNodes = i :: ops)
    (hi : i.kind = .IDENTIFIER) (hops : ∀ o ∈ ops, o.kind = .INDEX_OPERATOR) :
    IndexedIdentifier.identifier n = some i ∧ IndexedIdentifier.index_operators n = ops := by
  constructor
  · unfold IndexedIdentifier.identifier
    rw [child_eq, castable_of _ n _ h]; simp +decide [hi, Identifier.canCast]
  · unfold IndexedIdentifier.index_operators
    rw [children_eq, castable_of _ n _ h]
    simp only [List.filter_cons, hi, IndexOperator.canCast]
    simp only [show (SyntaxKind.IDENTIFIER == SyntaxKind.INDEX_OPERATOR) = false from rfl]
    simp only [Bool.false_eq_true, if_false, List.filter_eq_self]
    intro o ho; simp +decide [hops o ho]

/-! ## 6. `AssignmentStmt` -/

/-- `identifier()` = the first `IDENTIFIER` child NODE, wherever it stands -/
theorem assign_identifier_eq (n : CNode) :
    AssignmentStmt.identifier n = n.childNodes.find? (fun c => c.kind == .IDENTIFIER) := by
  unfold AssignmentStmt.identifier; rw [child_eq_find]; rfl

theorem assign_rhs_eq (n : CNode) :
    AssignmentStmt.rhs n =
      match exprs n with
      | [] => none
      | [a] => some a
      | _ :: b :: _ => some b := by
  unfold AssignmentStmt.rhs
  rw [children_eq]
  rcases h : castable Expr.canCast n with _ | ⟨a, _ | ⟨b, r⟩⟩ <;> simp +decide [exprs, h]

/-- `name = e;` -/
theorem assign_roles_plain {n a e : CNode} (h : n.childNodes = [a, e])
    (ha : a.kind = .IDENTIFIER) (he : Expr.canCast e.kind = true)
    (hei : e.kind ≠ .INDEXED_IDENTIFIER) :
    AssignmentStmt.identifier n = some a ∧ AssignmentStmt.rhs n = some e ∧
    AssignmentStmt.indexed_identifier n = none := by
  refine ⟨?_, ?_, ?_⟩
  · rw [assign_identifier_eq, h]; simp +decide [ha]
  · rw [assign_rhs_eq, exprs, castable_of _ n _ h]; simp +decide [ha, he]
  · unfold AssignmentStmt.indexed_identifier
    rw [child_eq, castable_of _ n _ h]; simp +decide [ha, hei, IndexedIdentifier.canCast]

/-- **the `a[0] = b;` defect**: with an indexed left-hand side and an identifier on the right,
`identifier()` — which the semantic pass reads as "the LHS is an identifier" — returns the
RIGHT-hand side; so does `rhs()` -/
theorem assign_indexed_lhs_identifier_is_rhs {n ii r : CNode} (h : n.childNodes = [ii, r])
    (hii : ii.kind = .INDEXED_IDENTIFIER) (hr : r.kind = .IDENTIFIER) :
    AssignmentStmt.identifier n = some r ∧ AssignmentStmt.rhs n = some r ∧
    AssignmentStmt.indexed_identifier n = some ii := by
  refine ⟨?_, ?_, ?_⟩
  · rw [assign_identifier_eq, h]; simp +decide [hii, hr]
  · rw [assign_rhs_eq, exprs, castable_of _ n _ h]; simp +decide [hii, hr]
  · unfold AssignmentStmt.indexed_identifier
    rw [child_eq, castable_of _ n _ h]; simp +decide [hii, IndexedIdentifier.canCast]

/-- with an indexed LHS and a NON-identifier RHS the roles are right -/
theorem assign_roles_indexed {n ii e : CNode} (h : n.childNodes = [ii, e])
    (hii : ii.kind = .INDEXED_IDENTIFIER) (he : Expr.canCast e.kind = true)
    (hei : e.kind ≠ .IDENTIFIER) :
    AssignmentStmt.identifier n = none ∧ AssignmentStmt.rhs n = some e ∧
    AssignmentStmt.indexed_identifier n = some ii := by
  refine ⟨?_, ?_, ?_⟩
  · rw [assign_identifier_eq, h]; simp +decide [hii, hei]
  · rw [assign_rhs_eq, exprs, castable_of _ n _ h]; simp +decide [hii, he]
  · unfold AssignmentStmt.indexed_identifier
    rw [child_eq, castable_of _ n _ h]; simp +decide [hii, IndexedIdentifier.canCast]

/-- `x = a[0];`: `indexed_identifier()` returns the RIGHT-hand side (harmless for the present
semantic pass, which asks `identifier()` first) -/
theorem assign_rhs_indexed_is_indexed_identifier {n a ii : CNode} (h : n.childNodes = [a, ii])
    (ha : a.kind = .IDENTIFIER) (hii : ii.kind = .INDEXED_IDENTIFIER) :
    AssignmentStmt.identifier n = some a ∧ AssignmentStmt.rhs n = some ii ∧
    AssignmentStmt.indexed_identifier n = some ii := by
  refine ⟨?_, ?_, ?_⟩
  · rw [assign_identifier_eq, h]; simp +decide [ha]
  · rw [assign_rhs_eq, exprs, castable_of _ n _ h]; simp +decide [ha, hii]
  · unfold AssignmentStmt.indexed_identifier
    rw [child_eq, castable_of _ n _ h]; simp +decide [ha, hii, IndexedIdentifier.canCast]

/-- `x = ();` — a right-hand side that is not an `Expr` kind (`TUPLE_EXPR`): `rhs()` returns the
LEFT-hand side -/
theorem assign_non_expr_rhs_is_lhs {n a t : CNode} (h : n.childNodes = [a, t])
    (ha : a.kind = .IDENTIFIER) (ht : Expr.canCast t.kind = false) :
    AssignmentStmt.rhs n = some a := by
  rw [assign_rhs_eq, exprs, castable_of _ n _ h]; simp +decide [ha, ht]

/-! ## 7. `Gate`, `Def` -/

abbrev paramLists (n : CNode) : List CNode := castable ParamList.canCast n

theorem gate_params_eq (n : CNode) :
    (Gate.angle_params n, Gate.qubit_params n) =
      match paramLists n with
      | [] => (none, none)
      | [q] => (none, some q)
      | a :: q :: _ => (some a, some q) := by
  unfold Gate.angle_params Gate.qubit_params Gate.angles_and_or_qubits
  rw [children_eq]
  rcases h : castable ParamList.canCast n with _ | ⟨a, _ | ⟨q, r⟩⟩ <;> simp +decide [paramLists, h]

/-- `gate name(angles) qubits {..}` -/
theorem gate_roles_two {n nm a q b : CNode} (h : n.childNodes = [nm, a, q, b])
    (hn : nm.kind = .NAME) (ha : a.kind = .PARAM_LIST) (hq : q.kind = .PARAM_LIST)
    (hb : b.kind = .BLOCK_EXPR) :
    Gate.name n = some nm ∧ Gate.angle_params n = some a ∧ Gate.qubit_params n = some q ∧
    Gate.body n = some b := by
  have hp : paramLists n = [a, q] := by
    rw [paramLists, castable_of _ n _ h]; simp +decide [hn, ha, hq, hb, ParamList.canCast]
  have := gate_params_eq n
  rw [hp] at this
  refine ⟨?_, (Prod.mk.inj this).1, (Prod.mk.inj this).2, ?_⟩
  · unfold Gate.name; rw [child_eq, castable_of _ n _ h]; simp +decide [hn, Name.canCast]
  · unfold Gate.body; rw [child_eq, castable_of _ n _ h]
    simp +decide [hn, ha, hq, hb, BlockExpr.canCast]

/-- `gate name qubits {..}`: the single parameter list is the QUBIT list -/
theorem gate_roles_one {n nm q b : CNode} (h : n.childNodes = [nm, q, b])
    (hn : nm.kind = .NAME) (hq : q.kind = .PARAM_LIST) (hb : b.kind = .BLOCK_EXPR) :
    Gate.name n = some nm ∧ Gate.angle_params n = none ∧ Gate.qubit_params n = some q ∧
    Gate.body n = some b := by
  have hp : paramLists n = [q] := by
    rw [paramLists, castable_of _ n _ h]; simp +decide [hn, hq, hb, ParamList.canCast]
  have := gate_params_eq n
  rw [hp] at this
  refine ⟨?_, (Prod.mk.inj this).1, (Prod.mk.inj this).2, ?_⟩
  · unfold Gate.name; rw [child_eq, castable_of _ n _ h]; simp +decide [hn, Name.canCast]
  · unfold Gate.body; rw [child_eq, castable_of _ n _ h]
    simp +decide [hn, hq, hb, BlockExpr.canCast]

/-- `def name(params) -> type {..}` -/
theorem def_roles {n nm ps rs b : CNode} (h : n.childNodes = [nm, ps, rs, b])
    (hn : nm.kind = .NAME) (hp : ps.kind = .TYPED_PARAM_LIST) (hr : rs.kind = .RETURN_SIGNATURE)
    (hb : b.kind = .BLOCK_EXPR) :
    Def.name n = some nm ∧ Def.typed_param_list n = some ps ∧
    Def.return_signature n = some rs ∧ Def.body n = some b := by
  refine ⟨?_, ?_, ?_, ?_⟩
  · unfold Def.name; rw [child_eq, castable_of _ n _ h]; simp +decide [hn, Name.canCast]
  · unfold Def.typed_param_list; rw [child_eq, castable_of _ n _ h]
    simp +decide [hn, hp, TypedParamList.canCast]
  · unfold Def.return_signature; rw [child_eq, castable_of _ n _ h]
    simp +decide [hn, hp, hr, ReturnSignature.canCast]
  · unfold Def.body; rw [child_eq, castable_of _ n _ h]
    simp +decide [hn, hp, hr, hb, BlockExpr.canCast]

/-! ## 8. gate calls, modifiers, argument and operand lists -/

theorem gate_call_identifier_eq (n : CNode) :
    GateCallExpr.identifier n =
      match (exprs n).head? with
      | some e => if e.kind = .IDENTIFIER then some e else none
      | none => none := by
  unfold GateCallExpr.identifier
  rw [children_eq]
  cases (castable Expr.canCast n).head? <;> simp

/-- `name(args) qubits` -/
theorem gate_call_roles {n g al ql : CNode} (h : n.childNodes = [g, al, ql])
    (hg : g.kind = .IDENTIFIER) (ha : al.kind = .ARG_LIST) (hq : ql.kind = .QUBIT_LIST) :
    GateCallExpr.identifier n = some g ∧ GateCallExpr.arg_list n = some al ∧
    GateCallExpr.qubit_list n = some ql := by
  refine ⟨?_, ?_, ?_⟩
  · rw [gate_call_identifier_eq, exprs, castable_of _ n _ h]; simp +decide [hg]
  · unfold GateCallExpr.arg_list; rw [child_eq, castable_of _ n _ h]
    simp +decide [hg, ha, ArgList.canCast]
  · unfold GateCallExpr.qubit_list; rw [child_eq, castable_of _ n _ h]
    simp +decide [hg, ha, hq, QubitList.canCast]

/-- `m₁ @ m₂ @ … g`: the modifiers in source order, then the call -/
theorem modified_call_roles {n g : CNode} {ms : List CNode} (h : n.childNodes = ms ++ [g])
    (hms : ∀ m ∈ ms, Modifier.canCast m.kind = true) (hg : g.kind = .GATE_CALL_EXPR) :
    ModifiedGateCallExpr.modifiers n = ms ∧ ModifiedGateCallExpr.gate_call_expr n = some g ∧
    ModifiedGateCallExpr.g_phase_call_expr n = none := by
  refine ⟨?_, ?_, ?_⟩
  · unfold ModifiedGateCallExpr.modifiers
    rw [children_eq, castable_of _ n _ h, List.filter_append]
    have : ms.filter (fun c => Modifier.canCast c.kind) = ms := List.filter_eq_self.mpr hms
    simp +decide [this, hg]
  · unfold ModifiedGateCallExpr.gate_call_expr
    rw [child_eq, castable_of _ n _ h, List.filter_append]
    have : ms.filter (fun c => GateCallExpr.canCast c.kind) = [] := by
      rw [List.filter_eq_nil_iff]; intro m hm; simp +decide [(modifier_not_gateCall (hms m hm)).1]
    rw [this]; simp +decide [hg, GateCallExpr.canCast]
  · unfold ModifiedGateCallExpr.g_phase_call_expr
    rw [child_eq, castable_of _ n _ h, List.filter_append]
    have : ms.filter (fun c => GPhaseCallExpr.canCast c.kind) = [] := by
      rw [List.filter_eq_nil_iff]; intro m hm; simp +decide [(modifier_not_gateCall (hms m hm)).2]
    rw [this]; simp +decide [hg, GPhaseCallExpr.canCast]

/-- argument order = child order -/
theorem expression_list_order {n : CNode} (h : ∀ c ∈ n.childNodes, Expr.canCast c.kind = true) :
    ExpressionList.exprs n = n.childNodes := children_eq_childNodes _ n h

/-- operand order = child order -/
theorem qubit_list_order {n : CNode} (h : ∀ c ∈ n.childNodes, GateOperand.canCast c.kind = true) :
    QubitList.gate_operands n = n.childNodes := children_eq_childNodes _ n h

theorem param_list_order {n : CNode} (h : ∀ c ∈ n.childNodes, c.kind = .PARAM) :
    ParamList.params n = n.childNodes :=
  children_eq_childNodes _ n (fun c hc => by simp +decide [Param.canCast, h c hc])

theorem block_statements_order {n : CNode} (h : ∀ c ∈ n.childNodes, Stmt.canCast c.kind = true) :
    BlockExpr.statements n = n.childNodes ∧ SourceFile.statements n = n.childNodes :=
  ⟨children_eq_childNodes _ n h, children_eq_childNodes _ n h⟩

/-- `ArgList::expression_list` / `ArgList` is transparent: one `EXPRESSION_LIST` child -/
theorem arg_list_roles {n el : CNode} (h : n.childNodes = [el]) (he : el.kind = .EXPRESSION_LIST) :
    ArgList.expression_list n = some el := by
  unfold ArgList.expression_list; rw [child_eq, castable_of _ n _ h]
  simp +decide [he, ExpressionList.canCast]

/-! ## 9. tokens: `Literal::kind`, `ScalarType::kind`, text accessors -/

/-- `Literal::token` / `ScalarType::token` / `FilePath::token`: panics iff the first non-trivia
child is missing or is a node -/
theorem firstNonTriviaToken_eq (n : CNode) :
    firstNonTriviaToken n =
      match n.children.find? (fun e => !e.kind.isTrivia) with
      | some (.token k s e t) => .ok (.token k s e t)
      | _ => .panic := by
  unfold firstNonTriviaToken
  cases n.children.find? (fun e => !e.kind.isTrivia) with
  | none => rfl
  | some c => cases c <;> rfl

/-- a literal whose first non-trivia child is an `INT_NUMBER` token -/
theorem literal_kind_int {n t : CNode} {pre post : List CNode} (h : n.children = pre ++ t :: post)
    (hpre : ∀ c ∈ pre, c.kind.isTrivia = true) (ht : t.isToken = true)
    (hk : t.kind = .INT_NUMBER) : Literal.kind n = .ok (.intNumber t) := by
  have hf : n.children.find? (fun e => !e.kind.isTrivia) = some t := by
    have : pre.find? (fun e => !e.kind.isTrivia) = none := by
      rw [List.find?_eq_none]; intro c hc; simp +decide [hpre c hc]
    rw [h, List.find?_append, this]
    simp +decide [hk]
  unfold Literal.kind Literal.token firstNonTriviaToken
  rw [hf]; simp +decide [ht, hk]

/-- the text of `Name` / `Identifier` / `HardwareQubit` / `Param`: the text of the FIRST child,
which must be a token (else panic) -/
theorem text_eq (n : CNode) :
    HasTextNode.text n =
      match n.children with
      | .token _ _ _ t :: _ => .ok t
      | _ => .panic := by
  unfold HasTextNode.text textOfFirstToken
  rcases n.children with _ | ⟨c, r⟩
  · rfl
  · cases c <;> rfl

/-! ## 10. non-vacuity: every theorem above instantiated on a tree printed by the real parser

(`W.*` are generated from `oq3-run tree` output, see `C05RolesTrees.lean`, where each whole tree
also carries the checked equation `Dump.program tree = <the real oq3-run ast line>`.)
The shape hypotheses are discharged by `rfl` (the child nodes are computed), the kind hypotheses
by `decide`. -/

section NonVacuity
open W

/-- `if (c) {a;} else {b;}`: condition `c`, then `{a;}`, else `{b;}` -/
example : IfStmt.condition ifBlockBlock = ifBlockBlock.sub [3] ∧
    IfStmt.true_body_block_or_stmt ifBlockBlock = .ok (.blockExpr ((ifBlockBlock.sub [6]).get!)) ∧
    IfStmt.false_body_block_or_stmt ifBlockBlock = some (.blockExpr ((ifBlockBlock.sub [10]).get!)) :=
  if_roles_block_block (n := ifBlockBlock) rfl (by decide) (by decide) (by decide)

example := if_roles_block_only (n := ifBlockOnly) rfl (by decide) (by decide)
example : IfStmt.false_body_block_or_stmt ifBlockOnly = none := by decide

example := if_roles_block_stmt (n := ifBlockStmt) rfl (by decide) (by decide) (by decide)

/-- **F07 (a) on the real tree of `if (c) a; else {b;}`**: "then" = the block `{b;}` at bytes
15..19 (the ELSE branch), "else" = the statement `a;` at bytes 7..9 (the THEN branch) -/
example : IfStmt.true_body_block_or_stmt ifStmtBlock = .ok (.blockExpr ((ifStmtBlock.sub [10]).get!)) ∧
    IfStmt.false_body_block_or_stmt ifStmtBlock = some (.stmt ((ifStmtBlock.sub [6]).get!)) ∧
    ((ifStmtBlock.sub [10]).get!).start = 15 ∧ ((ifStmtBlock.sub [6]).get!).start = 7 := by decide
example := f07_swap (n := ifStmtBlock) rfl (by decide) (by decide) (by decide)

/-- **F07 (b) on the real tree of `if (c) a; else b;`**: both roles = `a;` (bytes 7..9); the else
statement `b;` (bytes 15..17) is returned by no accessor -/
example : IfStmt.true_body_block_or_stmt ifStmtStmt = .ok (.stmt ((ifStmtStmt.sub [6]).get!)) ∧
    IfStmt.false_body_block_or_stmt ifStmtStmt = some (.stmt ((ifStmtStmt.sub [6]).get!)) ∧
    ((ifStmtStmt.sub [6]).get!).start = 7 ∧ ((ifStmtStmt.sub [10]).get!).start = 15 := by decide
example := f07_same (n := ifStmtStmt) rfl (by decide) (by decide) (by decide) (by decide)

/-- **F07 (c) on the real tree of `if (c) a;`**: an else branch appears out of nothing -/
example : IfStmt.false_body_block_or_stmt ifStmtOnly = some (.stmt ((ifStmtOnly.sub [6]).get!)) ∧
    support.token ifStmtOnly .ELSE_KW = none := by decide
example := f07_phantom_else (n := ifStmtOnly) rfl (by decide) (by decide) (by decide)
example := f07_else_is_first_stmt ifStmtOnly _ _ (by decide) rfl

/-- `if (c) ;` is accepted without a syntax error and the accessor panics -/
example : IfStmt.true_body_block_or_stmt ifEmpty = .panic := if_empty_body_panics ifEmpty _ rfl (by decide)
example : (if_true_body_panic_iff ifEmpty).mp (by decide) = ⟨by decide, by decide⟩ := rfl

example := while_roles_block (n := whileBlock) rfl (by decide) (by decide) (by decide)
example := while_roles_stmt (n := whileStmt) rfl (by decide) (by decide) (by decide)
example : WhileStmt.block_or_stmt whileEmpty = .panic := (while_panic_iff whileEmpty).mpr (by decide)

example := for_roles_block (n := forRange) rfl (by decide) (by decide) (by decide) (by decide)
example := for_roles_stmt (n := forStep) rfl (by decide) (by decide) (by decide) (by decide)
example := for_iterable_range_overlap (it := forIter) rfl (by decide)

/-- `[0:3]`: (start, step, stop) = (`0`, none, `3`) -/
example : RangeExpr.start_step_stop range2 = (range2.sub [1], none, range2.sub [3]) :=
  range_roles_two (n := range2) rfl (by decide) (by decide)
/-- `[0:2:8]`: (start, step, stop) = (`0`, `2`, `8`) -/
example : RangeExpr.start_step_stop range3 = (range3.sub [1], range3.sub [3], range3.sub [5]) :=
  range_roles_three (n := range3) rfl (by decide) (by decide) (by decide)

/-- `a + b` -/
example : BinExpr.lhs binAdd = binAdd.sub [0] ∧ BinExpr.rhs binAdd = binAdd.sub [4] :=
  bin_roles (n := binAdd) rfl (by decide) (by decide)
example : BinExpr.op_kind binAdd = some (.arithOp .add) ∧ BinExpr.op_token binAdd = binAdd.sub [2] :=
  bin_op_kind_of_tokens (n := binAdd) (pre := [_]) (post := [_]) rfl (by decide) rfl
example : PrefixExpr.op_kind prefixNeg = some .neg := by rw [prefix_op_kind_eq]; rfl

/-- `(a)[0][1]` is NESTED by the real parser: the outer `INDEX_EXPR` has base = the inner
`INDEX_EXPR` and operator `[1]`; the inner one has base `(a)` and operator `[0]` -/
example : IndexExpr.expr indexNested = some indexInner ∧
    IndexExpr.index_operator indexNested = indexNested.sub [1] ∧
    IndexExpr.expr indexInner = indexInner.sub [0] ∧
    IndexExpr.index_operator indexInner = indexInner.sub [1] :=
  ⟨(index_roles (n := indexNested) rfl (by decide) (by decide)).1,
   (index_roles (n := indexNested) rfl (by decide) (by decide)).2,
   (index_roles (n := indexInner) rfl (by decide) (by decide)).1,
   (index_roles (n := indexInner) rfl (by decide) (by decide)).2⟩

/-- `a[0][1]` as an `INDEXED_IDENTIFIER`: identifier `a`, operators `[0]`, `[1]` in order -/
example : IndexedIdentifier.identifier indexedTwo = indexedTwo.sub [0] ∧
    IndexedIdentifier.index_operators indexedTwo = [(indexedTwo.sub [1]).get!, (indexedTwo.sub [2]).get!] :=
  indexed_identifier_roles (n := indexedTwo) rfl (by decide) (by decide)

example := assign_roles_plain (n := assignPlain) rfl (by decide) (by decide) (by decide)

/-- **the defect on the real tree of `a[0] = b;`**: `identifier()` = `b` (bytes 7..8), the RHS -/
example : AssignmentStmt.identifier assignIndexed = assignIndexed.sub [4] ∧
    AssignmentStmt.rhs assignIndexed = assignIndexed.sub [4] ∧
    ((assignIndexed.sub [4]).get!).start = 7 := by decide
example := assign_indexed_lhs_identifier_is_rhs (n := assignIndexed) rfl (by decide) (by decide)
example := assign_roles_indexed (n := assignIndexedLit) rfl (by decide) (by decide) (by decide)
example := assign_rhs_indexed_is_indexed_identifier (n := assignFromIndexed) rfl (by decide) (by decide)
/-- `x = ();`: `rhs()` = `x` -/
example : AssignmentStmt.rhs assignTuple = assignTuple.sub [0] :=
  assign_non_expr_rhs_is_lhs (n := assignTuple) rfl (by decide) (by decide)

example := gate_roles_two (n := gateTwo) rfl (by decide) (by decide) (by decide) (by decide)
example := gate_roles_one (n := gateOne) rfl (by decide) (by decide) (by decide)
example : Gate.angle_params gateOne = none ∧ Gate.qubit_params gateOne = gateOne.sub [4] := by decide
example := def_roles (n := defFull) rfl (by decide) (by decide) (by decide) (by decide)

example := gate_call_roles (n := gateCallArgs) rfl (by decide) (by decide) (by decide)
/-- `inv @ pow(2) @ x q, r`: modifiers = [inv, pow(2)] in source order -/
example : ModifiedGateCallExpr.modifiers modCall = [(modCall.sub [0]).get!, (modCall.sub [2]).get!] ∧
    ModifiedGateCallExpr.gate_call_expr modCall = modCall.sub [4] ∧
    ModifiedGateCallExpr.g_phase_call_expr modCall = none :=
  modified_call_roles (n := modCall) (ms := [_, _]) rfl (by decide) (by decide)
example : ExpressionList.exprs exprList = exprList.childNodes ∧ exprList.childNodes.length = 2 :=
  ⟨expression_list_order (by decide), by decide⟩
example : QubitList.gate_operands qubitList = qubitList.childNodes ∧ qubitList.childNodes.length = 2 :=
  ⟨qubit_list_order (by decide), by decide⟩
example := param_list_order (n := (gateTwo.sub [5]).get!) (by decide)
example := block_statements_order (n := ifBlockBlockFile) (by decide)
example := arg_list_roles (n := argList) rfl (by decide)
example : Literal.kind litInt = .ok (.intNumber ((litInt.sub [0]).get!)) :=
  literal_kind_int (n := litInt) (pre := []) (post := []) rfl (by decide) (by decide) (by decide)
example : HasTextNode.text ((assignPlain.sub [0]).get!) = .ok ['a'] := by rw [text_eq]; rfl

/-- generic facts on a real tree: the children found are a sublist of the child list -/
example := children_sublist Stmt.canCast ifBlockBlockFile
example : support.child Name.canCast gateTwo = gateTwo.sub [2] := by decide

/-! ### the defects, end to end on the dump: what `oq3-run ast` prints for the real trees

(the same equations are checked for every witness tree in `C05RolesTrees.lean`; these four are
named because they ARE the findings F07 and "assign-self") -/

/-- `if (c) a; else {b;}` → `(IfStmt .. c (BosBlock {b;}) (BosStmt a;))` -/
theorem f07_swap_dump : Dump.program W.ifStmtBlockFile =
    "(Program 0 19 ((IfStmt 0 19 (Identifier 4 5 x63) (BosBlock (BlockExpr 15 19 ((ExprStmt 16 18 (Identifier 16 17 x62))))) (BosStmt (ExprStmt 7 9 (Identifier 7 8 x61))))))" := by
  decide +kernel

/-- `if (c) a; else b;` → `(IfStmt .. c (BosStmt a;) (BosStmt a;))` -/
theorem f07_same_dump : Dump.program W.ifStmtStmtFile =
    "(Program 0 17 ((IfStmt 0 17 (Identifier 4 5 x63) (BosStmt (ExprStmt 7 9 (Identifier 7 8 x61))) (BosStmt (ExprStmt 7 9 (Identifier 7 8 x61))))))" := by
  decide +kernel

/-- `if (c) a;` → `(IfStmt .. c (BosStmt a;) (BosStmt a;))` -/
theorem f07_phantom_else_dump : Dump.program W.ifStmtOnlyFile =
    "(Program 0 9 ((IfStmt 0 9 (Identifier 4 5 x63) (BosStmt (ExprStmt 7 9 (Identifier 7 8 x61))) (BosStmt (ExprStmt 7 9 (Identifier 7 8 x61))))))" := by
  decide +kernel

/-- `a[0] = b;` → `(AssignmentStmt .. (Identifier b) (Identifier b) (IndexedIdentifier a[0]))` -/
theorem assign_indexed_dump : Dump.program W.assignIndexedFile =
    "(Program 0 9 ((AssignmentStmt 0 9 (Identifier 7 8 x62) (Identifier 7 8 x62) (IndexedIdentifier 0 4 (Identifier 0 1 x61) ((IndexOperator 1 4 (ExpressionList 2 3 ((Literal 2 3 (IntNumber x30 0))))))))))" := by
  decide +kernel

end NonVacuity

end Oq3.Props.C05Roles
