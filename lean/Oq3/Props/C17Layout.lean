/-
C17 (layout invariance) — the middle of the chain, as theorems.

  text ──lexer──▶ raw tokens ──(to_input; parser)──▶ steps ──builder──▶ tree (I4)
       ──typed accessors──▶ typed AST (I5) ──semantic pass──▶ graph, symbols, diagnostics (I6)

Known ends: `Oq3.Props.C15.trivia_irrelevant` (two layouts of one lexeme list give the same
non-trivia raw tokens), the parser is a function of the non-trivia kinds and jointness, and
`Oq3.C17.span_irrelevant` (the pass commutes with erasing text ranges).  This file:

1. `accessors_blind` — the typed accessors are blind to trivia and to ranges:
   `Build.program (eraseTrivia t) = (Build.program t).map eraseSpans`, where `Build.program`
   (`Lemmas/AccBuild.lean`) is the accessor layer with a structured result of the type
   `Ast.Program` that the semantic model consumes, and `eraseTrivia` drops every
   WHITESPACE/COMMENT token and zeroes every range.
   Hypothesis `rootHeadOk t`: no `Name`/`Identifier`/`HardwareQubit`/`Param`/`PragmaStatement`/
   `AnnotationStatement`/`PrefixExpr` node starts with a trivia token — `text_of_first_token`
   and `PrefixExpr::op_token` are the only accessors that read a child without skipping trivia.
   (Accessors read token TEXTS and kinds, never ranges; `pragma_text` slices the text, not the
   source.  Ranges enter I5 only as the `span` fields, which `eraseSpans` erases.)
2. `builder_blind` — `build_tree` is blind to trivia: same non-trivia raw tokens and same steps ⇒
   the two trees agree after `eraseTriviaT`.  Hypothesis `glueOk`: a composite token step does not
   swallow a trivia token (necessary: `glue_needed`).
   `builder_headOk`: every tree the builder produces satisfies `rootHeadOk` (trivia in front of
   a node is attached OUTSIDE it; `n_attached_trivias` is non-zero only for `CONST`, which is not
   a head kind) — hypothesis `tokenKindsOk`: no parser step is a token of a trivia kind.
3. `layout_invariant_tree_to_ast`, `layout_invariant_to_graph` — the composition: the two typed
   ASTs agree modulo spans, and the analyses agree modulo diagnostic positions.
0. `dump_factors` — `Build.program t = .ok p → Dump.program t = Render.program p`: the structured
   value is the one the (validated) I5 dump prints.
-/
import Oq3.Lemmas.AccLayout
import Oq3.Lemmas.AccRender
import Oq3.Lemmas.BuilderHead
import Oq3.Props.C17LayoutTrees

namespace Oq3.C17Layout
open Oq3.Gen Oq3.Acc Oq3.C17 Oq3.Builder Oq3.BuilderLayout Oq3.Parser Oq3.Sema

/-! ## 0. the structured accessor layer and the dump -/

/-- **`Dump.program = Render.program ∘ Build.program`** wherever `Build.program` is defined (it
fails exactly where the dump has a `!` that the `sema` decoder rejects as `BAD-AST`, or — never,
with the default fuel — runs out of fuel) -/
theorem dump_factors (t : CNode) (p : Ast.Program) (h : Build.program t = .ok p) :
    Dump.program t = Render.program p :=
  Render.dump_eq_render t p h

/-! ## 1. the accessors -/

/-- **Accessors are blind to trivia and ranges.** -/
theorem accessors_blind (t : CNode) (h : rootHeadOk t = true) :
    Build.program (eraseTrivia t) = (Build.program t).map eraseSpans :=
  program_eraseTrivia t h

/-- two trees that differ only in trivia and ranges have the same typed AST modulo spans
(same error — `badAst`, i.e. a panicking text accessor — if there is one) -/
theorem accessors_blind_pair {t1 t2 : CNode} (h : eraseTrivia t1 = eraseTrivia t2)
    (h1 : rootHeadOk t1 = true) (h2 : rootHeadOk t2 = true) :
    (Build.program t1).map eraseSpans = (Build.program t2).map eraseSpans := by
  rw [← accessors_blind t1 h1, ← accessors_blind t2 h2, h]

/-! ## 2. the builder -/

/-- **The tree builder is blind to trivia.** -/
theorem builder_blind {toks1 toks2 : List RawTok} {ss : List Step}
    {t1 t2 : Tree} {e1 e2 : List SynErr} {eof1 eof2 : Bool} (hnt : nt toks1 = nt toks2)
    (g1 : glueOk toks1 ss = true) (g2 : glueOk toks2 ss = true)
    (h1 : buildTree toks1 ss = .ok (t1, e1, eof1)) (h2 : buildTree toks2 ss = .ok (t2, e2, eof2)) :
    eraseTriviaT t1 = eraseTriviaT t2 :=
  buildTree_layout hnt g1 g2 h1 h2

/-- **The builder establishes the hypothesis of (1).** -/
theorem builder_headOk {toks : List RawTok} {ss : List Step} {t : Tree} {e : List SynErr} {eof : Bool}
    (hk : tokenKindsOk ss = true) (h : buildTree toks ss = .ok (t, e, eof)) :
    rootHeadOk (cnodeOf t) = true := by
  rw [rootHeadOk_cnodeOf]; exact buildTree_rootHeadOkT hk h

/-! ## 3. composition -/

/-- **Same non-trivia raw tokens + same parser steps ⇒ same typed AST modulo spans.** -/
theorem layout_invariant_tree_to_ast {toks1 toks2 : List RawTok} {ss : List Step}
    {t1 t2 : Tree} {e1 e2 : List SynErr} {eof1 eof2 : Bool} (hnt : nt toks1 = nt toks2)
    (g1 : glueOk toks1 ss = true) (g2 : glueOk toks2 ss = true)
    (h1 : buildTree toks1 ss = .ok (t1, e1, eof1)) (h2 : buildTree toks2 ss = .ok (t2, e2, eof2))
    (k1 : rootHeadOk (cnodeOf t1) = true) (k2 : rootHeadOk (cnodeOf t2) = true) :
    (Build.program (cnodeOf t1)).map eraseSpans = (Build.program (cnodeOf t2)).map eraseSpans :=
  accessors_blind_pair (eraseTrivia_cnodeOf (builder_blind hnt g1 g2 h1 h2)) k1 k2

/-- the same with `rootHeadOk` discharged by the builder -/
theorem layout_invariant_tokens_to_ast {toks1 toks2 : List RawTok} {ss : List Step}
    {t1 t2 : Tree} {e1 e2 : List SynErr} {eof1 eof2 : Bool} (hnt : nt toks1 = nt toks2)
    (hk : tokenKindsOk ss = true) (g1 : glueOk toks1 ss = true) (g2 : glueOk toks2 ss = true)
    (h1 : buildTree toks1 ss = .ok (t1, e1, eof1)) (h2 : buildTree toks2 ss = .ok (t2, e2, eof2)) :
    (Build.program (cnodeOf t1)).map eraseSpans = (Build.program (cnodeOf t2)).map eraseSpans :=
  layout_invariant_tree_to_ast hnt g1 g2 h1 h2 (builder_headOk hk h1) (builder_headOk hk h2)

/-- the same for two trees (e.g. the implementation's own): when one has a typed AST so has the
other, and they are equal after `eraseSpans` -/
theorem ast_of_pair {t1 t2 : CNode} (h : eraseTrivia t1 = eraseTrivia t2)
    (h1 : rootHeadOk t1 = true) (h2 : rootHeadOk t2 = true) {p1 : Ast.Program}
    (hp : Build.program t1 = .ok p1) :
    ∃ p2, Build.program t2 = .ok p2 ∧ eraseSpans p1 = eraseSpans p2 := by
  have e := accessors_blind_pair h h1 h2
  rw [hp] at e
  cases hp2 : Build.program t2 with
  | error x => rw [hp2] at e; cases e
  | ok p2 =>
    rw [hp2] at e
    simp only [Except.map, Except.ok.injEq] at e
    exact ⟨p2, rfl, e⟩

/-- **Layout invariance, tree to graph**: two trees that differ only in trivia and ranges are
analysed to the same outcome — same panic or fuel-out, or the same context modulo the positions
stored in diagnostics (`erCtx`) -/
theorem layout_invariant_to_graph_of_trees (fuel : Nat) {t1 t2 : CNode}
    (h : eraseTrivia t1 = eraseTrivia t2) (h1 : rootHeadOk t1 = true) (h2 : rootHeadOk t2 = true)
    {p1 : Ast.Program} (hp : Build.program t1 = .ok p1) :
    ∃ p2, Build.program t2 = .ok p2 ∧
      (analyzeWith fuel p1).map erCtx = (analyzeWith fuel p2).map erCtx := by
  obtain ⟨p2, hp2, he⟩ := ast_of_pair h h1 h2 hp
  exact ⟨p2, hp2, span_irrelevant fuel he⟩

/-- **Layout invariance, raw tokens to graph.** -/
theorem layout_invariant_to_graph (fuel : Nat) {toks1 toks2 : List RawTok} {ss : List Step}
    {t1 t2 : Tree} {e1 e2 : List SynErr} {eof1 eof2 : Bool} (hnt : nt toks1 = nt toks2)
    (g1 : glueOk toks1 ss = true) (g2 : glueOk toks2 ss = true)
    (h1 : buildTree toks1 ss = .ok (t1, e1, eof1)) (h2 : buildTree toks2 ss = .ok (t2, e2, eof2))
    (k1 : rootHeadOk (cnodeOf t1) = true) (k2 : rootHeadOk (cnodeOf t2) = true)
    {p1 : Ast.Program} (hp : Build.program (cnodeOf t1) = .ok p1) :
    ∃ p2, Build.program (cnodeOf t2) = .ok p2 ∧
      (analyzeWith fuel p1).map erCtx = (analyzeWith fuel p2).map erCtx :=
  layout_invariant_to_graph_of_trees fuel (eraseTrivia_cnodeOf (builder_blind hnt g1 g2 h1 h2)) k1 k2 hp

/-- **Layout invariance, raw tokens to graph**, `rootHeadOk` discharged by the builder: the only
hypotheses left are about the INPUT of the builder — same non-trivia raw tokens (the lexer half,
`Oq3.Props.C15.trivia_irrelevant`), same steps (the parser is a function of those), no trivia
kinds among the steps and no trivia inside a composite token -/
theorem layout_invariant_tokens_to_graph (fuel : Nat) {toks1 toks2 : List RawTok} {ss : List Step}
    {t1 t2 : Tree} {e1 e2 : List SynErr} {eof1 eof2 : Bool} (hnt : nt toks1 = nt toks2)
    (hk : tokenKindsOk ss = true) (g1 : glueOk toks1 ss = true) (g2 : glueOk toks2 ss = true)
    (h1 : buildTree toks1 ss = .ok (t1, e1, eof1)) (h2 : buildTree toks2 ss = .ok (t2, e2, eof2))
    {p1 : Ast.Program} (hp : Build.program (cnodeOf t1) = .ok p1) :
    ∃ p2, Build.program (cnodeOf t2) = .ok p2 ∧
      (analyzeWith fuel p1).map erCtx = (analyzeWith fuel p2).map erCtx :=
  layout_invariant_to_graph fuel hnt g1 g2 h1 h2 (builder_headOk hk h1) (builder_headOk hk h2) hp

/-- in particular: same graph, same symbol table, same diagnostic kinds in the same order -/
theorem layout_invariant_to_graph_ok (fuel : Nat) {t1 t2 : CNode}
    (h : eraseTrivia t1 = eraseTrivia t2) (h1 : rootHeadOk t1 = true) (h2 : rootHeadOk t2 = true)
    {p1 : Ast.Program} (hp : Build.program t1 = .ok p1) {c : Ctx} (hc : analyzeWith fuel p1 = .ok c) :
    ∃ p2 c', Build.program t2 = .ok p2 ∧ analyzeWith fuel p2 = .ok c' ∧ c'.program = c.program ∧
      c'.symbolTable = c.symbolTable ∧
      c'.semanticErrors.map (·.kind) = c.semanticErrors.map (·.kind) := by
  obtain ⟨p2, hp2, he⟩ := ast_of_pair h h1 h2 hp
  obtain ⟨c', hc', a, b, d⟩ := span_irrelevant_ok fuel he hc
  exact ⟨p2, c', hp2, hc', a, b, d⟩

/-! ## non-vacuity -/

section Witness
open W

deriving instance DecidableEq for Except

/-! ### two layouts of `if(a>>=b)x q;` as REAL trees (`oq3-run tree`) -/

example : eraseTrivia layAFile = eraseTrivia layBFile := by decide +kernel
example : rootHeadOk layAFile = true ∧ rootHeadOk layBFile = true := by decide +kernel
example : layAFile ≠ layBFile := by decide +kernel
/-- the instance of (1) on the real trees -/
example : (Build.program layAFile).map eraseSpans = (Build.program layBFile).map eraseSpans :=
  accessors_blind_pair (by decide +kernel) (by decide +kernel) (by decide +kernel)

/-- a richer pair (declaration with a prefix expression, annotation, gate definition with a float
literal, pragma; leading whitespace, comments and line breaks moved around) -/
example : eraseTrivia layCFile = eraseTrivia layDFile ∧ rootHeadOk layCFile = true ∧
    rootHeadOk layDFile = true := by decide +kernel
example : (Build.program layCFile).map eraseSpans = (Build.program layDFile).map eraseSpans :=
  accessors_blind_pair (by decide +kernel) (by decide +kernel) (by decide +kernel)

/-! ### the same two layouts through the MODEL builder

raw tokens = the model lexer's (`LexedStr.new`) on the two texts, steps = the model parser's
(`parseSourceFile` + `process`), identical for both layouts (note the composite `SHREQ 3`) -/

def toksA : List RawTok :=
  [⟨.IF_KW, ['i', 'f']⟩, ⟨.L_PAREN, ['(']⟩, ⟨.IDENT, ['a']⟩, ⟨.R_ANGLE, ['>']⟩, ⟨.R_ANGLE, ['>']⟩,
   ⟨.EQ, ['=']⟩, ⟨.IDENT, ['b']⟩, ⟨.R_PAREN, [')']⟩, ⟨.IDENT, ['x']⟩, ⟨.WHITESPACE, [' ']⟩,
   ⟨.IDENT, ['q']⟩, ⟨.SEMICOLON, [';']⟩]

def toksB : List RawTok :=
  [⟨.COMMENT, ['/', '/', ' ', 'c']⟩, ⟨.WHITESPACE, ['\n']⟩, ⟨.IF_KW, ['i', 'f']⟩, ⟨.WHITESPACE, [' ']⟩,
   ⟨.L_PAREN, ['(']⟩, ⟨.WHITESPACE, [' ']⟩, ⟨.IDENT, ['a']⟩, ⟨.WHITESPACE, [' ']⟩, ⟨.R_ANGLE, ['>']⟩,
   ⟨.R_ANGLE, ['>']⟩, ⟨.EQ, ['=']⟩, ⟨.WHITESPACE, [' ']⟩, ⟨.IDENT, ['b']⟩, ⟨.WHITESPACE, [' ']⟩,
   ⟨.R_PAREN, [')']⟩, ⟨.WHITESPACE, [' ']⟩, ⟨.COMMENT, ['/', '*', ' ', 'd', ' ', '*', '/']⟩,
   ⟨.WHITESPACE, [' ']⟩, ⟨.IDENT, ['x']⟩, ⟨.WHITESPACE, [' ', ' ']⟩, ⟨.IDENT, ['q']⟩, ⟨.WHITESPACE, [' ']⟩,
   ⟨.SEMICOLON, [';']⟩, ⟨.WHITESPACE, ['\n']⟩]

def stepsAB : List Step :=
  [.enter .SOURCE_FILE, .enter .IF_STMT, .token .IF_KW 1, .token .L_PAREN 1, .enter .BIN_EXPR,
   .enter .IDENTIFIER, .token .IDENT 1, .exit, .token .SHREQ 3, .enter .IDENTIFIER, .token .IDENT 1,
   .exit, .exit, .token .R_PAREN 1, .enter .EXPR_STMT, .enter .GATE_CALL_EXPR, .enter .IDENTIFIER,
   .token .IDENT 1, .exit, .enter .QUBIT_LIST, .enter .IDENTIFIER, .token .IDENT 1, .exit, .exit, .exit,
   .token .SEMICOLON 1, .exit, .exit, .exit]

/-- the tree component of a successful `buildTree` -/
def treeOf (r : Except String (Tree × List SynErr × Bool)) : Tree :=
  match r with
  | .ok (t, _, _) => t
  | .error _ => .leaf .ERROR []

example : nt toksA = nt toksB := by decide +kernel
example : glueOk toksA stepsAB = true ∧ glueOk toksB stepsAB = true := by decide +kernel

/-- the model builder's trees ARE the real trees of the two layouts -/
example : cnodeOf (treeOf (buildTree toksA stepsAB)) = layAFile ∧
    cnodeOf (treeOf (buildTree toksB stepsAB)) = layBFile := by decide +kernel

theorem buildA : buildTree toksA stepsAB = .ok (treeOf (buildTree toksA stepsAB), [], true) := by rfl
theorem buildB : buildTree toksB stepsAB = .ok (treeOf (buildTree toksB stepsAB), [], true) := by rfl

/-- the instance of (2) -/
example : eraseTriviaT (treeOf (buildTree toksA stepsAB)) = eraseTriviaT (treeOf (buildTree toksB stepsAB)) :=
  builder_blind (by decide +kernel) (by decide +kernel) (by decide +kernel) buildA buildB

/-- the instance of (3), tree to AST -/
example : (Build.program (cnodeOf (treeOf (buildTree toksA stepsAB)))).map eraseSpans =
    (Build.program (cnodeOf (treeOf (buildTree toksB stepsAB)))).map eraseSpans :=
  layout_invariant_tree_to_ast (by decide +kernel) (by decide +kernel) (by decide +kernel) buildA buildB (by decide +kernel) (by decide +kernel)

/-- the instances of `builder_headOk` and of the hypothesis-light (3) -/
example : tokenKindsOk stepsAB = true := by decide +kernel
example : rootHeadOk (cnodeOf (treeOf (buildTree toksA stepsAB))) = true :=
  builder_headOk (by decide +kernel) buildA
example := layout_invariant_tokens_to_ast (toks1 := toksA) (toks2 := toksB) (ss := stepsAB)
  (by decide +kernel) (by decide +kernel) (by decide +kernel) (by decide +kernel) buildA buildB

/-- the instance of (0): the dump of the real tree is the rendering of its structured typed AST -/
example : ∃ p, Build.program layBFile = .ok p ∧ Dump.program layBFile = Render.program p := by
  have hok : (Build.program layBFile).toBool = true := by decide +kernel
  cases h : Build.program layBFile with
  | error e => rw [h] at hok; cases hok
  | ok p => exact ⟨p, rfl, dump_factors _ _ h⟩

/-- `glueOk` is necessary: `>>` against `> >` under the step `token SHR 2` — same non-trivia raw
tokens, same steps, both builds succeed, different trees -/
theorem glue_needed :
    let toks1 : List RawTok := [⟨.R_ANGLE, ['>']⟩, ⟨.R_ANGLE, ['>']⟩]
    let toks2 : List RawTok := [⟨.R_ANGLE, ['>']⟩, ⟨.WHITESPACE, [' ']⟩, ⟨.R_ANGLE, ['>']⟩]
    let ss : List Step := [.enter .SOURCE_FILE, .token .SHR 2, .exit]
    nt toks1 = nt toks2 ∧ glueOk toks1 ss = true ∧ glueOk toks2 ss = false ∧
    (eraseTriviaT (treeOf (buildTree toks1 ss))).leaves = [(.SHR, ['>', '>'])] ∧
    (eraseTriviaT (treeOf (buildTree toks2 ss))).leaves = [(.SHR, ['>', ' '])] := by decide +kernel

/-- `rootHeadOk` is necessary: a `NAME` node that starts with a comment (which the builder never
produces) has the comment as its text — and the IDENT after erasure -/
theorem head_needed :
    let n : CNode := .node .NAME 0 8 [.token .COMMENT 0 7 "/* c */".toList, .token .IDENT 7 8 ['g']]
    Build.name n = .ok ⟨⟨0, 8⟩, "/* c */"⟩ ∧ Build.name (eraseTrivia n) = .ok ⟨⟨0, 0⟩, "g"⟩ := by
  decide

end Witness

end Oq3.C17Layout
