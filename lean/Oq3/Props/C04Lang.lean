/-
C04 — a recursive reference language is accepted with zero diagnostics, by INDUCTION over the
language (programs of arbitrary size and nesting depth).

LANGUAGE (`Oq3.LangEv.Stmt` / `Stmts`, `Lemmas/LangEv.lean`), over token kinds:
  E (expressions, `Oq3.PrattEv.E`): identifier | integer literal | 19 binary operators | 3 prefix
      operators | parentheses — arbitrary depth, canonical (minimal parentheses) for the implementation's table
  S ::= ty x ;  | ty[E] x ;  | ty x = E ;  | ty[E] x = E ;        (ty ∈ int uint float angle bit bool)
      | x = E ;            (E not a bare binary expression: F06)   | x = measure q ;
      | E ;  | g q0, …, qn ;  | g(E, …, E) q0, …, qn ;  | measure q ;  | reset q ;  | barrier q0, …, qn ;
      | break ; | continue ; | end ;
      | if (E) { S* }  | if (E) { S* } else { S* }  | while (E) { S* }  | for ty x in [E:E] { S* }
      | gate g q0, …, qn { S* }  | gate g(p0, …, pk) q0, …, qn { S* }
      | def f(pty x, …) { S* }  | def f(pty x, …) -> ty { S* }      (pty ∈ ty ∪ {qubit}; the list may be empty)
      | return ;  | return E ;

THEOREMS.
* `stmt_ok` / `stmts_ok` (`Lemmas/LangEvProg.lean`, mutual induction; the statement lemmas are in
  `Lemmas/LangEvStmt.lean` (flat statements), `LangEvCtl.lean` (control flow), `LangEvDef.lean` (definitions)): every well-formed statement /
  statement list is accepted by `stmt` / the statement loop FROM ANY READY STATE, with exactly the
  events `evsS` / `evsL` — so they compose with any context.
* `program_accepted`: for every well-formed program `p` and every `fuel ≥ needL p + 3`,
  `parseSourceFile` on the print of `p` returns the events `evsP p` (= `Start SOURCE_FILE`, the
  events of the statements, `Finish`) and has consumed every token; `evsP p` contains no `Error`
  event (`evsP_errorFree`).
* `program_cst` (via `process`): the step sequence is the pre-order node sequence `nodesP p` of the
  derivation — C05's "the AST mirrors the derivation" for whole programs.

WELL-FORMEDNESS `WFL` — exactly the side conditions the grammar needs:
* every expression (initialisers, designators, conditions, range bounds, gate arguments, `return` values,
  expression statements) is canonical at level 1 (`Canon implTab 1`, `Props/C05Events.lean: canonE_iff`);
* F06: the right-hand side of `x = rhs;` is canonical at level 12 — not a bare binary expression
  (`= `has binding power 12; identifier, literal, prefix and parenthesised expressions qualify);
  the rejection of `x = a + b;` is the separate witness `Props/C04.lean: witness_assign_binary_rhs`;
* F09e: a statement that follows an assignment does not start with `-` (the assignment would
  continue as a binary expression, `Props/C16.lean: witness_assign_then_minus`); `!` is harmless;
* a designator `[w]` only on types that take one (`bool` does not).
Not needed: a condition after an else-less `if` (no statement of the language starts with `else`).
Top level: the language has neither `;` (F09a) nor `let` (F09b) statements, the two places where
`item` and `stmt` differ; `sfc_ok` goes through `item` for item-first statements and through the
fall-through to the statement loop for the others (`Props/C16.lean` (D3)).
-/
import Oq3.Lemmas.LangEvTop
import Oq3.Lemmas.LangEvProcess
import Oq3.Props.C05Events

set_option linter.unusedSimpArgs false
namespace Oq3.Props.C04Lang
open Oq3.Gen Oq3.Parser Oq3.Grammar Oq3.PrattEv Oq3.LangEv

/-! ### the input arrays of a token list -/

def kindsOf (ts : List Tok) : Array SyntaxKind := (ts.map (·.1)).toArray
def jointOf (ts : List Tok) : Array Bool := (ts.map (·.2)).toArray

theorem Toks_of_get (s : P) (ts : List Tok) : ∀ (q : Nat),
    (∀ i (h : i < ts.length), s.kindAt (q + i) = (ts[i]).1 ∧ ((ts[i]).2 = true → s.joint.getD (q + i) false = true)) →
    Toks s q ts := by
  induction ts with
  | nil => intro q _; trivial
  | cons t ts ih =>
    intro q h
    obtain ⟨k, j⟩ := t
    refine ⟨(h 0 (by simp)).1, (h 0 (by simp)).2, ih (q + 1) ?_⟩
    intro i hi
    have := h (i + 1) (by simp; omega)
    simpa [Nat.add_assoc, Nat.add_comm 1 i] using this

/-- the initial parser state on the print of a token list -/
def initState (ts : List Tok) : P := { kinds := kindsOf ts, joint := jointOf ts }

theorem initState_toks (ts : List Tok) : Toks (initState ts) 0 ts := by
  apply Toks_of_get
  intro i hi
  simp [initState, kindsOf, jointOf, P.kindAt, hi]

theorem initState_eof (ts : List Tok) : (initState ts).kindAt ts.length = .EOF := by
  simp [initState, kindsOf, P.kindAt]

/-! ### no error event -/

open Oq3.Props.C05Events (errorFree errorFree_append evs_errorFree)

theorem qubitEvs_errorFree (n : Nat) : errorFree (qubitEvs n) = true := by
  induction n with
  | zero => rfl
  | succ n ih => simp [qubitEvs, errorFree, ih]

theorem argEvs_errorFree (as : List E) : errorFree (argEvs as) = true := by
  induction as with
  | nil => rfl
  | cons a as ih =>
    cases as with
    | nil => simp [argEvs, evs_errorFree]
    | cons b bs => simp [argEvs, errorFree_append, evs_errorFree, errorFree, ih]

theorem paramEvs_errorFree (n : Nat) : errorFree (paramEvs n) = true := by
  induction n with
  | zero => rfl
  | succ n ih => simp [paramEvs, errorFree, ih]

theorem typedEvs_errorFree (ps : List PTy) : errorFree (typedEvs ps) = true := by
  induction ps with
  | nil => rfl
  | cons p ps ih =>
    cases ps with
    | nil => rfl
    | cons q qs => simp [typedEvs, errorFree, ih]

theorem retEvs_errorFree (ret : Option Ty) : errorFree (retEvs ret) = true := by
  cases ret <;> rfl

theorem tyEvs_errorFree (ty : Ty) (w : Option E) : errorFree (tyEvs ty w) = true := by
  cases w <;> simp [tyEvs, errorFree, errorFree_append, evs_errorFree]

theorem body_errorFree' (e : E) (fp : Option Nat) : errorFree (body e fp) = true :=
  Oq3.Props.C05Events.body_errorFree e fp

mutual
theorem evsS_errorFree : ∀ st : Stmt, errorFree (evsS st) = true
  | .decl ty w none => by simp [evsS, errorFree, errorFree_append, tyEvs_errorFree]
  | .decl ty w (some e) => by simp [evsS, errorFree, errorFree_append, tyEvs_errorFree, evs_errorFree]
  | .assign rhs => by simp [evsS, errorFree, errorFree_append, evs_errorFree, tombLink]
  | .exprS e => by simp [evsS, errorFree, errorFree_append, body_errorFree', tombLink, exprStmtTail]
  | .gate [] nq => by simp [evsS, errorFree, errorFree_append, qubitEvs_errorFree, tombLink, exprStmtTail]
  | .gate (a :: as) nq => by
    simp [evsS, errorFree, errorFree_append, qubitEvs_errorFree, argEvs_errorFree, tombLink, exprStmtTail]
  | .measure => rfl
  | .assignMeasure => rfl
  | .reset => rfl
  | .barrier nq => by simp [evsS, errorFree, errorFree_append, qubitEvs_errorFree]
  | .brk => rfl
  | .cont => rfl
  | .endS => rfl
  | .ifS c thn => by
    simp [evsS, blockEvs, errorFree, errorFree_append, evs_errorFree, evsL_errorFree thn]
  | .ifElse c thn els => by
    simp [evsS, blockEvs, errorFree, errorFree_append, evs_errorFree, evsL_errorFree thn, evsL_errorFree els]
  | .whileS c body => by
    simp [evsS, blockEvs, errorFree, errorFree_append, evs_errorFree, evsL_errorFree body]
  | .forS ty lo hi body => by
    simp [evsS, blockEvs, errorFree, errorFree_append, evs_errorFree, evsL_errorFree body]
  | .gateDef none nq body => by
    simp [evsS, blockEvs, errorFree, errorFree_append, paramEvs_errorFree, evsL_errorFree body]
  | .gateDef (some k) nq body => by
    simp [evsS, blockEvs, errorFree, errorFree_append, paramEvs_errorFree, evsL_errorFree body]
  | .defS ps ret body => by
    simp [evsS, blockEvs, errorFree, errorFree_append, typedEvs_errorFree, retEvs_errorFree, evsL_errorFree body]
  | .ret none => rfl
  | .ret (some e) => by simp [evsS, errorFree, errorFree_append, evs_errorFree, tombLink, exprStmtTail]
theorem evsL_errorFree : ∀ ss : Stmts, errorFree (evsL ss) = true
  | .nil => rfl
  | .cons st ss => by simp [evsL, errorFree_append, evsS_errorFree st, evsL_errorFree ss]
end

/-- the events of a program contain no `Error` event -/
theorem evsP_errorFree (p : Stmts) : errorFree (evsP p) = true := by
  simp [evsP, errorFree, errorFree_append, evsL_errorFree]

/-! ### whole programs -/

/-- **Every well-formed program of the reference language is accepted**: `parseSourceFile` on its
print succeeds (no panic, no `DropBomb`), returns exactly the events `evsP p` and has consumed
every token — for every fuel above the explicit bound. -/
theorem program_accepted (p : Stmts) (hwf : WFL p) (fuel : Nat) (hf : needL p + 3 ≤ fuel) :
    parseSourceFile fuel (kindsOf (toksL p)) (jointOf (toksL p)) = .ok ((evsP p).toArray, (toksL p).length) := by
  have hr : Rdy 9 (initState (toksL p)) := ⟨rfl, by show 0 + 9 ≤ 15000000; decide, by intro p hp; cases hp⟩
  obtain ⟨st, sb, hrun⟩ := sourceFile_ok p fuel (initState (toksL p)) hf hr
    (by have := initState_toks (toksL p); exact this)
    (by have := initState_eof (toksL p); show (initState (toksL p)).kindAt (0 + _) = _; rw [Nat.zero_add]; exact this) hwf
  unfold parseSourceFile parseWith
  show (match sourceFile fuel (initState (toksL p)) with | .ok (_, s) => _ | .error e => _) = _
  rw [hrun]
  simp [P.ov, initState]

/-- **the CST of a program mirrors its derivation**: `process` turns the events of the program into
the pre-order node sequence `nodesP p` (for every program, well-formed or not: this is a fact about
the event encoding) -/
theorem program_cst (p : Stmts) : process (evsP p) = some (nodesP p) := process_evsP p

/-- acceptance, absence of diagnostics and shape of the CST in one statement -/
theorem program_accepted_cst (p : Stmts) (hwf : WFL p) (fuel : Nat) (hf : needL p + 3 ≤ fuel) :
    ∃ ev, parseSourceFile fuel (kindsOf (toksL p)) (jointOf (toksL p)) = .ok (ev, (toksL p).length) ∧
      errorFree ev.toList = true ∧ process ev.toList = some (nodesP p) :=
  ⟨_, program_accepted p hwf fuel hf, by simpa using evsP_errorFree p, by simpa using program_cst p⟩

/-- the well-formedness conditions on expressions are the canonicity of `Props/C05.lean` -/
theorem canonE_iff (t : E) (bp : Nat) : CanonE bp t ↔ Oq3.Props.C05.Canon Oq3.Pratt.implTab bp t.toPratt :=
  Oq3.Props.C05Events.canonE_iff t bp

/-! ### non-vacuity: a nested program -/

/-- ```
int[8] x = a + 1 * (b);
for uint i in [1:x] { if (i <= -1) { x = -i; h q, r; } else { rx(x / 1) q; break; } }
while (!x) { c = measure q; }
gate g(t) a, b { rx(t) a; h b; }
def f(int n, qubit q) -> bit { c = measure q; return c; }
``` -/
def demo : Stmts :=
  .cons (.decl .int (some .int) (some (.bin .plus .id (.bin .star .int (.paren .id)))))
  (.cons (.forS .uint .int .id
    (.cons (.ifElse (.bin .lteq .id (.pre .minus .int))
        (.cons (.assign (.pre .minus .id)) (.cons (.gate [] 1) .nil))
        (.cons (.gate [.bin .slash .id .int] 0) (.cons .brk .nil))) .nil))
  (.cons (.whileS (.pre .bang .id) (.cons .assignMeasure .nil))
  (.cons (.gateDef (some 0) 1 (.cons (.gate [.id] 0) (.cons (.gate [] 0) .nil)))
  (.cons (.defS [.cls .int, .qubit] (some .bit) (.cons .assignMeasure (.cons (.ret (some .id)) .nil))) .nil))))

theorem demo_wf : WFL demo := by
  simp [demo, WFL, WFS, CanonE, BinOp.pow, isAssign, startsMinus, Ty.wide]

theorem demo_accepted (fuel : Nat) (h : needL demo + 3 ≤ fuel) :
    parseSourceFile fuel (kindsOf (toksL demo)) (jointOf (toksL demo)) = .ok ((evsP demo).toArray, (toksL demo).length) :=
  program_accepted demo demo_wf fuel h

end Oq3.Props.C04Lang
