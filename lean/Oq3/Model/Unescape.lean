/-
Model of `crates/oq3_lexer/src/unescape.rs` (as far as `oq3_syntax` reaches it) and of the
escape-sequence part of `crates/oq3_syntax/src/validation.rs: validate_literal`.

What the code does (pinned tree, checked by reading and by `vf/unescape_corr.py`):

* `validate_literal` looks at the first non-trivia token of every `LITERAL` node.  The lexer
  (`oq3_lexer/src/lib.rs`) never constructs `LiteralKind::Byte` and nothing maps to the syntax kind
  `CHAR`, so of the four arms that call `unescape_literal` only `String` (`Mode::Str`) and
  `BitString` (`Mode::BitStr`) are reachable; `Mode::Char`, `Mode::Byte`, `Mode::ByteStr` and the raw
  modes are never used.  Both reachable modes go to `unescape_str_common`.
* `unquote(text, 1, '"')` is `text.rfind('"').and_then(|end| text.get(1..end))`: the LAST `"` of the
  token text wherever it is (a token may be single-quoted and may carry an identifier suffix), and
  `None` when `end == 0` (unterminated literal) -- then nothing is validated.
* the callback's `Range<usize>` is relative to the contents; `push_err(1, range.start, err)` reports
  the EMPTY range at `token_start + range.start + 1` (`SyntaxError::new_at_offset`): `range.end` is
  dropped.  `UnskippedWhitespaceWarning` and `MultipleSkippedLinesWarning` are not `is_fatal` and
  are dropped.

Conventions: text is `List Char`, byte offsets through `Char.utf8Size` (`Oq3.Lexer.utf8Len`).
`Chars<'_>` is the list of remaining characters, `src.len() - chars.as_str().len()` is
`srcLen - utf8Len rest`, exactly as written in the code.  The unescaped VALUE (`Ok(char)`) is not
modelled (`none` = `Ok(_)`): no diagnostic depends on it.  Offsets are `Nat`; the code's
`TextSize::try_from(..).unwrap()` cannot fail for texts below 4 GiB (rowan's own limit).

Recursion: `scanUnicodeLoop` is structural on the remaining characters.  The `while let` loop of
`unescape_str_common` continues on the cursor that `scan_escape` / `skip_ascii_whitespace` leave
behind, which is a proper suffix but not a structural sub-term: `strLoop` takes a fuel argument;
`Oq3.Props.C12Escape.strLoop_total` shows that `fuel = number of characters` always suffices (so
`unescapeStrCommon` never takes the out-of-fuel branch) and that more fuel changes nothing.
-/
import Oq3.Model.Lexer
import Oq3.Model.Lexed

namespace Oq3.Unescape
open Oq3.Lexer (utf8Len)

/-- `unescape::EscapeError` -/
inductive EscapeError
  | zeroChars | moreThanOneChar
  | loneSlash | invalidEscape | bareCarriageReturn | bareCarriageReturnInRawString | escapeOnlyChar
  | tooShortHexEscape | invalidCharInHexEscape | outOfRangeHexEscape
  | noBraceInUnicodeEscape | invalidCharInUnicodeEscape | emptyUnicodeEscape | unclosedUnicodeEscape
  | leadingUnderscoreUnicodeEscape | overlongUnicodeEscape | loneSurrogateUnicodeEscape
  | outOfRangeUnicodeEscape
  | unicodeEscapeInByte | nonAsciiCharInByte
  | unskippedWhitespaceWarning | multipleSkippedLinesWarning
  deriving DecidableEq, Repr, Inhabited

/-- `EscapeError::is_fatal` -/
def EscapeError.isFatal : EscapeError → Bool
  | .unskippedWhitespaceWarning | .multipleSkippedLinesWarning => false
  | _ => true

/-- the `Mode`s that `validate_literal` passes for tokens the lexer can produce -/
inductive Mode | str | bitStr
  deriving DecidableEq, Repr, Inhabited

/-- `Mode::characters_should_be_ascii` -/
def Mode.charactersShouldBeAscii : Mode → Bool
  | .str => false
  | .bitStr => true

/-- `Mode::is_unicode_escape_disallowed` -/
def Mode.isUnicodeEscapeDisallowed : Mode → Bool
  | .str => false
  | .bitStr => true

/-- `char::to_digit(16)` -/
def toDigit16 (c : Char) : Option Nat :=
  if '0' ≤ c && c ≤ '9' then some (c.toNat - '0'.toNat)
  else if 'a' ≤ c && c ≤ 'f' then some (c.toNat - 'a'.toNat + 10)
  else if 'A' ≤ c && c ≤ 'F' then some (c.toNat - 'A'.toNat + 10)
  else none

/-- `char::is_whitespace` (Unicode `White_Space`) -/
def isWhitespaceRust (c : Char) : Bool :=
  let n := c.toNat
  (9 ≤ n && n ≤ 13) || n == 0x20 || n == 0x85 || n == 0xA0 || n == 0x1680
    || (0x2000 ≤ n && n ≤ 0x200A) || n == 0x2028 || n == 0x2029 || n == 0x202F || n == 0x205F
    || n == 0x3000

/-- result of a scanner on `Chars`: `none` = `Ok(_)`, and the iterator afterwards -/
abbrev ScanRes := Option EscapeError × List Char

/-- `std::char::from_u32(value).ok_or(..)` at the end of `scan_unicode` -/
def fromU32Err (value : Nat) : Option EscapeError :=
  if value < 0xD800 || (0xDFFF < value && value ≤ 0x10FFFF) then none
  else if value > 0x10FFFF then some .outOfRangeUnicodeEscape
  else some .loneSurrogateUnicodeEscape

/-- the `loop` of `scan_unicode`.  `value` stays below `16^6` (it is only updated while
`n_digits ≤ 6`), so the `u32` arithmetic of the code cannot overflow. -/
def scanUnicodeLoop (disallowed : Bool) : Nat → Nat → List Char → ScanRes
  | _, _, [] => (some .unclosedUnicodeEscape, [])
  | nDigits, value, c :: cs =>
    if c == '_' then scanUnicodeLoop disallowed nDigits value cs
    else if c == '}' then
      if nDigits > 6 then (some .overlongUnicodeEscape, cs)
      else if disallowed then (some .unicodeEscapeInByte, cs)
      else (fromU32Err value, cs)
    else
      match toDigit16 c with
      | none => (some .invalidCharInUnicodeEscape, cs)
      | some d =>
        if nDigits + 1 > 6 then scanUnicodeLoop disallowed (nDigits + 1) value cs
        else scanUnicodeLoop disallowed (nDigits + 1) (value * 16 + d) cs

/-- `scan_unicode` -/
def scanUnicode (disallowed : Bool) : List Char → ScanRes
  | [] => (some .noBraceInUnicodeEscape, [])
  | c :: cs =>
    if c != '{' then (some .noBraceInUnicodeEscape, cs)
    else
      match cs with
      | [] => (some .unclosedUnicodeEscape, [])
      | d :: ds =>
        if d == '_' then (some .leadingUnderscoreUnicodeEscape, ds)
        else if d == '}' then (some .emptyUnicodeEscape, ds)
        else
          match toDigit16 d with
          | none => (some .invalidCharInUnicodeEscape, ds)
          | some v => scanUnicodeLoop disallowed 1 v ds

/-- `scan_escape` (the previous character was `\`) -/
def scanEscape (mode : Mode) : List Char → ScanRes
  | [] => (some .loneSlash, [])
  | c :: cs =>
    if c == '"' || c == 'n' || c == 'r' || c == 't' || c == '\\' || c == '\'' || c == '0' then
      (none, cs)
    else if c == 'x' then
      match cs with
      | [] => (some .tooShortHexEscape, [])
      | hi :: cs1 =>
        if (toDigit16 hi).isNone then (some .invalidCharInHexEscape, cs1)
        else
          match cs1 with
          | [] => (some .tooShortHexEscape, [])
          | lo :: cs2 =>
            if (toDigit16 lo).isNone then (some .invalidCharInHexEscape, cs2)
            else (none, cs2)
    else if c == 'u' then scanUnicode mode.isUnicodeEscapeDisallowed cs
    else (some .invalidEscape, cs)

/-- `ascii_check` -/
def asciiCheck (c : Char) (charactersShouldBeAscii : Bool) : Option EscapeError :=
  if charactersShouldBeAscii && !(Oq3.Lexer.isAscii c) then some .nonAsciiCharInByte else none

/-- one invocation of the callback: `callback(start..stop, res)`; `err = none` is `Ok(_)` -/
structure Callback where
  start : Nat
  stop : Nat
  err : Option EscapeError
  deriving DecidableEq, Repr, Inhabited

/-- the bytes `skip_ascii_whitespace` skips: `b' ' | b'\t' | b'\n' | b'\r'` -/
def isSkipWs (c : Char) : Bool := c == ' ' || c == '\t' || c == '\n' || c == '\r'

/-- `skip_ascii_whitespace(chars, start, callback)`; `tail = chars.as_str()`.  Returns the
callbacks made and the new `chars`.

`first_non_space` is a BYTE position in the code (`tail.bytes().position(..)`).  A byte of a UTF-8
text with one of the four ASCII values is a whole character, so it is the number of leading
characters in the set, each one byte long (`takeWhile`); `tail.get(1..first_non_space)` and
`&tail[first_non_space..]` are then `drop`/`take` on characters (and cannot fail). -/
def skipAsciiWhitespace (tail : List Char) (start : Nat) : List Callback × List Char :=
  let firstNonSpace := (tail.takeWhile isSkipWs).length
  let w1 : List Callback :=
    if 1 ≤ firstNonSpace && ((tail.take firstNonSpace).drop 1).contains '\n' then
      [⟨start, start + firstNonSpace + 1, some .multipleSkippedLinesWarning⟩]
    else []
  let tail' := tail.drop firstNonSpace
  let w2 : List Callback :=
    match tail' with
    | c :: _ =>
      if isWhitespaceRust c then
        [⟨start, start + firstNonSpace + c.utf8Size + 1, some .unskippedWhitespaceWarning⟩]
      else []
    | [] => []
  (w1 ++ w2, tail')

/-- the `while let Some(c) = chars.next()` loop of `unescape_str_common`; `srcLen = src.len()`,
the list is `chars`.  `none` = out of fuel (never with `fuel ≥ length`, theorem `strLoop_total`). -/
def strLoop (mode : Mode) (srcLen : Nat) : Nat → List Char → Option (List Callback)
  | _, [] => some []
  | 0, _ :: _ => none
  | fuel + 1, c :: cs =>
    let start := srcLen - utf8Len cs - c.utf8Size
    if c == '\\' then
      if cs.head? == some '\n' then
        let r := skipAsciiWhitespace cs start
        (strLoop mode srcLen fuel r.2).map (r.1 ++ ·)
      else
        let r := scanEscape mode cs
        (strLoop mode srcLen fuel r.2).map (⟨start, srcLen - utf8Len r.2, r.1⟩ :: ·)
    else
      let res : Option EscapeError :=
        if c == '\n' then none
        else if c == '\t' then none
        else if c == '"' then some .escapeOnlyChar
        else if c == '\r' then some .bareCarriageReturn
        else asciiCheck c mode.charactersShouldBeAscii
      (strLoop mode srcLen fuel cs).map (⟨start, srcLen - utf8Len cs, res⟩ :: ·)

/-- `unescape_str_common(src, mode, callback)`: the callbacks in order -/
def unescapeStrCommon (src : List Char) (mode : Mode) : List Callback :=
  (strLoop mode (utf8Len src) src.length src).getD []

/-- `unescape_literal(src, mode, callback)` for the modes in use (both go to
`unescape_str_common`) -/
def unescapeLiteral (src : List Char) (mode : Mode) : List Callback :=
  match mode with
  | .str | .bitStr => unescapeStrCommon src mode

/-! ### `validation.rs` -/

/-- `oq3_unescape_error_to_string` (the message) -/
def EscapeError.message : EscapeError → String
  | .zeroChars => "Literal must not be empty"
  | .moreThanOneChar => "Literal must be one character long"
  | .loneSlash => "Character must be escaped: `\\`"
  | .invalidEscape => "Invalid escape"
  | .bareCarriageReturn | .bareCarriageReturnInRawString => "Character must be escaped: `\r`"
  | .escapeOnlyChar => "Escape character `\\` must be escaped itself"
  | .tooShortHexEscape => "ASCII hex escape code must have exactly two digits"
  | .invalidCharInHexEscape => "ASCII hex escape code must contain only hex characters"
  | .outOfRangeHexEscape => "ASCII hex escape code must be at most 0x7F"
  | .noBraceInUnicodeEscape => "Missing `{` to begin the unicode escape"
  | .invalidCharInUnicodeEscape => "Unicode escape must contain only hex characters and underscores"
  | .emptyUnicodeEscape => "Unicode escape must not be empty"
  | .unclosedUnicodeEscape => "Missing `}` to terminate the unicode escape"
  | .leadingUnderscoreUnicodeEscape => "Unicode escape code must not begin with an underscore"
  | .overlongUnicodeEscape => "Unicode escape code must have at most 6 digits"
  | .loneSurrogateUnicodeEscape => "Unicode escape code must not be a surrogate"
  | .outOfRangeUnicodeEscape => "Unicode escape code must be at most 0x10FFFF"
  | .unicodeEscapeInByte => "Byte literals must not contain unicode escapes"
  | .nonAsciiCharInByte => "Byte literals must not contain non-ASCII characters"
  | .unskippedWhitespaceWarning => "Whitespace after this escape is not skipped"
  | .multipleSkippedLinesWarning => "Multiple lines are skipped by this escape"

/-- `str::rfind(q)`: byte offset of the last occurrence of the character `q` -/
def rfind (q : Char) : List Char → Option Nat
  | [] => none
  | c :: cs =>
    match rfind q cs with
    | some k => some (c.utf8Size + k)
    | none => if c == q then some 0 else none

/-- `unquote(text, prefix_len, end_delimiter)` of `validate_literal`; `str::get(lo..hi)` is
`Oq3.Lexed.sliceBytes` (`none` unless `lo ≤ hi` and both are character boundaries) -/
def unquote (text : List Char) (prefixLen : Nat) (endDelimiter : Char) : Option (List Char) :=
  (rfind endDelimiter text).bind fun e => Oq3.Lexed.sliceBytes text prefixLen e

/-- a syntax diagnostic: `TextRange` and message -/
structure VErr where
  start : Nat
  stop : Nat
  msg : String
  deriving DecidableEq, Repr, Inhabited

/-- the closure `push_err(prefix_len, off, err)` applied to every `Err` callback:
`SyntaxError::new_at_offset(message, token_start + (range.start + prefix_len))`, warnings dropped -/
def pushErrs (prefixLen tokStart : Nat) (cbs : List Callback) : List VErr :=
  cbs.filterMap fun cb =>
    match cb.err with
    | some e =>
      if e.isFatal then
        some ⟨tokStart + (cb.start + prefixLen), tokStart + (cb.start + prefixLen), e.message⟩
      else none
    | none => none

/-- `ast::LiteralKind` as far as `validate_literal` distinguishes it for lexable tokens
(`Char`, `Byte`: unreachable; numbers and Booleans: nothing is done) -/
inductive LitKind | string | bitString | other
  deriving DecidableEq, Repr, Inhabited

/-- `validate_literal` (escape part): `text` is the literal token's text, `tokStart` its start
offset in the file -/
def validateLiteral (kind : LitKind) (text : List Char) (tokStart : Nat) : List VErr :=
  match kind with
  | .string =>
    match unquote text 1 '"' with
    | some w => pushErrs 1 tokStart (unescapeLiteral w .str)
    | none => []
  | .bitString =>
    match unquote text 1 '"' with
    | some w => pushErrs 1 tokStart (unescapeLiteral w .bitStr)
    | none => []
  | .other => []

end Oq3.Unescape
