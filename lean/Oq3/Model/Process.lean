/-
Model of `crates/oq3_parser/src/event.rs: process`, `output.rs` (`Output`/`Step`) and the
debug balance assertions of `lib.rs: TopEntryPoint::parse`.
-/
import Oq3.Model.ParserApi

namespace Oq3.Parser
open Oq3.Gen

/-- `output.rs: enum Step` (`FloatSplit` is never produced: `Output` has no constructor for it) -/
inductive Step
  | enter (kind : SyntaxKind)
  | exit
  | token (kind : SyntaxKind) (nInputTokens : Nat)
  | error (msg : String)
  deriving DecidableEq, Repr, Inhabited

def Ev.hasFp : Ev → Bool
  | .start _ (some _) => true
  | _ => false

/-- number of events that still carry a forward-parent link -/
def cntFp : List Ev → Nat
  | [] => 0
  | e :: es => (if e.hasFp then 1 else 0) + cntFp es

/-- Follow the forward-parent chain starting at `idx + fwd`; every visited event is replaced by
a tombstone.  `acc` collects the kinds (innermost first, as `forward_parents.push`).
`none` = `unreachable!()` / index out of bounds (or out of fuel — excluded by `chain_fuel`). -/
def chain : Nat → List Ev → Nat → Nat → List SyntaxKind → Option (List SyntaxKind × List Ev)
  | 0, _, _, _, _ => none
  | fuel + 1, evs, idx, fwd, acc =>
    match evs[idx + fwd]? with
    | some (.start k none) => some (k :: acc, evs.set (idx + fwd) Ev.tombstone)
    | some (.start k (some f)) =>
      chain fuel (evs.set (idx + fwd) Ev.tombstone) (idx + fwd) f (k :: acc)
    | _ => none

/-- `for kind in forward_parents.drain(..).rev() { if kind != TOMBSTONE { enter_node } }`;
`ks` is already in reversed (outermost-first) order -/
def enters (ks : List SyntaxKind) : List Step :=
  (ks.filter (· != .TOMBSTONE)).map .enter

/-- main loop of `process`: `n` events still to visit, `i` the current index -/
def processGo : Nat → Nat → List Ev → List Step → Option (List Step)
  | 0, _, _, out => some out
  | n + 1, i, evs, out =>
    match evs[i]? with
    | none => none
    | some (.start k none) => processGo n (i + 1) (evs.set i Ev.tombstone) (out ++ enters [k])
    | some (.start k (some f)) =>
      match chain (cntFp evs + 1) (evs.set i Ev.tombstone) i f [k] with
      | none => none
      | some (ks, evs') => processGo n (i + 1) evs' (out ++ enters ks)
    | some .finish => processGo n (i + 1) (evs.set i Ev.tombstone) (out ++ [.exit])
    | some (.token k m) => processGo n (i + 1) (evs.set i Ev.tombstone) (out ++ [.token k m])
    | some (.error msg) => processGo n (i + 1) (evs.set i Ev.tombstone) (out ++ [.error msg])

/-- `event::process`; `none` = it reached `unreachable!()` or indexed out of bounds -/
def process (evs : List Ev) : Option (List Step) := processGo evs.length 0 evs []

/-- the `cfg!(debug_assertions)` block of `TopEntryPoint::parse`:
returns `false` if one of its three assertions would fail -/
def balanceCheck (steps : List Step) : Bool :=
  let rec go : List Step → Nat → Bool → Bool
    | [], depth, first => !first && depth == 0
    | s :: ss, depth, first =>
      if !(depth > 0 || first) then false
      else match s with
        | .enter _ => go ss (depth + 1) false
        | .exit => if depth == 0 then false else go ss (depth - 1) false   -- usize underflow
        | _ => go ss depth false
  go steps 0 true

end Oq3.Parser
