/-
Interface I5 (DESIGN.md §2.1): the typed AST *as the semantic pass sees it*.

For every node kind that `oq3_semantics/src/syntax_to_semantics.rs` touches, the constructor
records exactly what each accessor the pass calls on that node returns — including absence
(`Option`), and, for the three hand-written accessors that can panic on a syntax-error-free tree
(`IfStmt::true_body_block_or_stmt`, `WhileStmt::block_or_stmt`, `ForStmt::block_or_stmt`), the
fact that the call panicked (`Acc.panicked`).  Field names are the Rust accessor names in
camelCase.  Every node carries its text range (needed for diagnostics).

The values are produced by the Rust dumper `harness/src/m_ast.rs` (mode `ast`), which calls those
very accessors on the real tree, and are parsed by `Driver/Sema.lean`.  Nothing here is computed
from the CST by the model: the accessor layer (`node_ext.rs`, `expr_ext.rs`, generated `nodes.rs`)
is the previous layer's *output*.  Token-level functions (`IntNumber::value`, `BitString::str`,
`TimingLiteral::time_unit`) are modelled in `TokenExt.lean`; the dump carries their real results
too, and `Literal.consistent` states the agreement that the driver checks on every case.

`f64` parsing/printing is external (DESIGN §5): a float literal carries, next to its token text,
the string `format!("{}", float_num.value().unwrap())` produced by Rust, or `none` when
`value()` is `None`.
-/
import Oq3.Model.TokenExt

namespace Oq3.Ast
open Oq3.TokenExt

/-- `TextRange` of a node: byte offsets -/
structure Span where
  start : Nat
  stop : Nat
  deriving DecidableEq, Repr, Inhabited

/-- result of an accessor that can panic -/
inductive Acc (α : Type) where
  | ok (a : α)
  | panicked
  deriving Repr, Inhabited

/-- `ast::Name`, with `HasTextNode::string()` -/
structure Name where
  span : Span
  text : String
  deriving DecidableEq, Repr, Inhabited

/-- `ast::Identifier`, with `string()` -/
structure Identifier where
  span : Span
  text : String
  deriving DecidableEq, Repr, Inhabited

/-- `ast::HardwareQubit`, with `string()` -/
structure HardwareQubit where
  span : Span
  text : String
  deriving DecidableEq, Repr, Inhabited

/-- `ast::Param`, with `text()` -/
structure Param where
  span : Span
  text : String
  deriving DecidableEq, Repr, Inhabited

/-- `ast::ParamList`, with `params()` -/
structure ParamList where
  span : Span
  params : List Param
  deriving DecidableEq, Repr, Inhabited

/-- `ast::FilePath`, with `to_string()` -/
structure FilePath where
  span : Span
  toString? : Option String
  deriving DecidableEq, Repr, Inhabited

/-- `ast::UnaryOp` -/
inductive UnaryOp | logicNot | not | neg
  deriving DecidableEq, Repr, Inhabited

/-- `ast::ArithOp` (syntax side) -/
inductive ArithOp | add | mul | sub | div | rem | shl | shr | bitXor | bitOr | bitAnd
  deriving DecidableEq, Repr, Inhabited

inductive LogicOp | and | or
  deriving DecidableEq, Repr, Inhabited

/-- `ast::CmpOp`: `Eq { negated }` / `Ord { ordering, strict }` -/
inductive CmpOp
  | eq (negated : Bool)
  | ord (less : Bool) (strict : Bool)
  deriving DecidableEq, Repr, Inhabited

/-- `ast::BinaryOp` -/
inductive BinaryOp
  | logicOp (op : LogicOp)
  | arithOp (op : ArithOp)
  | cmpOp (op : CmpOp)
  | concatenationOp
  | powerOp
  | assignment (op : Option ArithOp)
  deriving DecidableEq, Repr, Inhabited

/-- `ast::LiteralKind`.  `value` / `fmt` / `str` are what the real accessors returned. -/
inductive LiteralKind
  /-- `IntNumber`: token text; `value()` (= `value_u128()`) as returned by Rust -/
  | intNumber (text : String) (value : Option Nat)
  /-- `FloatNumber`: token text; `value().map(|v| format!("{v}"))` — the external `f64` functions -/
  | floatNumber (text : String) (fmt : Option String)
  /-- `BitString`: token text; `str()` -/
  | bitString (text : String) (str : Option String)
  | bool (b : Bool)
  | byte | char | string
  deriving DecidableEq, Repr, Inhabited

/-- `ast::Literal`, with `kind()` -/
structure Literal where
  span : Span
  kind : LiteralKind
  deriving DecidableEq, Repr, Inhabited

/-- the token-level model agrees with what the real accessors returned (checked by the driver on
every case; a hypothesis of the C10 theorems about the semantic layer) -/
def LiteralKind.consistent : LiteralKind → Bool
  | .intNumber text value => intValueS text == value
  | .bitString text str => bitStringStr text == str
  | _ => true

/-- `ast::ScalarTypeKind` -/
inductive ScalarTypeKind
  | angle | bit | bool | complex | duration | float | int | none | stretch | uint | qubit
  deriving DecidableEq, Repr, Inhabited

/-- statement kinds the pass answers with `NotImplementedError` + `NullStmt` -/
inductive NotImplKind
  | oldStyleDeclarationStatement | defCal | cal | defCalGrammar | letStmt | measure | externStmt
  deriving DecidableEq, Repr, Inhabited

/-- expression kinds every use of which is a `panic!` arm -/
inductive UnsupportedExprKind
  | blockExpr | arrayExpr | arrayLiteral | boxExpr | dimExpr
  deriving DecidableEq, Repr, Inhabited

mutual

/-- `ast::Expr` -/
inductive Expr
  /-- `op_kind()`, `expr()` -/
  | prefixExpr (span : Span) (opKind : Option UnaryOp) (expr : Option Expr)
  | parenExpr (p : ParenExpr)
  /-- `op_kind()`, `lhs()`, `rhs()` -/
  | binExpr (span : Span) (opKind : Option BinaryOp) (lhs rhs : Option Expr)
  | literal (l : Literal)
  /-- `time_unit()`, `identifier().text()`, `literal()` -/
  | timingLiteral (span : Span) (timeUnit : Option TimeUnit) (identText : Option String)
      (literal : Option Literal)
  | identifier (i : Identifier)
  | hardwareQubit (h : HardwareQubit)
  | rangeExpr (r : RangeExpr)
  /-- `expr()`, `index_operator()` -/
  | indexExpr (span : Span) (expr : Option Expr) (indexOperator : Option IndexOperator)
  | indexedIdentifier (i : IndexedIdentifier)
  /-- `gate_operand()` -/
  | measureExpression (span : Span) (gateOperand : Option GateOperand)
  /-- `expr()` -/
  | returnExpr (span : Span) (expr : Option Expr)
  /-- `scalar_type()`, `expr()` -/
  | castExpression (span : Span) (scalarType : Option ScalarType) (expr : Option Expr)
  /-- `arg_list()`, `identifier()` -/
  | callExpr (span : Span) (argList : Option ArgList) (identifier : Option Identifier)
  | gateCallExpr (g : GateCallExpr)
  | gPhaseCallExpr (g : GPhaseCallExpr)
  /-- `modifiers()`, `gate_call_expr()`, `g_phase_call_expr()` -/
  | modifiedGateCallExpr (span : Span) (modifiers : List Modifier)
      (gateCallExpr : Option GateCallExpr) (gPhaseCallExpr : Option GPhaseCallExpr)
  | unsupported (kind : UnsupportedExprKind) (span : Span)

/-- `ast::ParenExpr`: `expr()` -/
inductive ParenExpr
  | mk (span : Span) (expr : Option Expr)

/-- `ast::RangeExpr`: the triple returned by `start_step_stop()` -/
inductive RangeExpr
  | mk (span : Span) (start step stop : Option Expr)

/-- `ast::Designator`: `expr()` -/
inductive Designator
  | mk (span : Span) (expr : Option Expr)

/-- `ast::ScalarType`: `kind()`, `designator()`, `scalar_type()` (the inner type of `complex[...]`) -/
inductive ScalarType
  | mk (span : Span) (kind : ScalarTypeKind) (designator : Option Designator)
      (scalarType : Option ScalarType)

/-- `ast::ExpressionList`: `exprs()` -/
inductive ExpressionList
  | mk (span : Span) (exprs : List Expr)

/-- `ast::SetExpression`: `expression_list()` -/
inductive SetExpression
  | mk (span : Span) (expressionList : Option ExpressionList)

/-- `ast::IndexKind` -/
inductive IndexKind
  | setExpression (s : SetExpression)
  | expressionList (e : ExpressionList)

/-- `ast::IndexOperator`: `index_kind()` -/
inductive IndexOperator
  | mk (span : Span) (indexKind : Option IndexKind)

/-- `ast::IndexedIdentifier`: `identifier()`, `index_operators()` -/
inductive IndexedIdentifier
  | mk (span : Span) (identifier : Option Identifier) (indexOperators : List IndexOperator)

/-- `ast::GateOperand` (the range of the enum is the range of the variant's node) -/
inductive GateOperand
  | hardwareQubit (h : HardwareQubit)
  | identifier (i : Identifier)
  | indexedIdentifier (i : IndexedIdentifier)

/-- `ast::QubitList`: `gate_operands()` -/
inductive QubitList
  | mk (span : Span) (gateOperands : List GateOperand)

/-- `ast::ArgList`: `expression_list()` -/
inductive ArgList
  | mk (span : Span) (expressionList : Option ExpressionList)

/-- `ast::GateCallExpr`: `qubit_list()`, `arg_list()`, `identifier()` -/
inductive GateCallExpr
  | mk (span : Span) (qubitList : Option QubitList) (argList : Option ArgList)
      (identifier : Option Identifier)

/-- `ast::GPhaseCallExpr`: `arg()` -/
inductive GPhaseCallExpr
  | mk (span : Span) (arg : Option Expr)

/-- `ast::Modifier`; `paren_expr()` for the three that can have one -/
inductive Modifier
  | invModifier (span : Span)
  | powModifier (span : Span) (parenExpr : Option ParenExpr)
  | ctrlModifier (span : Span) (parenExpr : Option ParenExpr)
  | negCtrlModifier (span : Span) (parenExpr : Option ParenExpr)

end

/-- `ast::ParamType` -/
inductive ParamType
  | scalarType (s : ScalarType)
  | arrayRefType (span : Span)

/-- `ast::TypedParam`: `param_type()`, `old_typed_param().is_some()`, `name()` -/
structure TypedParam where
  span : Span
  paramType : Option ParamType
  oldTypedParam : Bool
  name : Option Name

/-- `ast::TypedParamList`: `typed_params()` -/
structure TypedParamList where
  span : Span
  typedParams : List TypedParam

/-- `ast::ReturnSignature`: `scalar_type()` -/
structure ReturnSignature where
  span : Span
  scalarType : Option ScalarType

/-- `ast::QubitType`: `designator()` -/
structure QubitType where
  span : Span
  designator : Option Designator

/-- `ast::ForIterable`: `set_expression()`, `range_expr()`, `for_iterable_expr()` -/
structure ForIterable where
  span : Span
  setExpression : Option SetExpression
  rangeExpr : Option RangeExpr
  forIterableExpr : Option Expr

mutual

/-- `ast::Stmt` -/
inductive Stmt
  /-- `condition()`, `true_body_block_or_stmt()`, `false_body_block_or_stmt()` -/
  | ifStmt (span : Span) (condition : Option Expr) (trueBody : Acc BlockOrStmt)
      (falseBody : Option BlockOrStmt)
  /-- `condition()`, `block_or_stmt()` -/
  | whileStmt (span : Span) (condition : Option Expr) (body : Acc BlockOrStmt)
  /-- `loop_var()`, `scalar_type()`, `for_iterable()`, `block_or_stmt()` -/
  | forStmt (span : Span) (loopVar : Option Name) (scalarType : Option ScalarType)
      (forIterable : Option ForIterable) (body : Acc BlockOrStmt)
  /-- `control()`, `case_exprs()`, `default_block()` -/
  | switchCaseStmt (span : Span) (control : Option Expr) (caseExprs : List CaseExpr)
      (defaultBlock : Option BlockExpr)
  /-- `array_type().is_some()`, `scalar_type()`, `const_token().is_some()`, `name()`, `expr()` -/
  | classicalDeclarationStatement (span : Span) (arrayType : Bool) (scalarType : Option ScalarType)
      (constToken : Bool) (name : Option Name) (expr : Option Expr)
  /-- `array_type().is_some()`, `scalar_type()`, `name()`, `input_token().is_some()` -/
  | ioDeclarationStatement (span : Span) (arrayType : Bool) (scalarType : Option ScalarType)
      (name : Option Name) (inputToken : Bool)
  /-- `name()`, `hardware_qubit()`, `qubit_type()` -/
  | quantumDeclarationStatement (span : Span) (name : Option Name)
      (hardwareQubit : Option HardwareQubit) (qubitType : Option QubitType)
  /-- `identifier()`, `rhs()`, `indexed_identifier()` -/
  | assignmentStmt (span : Span) (identifier : Option Identifier) (rhs : Option Expr)
      (indexedIdentifier : Option IndexedIdentifier)
  | breakStmt (span : Span)
  | continueStmt (span : Span)
  | endStmt (span : Span)
  /-- `name()`, `angle_params()`, `qubit_params()`, `body()` -/
  | gate (span : Span) (name : Option Name) (angleParams qubitParams : Option ParamList)
      (body : Option BlockExpr)
  /-- `name()`, `typed_param_list()`, `body()`, `return_signature()` -/
  | defStmt (span : Span) (name : Option Name) (typedParamList : Option TypedParamList)
      (body : Option BlockExpr) (returnSignature : Option ReturnSignature)
  /-- `qubit_list()` -/
  | barrier (span : Span) (qubitList : Option QubitList)
  /-- `qubit_list()`, `designator()` -/
  | delayStmt (span : Span) (qubitList : Option QubitList) (designator : Option Designator)
  /-- `gate_operand()` -/
  | reset (span : Span) (gateOperand : Option GateOperand)
  /-- `file()` -/
  | includeStmt (span : Span) (file : Option FilePath)
  /-- `expr()` -/
  | exprStmt (span : Span) (expr : Option Expr)
  | versionString (span : Span)
  /-- `pragma_text()` -/
  | pragmaStatement (span : Span) (pragmaText : String)
  /-- `annotation_text()` -/
  | annotationStatement (span : Span) (annotationText : String)
  /-- `name()`, `expr()` -/
  | aliasDeclarationStatement (span : Span) (name : Option Name) (expr : Option Expr)
  | notImpl (kind : NotImplKind) (span : Span)

/-- `ast::BlockExpr`: `statements()` -/
inductive BlockExpr
  | mk (span : Span) (statements : List Stmt)

/-- `oq3_syntax::BlockOrStmt` -/
inductive BlockOrStmt
  | blockExpr (b : BlockExpr)
  | stmt (s : Stmt)

/-- `ast::CaseExpr`: `expression_list()`, `block_expr()` -/
inductive CaseExpr
  | mk (span : Span) (expressionList : Option ExpressionList) (blockExpr : Option BlockExpr)

end

/-- `ast::SourceFile`: `statements()` -/
structure Program where
  span : Span
  statements : List Stmt

/-! ### ranges -/

def ParenExpr.span : ParenExpr → Span | .mk s _ => s
def RangeExpr.span : RangeExpr → Span | .mk s .. => s
def Designator.span : Designator → Span | .mk s _ => s
def ScalarType.span : ScalarType → Span | .mk s .. => s
def ExpressionList.span : ExpressionList → Span | .mk s _ => s
def SetExpression.span : SetExpression → Span | .mk s _ => s
def IndexOperator.span : IndexOperator → Span | .mk s _ => s
def IndexedIdentifier.span : IndexedIdentifier → Span | .mk s .. => s
def QubitList.span : QubitList → Span | .mk s _ => s
def ArgList.span : ArgList → Span | .mk s _ => s
def GateCallExpr.span : GateCallExpr → Span | .mk s .. => s
def GPhaseCallExpr.span : GPhaseCallExpr → Span | .mk s _ => s
def BlockExpr.span : BlockExpr → Span | .mk s _ => s
def CaseExpr.span : CaseExpr → Span | .mk s .. => s

def GateOperand.span : GateOperand → Span
  | .hardwareQubit h => h.span
  | .identifier i => i.span
  | .indexedIdentifier i => i.span

def Expr.span : Expr → Span
  | .prefixExpr s .. | .binExpr s .. | .timingLiteral s .. | .indexExpr s ..
  | .measureExpression s .. | .returnExpr s .. | .castExpression s .. | .callExpr s ..
  | .modifiedGateCallExpr s .. | .unsupported _ s => s
  | .parenExpr p => p.span
  | .literal l => l.span
  | .identifier i => i.span
  | .hardwareQubit h => h.span
  | .rangeExpr r => r.span
  | .indexedIdentifier i => i.span
  | .gateCallExpr g => g.span
  | .gPhaseCallExpr g => g.span

def Stmt.span : Stmt → Span
  | .ifStmt s .. | .whileStmt s .. | .forStmt s .. | .switchCaseStmt s ..
  | .classicalDeclarationStatement s .. | .ioDeclarationStatement s ..
  | .quantumDeclarationStatement s .. | .assignmentStmt s .. | .breakStmt s | .continueStmt s
  | .endStmt s | .gate s .. | .defStmt s .. | .barrier s .. | .delayStmt s .. | .reset s ..
  | .includeStmt s .. | .exprStmt s .. | .versionString s | .pragmaStatement s ..
  | .annotationStatement s .. | .aliasDeclarationStatement s .. | .notImpl _ s => s


/-! ### size (number of nodes), for the default fuel of the semantic model

Structural recursion through the nested `Option`/`List`/`Acc` occurrences needs one auxiliary
function per nested type; all of them are in the two mutual blocks below. -/

mutual
def Expr.size : Expr → Nat
  | .prefixExpr _ _ e => 1 + optExprSize e
  | .parenExpr p => 1 + p.size
  | .binExpr _ _ l r => 1 + optExprSize l + optExprSize r
  | .literal _ => 1
  | .timingLiteral .. => 2
  | .identifier _ => 1
  | .hardwareQubit _ => 1
  | .rangeExpr r => 1 + r.size
  | .indexExpr _ e i => 1 + optExprSize e + optIndexOperatorSize i
  | .indexedIdentifier i => 1 + i.size
  | .measureExpression _ g => 1 + optGateOperandSize g
  | .returnExpr _ e => 1 + optExprSize e
  | .castExpression _ s e => 1 + optScalarTypeSize s + optExprSize e
  | .callExpr _ a _ => 2 + optArgListSize a
  | .gateCallExpr g => 1 + g.size
  | .gPhaseCallExpr g => 1 + g.size
  | .modifiedGateCallExpr _ ms g p => 1 + modifiersSize ms + optGateCallExprSize g + optGPhaseCallExprSize p
  | .unsupported .. => 1
def ParenExpr.size : ParenExpr → Nat
  | .mk _ e => 1 + optExprSize e
def RangeExpr.size : RangeExpr → Nat
  | .mk _ a b c => 1 + optExprSize a + optExprSize b + optExprSize c
def Designator.size : Designator → Nat
  | .mk _ e => 1 + optExprSize e
def ScalarType.size : ScalarType → Nat
  | .mk _ _ d s => 1 + optDesignatorSize d + optScalarTypeSize s
def ExpressionList.size : ExpressionList → Nat
  | .mk _ es => 1 + exprsSize es
def SetExpression.size : SetExpression → Nat
  | .mk _ el => 1 + optExpressionListSize el
def IndexKind.size : IndexKind → Nat
  | .setExpression s => 1 + s.size
  | .expressionList e => 1 + e.size
def IndexOperator.size : IndexOperator → Nat
  | .mk _ k => 1 + optIndexKindSize k
def IndexedIdentifier.size : IndexedIdentifier → Nat
  | .mk _ _ ixs => 2 + indexOperatorsSize ixs
def GateOperand.size : GateOperand → Nat
  | .hardwareQubit _ => 1
  | .identifier _ => 1
  | .indexedIdentifier i => 1 + i.size
def QubitList.size : QubitList → Nat
  | .mk _ gs => 1 + gateOperandsSize gs
def ArgList.size : ArgList → Nat
  | .mk _ el => 1 + optExpressionListSize el
def GateCallExpr.size : GateCallExpr → Nat
  | .mk _ q a _ => 2 + optQubitListSize q + optArgListSize a
def GPhaseCallExpr.size : GPhaseCallExpr → Nat
  | .mk _ e => 1 + optExprSize e
def Modifier.size : Modifier → Nat
  | .invModifier _ => 1
  | .powModifier _ p | .ctrlModifier _ p | .negCtrlModifier _ p => 1 + optParenExprSize p
def optExprSize : Option Expr → Nat
  | none => 0 | some e => e.size
def exprsSize : List Expr → Nat
  | [] => 0 | e :: es => 1 + e.size + exprsSize es
def optParenExprSize : Option ParenExpr → Nat
  | none => 0 | some e => e.size
def optDesignatorSize : Option Designator → Nat
  | none => 0 | some e => e.size
def optScalarTypeSize : Option ScalarType → Nat
  | none => 0 | some e => e.size
def optExpressionListSize : Option ExpressionList → Nat
  | none => 0 | some e => e.size
def optIndexKindSize : Option IndexKind → Nat
  | none => 0 | some e => e.size
def optIndexOperatorSize : Option IndexOperator → Nat
  | none => 0 | some e => e.size
def indexOperatorsSize : List IndexOperator → Nat
  | [] => 0 | e :: es => 1 + e.size + indexOperatorsSize es
def optGateOperandSize : Option GateOperand → Nat
  | none => 0 | some e => e.size
def gateOperandsSize : List GateOperand → Nat
  | [] => 0 | e :: es => 1 + e.size + gateOperandsSize es
def optQubitListSize : Option QubitList → Nat
  | none => 0 | some e => e.size
def optArgListSize : Option ArgList → Nat
  | none => 0 | some e => e.size
def optGateCallExprSize : Option GateCallExpr → Nat
  | none => 0 | some e => e.size
def optGPhaseCallExprSize : Option GPhaseCallExpr → Nat
  | none => 0 | some e => e.size
def modifiersSize : List Modifier → Nat
  | [] => 0 | e :: es => 1 + e.size + modifiersSize es
end

def ParamType.size : ParamType → Nat
  | .scalarType s => 1 + s.size
  | .arrayRefType _ => 1

def TypedParam.size (p : TypedParam) : Nat :=
  2 + (match p.paramType with | some t => t.size | none => 0)

def typedParamsSize : List TypedParam → Nat
  | [] => 0 | p :: ps => 1 + p.size + typedParamsSize ps

def ForIterable.size (f : ForIterable) : Nat :=
  1 + (match f.setExpression with | some s => s.size | none => 0)
    + (match f.rangeExpr with | some s => s.size | none => 0)
    + optExprSize f.forIterableExpr

mutual
def Stmt.size : Stmt → Nat
  | .ifStmt _ c t f => 1 + optExprSize c + accBosSize t + optBosSize f
  | .whileStmt _ c b => 1 + optExprSize c + accBosSize b
  | .forStmt _ _ st it b =>
    2 + optScalarTypeSize st + (match it with | some i => i.size | none => 0) + accBosSize b
  | .switchCaseStmt _ c cs d => 1 + optExprSize c + casesSize cs + optBlockSize d
  | .classicalDeclarationStatement _ _ st _ _ e => 2 + optScalarTypeSize st + optExprSize e
  | .ioDeclarationStatement _ _ st _ _ => 2 + optScalarTypeSize st
  | .quantumDeclarationStatement _ _ _ qt =>
    3 + (match qt with | some q => optDesignatorSize q.designator | none => 0)
  | .assignmentStmt _ _ rhs ii =>
    2 + optExprSize rhs + (match ii with | some i => i.size | none => 0)
  | .breakStmt _ | .continueStmt _ | .endStmt _ => 1
  | .gate _ _ a q b =>
    2 + (match a with | some l => l.params.length | none => 0)
      + (match q with | some l => l.params.length | none => 0) + optBlockSize b
  | .defStmt _ _ tp b rs =>
    2 + (match tp with | some l => typedParamsSize l.typedParams | none => 0) + optBlockSize b
      + (match rs with | some r => 1 + optScalarTypeSize r.scalarType | none => 0)
  | .barrier _ q => 1 + optQubitListSize q
  | .delayStmt _ q d => 1 + optQubitListSize q + optDesignatorSize d
  | .reset _ g => 1 + optGateOperandSize g
  | .includeStmt .. => 2
  | .exprStmt _ e => 1 + optExprSize e
  | .versionString _ => 1
  | .pragmaStatement .. => 1
  | .annotationStatement .. => 1
  | .aliasDeclarationStatement _ _ e => 2 + optExprSize e
  | .notImpl .. => 1
def BlockExpr.size : BlockExpr → Nat
  | .mk _ ss => 1 + stmtsSize ss
def BlockOrStmt.size : BlockOrStmt → Nat
  | .blockExpr b => 1 + b.size
  | .stmt s => 1 + s.size
def CaseExpr.size : CaseExpr → Nat
  | .mk _ el b => 1 + optExpressionListSize el + optBlockSize b
def stmtsSize : List Stmt → Nat
  | [] => 0 | s :: ss => 1 + s.size + stmtsSize ss
def casesSize : List CaseExpr → Nat
  | [] => 0 | s :: ss => 1 + s.size + casesSize ss
def optBlockSize : Option BlockExpr → Nat
  | none => 0 | some b => b.size
def optBosSize : Option BlockOrStmt → Nat
  | none => 0 | some b => b.size
def accBosSize : Acc BlockOrStmt → Nat
  | .panicked => 0 | .ok b => b.size
end

def Program.size (p : Program) : Nat := 1 + stmtsSize p.statements

end Oq3.Ast
