/-
The expression core of `grammar/expressions.rs` (`expr_bp`, `lhs`, the binary-operator loop)
abstracted from events to trees, PARAMETRIC in the operator table, plus the instance of the
table translated from `current_op` (`Oq3.Gen.Ops.currentOpRows`).

This abstraction is tied to the real parser by the correspondence run of `bin/check C05`
(every operator pair and triple, parsed by the real parser and by `exprBp` with the translated
table, tree shapes compared).
-/
import Oq3.Gen.Ops
import Oq3.Gen.TokenSets

namespace Oq3.Pratt
open Oq3.Gen

inductive Assoc | left | right
  deriving DecidableEq, Repr, Inhabited

abbrev Op := SyntaxKind

structure Tab where
  pow : Op → Nat
  assoc : Op → Assoc
  /-- may an expression start with this prefix operator? (`expr_bp` first tests
  `p.at_ts(EXPR_FIRST)`) -/
  preOK : Op → Bool

inductive Tok
  | atom (n : Nat)            -- identifier / literal / any primary with its postfix operators
  | op (o : Op)               -- binary operator token (composite tokens already glued)
  | pre (o : Op)              -- prefix operator token `~ ! -`
  | lp | rp
  deriving DecidableEq, Repr, Inhabited

inductive E
  | atom (n : Nat)
  | bin (o : Op) (l r : E)
  | pre (o : Op) (e : E)
  | paren (e : E)
  deriving DecidableEq, Repr, Inhabited

def print : E → List Tok
  | .atom n => [.atom n]
  | .bin o l r => print l ++ .op o :: print r
  | .pre o e => .pre o :: print e
  | .paren e => .lp :: (print e ++ [.rp])

/-- the binding power the right operand is parsed at: `op_bp + 1` for left-associative
operators, `op_bp` for right-associative ones -/
def rbp (t : Tab) (o : Op) : Nat := match t.assoc o with | .left => t.pow o + 1 | .right => t.pow o

/-- binding power at which the operand of a prefix operator is parsed (`expr_bp(p, None, r, 255)`) -/
def prefixBp : Nat := 255

mutual
/-- `expr_bp` -/
def exprBp (t : Tab) : Nat → Nat → List Tok → Option (E × List Tok)
  | 0, _, _ => none
  | fuel+1, bp, ts =>
    match primary t fuel ts with
    | none => none
    | some (lhs, ts') => loop t fuel bp lhs ts'
/-- `lhs` / `atom_expr` -/
def primary (t : Tab) : Nat → List Tok → Option (E × List Tok)
  | 0, _ => none
  | fuel+1, ts =>
    match ts with
    | .atom n :: ts => some (.atom n, ts)
    | .pre o :: ts =>
      if t.preOK o then
        match exprBp t fuel prefixBp ts with
        | some (e, ts') => some (.pre o e, ts')
        | none => none
      else none
    | .lp :: ts =>
      match exprBp t fuel 1 ts with
      | some (e, .rp :: ts') => some (.paren e, ts')
      | _ => none
    | _ => none
/-- the `loop { … }` of `expr_bp` -/
def loop (t : Tab) : Nat → Nat → E → List Tok → Option (E × List Tok)
  | 0, _, _, _ => none
  | fuel+1, bp, lhs, ts =>
    match ts with
    | .op o :: ts' =>
      if t.pow o < bp then some (lhs, ts)
      else match exprBp t fuel (rbp t o) ts' with
        | none => none
        | some (r, ts'') => loop t fuel bp (.bin o lhs r) ts''
    | _ => some (lhs, ts)
end

/-! ### the translated table -/

def rowFor (o : Op) : Option (Nat × Ops.Assoc) :=
  (Ops.currentOpRows.findSome? fun r =>
    match r.2.2 with
    | some (bp, k, a) => if k == o then some (bp, a) else none
    | none => none)

/-- the implementation's table: binding power and associativity per operator token, as
`current_op` returns them (0 = not an operator) -/
def implTab : Tab :=
  { pow := fun o => match rowFor o with | some (bp, _) => bp | none => 0
    assoc := fun o => match rowFor o with | some (_, .right) => .right | _ => .left
    preOK := fun o => TokenSets.EXPR_FIRST.contains o }

end Oq3.Pratt
