/-
Model of include handling (C18):
* `crates/oq3_source_file/src/source_file.rs`: `resolve_file_path`, `parse_source_and_includes`,
  `parse_included_files` / `parse_one_included`, `SourceTrait::have_syntax_errors`;
* `crates/oq3_semantics/src/syntax_to_semantics.rs`: `analyze_source` and the include arm of
  `syntax_to_semantic` (lock-step `included_iter`, per-file error lists).

The file system, the environment variable and the syntax layers (text ↦ lexer-error / syntax
errors / typed AST) are PARAMETERS: an abstract `FS` (path ↦ readable content), search lists,
and `parse : String → Parsed`.  Paths are strings; `Path::join` is `joinPath`; every relative
path is relative to the process working directory, as in the Rust.
-/
import Oq3.Model.Sema

namespace Oq3.Includes
open Oq3.Sema

/-- result of `fs::read_to_string` -/
inductive ReadResult
  | ok (content : String)
  | notFound | permissionDenied | other
  deriving DecidableEq, Repr, Inhabited

/-- abstract file system: what `Path::is_file` and `fs::read_to_string` answer -/
structure FS where
  isFile : String → Bool
  read : String → ReadResult

def isAbsolute (p : String) : Bool := p.startsWith "/"

/-- `Path::join` (an absolute second component replaces the first) -/
def joinPath (dir file : String) : String :=
  if isAbsolute file then file
  else if dir.isEmpty then file
  else if dir.endsWith "/" then dir ++ file else dir ++ "/" ++ file

def firstHit (fs : FS) (file : String) : List String → Option String
  | [] => none
  | d :: ds => if fs.isFile (joinPath d file) then some (joinPath d file) else firstHit fs file ds

/-- `resolve_file_path`: `search` = the list given by the caller, `env` = `QASM3_PATH` split -/
def resolveFilePath (fs : FS) (file : String) (search env : Option (List String)) : String :=
  if isAbsolute file then file
  else match search with
    | some paths => (firstHit fs file paths).getD file
    | none => match env with
      | some paths => (firstHit fs file paths).getD file
      | none => file

/-- what the syntax layers make of a text (`SourceFile::parse_check_lex`) -/
inductive Parsed
  | lexErrors (n : Nat)                                   -- no tree
  | syntaxErrors (n : Nat) (includes : List (Option (Option String)))
      -- tree with `n > 0` parser diagnostics; top-level include statements:
      -- `none` = `include.file()` is None, `some none` = `to_string()` is None
  | clean (ast : Ast.Program)
  deriving Inhabited

/-- a parsed source with its included files (`SourceFile`) -/
inductive PSrc
  | mk (path : String) (parsed : Option Parsed) (includeError : Option ReadResult) (included : List PSrc)
  deriving Inhabited

def PSrc.path : PSrc → String | .mk p .. => p
def PSrc.parsed : PSrc → Option Parsed | .mk _ p .. => p
def PSrc.includeError : PSrc → Option ReadResult | .mk _ _ e _ => e
def PSrc.included : PSrc → List PSrc | .mk _ _ _ i => i

/-- the top-level include statements of a parsed text, as `parse_included_files` sees them -/
def includesOf : Parsed → List (Option (Option String))
  | .lexErrors _ => []
  | .syntaxErrors _ incs => incs
  | .clean ast => ast.statements.filterMap fun
    | .includeStmt _ file => some (file.map (·.toString?))
    | _ => none

def Parsed.haveParse : Parsed → Bool
  | .lexErrors _ => false
  | _ => true

inductive Outcome
  | panic (site : String)
  | fuel
  deriving DecidableEq, Repr, Inhabited

mutual
/-- `parse_source_and_includes` -/
def parseSourceAndIncludes (fs : FS) (parse : String → Parsed) (search env : Option (List String)) :
    Nat → String → Except Outcome (Parsed × List PSrc)
  | 0, _ => .error .fuel
  | fuel + 1, text =>
    let p := parse text
    if p.haveParse then
      match parseIncludedFiles fs parse search env fuel (includesOf p) with
      | .ok incs => .ok (p, incs)
      | .error e => .error e
    else .ok (p, [])
/-- `parse_included_files` (the filter_map over the include statements) -/
def parseIncludedFiles (fs : FS) (parse : String → Parsed) (search env : Option (List String)) :
    Nat → List (Option (Option String)) → Except Outcome (List PSrc)
  | 0, _ => .error .fuel
  | _ + 1, [] => .ok []
  -- an include statement without a (well-formed) path: reported by the parser, nothing to read
  -- (`include.file()?`, `file.to_string()?` since the repair of finding F16)
  | fuel + 1, none :: rest => parseIncludedFiles fs parse search env fuel rest
  | fuel + 1, some none :: rest => parseIncludedFiles fs parse search env fuel rest
  | fuel + 1, some (some filePath) :: rest =>
    if filePath == "stdgates.inc" then parseIncludedFiles fs parse search env fuel rest
    else
      let full := resolveFilePath fs filePath search env
      -- `parse_one_included`
      let one : Except Outcome PSrc :=
        match fs.read full with
        | .ok content =>
          match parseSourceAndIncludes fs parse search env fuel content with
          | .ok (p, incs) => .ok (.mk full (some p) none incs)
          | .error e => .error e
        | err => .ok (.mk full none (some err) [])
      match one with
      | .error e => .error e
      | .ok src =>
        match parseIncludedFiles fs parse search env fuel rest with
        | .ok more => .ok (src :: more)
        | .error e => .error e
end

mutual
/-- `SourceTrait::have_syntax_errors` -/
def haveSyntaxErrors : PSrc → Bool
  | .mk _ parsed _ included =>
    (match parsed with
      | some (.lexErrors n) => n != 0
      | some (.syntaxErrors n _) => n != 0
      | _ => false) || anyHaveSyntaxErrors included
def anyHaveSyntaxErrors : List PSrc → Bool
  | [] => false
  | s :: ss => haveSyntaxErrors s || anyHaveSyntaxErrors ss
end

/-- per-file semantic diagnostics (`SemanticErrorList`) -/
inductive ErrTree
  | mk (path : String) (errs : List SemErr) (kids : List ErrTree)
  deriving Inhabited

def ioErrorKind : ReadResult → SemanticErrorKind
  | .notFound => .fileNotFound
  | .permissionDenied => .permissionDenied
  | _ => .ioError

def getErrors : M (List SemErr) := do return (← get).semanticErrors
def setErrors (e : List SemErr) : M Unit := modify fun c => { c with semanticErrors := e }

/-- `syntax_to_semantic` with real includes: the statements of one file, the not yet consumed
included files of that file (`included_iter`); returns the error trees of the files included
from here, in order -/
def syntaxToSemanticInc : Nat → List Ast.Stmt → List PSrc → M (List ErrTree)
  | 0, _, _ => throw .fuel
  | _ + 1, [], _ => pure []
  | fuel + 1, parseStmt :: rest, inc => do
    match parseStmt with
    | .includeStmt span file => do
      let file ← unwrap "syntax_to_semantic: include.file() is None" file
      let filePath ← unwrap "syntax_to_semantic: file.to_string() is None" file.toString?
      if filePath == "stdgates.inc" then
        standardLibraryGates span
        syntaxToSemanticInc fuel rest inc
      else
        match inc with
        | [] => fail "syntax_to_semantic: included_iter.next() is None"
        | src :: inc' => do
          if (← currentScopeType) != .global then
            insertError .includeNotInGlobalScopeError span
          let tree ← match src.includeError, src.parsed with
            | none, some (.clean ast) => do
              let saved ← getErrors
              setErrors []
              let kids ← syntaxToSemanticInc fuel ast.statements src.included
              let errs ← getErrors
              setErrors saved
              pure (ErrTree.mk src.path errs kids)
            | none, _ => fail "syntax_to_semantic: syntax_ast().unwrap().tree() of an unparsed include"
            | some err, _ => do
              insertError (ioErrorKind err) file.span
              pure (ErrTree.mk src.path [] [])
          let more ← syntaxToSemanticInc fuel rest inc'
          pure (tree :: more)
    | stmt => do
      let r ← stmtToAsgStmt fuel stmt
      match r with
      | some stmt =>
        if ← annotationsIsEmpty then insertStmt stmt
        else
          match stmt with
          | .annotatedStmt .. =>
            fail "AnnotatedStmt::new: annotation of annotated statement is not allowed"
          | _ => insertStmt (.annotatedStmt stmt (← takeAnnotations))
      | none => pure ()
      syntaxToSemanticInc fuel rest inc

/-- `analyze_source`: `none` = analysis skipped because of syntax errors -/
def analyzeSource (fuel : Nat) (main : Parsed) (included : List PSrc) :
    Except Sema.Outcome (Option (Ctx × List ErrTree)) :=
  if haveSyntaxErrors (.mk "" (some main) none included) then .ok none
  else match main with
    | .clean ast =>
      match (syntaxToSemanticInc fuel ast.statements included).run {} with
      | .ok (trees, c) => .ok (some (c, trees))
      | .error e => .error e
    | _ => .ok none

end Oq3.Includes
