/-
Model of `crates/oq3_semantics/src/types.rs` (and `asg.rs:implicit_cast_type`).

Hand-written, function by function, under the same names.  Widths are `Option Nat`
(the Rust `Option<u32>`; no arithmetic other than `max` is ever done on them, so no
overflow can occur and `Nat` is exact).  `IsConst` is a `Bool`.

Tie to the code: `bin/check C20` runs every function below and the real function on the
same (exhaustively enumerated) finite abstraction of the type space and diffs the outputs.
-/
namespace Oq3.Types

abbrev Width := Option Nat

inductive Dims
  | d1 (a : Nat) | d2 (a b : Nat) | d3 (a b c : Nat)
  deriving DecidableEq, Repr, Inhabited

def Dims.numDims : Dims → Nat
  | .d1 .. => 1 | .d2 .. => 2 | .d3 .. => 3

def Dims.dims : Dims → List Nat
  | .d1 a => [a] | .d2 a b => [a, b] | .d3 a b c => [a, b, c]

/-- `enum Type`.  Constructor names avoid clashes with root names. -/
inductive T
  | bit (c : Bool) | qubit | hwqubit
  | int (w : Width) (c : Bool) | uint (w : Width) (c : Bool) | float (w : Width) (c : Bool)
  | angle (w : Width) (c : Bool) | complex (w : Width) (c : Bool)
  | boolT (c : Bool) | duration (c : Bool) | stretch (c : Bool)
  | bitArray (d : Dims) (c : Bool) | qubitArray (d : Dims) | intArray (d : Dims)
  | uintArray (d : Dims) | floatArray (d : Dims) | angleArray (d : Dims)
  | complexArray (d : Dims) | boolArray (d : Dims) | durationArray (d : Dims)
  | gate (np nq : Nat) | subroutine (n : Nat) (ret : T)
  | range | set | void | todo | undefined
  deriving DecidableEq, Repr, Inhabited

/-- `enum BaseType` -/
inductive Tag
  | bit | qubit | hwqubit | int | uint | float | angle | complex | boolT | duration | stretch
  | bitArray | qubitArray | intArray | uintArray | floatArray | angleArray | complexArray
  | boolArray | durationArray | gate | subroutine | range | set | void | todo | undefined
  deriving DecidableEq, Repr, Inhabited

open T

/-- `Type::base_type` -/
def tag : T → Tag
  | .bit _ => .bit | .qubit => .qubit | .hwqubit => .hwqubit | .int .. => .int | .uint .. => .uint
  | .float .. => .float | .angle .. => .angle | .complex .. => .complex | .boolT _ => .boolT
  | .duration _ => .duration | .stretch _ => .stretch | .bitArray .. => .bitArray
  | .qubitArray _ => .qubitArray | .intArray _ => .intArray | .uintArray _ => .uintArray
  | .floatArray _ => .floatArray | .angleArray _ => .angleArray | .complexArray _ => .complexArray
  | .boolArray _ => .boolArray | .durationArray _ => .durationArray | .gate .. => .gate
  | .subroutine .. => .subroutine | .range => .range | .set => .set | .void => .void
  | .todo => .todo | .undefined => .undefined

/-- `Type::is_const` -/
def isConst : T → Bool
  | bit c | int _ c | uint _ c | float _ c | angle _ c | complex _ c | boolT c | duration c
  | stretch c | bitArray _ c => c
  | _ => true

/-- `Type::width` -/
def width : T → Width
  | int w _ | uint w _ | float w _ | angle w _ | complex w _ => w
  | _ => none

/-- `Type::is_scalar` -/
def isScalar : T → Bool
  | bit .. | int .. | uint .. | float .. | angle .. | complex .. | boolT .. | duration ..
  | stretch .. => true
  | _ => false

/-- `Type::is_quantum` -/
def isQuantum : T → Bool
  | qubit | qubitArray .. | hwqubit => true
  | _ => false

/-- `Type::dims` (only three array kinds answer, as in the Rust) -/
def dims : T → Option (List Nat)
  | qubitArray d | intArray d | bitArray d _ => some d.dims
  | _ => none

/-- `Type::num_dims` -/
def numDims : T → Nat
  | qubitArray d | intArray d | bitArray d _ => d.numDims
  | _ => 0

/-- dims payload of a `BitArray`, used by `equal_up_to_constness` -/
def bitArrayDims : T → Option Dims
  | bitArray d _ => some d
  | _ => none

/-- `equal_up_to_constness` -/
def equalUpToConstness (a b : T) : Bool :=
  if a = b then true else
  match tag a, tag b with
  | .bit, .bit | .duration, .duration | .boolT, .boolT | .stretch, .stretch => true
  | .int, .int | .uint, .uint | .float, .float | .complex, .complex | .angle, .angle =>
      width a == width b
  | .bitArray, .bitArray => bitArrayDims a == bitArrayDims b
  | _, _ => false

/-- `equal_base_type` -/
def equalBaseType (a b : T) : Bool := tag a == tag b

/-- `Type::equal_up_to_shape` -/
def equalUpToShape (a b : T) : Bool :=
  if a = b then true
  else if tag a == .bitArray && tag b == .bitArray then true
  else if tag a == .qubitArray && tag b == .qubitArray then true
  else false

/-- `Type::equal_up_to_dims` -/
def equalUpToDims (a b : T) : Bool :=
  if a = b then true
  else if numDims a != numDims b then false
  else equalUpToShape a b

/-- `promote_constness` -/
def promoteConstness (a b : T) : Bool := isConst a && isConst b

/-- `promote_width` -/
def promoteWidth (a b : T) : Width :=
  match width a, width b with
  | some x, some y => some (max x y)
  | _, _ => none

/-- `promote_type_width` -/
def promoteTypeWidth (a b : T) : T :=
  let c := promoteConstness a b
  match tag a, tag b with
  | .int, .int => int (promoteWidth a b) c
  | .uint, .uint => uint (promoteWidth a b) c
  | .float, .float => float (promoteWidth a b) c
  | _, _ => void

/-- `promote_base_type` (the recursive call with swapped arguments is unfolded) -/
def promoteBaseType (a b : T) : T :=
  match tag a, tag b with
  | .int, .float | .uint, .float | .float, .complex | .int, .complex | .uint, .complex => b
  | .float, .int | .float, .uint | .complex, .float | .complex, .int | .complex, .uint => a
  | _, _ => void

/-- `promote_types_not_equal` -/
def promoteTypesNotEqual (a b : T) : T :=
  let t := promoteTypeWidth a b
  if t ≠ void then t else promoteBaseType a b

/-- `promote_types` -/
def promoteTypes (a b : T) : T :=
  if equalUpToConstness a b then a else
  let t := promoteTypeWidth a b
  if t ≠ void then t else promoteBaseType a b

/-- `can_cast_literal` -/
def canCastLiteral (t lit : T) : Bool :=
  if equalBaseType t lit then true else
  match tag t, tag lit with
  | .float, .int | .float, .uint | .complex, .float | .complex, .int | .complex, .uint => true
  | _, _ => false

/-- `asg.rs: enum ArithOp` -/
inductive ArithOp
  | add | sub | mul | div | rem | mod | shl | shr | bitXOr | bitOr | bitAnd
  deriving DecidableEq, Repr, Inhabited

/-- `asg.rs: implicit_cast_type` -/
def implicitCastType (op : ArithOp) (a b : T) : T :=
  match op with
  | .div =>
    if tag a == .float || tag b == .float then promoteTypes a b else float none false
  | _ => promoteTypes a b

/-- the type with its const flag cleared (specification helper, not in the Rust) -/
def unconst : T → T
  | bit _ => bit false | int w _ => int w false | uint w _ => uint w false
  | float w _ => float w false | angle w _ => angle w false | complex w _ => complex w false
  | boolT _ => boolT false | duration _ => duration false | stretch _ => stretch false
  | bitArray d _ => bitArray d false
  | t => t

end Oq3.Types
