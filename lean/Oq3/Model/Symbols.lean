/-
Model of `crates/oq3_semantics/src/symbols.rs`: `SymbolTable` as a stack of per-scope maps plus
the append-only vector of all symbols.

* `HashMap<String, SymbolId>` is modelled as an association list with *replace-on-insert*
  (the semantics of `HashMap::insert`), so that "no binding is ever overwritten" is a theorem
  (`Props/C19.lean`), not an assumption of the model.
* The stack is kept innermost-first (`Vec::last` = head).
* `symbol_id_counter` is modelled separately from `all_symbols.len()`; their equality is part of
  the invariant.
* `panic!`/`assert!` are the output `Out.panic`; the state is left unchanged (the Rust aborts).
-/
import Oq3.Model.Types
import Oq3.Gen.StdGates

namespace Oq3.Symbols
open Oq3.Types

abbrev Name := String

inductive ScopeType | global | subroutine | calibration | localS
  deriving DecidableEq, Repr, Inhabited

structure Sym where
  name : Name
  ty   : T
  deriving DecidableEq, Repr, Inhabited

/-- one `ScopeSymbolTable` -/
structure Scope where
  tab  : List (Name × Nat)
  kind : ScopeType
  deriving DecidableEq, Repr, Inhabited

/-- `HashMap::get` -/
def Scope.get (s : Scope) (n : Name) : Option Nat :=
  (s.tab.find? (fun p => p.1 == n)).map (·.2)

/-- `HashMap::contains_key` -/
def Scope.containsName (s : Scope) (n : Name) : Bool := (s.get n).isSome

/-- `HashMap::insert` (replaces an existing entry for the key) -/
def Scope.insert (s : Scope) (n : Name) (id : Nat) : Scope :=
  { s with tab := (n, id) :: s.tab.filter (fun p => !(p.1 == n)) }

/-- `HashMap::len` -/
def Scope.len (s : Scope) : Nat := s.tab.length

structure SymTab where
  stack   : List Scope          -- innermost first
  all     : List Sym            -- index = symbol id
  counter : Nat                 -- `symbol_id_counter`
  deriving DecidableEq, Repr, Inhabited

inductive Op
  | enter (k : ScopeType)
  | exit
  | bind (n : Name) (ty : T)            -- `new_binding`
  | lookup (n : Name)
  | lookupOrNew (n : Name) (ty : T)     -- `lookup_or_new_binding`
  | lenCurrent                          -- `len_current_scope`
  deriving Repr, Inhabited

inductive Out
  | unit
  | panic
  | bound (id : Nat)
  | alreadyBound
  | found (id : Nat) (name : Name) (ty : T)
  | missing
  | len (n : Nat)
  deriving DecidableEq, Repr, Inhabited

/-- `SymbolTable::lookup`, the id only: scopes are searched innermost first -/
def SymTab.lookupId (t : SymTab) (n : Name) : Option Nat :=
  t.stack.findSome? (·.get n)

/-- `new_binding_no_check` -/
def SymTab.newBindingNoCheck (t : SymTab) (n : Name) (ty : T) : Option (SymTab × Nat) :=
  match t.stack with
  | [] => none                       -- `last_mut().unwrap()` would panic
  | s :: rest =>
    some ({ stack := s.insert n t.counter :: rest,
            all := t.all ++ [⟨n, ty⟩],
            counter := t.counter + 1 }, t.counter)

def SymTab.step (t : SymTab) : Op → SymTab × Out
  | .enter k =>
    if k = .global ∧ t.stack.length > 0 then (t, .panic)
    else ({ t with stack := ⟨[], k⟩ :: t.stack }, .unit)
  | .exit =>
    if t.stack.length > 1 then ({ t with stack := t.stack.tail }, .unit) else (t, .panic)
  | .bind n ty =>
    match t.stack with
    | [] => (t, .panic)
    | s :: _ =>
      if s.containsName n then (t, .alreadyBound)
      else match t.newBindingNoCheck n ty with
        | some (t', id) => (t', .bound id)
        | none => (t, .panic)
  | .lookup n =>
    match t.lookupId n with
    | some id => match t.all[id]? with
      | some s => (t, .found id s.name s.ty)
      | none => (t, .panic)                 -- index out of bounds
    | none => (t, .missing)
  | .lookupOrNew n ty =>
    match t.lookupId n with
    | some id => match t.all[id]? with
      | some _ => (t, .bound id)
      | none => (t, .panic)
    | none => match t.newBindingNoCheck n ty with
      | some (t', id) => (t', .bound id)
      | none => (t, .panic)
  | .lenCurrent =>
    match t.stack with
    | [] => (t, .panic)
    | s :: _ => (t, .len s.len)

def run (t : SymTab) : List Op → SymTab
  | [] => t
  | op :: ops => run (t.step op).1 ops

/-- outputs of a history, in order -/
def outs (t : SymTab) : List Op → List Out
  | [] => []
  | op :: ops => (t.step op).2 :: outs (t.step op).1 ops

def empty : SymTab := { stack := [], all := [], counter := 0 }

/-- the built-in constants: TRANSLATED from `SymbolTable::new` on every run (`Oq3/Gen/StdGates.lean`) -/
def builtinConsts : List Name := Oq3.Gen.builtinConsts

/-- `SymbolTable::new` -/
def init : SymTab :=
  run empty (Op.enter .global ::
    (builtinConsts.map (fun n => Op.bind n (T.float (some Oq3.Gen.builtinConstWidth) Oq3.Gen.builtinConstIsConst)) ++
      [Op.bind Oq3.Gen.builtinGate.1 (T.gate Oq3.Gen.builtinGate.2.1 Oq3.Gen.builtinGate.2.2)]))

/-- `SymbolTable::gates` -/
def SymTab.gates (t : SymTab) : List (Name × Nat × Nat × Nat) :=
  (t.all.zipIdx).filterMap fun (s, i) =>
    match s.ty with
    | .gate np nq => if s.name == "U" then none else some (s.name, i, np, nq)
    | _ => none

/-- `SymbolTable::hardware_qubits` -/
def SymTab.hardwareQubits (t : SymTab) : List (Name × Nat) :=
  (t.all.zipIdx).filterMap fun (s, i) =>
    match s.ty with
    | .hwqubit => some (s.name, i)
    | _ => none

/-- `standard_library_gates`'s table, in binding order: TRANSLATED from the source on every run
(`Oq3/Gen/StdGates.lean`, vf/extract.py `gen_std_gates`) -/
def stdGateTable : List (List Name × Nat × Nat) := Oq3.Gen.stdGateTable

def stdGates : List (Name × Nat × Nat) :=
  stdGateTable.flatMap fun (ns, np, nq) => ns.map fun n => (n, np, nq)

/-- `standard_library_gates`: binds every gate; returns the names that were already bound -/
def SymTab.standardLibraryGates (t : SymTab) : SymTab × List Name :=
  stdGates.foldl (fun (acc : SymTab × List Name) (g : Name × Nat × Nat) =>
    match acc.1.step (.bind g.1 (T.gate g.2.1 g.2.2)) with
    | (t', .bound _) => (t', acc.2)
    | (t', _) => (t', acc.2 ++ [g.1])) (t, [])

end Oq3.Symbols
