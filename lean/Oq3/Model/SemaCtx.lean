/-
Model of `crates/oq3_semantics/src/context.rs`, `semantic_error.rs` (kinds), and of the
NON-recursive functions of `syntax_to_semantics.rs` (those that never call back into
`expr_to_asg_texpr` / `stmt_to_asg_stmt`): `binary_op_to_asg_type`, `literal_to_asg_texpr`,
`negative_*_to_asg_type`, `hardware_qubit_to_asg_type`, `lookup_identifier`, `designator_to_asg`,
`scalar_type_to_type`, `param_type_to_type`, `can_cast_literal`, `declare_classical_helper`,
`io_declaration_statement_to_asg_stmt`, `bind_parameter_list`, `bind_typed_parameter_list`.
The recursive part is in `Sema.lean`.

Monad: `M = StateT Ctx (Except Outcome)`.  Every `panic!`/`todo!`/`unreachable!`/`unwrap()` on
`None`/`Err` is `fail "<rust fn name>: <reason>"`.  The symbol table is `Oq3.Symbols.SymTab`,
driven only through `SymTab.step` (`symStep`), plus reads of the current scope's kind.
`with_scope!(ctx, k, body)` is `enterScope k; body; exitScope` — no early exit exists in the Rust
(no `?`/`return` inside any use of the macro).
-/
import Oq3.Model.Types
import Oq3.Model.Symbols
import Oq3.Model.Ast
import Oq3.Model.Asg

namespace Oq3.Sema
open Oq3.Types Oq3.Symbols

/-- `semantic_error.rs: enum SemanticErrorKind` (payload of `RedeclarationError` dropped) -/
inductive SemanticErrorKind
  | undefVarError | undefGateError | redeclarationError | constIntegerError
  | incompatibleTypesError | incompatibleDimensionError | tooManyIndexes | castError
  | mutateConstError | notInGlobalScopeError | includeNotInGlobalScopeError
  | returnInGlobalScopeError | numGateParamsError | numGateQubitsError | numDefParamsError
  | fileNotFound | permissionDenied | isADirectory | invalidFilename | invalidDesignatorError
  | ioError | notImplementedError
  deriving DecidableEq, Repr, Inhabited

/-- one `SemanticError`: kind and the text range of its node -/
structure SemErr where
  kind : SemanticErrorKind
  start : Nat
  stop : Nat
  deriving DecidableEq, Repr, Inhabited

inductive Outcome
  | panic (site : String)
  | unsupportedInclude
  | fuel
  deriving DecidableEq, Repr, Inhabited

/-- `context.rs: struct Context` -/
structure Ctx where
  program : List Stmt := []
  semanticErrors : List SemErr := []
  symbolTable : SymTab := Symbols.init
  /-- `HashMap<SymbolId, TExpr>` as an association list with `insert` = replace -/
  constValues : List (Nat × TExpr) := []
  annotations : List String := []

abbrev M := StateT Ctx (Except Outcome)

/-- a modelled panic -/
def fail {α : Type} (site : String) : M α := throw (Outcome.panic site)

/-- `Option::unwrap` -/
def unwrap {α : Type} (site : String) : Option α → M α
  | some a => pure a
  | none => fail site

/-- `Context::insert_error(kind, node)` -/
def insertError (k : SemanticErrorKind) (node : Ast.Span) : M Unit :=
  modify fun c => { c with semanticErrors := c.semanticErrors ++ [⟨k, node.start, node.stop⟩] }

/-- one `SymTab.step`; a `panic` output of the table is a panic at `site` -/
def symStep (site : String) (op : Op) : M Out := do
  let c ← get
  let r := c.symbolTable.step op
  match r.2 with
  | .panic => fail site
  | out =>
    set { c with symbolTable := r.1 }
    pure out

/-- `SymbolTable::enter_scope` -/
def enterScope (k : ScopeType) : M Unit := do
  let _ ← symStep "enter_scope: the unique global scope must be the first scope" (.enter k)

/-- `SymbolTable::exit_scope` -/
def exitScope : M Unit := do
  let _ ← symStep "exit_scope: assertion failed (exiting the global scope)" .exit

/-- `with_scope!(ctx, k, body)`: `enter_scope(k); body; exit_scope()` — the macro has no early
exit (no `?`/`return` occurs inside any of its uses) -/
def withScope {α : Type} (k : ScopeType) (body : M α) : M α := do
  enterScope k
  let r ← body
  exitScope
  pure r

/-- `SymbolTable::current_scope_type` -/
def currentScopeType : M ScopeType := do
  match (← get).symbolTable.stack with
  | s :: _ => pure s.kind
  | [] => fail "current_scope: no scope"

/-- `SymbolTable::in_global_scope` -/
def inGlobalScope : M Bool := do
  return (← currentScopeType) == .global

/-- `Context::new_binding`: `SymbolTable::new_binding`, logging `RedeclarationError` -/
def newBinding (name : String) (typ : T) (node : Ast.Span) : M SymbolIdResult := do
  match ← symStep "current_scope: no scope" (.bind name typ) with
  | .bound id => pure (.ok id)
  | .alreadyBound =>
    insertError .redeclarationError node
    pure (.error .alreadyBound)
  | _ => fail "new_binding: model error"

/-- `SymbolTable::lookup(name)` followed by `.as_tuple()` (`Type::Undefined` on `Err`) -/
def tableLookup (name : String) : M (SymbolIdResult × T) := do
  match ← symStep "lookup: index out of bounds" (.lookup name) with
  | .found id _ ty => pure (.ok id, ty)
  | .missing => pure (.error .missingBinding, .undefined)
  | _ => fail "lookup: model error"

/-- `Context::lookup_symbol(name, node).as_tuple()` -/
def lookupSymbol (name : String) (node : Ast.Span) : M (SymbolIdResult × T) := do
  let r ← tableLookup name
  if !r.1.isOk then insertError .undefVarError node
  pure r

/-- `Context::lookup_gate_symbol(name, node).as_tuple()` -/
def lookupGateSymbol (name : String) (node : Ast.Span) : M (SymbolIdResult × T) := do
  let r ← tableLookup name
  if !r.1.isOk then insertError .undefGateError node
  pure r

/-- `Context::insert_const_value` (`HashMap::insert`) -/
def insertConstValue (id : Nat) (value : TExpr) : M Unit :=
  modify fun c => { c with constValues := (id, value) :: c.constValues.filter (fun p => p.1 != id) }

/-- `Context::get_const_value` -/
def getConstValue (id : Nat) : M (Option TExpr) := do
  return ((← get).constValues.find? (fun p => p.1 == id)).map (·.2)

/-- `Context::push_annotation` -/
def pushAnnotation (a : String) : M Unit :=
  modify fun c => { c with annotations := c.annotations ++ [a] }

/-- `Context::annotations_is_empty` -/
def annotationsIsEmpty : M Bool := do
  return (← get).annotations.isEmpty

/-- `Context::take_annotations` -/
def takeAnnotations : M (List String) := do
  let c ← get
  set { c with annotations := [] }
  pure c.annotations

/-- `Program::insert_stmt` -/
def insertStmt (s : Stmt) : M Unit :=
  modify fun c => { c with program := c.program ++ [s] }

/-- the loop of `Context::standard_library_gates(node)`: one `RedeclarationError` per name that
was already bound -/
def redeclLoop (node : Ast.Span) : List String → M Unit
  | [] => pure ()
  | _ :: ns => do
    insertError .redeclarationError node
    redeclLoop node ns

/-- `Context::standard_library_gates(node)` -/
def standardLibraryGates (node : Ast.Span) : M Unit := do
  let c ← get
  let r := c.symbolTable.standardLibraryGates
  set { c with symbolTable := r.1 }
  redeclLoop node r.2

/-- `not_impl!(ctx, node)` -/
def notImpl (node : Ast.Span) : M (Option Stmt) := do
  insertError .notImplementedError node
  pure (some .nullStmt)

/-! ### non-recursive functions of `syntax_to_semantics.rs` -/

/-- `binary_op_to_asg_type` -/
def binaryOpToAsgType (op : Ast.BinaryOp) : M BinaryOp :=
  match op with
  | .arithOp a =>
    pure <| .arithOp <| match a with
      | .add => .add | .sub => .sub | .mul => .mul | .div => .div | .rem => .rem
      | .shl => .shl | .shr => .shr | .bitOr => .bitOr | .bitXor => .bitXOr | .bitAnd => .bitAnd
  | .cmpOp (.eq false) => pure (.cmpOp .eq)
  | .cmpOp (.eq true) => pure (.cmpOp .neq)
  | .cmpOp (.ord ..) =>
    fail "binary_op_to_asg_type: comparison operators other than == and != are not supported"
  | .concatenationOp => pure .concatenationOp
  | .powerOp => pure .concatenationOp       -- sic
  | .logicOp _ => fail "binary_op_to_asg_type: binary logic operators unsupported"
  | .assignment _ => fail "binary_op_to_asg_type: unsupported binary operator (assignment)"

/-- `IntNumber::value_u128().unwrap()` / `value().unwrap()` through the token-level model -/
def intNumberValue (site : String) (text : String) : M Nat :=
  unwrap site (TokenExt.intValueS text)

/-- `negative_float_number_to_asg_type(f)`: the literal's string is `format!("-{num}")` -/
def negativeFloatNumberToAsgType (fmt : Option String) : M String := do
  let num ← unwrap "negative_float_number_to_asg_type: f.value() is None" fmt
  pure ("-" ++ num)

/-- `negative_int_to_asg_type(n)`: value; the sign flag is `false` -/
def negativeIntToAsgType (text : String) : M Nat :=
  intNumberValue "negative_int_to_asg_type: n.value_u128() is None" text

/-- `literal_to_asg_texpr` -/
def literalToAsgTexpr (literal : Ast.Literal) : M (Option TExpr) :=
  match literal.kind with
  | .bool b => pure (some (boolLiteralToTexpr b))
  | .intNumber text _ => do
    let num ← intNumberValue "literal_to_asg_texpr: int_num.value_u128() is None" text
    pure (some (intLiteralToTexpr num true))
  | .floatNumber _ fmt => do
    let num ← unwrap "literal_to_asg_texpr: float_num.value() is None" fmt
    pure (some (floatLiteralToTexpr num))
  | .bitString text _ =>
    match TokenExt.bitStringStr text with
    | some s => pure (some (bitStringLiteralToTexpr s))
    | none => pure none                     -- `bit_string.str()?`
  | .byte | .char | .string => fail "literal_to_asg_texpr: todo!() Byte/Char/String literal"

/-- `hardware_qubit_to_asg_type(hwq).to_texpr()` -/
def hardwareQubitToAsgTexpr (hwq : Ast.HardwareQubit) : TExpr := hardwareQubitToTexpr hwq.text

/-- `lookup_identifier` -/
def lookupIdentifier (identifier : Ast.Identifier) : M (SymbolIdResult × T) :=
  lookupSymbol identifier.text identifier.span

/-- `get_ast_designator_expression` -/
def getAstDesignatorExpression (arg : Option Ast.Designator) : Option Ast.Expr :=
  match arg with
  | some (.mk _ e) => e
  | none => none

/-- `designator_to_asg`; `value as u32` truncates -/
def designatorToAsg (designator : Option Ast.Designator) : M (Option Nat) :=
  match getAstDesignatorExpression designator with
  | some (.literal literal) =>
    match literal.kind with
    | .intNumber text _ => do
      let v ← intNumberValue "designator_to_asg: int_num.value() is None" text
      pure (some (v % 2 ^ 32))
    | _ => do
      insertError .constIntegerError literal.span
      pure none
  | some (.identifier identifier) => do
    let (sym, typ) ← lookupIdentifier identifier
    if isConst typ then
      let id ← match sym with
        | .ok id => pure id
        | .error _ => fail "designator_to_asg: sym.unwrap() on Err"
      let constValue ← getConstValue id
      let constValue ← unwrap "designator_to_asg: const_value.unwrap() on None" constValue
      match texprToU32 constValue with
      | some width => pure (some width)
      | none =>
        insertError .invalidDesignatorError identifier.span
        pure (some 0)
    else pure none
  | some _ => fail "designator_to_asg: unsupported designator type"
  | none => pure none

/-- `scalar_type_to_type` -/
def scalarTypeToType (scalarType : Ast.ScalarType) (isconst : Bool) : M T :=
  match scalarType with
  | .mk _ kind designator inner => do
    let designator := match inner with
      | some (.mk _ _ d _) => d            -- complex: the float type's designator
      | none => designator
    let width ← designatorToAsg designator
    match kind with
    | .angle => pure (.angle width isconst)
    | .bit => pure <| match width with
      | some w => .bitArray (.d1 w) isconst
      | none => .bit isconst
    | .bool => pure (.boolT isconst)
    | .complex => pure (.complex width isconst)
    | .duration => pure (.duration isconst)
    | .float => pure (.float width isconst)
    | .int => pure (.int width isconst)
    | .stretch => pure (.stretch isconst)
    | .uint => pure (.uint width isconst)
    | .qubit => pure <| match width with
      | some w => .qubitArray (.d1 w)
      | none => .qubit
    | .none => fail "scalar_type_to_type: ScalarTypeKind::None"

/-- `param_type_to_type` -/
def paramTypeToType (paramType : Ast.ParamType) (isconst : Bool) : M T :=
  match paramType with
  | .scalarType s => scalarTypeToType s isconst
  | .arrayRefType _ => pure .todo

/-- `can_cast_literal` (syntax_to_semantics.rs) -/
def canCastLiteral (lhsType initType : T) (literal : Literal) : Bool :=
  match tag lhsType, literal with
  | .uint, .int _ sign => sign
  | _, _ => Types.canCastLiteral lhsType initType

/-- `declare_classical_helper` -/
def declareClassicalHelper (symbolId : SymbolIdResult) (initializer : Option TExpr) : M Stmt := do
  match initializer with
  | some init =>
    if isConst init.getType then
      match symbolId with
      | .ok id => insertConstValue id init
      | .error _ => pure ()      -- a redeclaration: reported already, no symbol to attach the value to
  | none => pure ()
  pure (.declareClassical symbolId initializer)

/-- `io_declaration_statement_to_asg_stmt` -/
def ioDeclarationStatementToAsgStmt (arrayType : Bool) (scalarType : Option Ast.ScalarType)
    (name : Option Ast.Name) (inputToken : Bool) : M Stmt := do
  if arrayType then
    fail "io_declaration_statement_to_asg_stmt: array types are not supported yet in the ASG"
  let scalarType ← unwrap "io_declaration_statement_to_asg_stmt: scalar_type() is None" scalarType
  let typ ← scalarTypeToType scalarType false
  let name ← unwrap "io_declaration_statement_to_asg_stmt: name() is None" name
  let symbolId ← newBinding name.text typ name.span
  if inputToken then pure (.inputDeclaration symbolId) else pure (.outputDeclaration symbolId)

/-- the `.map(..).collect()` of `bind_parameter_list` -/
def bindParams (typ : T) : List Ast.Param → M (List SymbolIdResult)
  | [] => pure []
  | p :: ps => do
    let r ← newBinding p.text typ p.span
    let rs ← bindParams typ ps
    pure (r :: rs)

/-- `bind_parameter_list` -/
def bindParameterList (inparamList : Option Ast.ParamList) (typ : T) :
    M (Option (List SymbolIdResult)) :=
  match inparamList with
  | some pl => do pure (some (← bindParams typ pl.params))
  | none => pure none

/-- the `.map(..).collect()` of `bind_typed_parameter_list` -/
def bindTypedParams : List Ast.TypedParam → M (List SymbolIdResult)
  | [] => pure []
  | p :: ps => do
    let typ ← match p.paramType with
      | some pt => paramTypeToType pt false
      | none =>
        if p.oldTypedParam then pure T.todo
        else fail "bind_typed_parameter_list: neither param_type nor old_typed_param"
    let name ← unwrap "bind_typed_parameter_list: param.name() is None" p.name
    let r ← newBinding name.text typ p.span
    let rs ← bindTypedParams ps
    pure (r :: rs)

/-- `bind_typed_parameter_list` -/
def bindTypedParameterList (inparamList : Option Ast.TypedParamList) :
    M (Option (List SymbolIdResult)) :=
  match inparamList with
  | some pl => do pure (some (← bindTypedParams pl.typedParams))
  | none => pure none


/-! ### the decision blocks of the usage rules (C13), factored out of their functions

Each is the literal block of the Rust function named in its comment, applied to values that
function has already computed; none of them recurses. -/

/-- `if !context.symbol_table().in_global_scope() { insert_error(NotInGlobalScopeError, node) }`
(QuantumDeclarationStatement, Def, and classical array declarations) -/
def notGlobalCheck (node : Ast.Span) : M Unit := do
  if !(← inGlobalScope) then insertError .notInGlobalScopeError node

/-- the same test in the `Gate` arm, where the node is `gate.name().unwrap()` evaluated only on
the error path -/
def gateNotGlobalCheck (name : Option Ast.Name) : M Unit := do
  if !(← inGlobalScope) then
    let n ← unwrap "stmt_to_asg_stmt: Gate name() is None" name
    insertError .notInGlobalScopeError n.span

/-- `ReturnExpr` arm of `expr_to_asg_texpr`:
`if current_scope_type() == Global { insert_error(ReturnInGlobalScopeError, &expr) }` -/
def returnGlobalCheck (node : Ast.Span) : M Unit := do
  if (← currentScopeType) == .global then insertError .returnInGlobalScopeError node

/-- `DelayStmt` arm: `if !matches!(duration.get_type(), Type::Duration(_)) { insert_error(..) }` -/
def delayDurationCheck (duration : TExpr) (designator : Ast.Span) : M Unit :=
  match duration.getType with
  | .duration _ => pure ()
  | _ => insertError .incompatibleTypesError designator

/-- `BinExpr` arm of `expr_to_asg_texpr`: "there are no binary ops that accept quantum operands" -/
def quantumBinopCheck (left right : TExpr) (lhs rhs : Option Ast.Expr) : M Unit := do
  if isQuantum left.getType then
    let l ← unwrap "expr_to_asg_texpr: bin_expr.lhs() is None" lhs
    insertError .incompatibleTypesError l.span
  if isQuantum right.getType then
    let r ← unwrap "expr_to_asg_texpr: bin_expr.rhs() is None" rhs
    insertError .incompatibleTypesError r.span

/-- `gate_operand_to_asg_texpr`, `Identifier` arm:
`if !matches!(typ, Qubit | HardwareQubit | QubitArray(_)) { insert_error(..) }` -/
def gateOperandIdentCheck (typ : T) (node : Ast.Span) : M Unit :=
  match typ with
  | .qubit | .hwqubit | .qubitArray _ => pure ()
  | _ => insertError .incompatibleTypesError node

/-- `gate_operand_to_asg_texpr`, `IndexedIdentifier` arm: `if !matches!(typ, QubitArray(_)) {..}` -/
def gateOperandIndexedCheck (typ : T) (node : Ast.Span) : M Unit :=
  match typ with
  | .qubitArray _ => pure ()
  | _ => insertError .incompatibleTypesError node

/-- the arity / not-a-gate block of `gate_call_expr_to_asg_stmt` (after the operands, the
parameters and the gate symbol have been evaluated) -/
def gateCallCheck (span : Ast.Span) (qubitList : Option Ast.QubitList) (argList : Option Ast.ArgList)
    (gateId : Ast.Identifier) (symbolResult : SymbolIdResult) (gateType : T)
    (numParams numQubits : Nat) : M Unit :=
  match gateType with
  | .gate defNumParams defNumQubits => do
    if defNumParams != numParams then
      if numParams != 0 then
        let al ← unwrap "gate_call_expr_to_asg_stmt: arg_list() is None" argList
        insertError .numGateParamsError al.span
      else
        insertError .numGateParamsError gateId.span
    if defNumQubits != numQubits then
      if numQubits == 0 then
        insertError .numGateQubitsError span
      else
        let ql ← unwrap "gate_call_expr_to_asg_stmt: qubit_list() is None" qubitList
        insertError .numGateQubitsError ql.span
  | _ =>
    if symbolResult.isOk then insertError .incompatibleTypesError gateId.span else pure ()

/-- the arity block of `call_expr_to_asg_texpr` (callee known to be a subroutine) -/
def defArityCheck (expectedNumParams numParams : Nat) (argList : Option Ast.ArgList) : M Unit := do
  if expectedNumParams != numParams then
    let al ← unwrap "call_expr_to_asg_texpr: arg_list() is None" argList
    insertError .numDefParamsError al.span

/-- the last block of the identifier branch of `assignment_stmt_to_asg_stmt` -/
def mutateConstCheck (symbolOk : Bool) (symbolType : T) (node : Ast.Span) : M Unit := do
  if symbolOk && isConst symbolType then insertError .mutateConstError node

/-- the `asg::TimeUnit` of a non-imaginary `ast::TimeUnit` -/
def timeUnitToAsg : TokenExt.TimeUnit → Option TimeUnit
  | .second => some .second
  | .milliSecond => some .milliSecond
  | .microSecond => some .microSecond
  | .nanoSecond => some .nanoSecond
  | .cycle => some .cycle
  | .imaginary => none

end Oq3.Sema
