/-
Model of the token-level accessors of `crates/oq3_syntax/src/ast/token_ext.rs` (and
`expr_ext.rs: TimingLiteral::time_unit`) that the semantic pass reaches:

* `IntNumber::{radix, split_into_parts, value, value_u128}` with `u128::from_str_radix`
  re-modelled as a digit fold into `Nat` with the `< 2^128` overflow check;
* `FloatNumber::split_into_parts` (only the text clean-up; `str::parse::<f64>` and `f64: Display`
  are external and enter the model as data supplied by the dump, see `Ast.Literal`);
* `QuoteOffsets::new` / `BitString::str`;
* `TimingLiteral::time_unit`.

Texts are `List Char` (DESIGN Appendix A.4); thin `String` wrappers are at the end.
The tie to the code: the `ast` dump (I5) carries, next to each literal's token text, the value the
real accessor returned; the `sema` driver re-computes it with this model and reports a mismatch.
-/
namespace Oq3.TokenExt

inductive Radix | binary | octal | decimal | hexadecimal
  deriving DecidableEq, Repr, Inhabited

/-- `Radix as u32` -/
def Radix.toNat : Radix → Nat
  | .binary => 2 | .octal => 8 | .decimal => 10 | .hexadecimal => 16

/-- `Radix::prefix_len` -/
def Radix.prefixLen : Radix → Nat
  | .decimal => 0 | _ => 2

/-- `IntNumber::radix`: `match self.text().get(..2).unwrap_or_default()`.  (`get(..2)` is `None`
when byte 2 is not a character boundary; then the first two *characters* are not one of the six
ASCII prefixes either, so matching on characters is exact.) -/
def radix : List Char → Radix
  | '0' :: 'b' :: _ | '0' :: 'B' :: _ => .binary
  | '0' :: 'o' :: _ | '0' :: 'O' :: _ => .octal
  | '0' :: 'x' :: _ | '0' :: 'X' :: _ => .hexadecimal
  | _ => .decimal

/-- `char::is_ascii_alphabetic` -/
def isAsciiAlphabetic (c : Char) : Bool :=
  ('a' ≤ c && c ≤ 'z') || ('A' ≤ c && c ≤ 'Z')

/-- `char::is_ascii_digit` -/
def isAsciiDigit (c : Char) : Bool := '0' ≤ c && c ≤ '9'

/-- the `is_suffix_start` closure of `IntNumber::split_into_parts` -/
def isSuffixStart (r : Radix) (c : Char) : Bool :=
  match r with
  | .hexadecimal => ('g' ≤ c && c ≤ 'z') || ('G' ≤ c && c ≤ 'Z')
  | _ => isAsciiAlphabetic c

/-- the characters before the first one satisfying `p`, and the rest (`find` + `split_at`) -/
def splitAtFirst (p : Char → Bool) : List Char → List Char × List Char
  | [] => ([], [])
  | c :: cs => if p c then ([], c :: cs) else
      let (a, b) := splitAtFirst p cs
      (c :: a, b)

/-- `IntNumber::split_into_parts` = (prefix, text, suffix) -/
def intSplitIntoParts (text : List Char) : List Char × List Char × List Char :=
  let r := radix text
  let pre := text.take r.prefixLen
  let rest := text.drop r.prefixLen
  let (digits, suffix) := splitAtFirst (isSuffixStart r) rest
  (pre, digits, suffix)

/-- `char::to_digit(radix)` for `radix ≤ 36` -/
def toDigit (radix : Nat) (c : Char) : Option Nat :=
  let d : Option Nat :=
    if '0' ≤ c && c ≤ '9' then some (c.toNat - '0'.toNat)
    else if 'a' ≤ c && c ≤ 'z' then some (c.toNat - 'a'.toNat + 10)
    else if 'A' ≤ c && c ≤ 'Z' then some (c.toNat - 'A'.toNat + 10)
    else none
  match d with
  | some v => if v < radix then some v else none
  | none => none

def u128Bound : Nat := 2 ^ 128

/-- the digit loop of `u128::from_str_radix`: `checked_mul` then `checked_add`;
`none` = `InvalidDigit` or `PosOverflow` -/
def foldDigits (radix : Nat) : Nat → List Char → Option Nat
  | acc, [] => some acc
  | acc, c :: cs =>
    match toDigit radix c with
    | none => none
    | some d =>
      let acc' := acc * radix + d
      if acc' < u128Bound then foldDigits radix acc' cs else none

/-- `u128::from_str_radix(src, radix).ok()`: empty ⇒ error; a lone sign ⇒ error; one leading `+` is
skipped; `-` is not (unsigned type) and is then an invalid digit -/
def u128FromStrRadix (src : List Char) (radix : Nat) : Option Nat :=
  match src with
  | [] => none
  | ['+'] | ['-'] => none
  | '+' :: rest => foldDigits radix 0 rest
  | _ => foldDigits radix 0 src

/-- `IntNumber::value` (and the identical `value_u128`) -/
def intValue (text : List Char) : Option Nat :=
  let (_, digits, _) := intSplitIntoParts text
  u128FromStrRadix (digits.filter (· ≠ '_')) (radix text).toNat

/-- `FloatNumber::split_into_parts` = (float_text, suffix) -/
def floatSplitIntoParts (text : List Char) : List Char × List Char :=
  let (a, b) := splitAtFirst isAsciiAlphabetic text
  match b with
  | [] => (text, [])
  | c :: rest =>
    if c == 'e' || c == 'E' then
      -- `indices.find` continues after the `e`
      let (a2, b2) := splitAtFirst isAsciiAlphabetic rest
      match b2 with
      | [] => (text, [])
      | _ => (a ++ c :: a2, b2)
    else (a, b)

/-- the text handed to `str::parse::<f64>` by `FloatNumber::value` -/
def floatCleanText (text : List Char) : List Char :=
  (floatSplitIntoParts text).1.filter (· ≠ '_')

/-- `QuoteOffsets::new(text)` followed by slicing the contents, i.e. `BitString::str` /
`BitString::value`: `None` unless the token starts and ends with the same quote character and has
at least two bytes -/
def quotedContents (text : List Char) : Option (List Char) :=
  match text with
  | [] => none
  | q :: rest =>
    if rest.isEmpty then none
    else if q ≠ '"' ∧ q ≠ '\'' then none
    else if rest.getLast? ≠ some q then none
    else some rest.dropLast

/-- `oq3_syntax::ast::TimeUnit` -/
inductive TimeUnit | nanoSecond | milliSecond | microSecond | second | cycle | imaginary
  deriving DecidableEq, Repr, Inhabited

/-- `TimingLiteral::time_unit`, given `self.identifier()?.text()` -/
def timeUnit (identText : Option String) : Option TimeUnit :=
  match identText with
  | none => none
  | some "s" => some .second
  | some "ms" => some .milliSecond
  | some "us" | some "µs" => some .microSecond
  | some "ns" => some .nanoSecond
  | some "dt" => some .cycle
  | some "im" => some .imaginary
  | some _ => none

/-! `String` wrappers -/

def intValueS (text : String) : Option Nat := intValue text.toList

def bitStringStr (text : String) : Option String :=
  (quotedContents text.toList).map String.ofList

end Oq3.TokenExt
