/-
Model of the TYPED ACCESSORS of `oq3_syntax::ast` — the step between the syntax tree (I4) and the
typed AST as the semantic pass sees it (I5):

* `ast/generated/nodes.rs`  — translated one to one into `Oq3/Gen/Nodes.lean`
  (`X.canCast`, the enum `cast` tables, every `support::child/children/token` accessor);
* `ast/node_ext.rs`, `ast/expr_ext.rs`, `ast/type_ext.rs`, `ast/traits.rs`, the part of
  `ast/token_ext.rs` that is not already in `Model/TokenExt.lean` (`String::value`) — the
  hand-written accessors, modelled here function by function, under the Rust names, including the
  places where they `unwrap()` / `unreachable!()` / slice and can therefore panic (`PRes.panic`);
* `dumpProgram` — the function `harness/src/m_ast.rs: dump_source` (mode `ast`): the I5
  S-expression built ONLY through those accessors, in exactly that format.

A typed node (`ast::IfStmt { syntax }`) is modelled by its `CNode`; `N::cast` is
`cast N.canCast`; an enum value (`ast::Expr`) is the node itself, its variant is determined by
the kind (`Expr.variants`).
-/
import Oq3.Gen.Nodes
import Oq3.Model.TokenExt
import Oq3.Model.Ast
import Oq3.Model.F64Text

namespace Oq3.Acc
open Oq3.Gen
open Oq3.Ast (UnaryOp ArithOp LogicOp CmpOp BinaryOp ScalarTypeKind)
open Oq3.TokenExt (TimeUnit)

/-- result of an accessor that can panic -/
inductive PRes (α : Type) where
  | ok (a : α)
  | panic
  deriving Repr, Inhabited, DecidableEq

/-! ### `node_ext.rs` -/

/-- `text_of_first_token`: `green.children().next().and_then(into_token).unwrap()` — the FIRST
child (trivia included) must exist and be a token -/
def textOfFirstToken (n : CNode) : PRes (List Char) :=
  match n.children.head? with
  | some (.token _ _ _ t) => .ok t
  | _ => .panic

/-- `HasTextNode::text` / `string` for `Param`, `Name`, `HardwareQubit`, `Identifier` -/
def HasTextNode.text (n : CNode) : PRes (List Char) := textOfFirstToken n

/-- `oq3_syntax::BlockOrStmt` -/
inductive BlockOrStmt
  | blockExpr (b : CNode)
  | stmt (s : CNode)
  deriving Repr, Inhabited, DecidableEq

/-- `matches!(e, ast::Expr::BlockExpr(_))` -/
def Expr.isBlockExpr (e : CNode) : Bool := e.kind == .BLOCK_EXPR

namespace AssignmentStmt
/-- `node_ext.rs`: `support::child(&self.syntax)` at type `Identifier` -/
def identifier (n : CNode) : Option CNode := support.child Identifier.canCast n

/-- `expr_ext.rs` -/
def rhs (n : CNode) : Option CNode :=
  let children := support.children Expr.canCast n
  let expr1 := children.head?
  let expr2 := children[1]?
  if expr2.isSome then expr2 else expr1
end AssignmentStmt

namespace WhileStmt
def condition (n : CNode) : Option CNode :=
  let exprs := support.children Expr.canCast n
  let first := exprs.head?
  match first with
  | some e => if Expr.isBlockExpr e then (exprs[1]?).bind (fun _ => first) else first
  | none => none

/-- `support::children::<BlockExpr>(..).next()` -/
def body (n : CNode) : Option CNode := (support.children BlockExpr.canCast n).head?

/-- `support::children::<Stmt>(..).next()` -/
def stmt (n : CNode) : Option CNode := (support.children Stmt.canCast n).head?

def block_or_stmt (n : CNode) : PRes BlockOrStmt :=
  match body n with
  | some b => .ok (.blockExpr b)
  | none =>
    match stmt n with
    | some s => .ok (.stmt s)
    | none => .panic
end WhileStmt

namespace ForStmt
/-- (`body` and `stmt` are generated: `support::child`) -/
def block_or_stmt (n : CNode) : PRes BlockOrStmt :=
  match body n with
  | some b => .ok (.blockExpr b)
  | none =>
    match stmt n with
    | some s => .ok (.stmt s)
    | none => .panic
end ForStmt

namespace IfStmt
def condition (n : CNode) : Option CNode :=
  let exprs := support.children Expr.canCast n
  let first := exprs.head?
  match first with
  | some e => if Expr.isBlockExpr e then (exprs[1]?).bind (fun _ => first) else first
  | none => none

/-- `match support::children(..).nth(1)? { Expr::BlockExpr(b) => Some(b), _ => None }` -/
def then_branch_block (n : CNode) : Option CNode :=
  match (support.children Expr.canCast n)[1]? with
  | some e => if Expr.isBlockExpr e then some e else none
  | none => none

def then_branch_stmt (n : CNode) : Option CNode := support.child Stmt.canCast n

def true_body_block_or_stmt (n : CNode) : PRes BlockOrStmt :=
  match then_branch_block n with
  | some b => .ok (.blockExpr b)
  | none =>
    match then_branch_stmt n with
    | some s => .ok (.stmt s)
    | none => .panic

def else_branch_block (n : CNode) : Option CNode :=
  match (support.children Expr.canCast n)[2]? with
  | some e => if Expr.isBlockExpr e then some e else none
  | none => none

def else_branch_stmt (n : CNode) : Option CNode := support.child Stmt.canCast n

def false_body_block_or_stmt (n : CNode) : Option BlockOrStmt :=
  match else_branch_block n with
  | some b => some (.blockExpr b)
  | none => (else_branch_stmt n).map .stmt
end IfStmt

/-- `&text[k..]`: panics unless `k` is a character boundary `≤ len` -/
def sliceFrom : Nat → List Char → PRes (List Char)
  | 0, cs => .ok cs
  | _ + 1, [] => .panic
  | k + 1, c :: cs => if c.utf8Size ≤ k + 1 then sliceFrom (k + 1 - c.utf8Size) cs else .panic

namespace PragmaStatement
def pragma_text (n : CNode) : PRes (List Char) :=
  match textOfFirstToken n with
  | .panic => .panic
  | .ok text => if text.head? == some '#' then sliceFrom 7 text else sliceFrom 6 text
end PragmaStatement

namespace AnnotationStatement
def annotation_text (n : CNode) : PRes (List Char) := textOfFirstToken n
end AnnotationStatement

/-! ### `expr_ext.rs` -/

namespace PrefixExpr
/-- `self.syntax().first_child_or_token()?.into_token()` -/
def op_token (n : CNode) : Option CNode :=
  match n.children.head? with
  | some c => if c.isToken then some c else none
  | none => none

def op_kind (n : CNode) : Option UnaryOp :=
  match op_token n with
  | none => none
  | some t =>
    match t.kind with
    | .BANG => some .logicNot
    | .TILDE => some .not
    | .MINUS => some .neg
    | _ => none
end PrefixExpr

/-- the `match c.kind()` table of `BinExpr::op_details` -/
def binaryOpOfKind : SyntaxKind → Option BinaryOp
  | .PIPE2 => some (.logicOp .or)
  | .AMP2 => some (.logicOp .and)
  | .EQ2 => some (.cmpOp (.eq false))
  | .NEQ => some (.cmpOp (.eq true))
  | .LTEQ => some (.cmpOp (.ord true false))
  | .GTEQ => some (.cmpOp (.ord false false))
  | .L_ANGLE => some (.cmpOp (.ord true true))
  | .R_ANGLE => some (.cmpOp (.ord false true))
  | .PLUS => some (.arithOp .add)
  | .STAR => some (.arithOp .mul)
  | .MINUS => some (.arithOp .sub)
  | .SLASH => some (.arithOp .div)
  | .PERCENT => some (.arithOp .rem)
  | .SHL => some (.arithOp .shl)
  | .SHR => some (.arithOp .shr)
  | .CARET => some (.arithOp .bitXor)
  | .PIPE => some (.arithOp .bitOr)
  | .AMP => some (.arithOp .bitAnd)
  | .EQ => some (.assignment none)
  | .PLUSEQ => some (.assignment (some .add))
  | .STAREQ => some (.assignment (some .mul))
  | .MINUSEQ => some (.assignment (some .sub))
  | .SLASHEQ => some (.assignment (some .div))
  | .PERCENTEQ => some (.assignment (some .rem))
  | .SHLEQ => some (.assignment (some .shl))
  | .SHREQ => some (.assignment (some .shr))
  | .CARETEQ => some (.assignment (some .bitXor))
  | .PIPEEQ => some (.assignment (some .bitOr))
  | .AMPEQ => some (.assignment (some .bitAnd))
  | .DOUBLE_PLUS => some .concatenationOp
  | .DOUBLE_STAR => some .powerOp
  | _ => none

namespace BinExpr
/-- `children_with_tokens().filter_map(into_token).find_map(|c| table(c.kind()).map(|op| (c, op)))` -/
def op_details (n : CNode) : Option (CNode × BinaryOp) :=
  n.childTokens.findSome? (fun c => (binaryOpOfKind c.kind).map (fun op => (c, op)))

def op_kind (n : CNode) : Option BinaryOp := (op_details n).map (·.2)
def op_token (n : CNode) : Option CNode := (op_details n).map (·.1)
def lhs (n : CNode) : Option CNode := (support.children Expr.canCast n).head?
def rhs (n : CNode) : Option CNode := (support.children Expr.canCast n)[1]?
end BinExpr

namespace RangeExpr
def start_step_stop (n : CNode) : Option CNode × Option CNode × Option CNode :=
  let children := support.children Expr.canCast n
  let first := children.head?
  let second := children[1]?
  let third := children[2]?
  if third.isNone then (first, third, second) else (first, second, third)
end RangeExpr

namespace IndexExpr
def base (n : CNode) : Option CNode := (support.children Expr.canCast n).head?
def index (n : CNode) : Option CNode := (support.children Expr.canCast n)[1]?
end IndexExpr

/-- the first non-trivia child (node or token) must exist and be a token:
`children_with_tokens().find(|e| !e.kind().is_trivia()).and_then(|e| e.into_token()).unwrap()`
(`FilePath::token`, `Literal::token`, `ScalarType::token`) -/
def firstNonTriviaToken (n : CNode) : PRes CNode :=
  match n.children.find? (fun e => !e.kind.isTrivia) with
  | some c => if c.isToken then .ok c else .panic
  | none => .panic

/-- `ast::LiteralKind`: the token, typed by its kind -/
inductive LiteralKind
  | bitString (t : CNode)
  | bool (b : Bool)
  | byte (t : CNode)
  | char (t : CNode)
  | floatNumber (t : CNode)
  | intNumber (t : CNode)
  | string (t : CNode)
  deriving Repr, Inhabited, DecidableEq

namespace Literal
def token (n : CNode) : PRes CNode := firstNonTriviaToken n

/-- the `AstToken::cast` chain, then `T![true]` / `T![false]`, then `unreachable!()` -/
def kind (n : CNode) : PRes LiteralKind :=
  match token n with
  | .panic => .panic
  | .ok t =>
    match t.kind with
    | .INT_NUMBER => .ok (.intNumber t)
    | .FLOAT_NUMBER => .ok (.floatNumber t)
    | .STRING => .ok (.string t)
    | .BIT_STRING => .ok (.bitString t)
    | .CHAR => .ok (.char t)
    | .BYTE => .ok (.byte t)
    | .TRUE_KW => .ok (.bool true)
    | .FALSE_KW => .ok (.bool false)
    | _ => .panic
end Literal

namespace TimingLiteral
/-- `match self.identifier()?.text().as_str() {..}` (`text()` can panic) -/
def time_unit (n : CNode) : PRes (Option TimeUnit) :=
  match identifier n with
  | none => .ok none
  | some i =>
    match HasTextNode.text i with
    | .panic => .panic
    | .ok t => .ok (Oq3.TokenExt.timeUnit (some (String.ofList t)))
end TimingLiteral

namespace IndexedIdentifier
def identifier (n : CNode) : Option CNode := support.child Identifier.canCast n
end IndexedIdentifier

namespace GateCallExpr
/-- `match support::children::<Expr>(..).next() { Some(Expr::Identifier(i)) => Some(i), _ => None }` -/
def identifier (n : CNode) : Option CNode :=
  match (support.children Expr.canCast n).head? with
  | some e => if e.kind == .IDENTIFIER then some e else none
  | none => none
end GateCallExpr

namespace CallExpr
def identifier (n : CNode) : Option CNode :=
  match (support.children Expr.canCast n).head? with
  | some e => if e.kind == .IDENTIFIER then some e else none
  | none => none
end CallExpr

namespace Gate
def angles_and_or_qubits (n : CNode) : Option CNode × Option CNode :=
  let children := support.children ParamList.canCast n
  (children.head?, children[1]?)

def angle_params (n : CNode) : Option CNode :=
  let (qubits_or_angles, qubits_or_none) := angles_and_or_qubits n
  if qubits_or_none.isNone then qubits_or_none else qubits_or_angles

def qubit_params (n : CNode) : Option CNode :=
  let (qubits_or_angles, qubits_or_none) := angles_and_or_qubits n
  if qubits_or_none.isNone then qubits_or_angles else qubits_or_none
end Gate

/-! ### `type_ext.rs` -/

namespace ScalarType
def token (n : CNode) : PRes CNode := firstNonTriviaToken n

def kind (n : CNode) : PRes ScalarTypeKind :=
  match token n with
  | .panic => .panic
  | .ok t =>
    .ok (match t.kind with
      | .ANGLE_TY => .angle
      | .BIT_TY => .bit
      | .BOOL_TY => .bool
      | .COMPLEX_TY => .complex
      | .DURATION_TY => .duration
      | .FLOAT_TY => .float
      | .INT_TY => .int
      | .STRETCH_TY => .stretch
      | .UINT_TY => .uint
      | .QUBIT_KW => .qubit
      | _ => .none)
end ScalarType

/-! ### `token_ext.rs: String::value` with `oq3_lexer::unescape::unescape_literal(_, Mode::Str, _)`

The callback protocol is kept: `unescapeStr` yields the list of `(start, end, result)` events in
byte offsets; `stringValue` is the fold that `String::value` performs over them. -/

/-- `char::is_whitespace` (Unicode `White_Space`) -/
def isWhitespace (c : Char) : Bool :=
  let n := c.toNat
  (9 ≤ n && n ≤ 13) || n == 0x20 || n == 0x85 || n == 0xA0 || n == 0x1680 ||
  (0x2000 ≤ n && n ≤ 0x200A) || n == 0x2028 || n == 0x2029 || n == 0x202F || n == 0x205F || n == 0x3000

def hexDigitVal (c : Char) : Option Nat := Oq3.TokenExt.toDigit 16 c

def utf8Len (s : List Char) : Nat := (s.map Char.utf8Size).sum

/-- `scan_unicode` after `\u` (unicode escapes allowed): result and the rest of the input;
`none` = some `EscapeError` (which one is irrelevant to `String::value`) -/
def scanUnicode (cs : List Char) : Option (Char × List Char) :=
  match cs with
  | '{' :: c :: rest =>
    if c == '_' || c == '}' then none
    else match hexDigitVal c with
      | none => none
      | some v => go rest.length 1 v rest
  | _ => none
where
  go : Nat → Nat → Nat → List Char → Option (Char × List Char)
    | _, _, _, [] => none
    | 0, _, _, _ => none
    | fuel + 1, nDigits, value, c :: rest =>
      if c == '_' then go fuel nDigits value rest
      else if c == '}' then
        if nDigits > 6 then none
        else if value > 0x10FFFF || (0xD800 ≤ value && value ≤ 0xDFFF) then none
        else some (Char.ofNat value, rest)
      else match hexDigitVal c with
        | none => none
        | some d =>
          if nDigits + 1 > 6 then go fuel (nDigits + 1) value rest
          else go fuel (nDigits + 1) (value * 16 + d) rest

/-- `scan_escape` after the backslash, `Mode::Str` -/
def scanEscape (cs : List Char) : Option (Char × List Char) :=
  match cs with
  | [] => none
  | '"' :: r => some ('"', r)
  | 'n' :: r => some ('\n', r)
  | 'r' :: r => some ('\r', r)
  | 't' :: r => some ('\t', r)
  | '\\' :: r => some ('\\', r)
  | '\'' :: r => some ('\'', r)
  | '0' :: r => some (Char.ofNat 0, r)
  | 'x' :: hi :: lo :: r =>
    match hexDigitVal hi, hexDigitVal lo with
    | some h, some l => some (Char.ofNat ((h * 16 + l) % 256), r)
    | _, _ => none
  | 'x' :: _ => none
  | 'u' :: r => scanUnicode r
  | _ => none

def isSkippedAscii (c : Char) : Bool := c == ' ' || c == '\t' || c == '\n' || c == '\r'

/-- one callback of `unescape_str_common` -/
structure UEvent where
  start : Nat
  stop : Nat
  res : Option Char   -- `none` = `Err(_)` (fatal or warning alike)
  deriving Repr, Inhabited, DecidableEq

/-- `unescape_str_common(src, Mode::Str, callback)`: the callbacks in order -/
def unescapeStr (src : List Char) : List UEvent := go src.length 0 src
where
  go : Nat → Nat → List Char → List UEvent
    | 0, _, _ => []
    | _, _, [] => []
    | fuel + 1, pos, c :: rest =>
      if c == '\\' then
        match rest with
        | '\n' :: _ =>
          -- `skip_ascii_whitespace`: `tail` = `rest`
          let skipped := rest.takeWhile isSkippedAscii
          let tail := rest.dropWhile isSkippedAscii
          let fns := skipped.length          -- `first_non_space` (ASCII: bytes = chars)
          let ev1 := if (skipped.drop 1).contains '\n' then [UEvent.mk pos (pos + fns + 1) none] else []
          let ev2 := match tail with
            | w :: _ => if isWhitespace w then [UEvent.mk pos (pos + fns + w.utf8Size + 1) none] else []
            | [] => []
          ev1 ++ ev2 ++ go fuel (pos + 1 + fns) tail
        | _ =>
          match scanEscape rest with
          | some (ch, rest') =>
            let stop := pos + 1 + (utf8Len rest - utf8Len rest')
            UEvent.mk pos stop (some ch) :: go fuel stop rest'
          | none =>
            -- an error: where the iterator stands afterwards is irrelevant for `String::value`
            -- (it returns `None` as soon as one callback carried `Err`)
            [UEvent.mk pos (pos + 1) none]
      else
        let stop := pos + c.utf8Size
        let res : Option Char :=
          if c == '"' || c == '\r' then none else some c
        UEvent.mk pos stop res :: go fuel stop rest

/-- the first `n` bytes of a text (callers cut at character boundaries only) -/
def takeBytes : Nat → List Char → List Char
  | 0, _ => []
  | _, [] => []
  | n + 1, c :: cs => if c.utf8Size ≤ n + 1 then c :: takeBytes (n + 1 - c.utf8Size) cs else []

/-- the fold of `String::value` over the callbacks: `(buf, owned, prev_end, has_error)` -/
def stringValueOfEvents (text : List Char) (evs : List UEvent) : Option (List Char) :=
  let (buf, owned, _, hasError) := evs.foldl
    (fun (st : List Char × Bool × Nat × Bool) ev =>
      let (buf, owned, prevEnd, hasError) := st
      match ev.res with
      | none => (buf, owned, prevEnd, true)
      | some c =>
        if owned then (buf ++ [c], owned, prevEnd, hasError)
        else if ev.stop - ev.start == 1 && ev.start == prevEnd then (buf, owned, ev.stop, hasError)
        else (takeBytes prevEnd text ++ [c], true, prevEnd, hasError))
    ([], false, 0, false)
  if hasError then none
  else if owned then some buf
  else some text

/-- `ast::String::value` on the token text -/
def stringValue (tokenText : List Char) : Option (List Char) :=
  match Oq3.TokenExt.quotedContents tokenText with
  | none => none
  | some text => stringValueOfEvents text (unescapeStr text)

namespace FilePath
def token (n : CNode) : PRes CNode := firstNonTriviaToken n

/-- `ast::String::cast(self.token())` -/
def string (n : CNode) : PRes (Option CNode) :=
  match token n with
  | .panic => .panic
  | .ok t => .ok (if t.kind == .STRING then some t else none)

/-- `Some(self.string()?.value()?.to_string())` -/
def to_string (n : CNode) : PRes (Option (List Char)) :=
  match string n with
  | .panic => .panic
  | .ok none => .ok none
  | .ok (some t) => .ok (stringValue t.tokenText)
end FilePath

/-- `FloatNumber::value().map(|v| format!("{v}"))` -/
def floatValueText (tokenText : List Char) : Option (List Char) :=
  (Oq3.F64.parse (Oq3.TokenExt.floatCleanText tokenText)).map Oq3.F64.display

/-! ### the I5 dump (`harness/src/m_ast.rs`) -/

namespace Dump

def hexOf (s : List Char) : String :=
  "x" ++ ".".intercalate (s.map fun c => String.ofList (Nat.toDigits 16 c.toNat))

def rng (n : CNode) : String := s!"{n.start} {n.stop}"

def opt {α : Type} (o : Option α) (f : α → String) : String :=
  match o with
  | some x => f x
  | none => "_"

def b (x : Bool) : String := if x then "1" else "0"

def list (xs : List String) : String := "(" ++ " ".intercalate xs ++ ")"

def pText (r : PRes (List Char)) : String :=
  match r with
  | .ok s => hexOf s
  | .panic => "!"

def name (n : CNode) : String := s!"(Name {rng n} {pText (HasTextNode.text n)})"
def identifier (n : CNode) : String := s!"(Identifier {rng n} {pText (HasTextNode.text n)})"
def hardwareQubit (n : CNode) : String := s!"(HardwareQubit {rng n} {pText (HasTextNode.text n)})"
def param (n : CNode) : String := s!"(Param {rng n} {pText (HasTextNode.text n)})"
def paramList (n : CNode) : String := s!"(ParamList {rng n} {list ((ParamList.params n).map param)})"

def unaryOp : UnaryOp → String
  | .logicNot => "LogicNot" | .not => "Not" | .neg => "Neg"

def arithOp : ArithOp → String
  | .add => "Add" | .mul => "Mul" | .sub => "Sub" | .div => "Div" | .rem => "Rem"
  | .shl => "Shl" | .shr => "Shr" | .bitXor => "BitXor" | .bitOr => "BitOr" | .bitAnd => "BitAnd"

def binaryOp : BinaryOp → String
  | .logicOp .and => "Logic.And"
  | .logicOp .or => "Logic.Or"
  | .arithOp a => "Arith." ++ arithOp a
  | .cmpOp (.eq false) => "Cmp.Eq"
  | .cmpOp (.eq true) => "Cmp.Neq"
  | .cmpOp (.ord less strict) => "Cmp." ++ (if less then "L" else "G") ++ (if strict then "t" else "e")
  | .concatenationOp => "Concat"
  | .powerOp => "Power"
  | .assignment none => "Assign"
  | .assignment (some a) => "Assign." ++ arithOp a

def literalKind : LiteralKind → String
  | .intNumber t =>
    s!"(IntNumber {hexOf t.tokenText} {opt (Oq3.TokenExt.intValue t.tokenText) toString})"
  | .floatNumber t =>
    s!"(FloatNumber {hexOf t.tokenText} {opt (floatValueText t.tokenText) hexOf})"
  | .bitString t =>
    s!"(BitString {hexOf t.tokenText} {opt (Oq3.TokenExt.quotedContents t.tokenText) hexOf})"
  | .bool v => s!"(Bool {b v})"
  | .byte _ => "Byte"
  | .char _ => "Char"
  | .string _ => "String"

def literal (n : CNode) : String :=
  let k := match Literal.kind n with
    | .ok k => literalKind k
    | .panic => "!"
  s!"(Literal {rng n} {k})"

def timeUnit : TimeUnit → String
  | .nanoSecond => "NanoSecond" | .milliSecond => "MilliSecond" | .microSecond => "MicroSecond"
  | .second => "Second" | .cycle => "Cycle" | .imaginary => "Imaginary"

def timingLiteral (n : CNode) : String :=
  let identText := opt (TimingLiteral.identifier n) (fun i => pText (HasTextNode.text i))
  let tu := match TimingLiteral.time_unit n with
    | .ok u => opt u timeUnit
    | .panic => "!"
  s!"(TimingLiteral {rng n} {tu} {identText} {opt (TimingLiteral.literal n) literal})"

def scalarTypeKind : ScalarTypeKind → String
  | .angle => "Angle" | .bit => "Bit" | .bool => "Bool" | .complex => "Complex"
  | .duration => "Duration" | .float => "Float" | .int => "Int" | .none => "None"
  | .stretch => "Stretch" | .uint => "UInt" | .qubit => "Qubit"

def filePath (n : CNode) : String :=
  let s := match FilePath.to_string n with
    | .ok s => opt s hexOf
    | .panic => "!"
  s!"(FilePath {rng n} {s})"

/-- marker printed when the recursion fuel runs out (never with `defaultFuel`) -/
def fuelOut : String := "FUEL"

mutual

def designator : Nat → CNode → String
  | 0, _ => fuelOut
  | fuel + 1, n => s!"(Designator {rng n} {opt (Designator.expr n) (expr fuel)})"

def scalarType : Nat → CNode → String
  | 0, _ => fuelOut
  | fuel + 1, n =>
    let k := match ScalarType.kind n with
      | .ok k => scalarTypeKind k
      | .panic => "!"
    s!"(ScalarType {rng n} {k} {opt (ScalarType.designator n) (designator fuel)} {opt (ScalarType.scalar_type n) (scalarType fuel)})"

def expressionList : Nat → CNode → String
  | 0, _ => fuelOut
  | fuel + 1, n => s!"(ExpressionList {rng n} {list ((ExpressionList.exprs n).map (expr fuel))})"

def setExpression : Nat → CNode → String
  | 0, _ => fuelOut
  | fuel + 1, n =>
    s!"(SetExpression {rng n} {opt (SetExpression.expression_list n) (expressionList fuel)})"

def rangeExpr : Nat → CNode → String
  | 0, _ => fuelOut
  | fuel + 1, n =>
    let (start, step, stop) := RangeExpr.start_step_stop n
    s!"(RangeExpr {rng n} {opt start (expr fuel)} {opt step (expr fuel)} {opt stop (expr fuel)})"

def indexOperator : Nat → CNode → String
  | 0, _ => fuelOut
  | fuel + 1, n =>
    let k := opt (IndexOperator.index_kind n) (fun k =>
      -- `IndexKind::cast`: SET_EXPRESSION | EXPRESSION_LIST
      if k.kind == .SET_EXPRESSION then setExpression fuel k else expressionList fuel k)
    s!"(IndexOperator {rng n} {k})"

def indexedIdentifier : Nat → CNode → String
  | 0, _ => fuelOut
  | fuel + 1, n =>
    s!"(IndexedIdentifier {rng n} {opt (IndexedIdentifier.identifier n) identifier} {list ((IndexedIdentifier.index_operators n).map (indexOperator fuel))})"

/-- `GateOperand::cast`: IDENTIFIER | INDEXED_IDENTIFIER | HARDWARE_QUBIT -/
def gateOperand : Nat → CNode → String
  | 0, _ => fuelOut
  | fuel + 1, n =>
    match n.kind with
    | .HARDWARE_QUBIT => hardwareQubit n
    | .IDENTIFIER => identifier n
    | _ => indexedIdentifier fuel n

def qubitList : Nat → CNode → String
  | 0, _ => fuelOut
  | fuel + 1, n => s!"(QubitList {rng n} {list ((QubitList.gate_operands n).map (gateOperand fuel))})"

def argList : Nat → CNode → String
  | 0, _ => fuelOut
  | fuel + 1, n => s!"(ArgList {rng n} {opt (ArgList.expression_list n) (expressionList fuel)})"

def parenExpr : Nat → CNode → String
  | 0, _ => fuelOut
  | fuel + 1, n => s!"(ParenExpr {rng n} {opt (ParenExpr.expr n) (expr fuel)})"

def gateCallExpr : Nat → CNode → String
  | 0, _ => fuelOut
  | fuel + 1, n =>
    s!"(GateCallExpr {rng n} {opt (GateCallExpr.qubit_list n) (qubitList fuel)} {opt (GateCallExpr.arg_list n) (argList fuel)} {opt (GateCallExpr.identifier n) identifier})"

def gPhaseCallExpr : Nat → CNode → String
  | 0, _ => fuelOut
  | fuel + 1, n => s!"(GPhaseCallExpr {rng n} {opt (GPhaseCallExpr.arg n) (expr fuel)})"

/-- `Modifier::cast`: INV_MODIFIER | POW_MODIFIER | CTRL_MODIFIER | NEG_CTRL_MODIFIER -/
def modifier : Nat → CNode → String
  | 0, _ => fuelOut
  | fuel + 1, n =>
    match n.kind with
    | .INV_MODIFIER => s!"(InvModifier {rng n})"
    | .POW_MODIFIER => s!"(PowModifier {rng n} {opt (PowModifier.paren_expr n) (parenExpr fuel)})"
    | .CTRL_MODIFIER => s!"(CtrlModifier {rng n} {opt (CtrlModifier.paren_expr n) (parenExpr fuel)})"
    | _ => s!"(NegCtrlModifier {rng n} {opt (NegCtrlModifier.paren_expr n) (parenExpr fuel)})"

def blockExpr : Nat → CNode → String
  | 0, _ => fuelOut
  | fuel + 1, n => s!"(BlockExpr {rng n} {list ((BlockExpr.statements n).map (stmt fuel))})"

def blockOrStmt : Nat → PRes BlockOrStmt → String
  | 0, _ => fuelOut
  | fuel + 1, v =>
    match v with
    | .ok (.blockExpr bl) => s!"(BosBlock {blockExpr fuel bl})"
    | .ok (.stmt s) => s!"(BosStmt {stmt fuel s})"
    | .panic => "!"

/-- `Expr::cast` then the `match` of `m_ast.rs: expr` -/
def expr : Nat → CNode → String
  | 0, _ => fuelOut
  | fuel + 1, n =>
    match n.kind with
    | .PREFIX_EXPR =>
      s!"(PrefixExpr {rng n} {opt (PrefixExpr.op_kind n) unaryOp} {opt (PrefixExpr.expr n) (expr fuel)})"
    | .PAREN_EXPR => parenExpr fuel n
    | .BIN_EXPR =>
      s!"(BinExpr {rng n} {opt (BinExpr.op_kind n) binaryOp} {opt (BinExpr.lhs n) (expr fuel)} {opt (BinExpr.rhs n) (expr fuel)})"
    | .LITERAL => literal n
    | .TIMING_LITERAL => timingLiteral n
    | .IDENTIFIER => identifier n
    | .HARDWARE_QUBIT => hardwareQubit n
    | .RANGE_EXPR => rangeExpr fuel n
    | .INDEX_EXPR =>
      s!"(IndexExpr {rng n} {opt (IndexExpr.expr n) (expr fuel)} {opt (IndexExpr.index_operator n) (indexOperator fuel)})"
    | .INDEXED_IDENTIFIER => indexedIdentifier fuel n
    | .MEASURE_EXPRESSION =>
      s!"(MeasureExpression {rng n} {opt (MeasureExpression.gate_operand n) (gateOperand fuel)})"
    | .RETURN_EXPR => s!"(ReturnExpr {rng n} {opt (ReturnExpr.expr n) (expr fuel)})"
    | .CAST_EXPRESSION =>
      s!"(CastExpression {rng n} {opt (CastExpression.scalar_type n) (scalarType fuel)} {opt (CastExpression.expr n) (expr fuel)})"
    | .CALL_EXPR =>
      s!"(CallExpr {rng n} {opt (CallExpr.arg_list n) (argList fuel)} {opt (CallExpr.identifier n) identifier})"
    | .GATE_CALL_EXPR => gateCallExpr fuel n
    | .G_PHASE_CALL_EXPR => gPhaseCallExpr fuel n
    | .MODIFIED_GATE_CALL_EXPR =>
      s!"(ModifiedGateCallExpr {rng n} {list ((ModifiedGateCallExpr.modifiers n).map (modifier fuel))} {opt (ModifiedGateCallExpr.gate_call_expr n) (gateCallExpr fuel)} {opt (ModifiedGateCallExpr.g_phase_call_expr n) (gPhaseCallExpr fuel)})"
    | .BLOCK_EXPR => s!"(BlockExprE {rng n})"
    | .ARRAY_EXPR => s!"(ArrayExpr {rng n})"
    | .ARRAY_LITERAL => s!"(ArrayLiteral {rng n})"
    | .BOX_EXPR => s!"(BoxExpr {rng n})"
    | .DIM_EXPR => s!"(DimExpr {rng n})"
    | _ => "NOT-AN-EXPR"

/-- `ParamType::cast`: SCALAR_TYPE | ARRAY_REF_TYPE -/
def paramType : Nat → CNode → String
  | 0, _ => fuelOut
  | fuel + 1, n =>
    if n.kind == .SCALAR_TYPE then scalarType fuel n else s!"(ArrayRefType {rng n})"

def typedParam : Nat → CNode → String
  | 0, _ => fuelOut
  | fuel + 1, n =>
    s!"(TypedParam {rng n} {opt (TypedParam.param_type n) (paramType fuel)} {b (TypedParam.old_typed_param n).isSome} {opt (TypedParam.name n) name})"

def typedParamList : Nat → CNode → String
  | 0, _ => fuelOut
  | fuel + 1, n =>
    s!"(TypedParamList {rng n} {list ((TypedParamList.typed_params n).map (typedParam fuel))})"

def forIterable : Nat → CNode → String
  | 0, _ => fuelOut
  | fuel + 1, it =>
    s!"(ForIterable {rng it} {opt (ForIterable.set_expression it) (setExpression fuel)} {opt (ForIterable.range_expr it) (rangeExpr fuel)} {opt (ForIterable.for_iterable_expr it) (expr fuel)})"

def caseExpr : Nat → CNode → String
  | 0, _ => fuelOut
  | fuel + 1, c =>
    s!"(CaseExpr {rng c} {opt (CaseExpr.expression_list c) (expressionList fuel)} {opt (CaseExpr.block_expr c) (blockExpr fuel)})"

/-- `Stmt::cast` then the `match` of `m_ast.rs: stmt` -/
def stmt : Nat → CNode → String
  | 0, _ => fuelOut
  | fuel + 1, n =>
    match n.kind with
    | .IF_STMT =>
      s!"(IfStmt {rng n} {opt (IfStmt.condition n) (expr fuel)} {blockOrStmt fuel (IfStmt.true_body_block_or_stmt n)} {opt (IfStmt.false_body_block_or_stmt n) (fun x => blockOrStmt fuel (.ok x))})"
    | .WHILE_STMT =>
      s!"(WhileStmt {rng n} {opt (WhileStmt.condition n) (expr fuel)} {blockOrStmt fuel (WhileStmt.block_or_stmt n)})"
    | .FOR_STMT =>
      s!"(ForStmt {rng n} {opt (ForStmt.loop_var n) name} {opt (ForStmt.scalar_type n) (scalarType fuel)} {opt (ForStmt.for_iterable n) (forIterable fuel)} {blockOrStmt fuel (ForStmt.block_or_stmt n)})"
    | .SWITCH_CASE_STMT =>
      s!"(SwitchCaseStmt {rng n} {opt (SwitchCaseStmt.control n) (expr fuel)} {list ((SwitchCaseStmt.case_exprs n).map (caseExpr fuel))} {opt (SwitchCaseStmt.default_block n) (blockExpr fuel)})"
    | .CLASSICAL_DECLARATION_STATEMENT =>
      s!"(ClassicalDeclarationStatement {rng n} {b (ClassicalDeclarationStatement.array_type n).isSome} {opt (ClassicalDeclarationStatement.scalar_type n) (scalarType fuel)} {b (ClassicalDeclarationStatement.const_token n).isSome} {opt (ClassicalDeclarationStatement.name n) name} {opt (ClassicalDeclarationStatement.expr n) (expr fuel)})"
    | .I_O_DECLARATION_STATEMENT =>
      s!"(IODeclarationStatement {rng n} {b (IODeclarationStatement.array_type n).isSome} {opt (IODeclarationStatement.scalar_type n) (scalarType fuel)} {opt (IODeclarationStatement.name n) name} {b (IODeclarationStatement.input_token n).isSome})"
    | .QUANTUM_DECLARATION_STATEMENT =>
      s!"(QuantumDeclarationStatement {rng n} {opt (QuantumDeclarationStatement.name n) name} {opt (QuantumDeclarationStatement.hardware_qubit n) hardwareQubit} {opt (QuantumDeclarationStatement.qubit_type n) (fun q => s!"(QubitType {rng q} {opt (QubitType.designator q) (designator fuel)})")})"
    | .ASSIGNMENT_STMT =>
      s!"(AssignmentStmt {rng n} {opt (AssignmentStmt.identifier n) identifier} {opt (AssignmentStmt.rhs n) (expr fuel)} {opt (AssignmentStmt.indexed_identifier n) (indexedIdentifier fuel)})"
    | .BREAK_STMT => s!"(BreakStmt {rng n})"
    | .CONTINUE_STMT => s!"(ContinueStmt {rng n})"
    | .END_STMT => s!"(EndStmt {rng n})"
    | .GATE =>
      s!"(Gate {rng n} {opt (Gate.name n) name} {opt (Gate.angle_params n) paramList} {opt (Gate.qubit_params n) paramList} {opt (Gate.body n) (blockExpr fuel)})"
    | .DEF =>
      s!"(Def {rng n} {opt (Def.name n) name} {opt (Def.typed_param_list n) (typedParamList fuel)} {opt (Def.body n) (blockExpr fuel)} {opt (Def.return_signature n) (fun r => s!"(ReturnSignature {rng r} {opt (ReturnSignature.scalar_type r) (scalarType fuel)})")})"
    | .BARRIER => s!"(Barrier {rng n} {opt (Barrier.qubit_list n) (qubitList fuel)})"
    | .DELAY_STMT =>
      s!"(DelayStmt {rng n} {opt (DelayStmt.qubit_list n) (qubitList fuel)} {opt (DelayStmt.designator n) (designator fuel)})"
    | .RESET => s!"(Reset {rng n} {opt (Reset.gate_operand n) (gateOperand fuel)})"
    | .INCLUDE => s!"(Include {rng n} {opt (Include.file n) filePath})"
    | .EXPR_STMT => s!"(ExprStmt {rng n} {opt (ExprStmt.expr n) (expr fuel)})"
    | .VERSION_STRING => s!"(VersionString {rng n})"
    | .PRAGMA_STATEMENT => s!"(PragmaStatement {rng n} {pText (PragmaStatement.pragma_text n)})"
    | .ANNOTATION_STATEMENT =>
      s!"(AnnotationStatement {rng n} {pText (AnnotationStatement.annotation_text n)})"
    | .ALIAS_DECLARATION_STATEMENT =>
      s!"(AliasDeclarationStatement {rng n} {opt (AliasDeclarationStatement.name n) name} {opt (AliasDeclarationStatement.expr n) (expr fuel)})"
    | .OLD_STYLE_DECLARATION_STATEMENT => s!"(OldStyleDeclarationStatement {rng n})"
    | .DEF_CAL => s!"(DefCal {rng n})"
    | .CAL => s!"(Cal {rng n})"
    | .DEF_CAL_GRAMMAR => s!"(DefCalGrammar {rng n})"
    | .LET_STMT => s!"(LetStmt {rng n})"
    | .MEASURE => s!"(Measure {rng n})"
    | .EXTERN_STMT => s!"(ExternStmt {rng n})"
    | _ => "NOT-A-STMT"

end

/-- enough for any tree: every call descends one level at most every second hop -/
def defaultFuel (root : CNode) : Nat := 3 * root.depth + 8

/-- `format!("(Program {} {})", rng(&tree), list(tree.statements(), stmt))` -/
def program (root : CNode) : String :=
  s!"(Program {rng root} {list ((SourceFile.statements root).map (stmt (defaultFuel root)))})"

end Dump

end Oq3.Acc
