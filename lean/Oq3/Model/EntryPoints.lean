/-
The public entry points around the include model (`Oq3.Model.Includes`):

* `parse_source_file_with_search` (oq3_source_file::api): the path of the top-level file is resolved like the path of an
  include (`resolve_file_path`), the file is read (`read_source_file` PANICS when it cannot be read), and the text is
  parsed with its includes exactly like a string;
* the summary accessors of the result: `SourceTrait::have_syntax_errors` / `num_syntax_errors` (over the tree of parsed
  sources), `SemanticErrorList::any_semantic_errors` (over the tree of per-file diagnostic lists),
  `ParseResult::any_errors`.
-/
import Oq3.Model.Includes

namespace Oq3.Includes
open Oq3.Sema

/-- what the top-level source is: a string (path tag "no file") or a file -/
inductive Entry
  | string (text : String)
  | file (path : String)
  deriving Inhabited

/-- `parse_source_string` / `parse_source_file_with_search` up to the parsed sources: the path tag of the top-level
source, what the syntax layers made of it, its included sources -/
def parseEntry (fs : FS) (parse : String → Parsed) (search env : Option (List String)) (fuel : Nat) :
    Entry → Except Outcome (String × Parsed × List PSrc)
  | .string text =>
    match parseSourceAndIncludes fs parse search env fuel text with
    | .ok (p, incs) => .ok ("no file", p, incs)
    | .error e => .error e
  | .file path =>
    let full := resolveFilePath fs path search env
    match fs.read full with
    | .ok content =>
      match parseSourceAndIncludes fs parse search env fuel content with
      | .ok (p, incs) => .ok (full, p, incs)
      | .error e => .error e
    | _ => .error (.panic "read_source_file")

mutual
/-- `SourceTrait::num_syntax_errors` -/
def numSyntaxErrors : PSrc → Nat
  | .mk _ parsed _ included =>
    (match parsed with
      | some (.lexErrors n) => n
      | some (.syntaxErrors n _) => n
      | _ => 0) + numSyntaxErrorsL included
def numSyntaxErrorsL : List PSrc → Nat
  | [] => 0
  | s :: ss => numSyntaxErrors s + numSyntaxErrorsL ss
end

mutual
/-- `SemanticErrorList::any_semantic_errors` -/
def ErrTree.anyErrors : ErrTree → Bool
  | .mk _ errs kids => !errs.isEmpty || anyErrorsL kids
def anyErrorsL : List ErrTree → Bool
  | [] => false
  | t :: ts => t.anyErrors || anyErrorsL ts
end

mutual
/-- the number of diagnostics stored anywhere in a tree of per-file lists -/
def ErrTree.count : ErrTree → Nat
  | .mk _ errs kids => errs.length + countL kids
def countL : List ErrTree → Nat
  | [] => 0
  | t :: ts => t.count + countL ts
end

/-- the summary accessors of `ParseResult` -/
structure Summary where
  anySyntax : Bool
  anySemantic : Bool
  anyErrors : Bool
  numSyntax : Nat
  numStmts : Nat
  deriving DecidableEq, Repr

/-- `analyze_source` + the accessors: `result = none` when analysis was skipped -/
def summarize (main : Parsed) (included : List PSrc) (result : Option (Ctx × List ErrTree)) : Summary :=
  let top : PSrc := .mk "" (some main) none included
  let syn := haveSyntaxErrors top
  let sem := match result with
    | some (c, trees) => (ErrTree.mk "" c.semanticErrors trees).anyErrors
    | none => false
  { anySyntax := syn, anySemantic := sem, anyErrors := syn || sem, numSyntax := numSyntaxErrors top,
    numStmts := match result with | some (c, _) => c.program.length | none => 0 }

end Oq3.Includes
