/-
Model of `crates/oq3_lexer/src/lib.rs` and `crates/oq3_lexer/src/cursor.rs`
(`Cursor::advance_token` with every scanner it calls, and `tokenize`).

Conventions (DESIGN.md §2.1, Appendix A):

* The cursor is the *remaining input* `List Char`.  `first`/`second` return `'\0'` at the end of
  the input exactly as the Rust does (`EOF_CHAR`), so a real NUL character in the input and the
  end of the input are indistinguishable to every test of the form `self.first() == …`, as in
  the code.  `bump` at the end of input is a no-op (`Chars::next` returns `None`).
* Byte lengths are computed through `Char.utf8Size` (`utf8Len`); `posWithinToken start cur`
  is `len_remaining - chars.as_str().len()` where `start` is the cursor at the token start.
* The Unicode class functions of the external crates `unicode-xid` and `unicode-properties` are
  the parameter `uc : UC`.  `uc.isEmoji` is the raw `is_emoji_char`; the guard `!c.is_ascii()`
  is applied by the model wherever the code applies it.
* `Cursor::prev` (debug builds only) is "the last character bumped".  Scanners whose
  `debug_assert!` mentions `prev()` take it as the argument `prev`; `havePragma` and
  `haveOpenqasm`, after which `prev()` is inspected, return the new value.
* Every `debug_assert!` is a Boolean recorded in the `ok` field of the scanner's result; the
  unsigned `depth -= 1` of `block_comment` records `0 < depth` the same way.  "No assertion
  fails" is the theorem `Oq3.Props.C14.asserts_hold`, not an assumption of the model.
* All recursion is structural: scanners recurse on the input list, `tokenizeFuel` on its fuel.
-/
namespace Oq3.Lexer

/-- Unicode class functions of external crates (parameters of the model):
`unicode_xid::UnicodeXID::{is_xid_start,is_xid_continue}`,
`unicode_properties::UnicodeEmoji::is_emoji_char`. -/
structure UC where
  xidStart : Char → Bool
  xidContinue : Char → Bool
  isEmoji : Char → Bool

/-! ### `TokenKind`, `LiteralKind`, `Base` -/

inductive Base | binary | octal | decimal | hexadecimal
  deriving DecidableEq, Repr, Inhabited

inductive LiteralKind
  | int (base : Base) (emptyInt : Bool)
  | float (base : Base) (emptyExponent : Bool)
  | byte (terminated : Bool)
  | str (terminated : Bool)
  | bitStr (terminated : Bool) (consecutiveUnderscores : Bool)
  deriving DecidableEq, Repr, Inhabited

inductive TokenKind
  | lineComment
  | blockComment (terminated : Bool)
  | whitespace
  | ident
  | hardwareIdent
  | invalidIdent
  | openQasmVersionStmt (major : Bool) (minor : Bool)
  | pragma
  | dim
  | annotation
  | literal (kind : LiteralKind) (suffixStart : Nat)
  | semi | comma | dot | openParen | closeParen | openBrace | closeBrace
  | openBracket | closeBracket | at | pound | tilde | question | colon | dollar
  | eq | bang | lt | gt | minus | and | or | plus | star | slash | caret | percent
  | unknown
  | eof
  deriving DecidableEq, Repr, Inhabited

/-! ### `cursor.rs` -/

abbrev Cursor := List Char

def EOF_CHAR : Char := '\x00'

/-- `Cursor::first` -/
def first (s : Cursor) : Char := s.headD EOF_CHAR
/-- `Cursor::second` -/
def second (s : Cursor) : Char := s.tail.headD EOF_CHAR
/-- `Cursor::is_eof` -/
def isEof (s : Cursor) : Bool := s.isEmpty
/-- `Cursor::bump` (the cursor part; a no-op at the end of input) -/
def bump (s : Cursor) : Cursor := s.tail

/-- `str::len` of a character list -/
def utf8Len : List Char → Nat
  | [] => 0
  | c :: cs => c.utf8Size + utf8Len cs

/-- `Cursor::pos_within_token`; `start` is the cursor at the last `reset_pos_within_token`
(`len_remaining = start.len()`), `cur` the current cursor. -/
def posWithinToken (start cur : Cursor) : Nat := utf8Len start - utf8Len cur

/-- `Cursor::eat_while`: `while predicate(self.first()) && !self.is_eof() { self.bump(); }` -/
def eatWhile (p : Char → Bool) : Cursor → Cursor
  | [] => []
  | c :: cs => if p c then eatWhile p cs else c :: cs

/-! ### character classes of `lib.rs` -/

/-- `char::is_ascii` -/
def isAscii (c : Char) : Bool := c.toNat < 128

/-- `'0'..='9'`, also `char::is_ascii_digit` -/
def isDecDigit (c : Char) : Bool := '0' ≤ c && c ≤ '9'

/-- `'0'..='9' | 'a'..='f' | 'A'..='F'` -/
def isHexDigit (c : Char) : Bool :=
  ('0' ≤ c && c ≤ '9') || ('a' ≤ c && c ≤ 'f') || ('A' ≤ c && c ≤ 'F')

/-- `is_whitespace` (Pattern_White_Space) -/
def isWhitespace (c : Char) : Bool :=
  c == '\u0009' || c == '\u000A' || c == '\u000B' || c == '\u000C' || c == '\u000D'
    || c == ' ' || c == '\u0085' || c == '\u200e' || c == '\u200f'
    || c == '\u2028' || c == '\u2029'

/-- `is_id_start` -/
def isIdStart (uc : UC) (c : Char) : Bool := c == '_' || uc.xidStart c

/-- `is_id_continue` -/
def isIdContinue (uc : UC) (c : Char) : Bool := uc.xidContinue c

/-- the guard `!c.is_ascii() && c.is_emoji_char()` -/
def isNonAsciiEmoji (uc : UC) (c : Char) : Bool := !isAscii c && uc.isEmoji c

/-! ### scanner results -/

/-- result of a scanner: returned value, remaining input, conjunction of the
`debug_assert!`s evaluated on the way -/
structure Scan (α : Type) where
  val : α
  rest : Cursor
  ok : Bool
  deriving Repr

/-- result of `have_pragma` / `have_openqasm`: additionally the value of `Cursor::prev`
afterwards -/
structure ScanP where
  val : Bool
  rest : Cursor
  prev : Char
  deriving Repr

/-! ### scanners -/

/-- `line_comment` -/
def lineComment (prev : Char) (s : Cursor) : Scan TokenKind :=
  let ok := prev == '/' && first s == '/'
  ⟨.lineComment, eatWhile (fun c => c != '\n') (bump s), ok⟩

/-- the `while let Some(c) = self.bump()` loop of `block_comment`; returns the final `depth`.
`ok` accumulates "`depth > 0` at every `depth -= 1`". -/
def blockCommentLoop : Nat → Bool → Cursor → Scan Nat
  | depth, ok, [] => ⟨depth, [], ok⟩
  | depth, ok, c :: cs =>
    if c == '/' && first cs == '*' then
      match cs with
      | [] => ⟨depth + 1, [], ok⟩
      | _ :: ds => blockCommentLoop (depth + 1) ok ds
    else if c == '*' && first cs == '/' then
      let ok' := ok && decide (0 < depth)
      let depth' := depth - 1
      match cs with
      | [] => ⟨depth', [], ok'⟩
      | _ :: ds => if depth' == 0 then ⟨depth', ds, ok'⟩ else blockCommentLoop depth' ok' ds
    else blockCommentLoop depth ok cs

/-- `block_comment` -/
def blockComment (prev : Char) (s : Cursor) : Scan TokenKind :=
  let ok := prev == '/' && first s == '*'
  let r := blockCommentLoop 1 ok (bump s)
  ⟨.blockComment (r.val == 0), r.rest, r.ok⟩

/-- `whitespace` -/
def whitespace (prev : Char) (s : Cursor) : Scan TokenKind :=
  ⟨.whitespace, eatWhile isWhitespace s, isWhitespace prev⟩

/-- `have_dim` -/
def haveDim (s : Cursor) : Scan Bool :=
  if first s == 'd' then
    let s := bump s
    if first s == 'i' then
      let s := bump s
      if first s == 'm' then
        ⟨true, bump s, true⟩
      else ⟨false, s, true⟩
    else ⟨false, s, true⟩
  else ⟨false, s, true⟩

/-- `have_pragma`; `prev` is `Cursor::prev` on entry, the result carries it on exit -/
def havePragma (prev : Char) (s : Cursor) : ScanP :=
  if first s == 'r' then
    let s := bump s
    if first s == 'a' then
      let s := bump s
      if first s == 'g' then
        let s := bump s
        if first s == 'm' then
          let s := bump s
          if first s == 'a' then
            let s := bump s
            if isWhitespace (first s) then
              -- `eat_while` may or may not bump; `prev` is not inspected after a `true` result
              ⟨true, eatWhile (fun c => c != '\n') s, 'a'⟩
            else ⟨false, s, 'a'⟩
          else ⟨false, s, 'm'⟩
        else ⟨false, s, 'g'⟩
      else ⟨false, s, 'a'⟩
    else ⟨false, s, 'r'⟩
  else ⟨false, s, prev⟩

/-- `have_openqasm` -/
def haveOpenqasm (prev : Char) (s : Cursor) : ScanP :=
  if first s == 'P' then
    let s := bump s
    if first s == 'E' then
      let s := bump s
      if first s == 'N' then
        let s := bump s
        if first s == 'Q' then
          let s := bump s
          if first s == 'A' then
            let s := bump s
            if first s == 'S' then
              let s := bump s
              if first s == 'M' then
                let s := bump s
                ⟨isWhitespace (first s), s, 'M'⟩
              else ⟨false, s, 'S'⟩
            else ⟨false, s, 'A'⟩
          else ⟨false, s, 'Q'⟩
        else ⟨false, s, 'N'⟩
      else ⟨false, s, 'E'⟩
    else ⟨false, s, 'P'⟩
  else ⟨false, s, prev⟩

/-- the loop of `eat_decimal_digits` -/
def eatDecimalDigitsLoop : Bool → Cursor → Scan Bool
  | hasDigits, [] => ⟨hasDigits, [], true⟩
  | hasDigits, c :: cs =>
    if c == '_' then eatDecimalDigitsLoop hasDigits cs
    else if isDecDigit c then eatDecimalDigitsLoop true cs
    else ⟨hasDigits, c :: cs, true⟩

/-- `eat_decimal_digits` -/
def eatDecimalDigits (s : Cursor) : Scan Bool := eatDecimalDigitsLoop false s

/-- the loop of `eat_hexadecimal_digits` -/
def eatHexadecimalDigitsLoop : Bool → Cursor → Scan Bool
  | hasDigits, [] => ⟨hasDigits, [], true⟩
  | hasDigits, c :: cs =>
    if c == '_' then eatHexadecimalDigitsLoop hasDigits cs
    else if isHexDigit c then eatHexadecimalDigitsLoop true cs
    else ⟨hasDigits, c :: cs, true⟩

/-- `eat_hexadecimal_digits` -/
def eatHexadecimalDigits (s : Cursor) : Scan Bool := eatHexadecimalDigitsLoop false s

/-- `eat_float_exponent` -/
def eatFloatExponent (prev : Char) (s : Cursor) : Scan Bool :=
  let ok := prev == 'e' || prev == 'E'
  let s := if first s == '-' || first s == '+' then bump s else s
  let r := eatDecimalDigits s
  ⟨r.val, r.rest, ok⟩

/-- `openqasm_version` -/
def openqasmVersion (s : Cursor) : Scan (Bool × Bool) :=
  let r := eatDecimalDigits s
  if !r.val then ⟨(false, false), r.rest, true⟩
  else
    let s := r.rest
    if first s == '.' then
      let r2 := eatDecimalDigits (bump s)
      if !r2.val then ⟨(true, false), r2.rest, true⟩
      else
        let s := r2.rest
        let c := first s
        if c != ';' && !isWhitespace c then ⟨(false, false), s, true⟩ else ⟨(true, true), s, true⟩
    else
      let c := first s
      if c != ';' && !isWhitespace c then ⟨(false, false), s, true⟩ else ⟨(true, true), s, true⟩

/-- `fake_ident_or_unknown_prefix` -/
def fakeIdentOrUnknownPrefix (uc : UC) (s : Cursor) : Scan TokenKind :=
  ⟨.invalidIdent,
   eatWhile (fun c => uc.xidContinue c || (!isAscii c && uc.isEmoji c) || c == '\u200d') s,
   true⟩

/-- `ident_or_unknown_prefix` -/
def identOrUnknownPrefix (uc : UC) (prev : Char) (s : Cursor) : Scan TokenKind :=
  let ok := isIdStart uc prev
  let s := eatWhile (isIdContinue uc) s
  if isNonAsciiEmoji uc (first s) then
    let r := fakeIdentOrUnknownPrefix uc s
    ⟨r.val, r.rest, ok && r.ok⟩
  else ⟨.ident, s, ok⟩

/-- `pragma_or_ident_or_unknown_prefix` -/
def pragmaOrIdentOrUnknownPrefix (uc : UC) (prev : Char) (s : Cursor) : Scan TokenKind :=
  let h := havePragma prev s
  if h.val then ⟨.pragma, h.rest, true⟩ else identOrUnknownPrefix uc h.prev h.rest

/-- `hardware_ident` -/
def hardwareIdent (uc : UC) (s : Cursor) : Scan TokenKind :=
  if isNonAsciiEmoji uc (first s) then
    fakeIdentOrUnknownPrefix uc (eatWhile (isIdContinue uc) s)
  else
    let r := eatDecimalDigits s
    if !r.val then ⟨.dollar, r.rest, true⟩ else ⟨.hardwareIdent, r.rest, true⟩

/-- the `match self.first() { 'e' | 'E' => { bump; empty_exponent = !eat_float_exponent } _ => () }`
shared by `float_with_no_leading_digit` and the `'.'` branch of `number`; returns
`empty_exponent` -/
def optExponent (s : Cursor) : Scan Bool :=
  if first s == 'e' || first s == 'E' then
    let r := eatFloatExponent (first s) (bump s)
    ⟨!r.val, r.rest, r.ok⟩
  else ⟨false, s, true⟩

/-- `float_with_no_leading_digit` -/
def floatWithNoLeadingDigit (s : Cursor) : Scan LiteralKind :=
  let ok := isDecDigit (first s)
  let r := eatDecimalDigits s
  let e := optExponent r.rest
  ⟨.float .decimal e.val, e.rest, ok && e.ok⟩

/-- the final `match self.first()` of `number` (after the digits of the integer part) -/
def numberTail (base : Base) (s : Cursor) : Scan LiteralKind :=
  if first s == '.' then
    let s := bump s
    if isDecDigit (first s) then
      let r := eatDecimalDigits s
      let e := optExponent r.rest
      ⟨.float base e.val, e.rest, e.ok⟩
    else ⟨.float base false, s, true⟩
  else if first s == 'e' || first s == 'E' then
    let r := eatFloatExponent (first s) (bump s)
    ⟨.float base (!r.val), r.rest, r.ok⟩
  else ⟨.int base false, s, true⟩

/-- `number` -/
def number (prev : Char) (firstDigit : Char) (s : Cursor) : Scan LiteralKind :=
  let ok := '0' ≤ prev && prev ≤ '9'
  let r : Scan LiteralKind :=
    if firstDigit == '0' then
      let c := first s
      if c == 'b' then
        let d := eatDecimalDigits (bump s)
        if !d.val then ⟨.int .binary true, d.rest, true⟩ else numberTail .binary d.rest
      else if c == 'o' then
        let d := eatDecimalDigits (bump s)
        if !d.val then ⟨.int .octal true, d.rest, true⟩ else numberTail .octal d.rest
      else if c == 'x' then
        let d := eatHexadecimalDigits (bump s)
        if !d.val then ⟨.int .hexadecimal true, d.rest, true⟩ else numberTail .hexadecimal d.rest
      else if isDecDigit c || c == '_' then
        numberTail .decimal (eatDecimalDigits s).rest
      else if c == '.' || c == 'e' || c == 'E' then
        numberTail .decimal s
      else ⟨.int .decimal false, s, true⟩
    else numberTail .decimal (eatDecimalDigits s).rest
  ⟨r.val, r.rest, ok && r.ok⟩

/-- state of the loop of `double_quoted_string` / `single_quoted_string` -/
structure StrState where
  onlyOnesAndZeros : Bool
  consecutiveUnderscores : Bool
  countNewlines : Nat
  prevChar : Char

/-- the `while let Some(c) = self.bump()` loop shared (textually, up to the quote character
`q`) by `double_quoted_string` and `single_quoted_string`, including the code after the loop;
returns `(terminated, only_ones_and_zeros, consecutive_underscores)` -/
def quotedStringLoop (q : Char) : StrState → Cursor → Scan (Bool × Bool × Bool)
  | st, [] =>
    let only :=
      if decide (st.countNewlines > 0) && !(st.countNewlines == 1 && st.prevChar == '\n')
      then false else st.onlyOnesAndZeros
    ⟨(false, only, st.consecutiveUnderscores), [], true⟩
  | st, c :: cs =>
    if c == q then
      let only := if decide (st.countNewlines > 0) then false else st.onlyOnesAndZeros
      ⟨(true, only, st.consecutiveUnderscores), cs, true⟩
    else if c == '\\' && (first cs == '\\' || first cs == q) then
      match cs with
      | [] => quotedStringLoop q { st with onlyOnesAndZeros := false, prevChar := c } []
      | _ :: ds => quotedStringLoop q { st with onlyOnesAndZeros := false, prevChar := c } ds
    else if c == '\n' then
      let n := st.countNewlines + 1
      quotedStringLoop q
        { st with countNewlines := n,
                  onlyOnesAndZeros := if decide (n > 1) then false else st.onlyOnesAndZeros,
                  prevChar := c } cs
    else if c == '_' then
      quotedStringLoop q
        { st with consecutiveUnderscores :=
                    if st.prevChar == '_' then true else st.consecutiveUnderscores,
                  prevChar := c } cs
    else if c == '0' || c == '1' then
      quotedStringLoop q { st with prevChar := c } cs
    else
      quotedStringLoop q { st with onlyOnesAndZeros := false, prevChar := c } cs

def StrState.init : StrState := ⟨true, false, 0, '\x00'⟩

/-- `double_quoted_string` -/
def doubleQuotedString (prev : Char) (s : Cursor) : Scan (Bool × Bool × Bool) :=
  let r := quotedStringLoop '"' StrState.init s
  ⟨r.val, r.rest, prev == '"'⟩

/-- `single_quoted_string` -/
def singleQuotedString (prev : Char) (s : Cursor) : Scan (Bool × Bool × Bool) :=
  let r := quotedStringLoop '\'' StrState.init s
  ⟨r.val, r.rest, prev == '\''⟩

/-- `eat_identifier` -/
def eatIdentifier (uc : UC) (s : Cursor) : Cursor :=
  if !isIdStart uc (first s) then s else eatWhile (isIdContinue uc) (bump s)

/-- `eat_literal_suffix` -/
def eatLiteralSuffix (uc : UC) (s : Cursor) : Cursor := eatIdentifier uc s

/-- `has_timing_or_imaginary_suffix` -/
def hasTimingOrImaginarySuffix (s : Cursor) : Bool :=
  if first s == 's' then true
  else
    [('d', 't'), ('n', 's'), ('u', 's'), ('m', 's'), ('\u00b5', 's'), ('i', 'm')].any
      fun p => first s == p.1 && second s == p.2

/-- the code shared by the `'0'..='9'` and `'.'` arms of `advance_token` after the literal kind
is known: take `suffix_start`, eat the suffix unless it is a timing/imaginary one -/
def numericLiteral (uc : UC) (start : Cursor) (lit : Scan LiteralKind) : Scan TokenKind :=
  let suffixStart := posWithinToken start lit.rest
  let rest :=
    if !hasTimingOrImaginarySuffix lit.rest then eatLiteralSuffix uc lit.rest else lit.rest
  ⟨.literal lit.val suffixStart, rest, lit.ok⟩

/-- the code shared by the `'"'` and `'\''` arms of `advance_token` -/
def stringLiteral (uc : UC) (start : Cursor) (r : Scan (Bool × Bool × Bool)) : Scan TokenKind :=
  let terminated := r.val.1
  let onlyOnesAndZeros := r.val.2.1
  let consecutiveUnderscores := r.val.2.2
  let suffixStart := posWithinToken start r.rest
  let rest := if terminated then eatLiteralSuffix uc r.rest else r.rest
  let kind : LiteralKind :=
    if onlyOnesAndZeros then .bitStr terminated consecutiveUnderscores else .str terminated
  ⟨.literal kind suffixStart, rest, r.ok⟩

/-- the one-symbol arms `';' => Semi, …, '%' => Percent` of `advance_token` (those that do not
look at the rest of the input) -/
def oneSymbol (c : Char) : Option TokenKind :=
  if c == ';' then some .semi
  else if c == ',' then some .comma
  else if c == '(' then some .openParen
  else if c == ')' then some .closeParen
  else if c == '{' then some .openBrace
  else if c == '}' then some .closeBrace
  else if c == '[' then some .openBracket
  else if c == ']' then some .closeBracket
  else if c == '~' then some .tilde
  else if c == '?' then some .question
  else if c == ':' then some .colon
  else if c == '=' then some .eq
  else if c == '!' then some .bang
  else if c == '<' then some .lt
  else if c == '>' then some .gt
  else if c == '-' then some .minus
  else if c == '&' then some .and
  else if c == '|' then some .or
  else if c == '+' then some .plus
  else if c == '*' then some .star
  else if c == '^' then some .caret
  else if c == '%' then some .percent
  else none

/-- the `match first_char { … }` of `advance_token`: `c` has been bumped, `cs` is the cursor.
The arms are tried in the order of the source. -/
def advanceKind (uc : UC) (c : Char) (cs : Cursor) : Scan TokenKind :=
  let start := c :: cs
  if c == '/' then
    if first cs == '/' then lineComment c cs
    else if first cs == '*' then blockComment c cs
    else ⟨.slash, cs, true⟩
  else if isWhitespace c then whitespace c cs
  else if c == 'p' then pragmaOrIdentOrUnknownPrefix uc c cs
  else if c == 'O' then
    let h := haveOpenqasm c cs
    if h.val then
      let v := openqasmVersion (eatWhile isWhitespace h.rest)
      ⟨.openQasmVersionStmt v.val.1 v.val.2, v.rest, v.ok⟩
    else identOrUnknownPrefix uc h.prev h.rest
  else if isIdStart uc c then identOrUnknownPrefix uc c cs
  else if isDecDigit c then numericLiteral uc start (number c c cs)
  else if c == '#' then
    if first cs == 'p' then
      let h := havePragma 'p' (bump cs)
      if h.val then ⟨.pragma, h.rest, true⟩ else ⟨.invalidIdent, h.rest, true⟩
    else if first cs == 'd' then
      let h := haveDim cs
      if h.val then ⟨.dim, h.rest, h.ok⟩ else ⟨.invalidIdent, h.rest, h.ok⟩
    else ⟨.invalidIdent, cs, true⟩
  else if c == '@' then
    if isIdStart uc (first cs) then ⟨.annotation, eatWhile (fun c => c != '\n') cs, true⟩
    else ⟨.at, cs, true⟩
  else if c == '.' then
    if isDecDigit (first cs) then numericLiteral uc start (floatWithNoLeadingDigit cs)
    else ⟨.dot, cs, true⟩
  else if c == '$' then hardwareIdent uc cs
  else match oneSymbol c with
  | some k => ⟨k, cs, true⟩
  | none =>
    if c == '"' then stringLiteral uc start (doubleQuotedString c cs)
    else if c == '\'' then stringLiteral uc start (singleQuotedString c cs)
    else if isNonAsciiEmoji uc c then fakeIdentOrUnknownPrefix uc cs
    else ⟨.unknown, cs, true⟩

/-- result of `advance_token`: the `Token { kind, len }`, the cursor afterwards, and the
conjunction of all assertions evaluated -/
structure Adv where
  kind : TokenKind
  len : Nat
  rest : Cursor
  ok : Bool
  deriving Repr

/-- `Cursor::advance_token` -/
def advanceToken (uc : UC) : Cursor → Adv
  | [] => ⟨.eof, 0, [], true⟩
  | c :: cs =>
    let r := advanceKind uc c cs
    ⟨r.val, posWithinToken (c :: cs) r.rest, r.rest, r.ok⟩

/-- A token of the stream: `kind` and `len` are the Rust `Token`; `text` is the slice of the
input the token covers (the consumed prefix, whole characters by construction), which the Rust
recovers later by byte slicing (`Oq3.Lexed`); `ok` says that every `debug_assert!` evaluated
while scanning this token held. -/
structure Token where
  kind : TokenKind
  len : Nat
  text : List Char
  ok : Bool
  deriving DecidableEq, Repr

/-- the prefix of `s` consumed when the cursor went from `s` to its suffix `rest` -/
def consumed (s rest : Cursor) : List Char := s.take (s.length - rest.length)

/-- `tokenize`: `from_fn(|| { let t = cursor.advance_token(); (t.kind != Eof).then(t) })`,
one unit of fuel per token -/
def tokenizeFuel (uc : UC) : Nat → Cursor → List Token
  | 0, _ => []
  | fuel + 1, s =>
    let a := advanceToken uc s
    if a.kind == .eof then []
    else ⟨a.kind, a.len, consumed s a.rest, a.ok⟩ :: tokenizeFuel uc fuel a.rest

/-- `tokenize` (fuel = number of characters; sufficient by `tokenize_fuel_suffices`) -/
def tokenize (uc : UC) (s : List Char) : List Token := tokenizeFuel uc s.length s

/-- all assertions evaluated while lexing `s` held -/
def tokenizeOk (uc : UC) (s : List Char) : Bool := (tokenize uc s).all (·.ok)

end Oq3.Lexer
