/-
Model of `crates/oq3_semantics/src/asg.rs`: the ASG as Lean inductives, and every constructor of
asg.rs that COMPUTES something (the literal constructors' types, `Cast::to_texpr`,
`UnaryExpr::to_texpr`, `BinaryExpr::new_texpr_with_cast`, `MeasureExpression::to_texpr`,
`IndexExpression`/`IndexedIdentifier::to_texpr`, `GateOperand::to_texpr`, `SubroutineCall`,
`ReturnExpression`, `RangeExpression`, `SetExpression`, `HardwareQubit`,
`impl TryFrom<&TExpr> for u32`, `IndexOperator::num_dims`).

`SymbolIdResult = Result<SymbolId, SymbolError>` is `Except SymbolError Nat`.
`f64` values are carried as the string Rust's `Display` prints for them (external, DESIGN §5).
Constructor names avoid Lean keywords (`ifStmt`, `breakStmt`, `returnExpr`, ...).
-/
import Oq3.Model.Types

namespace Oq3.Sema
open Oq3.Types

/-- `symbols.rs: enum SymbolError` -/
inductive SymbolError | missingBinding | alreadyBound
  deriving DecidableEq, Repr, Inhabited

abbrev SymbolIdResult := Except SymbolError Nat

def SymbolIdResult.isOk : SymbolIdResult → Bool
  | .ok _ => true
  | .error _ => false

/-- `asg::TimeUnit` -/
inductive TimeUnit | second | milliSecond | microSecond | nanoSecond | cycle
  deriving DecidableEq, Repr, Inhabited

/-- `asg::UnaryOp` -/
inductive UnaryOp | minus | not | bitNot
  deriving DecidableEq, Repr, Inhabited

/-- `asg::CmpOp` -/
inductive CmpOp | eq | neq
  deriving DecidableEq, Repr, Inhabited

/-- `asg::BinaryOp` (`ArithOp` is `Oq3.Types.ArithOp`, the model of `asg::ArithOp`) -/
inductive BinaryOp
  | arithOp (op : ArithOp)
  | cmpOp (op : CmpOp)
  | concatenationOp
  | powerOp
  deriving DecidableEq, Repr, Inhabited

/-- `asg::Literal` with the payload structs inlined -/
inductive Literal
  | bool (value : Bool)
  | int (value : Nat) (sign : Bool)
  | float (value : String)
  | imaginaryInt (value : Nat) (sign : Bool)
  | imaginaryFloat (value : String)
  | bitString (value : String)
  | timingIntLiteral (value : Nat) (sign : Bool) (timeUnit : TimeUnit)
  | timingFloatLiteral (value : String) (sign : Bool) (timeUnit : TimeUnit)
  | array
  deriving DecidableEq, Repr, Inhabited

mutual

/-- `asg::Expr` -/
inductive Expr
  | binaryExpr (op : BinaryOp) (left right : TExpr)
  | unaryExpr (op : UnaryOp) (operand : TExpr)
  | literal (l : Literal)
  | cast (operand : TExpr) (typ : T)
  | identifier (s : SymbolIdResult)
  | hardwareQubit (identifier : String)
  | indexExpression (expr : TExpr) (index : IndexOperator)
  | indexedIdentifier (i : IndexedIdentifier)
  | gateOperand (g : GateOperand)
  | returnExpr (value : Option TExpr)
  | subroutineCall (name : SymbolIdResult) (params : Option (List TExpr))
  | measureExpression (operand : TExpr)
  | setExpression (expressions : List TExpr)
  | rangeExpression (start : TExpr) (step : Option TExpr) (stop : TExpr)
  | nullExpr

/-- `asg::TExpr` = (Expr, Type) -/
inductive TExpr
  | mk (expression : Expr) (ty : T)

/-- `asg::IndexOperator` (`SetExpression` / `ExpressionList` payloads are their vectors) -/
inductive IndexOperator
  | setExpression (expressions : List TExpr)
  | expressionList (expressions : List TExpr)

/-- `asg::IndexedIdentifier` -/
inductive IndexedIdentifier
  | mk (identifier : SymbolIdResult) (indexes : List IndexOperator)

/-- `asg::GateOperand` -/
inductive GateOperand
  | identifier (s : SymbolIdResult)
  | hardwareQubit (identifier : String)
  | indexedIdentifier (i : IndexedIdentifier)

end

instance : Inhabited TExpr := ⟨.mk .nullExpr .undefined⟩

/-- `asg::GateModifier` -/
inductive GateModifier
  | inv
  | pow (e : TExpr)
  | ctrl (e : Option TExpr)
  | negCtrl (e : Option TExpr)

/-- `asg::LValue` -/
inductive LValue
  | identifier (s : SymbolIdResult)
  | indexedIdentifier (i : IndexedIdentifier)

/-- `asg::ForIterable` -/
inductive ForIterable
  | setExpression (expressions : List TExpr)
  | rangeExpression (start : TExpr) (step : Option TExpr) (stop : TExpr)
  | expr (e : TExpr)

mutual

/-- `asg::Stmt` -/
inductive Stmt
  | alias (name : SymbolIdResult) (rhs : TExpr)
  | annotatedStmt (stmt : Stmt) (annotations : List String)
  | assignment (lvalue : LValue) (rvalue : TExpr)
  | barrier (qubits : Option (List TExpr))
  | block (b : Block)
  | box
  | breakStmt
  | cal
  | continueStmt
  | declareClassical (name : SymbolIdResult) (initializer : Option TExpr)
  | declareQuantum (name : SymbolIdResult)
  | declareHardwareQubit (name : String)
  | defStmt (name : SymbolIdResult) (params : List SymbolIdResult) (block : Block) (returnType : T)
  | defCal
  | delay (duration : TExpr) (qubits : List TExpr)
  | endStmt
  | exprStmt (e : TExpr)
  | extern
  | forStmt (loopVar : SymbolIdResult) (iterable : ForIterable) (loopBody : Block)
  | gPhaseCall (arg : TExpr)
  | gateCall (name : SymbolIdResult) (params : Option (List TExpr)) (qubits : List TExpr)
      (modifiers : List GateModifier)
  | gateDefinition (name : SymbolIdResult) (params : Option (List SymbolIdResult))
      (qubits : List SymbolIdResult) (block : Block)
  | inputDeclaration (name : SymbolIdResult)
  | outputDeclaration (name : SymbolIdResult)
  | ifStmt (condition : TExpr) (thenBranch : Block) (elseBranch : Option Block)
  | includeStmt (filePath : String)
  | modifiedGPhaseCall (arg : TExpr) (modifiers : List GateModifier)
  | nullStmt
  | oldStyleDeclaration
  | pragma (pragmaText : String)
  | reset (gateOperand : TExpr)
  | switchCaseStmt (control : TExpr) (cases : List CaseExpr) (defaultBlock : Option (List Stmt))
  | whileStmt (condition : TExpr) (loopBody : Block)

/-- `asg::Block` -/
inductive Block
  | mk (statements : List Stmt)

/-- `asg::CaseExpr` -/
inductive CaseExpr
  | mk (controlValues : List TExpr) (statements : List Stmt)

end

instance : Inhabited Stmt := ⟨.nullStmt⟩

/-! ### accessors and computing constructors -/

/-- `TExpr::get_type` -/
def TExpr.getType : TExpr → T
  | .mk _ t => t

/-- `TExpr::expression` -/
def TExpr.expression : TExpr → Expr
  | .mk e _ => e

/-- `BoolLiteral::to_texpr` -/
def boolLiteralToTexpr (v : Bool) : TExpr := .mk (.literal (.bool v)) (.boolT true)

/-- `IntLiteral::to_texpr` -/
def intLiteralToTexpr (value : Nat) (sign : Bool) : TExpr :=
  .mk (.literal (.int value sign)) (.int (some 128) true)

/-- `IntLiteral::to_imaginary_texpr` -/
def intLiteralToImaginaryTexpr (value : Nat) (sign : Bool) : TExpr :=
  .mk (.literal (.imaginaryInt value sign)) (.int (some 64) true)

/-- `FloatLiteral::to_texpr` -/
def floatLiteralToTexpr (value : String) : TExpr :=
  .mk (.literal (.float value)) (.float (some 64) true)

/-- `FloatLiteral::to_imaginary_texpr` -/
def floatLiteralToImaginaryTexpr (value : String) : TExpr :=
  .mk (.literal (.imaginaryFloat value)) (.complex (some 64) true)

/-- `BitStringLiteral::to_texpr`: the width counts only `0` and `1` -/
def bitStringLiteralToTexpr (value : String) : TExpr :=
  let width := (value.toList.filter (fun c => c == '0' || c == '1')).length
  .mk (.literal (.bitString value)) (.bitArray (.d1 width) true)

/-- `TimingIntLiteral::to_texpr` -/
def timingIntLiteralToTexpr (value : Nat) (sign : Bool) (u : TimeUnit) : TExpr :=
  .mk (.literal (.timingIntLiteral value sign u)) (.duration true)

/-- `TimingFloatLiteral::to_texpr` -/
def timingFloatLiteralToTexpr (value : String) (sign : Bool) (u : TimeUnit) : TExpr :=
  .mk (.literal (.timingFloatLiteral value sign u)) (.duration true)

/-- `Cast::new(operand, typ).to_texpr()` -/
def castToTexpr (operand : TExpr) (typ : T) : TExpr := .mk (.cast operand typ) typ

/-- `UnaryExpr::new(op, operand).to_texpr()` -/
def unaryExprToTexpr (op : UnaryOp) (operand : TExpr) : TExpr :=
  match op with
  | .not => .mk (.unaryExpr op operand) (.boolT false)
  | .minus | .bitNot => .mk (.unaryExpr op operand) operand.getType

/-- `BinaryExpr::new_texpr_with_cast` -/
def newTexprWithCast (op : BinaryOp) (left right : TExpr) : TExpr :=
  let leftType := left.getType
  let rightType := right.getType
  match op with
  | .arithOp arithOp =>
    let promotedType := implicitCastType arithOp leftType rightType
    let newLeft := if promotedType = leftType then left else castToTexpr left promotedType
    let newRight := if promotedType = rightType then right else castToTexpr right promotedType
    .mk (.binaryExpr op newLeft newRight) promotedType
  | .cmpOp _ | .concatenationOp | .powerOp => .mk (.binaryExpr op left right) .todo

/-- `MeasureExpression::new(operand).to_texpr()` -/
def measureExpressionToTexpr (operand : TExpr) : TExpr :=
  let outType : T := match operand.getType with
    | .qubit | .hwqubit => .bit false
    | .qubitArray dims => .bitArray dims false
    | _ => .undefined
  .mk (.measureExpression operand) outType

/-- `IndexExpression::new(expr, index).to_texpr()` -/
def indexExpressionToTexpr (expr : TExpr) (index : IndexOperator) : TExpr :=
  .mk (.indexExpression expr index) .todo

/-- `IndexedIdentifier::to_texpr` -/
def indexedIdentifierToTexpr (i : IndexedIdentifier) : TExpr := .mk (.indexedIdentifier i) .todo

def IndexedIdentifier.indexes : IndexedIdentifier → List IndexOperator
  | .mk _ ixs => ixs

/-- `GateOperand::to_texpr(typ)` -/
def gateOperandToTexpr (g : GateOperand) (typ : T) : TExpr := .mk (.gateOperand g) typ

/-- `SubroutineCall::new(name, params).to_texpr(typ)` -/
def subroutineCallToTexpr (name : SymbolIdResult) (params : Option (List TExpr)) (typ : T) : TExpr :=
  .mk (.subroutineCall name params) typ

/-- `ReturnExpression::new(value).to_texpr()` -/
def returnExpressionToTexpr (value : Option TExpr) : TExpr :=
  let returnType : T := match value with
    | some e => e.getType
    | none => .void
  .mk (.returnExpr value) returnType

/-- `RangeExpression::new(start, step, stop).to_texpr()` -/
def rangeExpressionToTexpr (start : TExpr) (step : Option TExpr) (stop : TExpr) : TExpr :=
  .mk (.rangeExpression start step stop) .range

/-- `HardwareQubit::new(name).to_texpr()` -/
def hardwareQubitToTexpr (name : String) : TExpr := .mk (.hardwareQubit name) .hwqubit

/-- `IndexOperator::num_dims` -/
def IndexOperator.numDims : IndexOperator → Nat
  | .setExpression _ => 1
  | .expressionList es => es.length

/-- `impl TryFrom<&TExpr> for u32`: only `Cast(Literal(Int{value, sign: true}))` with
`value < 2^32` converts -/
def texprToU32 (value : TExpr) : Option Nat :=
  match value.expression with
  | .cast (.mk (.literal (.int intValue true)) _) _ =>
    if intValue < 2 ^ 32 then some intValue else none
  | _ => none

end Oq3.Sema
