/-
The concrete syntax tree as `oq3-run tree` / `driver tree` print it (interface I4), and the three
generic accessors of `crates/oq3_syntax/src/ast.rs: mod support` on it.

rowan is external: a `SyntaxNode` is modelled by its kind, its byte range and the list of its
children (nodes and tokens, in source order); a `SyntaxToken` by kind, range and text.  The
printed form is `(KIND start end child...)` for nodes and `KIND:start:end:hextext` for tokens
(/verif/harness/src/m_tree.rs).

  rowan                                   here
  ------------------------------------    ---------------------------
  `node.children_with_tokens()`           `CNode.children`
  `node.children()` (nodes only)          `CNode.childNodes`
  `node.first_child_or_token()`           `CNode.children.head?`
  `N::cast(node)`                         `cast N.canCast node`
  `support::child::<N>(parent)`           `support.child N.canCast parent`
  `support::children::<N>(parent)`        `support.children N.canCast parent` (the whole iterator
                                          as a list: `.next()` = `head?`, `.nth(i)` = `[i]?`)
  `support::token(parent, kind)`          `support.token parent kind`
-/
import Oq3.Gen.SyntaxKind

namespace Oq3.Acc
open Oq3.Gen

inductive CNode
  | node (kind : SyntaxKind) (start stop : Nat) (children : List CNode)
  | token (kind : SyntaxKind) (start stop : Nat) (text : List Char)
  deriving Repr, Inhabited

namespace CNode

mutual
/-- decidable equality, written out (no deriving handler for nested inductives) -/
def decEq : (a b : CNode) → Decidable (a = b)
  | .node k s e cs, .node k' s' e' cs' =>
    if h1 : k = k' then
      if h2 : s = s' then
        if h3 : e = e' then
          match decEqList cs cs' with
          | isTrue h4 => isTrue (by subst h1; subst h2; subst h3; subst h4; rfl)
          | isFalse h4 => isFalse (by intro h; cases h; exact h4 rfl)
        else isFalse (by intro h; cases h; exact h3 rfl)
      else isFalse (by intro h; cases h; exact h2 rfl)
    else isFalse (by intro h; cases h; exact h1 rfl)
  | .token k s e t, .token k' s' e' t' =>
    if h1 : k = k' then
      if h2 : s = s' then
        if h3 : e = e' then
          if h4 : t = t' then isTrue (by subst h1; subst h2; subst h3; subst h4; rfl)
          else isFalse (by intro h; cases h; exact h4 rfl)
        else isFalse (by intro h; cases h; exact h3 rfl)
      else isFalse (by intro h; cases h; exact h2 rfl)
    else isFalse (by intro h; cases h; exact h1 rfl)
  | .node .., .token .. => isFalse (by intro h; cases h)
  | .token .., .node .. => isFalse (by intro h; cases h)
def decEqList : (a b : List CNode) → Decidable (a = b)
  | [], [] => isTrue rfl
  | [], _ :: _ => isFalse (by intro h; cases h)
  | _ :: _, [] => isFalse (by intro h; cases h)
  | x :: xs, y :: ys =>
    match decEq x y with
    | isTrue h1 =>
      match decEqList xs ys with
      | isTrue h2 => isTrue (by subst h1; subst h2; rfl)
      | isFalse h2 => isFalse (by intro h; cases h; exact h2 rfl)
    | isFalse h1 => isFalse (by intro h; cases h; exact h1 rfl)
end

instance : DecidableEq CNode := decEq

def kind : CNode → SyntaxKind
  | .node k _ _ _ => k
  | .token k _ _ _ => k

def start : CNode → Nat
  | .node _ s _ _ => s
  | .token _ s _ _ => s

def stop : CNode → Nat
  | .node _ _ e _ => e
  | .token _ _ e _ => e

/-- `children_with_tokens()` -/
def children : CNode → List CNode
  | .node _ _ _ cs => cs
  | .token _ _ _ _ => []

def isNode : CNode → Bool
  | .node .. => true
  | .token .. => false

def isToken : CNode → Bool
  | .node .. => false
  | .token .. => true

/-- `SyntaxToken::text()`; a node has no own text here -/
def tokenText : CNode → List Char
  | .node .. => []
  | .token _ _ _ t => t

/-- `SyntaxNode::children()`: child *nodes* only -/
def childNodes (n : CNode) : List CNode := n.children.filter isNode

/-- `children_with_tokens().filter_map(|it| it.into_token())` -/
def childTokens (n : CNode) : List CNode := n.children.filter isToken

/-- depth of the tree (a token has depth 0); used as the fuel of the recursive dump -/
def depth : CNode → Nat
  | .token .. => 0
  | .node _ _ _ cs => depthList cs + 1
where
  depthList : List CNode → Nat
    | [] => 0
    | c :: cs => max (depth c) (depthList cs)

end CNode

/-- `AstNode::cast` of a node type with the given `can_cast` -/
def cast (can : SyntaxKind → Bool) (n : CNode) : Option CNode :=
  if can n.kind then some n else none

namespace support

/-- `parent.children().find_map(N::cast)` -/
def child (can : SyntaxKind → Bool) (parent : CNode) : Option CNode :=
  parent.childNodes.findSome? (cast can)

/-- `AstChildren::new(parent)`: `parent.children().filter_map(N::cast)` -/
def children (can : SyntaxKind → Bool) (parent : CNode) : List CNode :=
  parent.childNodes.filterMap (cast can)

/-- `parent.children_with_tokens().filter_map(into_token).find(|it| it.kind() == kind)` -/
def token (parent : CNode) (kind : SyntaxKind) : Option CNode :=
  parent.childTokens.find? (fun t => t.kind == kind)

end support

end Oq3.Acc
