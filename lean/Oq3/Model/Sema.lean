/-
Model of `crates/oq3_semantics/src/syntax_to_semantics.rs` — the recursive part:
`syntax_to_semantic` (single file, no real includes), `stmt_to_asg_stmt`,
`expr_stmt_to_asg_stmt`, `paren_expr_to_asg_texpr`, `expr_to_asg_texpr`,
`set_expression_to_asg_type`, `range_expression_to_asg_type`, `gate_call_expr_to_asg_stmt`,
`call_expr_to_asg_texpr`, `gate_operand_to_asg_texpr`, `index_operator_to_asg_type`,
`expression_list_to_asg_type`, `qubit_list_to_asg_texpr`, `expression_list_to_asg_texpr`,
`block_expr_to_asg_stmt_list`, `block_expr_to_asg_type`, `block_or_stmt_to_asg_type`,
`classical_declaration_statement_to_asg_stmt`, `assignment_stmt_to_asg_stmt`,
`indexed_identifier_to_asg_type`.  Same names in camelCase, same evaluation order (the order of
diagnostics and of symbol ids depends on it).

Recursion: ONE fuel argument (first), structural; every call between functions of the mutual
block, including the list loops (`*Loop`), passes `fuel` from `fuel+1` (DESIGN Appendix A.1).
The loops model `iter.map(f).collect()` / `filter_map`.
-/
import Oq3.Model.SemaCtx

namespace Oq3.Sema
open Oq3.Types Oq3.Symbols

mutual

/-- `stmt_to_asg_stmt` -/
def stmtToAsgStmt : Nat → Ast.Stmt → M (Option Stmt)
  | 0, _ => throw .fuel
  | fuel+1, stmt => do
    match stmt with
    | .ifStmt _ condition trueBody falseBody =>
      let condition ← exprToAsgTexpr fuel condition
      let thenBranch ← withScope .localS do
        let trueBody ← match trueBody with
          | .ok b => pure b
          | .panicked => fail "true_body_block_or_stmt: Error in oq3_syntax"
        blockOrStmtToAsgType fuel trueBody
      let elseBranch ← withScope .localS do
        match falseBody with
        | some bors => do pure (some (← blockOrStmtToAsgType fuel bors))
        | none => pure none
      let condition ← unwrap "stmt_to_asg_stmt: IfStmt condition.unwrap() on None" condition
      pure (some (.ifStmt condition thenBranch elseBranch))

    | .whileStmt _ condition body =>
      let condition ← exprToAsgTexpr fuel condition
      let loopBody ← withScope .localS do
        let body ← match body with
          | .ok b => pure b
          | .panicked => fail "block_or_stmt: Error in oq3_syntax"
        blockOrStmtToAsgType fuel body
      let condition ← unwrap "stmt_to_asg_stmt: WhileStmt condition.unwrap() on None" condition
      pure (some (.whileStmt condition loopBody))

    | .forStmt _ loopVar scalarType forIterable body =>
      let loopVar ← unwrap "stmt_to_asg_stmt: ForStmt loop_var() is None" loopVar
      let scalarType ← unwrap "stmt_to_asg_stmt: ForStmt scalar_type() is None" scalarType
      let ty ← scalarTypeToType scalarType false
      let iterableAst ← unwrap "stmt_to_asg_stmt: ForStmt for_iterable() is None" forIterable
      let iterable ← match iterableAst.setExpression with
        | some setExpression => do
          pure (ForIterable.setExpression (← setExpressionToAsgType fuel setExpression))
        | none =>
          match iterableAst.rangeExpr with
          | some rangeExpression => do
            let (start, step, stop) ← rangeExpressionToAsgType fuel rangeExpression
            pure (ForIterable.rangeExpression start step stop)
          | none =>
            match iterableAst.forIterableExpr with
            | some expression => do
              let e ← exprToAsgTexpr fuel (some expression)
              let e ← unwrap "stmt_to_asg_stmt: ForStmt iterable expression unwrap() on None" e
              pure (ForIterable.expr e)
            | none => fail "stmt_to_asg_stmt: ForStmt unreachable!() no iterable"
      let (loopVarSymbolId, loopBody) ← withScope .localS do
        let loopVarSymbolId ← newBinding loopVar.text ty loopVar.span
        let body ← match body with
          | .ok b => pure b
          | .panicked => fail "block_or_stmt: Error in oq3_syntax"
        let loopBody ← blockOrStmtToAsgType fuel body
        pure (loopVarSymbolId, loopBody)
      pure (some (.forStmt loopVarSymbolId iterable loopBody))

    | .switchCaseStmt _ control caseExprs defaultBlock =>
      let control ← exprToAsgTexpr fuel control
      let cases ← caseExprsLoop fuel caseExprs
      let defaultStatements ← withScope .localS do
        match defaultBlock with
        | some block => do pure (some (← blockExprToAsgStmtList fuel block))
        | none => pure none
      let control ← unwrap "stmt_to_asg_stmt: SwitchCaseStmt control.unwrap() on None" control
      pure (some (.switchCaseStmt control cases defaultStatements))

    | .classicalDeclarationStatement span arrayType scalarType constToken name expr =>
      let s ← classicalDeclarationStatementToAsgStmt fuel span arrayType scalarType constToken
        name expr
      pure (some s)

    | .ioDeclarationStatement _ arrayType scalarType name inputToken =>
      let s ← ioDeclarationStatementToAsgStmt arrayType scalarType name inputToken
      pure (some s)

    | .quantumDeclarationStatement span name hardwareQubit qubitType =>
      notGlobalCheck span
      match name with
      | none =>
        let hwQubit ← unwrap "stmt_to_asg_stmt: QuantumDeclarationStatement hardware_qubit() is None"
          hardwareQubit
        pure (some (.declareHardwareQubit hwQubit.text))
      | some name =>
        let qubitType ← unwrap "stmt_to_asg_stmt: QuantumDeclarationStatement qubit_type() is None"
          qubitType
        let width ← designatorToAsg qubitType.designator
        let typ : T := match width with
          | some width => .qubitArray (.d1 width)
          | none => .qubit
        let symbolId ← newBinding name.text typ span
        pure (some (.declareQuantum symbolId))

    | .assignmentStmt span identifier rhs indexedIdentifier =>
      assignmentStmtToAsgStmt fuel span identifier rhs indexedIdentifier

    | .breakStmt _ => pure (some .breakStmt)
    | .continueStmt _ => pure (some .continueStmt)
    | .endStmt _ => pure (some .endStmt)

    | .gate _ name angleParams qubitParams body =>
      gateNotGlobalCheck name
      let nameNode ← unwrap "stmt_to_asg_stmt: Gate name() is None" name
      let (params, qubits, block) ← withScope .subroutine do
        let params ← bindParameterList angleParams (.angle none true)
        let qubits ← bindParameterList qubitParams .qubit
        let qubits ← unwrap "stmt_to_asg_stmt: Gate qubit params unwrap() on None" qubits
        let body ← unwrap "stmt_to_asg_stmt: Gate body() is None" body
        let block ← blockExprToAsgType fuel body
        pure (params, qubits, block)
      let numParams := match params with
        | some ps => ps.length
        | none => 0
      let gateNameSymbolId ← newBinding nameNode.text (.gate numParams qubits.length) nameNode.span
      pure (some (.gateDefinition gateNameSymbolId params qubits block))

    | .defStmt _ name typedParamList body returnSignature =>
      let nameNode ← unwrap "stmt_to_asg_stmt: Def name() is None" name
      notGlobalCheck nameNode.span
      let (params, block) ← withScope .subroutine do
        let params ← bindTypedParameterList typedParamList
        let body ← unwrap "stmt_to_asg_stmt: Def body() is None" body
        let block ← blockExprToAsgType fuel body
        pure (params, block)
      let numParams := match params with
        | some ps => ps.length
        | none => 0
      let returnType ← match returnSignature with
        | some rs =>
          match rs.scalarType with
          | some st => scalarTypeToType st true
          | none => pure T.void
        | none => pure T.void
      let defNameSymbolId ← newBinding nameNode.text (.subroutine numParams returnType) nameNode.span
      let params ← unwrap "stmt_to_asg_stmt: Def params.unwrap() on None" params
      pure (some (.defStmt defNameSymbolId params block returnType))

    | .barrier _ qubitList =>
      let gateOperands ← qubitListToAsgTexpr fuel qubitList
      pure (some (.barrier (some gateOperands)))

    | .delayStmt _ qubitList designator =>
      let gateOperands ← qubitListToAsgTexpr fuel qubitList
      let d ← unwrap "stmt_to_asg_stmt: DelayStmt designator() is None" designator
      let dexpr := match d with | .mk _ e => e
      let duration ← exprToAsgTexpr fuel dexpr
      let duration ← unwrap "stmt_to_asg_stmt: DelayStmt duration unwrap() on None" duration
      delayDurationCheck duration d.span
      pure (some (.delay duration gateOperands))

    | .reset _ gateOperand =>
      let gateOperand ← unwrap "stmt_to_asg_stmt: Reset gate_operand() is None" gateOperand
      let gateOperandAsg ← gateOperandToAsgTexpr fuel gateOperand
      pure (some (.reset gateOperandAsg))

    | .includeStmt span _ =>
      if (← currentScopeType) != .global then
        insertError .includeNotInGlobalScopeError span
        pure none
      else fail "stmt_to_asg_stmt: unreachable!() include in global scope"

    | .exprStmt _ expr => exprStmtToAsgStmt fuel expr

    | .versionString span =>
      insertError .notImplementedError span
      pure none

    | .pragmaStatement _ pragmaText => pure (some (.pragma pragmaText))

    | .annotationStatement _ annotationText =>
      pushAnnotation annotationText
      pure none

    | .aliasDeclarationStatement span name expr =>
      let name ← unwrap "stmt_to_asg_stmt: AliasDeclarationStatement name() is None" name
      let rhs ← exprToAsgTexpr fuel expr
      let rhs ← unwrap "stmt_to_asg_stmt: AliasDeclarationStatement rhs unwrap() on None" rhs
      let symbolId ← newBinding name.text rhs.getType span
      pure (some (.alias symbolId rhs))

    | .notImpl _ span => notImpl span

/-- the `case_exprs().map(..).collect()` of the `SwitchCaseStmt` arm -/
def caseExprsLoop : Nat → List Ast.CaseExpr → M (List CaseExpr)
  | 0, _ => throw .fuel
  | _+1, [] => pure []
  | fuel+1, c :: rest => do
    let (.mk _ expressionList blockExpr) := c
    let el ← unwrap "stmt_to_asg_stmt: CaseExpr expression_list() is None" expressionList
    let intExprs ← expressionListToAsgTexpr fuel el
    let statements ← withScope .localS do
      let block ← unwrap "stmt_to_asg_stmt: CaseExpr block_expr() is None" blockExpr
      blockExprToAsgStmtList fuel block
    let cs ← caseExprsLoop fuel rest
    pure (CaseExpr.mk intExprs statements :: cs)

/-- `expr_stmt_to_asg_stmt` (argument: `expr_stmt.expr()`) -/
def exprStmtToAsgStmt : Nat → Option Ast.Expr → M (Option Stmt)
  | 0, _ => throw .fuel
  | fuel+1, expr => do
    match expr with
    | some (.gateCallExpr gateCall) => gateCallExprToAsgStmt fuel gateCall []
    | some (.modifiedGateCallExpr _ modifiers gateCallExpr gPhaseCallExpr) =>
      let modifiers ← modifiersLoop fuel modifiers
      match gateCallExpr with
      | some gateCall => gateCallExprToAsgStmt fuel gateCall modifiers
      | none =>
        let gphase ← unwrap "expr_stmt_to_asg_stmt: g_phase_call_expr() is None" gPhaseCallExpr
        let garg := match gphase with | .mk _ a => a
        let arg ← exprToAsgTexpr fuel garg
        let arg ← unwrap "expr_stmt_to_asg_stmt: gphase arg unwrap() on None" arg
        pure (some (.modifiedGPhaseCall arg modifiers))
    | some (.gPhaseCallExpr (.mk _ garg)) =>
      let arg ← exprToAsgTexpr fuel garg
      let arg ← unwrap "expr_stmt_to_asg_stmt: gphase arg unwrap() on None" arg
      pure (some (.gPhaseCall arg))
    | synExpr =>
      match ← exprToAsgTexpr fuel synExpr with
      | none => fail "expr_stmt_to_asg_stmt: expr::ExprStmt is None"
      | some ex => pure (some (.exprStmt ex))

/-- the `modifiers().map(..).collect()` of `expr_stmt_to_asg_stmt` -/
def modifiersLoop : Nat → List Ast.Modifier → M (List GateModifier)
  | 0, _ => throw .fuel
  | _+1, [] => pure []
  | fuel+1, m :: rest => do
    let gm ← match m with
      | .invModifier _ => pure GateModifier.inv
      | .powModifier _ parenExpr => do
        let p ← unwrap "expr_stmt_to_asg_stmt: PowModifier paren_expr() is None" parenExpr
        let exponent ← parenExprToAsgTexpr fuel p
        let exponent ← unwrap "expr_stmt_to_asg_stmt: PowModifier exponent unwrap() on None" exponent
        pure (GateModifier.pow exponent)
      | .ctrlModifier _ parenExpr =>
        match parenExpr with
        | some p => do pure (GateModifier.ctrl (← parenExprToAsgTexpr fuel p))
        | none => pure (GateModifier.ctrl none)
      | .negCtrlModifier _ parenExpr =>
        match parenExpr with
        | some p => do pure (GateModifier.negCtrl (← parenExprToAsgTexpr fuel p))
        | none => pure (GateModifier.negCtrl none)
    let gms ← modifiersLoop fuel rest
    pure (gm :: gms)

/-- `paren_expr_to_asg_texpr` -/
def parenExprToAsgTexpr : Nat → Ast.ParenExpr → M (Option TExpr)
  | 0, _ => throw .fuel
  | fuel+1, p =>
    match p with
    | .mk _ expr => exprToAsgTexpr fuel expr

/-- `expr_to_asg_texpr` -/
def exprToAsgTexpr : Nat → Option Ast.Expr → M (Option TExpr)
  | 0, _ => throw .fuel
  | fuel+1, exprMaybe => do
    let some expr := exprMaybe | pure none                   -- `let expr = expr_maybe?;`
    match expr with
    | .prefixExpr _ opKind operand =>
      match opKind with
      | some .neg =>
        match operand with
        | some (.literal literal) =>
          match literal.kind with
          | .floatNumber _ fmt =>
            pure (some (floatLiteralToTexpr (← negativeFloatNumberToAsgType fmt)))
          | .intNumber text _ =>
            pure (some (intLiteralToTexpr (← negativeIntToAsgType text) false))
          | _ => fail "expr_to_asg_texpr: only integers and floats are supported as operands to unary minus"
        | some (.timingLiteral _ timeUnit _ literal) =>
          let timeUnit ← unwrap "expr_to_asg_texpr: time_unit() is None" timeUnit
          match timeUnit with
          | .imaginary =>
            let literal ← unwrap "expr_to_asg_texpr: timing_literal.literal() is None" literal
            match literal.kind with
            | .floatNumber _ fmt =>
              pure (some (floatLiteralToImaginaryTexpr (← negativeFloatNumberToAsgType fmt)))
            | .intNumber text _ =>
              pure (some (intLiteralToImaginaryTexpr (← negativeIntToAsgType text) false))
            | _ => fail "expr_to_asg_texpr: bug in oq3_syntax or oq3_parser (imaginary literal kind)"
          | _ => fail "expr_to_asg_texpr: only floats are supported as operands to unary minus (timing literal)"
        | some synexpr =>
          let e ← exprToAsgTexpr fuel (some synexpr)
          let e ← unwrap "expr_to_asg_texpr: unary minus operand unwrap() on None" e
          pure (some (unaryExprToTexpr .minus e))
        | none => fail "expr_to_asg_texpr: no operand to unary minus found"
      | some _ => fail "expr_to_asg_texpr: unary operators other than minus are not supported"
      | none => fail "expr_to_asg_texpr: no operand to unary operator found"

    | .parenExpr parenExpr => parenExprToAsgTexpr fuel parenExpr

    | .binExpr _ opKind lhs rhs =>
      let synastOp ← unwrap "expr_to_asg_texpr: bin_expr.op_kind() is None" opKind
      let op ← binaryOpToAsgType synastOp
      let left ← exprToAsgTexpr fuel lhs
      let left ← unwrap "expr_to_asg_texpr: BinExpr left unwrap() on None" left
      let right ← exprToAsgTexpr fuel rhs
      let right ← unwrap "expr_to_asg_texpr: BinExpr right unwrap() on None" right
      quantumBinopCheck left right lhs rhs
      pure (some (newTexprWithCast op left right))

    | .literal literal => literalToAsgTexpr literal

    | .timingLiteral _ timeUnit _ literal =>
      let astTimeUnit ← unwrap "expr_to_asg_texpr: time_unit() is None" timeUnit
      let literal ← unwrap "expr_to_asg_texpr: timing_literal.literal() is None" literal
      match timeUnitToAsg astTimeUnit with
      | none =>                                              -- Imaginary
        match literal.kind with
        | .intNumber text _ =>
          let num ← intNumberValue "expr_to_asg_texpr: int_num.value_u128() is None" text
          pure (some (intLiteralToImaginaryTexpr num true))
        | .floatNumber _ fmt =>
          let num ← unwrap "expr_to_asg_texpr: float_num.value() is None" fmt
          pure (some (floatLiteralToImaginaryTexpr num))
        | _ => fail "expr_to_asg_texpr: bug in oq3_syntax or oq3_parser (imaginary literal kind)"
      | some timeUnit =>
        match literal.kind with
        | .intNumber text _ =>
          let num ← intNumberValue "expr_to_asg_texpr: int_num.value_u128() is None" text
          pure (some (timingIntLiteralToTexpr num true timeUnit))
        | .floatNumber _ fmt =>
          let num ← unwrap "expr_to_asg_texpr: float_num.value() is None" fmt
          pure (some (timingFloatLiteralToTexpr num true timeUnit))
        | _ => fail "expr_to_asg_texpr: bug in oq3_syntax or oq3_parser (timing literal kind)"

    | .identifier identifier =>
      let (sym, typ) ← lookupIdentifier identifier
      pure (some (.mk (.identifier sym) typ))

    | .hardwareQubit hwq => pure (some (hardwareQubitToAsgTexpr hwq))

    | .rangeExpr rangeExpr =>
      let (start, step, stop) ← rangeExpressionToAsgType fuel rangeExpr
      pure (some (rangeExpressionToTexpr start step stop))

    | .indexExpr _ inner indexOperator =>
      let e ← exprToAsgTexpr fuel inner
      let indexOperator ← unwrap "expr_to_asg_texpr: index_expr.index_operator() is None" indexOperator
      let index ← indexOperatorToAsgType fuel indexOperator
      let e ← unwrap "expr_to_asg_texpr: IndexExpr expr.unwrap() on None" e
      pure (some (indexExpressionToTexpr e index))

    | .indexedIdentifier indexedIdentifier =>
      let (ii, _typ) ← indexedIdentifierToAsgType fuel indexedIdentifier
      pure (some (indexedIdentifierToTexpr ii))

    | .measureExpression _ gateOperand =>
      let gateOperand ← unwrap "expr_to_asg_texpr: measure_expr.gate_operand() is None" gateOperand
      let gateOperandAsg ← gateOperandToAsgTexpr fuel gateOperand
      pure (some (measureExpressionToTexpr gateOperandAsg))

    | .returnExpr span inner =>
      let exprAsg ← exprToAsgTexpr fuel inner
      returnGlobalCheck span
      pure (some (returnExpressionToTexpr exprAsg))

    | .castExpression _ scalarType inner =>
      let scalarType ← unwrap "expr_to_asg_texpr: cast.scalar_type() is None" scalarType
      let typ ← scalarTypeToType scalarType true
      let e ← exprToAsgTexpr fuel inner
      let e ← unwrap "expr_to_asg_texpr: CastExpression expr.unwrap() on None" e
      pure (some (castToTexpr e typ))

    | .callExpr span argList identifier =>
      pure (some (← callExprToAsgTexpr fuel span argList identifier))

    | .unsupported .blockExpr _ => fail "expr_to_asg_texpr: BlockExpr not supported"
    | .unsupported .arrayExpr _ => fail "expr_to_asg_texpr: ArrayExpr not supported"
    | .unsupported .arrayLiteral _ => fail "expr_to_asg_texpr: ArrayLiteral not supported"
    | .unsupported .boxExpr _ => fail "expr_to_asg_texpr: BoxExpr not supported"
    | .unsupported .dimExpr _ | .gateCallExpr _ | .gPhaseCallExpr _ | .modifiedGateCallExpr .. =>
      fail "expr_to_asg_texpr: you have found a bug in oq3_parser (gate call / dim expression as expression)"

/-- `set_expression_to_asg_type` (the `SetExpression`'s vector) -/
def setExpressionToAsgType : Nat → Ast.SetExpression → M (List TExpr)
  | 0, _ => throw .fuel
  | fuel+1, se => do
    let (.mk _ expressionList) := se
    let el ← unwrap "set_expression_to_asg_type: expression_list() is None" expressionList
    expressionListToAsgTexpr fuel el

/-- `range_expression_to_asg_type`: (start, step, stop); evaluation order start, stop, step -/
def rangeExpressionToAsgType : Nat → Ast.RangeExpr → M (TExpr × Option TExpr × TExpr)
  | 0, _ => throw .fuel
  | fuel+1, re => do
    let (.mk _ start step stop) := re
    let start ← exprToAsgTexpr fuel start
    let start ← unwrap "range_expression_to_asg_type: start unwrap() on None" start
    let stop ← exprToAsgTexpr fuel stop
    let stop ← unwrap "range_expression_to_asg_type: stop unwrap() on None" stop
    let step ← exprToAsgTexpr fuel step
    pure (start, step, stop)

/-- `gate_call_expr_to_asg_stmt` -/
def gateCallExprToAsgStmt : Nat → Ast.GateCallExpr → List GateModifier → M (Option Stmt)
  | 0, _, _ => throw .fuel
  | fuel+1, gc, modifiers => do
    let (.mk span qubitList argList identifier) := gc
    let gateOperands ← qubitListToAsgTexpr fuel qubitList
    let paramList ← match argList with
      | some (.mk _ el) => do
        let el ← unwrap "gate_call_expr_to_asg_stmt: arg_list expression_list() is None" el
        pure (some (← expressionListToAsgTexpr fuel el))
      | none => pure none
    let numParams := match paramList with
      | some ps => ps.length
      | none => 0
    let gateId ← unwrap "gate_call_expr_to_asg_stmt: identifier() is None" identifier
    let (symbolResult, gateType) ← lookupGateSymbol gateId.text gateId.span
    gateCallCheck span qubitList argList gateId symbolResult gateType numParams gateOperands.length
    pure (some (.gateCall symbolResult paramList gateOperands modifiers))

/-- `call_expr_to_asg_texpr` -/
def callExprToAsgTexpr : Nat → Ast.Span → Option Ast.ArgList → Option Ast.Identifier → M TExpr
  | 0, _, _, _ => throw .fuel
  | fuel+1, _, argList, identifier => do
    let paramList ← match argList with
      | some (.mk _ el) => do
        let el ← unwrap "call_expr_to_asg_texpr: arg_list expression_list() is None" el
        pure (some (← expressionListToAsgTexpr fuel el))
      | none => pure none
    let subroutineId ← unwrap "call_expr_to_asg_texpr: identifier() is None" identifier
    let (symbolResult, callType) ← lookupSymbol subroutineId.text subroutineId.span
    match callType with
    | .subroutine expectedNumParams returnType =>
      let numParams := match paramList with
        | some ps => ps.length
        | none => 0
      defArityCheck expectedNumParams numParams argList
      pure (subroutineCallToTexpr symbolResult paramList returnType)
    | _ => fail "call_expr_to_asg_texpr: programming error: expected Type::Def variant"

/-- `gate_operand_to_asg_texpr` -/
def gateOperandToAsgTexpr : Nat → Ast.GateOperand → M TExpr
  | 0, _ => throw .fuel
  | fuel+1, gateOperand => do
    match gateOperand with
    | .hardwareQubit hwq =>
      pure (gateOperandToTexpr (.hardwareQubit hwq.text) .hwqubit)
    | .identifier identifier =>
      let (sym, typ) ← lookupIdentifier identifier
      gateOperandIdentCheck typ gateOperand.span
      pure (gateOperandToTexpr (.identifier sym) typ)
    | .indexedIdentifier indexedIdentifier =>
      let (ii, typ) ← indexedIdentifierToAsgType fuel indexedIdentifier
      gateOperandIndexedCheck typ gateOperand.span
      pure (gateOperandToTexpr (.indexedIdentifier ii) typ)

/-- `index_operator_to_asg_type` -/
def indexOperatorToAsgType : Nat → Ast.IndexOperator → M IndexOperator
  | 0, _ => throw .fuel
  | fuel+1, io => do
    let (.mk _ indexKind) := io
    match ← unwrap "index_operator_to_asg_type: index_kind() is None" indexKind with
    | .setExpression setExpression =>
      pure (.setExpression (← setExpressionToAsgType fuel setExpression))
    | .expressionList expressionList =>
      pure (.expressionList (← expressionListToAsgType fuel expressionList))

/-- `expression_list_to_asg_type` (the `ExpressionList`'s vector) -/
def expressionListToAsgType : Nat → Ast.ExpressionList → M (List TExpr)
  | 0, _ => throw .fuel
  | fuel+1, el => expressionListToAsgTexpr fuel el

/-- `qubit_list_to_asg_texpr` -/
def qubitListToAsgTexpr : Nat → Option Ast.QubitList → M (List TExpr)
  | 0, _ => throw .fuel
  | fuel+1, qubitList => do
    match ← unwrap "qubit_list_to_asg_texpr: qubit_list.unwrap() on None" qubitList with
    | .mk _ gateOperands => gateOperandsLoop fuel gateOperands

/-- the `gate_operands().map(..).collect()` of `qubit_list_to_asg_texpr` -/
def gateOperandsLoop : Nat → List Ast.GateOperand → M (List TExpr)
  | 0, _ => throw .fuel
  | _+1, [] => pure []
  | fuel+1, q :: rest => do
    let t ← gateOperandToAsgTexpr fuel q
    let ts ← gateOperandsLoop fuel rest
    pure (t :: ts)

/-- `expression_list_to_asg_texpr` -/
def expressionListToAsgTexpr : Nat → Ast.ExpressionList → M (List TExpr)
  | 0, _ => throw .fuel
  | fuel+1, el =>
    match el with
    | .mk _ exprs => exprsLoop fuel exprs

/-- the `exprs().filter_map(..).collect()` of `expression_list_to_asg_texpr` -/
def exprsLoop : Nat → List Ast.Expr → M (List TExpr)
  | 0, _ => throw .fuel
  | _+1, [] => pure []
  | fuel+1, x :: rest => do
    let t ← exprToAsgTexpr fuel (some x)
    let ts ← exprsLoop fuel rest
    match t with
    | some t => pure (t :: ts)
    | none => pure ts

/-- `block_expr_to_asg_stmt_list` -/
def blockExprToAsgStmtList : Nat → Ast.BlockExpr → M (List Stmt)
  | 0, _ => throw .fuel
  | fuel+1, b =>
    match b with
    | .mk _ statements => stmtsLoop fuel statements

/-- the `statements().filter_map(..).collect()` of `block_expr_to_asg_stmt_list` -/
def stmtsLoop : Nat → List Ast.Stmt → M (List Stmt)
  | 0, _ => throw .fuel
  | _+1, [] => pure []
  | fuel+1, s :: rest => do
    let r ← stmtToAsgStmt fuel s
    let rs ← stmtsLoop fuel rest
    match r with
    | some r => pure (r :: rs)
    | none => pure rs

/-- `block_expr_to_asg_type` -/
def blockExprToAsgType : Nat → Ast.BlockExpr → M Block
  | 0, _ => throw .fuel
  | fuel+1, block => do pure (Block.mk (← blockExprToAsgStmtList fuel block))

/-- `block_or_stmt_to_asg_type` -/
def blockOrStmtToAsgType : Nat → Ast.BlockOrStmt → M Block
  | 0, _ => throw .fuel
  | fuel+1, val => do
    match val with
    | .blockExpr body => blockExprToAsgType fuel body
    | .stmt stmt =>
      let s ← stmtToAsgStmt fuel stmt
      let s ← unwrap "block_or_stmt_to_asg_type: stmt_to_asg_stmt(..).unwrap() on None" s
      pure (Block.mk [s])

/-- `classical_declaration_statement_to_asg_stmt` -/
def classicalDeclarationStatementToAsgStmt : Nat → Ast.Span → Bool → Option Ast.ScalarType → Bool →
    Option Ast.Name → Option Ast.Expr → M Stmt
  | 0, _, _, _, _, _, _ => throw .fuel
  | fuel+1, span, arrayType, scalarType, constToken, name, expr => do
    let lhsType ← if arrayType then do
        notGlobalCheck span
        insertError .notImplementedError span
        pure T.todo
      else do
        let st ← unwrap "classical_declaration_statement_to_asg_stmt: scalar_type() is None" scalarType
        scalarTypeToType st constToken
    let name ← unwrap "classical_declaration_statement_to_asg_stmt: name() is None" name
    let initializer ← exprToAsgTexpr fuel expr
    let symbolId ← newBinding name.text lhsType span
    match initializer with
    | none => declareClassicalHelper symbolId none
    | some initializer =>
      let initType := initializer.getType
      if equalUpToConstness lhsType initType then
        pure (.declareClassical symbolId (some initializer))
      else
        match initializer.expression with
        | .literal literal =>
          if canCastLiteral lhsType initType literal then
            declareClassicalHelper symbolId (some (castToTexpr initializer lhsType))
          else
            insertError .incompatibleTypesError span
            declareClassicalHelper symbolId (some initializer)
        | _ =>
          let promotedType := promoteTypesNotEqual lhsType initType
          if equalUpToConstness promotedType lhsType then
            declareClassicalHelper symbolId (some (castToTexpr initializer lhsType))
          else
            if promotedType = T.void || promotedType = initType then
              insertError .incompatibleTypesError span
            declareClassicalHelper symbolId (some initializer)

/-- `assignment_stmt_to_asg_stmt` -/
def assignmentStmtToAsgStmt : Nat → Ast.Span → Option Ast.Identifier → Option Ast.Expr →
    Option Ast.IndexedIdentifier → M (Option Stmt)
  | 0, _, _, _, _ => throw .fuel
  | fuel+1, span, identifier, rhs, indexedIdentifier => do
    match identifier with
    | some name =>
      let expr ← exprToAsgTexpr fuel rhs
      let expr ← unwrap "assignment_stmt_to_asg_stmt: rhs unwrap() on None" expr
      let (symbolId, symbolType) ← lookupSymbol name.text name.span
      let symbolOk := symbolId.isOk
      let lvalue := LValue.identifier symbolId
      let exprType := expr.getType
      let expr ←
        if symbolOk && exprType != symbolType then
          if equalUpToDims exprType symbolType then do
            insertError .incompatibleDimensionError span
            pure expr
          else
            match expr.expression with
            | .literal (.int _ sign) =>
              match symbolType with
              | .uint .. =>
                if sign then pure (castToTexpr expr symbolType)
                else do
                  insertError .castError span
                  pure expr
              | _ => pure expr
            | _ =>
              let promotedType := promoteTypes symbolType exprType
              if promotedType = symbolType then pure (castToTexpr expr promotedType)
              else do
                insertError .incompatibleTypesError span
                pure expr
        else pure expr
      mutateConstCheck symbolOk symbolType span
      pure (some (.assignment lvalue expr))
    | none =>
      let indexedIdentifierAst ← unwrap "assignment_stmt_to_asg_stmt: indexed_identifier() is None"
        indexedIdentifier
      let (ii, typ) ← indexedIdentifierToAsgType fuel indexedIdentifierAst
      match ii.indexes with
      | [index] =>
        if index.numDims > numDims typ then insertError .tooManyIndexes indexedIdentifierAst.span
      | _ => pure ()
      let expr ← exprToAsgTexpr fuel rhs
      let expr ← unwrap "assignment_stmt_to_asg_stmt: rhs unwrap() on None" expr
      pure (some (.assignment (.indexedIdentifier ii) expr))

/-- `indexed_identifier_to_asg_type` -/
def indexedIdentifierToAsgType : Nat → Ast.IndexedIdentifier → M (IndexedIdentifier × T)
  | 0, _ => throw .fuel
  | fuel+1, ii => do
    let (.mk span identifier indexOperators) := ii
    let identifier ← unwrap "indexed_identifier_to_asg_type: identifier() is None" identifier
    let (symbolId, typ) ← lookupSymbol identifier.text span
    let indexes ← indexOperatorsLoop fuel indexOperators
    pure (IndexedIdentifier.mk symbolId indexes, typ)

/-- the `index_operators().map(..).collect()` of `indexed_identifier_to_asg_type` -/
def indexOperatorsLoop : Nat → List Ast.IndexOperator → M (List IndexOperator)
  | 0, _ => throw .fuel
  | _+1, [] => pure []
  | fuel+1, ix :: rest => do
    let i ← indexOperatorToAsgType fuel ix
    let is ← indexOperatorsLoop fuel rest
    pure (i :: is)

end


/-- the scan `parse_included_files` (oq3_source_file) does over the top-level statements BEFORE
analysis starts: an include without a path (`include.file()?`, `file.to_string()?`) is skipped;
returns whether a top-level include other than "stdgates.inc" exists -/
def parseIncludedFiles : List Ast.Stmt → M Bool
  | [] => pure false
  | .includeStmt _ file :: rest => do
    match file with
    | none => parseIncludedFiles rest
    | some file =>
      match file.toString? with
      | none => parseIncludedFiles rest
      | some filePath =>
        let r ← parseIncludedFiles rest
        pure (filePath != "stdgates.inc" || r)
  | _ :: rest => parseIncludedFiles rest

/-- the statement loop of `syntax_to_semantic` -/
def syntaxToSemanticLoop : Nat → List Ast.Stmt → M Unit
  | 0, _ => throw .fuel
  | _+1, [] => pure ()
  | fuel+1, parseStmt :: rest => do
    let stmt ← match parseStmt with
      | .includeStmt span file => do
        let file ← unwrap "syntax_to_semantic: include.file() is None" file
        let filePath ← unwrap "syntax_to_semantic: file.to_string() is None" file.toString?
        if filePath == "stdgates.inc" then
          standardLibraryGates span
        else
          throw Outcome.unsupportedInclude
        pure none
      | stmt => stmtToAsgStmt fuel stmt
    match stmt with
    | some stmt =>
      if ← annotationsIsEmpty then insertStmt stmt
      else
        match stmt with
        | .annotatedStmt .. => fail "AnnotatedStmt::new: annotation of annotated statement is not allowed"
        | _ => insertStmt (.annotatedStmt stmt (← takeAnnotations))
    | none => pure ()
    syntaxToSemanticLoop fuel rest

/-- `syntax_to_semantic` for a single file.  Any top-level include other than "stdgates.inc" is
the explicit outcome `unsupportedInclude` (decided up front, after the panics of the include
scan, which is where the real pipeline would read the file) -/
def syntaxToSemantic (fuel : Nat) (p : Ast.Program) : M Unit := do
  if ← parseIncludedFiles p.statements then throw Outcome.unsupportedInclude
  syntaxToSemanticLoop fuel p.statements

/-- generous fuel: every AST node costs a bounded number of nested calls, and a list loop costs
one unit per element -/
def defaultFuel (p : Ast.Program) : Nat := 10 * p.size + 100

/-- `analyze_source` on a syntax-error-free single file: the final context or the outcome -/
def analyzeWith (fuel : Nat) (p : Ast.Program) : Except Outcome Ctx :=
  match (syntaxToSemantic fuel p).run {} with
  | .ok (_, c) => .ok c
  | .error e => .error e

def analyze (p : Ast.Program) : Except Outcome Ctx := analyzeWith (defaultFuel p) p

end Oq3.Sema
