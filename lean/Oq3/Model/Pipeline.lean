/-
Decision logic of the two gates between the stages (C11):
* `oq3_syntax/src/parsing.rs: parse_text_check_lex` — a tree is built only if lexing is clean;
* `oq3_source_file: SourceTrait::have_syntax_errors` + `oq3_semantics: analyze_source` —
  semantic analysis runs only if neither the source nor any (transitively) included file has a
  syntax diagnostic.
Stage bodies are parameters.
-/
namespace Oq3.Pipeline

/-- `parse_text_check_lex`; `parse ()` = `build_tree(lexed, parser_output)` (its error list
already ends with the lexer errors, of which there are none on this path) -/
def parseTextCheckLex {Tree Err : Type} (lexErrors : List Err) (parse : Unit → Tree × List Err) :
    Option Tree × List Err :=
  if !lexErrors.isEmpty then (none, lexErrors)
  else let r := parse (); (some r.1, r.2)

/-- a parsed source with its included files: number of syntax diagnostics of this file
(`None` = `syntax_ast` absent: the file could not be read) -/
inductive Src
  | mk (errors : Option Nat) (included : List Src)

mutual
/-- `SourceTrait::have_syntax_errors` -/
def haveSyntaxErrors : Src → Bool
  | .mk errors included =>
    (match errors with | some n => n != 0 | none => false) || anyHaveSyntaxErrors included
def anyHaveSyntaxErrors : List Src → Bool
  | [] => false
  | s :: ss => haveSyntaxErrors s || anyHaveSyntaxErrors ss
end

mutual
/-- specification: some file of the include tree has a syntax diagnostic -/
def someFileHasErrors : Src → Bool
  | .mk errors included => (match errors with | some n => 0 < n | none => false) || someOfHasErrors included
def someOfHasErrors : List Src → Bool
  | [] => false
  | s :: ss => someFileHasErrors s || someOfHasErrors ss
end

/-- `analyze_source`: `(result, have_syntax_errors)`; `analyze ()` = `syntax_to_semantic` -/
def analyzeSource {Ctx : Type} (empty : Ctx) (src : Src) (analyze : Unit → Ctx) : Ctx × Bool :=
  if haveSyntaxErrors src then (empty, true) else (analyze (), false)

end Oq3.Pipeline
