/-
Model of `crates/oq3_parser/src/lexed_str.rs` (`LexedStr::new` through `Converter`,
`inner_extend_token`, `extend_literal_func`, the accessors), of `LexedStr::to_input`
(`crates/oq3_parser/src/shortcuts.rs`) and of `Input` (`crates/oq3_parser/src/input.rs`).

* Offsets are `Nat` byte offsets.  The Rust stores them as `u32` (`offset as u32`); the casts
  are lossless when `utf8Len text < 2^32` (`Oq3.Props.C14.starts_le_len`).
* A Rust panic (failed `assert!`, out-of-range index, byte slice not on a character boundary,
  `usize` underflow in a debug build) is the result `none`.  "Never `none`" is a theorem of
  `Oq3.Props.C14`, not an assumption.
* `&text[lo..hi]` on a `&str` is `sliceBytes`: it panics unless `lo ≤ hi ≤ len` and both are
  character boundaries.
* `Input.joint` (`Vec<u64>`, one bit per token, a word pushed every 64 tokens) is modelled as a
  `List Bool` parallel to `kind`; `Input.isJoint` reproduces the word-granular bounds check.
-/
import Oq3.Gen.SyntaxKind
import Oq3.Model.Lexer

namespace Oq3.Lexed
open Oq3.Gen Oq3.Lexer

/-! ### byte slicing of `&str` -/

/-- `&s[n..]`: `none` (panic) unless `n` is a character boundary of `s` (`n ≤ len`) -/
def dropBytes : List Char → Nat → Option (List Char)
  | [], n => if n = 0 then some [] else none
  | c :: cs, n =>
    if n = 0 then some (c :: cs)
    else if c.utf8Size ≤ n then dropBytes cs (n - c.utf8Size) else none

/-- `&s[..n]` -/
def takeBytes : List Char → Nat → Option (List Char)
  | [], n => if n = 0 then some [] else none
  | c :: cs, n =>
    if n = 0 then some []
    else if c.utf8Size ≤ n then (takeBytes cs (n - c.utf8Size)).map (c :: ·) else none

/-- `&s[lo..hi]` -/
def sliceBytes (s : List Char) (lo hi : Nat) : Option (List Char) :=
  if lo ≤ hi then (dropBytes s lo).bind (fun r => takeBytes r (hi - lo)) else none

/-! ### `LexedStr` -/

structure LexError where
  msg : String
  token : Nat
  deriving DecidableEq, Repr

structure LexedStr where
  text : List Char
  kind : List SyntaxKind
  start : List Nat
  error : List LexError
  deriving DecidableEq, Repr

namespace LexedStr

/-- `LexedStr::len` (`self.kind.len() - 1`) -/
def len (l : LexedStr) : Nat := l.kind.length - 1

/-- `LexedStr::kind` -/
def kindAt (l : LexedStr) (i : Nat) : Option SyntaxKind :=
  if i < l.len then l.kind[i]? else none

/-- `LexedStr::range_text` -/
def rangeText (l : LexedStr) (lo hi : Nat) : Option (List Char) :=
  if lo < hi ∧ hi ≤ l.len then
    match l.start[lo]?, l.start[hi]? with
    | some a, some b => sliceBytes l.text a b
    | _, _ => none
  else none

/-- `LexedStr::text` -/
def textAt (l : LexedStr) (i : Nat) : Option (List Char) := l.rangeText i (i + 1)

/-- `LexedStr::text_range` -/
def textRange (l : LexedStr) (i : Nat) : Option (Nat × Nat) :=
  if i < l.len then
    match l.start[i]?, l.start[i + 1]? with
    | some a, some b => some (a, b)
    | _, _ => none
  else none

/-- `LexedStr::text_start` -/
def textStart (l : LexedStr) (i : Nat) : Option Nat :=
  if i ≤ l.len then l.start[i]? else none

/-- `LexedStr::text_len` (`r.end - r.start` on `usize`: underflow panics) -/
def textLen (l : LexedStr) (i : Nat) : Option Nat :=
  if i < l.len then
    match l.textRange i with
    | some (a, b) => if a ≤ b then some (b - a) else none
    | none => none
  else none

/-- `LexedStr::errors` -/
def errors (l : LexedStr) : List (Nat × String) := l.error.map fun e => (e.token, e.msg)

/-- `LexedStr::push` -/
def push (l : LexedStr) (kind : SyntaxKind) (offset : Nat) : LexedStr :=
  { l with kind := l.kind ++ [kind], start := l.start ++ [offset] }

end LexedStr

/-! ### `extend_literal_func`, `inner_extend_token` -/

/-- `extend_literal_func` -/
def extendLiteralFunc (len : Nat) : LiteralKind → String × SyntaxKind × Nat
  | .int _ emptyInt =>
    (if emptyInt then "Missing digits after the integer base prefix" else "", .INT_NUMBER, len)
  | .float _ emptyExponent =>
    (if emptyExponent then "Missing digits after the exponent symbol" else "", .FLOAT_NUMBER, len)
  | .byte terminated =>
    (if !terminated then "Missing trailing `'` symbol to terminate the byte literal" else "",
     .BYTE, len)
  | .str terminated =>
    (if !terminated then "Missing trailing `\"` symbol to terminate the string literal" else "",
     .STRING, len)
  | .bitStr terminated consecutiveUnderscores =>
    (if !terminated then
       "Missing trailing `\"` symbol to terminate the bitstring literal"
     else if consecutiveUnderscores then
       "Consecutive underscores not allowed in bitstring literal"
     else "",
     .BIT_STRING, len)

/-- `inner_extend_token`; `token_text.len()` is `utf8Len tokenText` -/
def innerExtendToken (kind : TokenKind) (tokenText : List Char) : String × SyntaxKind × Nat :=
  let n := utf8Len tokenText
  match kind with
  | .lineComment => ("", .COMMENT, n)
  | .blockComment terminated =>
    (if !terminated then "Missing trailing `*/` symbols to terminate the block comment" else "",
     .COMMENT, n)
  | .openQasmVersionStmt major minor =>
    (if major then
       (if minor then "" else "Invalid minor version in OpenQASM version statement")
     else "Invalid version number in OpenQASM version statement",
     .VERSION_STRING, n)
  | .whitespace => ("", .WHITESPACE, n)
  | .ident =>
    if tokenText == ['_'] then ("", .UNDERSCORE, n)
    else
      ("",
       (SyntaxKind.fromKeyword tokenText).getD
         ((SyntaxKind.fromScalarType tokenText).getD .IDENT),
       n)
  | .hardwareIdent => ("", (SyntaxKind.fromKeyword tokenText).getD .HARDWAREIDENT, n)
  | .invalidIdent => ("Identifier contains invalid characters", .IDENT, n)
  | .pragma => ("", .PRAGMA, n)
  | .annotation => ("", .ANNOTATION, n)
  | .literal k _ => extendLiteralFunc n k
  | .semi => ("", .SEMICOLON, n)
  | .comma => ("", .COMMA, n)
  | .dot => ("", .DOT, n)
  | .openParen => ("", .L_PAREN, n)
  | .closeParen => ("", .R_PAREN, n)
  | .openBrace => ("", .L_CURLY, n)
  | .closeBrace => ("", .R_CURLY, n)
  | .openBracket => ("", .L_BRACK, n)
  | .closeBracket => ("", .R_BRACK, n)
  | .at => ("", .AT, n)
  | .pound => ("", .POUND, n)
  | .tilde => ("", .TILDE, n)
  | .question => ("", .QUESTION, n)
  | .colon => ("", .COLON, n)
  | .dollar => ("", .DOLLAR, n)
  | .eq => ("", .EQ, n)
  | .bang => ("", .BANG, n)
  | .lt => ("", .L_ANGLE, n)
  | .gt => ("", .R_ANGLE, n)
  | .minus => ("", .MINUS, n)
  | .and => ("", .AMP, n)
  | .or => ("", .PIPE, n)
  | .plus => ("", .PLUS, n)
  | .star => ("", .STAR, n)
  | .slash => ("", .SLASH, n)
  | .caret => ("", .CARET, n)
  | .percent => ("", .PERCENT, n)
  | .unknown => ("", .ERROR, n)
  | .eof => ("", .EOF, n)
  | .dim => ("", .DIM_KW, n)

/-! ### `Converter` -/

structure Converter where
  res : LexedStr
  offset : Nat
  deriving DecidableEq, Repr

namespace Converter

/-- `Converter::new` -/
def new (text : List Char) : Converter := ⟨⟨text, [], [], []⟩, 0⟩

/-- `Converter::finalize_with_eof` -/
def finalizeWithEof (c : Converter) : LexedStr := c.res.push .EOF c.offset

/-- `Converter::push` -/
def push (c : Converter) (kind : SyntaxKind) (len : Nat) (err : Option String) : Converter :=
  let res := c.res.push kind c.offset
  let offset := c.offset + len
  match err with
  | some msg => ⟨{ res with error := res.error ++ [⟨msg, res.len⟩] }, offset⟩
  | none => ⟨res, offset⟩

/-- `Converter::extend_token` -/
def extendToken (c : Converter) (kind : TokenKind) (tokenText : List Char) : Converter :=
  let r := innerExtendToken kind tokenText
  let err := if r.1.isEmpty then none else some r.1
  c.push r.2.1 r.2.2 err

/-- the `for token in tokenize(..)` loop of `LexedStr::new`:
`token_text = &text[conv.offset..][..token.len]; conv.extend_token(&token.kind, token_text)` -/
def loop (c : Converter) : List (TokenKind × Nat) → Option Converter
  | [] => some c
  | (kind, len) :: ts =>
    match (dropBytes c.res.text c.offset).bind (fun r => takeBytes r len) with
    | none => none
    | some tokenText => loop (c.extendToken kind tokenText) ts

end Converter

/-- `LexedStr::new`; `none` = a byte slice panicked -/
def LexedStr.new (uc : UC) (text : List Char) : Option LexedStr :=
  let conv := Converter.new text
  match dropBytes text conv.offset with
  | none => none
  | some t0 =>
    (conv.loop ((tokenize uc t0).map fun t => (t.kind, t.len))).map Converter.finalizeWithEof

/-! ### `Input` -/

structure Input where
  kind : List SyntaxKind
  joint : List Bool
  deriving DecidableEq, Repr

namespace Input

/-- `Input::default` -/
def empty : Input := ⟨[], []⟩

/-- `Input::len` -/
def len (i : Input) : Nat := i.kind.length

/-- `Input::push` -/
def push (i : Input) (kind : SyntaxKind) : Input := ⟨i.kind ++ [kind], i.joint ++ [false]⟩

/-- `Input::was_joint`: `let n = self.len() - 1;` underflows on an empty input -/
def wasJoint (i : Input) : Option Input :=
  if i.len = 0 then none
  else if i.len - 1 < i.joint.length then some { i with joint := i.joint.set (i.len - 1) true }
  else none

/-- `Input::kind` -/
def kindAt (i : Input) (idx : Nat) : SyntaxKind := i.kind.getD idx .EOF

/-- `Input::is_joint`: `self.joint[n / 64]` is in range iff `n / 64 < ⌈len / 64⌉` -/
def isJoint (i : Input) (n : Nat) : Option Bool :=
  if n / 64 < (i.joint.length + 63) / 64 then some (i.joint.getD n false) else none

end Input

/-- loop state of `to_input` -/
structure ToInputState where
  res : Input
  wasJoint : Bool

/-- `str::ends_with('.')` -/
def endsWithDot (s : List Char) : Bool := s.getLast? == some '.'

/-- one iteration of the `for i in 0..self.len()` loop of `to_input` -/
def toInputStep (l : LexedStr) (i : Nat) (st : ToInputState) : Option ToInputState :=
  match l.kindAt i with
  | none => none
  | some kind =>
    if kind.isTrivia then some { st with wasJoint := false }
    else
      match (if st.wasJoint then st.res.wasJoint else some st.res) with
      | none => none
      | some res =>
        let res := res.push kind
        if kind == .FLOAT_NUMBER then
          match l.textAt i with
          | none => none
          | some t =>
            if !endsWithDot t then
              match res.wasJoint with
              | none => none
              | some res => some ⟨res, true⟩
            else some ⟨res, true⟩
        else some ⟨res, true⟩

/-- iterations `i, i+1, …, i+n-1` -/
def toInputLoop (l : LexedStr) : Nat → Nat → ToInputState → Option ToInputState
  | 0, _, st => some st
  | n + 1, i, st =>
    match toInputStep l i st with
    | none => none
    | some st => toInputLoop l n (i + 1) st

/-- `LexedStr::to_input` -/
def LexedStr.toInput (l : LexedStr) : Option Input :=
  (toInputLoop l l.len 0 ⟨Input.empty, false⟩).map (·.res)

end Oq3.Lexed
