/-
Model of `crates/oq3_parser/src/parser.rs` (`Parser`, `Marker`, `CompletedMarker`),
`token_set.rs`, `input.rs` (the read side) and the `Event` type of `event.rs`.

* The grammar model (`Oq3/Model/Grammar.lean`) is written only through the primitives below,
  under the Rust names, in the monad `G = StateT P (Except Outcome)`.
* What Rust checks dynamically (`assert!`, `unreachable!()`, `DropBomb`, arithmetic overflow in a
  dev build) is the outcome `panic site`.  What Rust guarantees statically by move semantics
  (a `Marker` is consumed exactly once) is checked dynamically here and yields `modelError`,
  which must never be observed (it would mean the *model* misuses the API).
* Composite-token tables come from the translated `Oq3.Gen.Ops`.
-/
import Oq3.Gen.SyntaxKind
import Oq3.Gen.TokenSets
import Oq3.Gen.Ops

namespace Oq3.Parser
open Oq3.Gen

/-- `event.rs: enum Event` -/
inductive Ev
  | start (kind : SyntaxKind) (forwardParent : Option Nat)
  | finish
  | token (kind : SyntaxKind) (nRawTokens : Nat)
  | error (msg : String)
  deriving DecidableEq, Repr, Inhabited

def Ev.tombstone : Ev := .start .TOMBSTONE none

inductive Outcome
  | panic (site : String)
  | modelError (msg : String)
  | fuel
  deriving DecidableEq, Repr, Inhabited

/-- parser state -/
structure P where
  /-- `Input.kind` -/
  kinds : Array SyntaxKind
  /-- `Input.joint`, one bit per token -/
  joint : Array Bool
  pos : Nat := 0
  events : Array Ev := #[]
  /-- `steps: Cell<u32>` -/
  steps : Nat := 0
  /-- `PARSER_STEP_LIMIT` -/
  stepLimit : Nat := 15000000
  /-- markers handed out and not yet completed/abandoned (the `DropBomb`s) -/
  live : Nat := 0
  /-- events pushed since the last `do_bump` (mirror of the `oq3_verif` hook) -/
  sinceBump : Nat := 0
  /-- the hook's limit; 0 = hook off -/
  noProgressLimit : Nat := 0
  /-- ghost: positions of live markers created by `CompletedMarker::precede` (targets of a
  forward-parent link that are still tombstones) -/
  protectedPos : List Nat := []
  deriving Repr, Inhabited

abbrev G := StateT P (Except Outcome)

def fail {α} (o : Outcome) : G α := throw o
def panic {α} (site : String) : G α := throw (.panic site)

/-- `Input::kind` -/
def P.kindAt (s : P) (i : Nat) : SyntaxKind := s.kinds.getD i .EOF

/-- `Input::is_joint`: the Rust indexes `joint[idx / 64]`, which exists exactly when some
token with index in the same 64-block has been pushed -/
def P.isJoint (s : P) (n : Nat) : Except Outcome Bool :=
  if n / 64 < (s.kinds.size + 63) / 64 then .ok (s.joint.getD n false)
  else .error (.panic "Input::is_joint index out of bounds")

/-- `Parser::current` -/
def current : G SyntaxKind := do return (← get).kindAt (← get).pos

/-- `Parser::nth` -/
def nth (n : Nat) : G SyntaxKind := do
  let s ← get
  if n > 3 then panic "Parser::nth assertion n <= 3"
  else if s.steps > s.stepLimit then panic "Parser::nth the parser seems stuck"
  else
    set { s with steps := s.steps + 1 }
    return s.kindAt (s.pos + n)

/-- `Parser::at_composite2` / `at_composite3`, uniformly over the pieces list -/
def atComposite (n : Nat) (pieces : List SyntaxKind) : G Bool := do
  let s ← get
  match pieces with
  | [k1, k2] =>
    if s.kindAt (s.pos + n) == k1 && s.kindAt (s.pos + n + 1) == k2 then
      match s.isJoint (s.pos + n) with
      | .ok b => return b
      | .error e => throw e
    else return false
  | [k1, k2, k3] =>
    if s.kindAt (s.pos + n) == k1 && s.kindAt (s.pos + n + 1) == k2
        && s.kindAt (s.pos + n + 2) == k3 then
      match s.isJoint (s.pos + n) with
      | .ok false => return false
      | .ok true =>
        match s.isJoint (s.pos + n + 1) with
        | .ok b => return b
        | .error e => throw e
      | .error e => throw e
    else return false
  | _ => fail (.modelError "atComposite: bad pieces")

def compositePieces (kind : SyntaxKind) : Option (List SyntaxKind) :=
  (Ops.compositeTable.find? (·.1 == kind)).map (·.2)

/-- `Parser::nth_at` -/
def nthAt (n : Nat) (kind : SyntaxKind) : G Bool := do
  match compositePieces kind with
  | some ps => atComposite n ps
  | none => return (← get).kindAt ((← get).pos + n) == kind

/-- `Parser::at` (named `at'` because `at` is a Lean keyword) -/
def at' (kind : SyntaxKind) : G Bool := nthAt 0 kind

/-- `TokenSet`: a `u128` bit set.  `mask(kind)` is `1u128 << kind` for discriminants below 128 and
`0` otherwise (since the repair of finding F04; before, the shift overflowed): kinds ≥ 128 are never
members. -/
abbrev TokenSet := List SyntaxKind

def TokenSet.containsG (ts : TokenSet) (kind : SyntaxKind) : G Bool :=
  return (decide (kind.toNat < 128) && ts.contains kind)

/-- `Parser::at_ts` -/
def atTs (ts : TokenSet) : G Bool := do ts.containsG (← current)

def pushEvent (e : Ev) : G Unit := do
  let s ← get
  if s.noProgressLimit > 0 && s.sinceBump ≥ s.noProgressLimit then
    panic "oq3_verif: no progress"
  else set { s with events := s.events.push e, sinceBump := s.sinceBump + 1 }

/-- `Parser::do_bump` -/
def doBump (kind : SyntaxKind) (nRaw : Nat) : G Unit := do
  modify fun s => { s with pos := s.pos + nRaw, steps := 0, sinceBump := 0 }
  pushEvent (.token kind nRaw)

def eatRawTokens (kind : SyntaxKind) : Nat :=
  ((Ops.eatRawTokens.find? (·.1 == kind)).map (·.2)).getD 1

/-- `Parser::eat` -/
def eat (kind : SyntaxKind) : G Bool := do
  -- `eat(EOF)` would move `pos` past the end of the input; the grammar never asks for it
  if kind == .EOF then fail (.modelError "Parser::eat(EOF)")
  else
    let b ← at' kind
    if !b then return false
    else
      doBump kind (eatRawTokens kind)
      return true

/-- `Parser::bump` -/
def bump (kind : SyntaxKind) : G Unit := do
  if !(← eat kind) then panic "Parser::bump assertion"

/-- `Parser::bump_any` -/
def bumpAny : G Unit := do
  let kind ← current
  if kind == .EOF then return
  doBump kind 1

/-- `Parser::error` -/
def error (msg : String) : G Unit := pushEvent (.error msg)

/-- `format!("{kind:?}")` -/
def dbg (k : SyntaxKind) : String := k.name

/-- `Parser::expect` -/
def expect (kind : SyntaxKind) : G Bool := do
  if (← eat kind) then return true
  error s!"expected {dbg kind}"
  return false

structure Marker where
  pos : Nat
  /-- ghost: the marker was created by `CompletedMarker::precede`, i.e. an earlier event's
  forward-parent link points at it -/
  isFp : Bool := false
  deriving DecidableEq, Repr, Inhabited

structure CompletedMarker where
  pos : Nat
  kind : SyntaxKind
  deriving DecidableEq, Repr, Inhabited

/-- `Parser::start` -/
def start : G Marker := do
  let s ← get
  pushEvent Ev.tombstone
  modify fun s => { s with live := s.live + 1 }
  return { pos := s.events.size }

/-- `Marker::complete` -/
def Marker.complete (m : Marker) (kind : SyntaxKind) : G CompletedMarker := do
  let s ← get
  match s.events[m.pos]? with
  | some (.start k0 fp) =>
    -- Rust's move semantics make a second completion impossible; completing with TOMBSTONE
    -- would leave an unmatched `Finish`: neither is ever done by the grammar
    if k0 != .TOMBSTONE then fail (.modelError "Marker::complete: marker already completed")
    else if kind == .TOMBSTONE then fail (.modelError "Marker::complete with TOMBSTONE")
    else
      set { s with events := s.events.set! m.pos (.start kind fp), live := s.live - 1,
                   protectedPos := s.protectedPos.filter (· != m.pos) }
      pushEvent .finish
      return ⟨m.pos, kind⟩
  | _ => panic "Marker::complete unreachable"

/-- `Marker::abandon` -/
def Marker.abandon (m : Marker) : G Unit := do
  let s ← get
  -- abandoning (popping) an event that a forward-parent link points at would leave the link
  -- dangling and make `process` hit `unreachable!()`; the grammar never does it
  if m.isFp || s.protectedPos.contains m.pos then
    fail (.modelError "Marker::abandon of a forward-parent marker")
  else if s.events.size == 0 then panic "Marker::abandon underflow"
  else if m.pos == s.events.size - 1 then
    match s.events.back? with
    | some (.start k fp) =>
      if k == .TOMBSTONE && fp.isNone then set { s with events := s.events.pop, live := s.live - 1 }
      else panic "Marker::abandon unreachable"
    | _ => panic "Marker::abandon unreachable"
  else set { s with live := s.live - 1 }

/-- `CompletedMarker::precede` -/
def CompletedMarker.precede (cm : CompletedMarker) : G Marker := do
  let newPos ← start
  let s ← get
  match s.events[cm.pos]? with
  | some (.start k _) =>
    if newPos.pos < cm.pos then panic "CompletedMarker::precede u32 underflow"
    else
      set { s with events := s.events.set! cm.pos (.start k (some (newPos.pos - cm.pos))),
                   protectedPos := newPos.pos :: s.protectedPos }
      return { newPos with isFp := true }
  | _ => panic "CompletedMarker::precede unreachable"

/-- `CompletedMarker::extend_to` -/
def CompletedMarker.extendTo (cm : CompletedMarker) (m : Marker) : G CompletedMarker := do
  let s ← get
  match s.events[m.pos]? with
  | some (.start k _) =>
    if cm.pos < m.pos then panic "CompletedMarker::extend_to u32 underflow"
    else
      -- a `CompletedMarker` always denotes a completed `Start` event
      match s.events[cm.pos]? with
      | some (.start k' _) =>
        if k' == .TOMBSTONE then
          fail (.modelError "CompletedMarker::extend_to: not a completed marker")
        else
          set { s with events := s.events.set! m.pos (.start k (some (cm.pos - m.pos))),
                       live := s.live - 1 }
          return cm
      | _ => fail (.modelError "CompletedMarker::extend_to: not a completed marker")
  | _ => panic "CompletedMarker::extend_to unreachable"

/-- `Parser::err_recover` -/
def errRecover (message : String) (recovery : TokenSet) : G Unit := do
  let k ← current
  if k == .L_CURLY || k == .R_CURLY then
    error message
    return
  if (← atTs recovery) then
    error message
    return
  let m ← start
  error message
  bumpAny
  let _ ← m.complete .ERROR

/-- `Parser::err_and_bump` -/
def errAndBump (message : String) : G Unit := errRecover message []

/-- `SyntaxKind::is_classical_type` etc. (grammar.rs) -/
def isClassicalType (k : SyntaxKind) : Bool := k.isScalarType || k == .ARRAY_KW
def isQuantumType (k : SyntaxKind) : Bool := k == .QUBIT_KW || k == .HARDWARE_QUBIT
def isType (k : SyntaxKind) : Bool := isClassicalType k || isQuantumType k
def isCregOrQreg (k : SyntaxKind) : Bool := k == .QREG_KW || k == .CREG_KW

end Oq3.Parser
