/-
The two `f64` library functions behind `FloatNumber::value()` and `format!("{}", value)`:
`<f64 as FromStr>::from_str` (core::num::dec2flt — correctly rounded for every input) and
`<f64 as Display>::fmt` without precision (core::num::flt2dec: shortest digits that round-trip,
`strategy::dragon::format_shortest`; `digits_to_dec_str` with `frac_digits = 0`, never an
exponent).  Both are EXTERNAL to the project (Rust core); they are modelled here only so that the
`accessors` driver mode can print the same `FloatNumber` field as `oq3-run ast` does.  No theorem
depends on this file; its tie to the real functions is the correspondence run (vf/acc_corr.py).

Everything is exact `Nat`/`Int` arithmetic.
-/
namespace Oq3.F64

/-- a binary64 value -/
inductive F64
  /-- `(-1)^neg * m * 2^e`, `m < 2^53`, `e ≥ -1074`; normal iff `2^52 ≤ m`; subnormal (or zero)
  iff `e = -1074 ∧ m < 2^52` -/
  | finite (neg : Bool) (m : Nat) (e : Int)
  | inf (neg : Bool)
  | nan
  deriving DecidableEq, Repr, Inhabited

def isDigit (c : Char) : Bool := '0' ≤ c && c ≤ '9'

def spanDigits : List Char → List Char × List Char
  | [] => ([], [])
  | c :: cs => if isDigit c then
      let (a, b) := spanDigits cs
      (c :: a, b)
    else ([], c :: cs)

def digitsVal (ds : List Char) : Nat := ds.foldl (fun a c => a * 10 + (c.toNat - '0'.toNat)) 0

/-- `dec2flt::parse::parse_number` on the sign-stripped text, as an exact decimal
`mant * 10^exp`; `none` = the text is not of the form `digits [. digits] [(e|E) [+|-] digits]`
with at least one mantissa digit -/
def parseNumber (s : List Char) : Option (Nat × Int) :=
  let (ip, r1) := spanDigits s
  let (fp, r2) := match r1 with
    | '.' :: r => spanDigits r
    | _ => ([], r1)
  if ip.length + fp.length == 0 then none
  else
    let (e, r3) : Int × List Char := match r2 with
      | c :: r =>
        if c == 'e' || c == 'E' then
          let (neg, r') := match r with
            | '-' :: t => (true, t)
            | '+' :: t => (false, t)
            | _ => (false, r)
          let (ed, r'') := spanDigits r'
          if ed.isEmpty then (0, r2)
          else ((if neg then - (digitsVal ed : Int) else (digitsVal ed : Int)), r'')
        else (0, r2)
      | [] => (0, [])
    if r3.isEmpty then some (digitsVal (ip ++ fp), e - (fp.length : Int)) else none

def lower (s : List Char) : List Char := s.map Char.toLower

def decimalDigits (n : Nat) : Nat := (Nat.toDigits 10 n).length

def pow2 (e : Nat) : Nat := 2 ^ e
def pow10 (e : Nat) : Nat := 10 ^ e

/-- the double nearest to `num / den` (ties to even), `num > 0`, `den > 0` -/
def roundRatio (neg : Bool) (num den : Nat) : F64 :=
  -- floor(log2(num/den))
  let t : Int := (Nat.log2 num : Int) - (Nat.log2 den : Int)
  let ge : Bool := if t ≥ 0 then num ≥ den * pow2 t.toNat else num * pow2 (-t).toNat ≥ den
  let fl : Int := if ge then t else t - 1
  let e : Int := max (fl - 52) (-1074)
  let (n', d') := if e ≥ 0 then (num, den * pow2 e.toNat) else (num * pow2 (-e).toNat, den)
  let q := n' / d'
  let r := n' % d'
  let q := if 2 * r > d' || (2 * r == d' && q % 2 == 1) then q + 1 else q
  let (q, e) := if q == pow2 53 then (pow2 52, e + 1) else (q, e)
  if e > 971 then .inf neg else .finite neg q e

/-- exact decimal `mant * 10^exp` to the nearest double -/
def ofDecimal (neg : Bool) (mant : Nat) (exp : Int) : F64 :=
  if mant == 0 then .finite neg 0 (-1074)
  else
    let nd : Int := decimalDigits mant
    if exp + nd > 310 then .inf neg
    else if exp + nd < -330 then .finite neg 0 (-1074)
    else if exp ≥ 0 then roundRatio neg (mant * pow10 exp.toNat) 1
    else roundRatio neg mant (pow10 (-exp).toNat)

/-- `s.parse::<f64>().ok()` -/
def parse (s : List Char) : Option F64 :=
  match s with
  | [] => none
  | c :: rest =>
    let (neg, body) := if c == '-' then (true, rest) else if c == '+' then (false, rest) else (false, s)
    if body.isEmpty then none
    else match parseNumber body with
      | some (m, e) => some (ofDecimal neg m e)
      | none =>
        let l := lower body
        if l == "nan".toList then some .nan
        else if l == "inf".toList || l == "infinity".toList then some (.inf neg)
        else none

/-! ### shortest round-trip digits (`flt2dec::strategy::dragon::format_shortest`) -/

/-- `a * 2^x  <  10^k` (or `≤` when `orEq`) for integer `x`, `k` -/
def ltPow10 (a : Nat) (x k : Int) (orEq : Bool) : Bool :=
  let lhs := a * (if x ≥ 0 then pow2 x.toNat else 1) * (if k < 0 then pow10 (-k).toNat else 1)
  let rhs := (if x < 0 then pow2 (-x).toNat else 1) * (if k ≥ 0 then pow10 k.toNat else 1)
  if orEq then lhs ≤ rhs else lhs < rhs

/-- least `k ≥ k0` with `high < 10^k` (inclusive interval) / `high ≤ 10^k` (exclusive) -/
def findK (high : Nat) (x : Int) (inclusive : Bool) : Nat → Int → Int
  | 0, k => k
  | fuel + 1, k => if ltPow10 high x k (!inclusive) then k else findK high x inclusive fuel (k + 1)

/-- `round_up` of flt2dec: increment the digit string; `some c` = an extra digit was appended -/
def roundUp (ds : List Nat) : List Nat × Bool :=
  let r := ds.reverse
  let nines := r.takeWhile (· == 9)
  match r.dropWhile (· == 9) with
  | d :: more => (((d + 1) :: more).reverse ++ nines.map (fun _ => 0), false)
  | [] => if ds.isEmpty then ([1], true) else (1 :: (ds.drop 1).map (fun _ => 0) ++ [0], true)

/-- the digit loop; returns digits, final `mant`, `down`, `up` -/
def digitLoop (scale : Nat) (inclusive : Bool) : Nat → Nat → Nat → Nat → List Nat → List Nat × Nat × Bool × Bool
  | 0, mant, _, _, acc => (acc.reverse, mant, true, false)
  | fuel + 1, mant, minus, plus, acc =>
    let d := mant / scale
    let mant := mant % scale
    let acc := d :: acc
    let down := if inclusive then mant ≤ minus else mant < minus
    let up := if inclusive then scale ≤ mant + plus else scale < mant + plus
    if down || up then (acc.reverse, mant, down, up)
    else digitLoop scale inclusive fuel (mant * 10) (minus * 10) (plus * 10) acc

/-- shortest digits `d₁…dₙ` and exponent `k` with value `0.d₁…dₙ × 10^k`, for `m > 0` -/
def shortest (m : Nat) (e : Int) : List Nat × Int :=
  -- `flt2dec::decode`
  let subnormal := m < pow2 52
  let (mant, minus, plus, x, inclusive) : Nat × Nat × Nat × Int × Bool :=
    if subnormal then (2 * m, 1, 1, e - 1, true)
    else if m == pow2 52 then (4 * m, 1, 2, e - 2, m % 2 == 0)
    else (2 * m, 1, 1, e - 1, m % 2 == 0)
  let high := mant + plus
  let bits : Int := (Nat.log2 high : Int) + x
  let k0 : Int := Int.fdiv (bits * 30103) 100000 - 2
  let k := findK high x inclusive 12 k0
  -- v / 10^(k-1) = mant / scale
  let up2 := if x ≥ 0 then pow2 x.toNat else 1
  let dn2 := if x < 0 then pow2 (-x).toNat else 1
  let j := k - 1
  let up10 := if j < 0 then pow10 (-j).toNat else 1
  let dn10 := if j ≥ 0 then pow10 j.toNat else 1
  let scale := dn2 * dn10
  let (ds, mantF, down, up) := digitLoop scale inclusive 40 (mant * up2 * up10) (minus * up2 * up10) (plus * up2 * up10) []
  if up && (!down || mantF * 2 ≥ scale) then
    let (ds', ext) := roundUp ds
    (ds', if ext then k + 1 else k)
  else (ds, k)

def digitChar (d : Nat) : Char := Char.ofNat ('0'.toNat + d)

/-- `flt2dec::digits_to_dec_str` with `frac_digits = 0` -/
def digitsToDecStr (ds : List Nat) (k : Int) : List Char :=
  let cs := ds.map digitChar
  if k ≤ 0 then '0' :: '.' :: (List.replicate (-k).toNat '0' ++ cs)
  else if k.toNat < cs.length then cs.take k.toNat ++ '.' :: cs.drop k.toNat
  else cs ++ List.replicate (k.toNat - cs.length) '0'

/-- `format!("{}", v)` -/
def display : F64 → List Char
  | .nan => "NaN".toList
  | .inf neg => (if neg then "-inf" else "inf").toList
  | .finite neg m e =>
    let body := if m == 0 then ['0'] else
      let (ds, k) := shortest m e
      digitsToDecStr ds k
    if neg then '-' :: body else body

end Oq3.F64
