/-
Model of `crates/oq3_syntax/src/validation.rs: validate` on the model tree, as far as it can
panic or report structure-dependent diagnostics:

* `ast::Literal::token` (`expr_ext.rs`): first non-trivia child must be a token (`unwrap`);
* `ast::Literal::kind`: that token must be one of the literal kinds (`unreachable!()`);
* `validate_timing_literal`: `identifier().unwrap()`, `text()` (= first child of the IDENTIFIER
  node must be a token, `unwrap`), unit check.

NOT modelled: the escape-sequence diagnostics of string/char/byte literals
(`unescape_literal`, oq3_lexer/src/unescape.rs); the correspondence check accepts those extra
diagnostics on the implementation side and checks their ranges with the oracle only.
-/
import Oq3.Model.Builder

namespace Oq3.Validation
open Oq3.Gen Oq3.Builder

structure VErr where
  start : Nat
  stop : Nat
  msg : String
  deriving DecidableEq, Repr, Inhabited

def Tree.kind : Tree → SyntaxKind
  | .node k _ => k
  | .leaf k _ => k

def Tree.len (t : Tree) : Nat := utf8Len t.text

def timeUnits : List (List Char) :=
  ["s".toList, "ms".toList, "us".toList, "µs".toList, "ns".toList, "dt".toList, "im".toList]

def literalTokenKinds : List SyntaxKind :=
  [.INT_NUMBER, .FLOAT_NUMBER, .STRING, .BIT_STRING, .CHAR, .BYTE, .TRUE_KW, .FALSE_KW]

/-- `validate_literal`'s structural part -/
def validateLiteral (children : List Tree) : Except String Unit :=
  match children.find? (fun c => !(Tree.kind c).isTrivia) with
  | some (.leaf k _) =>
    if literalTokenKinds.contains k then .ok () else .error "Literal::kind unreachable"
  | _ => .error "Literal::token unwrap"

/-- `validate_timing_literal` -/
def validateTimingLiteral (start : Nat) (children : List Tree) (len : Nat) :
    Except String (List VErr) :=
  match children.find? (fun c => Tree.kind c == .IDENTIFIER && (match c with | .node .. => true | _ => false)) with
  | some (.node _ (.leaf _ txt :: _)) =>
    if timeUnits.contains txt then .ok []
    else .ok [⟨start, start + len,
      "Expected 'im', or one of the time units 's', 'ms', 'us', 'µs', 'ns', or 'dt'"⟩]
  | some _ => .error "text_of_first_token unwrap"
  | none => .error "validate_timing_literal unwrap"

mutual
/-- `validate`: pre-order walk over all nodes (`root.descendants()`) -/
def validate (t : Tree) (off : Nat) : Except String (List VErr) :=
  match t with
  | .leaf _ _ => .ok []
  | .node k cs => do
    let own ←
      if k == .LITERAL then (do validateLiteral cs; pure [])
      else if k == .TIMING_LITERAL then validateTimingLiteral off cs (Tree.len (.node k cs))
      else pure []
    let rest ← validateList cs off
    pure (own ++ rest)
def validateList (ts : List Tree) (off : Nat) : Except String (List VErr) :=
  match ts with
  | [] => .ok []
  | c :: cs => do
    let a ← validate c off
    let b ← validateList cs (off + Tree.len c)
    pure (a ++ b)
end

end Oq3.Validation
