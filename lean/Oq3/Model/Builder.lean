/-
Model of `crates/oq3_parser/src/shortcuts.rs: intersperse_trivia` (+ `Builder`,
`n_attached_trivias`) and of the tree construction in `crates/oq3_syntax/src/parsing.rs:
build_tree` / `syntax_node.rs: SyntaxTreeBuilder` (rowan's `GreenNodeBuilder`).

rowan is external: its builder is modelled as the obvious stack machine producing a rose
tree; text ranges of the model tree are *derived* from leaf lengths.
-/
import Oq3.Model.Process

namespace Oq3.Builder
open Oq3.Gen Oq3.Parser

/-- one entry of the `LexedStr` token table (without the EOF sentinel) -/
structure RawTok where
  kind : SyntaxKind
  text : List Char
  deriving DecidableEq, Repr, Inhabited

def utf8Len (s : List Char) : Nat := (s.map Char.utf8Size).sum

/-- `LexedStr::text_start(i)` for `i ≤ len` -/
def textStart (toks : List RawTok) (i : Nat) : Nat :=
  ((toks.take i).map (fun t => utf8Len t.text)).sum

/-- `shortcuts.rs: enum StrStep` -/
inductive StrStep
  | token (kind : SyntaxKind) (text : List Char)
  | enter (kind : SyntaxKind)
  | exit
  | error (msg : String) (pos : Nat)
  deriving DecidableEq, Repr, Inhabited

inductive BState | pendingEnter | normal | pendingExit
  deriving DecidableEq, Repr, Inhabited

structure B where
  pos : Nat := 0
  state : BState := .pendingEnter
  out : List StrStep := []        -- in emission order
  deriving Repr, Inhabited

abbrev M := Except String          -- error = panic site

def emit (b : B) (s : StrStep) : B := { b with out := b.out ++ [s] }

/-- `Builder::do_token` (`range_text` asserts `start < end && end <= len`) -/
def doToken (toks : List RawTok) (b : B) (kind : SyntaxKind) (n : Nat) : M B :=
  if n = 0 ∨ b.pos + n > toks.length then .error "LexedStr::range_text assertion"
  else
    let text := (((toks.drop b.pos).take n).map (·.text)).flatten
    .ok (emit { b with pos := b.pos + n } (.token kind text))

/-- `Builder::eat_trivias`: structural on the remaining token list -/
def eatTriviasAux : List RawTok → B → B
  | [], b => b
  | t :: rest, b =>
    if t.kind.isTrivia then eatTriviasAux rest (emit { b with pos := b.pos + 1 } (.token t.kind t.text))
    else b

def eatTrivias (toks : List RawTok) (b : B) : B := eatTriviasAux (toks.drop b.pos) b

/-- `Builder::eat_n_trivias` -/
def eatNTrivias (toks : List RawTok) : Nat → B → M B
  | 0, b => .ok b
  | n + 1, b =>
    match toks[b.pos]? with
    | none => .error "LexedStr::kind assertion"
    | some t =>
      if !t.kind.isTrivia then .error "eat_n_trivias assertion"
      else eatNTrivias toks n (emit { b with pos := b.pos + 1 } (.token t.kind t.text))

def startsWith (s p : List Char) : Bool := p.isPrefixOf s

def isOuter (text : List Char) : Bool :=
  if startsWith text "////".toList || startsWith text "/***".toList then false
  else startsWith text "///".toList || startsWith text "/**".toList

def isInner (text : List Char) : Bool :=
  startsWith text "//!".toList || startsWith text "/*!".toList

def containsBlankLine : List Char → Bool
  | '\n' :: '\n' :: _ => true
  | _ :: rest => containsBlankLine rest
  | [] => false

/-- `n_attached_trivias` for `CONST` (the only kind with attached trivia; the grammar never
produces a `CONST` node, so this is dead code, modelled for completeness).
`trivias` is the leading trivia in reverse order. -/
def nAttachedConst : List RawTok → Nat → Nat → Nat
  | [], _, res => res
  | t :: rest, i, res =>
    if t.kind == .WHITESPACE && containsBlankLine t.text then
      match rest with
      | t2 :: _ => if t2.kind == .COMMENT && isOuter t2.text then nAttachedConst rest (i + 1) res else res
      | [] => res
    else if t.kind == .COMMENT then
      if isInner t.text then res else nAttachedConst rest (i + 1) (i + 1)
    else nAttachedConst rest (i + 1) res

def nAttachedTrivias (kind : SyntaxKind) (triviasRev : List RawTok) : Nat :=
  if kind == .CONST then nAttachedConst triviasRev 0 0 else 0

/-- the `mem::replace(&mut self.state, State::Normal)` prologue of `token`/`enter` -/
def flushPending (b : B) : M B :=
  match b.state with
  | .pendingEnter => .error "Builder unreachable (PendingEnter)"
  | .pendingExit => .ok (emit { b with state := .normal } .exit)
  | .normal => .ok { b with state := .normal }

def step (toks : List RawTok) (b : B) : Step → M B
  | .token kind n => do
    let b ← flushPending b
    let b := eatTrivias toks b
    doToken toks b kind n
  | .enter kind =>
    match b.state with
    | .pendingEnter => .ok (emit { b with state := .normal } (.enter kind))
    | _ => do
      let b ← flushPending b
      let leading := (toks.drop b.pos).takeWhile (·.kind.isTrivia)
      let nTrivias := leading.length
      let nAtt := nAttachedTrivias kind leading.reverse
      let b ← eatNTrivias toks (nTrivias - nAtt) b
      let b := emit b (.enter kind)
      eatNTrivias toks nAtt b
  | .exit =>
    match b.state with
    | .pendingEnter => .error "Builder unreachable (PendingEnter)"
    | .pendingExit => .ok (emit { b with state := .pendingExit } .exit)
    | .normal => .ok { b with state := .pendingExit }
  | .error msg => .ok (emit b (.error msg (textStart toks b.pos)))

def steps (toks : List RawTok) : List Step → B → M B
  | [], b => .ok b
  | s :: ss, b => do steps toks ss (← step toks b s)

/-- `LexedStr::intersperse_trivia`: the emitted steps and the `is_eof` flag -/
def intersperseTrivia (toks : List RawTok) (ss : List Step) : M (List StrStep × Bool) := do
  let b ← steps toks ss {}
  match b.state with
  | .pendingExit =>
    let b := eatTrivias toks b
    let b := emit b .exit
    .ok (b.out, b.pos == toks.length)
  | _ => .error "intersperse_trivia unreachable (final state)"

/-! ### tree construction -/

inductive Tree
  | node (kind : SyntaxKind) (children : List Tree)
  | leaf (kind : SyntaxKind) (text : List Char)
  deriving Repr, Inhabited

/-- an error recorded by `SyntaxTreeBuilder::error`: message and byte offset -/
structure SynErr where
  msg : String
  pos : Nat
  deriving DecidableEq, Repr, Inhabited

structure TB where
  /-- open nodes, innermost first, with their children so far in reverse order -/
  parents : List (SyntaxKind × List Tree) := []
  /-- finished top-level children, in reverse order -/
  top : List Tree := []
  errors : List SynErr := []
  deriving Repr, Inhabited

def TB.push (t : TB) (x : Tree) : TB :=
  match t.parents with
  | (k, cs) :: ps => { t with parents := (k, x :: cs) :: ps }
  | [] => { t with top := x :: t.top }

def tbStep (t : TB) : StrStep → M TB
  | .token kind text => .ok (t.push (.leaf kind text))
  | .enter kind => .ok { t with parents := (kind, []) :: t.parents }
  | .exit =>
    match t.parents with
    | (k, cs) :: ps => .ok (({ t with parents := ps } : TB).push (.node k cs.reverse))
    | [] => .error "GreenNodeBuilder::finish_node unwrap"
  | .error msg pos => .ok { t with errors := t.errors ++ [⟨msg, pos⟩] }

def tbSteps : List StrStep → TB → M TB
  | [], t => .ok t
  | s :: ss, t => do tbSteps ss (← tbStep t s)

/-- `GreenNodeBuilder::finish`: exactly one top-level element, and it is a node.
(Open parents at `finish` are not an error in rowan; their children are lost — the
theorems show the stack is empty.) -/
def tbFinish (t : TB) : M (Tree × List SynErr) :=
  match t.top with
  | [.node k cs] => .ok (.node k cs, t.errors)
  | _ => .error "GreenNodeBuilder::finish assertion"

/-- `build_tree` without the lexer errors (which are appended by the caller) -/
def buildTree (toks : List RawTok) (ss : List Step) : M (Tree × List SynErr × Bool) := do
  let (strSteps, isEof) ← intersperseTrivia toks ss
  let t ← tbSteps strSteps {}
  let (tree, errs) ← tbFinish t
  .ok (tree, errs, isEof)

mutual
def Tree.leaves : Tree → List (SyntaxKind × List Char)
  | .leaf k t => [(k, t)]
  | .node _ cs => Tree.leavesList cs
def Tree.leavesList : List Tree → List (SyntaxKind × List Char)
  | [] => []
  | c :: cs => c.leaves ++ Tree.leavesList cs
end

/-- the text of a tree: concatenation of its leaves in document order -/
def Tree.text (t : Tree) : List Char := (t.leaves.map (·.2)).flatten

end Oq3.Builder
