/-
Model of the grammar of `oq3_parser`:

  crates/oq3_parser/src/grammar.rs
  crates/oq3_parser/src/grammar/items.rs
  crates/oq3_parser/src/grammar/expressions.rs
  crates/oq3_parser/src/grammar/expressions/atom.rs
  crates/oq3_parser/src/grammar/params.rs

Every Rust function appears under the same name in camelCase (Rust names that end in `_` keep the
underscore; `include` is `include'` because `include` is a Lean keyword; the leading underscore
of `_param_list_openqasm` / `_returns_bool_classical_declaration_stmt` is dropped), with the
same control flow, the same error strings and the same order of parser-API calls, so that the
event stream is identical to the one of the Rust code.

Conventions (DESIGN.md Appendix A.1/A.2):

* ONE mutual block.  Every function in it takes a single `fuel : Nat` as first argument and is
  structurally recursive on it; every call to another function of the block, including every
  loop iteration (loops are the `…Loop` functions, or the function itself when the Rust function
  *is* a single loop), passes `fuel` obtained from the pattern `fuel+1`.
* Leaf functions — functions whose transitive callees are only parser-API primitives and other
  leaf functions — are plain definitions without fuel (section "leaf functions").
* Closures / function parameters are defunctionalised: `DelimitedParser` + `delimitedParser`
  (the `parser` argument of `delimited`), `DefFlavor` + `paramListItem` (the item dispatch of
  `_param_list_openqasm`).
* `assert!(p.at(K))` is `if !(← at' K) then panic "<rust fn name>"`.
* Rust's short-circuit `&&` / `||` is rendered with `<&&>` / `<||>` (`andM` / `orM`) whenever an
  operand is a parser call, so that `nth` (step counter) and `at_ts` (`TokenSet::mask` overflow)
  are evaluated exactly when Rust evaluates them.
* `current_op` scans the generated `Oq3.Gen.Ops.currentOpRows`; token sets are the generated
  `Oq3.Gen.TokenSets.*`.
-/
import Oq3.Model.ParserApi

namespace Oq3.Grammar
open Oq3.Gen
open Oq3.Parser hiding panic
open Oq3.Gen.Ops (Assoc)
open Oq3.Gen.TokenSets

/-- `Oq3.Parser.panic` (the root namespace has a `panic` too) -/
abbrev panic {α} (site : String) : G α := Oq3.Parser.panic site

/-- grammar.rs `enum BlockLike` -/
inductive BlockLike
  | block | notBlock
  deriving DecidableEq, Repr, Inhabited

/-- `BlockLike::is_block` -/
def BlockLike.isBlock (b : BlockLike) : Bool := b == .block

/-- `BlockLike::is_blocklike` -/
def BlockLike.isBlocklike (kind : SyntaxKind) : Bool := kind == .BLOCK_EXPR

/-- expressions.rs `struct Restrictions` -/
structure Restrictions where
  preferStmt : Bool
  deriving DecidableEq, Repr, Inhabited

/-- params.rs `enum DefFlavor` -/
inductive DefFlavor
  | gateParams | gateQubits | gateCallQubits | defParams | defCalParams | defCalQubits
  | expressionList | arrayLiteral | caseValues | typeListFlavor
  deriving DecidableEq, Repr, Inhabited

/-- the closures passed to `delimited` (only one in the current grammar:
`|p| expr(p).is_some()` in `call_arg_list`) -/
inductive DelimitedParser
  | exprIsSome
  deriving DecidableEq, Repr, Inhabited

/-! ## leaf functions (no fuel) -/

/-- grammar.rs `name_r` -/
def nameR (recovery : TokenSet) : G Unit := do
  if (← at' .HARDWAREIDENT) then
    let m ← start
    bump .HARDWAREIDENT
    let _ ← m.complete .HARDWARE_QUBIT
    return
  if (← at' .IDENT) then
    let m ← start
    bump .IDENT
    let _ ← m.complete .NAME
  else
    errRecover "expected a name" recovery

/-- grammar.rs `name` -/
def name : G Unit := nameR []

/-- items.rs `break_` -/
def break_ (m : Marker) : G Unit := do
  bump .BREAK_KW
  let _ ← expect .SEMICOLON
  let _ ← m.complete .BREAK_STMT

/-- items.rs `continue_` -/
def continue_ (m : Marker) : G Unit := do
  if !(← at' .CONTINUE_KW) then panic "continue_"
  bump .CONTINUE_KW
  let _ ← expect .SEMICOLON
  let _ ← m.complete .CONTINUE_STMT

/-- items.rs `end_` -/
def end_ (m : Marker) : G Unit := do
  if !(← at' .END_KW) then panic "end_"
  bump .END_KW
  let _ ← expect .SEMICOLON
  let _ ← m.complete .END_STMT

/-- items.rs `filepath_r` -/
def filepathR (recovery : TokenSet) : G Unit := do
  if (← at' .STRING) then
    let m ← start
    bump .STRING
    let _ ← m.complete .FILE_PATH
  else
    errRecover "expected a path to a file" recovery

/-- items.rs `defcalgrammar_` -/
def defcalgrammar_ (m : Marker) : G Unit := do
  bump .DEFCALGRAMMAR_KW
  filepathR ITEM_RECOVERY_SET
  let _ ← expect .SEMICOLON
  let _ ← m.complete .DEF_CAL_GRAMMAR

/-- items.rs `include` -/
def include' (m : Marker) : G Unit := do
  bump .INCLUDE_KW
  filepathR ITEM_RECOVERY_SET
  let _ ← expect .SEMICOLON
  let _ ← m.complete .INCLUDE

/-- items.rs `version_` -/
def version_ : G Bool := do
  let m ← start
  -- `!p.expect(FLOAT_NUMBER) && !p.at(SEMICOLON)`
  if (← (notM (expect .FLOAT_NUMBER) <&&> notM (at' .SEMICOLON))) then
    bumpAny
  let _ ← expect .SEMICOLON
  let _ ← m.complete .VERSION
  return true

/-- items.rs `version_string` -/
def versionString (m : Marker) : G Unit := do
  bump .O_P_E_N_Q_A_S_M_KW
  let _ ← version_
  let _ ← m.complete .VERSION_STRING

def notAnOp : Nat × SyntaxKind × Assoc := (0, .DOT3, .left)

/-- scan of the rows of `current_op` in source order: the first row whose first token is the
current token and whose guard `p.at(..)`, if any, holds -/
def currentOpScan (cur : SyntaxKind) :
    List (SyntaxKind × Option SyntaxKind × Option (Nat × SyntaxKind × Assoc)) →
    G (Nat × SyntaxKind × Assoc)
  | [] => return notAnOp
  | (k, guard, res) :: rows =>
    if k == cur then
      match guard with
      | none => return res.getD notAnOp
      | some g => do
        if (← at' g) then return res.getD notAnOp
        else currentOpScan cur rows
    else currentOpScan cur rows

/-- expressions.rs `current_op` -/
def currentOp : G (Nat × SyntaxKind × Assoc) := do
  currentOpScan (← current) Ops.currentOpRows

/-- expressions.rs `type_can_have_designator` -/
def typeCanHaveDesignator (typ : SyntaxKind) : Bool :=
  match typ with
  | .ANGLE_TY | .BIT_TY | .FLOAT_TY | .INT_TY | .UINT_TY | .BOX_KW | .DELAY_KW | .QUBIT_KW => true
  | _ => false

/-- expressions.rs `type_name` -/
def typeName : G Unit := do
  if !isType (← current) then
    error "Expected type name."
    return
  bump (← current)

/-- expressions.rs `var_name` -/
def varName : G Unit := do
  let m ← start
  if (← at' .IDENT) then
    bumpAny
  else
    let kind ← current
    error s!"Expecting parameter name. Found {dbg kind}"
  let _ ← m.complete .NAME

/-- atom.rs `identifier` -/
def identifier : G CompletedMarker := do
  let m ← start
  let _ ← expect .IDENT
  m.complete .IDENTIFIER

/-- atom.rs `hardware_qubit` -/
def hardwareQubit : G CompletedMarker := do
  let m ← start
  bump .HARDWAREIDENT
  m.complete .HARDWARE_QUBIT

/-- atom.rs `literal` -/
def literal : G (Option CompletedMarker) := do
  if !(← atTs LITERAL_FIRST) then
    return none
  if (← at' .STRING) then
    error "Unexpected string literal"
  if (← nth 1) == .IDENT then
    if !(← atTs TIMING_LITERAL_FIRST) then
      error "Timing and imaginary literals must begin with an integer or float literal"
    let m2 ← start
    let m ← start
    bumpAny
    let _ ← m.complete .LITERAL
    let _ ← identifier
    return some (← m2.complete .TIMING_LITERAL)
  let m ← start
  bumpAny
  return some (← m.complete .LITERAL)

/-- params.rs `at_list_end_token` -/
def atListEndToken (flavor : DefFlavor) : G Bool := do
  if flavor == .defCalQubits then
    return (← (at' .L_CURLY <||> at' .THIN_ARROW))
  let listEndToken : SyntaxKind ← match flavor with
    | .expressionList => pure .R_BRACK
    | .caseValues => pure .L_CURLY
    | .gateParams | .defParams | .defCalParams | .typeListFlavor => pure .R_PAREN
    | .gateQubits => pure .L_CURLY
    | .gateCallQubits => pure .SEMICOLON
    | .arrayLiteral => pure .R_CURLY
    | .defCalQubits => panic "at_list_end_token"  -- `unreachable!()`
  at' listEndToken

/-- params.rs `param_untyped` -/
def paramUntyped (m : Marker) : G Bool := do
  if !(← at' .IDENT) then
    error "Expected parameter name"
    m.abandon
    return false
  bump .IDENT
  let _ ← m.complete .PARAM
  return true

/-- params.rs `param_untyped_or_hardware_qubit` -/
def paramUntypedOrHardwareQubit (m : Marker) : G Bool := do
  if (← at' .IDENT) then
    bump .IDENT
    let _ ← m.complete .PARAM
    return true
  else if (← at' .HARDWAREIDENT) then
    m.abandon
    let _ ← hardwareQubit
    return true
  else
    error "Expected parameter name"
    m.abandon
    return false

/-- node kind with which `_param_list_openqasm` completes the list -/
def DefFlavor.listKind : DefFlavor → SyntaxKind
  | .gateQubits => .PARAM_LIST
  | .defCalQubits => .QUBIT_LIST
  | .gateCallQubits => .QUBIT_LIST
  | .expressionList | .caseValues => .EXPRESSION_LIST
  | .defParams | .defCalParams => .TYPED_PARAM_LIST
  | .gateParams => .PARAM_LIST
  | .typeListFlavor => .TYPE_LIST
  | .arrayLiteral => .ARRAY_LITERAL

/-- `while !p.at(EOF) { p.bump_any(); }` of `entry::top::expr` -/
def bumpUntilEof : Nat → G Unit
  | 0 => fail .fuel
  | fuel+1 => do
    if !(← at' .EOF) then
      bumpAny
      bumpUntilEof fuel

/-! ## the mutually recursive grammar -/

mutual

-- ### grammar.rs

/-- grammar.rs `opt_return_signature` -/
def optReturnSignature (fuel : Nat) : G Bool :=
  match fuel with
  | 0 => fail .fuel
  | fuel+1 => do
    if (← at' .THIN_ARROW) then
      let m ← start
      bump .THIN_ARROW
      if !(← current).isScalarType then
        error "Expected scalar return type after ->"
      if isType (← current) then
        let _ ← typeSpec fuel
      else
        m.abandon
        return false
      let _ ← m.complete .RETURN_SIGNATURE
      return true
    else
      return false
termination_by structural fuel

/-- grammar.rs `delimited` -/
def delimited (fuel : Nat) (bra ket : SyntaxKind) (consumeBraket : Bool) (delim : SyntaxKind)
    (firstSet : TokenSet) (parser : DelimitedParser) : G Unit :=
  match fuel with
  | 0 => fail .fuel
  | fuel+1 => do
    if consumeBraket then
      bump bra
    delimitedLoop fuel ket delim firstSet parser
    if consumeBraket then
      let _ ← expect ket
termination_by structural fuel

/-- the `while !p.at(ket) && !p.at(EOF)` loop of `delimited` -/
def delimitedLoop (fuel : Nat) (ket delim : SyntaxKind) (firstSet : TokenSet)
    (parser : DelimitedParser) : G Unit :=
  match fuel with
  | 0 => fail .fuel
  | fuel+1 => do
    if (← (notM (at' ket) <&&> notM (at' .EOF))) then
      if !(← delimitedParser fuel parser) then
        return
      if !(← at' delim) then
        if (← atTs firstSet) then
          error s!"expected {dbg delim}"
        else
          return
      else
        bump delim
      delimitedLoop fuel ket delim firstSet parser
termination_by structural fuel

/-- dispatcher for the closure argument of `delimited` -/
def delimitedParser (fuel : Nat) (parser : DelimitedParser) : G Bool :=
  match fuel with
  | 0 => fail .fuel
  | fuel+1 =>
    match parser with
    | .exprIsSome => do return (← expr fuel).isSome
termination_by structural fuel

-- ### grammar/items.rs

/-- items.rs `source_file_contents` (the function is its `while` loop) -/
def sourceFileContents (fuel : Nat) (stopOnRCurly : Bool) : G Unit :=
  match fuel with
  | 0 => fail .fuel
  | fuel+1 => do
    if !(← (at' .EOF <||> (at' .R_CURLY <&&> pure stopOnRCurly))) then
      item fuel stopOnRCurly
      sourceFileContents fuel stopOnRCurly
termination_by structural fuel

/-- items.rs `item` -/
def item (fuel : Nat) (stopOnRCurly : Bool) : G Unit :=
  match fuel with
  | 0 => fail .fuel
  | fuel+1 => do
    let m ← start
    match (← optItem fuel m) with
    | .ok () =>
      if (← at' .SEMICOLON) then
        errAndBump "expected statement, found `;`"
      return
    | .error m =>
      let k ← current
      if k == .R_CURLY && !stopOnRCurly then
        m.abandon
        let e ← start
        error "unmatched `}`"
        bump .R_CURLY
        let _ ← e.complete .ERROR
      else if k == .EOF || k == .R_CURLY then
        m.abandon
      else
        m.abandon
        exprBlockStatements fuel
-- (no `termination_by structural`: `item` is called only by `source_file_contents`, so Lean
-- places it in a non-recursive component of the block; it still consumes one unit of fuel)

/-- items.rs `opt_item`; `Err(m)` gives the marker back -/
def optItem (fuel : Nat) (m : Marker) : G (Except Marker Unit) :=
  match fuel with
  | 0 => fail .fuel
  | fuel+1 => do
    let la ← nth 1
    if isClassicalType (← current) && la != .L_PAREN then
      classicalDeclarationStmt fuel m
      return .ok ()
    match (← current) with
    | .QUBIT_KW => qubitDeclarationStmt fuel m
    | .CONST_KW => classicalDeclarationStmt fuel m
    | .GATE_KW => gateDefinition fuel m
    | .BREAK_KW => break_ m
    | .CONTINUE_KW => continue_ m
    | .END_KW => end_ m
    | .IF_KW => ifStmt fuel m
    | .WHILE_KW => whileStmt fuel m
    | .FOR_KW => forStmt fuel m
    | .DEF_KW => defStmt fuel m
    | .DEFCAL_KW => defcal_ fuel m
    | .CAL_KW => cal_ fuel m
    | .DEFCALGRAMMAR_KW => defcalgrammar_ m
    | .EXTERN_KW => externStmt fuel m
    | .RESET_KW => resetStmt fuel m
    | .BARRIER_KW => barrier_ fuel m
    | .O_P_E_N_Q_A_S_M_KW => versionString m
    | .INCLUDE_KW => include' m
    | .SWITCH_KW => switchCaseStmt fuel m
    | .LET_KW => aliasStmt fuel m
    | .DELAY_KW => delayStmt fuel m
    | .INPUT_KW | .OUTPUT_KW => ioDeclarationStmt fuel m
    | _ => return .error m
    return .ok ()
termination_by structural fuel

/-- items.rs `switch_case_stmt` -/
def switchCaseStmt (fuel : Nat) (m : Marker) : G Unit :=
  match fuel with
  | 0 => fail .fuel
  | fuel+1 => do
    if !(← at' .SWITCH_KW) then panic "switch_case_stmt"
    bump .SWITCH_KW
    let _ ← expect .L_PAREN
    let _ ← expr fuel
    let _ ← expect .R_PAREN
    let _ ← expect .L_CURLY
    if (← (notM (at' .CASE_KW) <&&> notM (at' .DEFAULT_KW))) then
      error "expecting `case` or `default` keyword"
    switchCaseLoop fuel
    if (← eat .DEFAULT_KW) then
      tryBlockExpr fuel
    let _ ← expect .R_CURLY
    let _ ← m.complete .SWITCH_CASE_STMT
termination_by structural fuel

/-- the `while p.at(T![case])` loop of `switch_case_stmt` -/
def switchCaseLoop (fuel : Nat) : G Unit :=
  match fuel with
  | 0 => fail .fuel
  | fuel+1 => do
    if (← at' .CASE_KW) then
      let m1 ← start
      bump .CASE_KW
      caseValueList fuel
      tryBlockExpr fuel
      let _ ← m1.complete .CASE_EXPR
      switchCaseLoop fuel
termination_by structural fuel

/-- items.rs `block_or_statement` -/
def blockOrStatement (fuel : Nat) : G Unit :=
  match fuel with
  | 0 => fail .fuel
  | fuel+1 => do
    if (← at' .L_CURLY) then
      let _ ← blockExpr fuel
    else
      stmt fuel
termination_by structural fuel

/-- items.rs `if_stmt` -/
def ifStmt (fuel : Nat) (m : Marker) : G Unit :=
  match fuel with
  | 0 => fail .fuel
  | fuel+1 => do
    if !(← at' .IF_KW) then panic "if_stmt"
    bump .IF_KW
    let _ ← expect .L_PAREN
    let _ ← expr fuel
    let _ ← expect .R_PAREN
    blockOrStatement fuel
    if (← at' .ELSE_KW) then
      bump .ELSE_KW
      if (← at' .IF_KW) then
        let m ← start
        ifStmt fuel m
      else
        blockOrStatement fuel
    let _ ← m.complete .IF_STMT
termination_by structural fuel

/-- items.rs `while_stmt` -/
def whileStmt (fuel : Nat) (m : Marker) : G Unit :=
  match fuel with
  | 0 => fail .fuel
  | fuel+1 => do
    if !(← at' .WHILE_KW) then panic "while_stmt"
    bump .WHILE_KW
    let _ ← expect .L_PAREN
    let _ ← expr fuel
    let _ ← expect .R_PAREN
    blockOrStatement fuel
    let _ ← m.complete .WHILE_STMT
termination_by structural fuel

/-- items.rs `for_stmt` -/
def forStmt (fuel : Nat) (m : Marker) : G Unit :=
  match fuel with
  | 0 => fail .fuel
  | fuel+1 => do
    if !(← at' .FOR_KW) then panic "for_stmt"
    bump .FOR_KW
    let _ ← typeSpec fuel
    name
    let _ ← expect .IN_KW
    let m1 ← start
    if (← at' .L_CURLY) then
      setExpression fuel
    else if (← at' .L_BRACK) then
      let _ ← rangeExpr fuel
    else
      let _ ← expr fuel
    let _ ← m1.complete .FOR_ITERABLE
    blockOrStatement fuel
    let _ ← m.complete .FOR_STMT
termination_by structural fuel

/-- items.rs `qubit_declaration_stmt` -/
def qubitDeclarationStmt (fuel : Nat) (m : Marker) : G Unit :=
  match fuel with
  | 0 => fail .fuel
  | fuel+1 => do
    if !(← at' .QUBIT_KW) then panic "qubit_declaration_stmt"
    let _ ← qubitTypeSpec fuel
    if (← at' .HARDWAREIDENT) then
      let _ ← hardwareQubit
    else
      varName
    let _ ← expect .SEMICOLON
    let _ ← m.complete .QUANTUM_DECLARATION_STATEMENT
termination_by structural fuel

/-- items.rs `reset_stmt` -/
def resetStmt (fuel : Nat) (m : Marker) : G Unit :=
  match fuel with
  | 0 => fail .fuel
  | fuel+1 => do
    bump .RESET_KW
    let k ← current
    if k == .IDENT || k == .HARDWAREIDENT then
      let m1 ← start
      let _ ← argGateCallQubit fuel m1
    else
      error "expecting name of qubit or register to reset"
      m.abandon
      return
    let _ ← expect .SEMICOLON
    let _ ← m.complete .RESET
termination_by structural fuel

/-- items.rs `gate_definition` -/
def gateDefinition (fuel : Nat) (m : Marker) : G Unit :=
  match fuel with
  | 0 => fail .fuel
  | fuel+1 => do
    bump .GATE_KW
    nameR ITEM_RECOVERY_SET
    if (← at' .L_PAREN) then
      paramListGateParams fuel
    paramListGateQubits fuel
    tryBlockExpr fuel
    let _ ← m.complete .GATE
termination_by structural fuel

/-- items.rs `defcal_` -/
def defcal_ (fuel : Nat) (m : Marker) : G Unit :=
  match fuel with
  | 0 => fail .fuel
  | fuel+1 => do
    bump .DEFCAL_KW
    nameR ITEM_RECOVERY_SET
    if (← at' .L_PAREN) then
      paramListDefcalParams fuel
    paramListDefcalQubits fuel
    let _ ← optReturnSignature fuel
    tryBlockExpr fuel
    let _ ← m.complete .DEF_CAL
termination_by structural fuel

/-- items.rs `_returns_bool_classical_declaration_stmt` -/
def returnsBoolClassicalDeclarationStmt (fuel : Nat) (m : Marker) : G Bool :=
  match fuel with
  | 0 => fail .fuel
  | fuel+1 => do
    let _ ← eat .CONST_KW
    let mexpr ← start
    let haveArrayDecl ← at' .ARRAY_KW
    let _ ← typeSpec fuel
    if (← current) == .L_PAREN then
      let _ ← expect .L_PAREN
      let _ ← expr fuel
      let _ ← expect .R_PAREN
      let _ ← mexpr.complete .CAST_EXPRESSION
      if (← at' .SEMICOLON) then
        let _ ← expect .SEMICOLON
        let _ ← m.complete .EXPR_STMT
      else
        m.abandon
      return true
    else
      mexpr.abandon
    varName
    if (← eat .SEMICOLON) then
      let _ ← m.complete .CLASSICAL_DECLARATION_STATEMENT
      return true
    if !(← expect .EQ) then
      m.abandon
      return false
    if (← (pure haveArrayDecl <&&> at' .L_CURLY)) then
      arrayLiteral fuel
    else
      let _ ← expr fuel
    let _ ← expect .SEMICOLON
    let _ ← m.complete .CLASSICAL_DECLARATION_STATEMENT
    return true
termination_by structural fuel

/-- items.rs `classical_declaration_stmt` -/
def classicalDeclarationStmt (fuel : Nat) (m : Marker) : G Unit :=
  match fuel with
  | 0 => fail .fuel
  | fuel+1 => do
    let _ ← returnsBoolClassicalDeclarationStmt fuel m
termination_by structural fuel

/-- items.rs `io_declaration_stmt` -/
def ioDeclarationStmt (fuel : Nat) (m : Marker) : G Unit :=
  match fuel with
  | 0 => fail .fuel
  | fuel+1 => do
    bumpAny
    if !isClassicalType (← current) then
      error "Quantum type found in input/output declaration."
    let _ ← typeSpec fuel
    varName
    let _ ← expect .SEMICOLON
    let _ ← m.complete .I_O_DECLARATION_STATEMENT
termination_by structural fuel

/-- items.rs `def_stmt` -/
def defStmt (fuel : Nat) (m : Marker) : G Unit :=
  match fuel with
  | 0 => fail .fuel
  | fuel+1 => do
    if !(← at' .DEF_KW) then panic "def_stmt"
    bumpAny
    nameR ITEM_RECOVERY_SET
    if (← at' .L_PAREN) then
      paramListDefParams fuel
    else
      error "expected parameters list in subroutine signature"
    let _ ← optReturnSignature fuel
    tryBlockExpr fuel
    let _ ← m.complete .DEF
termination_by structural fuel

/-- items.rs `extern_stmt` -/
def externStmt (fuel : Nat) (m : Marker) : G Unit :=
  match fuel with
  | 0 => fail .fuel
  | fuel+1 => do
    if !(← at' .EXTERN_KW) then panic "extern_stmt"
    bumpAny
    nameR ITEM_RECOVERY_SET
    if (← at' .L_PAREN) then
      scalarTypeList fuel
    if !(← optReturnSignature fuel) then
      error "expected return signature in extern statement"
    let _ ← expect .SEMICOLON
    let _ ← m.complete .EXTERN_STMT
termination_by structural fuel

/-- items.rs `cal_` -/
def cal_ (fuel : Nat) (m : Marker) : G Unit :=
  match fuel with
  | 0 => fail .fuel
  | fuel+1 => do
    bump .CAL_KW
    tryBlockExpr fuel
    let _ ← m.complete .CAL
termination_by structural fuel

/-- items.rs `barrier_` -/
def barrier_ (fuel : Nat) (m : Marker) : G Unit :=
  match fuel with
  | 0 => fail .fuel
  | fuel+1 => do
    bump .BARRIER_KW
    if !(← at' .SEMICOLON) then
      argListGateCallQubits fuel
    let _ ← expect .SEMICOLON
    let _ ← m.complete .BARRIER
termination_by structural fuel

/-- items.rs `delay_stmt` (calls `designator` without establishing its `assert!(p.at('['))`) -/
def delayStmt (fuel : Nat) (m : Marker) : G Unit :=
  match fuel with
  | 0 => fail .fuel
  | fuel+1 => do
    bump .DELAY_KW
    if (← at' .L_BRACK) then
      let _ ← designator fuel
    else
      error "expected designator `[duration]` after `delay`"
    argListGateCallQubits fuel
    let _ ← expect .SEMICOLON
    let _ ← m.complete .DELAY_STMT
termination_by structural fuel

/-- items.rs `alias_stmt` -/
def aliasStmt (fuel : Nat) (m : Marker) : G Unit :=
  match fuel with
  | 0 => fail .fuel
  | fuel+1 => do
    if !(← at' .LET_KW) then panic "alias_stmt"
    bumpAny
    nameR ITEM_RECOVERY_SET
    let _ ← expect .EQ
    let _ ← expr fuel
    let _ ← expect .SEMICOLON
    let _ ← m.complete .ALIAS_DECLARATION_STATEMENT
termination_by structural fuel

-- ### grammar/expressions.rs

/-- expressions.rs `expr` -/
def expr (fuel : Nat) : G (Option CompletedMarker) :=
  match fuel with
  | 0 => fail .fuel
  | fuel+1 => do
    let r : Restrictions := { preferStmt := false }
    return (← exprBp fuel none r 1).map (·.1)
termination_by structural fuel

/-- expressions.rs `range_expr` -/
def rangeExpr (fuel : Nat) : G (Option CompletedMarker) :=
  match fuel with
  | 0 => fail .fuel
  | fuel+1 => do
    let r : Restrictions := { preferStmt := false }
    let m ← start
    if !(← at' .L_BRACK) then panic "range_expr"
    bump .L_BRACK
    let _ ← exprBp fuel none r 1
    if (← at' .COLON) then
      bump .COLON
      let _ ← exprBp fuel none r 1
      if (← at' .COLON) then
        bump .COLON
        let _ ← exprBp fuel none r 1
    else
      error "Expecting colon in range expression."
    let _ ← expect .R_BRACK
    return some (← m.complete .RANGE_EXPR)
termination_by structural fuel

/-- expressions.rs `expr_or_range_expr` -/
def exprOrRangeExpr (fuel : Nat) : G (Option CompletedMarker) :=
  match fuel with
  | 0 => fail .fuel
  | fuel+1 => do
    let r : Restrictions := { preferStmt := false }
    let m ← start
    let expr1 := (← exprBp fuel none r 1).map (·.1)
    if (← at' .COLON) then
      bump .COLON
      let _ ← exprBp fuel none r 1
      if (← at' .COLON) then
        bump .COLON
        let _ ← exprBp fuel none r 1
      return some (← m.complete .RANGE_EXPR)
    else
      m.abandon
      return expr1
termination_by structural fuel

/-- expressions.rs `expr_stmt` -/
def exprStmt (fuel : Nat) (m : Option Marker) : G (Option (CompletedMarker × BlockLike)) :=
  match fuel with
  | 0 => fail .fuel
  | fuel+1 =>
    let r : Restrictions := { preferStmt := true }
    exprBp fuel m r 1
termination_by structural fuel

/-- expressions.rs `stmt` -/
def stmt (fuel : Nat) : G Unit :=
  match fuel with
  | 0 => fail .fuel
  | fuel+1 => do
    if (← eat .SEMICOLON) then
      return
    if (← at' .LET_KW) then
      let m ← start
      letStmt fuel m
      return
    let m ← start
    match (← optItem fuel m) with
    | .ok () => return
    | .error m =>
      if (← at' .PRAGMA) then
        bumpAny
        let _ ← m.complete .PRAGMA_STATEMENT
        return
      if (← at' .ANNOTATION) then
        bumpAny
        let _ ← m.complete .ANNOTATION_STATEMENT
        return
      if (← at' .QREG_KW) then
        return (← qOrCRegDeclaration fuel m)
      if (← at' .CREG_KW) then
        return (← qOrCRegDeclaration fuel m)
      if (← at' .VERSION_STRING) then
        bumpAny
        if !(← eat .SEMICOLON) then
          error "Expecting semicolon terminating version declaration statement"
        let _ ← m.complete .VERSION_STRING
        return
      -- `!(is_classical_type && (nth(1) == '(' || nth(1) == '[')) && !at_ts(EXPR_FIRST)`
      let castStart ← (pure (isClassicalType (← current)) <&&>
        ((do return (← nth 1) == .L_PAREN) <||> (do return (← nth 1) == .L_BRACK)))
      if (← (pure (!castStart) <&&> notM (atTs EXPR_FIRST))) then
        errAndBump "stmt: expected expression, type declaration, or let statement"
        m.abandon
        return
      match (← exprStmt fuel (some m)) with
      | some (cm, blocklike) =>
        if cm.kind == .ASSIGNMENT_STMT then
          return
        if !(← at' .R_CURLY) then
          let m ← cm.precede
          if blocklike.isBlock then
            let _ ← eat .SEMICOLON
          else if !(← eat .SEMICOLON) then
            error "Expecting semicolon terminating statement"
          let _ ← m.complete .EXPR_STMT
      | none => return
termination_by structural fuel

/-- expressions.rs `stmt::let_stmt` (nested fn) -/
def letStmt (fuel : Nat) (m : Marker) : G Unit :=
  match fuel with
  | 0 => fail .fuel
  | fuel+1 => do
    bump .LET_KW
    let _ ← expect .IDENT
    let _ ← expect .EQ
    let _ ← expr fuel
    let _ ← expect .SEMICOLON
    let _ ← m.complete .LET_STMT
termination_by structural fuel

/-- expressions.rs `q_or_c_reg_param` -/
def qOrCRegParam (fuel : Nat) : G Unit :=
  match fuel with
  | 0 => fail .fuel
  | fuel+1 => do
    let m ← start
    bumpAny
    if !(← at' .IDENT) then
      error "Expected qubit register name"
      m.abandon
      return
    bumpAny
    if (← (at' .L_BRACK <&&> notM (at' .EOF))) then
      indexOperator fuel
    else
      error "Expected index operator"
      m.abandon
      return
    let _ ← m.complete .OLD_TYPED_PARAM
termination_by structural fuel

/-- expressions.rs `q_or_c_reg_declaration` -/
def qOrCRegDeclaration (fuel : Nat) (m : Marker) : G Unit :=
  match fuel with
  | 0 => fail .fuel
  | fuel+1 => do
    qOrCRegParam fuel
    let _ ← expect .SEMICOLON
    let _ ← m.complete .OLD_STYLE_DECLARATION_STATEMENT
termination_by structural fuel

/-- expressions.rs `expr_block_statements` (the function is its `while` loop) -/
def exprBlockStatements (fuel : Nat) : G Unit :=
  match fuel with
  | 0 => fail .fuel
  | fuel+1 => do
    if (← (notM (at' .EOF) <&&> notM (at' .R_CURLY))) then
      stmt fuel
      exprBlockStatements fuel
termination_by structural fuel

/-- expressions.rs `expr_bp` up to its `loop` -/
def exprBp (fuel : Nat) (m : Option Marker) (r : Restrictions) (bp : Nat) :
    G (Option (CompletedMarker × BlockLike)) :=
  match fuel with
  | 0 => fail .fuel
  | fuel+1 => do
    let m ← match m with
      | some m => pure m
      | none => start
    -- `!at_ts(EXPR_FIRST) && !(is_classical_type && matches!(nth(1), '(' | '['))`
    if (← (notM (atTs EXPR_FIRST) <&&>
        notM (pure (isClassicalType (← current)) <&&>
          (do let la ← nth 1; return la == .L_PAREN || la == .L_BRACK)))) then
      errRecover "expr_bp: expected expression" EXPR_RECOVERY_SET
      m.abandon
      return none
    match (← lhs fuel r) with
    | some (lhs, blocklike) =>
      let lhs ← lhs.extendTo m
      if r.preferStmt && blocklike.isBlock then
        return some (lhs, .block)
      exprBpLoop fuel r bp lhs
    | none =>
      m.abandon
      return none
termination_by structural fuel

/-- the `loop` of `expr_bp` -/
def exprBpLoop (fuel : Nat) (r : Restrictions) (bp : Nat) (lhs : CompletedMarker) :
    G (Option (CompletedMarker × BlockLike)) :=
  match fuel with
  | 0 => fail .fuel
  | fuel+1 => do
    let (opBp, op, associativity) ← currentOp
    if opBp < bp then
      return some (lhs, .notBlock)
    let lhsKind := lhs.kind
    let m ← lhs.precede
    bump op
    -- u8 arithmetic `op_bp + 1`: binding powers of the table are ≤ 12, no overflow
    let opBp := match associativity with
      | .left => opBp + 1
      | .right => opBp
    let _ ← exprBp fuel none { preferStmt := false } opBp
    let lhs ←
      if op == .EQ then do
        if !r.preferStmt then
          error "Assignment statement found where expression expected"
        if lhsKind == .IDENTIFIER || lhsKind == .INDEXED_IDENTIFIER then
          if r.preferStmt then
            let _ ← expect .SEMICOLON
          m.complete .ASSIGNMENT_STMT
        else
          error "Illegal LHS in assignment"
          m.complete .BIN_EXPR
      else
        m.complete .BIN_EXPR
    exprBpLoop fuel r bp lhs
termination_by structural fuel

/-- expressions.rs `lhs` -/
def lhs (fuel : Nat) (r : Restrictions) : G (Option (CompletedMarker × BlockLike)) :=
  match fuel with
  | 0 => fail .fuel
  | fuel+1 => do
    let k ← current
    if k == .TILDE || k == .BANG || k == .MINUS then
      let m ← start
      bumpAny
      -- binding power 255 (`u8::MAX`): every operator has `op_bp < 255`, so the loop of the
      -- callee exits immediately and `op_bp + 1` is never computed from it
      let _ ← exprBp fuel none r 255
      let cm ← m.complete .PREFIX_EXPR
      return some (cm, .notBlock)
    else
      match (← atomExpr fuel r) with
      | none => return none
      | some (lhs, blocklike) =>
        let (cm, blockLike) ←
          postfixExpr fuel lhs blocklike (!(r.preferStmt && blocklike.isBlock))
        return some (cm, blockLike)
termination_by structural fuel

/-- expressions.rs `postfix_expr` (the function is its `loop`) -/
def postfixExpr (fuel : Nat) (lhs : CompletedMarker) (blockLike : BlockLike)
    (allowCalls : Bool) : G (CompletedMarker × BlockLike) :=
  match fuel with
  | 0 => fail .fuel
  | fuel+1 => do
    let k ← current
    if k == .L_PAREN && allowCalls then
      let lhs ← callExpr fuel lhs
      postfixExpr fuel lhs .notBlock true
    else if k == .L_BRACK && allowCalls then
      let lhs ← match lhs.kind with
        | .IDENTIFIER => indexedIdentifier fuel lhs
        | .LITERAL | .TIMING_LITERAL | .HARDWARE_QUBIT => do
          error "Indexing into literal is not allowed."
          indexExpr fuel lhs
        | _ => indexExpr fuel lhs
      postfixExpr fuel lhs .notBlock true
    else
      return (lhs, blockLike)
termination_by structural fuel

/-- expressions.rs `call_expr` -/
def callExpr (fuel : Nat) (lhs : CompletedMarker) : G CompletedMarker :=
  match fuel with
  | 0 => fail .fuel
  | fuel+1 => do
    if !(← at' .L_PAREN) then panic "call_expr"
    let m ← lhs.precede
    callArgList fuel
    let k ← current
    if k == .IDENT || k == .HARDWAREIDENT then
      argListGateCallQubits fuel
      return (← m.complete .GATE_CALL_EXPR)
    m.complete .CALL_EXPR
termination_by structural fuel

/-- expressions.rs `param_type_spec` -/
def paramTypeSpec (fuel : Nat) : G Bool :=
  match fuel with
  | 0 => fail .fuel
  | fuel+1 => do
    if (← (at' .ARRAY_KW <||> at' .MUTABLE_KW <||> at' .READONLY_KW)) then
      let wantArrayRefType := true
      return (← arrayTypeSpec fuel wantArrayRefType)
    nonArrayTypeSpec fuel
termination_by structural fuel

/-- expressions.rs `type_spec` -/
def typeSpec (fuel : Nat) : G Bool :=
  match fuel with
  | 0 => fail .fuel
  | fuel+1 => do
    if (← at' .ARRAY_KW) then
      let wantArrayRefType := false
      return (← arrayTypeSpec fuel wantArrayRefType)
    nonArrayTypeSpec fuel
termination_by structural fuel

/-- expressions.rs `array_type_spec` -/
def arrayTypeSpec (fuel : Nat) (wantArrayRefType : Bool) : G Bool :=
  match fuel with
  | 0 => fail .fuel
  | fuel+1 => do
    let m ← start
    if wantArrayRefType then
      if (← at' .ARRAY_KW) then
        error "Expecting modifier `mutable` or `immutable`"
      else
        let _ ← eat .MUTABLE_KW
        let _ ← eat .READONLY_KW
    else
      if !(← at' .ARRAY_KW) then panic "array_type_spec"
    let _ ← expect .ARRAY_KW
    let _ ← expect .L_BRACK
    let k ← current
    if !(k == .INT_TY || k == .UINT_TY || k == .FLOAT_TY || k == .COMPLEX_TY || k == .ANGLE_TY
          || k == .BOOL_TY || k == .DURATION_TY) then
      error "Illegal base type for array."
    let _ ← typeSpec fuel
    let _ ← expect .COMMA
    if (← at' .DIM_KW) then
      if !wantArrayRefType then
        error "Unexpected dim expression outside of subroutine declaration"
      let m ← start
      bumpAny
      if (← eat .EQ) then
        let _ ← expr fuel
      else
        error "Expecting '=' after #dim"
      if (← at' .R_BRACK) then
        bumpAny
      else
        error "Expecting ']' after #dim specification"
      let _ ← m.complete .DIM_EXPR
    else
      arrayTypeDimsLoop fuel
    let _ ← m.complete .ARRAY_TYPE
    return true
termination_by structural fuel

/-- the dimension `loop` of `array_type_spec` -/
def arrayTypeDimsLoop (fuel : Nat) : G Unit :=
  match fuel with
  | 0 => fail .fuel
  | fuel+1 => do
    let _ ← expr fuel
    if (← at' .R_BRACK) then
      bumpAny
      return
    if !(← expect .COMMA) then
      return
    arrayTypeDimsLoop fuel
termination_by structural fuel

/-- expressions.rs `non_array_type_spec` -/
def nonArrayTypeSpec (fuel : Nat) : G Bool :=
  match fuel with
  | 0 => fail .fuel
  | fuel+1 => do
    if (← at' .COMPLEX_TY) then
      complexTypeSpec fuel
      return true
    let m ← start
    let theTypeName ← current
    typeName
    if (← at' .L_BRACK) then
      if !typeCanHaveDesignator theTypeName then
        error "Type cannot take designator"
      let _ ← designator fuel
    let _ ← m.complete .SCALAR_TYPE
    return true
termination_by structural fuel

/-- expressions.rs `complex_type_spec` -/
def complexTypeSpec (fuel : Nat) : G Unit :=
  match fuel with
  | 0 => fail .fuel
  | fuel+1 => do
    if !(← at' .COMPLEX_TY) then panic "complex_type_spec"
    let m ← start
    bumpAny
    if (← at' .L_BRACK) then
      bump .L_BRACK
      if !(← at' .FLOAT_TY) then
        error "Expecting `float` in complex designator`"
      let _ ← nonArrayTypeSpec fuel
      let _ ← expect .R_BRACK
    let _ ← m.complete .SCALAR_TYPE
termination_by structural fuel

/-- expressions.rs `qubit_type_spec` -/
def qubitTypeSpec (fuel : Nat) : G Bool :=
  match fuel with
  | 0 => fail .fuel
  | fuel+1 => do
    if !(← at' .QUBIT_KW) then panic "qubit_type_spec"
    let m ← start
    typeName
    if (← at' .L_BRACK) then
      let _ ← designator fuel
      if (← at' .HARDWAREIDENT) then
        error "Found designator in hardware qubit declaration."
    let _ ← m.complete .QUBIT_TYPE
    return true
termination_by structural fuel

/-- expressions.rs `designator` -/
def designator (fuel : Nat) : G Bool :=
  match fuel with
  | 0 => fail .fuel
  | fuel+1 => do
    if !(← at' .L_BRACK) then panic "designator"
    let m ← start
    bump .L_BRACK
    let k ← current
    if (← (pure (k == .FLOAT_NUMBER || k == .BYTE || k == .CHAR || k == .STRING
              || k == .BIT_STRING) <&&> (do return (← nth 1) == .R_BRACK))) then
      error "Literal type designator must be an integer."
    let _ ← expr fuel
    let _ ← expect .R_BRACK
    let _ ← m.complete .DESIGNATOR
    return true
termination_by structural fuel

/-- expressions.rs `index_expr` -/
def indexExpr (fuel : Nat) (lhs : CompletedMarker) : G CompletedMarker :=
  match fuel with
  | 0 => fail .fuel
  | fuel+1 => do
    if !(← at' .L_BRACK) then panic "index_expr"
    let m ← lhs.precede
    indexOperator fuel
    m.complete .INDEX_EXPR
termination_by structural fuel

/-- expressions.rs `indexed_identifier` -/
def indexedIdentifier (fuel : Nat) (lhs : CompletedMarker) : G CompletedMarker :=
  match fuel with
  | 0 => fail .fuel
  | fuel+1 => do
    if !(← at' .L_BRACK) then panic "indexed_identifier"
    let m ← lhs.precede
    indexedIdentifierLoop fuel
    m.complete .INDEXED_IDENTIFIER
termination_by structural fuel

/-- the `while p.at('[') && !p.at(EOF)` loop of `indexed_identifier` -/
def indexedIdentifierLoop (fuel : Nat) : G Unit :=
  match fuel with
  | 0 => fail .fuel
  | fuel+1 => do
    if (← (at' .L_BRACK <&&> notM (at' .EOF))) then
      indexOperator fuel
      indexedIdentifierLoop fuel
termination_by structural fuel

/-- expressions.rs `set_expression` -/
def setExpression (fuel : Nat) : G Unit :=
  match fuel with
  | 0 => fail .fuel
  | fuel+1 => do
    if !(← at' .L_CURLY) then panic "set_expression"
    let m ← start
    bump .L_CURLY
    expressionList fuel
    let _ ← expect .R_CURLY
    let _ ← m.complete .SET_EXPRESSION
termination_by structural fuel

/-- expressions.rs `index_operator` -/
def indexOperator (fuel : Nat) : G Unit :=
  match fuel with
  | 0 => fail .fuel
  | fuel+1 => do
    if !(← at' .L_BRACK) then panic "index_operator"
    let m ← start
    let _ ← expect .L_BRACK
    if (← at' .L_CURLY) then
      setExpression fuel
    else
      expressionList fuel
    let _ ← expect .R_BRACK
    let _ ← m.complete .INDEX_OPERATOR
termination_by structural fuel

/-- expressions.rs `call_arg_list` -/
def callArgList (fuel : Nat) : G Unit :=
  match fuel with
  | 0 => fail .fuel
  | fuel+1 => do
    let bra : SyntaxKind := .L_PAREN
    let ket : SyntaxKind := .R_PAREN
    if !(← at' bra) then panic "call_arg_list"
    let m ← start
    let consumeBraket := false
    let m1 ← start
    bump bra
    delimited fuel bra ket consumeBraket .COMMA EXPR_FIRST .exprIsSome
    let _ ← expect ket
    let _ ← m1.complete .EXPRESSION_LIST
    let _ ← m.complete .ARG_LIST
termination_by structural fuel

-- ### grammar/expressions/atom.rs

/-- atom.rs `atom_expr` -/
def atomExpr (fuel : Nat) (_r : Restrictions) : G (Option (CompletedMarker × BlockLike)) :=
  match fuel with
  | 0 => fail .fuel
  | fuel+1 => do
    if let some m ← literal then
      return some (m, .notBlock)
    let la ← nth 1
    if isClassicalType (← current) then
      let m ← castExpr fuel
      return some (m, .notBlock)
    let done ← match (← current) with
      | .HARDWAREIDENT => hardwareQubit
      | .L_PAREN => tupleExpr fuel
      | .L_BRACK => arrayExpr fuel
      | .BOX_KW => boxExpr fuel none
      | .MEASURE_KW => measureExpression fuel
      | .RETURN_KW => returnExpr fuel
      | .L_CURLY => blockExpr fuel
      | .INV_KW | .POW_KW | .CTRL_KW | .NEGCTRL_KW => modifiedGateCallExpr fuel
      | .GPHASE_KW => gphaseCallExpr fuel
      | .IDENT =>
        if la == .IDENT || la == .HARDWAREIDENT then gateCallExpr fuel
        else identifier
      | _ => do
        errAndBump "atom_expr: expected expression"
        return none
    let blocklike : BlockLike :=
      if BlockLike.isBlocklike done.kind then .block else .notBlock
    return some (done, blocklike)
termination_by structural fuel

/-- atom.rs `cast_expr` -/
def castExpr (fuel : Nat) : G CompletedMarker :=
  match fuel with
  | 0 => fail .fuel
  | fuel+1 => do
    let m ← start
    let _ ← typeSpec fuel
    let _ ← expect .L_PAREN
    let _ ← expr fuel
    let _ ← expect .R_PAREN
    m.complete .CAST_EXPRESSION
termination_by structural fuel

/-- atom.rs `gphase_call_expr` -/
def gphaseCallExpr (fuel : Nat) : G CompletedMarker :=
  match fuel with
  | 0 => fail .fuel
  | fuel+1 => do
    if !(← at' .GPHASE_KW) then panic "gphase_call_expr"
    let m ← start
    bump .GPHASE_KW
    let _ ← expr fuel
    m.complete .G_PHASE_CALL_EXPR
termination_by structural fuel

/-- atom.rs `modified_gate_call_expr` -/
def modifiedGateCallExpr (fuel : Nat) : G CompletedMarker :=
  match fuel with
  | 0 => fail .fuel
  | fuel+1 => do
    let m ← start
    modifiedGateCallExprLoop fuel
    if (← at' .GPHASE_KW) then
      let _ ← gphaseCallExpr fuel
    else
      let _ ← gateCallExpr fuel
    m.complete .MODIFIED_GATE_CALL_EXPR
termination_by structural fuel

/-- the modifier `loop` of `modified_gate_call_expr` -/
def modifiedGateCallExprLoop (fuel : Nat) : G Unit :=
  match fuel with
  | 0 => fail .fuel
  | fuel+1 => do
    match (← current) with
    | .INV_KW =>
      let m1 ← start
      bump .INV_KW
      if (← at' .AT) then
        bump .AT
      else if (← at' .L_PAREN) then
        error "Modifier `inv` accepts no parameter. Expecting `@`"
      else
        error "Expecting `@`"
      let _ ← m1.complete .INV_MODIFIER
    | .POW_KW =>
      let m1 ← start
      bump .POW_KW
      if (← at' .L_PAREN) then
        let m2 ← start
        let _ ← expect .L_PAREN
        let _ ← expr fuel
        let _ ← expect .R_PAREN
        let _ ← m2.complete .PAREN_EXPR
      else
        error "expecting argument to pow gate modifier"
      let _ ← expect .AT
      let _ ← m1.complete .POW_MODIFIER
    | .CTRL_KW =>
      let m1 ← start
      bump .CTRL_KW
      if (← at' .L_PAREN) then
        let m2 ← start
        let _ ← expect .L_PAREN
        let _ ← expr fuel
        let _ ← expect .R_PAREN
        let _ ← m2.complete .PAREN_EXPR
      let _ ← expect .AT
      let _ ← m1.complete .CTRL_MODIFIER
    | .NEGCTRL_KW =>
      let m1 ← start
      bump .NEGCTRL_KW
      if (← at' .L_PAREN) then
        let m2 ← start
        let _ ← expect .L_PAREN
        let _ ← expr fuel
        let _ ← expect .R_PAREN
        let _ ← m2.complete .PAREN_EXPR
      let _ ← expect .AT
      let _ ← m1.complete .NEG_CTRL_MODIFIER
    | _ => return
    modifiedGateCallExprLoop fuel
termination_by structural fuel

/-- atom.rs `gate_call_expr` -/
def gateCallExpr (fuel : Nat) : G CompletedMarker :=
  match fuel with
  | 0 => fail .fuel
  | fuel+1 => do
    let m ← start
    let _ ← identifier
    if (← at' .L_PAREN) then
      callArgList fuel
    argListGateCallQubits fuel
    m.complete .GATE_CALL_EXPR
termination_by structural fuel

/-- atom.rs `measure_expression` -/
def measureExpression (fuel : Nat) : G CompletedMarker :=
  match fuel with
  | 0 => fail .fuel
  | fuel+1 => do
    let m ← start
    bump .MEASURE_KW
    let k ← current
    if k == .IDENT || k == .HARDWAREIDENT then
      let m1 ← start
      let _ ← argGateCallQubit fuel m1
    else
      error "expecting qubit(s) to measure"
    m.complete .MEASURE_EXPRESSION
termination_by structural fuel

/-- atom.rs `tuple_expr` -/
def tupleExpr (fuel : Nat) : G CompletedMarker :=
  match fuel with
  | 0 => fail .fuel
  | fuel+1 => do
    if !(← at' .L_PAREN) then panic "tuple_expr"
    let m ← start
    let _ ← expect .L_PAREN
    let sawComma0 ←
      if (← eat .COMMA) then do
        error "expected expression, found comma instead"
        pure true
      else pure false
    let (sawComma, sawExpr) ← tupleExprLoop fuel sawComma0 false
    let _ ← expect .R_PAREN
    m.complete (if sawExpr && !sawComma then .PAREN_EXPR else .TUPLE_EXPR)
termination_by structural fuel

/-- the `while !p.at(EOF) && !p.at(')')` loop of `tuple_expr`; returns
`(saw_comma, saw_expr)` -/
def tupleExprLoop (fuel : Nat) (sawComma sawExpr : Bool) : G (Bool × Bool) :=
  match fuel with
  | 0 => fail .fuel
  | fuel+1 => do
    if (← (notM (at' .EOF) <&&> notM (at' .R_PAREN))) then
      if (← expr fuel).isNone then
        return (sawComma, true)
      if !(← at' .R_PAREN) then
        let _ ← expect .COMMA
        tupleExprLoop fuel true true
      else
        tupleExprLoop fuel sawComma true
    else
      return (sawComma, sawExpr)
termination_by structural fuel

/-- atom.rs `array_expr` -/
def arrayExpr (fuel : Nat) : G CompletedMarker :=
  match fuel with
  | 0 => fail .fuel
  | fuel+1 => do
    if !(← at' .L_BRACK) then panic "array_expr"
    let m ← start
    bump .L_BRACK
    arrayExprLoop fuel 0 false
    let _ ← expect .R_BRACK
    m.complete .ARRAY_EXPR
termination_by structural fuel

/-- the `while !p.at(EOF) && !p.at(']')` loop of `array_expr`
(`n_exprs: u32` counts iterations, each of which consumes a token or exits: no overflow) -/
def arrayExprLoop (fuel : Nat) (nExprs : Nat) (hasSemi : Bool) : G Unit :=
  match fuel with
  | 0 => fail .fuel
  | fuel+1 => do
    if (← (notM (at' .EOF) <&&> notM (at' .R_BRACK))) then
      let nExprs := nExprs + 1
      if (← expr fuel).isNone then
        return
      -- `if n_exprs == 1 && p.eat(T![;]) { has_semi = true; continue; }`
      if (← (pure (nExprs == 1) <&&> eat .SEMICOLON)) then
        return (← arrayExprLoop fuel nExprs true)
      -- `if has_semi || !p.at(T![']']) && !p.expect(T![,]) { break; }`
      if (← (pure hasSemi <||> (notM (at' .R_BRACK) <&&> notM (expect .COMMA)))) then
        return
      arrayExprLoop fuel nExprs hasSemi
termination_by structural fuel

/-- atom.rs `try_block_expr` -/
def tryBlockExpr (fuel : Nat) : G Unit :=
  match fuel with
  | 0 => fail .fuel
  | fuel+1 => do
    if !(← at' .L_CURLY) then
      error "expected a block"
      return
    let _ ← blockExpr fuel
termination_by structural fuel

/-- atom.rs `block_expr` -/
def blockExpr (fuel : Nat) : G CompletedMarker :=
  match fuel with
  | 0 => fail .fuel
  | fuel+1 => do
    if !(← at' .L_CURLY) then panic "block_expr"
    let m ← start
    bump .L_CURLY
    exprBlockStatements fuel
    let _ ← expect .R_CURLY
    m.complete .BLOCK_EXPR
termination_by structural fuel

/-- atom.rs `return_expr` -/
def returnExpr (fuel : Nat) : G CompletedMarker :=
  match fuel with
  | 0 => fail .fuel
  | fuel+1 => do
    if !(← at' .RETURN_KW) then panic "return_expr"
    let m ← start
    bumpAny
    if (← atTs EXPR_FIRST) then
      let _ ← expr fuel
    m.complete .RETURN_EXPR
termination_by structural fuel

/-- atom.rs `box_expr` -/
def boxExpr (fuel : Nat) (m : Option Marker) : G CompletedMarker :=
  match fuel with
  | 0 => fail .fuel
  | fuel+1 => do
    if !(← at' .BOX_KW) then panic "box_expr"
    let m ← match m with
      | some m => pure m
      | none => start
    bump .BOX_KW
    if (← atTs EXPR_FIRST) then
      let _ ← expr fuel
    m.complete .BOX_EXPR
termination_by structural fuel

-- ### grammar/params.rs

/-- params.rs `param_list_gate_params` -/
def paramListGateParams (fuel : Nat) : G Unit :=
  match fuel with
  | 0 => fail .fuel
  | fuel+1 => paramListOpenqasm fuel .gateParams
termination_by structural fuel

/-- params.rs `param_list_gate_qubits` -/
def paramListGateQubits (fuel : Nat) : G Unit :=
  match fuel with
  | 0 => fail .fuel
  | fuel+1 => paramListOpenqasm fuel .gateQubits
termination_by structural fuel

/-- params.rs `arg_list_gate_call_qubits` -/
def argListGateCallQubits (fuel : Nat) : G Unit :=
  match fuel with
  | 0 => fail .fuel
  | fuel+1 => paramListOpenqasm fuel .gateCallQubits
termination_by structural fuel

/-- params.rs `param_list_def_params` -/
def paramListDefParams (fuel : Nat) : G Unit :=
  match fuel with
  | 0 => fail .fuel
  | fuel+1 => paramListOpenqasm fuel .defParams
termination_by structural fuel

/-- params.rs `scalar_type_list` -/
def scalarTypeList (fuel : Nat) : G Unit :=
  match fuel with
  | 0 => fail .fuel
  | fuel+1 => paramListOpenqasm fuel .typeListFlavor
termination_by structural fuel

/-- params.rs `param_list_defcal_params` -/
def paramListDefcalParams (fuel : Nat) : G Unit :=
  match fuel with
  | 0 => fail .fuel
  | fuel+1 => paramListOpenqasm fuel .defCalParams
termination_by structural fuel

/-- params.rs `param_list_defcal_qubits` -/
def paramListDefcalQubits (fuel : Nat) : G Unit :=
  match fuel with
  | 0 => fail .fuel
  | fuel+1 => paramListOpenqasm fuel .defCalQubits
termination_by structural fuel

/-- params.rs `expression_list` -/
def expressionList (fuel : Nat) : G Unit :=
  match fuel with
  | 0 => fail .fuel
  | fuel+1 => paramListOpenqasm fuel .expressionList
termination_by structural fuel

/-- params.rs `case_value_list` -/
def caseValueList (fuel : Nat) : G Unit :=
  match fuel with
  | 0 => fail .fuel
  | fuel+1 => paramListOpenqasm fuel .caseValues
termination_by structural fuel

/-- params.rs `array_literal` -/
def arrayLiteral (fuel : Nat) : G Unit :=
  match fuel with
  | 0 => fail .fuel
  | fuel+1 => paramListOpenqasm fuel .arrayLiteral
termination_by structural fuel

/-- params.rs `_param_list_openqasm` -/
def paramListOpenqasm (fuel : Nat) (flavor : DefFlavor) : G Unit :=
  match fuel with
  | 0 => fail .fuel
  | fuel+1 => do
    let listMarker ← start
    let needParens := flavor == .gateParams || flavor == .defParams || flavor == .defCalParams
      || flavor == .typeListFlavor
    let needCurlies := flavor == .arrayLiteral
    if needParens then
      let _ ← expect .L_PAREN
    else if needCurlies then
      let _ ← expect .L_CURLY
    -- `num_params: usize` counts completed iterations
    let numParams ← paramListOpenqasmLoop fuel flavor 0
    if numParams < 1 && (flavor == .gateParams || flavor == .expressionList
        || flavor == .caseValues) then
      error "expected one or more parameters"
    if needParens then
      let _ ← expect .R_PAREN
    else if flavor == .arrayLiteral then
      let _ ← expect .R_CURLY
    let _ ← listMarker.complete flavor.listKind
termination_by structural fuel

/-- the `while !p.at(EOF) && !at_list_end_token(p, flavor)` loop of `_param_list_openqasm`;
returns `num_params` -/
def paramListOpenqasmLoop (fuel : Nat) (flavor : DefFlavor) (numParams : Nat) : G Nat :=
  match fuel with
  | 0 => fail .fuel
  | fuel+1 => do
    if (← (notM (at' .EOF) <&&> notM (atListEndToken flavor))) then
      let m ← start
      let innerArrayLiteral ← at' .L_CURLY
      if (← (pure (flavor == .defParams) <&&> (at' .MUTABLE_KW <||> at' .READONLY_KW))) then
        pure ()
      else if !(← (pure (isType (← current)) <||> atTs PARAM_FIRST <||> pure innerArrayLiteral
                  <||> pure (isCregOrQreg (← current)))) then
        error "expected value parameter"
        m.abandon
        return numParams
      let foundParam ← paramListItem fuel flavor m innerArrayLiteral
      if !foundParam then
        return numParams
      let numParams := numParams + 1
      if (← atListEndToken flavor) then
        return numParams
      if !(← at' .COMMA) then
        if (← atTs PARAM_FIRST) then
          error "Expected `,`"
        else
          return numParams
      else
        bump .COMMA
      paramListOpenqasmLoop fuel flavor numParams
    else
      return numParams
termination_by structural fuel

/-- the `match flavor` item dispatch inside the loop of `_param_list_openqasm` -/
def paramListItem (fuel : Nat) (flavor : DefFlavor) (m : Marker) (innerArrayLiteral : Bool) :
    G Bool :=
  match fuel with
  | 0 => fail .fuel
  | fuel+1 => do
    match flavor with
    | .expressionList | .caseValues =>
      m.abandon
      let _ ← exprOrRangeExpr fuel
      return true
    | .gateCallQubits => argGateCallQubit fuel m
    | .typeListFlavor => scalarType fuel m
    | .defCalParams => paramTyped fuel m
    | .defParams => paramTyped fuel m
    | .gateParams | .gateQubits => paramUntyped m
    | .defCalQubits => paramUntypedOrHardwareQubit m
    | .arrayLiteral =>
      if innerArrayLiteral then
        m.abandon
        arrayLiteral fuel
        return true
      else
        m.abandon
        let _ ← expr fuel
        return true
termination_by structural fuel

/-- params.rs `param_typed` -/
def paramTyped (fuel : Nat) (m : Marker) : G Bool :=
  match fuel with
  | 0 => fail .fuel
  | fuel+1 => do
    if (← (at' .CREG_KW <||> at' .QREG_KW)) then
      m.abandon
      qOrCRegParam fuel
      return true
    -- `false` = the current token starts neither the type nor the name: nothing below consumes a token
    let progress ← (pure (isType (← current)) <||> at' .MUTABLE_KW <||> at' .READONLY_KW <||> at' .L_BRACK
                    <||> at' .IDENT)
    let _ ← paramTypeSpec fuel
    varName
    let _ ← m.complete .TYPED_PARAM
    return progress
termination_by structural fuel

/-- params.rs `scalar_type` -/
def scalarType (fuel : Nat) (m : Marker) : G Bool :=
  match fuel with
  | 0 => fail .fuel
  | fuel+1 => do
    let progress ← (pure (isType (← current)) <||> at' .L_BRACK)
    let _ ← typeSpec fuel
    let _ ← m.complete .SCALAR_TYPE
    return progress
termination_by structural fuel

/-- params.rs `arg_gate_call_qubit` -/
def argGateCallQubit (fuel : Nat) (m : Marker) : G Bool :=
  match fuel with
  | 0 => fail .fuel
  | fuel+1 => do
    if (← at' .HARDWAREIDENT) then
      bump .HARDWAREIDENT
      let _ ← m.complete .HARDWARE_QUBIT
      return true
    if !(← at' .IDENT) then
      error "Expected name in qubit argument"
      m.abandon
      return false
    bump .IDENT
    let mcomp ← m.complete .IDENTIFIER
    if (← at' .L_BRACK) then
      let _ ← indexedIdentifier fuel mcomp
      return true
    return true
termination_by structural fuel

end

/-! ## entry points (grammar.rs `entry::top`) -/

/-- `grammar::entry::top::source_file` -/
def sourceFile (fuel : Nat) : G Unit := do
  let m ← start
  sourceFileContents fuel false
  let _ ← m.complete .SOURCE_FILE

/-- `grammar::entry::top::expr` -/
def entryExpr (fuel : Nat) : G Unit := do
  let m ← start
  let _ ← expr fuel
  if (← at' .EOF) then
    m.abandon
    return
  bumpUntilEof fuel
  let _ ← m.complete .ERROR

/-- Run `source_file` on an `Input` given as kinds and joint bits.  Returns the final event list
and the final `pos`.  A marker that is neither completed nor abandoned (`live ≠ 0`) is the
`DropBomb` panic of the Rust `Marker`. -/
def parseWith (entry : G Unit) (kinds : Array SyntaxKind) (joint : Array Bool)
    (noProgressLimit : Nat := 0) : Except Outcome (Array Ev × Nat) :=
  match entry.run { kinds := kinds, joint := joint, noProgressLimit := noProgressLimit } with
  | .ok (_, s) =>
    if s.live != 0 then .error (.panic "Marker dropped (DropBomb)")
    else .ok (s.events, s.pos)
  | .error e => .error e

def parseSourceFile (fuel : Nat) (kinds : Array SyntaxKind) (joint : Array Bool)
    (noProgressLimit : Nat := 0) : Except Outcome (Array Ev × Nat) :=
  parseWith (sourceFile fuel) kinds joint noProgressLimit

def parseExpr (fuel : Nat) (kinds : Array SyntaxKind) (joint : Array Bool)
    (noProgressLimit : Nat := 0) : Except Outcome (Array Ev × Nat) :=
  parseWith (entryExpr fuel) kinds joint noProgressLimit

/-- Fuel that is enough for every terminating parse of `nTokens` tokens.  Fuel is passed *down*
(not threaded), so what is needed is the maximum over call stacks of depth + loop iterations on
the stack.  Measured on the differential inputs (≈ 2.5 million token sequences, plus nests and
chains of up to 3000 tokens): the minimal sufficient fuel is at most `7 * nTokens + 10` (worst
case: nested `{`); the only loops that iterate without consuming a token (the item loop of
`_param_list_openqasm` for the flavours `DefParams`, `DefCalParams`, `TypeListFlavor`) push ≥ 6
events per iteration and are cut by the no-progress hook (2000 events) after < 350 iterations. -/
def defaultFuel (nTokens : Nat) : Nat := 64 * nTokens + 4096

end Oq3.Grammar
