/- Driver mode `parse`: one case line = space-separated SyntaxKind names, `+` suffix = joint bit.
Prints the canonical form I3 of DESIGN.md §2.1 for the grammar model. -/
import Std.Data.HashMap
import Oq3.Model.Grammar
import Oq3.Model.Process

namespace Oq3.Driver
open Oq3.Gen Oq3.Parser Oq3.Grammar

def kindByName : Std.HashMap String SyntaxKind :=
  SyntaxKind.all.foldl (fun m k => m.insert k.name k) {}

/-- parse a case line into kinds and joint bits; `none` on an unknown kind name -/
def parseCase (line : String) : Except String (Array SyntaxKind × Array Bool) := do
  let mut kinds : Array SyntaxKind := #[]
  let mut joint : Array Bool := #[]
  for w in line.splitOn " " do
    if w.isEmpty then continue
    let (nm, j) := if w.endsWith "+" then ((w.dropEnd 1).toString, true) else (w, false)
    match kindByName[nm]? with
    | some k =>
      kinds := kinds.push k
      joint := joint.push j
    | none => throw s!"unknown kind {nm}"
  return (kinds, joint)

def showStep : Step → String
  | .enter k => "E:" ++ k.name
  | .exit => "X"
  | .token k n => "T:" ++ k.name ++ ":" ++ toString n
  | .error msg => "R:" ++ msg.replace " " "_"

def tokenSum (steps : List Step) : Nat :=
  steps.foldl (fun acc s => match s with | .token _ n => acc + n | _ => acc) 0

/-- the hook compiled into the real parser under `oq3_verif`:
`VERIF_NO_PROGRESS_BASE + VERIF_NO_PROGRESS_PER_TOKEN * input length` -/
def noProgressLimit (n : Nat) : Nat := 2000 + 64 * n

def showResult (r : Except Outcome (Array Ev × Nat)) : String :=
  match r with
  | .ok (events, ipos) =>
    match process events.toList with
    | none => "PANIC process"
    | some steps =>
      let body := " ".intercalate (steps.map showStep)
      let bal := if balanceCheck steps then "1" else "0"
      s!"pos={tokenSum steps};steps={body};bal={bal};ipos={ipos}"
  | .error (.panic site) => "PANIC " ++ site
  | .error .fuel => "FUEL"
  | .error (.modelError msg) => "MODEL-ERROR " ++ msg

def parseLine (line : String) : String :=
  match parseCase line with
  | .error e => "MODEL-ERROR bad case line: " ++ e
  | .ok (kinds, joint) =>
    showResult (parseSourceFile (defaultFuel kinds.size) kinds joint (noProgressLimit kinds.size))

end Oq3.Driver
