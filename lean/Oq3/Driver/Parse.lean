/- Driver mode `parse` (stub; filled in with the grammar model). -/
namespace Oq3.Driver

def parseLine (line : String) : String := "not-implemented"

end Oq3.Driver
