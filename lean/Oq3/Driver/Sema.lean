/-
Driver mode `sema` (interfaces I5 → I6, DESIGN.md §2.1).

case line = the I5 S-expression printed by the harness mode `ast` (the implementation's own typed
            AST view), NOT source text
output    = the canonical I6 line, identical in format to the harness mode `sema`:
            `asg=(..);symbols=..;errors=..;depth=..;gates=..`
          | `PANIC <site>`            modelled panic; `<site>` starts with the Rust function name
          | `UNSUPPORTED-INCLUDE`     top-level include other than "stdgates.inc"
          | `FUEL`                    out of fuel
          | `BAD-AST <reason>`        the line is not a well-formed I5 dump (includes dumps in
                                      which a text accessor panicked, `!`)
          | `MODEL-MISMATCH <what>`   a token-level model (`IntNumber::value`, `BitString::str`,
                                      `TimingLiteral::time_unit`) disagrees with what the real
                                      accessor returned according to the dump

Not part of the trusted base: a wrong codec shows up as a correspondence disagreement.
-/
import Oq3.Driver.Codec
import Oq3.Model.Sema

namespace Oq3.Driver.SemaD
open Oq3 Oq3.Types Oq3.Symbols

/-! ## S-expressions -/

inductive Sexp
  | atom (s : String)
  | list (xs : List Sexp)
  deriving Inhabited

/-- tokens: `(`, `)`, and maximal runs of other non-space characters -/
def tokenize (s : String) : Array String := Id.run do
  let mut out : Array String := #[]
  let mut cur : String := ""
  for c in s.toList do
    if c == '(' || c == ')' then
      if cur != "" then out := out.push cur; cur := ""
      out := out.push (String.singleton c)
    else if c == ' ' then
      if cur != "" then out := out.push cur; cur := ""
    else cur := cur.push c
  if cur != "" then out := out.push cur
  return out

/-- parse one S-expression starting at token `i`; returns it and the next index -/
partial def parseAt (toks : Array String) (i : Nat) : Except String (Sexp × Nat) :=
  if h : i < toks.size then
    let t := toks[i]
    if t == "(" then
      let rec go (j : Nat) (acc : Array Sexp) : Except String (Sexp × Nat) :=
        if h2 : j < toks.size then
          if toks[j] == ")" then .ok (.list acc.toList, j + 1)
          else do
            let (x, j') ← parseAt toks j
            go j' (acc.push x)
        else .error "unbalanced ("
      go (i + 1) #[]
    else if t == ")" then .error "unexpected )"
    else .ok (.atom t, i + 1)
  else .error "unexpected end"

def parseSexp (s : String) : Except String Sexp := do
  let toks := tokenize s
  let (x, j) ← parseAt toks 0
  if j == toks.size then pure x else throw "trailing tokens"

/-! ## decoding I5 into `Oq3.Ast` -/

abbrev D := Except String

def hexDigit (c : Char) : Option Nat :=
  if '0' ≤ c && c ≤ '9' then some (c.toNat - 48)
  else if 'a' ≤ c && c ≤ 'f' then some (c.toNat - 87)
  else none

def hexNat (cs : List Char) : Option Nat :=
  if cs.isEmpty then none else
  cs.foldlM (fun acc c => (hexDigit c).map (acc * 16 + ·)) 0

/-- `x61.62` ↦ "ab"; `x` ↦ "" -/
def decodeStr (s : String) : D String :=
  match s.toList with
  | 'x' :: rest =>
    if rest.isEmpty then pure "" else
    let parts := (String.ofList rest).splitOn "."
    match parts.mapM (fun p => (hexNat p.toList).map Char.ofNat) with
    | some cs => pure (String.ofList cs)
    | none => throw s!"bad string atom {s}"
  | _ => throw s!"bad string atom {s}"

def str : Sexp → D String
  | .atom "!" => throw "accessor-panic (text)"
  | .atom s => decodeStr s
  | _ => throw "string expected"

def nat : Sexp → D Nat
  | .atom s => match s.toNat? with
    | some n => pure n
    | none => throw s!"number expected: {s}"
  | _ => throw "number expected"

def bool : Sexp → D Bool
  | .atom "0" => pure false
  | .atom "1" => pure true
  | _ => throw "0/1 expected"

def span (a b : Sexp) : D Ast.Span := do pure ⟨← nat a, ← nat b⟩

def opt {α : Type} (f : Sexp → D α) : Sexp → D (Option α)
  | .atom "_" => pure none
  | x => do pure (some (← f x))

def lst {α : Type} (f : Sexp → D α) : Sexp → D (List α)
  | .list xs => xs.mapM f
  | _ => throw "list expected"

def name : Sexp → D Ast.Name
  | .list [.atom "Name", a, b, t] => do pure ⟨← span a b, ← str t⟩
  | _ => throw "Name expected"

def identifier : Sexp → D Ast.Identifier
  | .list [.atom "Identifier", a, b, t] => do pure ⟨← span a b, ← str t⟩
  | _ => throw "Identifier expected"

def hardwareQubit : Sexp → D Ast.HardwareQubit
  | .list [.atom "HardwareQubit", a, b, t] => do pure ⟨← span a b, ← str t⟩
  | _ => throw "HardwareQubit expected"

def param : Sexp → D Ast.Param
  | .list [.atom "Param", a, b, t] => do pure ⟨← span a b, ← str t⟩
  | _ => throw "Param expected"

def paramList : Sexp → D Ast.ParamList
  | .list [.atom "ParamList", a, b, ps] => do pure ⟨← span a b, ← lst param ps⟩
  | _ => throw "ParamList expected"

def filePath : Sexp → D Ast.FilePath
  | .list [.atom "FilePath", a, b, .atom "!"] => do
      let _ ← span a b
      throw "accessor-panic (FilePath::to_string)"
  | .list [.atom "FilePath", a, b, t] => do pure ⟨← span a b, ← opt str t⟩
  | _ => throw "FilePath expected"

def unaryOp : Sexp → D Ast.UnaryOp
  | .atom "LogicNot" => pure .logicNot
  | .atom "Not" => pure .not
  | .atom "Neg" => pure .neg
  | _ => throw "UnaryOp expected"

def arithOp : String → D Ast.ArithOp
  | "Add" => pure .add | "Mul" => pure .mul | "Sub" => pure .sub | "Div" => pure .div
  | "Rem" => pure .rem | "Shl" => pure .shl | "Shr" => pure .shr | "BitXor" => pure .bitXor
  | "BitOr" => pure .bitOr | "BitAnd" => pure .bitAnd
  | s => throw s!"ArithOp expected: {s}"

def binaryOp : Sexp → D Ast.BinaryOp
  | .atom "Logic.And" => pure (.logicOp .and)
  | .atom "Logic.Or" => pure (.logicOp .or)
  | .atom "Cmp.Eq" => pure (.cmpOp (.eq false))
  | .atom "Cmp.Neq" => pure (.cmpOp (.eq true))
  | .atom "Cmp.Lt" => pure (.cmpOp (.ord true true))
  | .atom "Cmp.Le" => pure (.cmpOp (.ord true false))
  | .atom "Cmp.Gt" => pure (.cmpOp (.ord false true))
  | .atom "Cmp.Ge" => pure (.cmpOp (.ord false false))
  | .atom "Concat" => pure .concatenationOp
  | .atom "Power" => pure .powerOp
  | .atom "Assign" => pure (.assignment none)
  | .atom s =>
    match s.splitOn "." with
    | ["Arith", a] => do pure (.arithOp (← arithOp a))
    | ["Assign", a] => do pure (.assignment (some (← arithOp a)))
    | _ => throw s!"BinaryOp expected: {s}"
  | _ => throw "BinaryOp expected"

def literalKind : Sexp → D Ast.LiteralKind
  | .list [.atom "IntNumber", t, v] => do pure (.intNumber (← str t) (← opt nat v))
  | .list [.atom "FloatNumber", t, v] => do pure (.floatNumber (← str t) (← opt str v))
  | .list [.atom "BitString", t, v] => do pure (.bitString (← str t) (← opt str v))
  | .list [.atom "Bool", v] => do pure (.bool (← bool v))
  | .atom "Byte" => pure .byte
  | .atom "Char" => pure .char
  | .atom "String" => pure .string
  | .atom "!" => throw "accessor-panic (Literal::kind)"
  | _ => throw "LiteralKind expected"

def literal : Sexp → D Ast.Literal
  | .list [.atom "Literal", a, b, k] => do pure ⟨← span a b, ← literalKind k⟩
  | _ => throw "Literal expected"

def timeUnit : Sexp → D TokenExt.TimeUnit
  | .atom "NanoSecond" => pure .nanoSecond
  | .atom "MilliSecond" => pure .milliSecond
  | .atom "MicroSecond" => pure .microSecond
  | .atom "Second" => pure .second
  | .atom "Cycle" => pure .cycle
  | .atom "Imaginary" => pure .imaginary
  | .atom "!" => throw "accessor-panic (time_unit)"
  | _ => throw "TimeUnit expected"

def scalarTypeKind : Sexp → D Ast.ScalarTypeKind
  | .atom "Angle" => pure .angle | .atom "Bit" => pure .bit | .atom "Bool" => pure .bool
  | .atom "Complex" => pure .complex | .atom "Duration" => pure .duration
  | .atom "Float" => pure .float | .atom "Int" => pure .int | .atom "None" => pure .none
  | .atom "Stretch" => pure .stretch | .atom "UInt" => pure .uint | .atom "Qubit" => pure .qubit
  | .atom "!" => throw "accessor-panic (ScalarType::kind)"
  | _ => throw "ScalarTypeKind expected"

mutual

partial def expr : Sexp → D Ast.Expr
  | .list [.atom "PrefixExpr", a, b, op, e] => do
      pure (.prefixExpr (← span a b) (← opt unaryOp op) (← opt expr e))
  | x@(.list (.atom "ParenExpr" :: _)) => do pure (.parenExpr (← parenExpr x))
  | .list [.atom "BinExpr", a, b, op, l, r] => do
      pure (.binExpr (← span a b) (← opt binaryOp op) (← opt expr l) (← opt expr r))
  | x@(.list (.atom "Literal" :: _)) => do pure (.literal (← literal x))
  | .list [.atom "TimingLiteral", a, b, tu, it, l] => do
      pure (.timingLiteral (← span a b) (← opt timeUnit tu) (← opt str it) (← opt literal l))
  | x@(.list (.atom "Identifier" :: _)) => do pure (.identifier (← identifier x))
  | x@(.list (.atom "HardwareQubit" :: _)) => do pure (.hardwareQubit (← hardwareQubit x))
  | x@(.list (.atom "RangeExpr" :: _)) => do pure (.rangeExpr (← rangeExpr x))
  | .list [.atom "IndexExpr", a, b, e, i] => do
      pure (.indexExpr (← span a b) (← opt expr e) (← opt indexOperator i))
  | x@(.list (.atom "IndexedIdentifier" :: _)) => do
      pure (.indexedIdentifier (← indexedIdentifier x))
  | .list [.atom "MeasureExpression", a, b, g] => do
      pure (.measureExpression (← span a b) (← opt gateOperand g))
  | .list [.atom "ReturnExpr", a, b, e] => do pure (.returnExpr (← span a b) (← opt expr e))
  | .list [.atom "CastExpression", a, b, s, e] => do
      pure (.castExpression (← span a b) (← opt scalarType s) (← opt expr e))
  | .list [.atom "CallExpr", a, b, al, i] => do
      pure (.callExpr (← span a b) (← opt argList al) (← opt identifier i))
  | x@(.list (.atom "GateCallExpr" :: _)) => do pure (.gateCallExpr (← gateCallExpr x))
  | x@(.list (.atom "GPhaseCallExpr" :: _)) => do pure (.gPhaseCallExpr (← gPhaseCallExpr x))
  | .list [.atom "ModifiedGateCallExpr", a, b, ms, g, p] => do
      pure (.modifiedGateCallExpr (← span a b) (← lst modifier ms) (← opt gateCallExpr g)
        (← opt gPhaseCallExpr p))
  | .list [.atom "BlockExprE", a, b] => do pure (.unsupported .blockExpr (← span a b))
  | .list [.atom "ArrayExpr", a, b] => do pure (.unsupported .arrayExpr (← span a b))
  | .list [.atom "ArrayLiteral", a, b] => do pure (.unsupported .arrayLiteral (← span a b))
  | .list [.atom "BoxExpr", a, b] => do pure (.unsupported .boxExpr (← span a b))
  | .list [.atom "DimExpr", a, b] => do pure (.unsupported .dimExpr (← span a b))
  | _ => throw "Expr expected"

partial def parenExpr : Sexp → D Ast.ParenExpr
  | .list [.atom "ParenExpr", a, b, e] => do pure (.mk (← span a b) (← opt expr e))
  | _ => throw "ParenExpr expected"

partial def rangeExpr : Sexp → D Ast.RangeExpr
  | .list [.atom "RangeExpr", a, b, x, y, z] => do
      pure (.mk (← span a b) (← opt expr x) (← opt expr y) (← opt expr z))
  | _ => throw "RangeExpr expected"

partial def designator : Sexp → D Ast.Designator
  | .list [.atom "Designator", a, b, e] => do pure (.mk (← span a b) (← opt expr e))
  | _ => throw "Designator expected"

partial def scalarType : Sexp → D Ast.ScalarType
  | .list [.atom "ScalarType", a, b, k, d, s] => do
      pure (.mk (← span a b) (← scalarTypeKind k) (← opt designator d) (← opt scalarType s))
  | _ => throw "ScalarType expected"

partial def expressionList : Sexp → D Ast.ExpressionList
  | .list [.atom "ExpressionList", a, b, es] => do pure (.mk (← span a b) (← lst expr es))
  | _ => throw "ExpressionList expected"

partial def setExpression : Sexp → D Ast.SetExpression
  | .list [.atom "SetExpression", a, b, el] => do
      pure (.mk (← span a b) (← opt expressionList el))
  | _ => throw "SetExpression expected"

partial def indexKind : Sexp → D Ast.IndexKind
  | x@(.list (.atom "SetExpression" :: _)) => do pure (.setExpression (← setExpression x))
  | x@(.list (.atom "ExpressionList" :: _)) => do pure (.expressionList (← expressionList x))
  | _ => throw "IndexKind expected"

partial def indexOperator : Sexp → D Ast.IndexOperator
  | .list [.atom "IndexOperator", a, b, k] => do pure (.mk (← span a b) (← opt indexKind k))
  | _ => throw "IndexOperator expected"

partial def indexedIdentifier : Sexp → D Ast.IndexedIdentifier
  | .list [.atom "IndexedIdentifier", a, b, i, ixs] => do
      pure (.mk (← span a b) (← opt identifier i) (← lst indexOperator ixs))
  | _ => throw "IndexedIdentifier expected"

partial def gateOperand : Sexp → D Ast.GateOperand
  | x@(.list (.atom "HardwareQubit" :: _)) => do pure (.hardwareQubit (← hardwareQubit x))
  | x@(.list (.atom "Identifier" :: _)) => do pure (.identifier (← identifier x))
  | x@(.list (.atom "IndexedIdentifier" :: _)) => do
      pure (.indexedIdentifier (← indexedIdentifier x))
  | _ => throw "GateOperand expected"

partial def qubitList : Sexp → D Ast.QubitList
  | .list [.atom "QubitList", a, b, gs] => do pure (.mk (← span a b) (← lst gateOperand gs))
  | _ => throw "QubitList expected"

partial def argList : Sexp → D Ast.ArgList
  | .list [.atom "ArgList", a, b, el] => do pure (.mk (← span a b) (← opt expressionList el))
  | _ => throw "ArgList expected"

partial def gateCallExpr : Sexp → D Ast.GateCallExpr
  | .list [.atom "GateCallExpr", a, b, q, al, i] => do
      pure (.mk (← span a b) (← opt qubitList q) (← opt argList al) (← opt identifier i))
  | _ => throw "GateCallExpr expected"

partial def gPhaseCallExpr : Sexp → D Ast.GPhaseCallExpr
  | .list [.atom "GPhaseCallExpr", a, b, e] => do pure (.mk (← span a b) (← opt expr e))
  | _ => throw "GPhaseCallExpr expected"

partial def modifier : Sexp → D Ast.Modifier
  | .list [.atom "InvModifier", a, b] => do pure (.invModifier (← span a b))
  | .list [.atom "PowModifier", a, b, p] => do pure (.powModifier (← span a b) (← opt parenExpr p))
  | .list [.atom "CtrlModifier", a, b, p] => do
      pure (.ctrlModifier (← span a b) (← opt parenExpr p))
  | .list [.atom "NegCtrlModifier", a, b, p] => do
      pure (.negCtrlModifier (← span a b) (← opt parenExpr p))
  | _ => throw "Modifier expected"

end

def paramType : Sexp → D Ast.ParamType
  | .list [.atom "ArrayRefType", a, b] => do pure (.arrayRefType (← span a b))
  | x => do pure (.scalarType (← scalarType x))

def typedParam : Sexp → D Ast.TypedParam
  | .list [.atom "TypedParam", a, b, pt, o, n] => do
      pure ⟨← span a b, ← opt paramType pt, ← bool o, ← opt name n⟩
  | _ => throw "TypedParam expected"

def typedParamList : Sexp → D Ast.TypedParamList
  | .list [.atom "TypedParamList", a, b, ps] => do pure ⟨← span a b, ← lst typedParam ps⟩
  | _ => throw "TypedParamList expected"

def returnSignature : Sexp → D Ast.ReturnSignature
  | .list [.atom "ReturnSignature", a, b, s] => do pure ⟨← span a b, ← opt scalarType s⟩
  | _ => throw "ReturnSignature expected"

def qubitType : Sexp → D Ast.QubitType
  | .list [.atom "QubitType", a, b, d] => do pure ⟨← span a b, ← opt designator d⟩
  | _ => throw "QubitType expected"

def forIterable : Sexp → D Ast.ForIterable
  | .list [.atom "ForIterable", a, b, s, r, e] => do
      pure ⟨← span a b, ← opt setExpression s, ← opt rangeExpr r, ← opt expr e⟩
  | _ => throw "ForIterable expected"

def notImplKind : String → Option Ast.NotImplKind
  | "OldStyleDeclarationStatement" => some .oldStyleDeclarationStatement
  | "DefCal" => some .defCal | "Cal" => some .cal | "DefCalGrammar" => some .defCalGrammar
  | "LetStmt" => some .letStmt | "Measure" => some .measure | "ExternStmt" => some .externStmt
  | _ => none

mutual

partial def stmt : Sexp → D Ast.Stmt
  | .list [.atom "IfStmt", a, b, c, t, f] => do
      pure (.ifStmt (← span a b) (← opt expr c) (← accBos t) (← opt blockOrStmt f))
  | .list [.atom "WhileStmt", a, b, c, t] => do
      pure (.whileStmt (← span a b) (← opt expr c) (← accBos t))
  | .list [.atom "ForStmt", a, b, v, st, it, body] => do
      pure (.forStmt (← span a b) (← opt name v) (← opt scalarType st) (← opt forIterable it)
        (← accBos body))
  | .list [.atom "SwitchCaseStmt", a, b, c, cs, d] => do
      pure (.switchCaseStmt (← span a b) (← opt expr c) (← lst caseExpr cs) (← opt blockExpr d))
  | .list [.atom "ClassicalDeclarationStatement", a, b, arr, st, ct, n, e] => do
      pure (.classicalDeclarationStatement (← span a b) (← bool arr) (← opt scalarType st)
        (← bool ct) (← opt name n) (← opt expr e))
  | .list [.atom "IODeclarationStatement", a, b, arr, st, n, inp] => do
      pure (.ioDeclarationStatement (← span a b) (← bool arr) (← opt scalarType st) (← opt name n)
        (← bool inp))
  | .list [.atom "QuantumDeclarationStatement", a, b, n, h, q] => do
      pure (.quantumDeclarationStatement (← span a b) (← opt name n) (← opt hardwareQubit h)
        (← opt qubitType q))
  | .list [.atom "AssignmentStmt", a, b, i, r, ii] => do
      pure (.assignmentStmt (← span a b) (← opt identifier i) (← opt expr r)
        (← opt indexedIdentifier ii))
  | .list [.atom "BreakStmt", a, b] => do pure (.breakStmt (← span a b))
  | .list [.atom "ContinueStmt", a, b] => do pure (.continueStmt (← span a b))
  | .list [.atom "EndStmt", a, b] => do pure (.endStmt (← span a b))
  | .list [.atom "Gate", a, b, n, ap, qp, body] => do
      pure (.gate (← span a b) (← opt name n) (← opt paramList ap) (← opt paramList qp)
        (← opt blockExpr body))
  | .list [.atom "Def", a, b, n, tp, body, rs] => do
      pure (.defStmt (← span a b) (← opt name n) (← opt typedParamList tp) (← opt blockExpr body)
        (← opt returnSignature rs))
  | .list [.atom "Barrier", a, b, q] => do pure (.barrier (← span a b) (← opt qubitList q))
  | .list [.atom "DelayStmt", a, b, q, d] => do
      pure (.delayStmt (← span a b) (← opt qubitList q) (← opt designator d))
  | .list [.atom "Reset", a, b, g] => do pure (.reset (← span a b) (← opt gateOperand g))
  | .list [.atom "Include", a, b, f] => do pure (.includeStmt (← span a b) (← opt filePath f))
  | .list [.atom "ExprStmt", a, b, e] => do pure (.exprStmt (← span a b) (← opt expr e))
  | .list [.atom "VersionString", a, b] => do pure (.versionString (← span a b))
  | .list [.atom "PragmaStatement", a, b, t] => do pure (.pragmaStatement (← span a b) (← str t))
  | .list [.atom "AnnotationStatement", a, b, t] => do
      pure (.annotationStatement (← span a b) (← str t))
  | .list [.atom "AliasDeclarationStatement", a, b, n, e] => do
      pure (.aliasDeclarationStatement (← span a b) (← opt name n) (← opt expr e))
  | .list [.atom k, a, b] =>
      match notImplKind k with
      | some kind => do pure (.notImpl kind (← span a b))
      | none => throw s!"Stmt expected: {k}"
  | _ => throw "Stmt expected"

partial def blockExpr : Sexp → D Ast.BlockExpr
  | .list [.atom "BlockExpr", a, b, ss] => do pure (.mk (← span a b) (← lst stmt ss))
  | _ => throw "BlockExpr expected"

partial def blockOrStmt : Sexp → D Ast.BlockOrStmt
  | .list [.atom "BosBlock", x] => do pure (.blockExpr (← blockExpr x))
  | .list [.atom "BosStmt", x] => do pure (.stmt (← stmt x))
  | _ => throw "BlockOrStmt expected"

partial def accBos : Sexp → D (Ast.Acc Ast.BlockOrStmt)
  | .atom "!" => pure .panicked
  | x => do pure (.ok (← blockOrStmt x))

partial def caseExpr : Sexp → D Ast.CaseExpr
  | .list [.atom "CaseExpr", a, b, el, bl] => do
      pure (.mk (← span a b) (← opt expressionList el) (← opt blockExpr bl))
  | _ => throw "CaseExpr expected"

end

def program : Sexp → D Ast.Program
  | .list [.atom "Program", a, b, ss] => do pure ⟨← span a b, ← lst stmt ss⟩
  | _ => throw "Program expected"

/-! ## token-level cross-check (dump value vs. `TokenExt` model) -/

/-- scan the raw S-expression for literal leaves and timing literals -/
partial def crossCheck : Sexp → Option String
  | .atom _ => none
  | x@(.list xs) =>
    let here : Option String :=
      match x with
      | .list [.atom "IntNumber", _, _] | .list [.atom "BitString", _, _] =>
        match literalKind x with
        | .ok k => if k.consistent then none else
            match k with
            | .intNumber t _ => some s!"IntNumber::value {t}"
            | .bitString t _ => some s!"BitString::str {t}"
            | _ => none
        | .error _ => none
      | .list [.atom "TimingLiteral", _, _, tu, it, _] =>
        match opt timeUnit tu, opt str it with
        | .ok tu, .ok it =>
          if TokenExt.timeUnit it == tu then none else some s!"TimingLiteral::time_unit {it}"
        | _, _ => none
      | _ => none
    match here with
    | some m => some m
    | none => xs.findSome? crossCheck

/-! ## printing I6 -/

def encodeStr (s : String) : String :=
  "x" ++ ".".intercalate (s.toList.map fun c => String.ofList (Nat.toDigits 16 c.toNat))

def ty (t : T) : String := (showT t).replace " " "_"

def sym : Sema.SymbolIdResult → String
  | .ok id => s!"ok:{id}"
  | .error .missingBinding => "err:MissingBinding"
  | .error .alreadyBound => "err:AlreadyBound"

def popt {α : Type} (f : α → String) : Option α → String
  | some x => f x
  | none => "_"

def plist {α : Type} (f : α → String) (xs : List α) : String :=
  "(" ++ " ".intercalate (xs.map f) ++ ")"

def b01 (b : Bool) : String := if b then "1" else "0"
def sign (b : Bool) : String := if b then "+" else "-"

def timeUnitS : Sema.TimeUnit → String
  | .second => "Second" | .milliSecond => "MilliSecond" | .microSecond => "MicroSecond"
  | .nanoSecond => "NanoSecond" | .cycle => "Cycle"

def literalS : Sema.Literal → String
  | .bool v => s!"(Bool {b01 v})"
  | .int v s => s!"(Int {v} {sign s})"
  | .float v => s!"(Float f:{v})"
  | .imaginaryInt v s => s!"(ImInt {v} {sign s})"
  | .imaginaryFloat v => s!"(ImFloat f:{v})"
  | .bitString v => s!"(BitString b:{v})"
  | .timingIntLiteral v s u => s!"(TimingInt {v} {sign s} {timeUnitS u})"
  | .timingFloatLiteral v s u => s!"(TimingFloat f:{v} {sign s} {timeUnitS u})"
  | .array => "Array"

def arithOpS : ArithOp → String
  | .add => "Add" | .sub => "Sub" | .mul => "Mul" | .div => "Div" | .rem => "Rem" | .mod => "Mod"
  | .shl => "Shl" | .shr => "Shr" | .bitXOr => "BitXOr" | .bitOr => "BitOr" | .bitAnd => "BitAnd"

def binaryOpS : Sema.BinaryOp → String
  | .arithOp a => "Arith." ++ arithOpS a
  | .cmpOp .eq => "Cmp.Eq"
  | .cmpOp .neq => "Cmp.Neq"
  | .concatenationOp => "Concat"
  | .powerOp => "Power"

def unaryOpS : Sema.UnaryOp → String
  | .minus => "Minus" | .not => "Not" | .bitNot => "BitNot"

mutual
partial def exprS : Sema.Expr → String
  | .binaryExpr op l r => s!"(Bin {binaryOpS op} {texprS l} {texprS r})"
  | .unaryExpr op e => s!"(Un {unaryOpS op} {texprS e})"
  | .literal l => s!"(Lit {literalS l})"
  | .cast e t => s!"(Cast {ty t} {texprS e})"
  | .identifier s => s!"(Ident {sym s})"
  | .hardwareQubit n => s!"(HwQubit {encodeStr n})"
  | .indexExpression e i => s!"(IndexExpr {texprS e} {indexOperatorS i})"
  | .indexedIdentifier i => indexedIdentifierS i
  | .gateOperand g =>
    let inner := match g with
      | .identifier s => s!"(GoIdent {sym s})"
      | .hardwareQubit n => s!"(GoHw {encodeStr n})"
      | .indexedIdentifier i => s!"(GoIndexed {indexedIdentifierS i})"
    s!"(GateOperand {inner})"
  | .returnExpr v => s!"(Return {popt texprS v})"
  | .subroutineCall n ps => s!"(Call {sym n} {popt (plist texprS) ps})"
  | .measureExpression e => s!"(Measure {texprS e})"
  | .setExpression es => s!"(Set {plist texprS es})"
  | .rangeExpression a b c => s!"(Range {texprS a} {popt texprS b} {texprS c})"
  | .nullExpr => "NullExpr"
partial def texprS : Sema.TExpr → String
  | .mk e t => s!"(T {ty t} {exprS e})"
partial def indexOperatorS : Sema.IndexOperator → String
  | .setExpression es => s!"(IxSet {plist texprS es})"
  | .expressionList es => s!"(IxList {plist texprS es})"
partial def indexedIdentifierS : Sema.IndexedIdentifier → String
  | .mk s ixs => s!"(IndexedIdent {sym s} {plist indexOperatorS ixs})"
end

def modifierS : Sema.GateModifier → String
  | .inv => "Inv"
  | .pow e => s!"(Pow {texprS e})"
  | .ctrl e => s!"(Ctrl {popt texprS e})"
  | .negCtrl e => s!"(NegCtrl {popt texprS e})"

mutual
partial def stmtS : Sema.Stmt → String
  | .alias n r => s!"(Alias {sym n} {texprS r})"
  | .annotatedStmt s as => s!"(Annotated {stmtS s} {plist encodeStr as})"
  | .assignment lv r =>
    let l := match lv with
      | .identifier s => s!"(LIdent {sym s})"
      | .indexedIdentifier i => s!"(LIndexed {indexedIdentifierS i})"
    s!"(Assignment {l} {texprS r})"
  | .barrier q => s!"(Barrier {popt (plist texprS) q})"
  | .block b => s!"(BlockStmt {blockS b})"
  | .box => "Box" | .breakStmt => "Break" | .cal => "Cal" | .continueStmt => "Continue"
  | .declareClassical n i => s!"(DeclareClassical {sym n} {popt texprS i})"
  | .declareQuantum n => s!"(DeclareQuantum {sym n})"
  | .declareHardwareQubit n => s!"(DeclareHardwareQubit {encodeStr n})"
  | .defStmt n ps b rt => s!"(DefStmt {sym n} {plist sym ps} {blockS b} {ty rt})"
  | .defCal => "DefCal"
  | .delay d qs => s!"(Delay {texprS d} {plist texprS qs})"
  | .endStmt => "End"
  | .exprStmt e => s!"(ExprStmt {texprS e})"
  | .extern => "Extern"
  | .forStmt v it b =>
    let i := match it with
      | .setExpression es => s!"(IterSet (Set {plist texprS es}))"
      | .rangeExpression x y z => s!"(IterRange (Range {texprS x} {popt texprS y} {texprS z}))"
      | .expr e => s!"(IterExpr {texprS e})"
    s!"(ForStmt {sym v} {i} {blockS b})"
  | .gPhaseCall a => s!"(GPhaseCall {texprS a})"
  | .gateCall n ps qs ms =>
    s!"(GateCall {sym n} {popt (plist texprS) ps} {plist texprS qs} {plist modifierS ms})"
  | .gateDefinition n ps qs b =>
    s!"(GateDefinition {sym n} {popt (plist sym) ps} {plist sym qs} {blockS b})"
  | .inputDeclaration n => s!"(InputDeclaration {sym n})"
  | .outputDeclaration n => s!"(OutputDeclaration {sym n})"
  | .ifStmt c t e => s!"(If {texprS c} {blockS t} {popt blockS e})"
  | .includeStmt p => s!"(Include {encodeStr p})"
  | .modifiedGPhaseCall a ms => s!"(ModifiedGPhaseCall {texprS a} {plist modifierS ms})"
  | .nullStmt => "NullStmt"
  | .oldStyleDeclaration => "OldStyleDeclaration"
  | .pragma t => s!"(Pragma {encodeStr t})"
  | .reset g => s!"(Reset {texprS g})"
  | .switchCaseStmt c cs d =>
    s!"(SwitchCase {texprS c} {plist caseS cs} {popt (plist stmtS) d})"
  | .whileStmt c b => s!"(While {texprS c} {blockS b})"
partial def blockS : Sema.Block → String
  | .mk ss => s!"(Block {plist stmtS ss})"
partial def caseS : Sema.CaseExpr → String
  | .mk vs ss => s!"(Case {plist texprS vs} {plist stmtS ss})"
end

def errorKindS : Sema.SemanticErrorKind → String
  | .undefVarError => "UndefVarError" | .undefGateError => "UndefGateError"
  | .redeclarationError => "RedeclarationError" | .constIntegerError => "ConstIntegerError"
  | .incompatibleTypesError => "IncompatibleTypesError"
  | .incompatibleDimensionError => "IncompatibleDimensionError"
  | .tooManyIndexes => "TooManyIndexes" | .castError => "CastError"
  | .mutateConstError => "MutateConstError" | .notInGlobalScopeError => "NotInGlobalScopeError"
  | .includeNotInGlobalScopeError => "IncludeNotInGlobalScopeError"
  | .returnInGlobalScopeError => "ReturnInGlobalScopeError"
  | .numGateParamsError => "NumGateParamsError" | .numGateQubitsError => "NumGateQubitsError"
  | .numDefParamsError => "NumDefParamsError" | .fileNotFound => "FileNotFound"
  | .permissionDenied => "PermissionDenied" | .isADirectory => "IsADirectory"
  | .invalidFilename => "InvalidFilename" | .invalidDesignatorError => "InvalidDesignatorError"
  | .ioError => "IOError" | .notImplementedError => "NotImplementedError"

def showCtx (c : Sema.Ctx) : String :=
  let asg := plist stmtS c.program
  let symbols := ",".intercalate
    (c.symbolTable.all.zipIdx.map fun (s, i) => s!"{i}:{encodeStr s.name}:{ty s.ty}")
  let errors := ",".intercalate
    (c.semanticErrors.map fun e => s!"{errorKindS e.kind}@{e.start}-{e.stop}")
  let gates := ",".intercalate (c.symbolTable.gates.map fun (n, _, np, nq) => s!"{n}:{np}:{nq}")
  s!"asg={asg};symbols={symbols};errors={errors};depth={c.symbolTable.stack.length};gates={gates}"

def showOutcome : Except Sema.Outcome Sema.Ctx → String
  | .ok c => showCtx c
  | .error (.panic site) => s!"PANIC {site}"
  | .error .unsupportedInclude => "UNSUPPORTED-INCLUDE"
  | .error .fuel => "FUEL"

end Oq3.Driver.SemaD

namespace Oq3.Driver
open SemaD

/-- one `sema` case -/
def semaLine (line : String) : String :=
  match parseSexp line with
  | .error e => s!"BAD-AST sexp: {e}"
  | .ok sx =>
    match program sx with
    | .error e => s!"BAD-AST {e}"
    | .ok p =>
      match crossCheck sx with
      | some m => s!"MODEL-MISMATCH {m}"
      | none => showOutcome (Sema.analyze p)

end Oq3.Driver
