/- Driver modes `ops` (prints the translated operator table and where it disagrees with the
specification) and `pratt` (runs the abstract Pratt core with the translated table). -/
import Oq3.Props.C05
import Oq3.Driver.Parse

namespace Oq3.Driver
open Oq3.Gen Oq3.Pratt Oq3.Props.C05

def showAssoc : Pratt.Assoc → String | .left => "L" | .right => "R"

/-- one line describing the table: `pows=KIND:bp:assoc,…;disagree=K1/K2,…;unary=K,…` -/
def opsLine (_ : String) : String :=
  let pows := ",".intercalate (binOps.map fun o => s!"{o.name}:{implTab.pow o}:{showAssoc (implTab.assoc o)}")
  let dis := ",".intercalate (disagree.map fun p => s!"{p.1.name}/{p.2.name}")
  let un := ",".intercalate (unaryDisagree.map (·.name))
  let rej := ",".intercalate (unaryRejected.map (·.name))
  s!"pows={pows};disagree={dis};unary={un};unary_rejected={rej}"

partial def showE : E → String
  | .atom n => s!"a{n}"
  | .bin o l r => s!"({o.name} {showE l} {showE r})"
  | .pre o e => s!"(pre:{o.name} {showE e})"
  | .paren e => s!"(paren {showE e})"

/-- `pratt` case line: tokens separated by spaces: `a<n>` atom, `(`, `)`, `pre:KIND`, `KIND` -/
def prattLine (line : String) : String :=
  let ws := (line.splitOn " ").filter (· ≠ "")
  let toks : Option (List Tok) := ws.mapM fun w =>
    if w == "(" then some .lp else if w == ")" then some .rp
    else if w.startsWith "pre:" then (kindByName[(w.drop 4).toString]?).map Tok.pre
    else if w.startsWith "a" && (w.drop 1).toString.toNat?.isSome then (w.drop 1).toString.toNat?.map Tok.atom
    else (kindByName[w]?).map Tok.op
  match toks with
  | none => "bad-case"
  | some ts =>
    match exprBp implTab (4 * ts.length + 8) 1 ts with
    | some (e, []) => showE e
    | some (e, _) => "PARTIAL " ++ showE e
    | none => "NONE"

end Oq3.Driver
