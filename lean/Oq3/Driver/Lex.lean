/- Driver mode `lex` (stub; filled in with the lexer model). -/
namespace Oq3.Driver

/-- Unicode class table sent by the harness: code point ↦ (xid_start, xid_continue, emoji) -/
abbrev UClassTable := List (Nat × Bool × Bool × Bool)

def parseUClassLine (line : String) : Option (Nat × Bool × Bool × Bool) := none

def lexLine (tab : UClassTable) (line : String) : String := "not-implemented"

end Oq3.Driver
