/-
Driver mode `lex`: evaluates the lexer model (`Oq3.Lexer`, `Oq3.Lexed`) on one case line and
prints the canonical I1/I2 line (DESIGN.md §2.1).  Not part of the proof base.
-/
import Oq3.Model.Lexer
import Oq3.Model.Lexed

namespace Oq3.Driver
open Oq3.Lexer Oq3.Lexed Oq3.Gen

/-- Unicode class table sent by the harness: code point ↦ (xid_start, xid_continue, emoji) -/
abbrev UClassTable := List (Nat × Bool × Bool × Bool)

def hexDigit? (c : Char) : Option Nat :=
  if '0' ≤ c && c ≤ '9' then some (c.toNat - '0'.toNat)
  else if 'a' ≤ c && c ≤ 'f' then some (c.toNat - 'a'.toNat + 10)
  else if 'A' ≤ c && c ≤ 'F' then some (c.toNat - 'A'.toNat + 10)
  else none

def parseHex (s : String) : Option Nat :=
  if s.isEmpty then none
  else s.toList.foldlM (fun acc c => (hexDigit? c).map (fun d => acc * 16 + d)) 0

def parseBit? (c : Char) : Option Bool :=
  if c == '1' then some true else if c == '0' then some false else none

/-- a line `<hex codepoint> <s><c><e>`, e.g. `b5 110` -/
def parseUClassLine (line : String) : Option (Nat × Bool × Bool × Bool) :=
  match (line.trimAscii.toString.splitOn " ").filter (· ≠ "") with
  | [cp, bits] =>
    match parseHex cp, bits.toList with
    | some n, [a, b, c] =>
      match parseBit? a, parseBit? b, parseBit? c with
      | some a, some b, some c => some (n, a, b, c)
      | _, _, _ => none
    | _, _ => none
  | _ => none

def ucOfTable (tab : UClassTable) : UC :=
  let look (c : Char) : Bool × Bool × Bool :=
    match tab.find? (·.1 == c.toNat) with
    | some e => e.2
    | none => (false, false, false)
  { xidStart := fun c => (look c).1
    xidContinue := fun c => (look c).2.1
    isEmoji := fun c => (look c).2.2 }

def b01 (b : Bool) : String := if b then "1" else "0"

def showBase : Base → String
  | .binary => "2" | .octal => "8" | .decimal => "10" | .hexadecimal => "16"

def showLit : LiteralKind → String
  | .int b e => s!"Lit.Int.{showBase b}.{b01 e}"
  | .float b e => s!"Lit.Float.{showBase b}.{b01 e}"
  | .byte t => s!"Lit.Byte.{b01 t}"
  | .str t => s!"Lit.Str.{b01 t}"
  | .bitStr t c => s!"Lit.BitStr.{b01 t}.{b01 c}"

/-- `<Kind>:<len>` (literals: `<Kind>:<len>:<suffix_start>`) -/
def showRaw (k : TokenKind) (len : Nat) : String :=
  let plain (n : String) := s!"{n}:{len}"
  match k with
  | .lineComment => plain "LineComment"
  | .blockComment t => plain s!"BlockComment.{b01 t}"
  | .whitespace => plain "Whitespace"
  | .ident => plain "Ident"
  | .hardwareIdent => plain "HardwareIdent"
  | .invalidIdent => plain "InvalidIdent"
  | .openQasmVersionStmt a b => plain s!"OpenQasmVersionStmt.{b01 a}.{b01 b}"
  | .pragma => plain "Pragma"
  | .dim => plain "Dim"
  | .annotation => plain "Annotation"
  | .literal kind suf => s!"{showLit kind}:{len}:{suf}"
  | .semi => plain "Semi" | .comma => plain "Comma" | .dot => plain "Dot"
  | .openParen => plain "OpenParen" | .closeParen => plain "CloseParen"
  | .openBrace => plain "OpenBrace" | .closeBrace => plain "CloseBrace"
  | .openBracket => plain "OpenBracket" | .closeBracket => plain "CloseBracket"
  | .at => plain "At" | .pound => plain "Pound" | .tilde => plain "Tilde"
  | .question => plain "Question" | .colon => plain "Colon" | .dollar => plain "Dollar"
  | .eq => plain "Eq" | .bang => plain "Bang" | .lt => plain "Lt" | .gt => plain "Gt"
  | .minus => plain "Minus" | .and => plain "And" | .or => plain "Or" | .plus => plain "Plus"
  | .star => plain "Star" | .slash => plain "Slash" | .caret => plain "Caret"
  | .percent => plain "Percent" | .unknown => plain "Unknown" | .eof => plain "Eof"

def parseText (line : String) : Option (List Char) :=
  let l := line.trimAscii.toString
  if l.isEmpty then some []
  else (l.splitOn ".").mapM fun h =>
    match parseHex h with
    | some n => if n.isValidChar then some (Char.ofNat n) else none
    | none => none

def commaSep (xs : List String) : String := ",".intercalate xs

/-- one `lex` case: dot-separated hex code points (empty line = empty text) -/
def lexLine (tab : UClassTable) (line : String) : String :=
  match parseText line with
  | none => "bad-case"
  | some text =>
    if text.any (fun c => (tab.find? (·.1 == c.toNat)).isNone) then "missing-uclass"
    else
      let uc := ucOfTable tab
      let toks := tokenize uc text
      let raw := commaSep (toks.map fun t => showRaw t.kind t.len)
      let ok := b01 (toks.all (·.ok))
      match LexedStr.new uc text with
      | none => s!"raw={raw};PANIC LexedStr::new;ok={ok}"
      | some l =>
        let kinds := commaSep (l.kind.map (·.name))
        let starts := commaSep (l.start.map toString)
        let errors := commaSep (l.errors.map fun e => toString e.1)
        match l.toInput with
        | none => s!"raw={raw};kinds={kinds};starts={starts};errors={errors};PANIC to_input;ok={ok}"
        | some inp =>
          let input := commaSep ((inp.kind.zip inp.joint).map fun (k, j) =>
            k.name ++ (if j then "+" else ""))
          s!"raw={raw};kinds={kinds};starts={starts};errors={errors};input={input};ok={ok}"

end Oq3.Driver
