/-
Driver mode `unescape`: evaluates `Oq3.Unescape` (Model/Unescape.lean).  Not part of the proof base.

One request per line, three forms:

* `<hex>`                       dot-separated hex code points of a source text that consists of ONE
                                string-literal token (kind `STRING`, start offset 0), e.g. `"a\q"`;
* `KIND:start:hex KIND:start:hex ...`
                                the literal tokens of a file in text order (`KIND` = `STRING` or
                                `BIT_STRING`, anything else = no validation), `start` = byte offset of
                                the token in the file, `hex` = the token's text;
  answer to both:  `errs=<start>-<end>:<message>,...`   (file byte ranges; the message is encoded as
                                in harness/src/m_tree.rs: ` `→`_`, `;`→`%3b`, `,`→`%2c`, CR→`%0d`, LF→`%0a`)
* `cb <Str|BitStr> <hex>`       the CONTENTS of a literal; answer: every callback of
                                `unescape_literal` in order, `cbs=<start>-<end>:<Ok|ErrorName>,...`
                                (byte ranges within the contents, warnings included).
-/
import Oq3.Model.Unescape

namespace Oq3.Driver.Unescape
open Oq3.Unescape

def hexDigit (c : Char) : Option Nat :=
  if '0' ≤ c && c ≤ '9' then some (c.toNat - '0'.toNat)
  else if 'a' ≤ c && c ≤ 'f' then some (c.toNat - 'a'.toNat + 10)
  else if 'A' ≤ c && c ≤ 'F' then some (c.toNat - 'A'.toNat + 10)
  else none

def hexNat (s : String) : Option Nat :=
  if s.isEmpty then none
  else s.toList.foldl (fun acc c => match acc, hexDigit c with
    | some a, some d => some (a * 16 + d)
    | _, _ => none) (some 0)

def unhex (s : String) : Option (List Char) :=
  if s.isEmpty then some []
  else (s.splitOn ".").mapM fun h => (hexNat h).map Char.ofNat

def escMsg (m : String) : String :=
  ((((m.replace " " "_").replace ";" "%3b").replace "," "%2c").replace "\r" "%0d").replace "\n" "%0a"

def showErrs (es : List VErr) : String :=
  ",".intercalate (es.map fun e => s!"{e.start}-{e.stop}:{escMsg e.msg}")

def kindOf (k : String) : LitKind :=
  if k == "STRING" then .string else if k == "BIT_STRING" then .bitString else .other

/-- `KIND:start:hex` -/
def tokenErrs (item : String) : Option (List VErr) :=
  match item.splitOn ":" with
  | [k, s, h] =>
    match s.toNat?, unhex h with
    | some s, some t => some (validateLiteral (kindOf k) t s)
    | _, _ => none
  | _ => none

def errName : EscapeError → String
  | .zeroChars => "ZeroChars" | .moreThanOneChar => "MoreThanOneChar"
  | .loneSlash => "LoneSlash" | .invalidEscape => "InvalidEscape"
  | .bareCarriageReturn => "BareCarriageReturn"
  | .bareCarriageReturnInRawString => "BareCarriageReturnInRawString"
  | .escapeOnlyChar => "EscapeOnlyChar" | .tooShortHexEscape => "TooShortHexEscape"
  | .invalidCharInHexEscape => "InvalidCharInHexEscape"
  | .outOfRangeHexEscape => "OutOfRangeHexEscape"
  | .noBraceInUnicodeEscape => "NoBraceInUnicodeEscape"
  | .invalidCharInUnicodeEscape => "InvalidCharInUnicodeEscape"
  | .emptyUnicodeEscape => "EmptyUnicodeEscape" | .unclosedUnicodeEscape => "UnclosedUnicodeEscape"
  | .leadingUnderscoreUnicodeEscape => "LeadingUnderscoreUnicodeEscape"
  | .overlongUnicodeEscape => "OverlongUnicodeEscape"
  | .loneSurrogateUnicodeEscape => "LoneSurrogateUnicodeEscape"
  | .outOfRangeUnicodeEscape => "OutOfRangeUnicodeEscape"
  | .unicodeEscapeInByte => "UnicodeEscapeInByte" | .nonAsciiCharInByte => "NonAsciiCharInByte"
  | .unskippedWhitespaceWarning => "UnskippedWhitespaceWarning"
  | .multipleSkippedLinesWarning => "MultipleSkippedLinesWarning"

def showCbs (cbs : List Callback) : String :=
  ",".intercalate (cbs.map fun c =>
    s!"{c.start}-{c.stop}:{match c.err with | none => "Ok" | some e => errName e}")

def unescapeLine (line : String) : String :=
  let ws := (line.trimAscii.toString.splitOn " ").filter (· ≠ "")
  match ws with
  | ["cb", m, h] =>
    match (if m == "Str" then some Mode.str else if m == "BitStr" then some Mode.bitStr else none),
          unhex h with
    | some mode, some t => "cbs=" ++ showCbs (unescapeLiteral t mode)
    | _, _ => "bad-line"
  | ["cb", m] =>
    match (if m == "Str" then some Mode.str else if m == "BitStr" then some Mode.bitStr else none) with
    | some mode => "cbs=" ++ showCbs (unescapeLiteral [] mode)
    | none => "bad-line"
  | [] => "errs="
  | [w] =>
    if w.contains ':' then
      match tokenErrs w with
      | some es => "errs=" ++ showErrs es
      | none => "bad-line"
    else
      match unhex w with
      | some t => "errs=" ++ showErrs (validateLiteral .string t 0)
      | none => "bad-line"
  | items =>
    match items.mapM tokenErrs with
    | some ess => "errs=" ++ showErrs ess.flatten
    | none => "bad-line"

end Oq3.Driver.Unescape
