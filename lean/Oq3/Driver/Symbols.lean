import Oq3.Driver.Codec

namespace Oq3.Driver
open Oq3.Types Oq3.Symbols

def parseScopeType : String → Option ScopeType
  | "g" => some .global | "s" => some .subroutine | "c" => some .calibration | "l" => some .localS
  | _ => none

def parseOp (s : String) : Option Op :=
  match words s with
  | ["E", k] => (parseScopeType k).map .enter
  | ["X"] => some .exit
  | "B" :: n :: t => match parseT t with
    | some (ty, []) => some (.bind n ty)
    | _ => none
  | ["L", n] => some (.lookup n)
  | "N" :: n :: t => match parseT t with
    | some (ty, []) => some (.lookupOrNew n ty)
    | _ => none
  | ["C"] => some .lenCurrent
  | _ => none

def showOut : Out → String
  | .unit => "u"
  | .panic => "P"
  | .bound id => s!"b{id}"
  | .alreadyBound => "AB"
  | .found id n ty => s!"f{id}:{n}:{showT ty}"
  | .missing => "M"
  | .len n => s!"n{n}"

def showKind : ScopeType → String
  | .global => "g" | .subroutine => "s" | .calibration => "c" | .localS => "l"

def showFinal (t : SymTab) : String :=
  let allS := ",".intercalate (t.all.map fun s => s!"{s.name}:{showT s.ty}")
  let gatesS := ",".intercalate (t.gates.map fun (n, i, a, b) => s!"{n}:{i}:{a}:{b}")
  let hw := ",".intercalate (t.hardwareQubits.map fun (n, i) => s!"{n}:{i}")
  let kind := match t.stack with | s :: _ => showKind s.kind | [] => "?"
  s!"depth={t.stack.length};cur={kind};all={allS};gates={gatesS};hw={hw}"

/-- one `symtab` case: ops separated by ` ; `, run from `SymbolTable::new()` -/
def symtabLine (line : String) : String :=
  let opsS := (line.splitOn ";").map (·.trimAscii.toString) |>.filter (· ≠ "")
  match opsS.mapM parseOp with
  | none => "bad-op"
  | some ops =>
    let os := outs init ops
    let fin := run init ops
    ";".intercalate (os.map showOut) ++ " # " ++ showFinal fin

end Oq3.Driver
