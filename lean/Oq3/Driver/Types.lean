import Oq3.Driver.Codec
import Oq3.Props.C20

namespace Oq3.Driver
open Oq3.Types Oq3.Props.C20

def showOptDims : Option (List Nat) → String
  | none => "-"
  | some l => ",".intercalate (l.map toString)

/-- one `types` case: `A | B` -/
def typesLine (line : String) : String :=
  match line.splitOn " | " with
  | [sa, sb] =>
    match parseTFull sa, parseTFull sb with
    | some a, some b =>
      let p := promoteTypes a b
      let ics := allArithOps.map fun (n, op) => s!"{n}={showT (implicitCastType op a b)}"
      ";".intercalate ([
        s!"promote={showT p}",
        s!"pne={showT (promoteTypesNotEqual a b)}",
        s!"cancast={showB (canCastLiteral a b)}",
        s!"eqbase={showB (equalBaseType a b)}",
        s!"eqc={showB (equalUpToConstness a b)}",
        s!"eqshape={showB (equalUpToShape a b)}",
        s!"eqdims={showB (equalUpToDims a b)}",
        s!"const={showB (isConst a)}",
        s!"width={showWidth (width a)}",
        s!"scalar={showB (isScalar a)}",
        s!"quantum={showB (isQuantum a)}",
        s!"dims={showOptDims (dims a)}",
        s!"ndims={numDims a}"] ++ ics)
    | _, _ => "bad-type"
  | _ => "bad-line"

/-- guards of the recorded findings, evaluated on the same case (for attribution) -/
def typesGuards (line : String) : String :=
  match line.splitOn " | " with
  | [sa, sb] =>
    match parseTFull sa, parseTFull sb with
    | some a, some b =>
      s!"kfConstFirstOperand={showB (kfConstFirstOperand a b)};kfConstHigherOperand={showB (kfConstHigherOperand a b)};kfComplexWidths={showB (kfComplexWidths a b)};kfIntUInt={showB (kfIntUInt a b)}"
    | _, _ => "bad-type"
  | _ => "bad-line"

end Oq3.Driver
