/-
Driver mode `accessors` (I4 → I5): one output line of `oq3-run tree` / `driver tree`
(`tree=<sexp>;errors=..;cl=..;clerrors=..;..`, or the bare `<sexp>`) in, the typed-AST dump of
`oq3-run ast` out:

  `SYNTAX-ERRORS <n>`   when the lex-checked entry point (`parse_check_lex`, the one `ast` uses)
                        reported `n > 0` diagnostics (`clerrors=`) or produced no tree (`cl=none`)
  `(Program s e (..))`  otherwise: `Oq3.Acc.Dump.program` on the parsed tree
  `NO-TREE ..`          the line carries no tree (the implementation panicked while parsing)
  `BAD-TREE ..`         the S-expression could not be read (codec error)

Not part of the trusted base: a wrong codec shows up as a correspondence disagreement.
-/
import Oq3.Model.Accessors

namespace Oq3.Driver
open Oq3.Gen Oq3.Acc

namespace AccCodec

def tokenize (s : String) : Array String := Id.run do
  let mut out : Array String := #[]
  let mut cur : String := ""
  for c in s.toList do
    if c == '(' || c == ')' || c == ' ' then
      if cur ≠ "" then
        out := out.push cur
        cur := ""
      if c ≠ ' ' then out := out.push (String.singleton c)
    else cur := cur.push c
  if cur ≠ "" then out := out.push cur
  return out

def hexDigit (c : Char) : Option Nat :=
  if '0' ≤ c && c ≤ '9' then some (c.toNat - '0'.toNat)
  else if 'a' ≤ c && c ≤ 'f' then some (c.toNat - 'a'.toNat + 10)
  else none

def hexNat (s : String) : Option Nat :=
  if s.isEmpty then none
  else s.toList.foldl (fun acc c => match acc, hexDigit c with
    | some a, some d => some (a * 16 + d)
    | _, _ => none) (some 0)

def unhex (s : String) : Option (List Char) :=
  if s.isEmpty then some []
  else (s.splitOn ".").mapM fun h => (hexNat h).map Char.ofNat

/-- `KIND:start:end:hextext` -/
def parseToken (a : String) : Except String CNode :=
  match a.splitOn ":" with
  | [k, s, e, h] =>
    match SyntaxKind.ofName k, s.toNat?, e.toNat?, unhex h with
    | some k, some s, some e, some t => .ok (.token k s e t)
    | _, _, _, _ => .error s!"bad token {a}"
  | _ => .error s!"bad token {a}"

partial def parseAt (toks : Array String) (i : Nat) : Except String (CNode × Nat) :=
  match toks[i]? with
  | none => .error "unexpected end"
  | some "(" =>
    match toks[i+1]?, toks[i+2]?, toks[i+3]? with
    | some k, some s, some e =>
      match SyntaxKind.ofName k, s.toNat?, e.toNat? with
      | some k, some s, some e =>
        let rec loop (j : Nat) (acc : Array CNode) : Except String (Array CNode × Nat) :=
          match toks[j]? with
          | none => .error "unclosed node"
          | some ")" => .ok (acc, j + 1)
          | some _ =>
            match parseAt toks j with
            | .error m => .error m
            | .ok (c, j') => loop j' (acc.push c)
        match loop (i + 4) #[] with
        | .error m => .error m
        | .ok (cs, j) => .ok (.node k s e cs.toList, j)
      | _, _, _ => .error s!"bad node header {k} {s} {e}"
    | _, _, _ => .error "truncated node header"
  | some ")" => .error "unexpected )"
  | some a =>
    match parseToken a with
    | .ok t => .ok (t, i + 1)
    | .error m => .error m

def parseTree (s : String) : Except String CNode :=
  let toks := tokenize s
  match parseAt toks 0 with
  | .error m => .error m
  | .ok (t, j) => if j == toks.size then .ok t else .error "trailing input"

/-- fields `k=v` of a `;`-separated line -/
def field (parts : List String) (key : String) : Option String :=
  parts.findSome? fun p =>
    if p.startsWith (key ++ "=") then some ((p.drop (key.length + 1)).toString) else none

end AccCodec

open AccCodec in
/-- one `accessors` case -/
def accessorsLine (line : String) : String :=
  if line.startsWith "(" then
    match parseTree line with
    | .error m => "BAD-TREE " ++ m
    | .ok t => Dump.program t
  else if !line.startsWith "tree=" then "NO-TREE " ++ (line.take 40).toString
  else
    let parts := line.splitOn ";"
    let clerrors := (field parts "clerrors").getD ""
    let cl := (field parts "cl").getD "same"
    if clerrors ≠ "" || cl == "none" then
      let n := if clerrors == "" then 0 else (clerrors.splitOn ",").length
      s!"SYNTAX-ERRORS {n}"
    else if cl ≠ "same" then "CL-DIFF"
    else
      match field parts "tree" with
      | none => "NO-TREE"
      | some ts =>
        match parseTree ts with
        | .error m => "BAD-TREE " ++ m
        | .ok t => Dump.program t

end Oq3.Driver
