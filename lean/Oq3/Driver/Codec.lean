/-
Line-protocol codecs shared by all driver modes (see /verif/DESIGN.md §2.1).
Not part of the trusted proof base: a wrong codec shows up as a correspondence disagreement.
-/
import Oq3.Model.Types
import Oq3.Model.Symbols

namespace Oq3.Driver
open Oq3.Types Oq3.Symbols

def words (s : String) : List String :=
  (s.trimAscii.toString.splitOn " ").filter (· ≠ "")

def showWidth : Width → String
  | none => "-"
  | some w => toString w

def showC (c : Bool) : String := if c then "c" else "n"

def showDims (d : Dims) : String := ",".intercalate (d.dims.map toString)

partial def showT : T → String
  | .bit c => s!"Bit {showC c}"
  | .qubit => "Qubit"
  | .hwqubit => "HardwareQubit"
  | .int w c => s!"Int {showWidth w} {showC c}"
  | .uint w c => s!"UInt {showWidth w} {showC c}"
  | .float w c => s!"Float {showWidth w} {showC c}"
  | .angle w c => s!"Angle {showWidth w} {showC c}"
  | .complex w c => s!"Complex {showWidth w} {showC c}"
  | .boolT c => s!"Bool {showC c}"
  | .duration c => s!"Duration {showC c}"
  | .stretch c => s!"Stretch {showC c}"
  | .bitArray d c => s!"BitArray {showDims d} {showC c}"
  | .qubitArray d => s!"QubitArray {showDims d}"
  | .intArray d => s!"IntArray {showDims d}"
  | .uintArray d => s!"UIntArray {showDims d}"
  | .floatArray d => s!"FloatArray {showDims d}"
  | .angleArray d => s!"AngleArray {showDims d}"
  | .complexArray d => s!"ComplexArray {showDims d}"
  | .boolArray d => s!"BoolArray {showDims d}"
  | .durationArray d => s!"DurationArray {showDims d}"
  | .gate a b => s!"Gate {a} {b}"
  | .subroutine n r => s!"Sub {n} {showT r}"
  | .range => "Range"
  | .set => "Set"
  | .void => "Void"
  | .todo => "ToDo"
  | .undefined => "Undefined"

def parseWidth (s : String) : Option Width :=
  if s == "-" then some none else s.toNat?.map some

def parseC (s : String) : Option Bool :=
  if s == "c" then some true else if s == "n" then some false else none

def parseDims (s : String) : Option Dims :=
  match (s.splitOn ",").map String.toNat? with
  | [some a] => some (.d1 a)
  | [some a, some b] => some (.d2 a b)
  | [some a, some b, some c] => some (.d3 a b c)
  | _ => none

/-- parse one type from the front of a word list -/
partial def parseT : List String → Option (T × List String)
  | "Bit" :: c :: r => do some (.bit (← parseC c), r)
  | "Qubit" :: r => some (.qubit, r)
  | "HardwareQubit" :: r => some (.hwqubit, r)
  | "Int" :: w :: c :: r => do some (.int (← parseWidth w) (← parseC c), r)
  | "UInt" :: w :: c :: r => do some (.uint (← parseWidth w) (← parseC c), r)
  | "Float" :: w :: c :: r => do some (.float (← parseWidth w) (← parseC c), r)
  | "Angle" :: w :: c :: r => do some (.angle (← parseWidth w) (← parseC c), r)
  | "Complex" :: w :: c :: r => do some (.complex (← parseWidth w) (← parseC c), r)
  | "Bool" :: c :: r => do some (.boolT (← parseC c), r)
  | "Duration" :: c :: r => do some (.duration (← parseC c), r)
  | "Stretch" :: c :: r => do some (.stretch (← parseC c), r)
  | "BitArray" :: d :: c :: r => do some (.bitArray (← parseDims d) (← parseC c), r)
  | "QubitArray" :: d :: r => do some (.qubitArray (← parseDims d), r)
  | "IntArray" :: d :: r => do some (.intArray (← parseDims d), r)
  | "UIntArray" :: d :: r => do some (.uintArray (← parseDims d), r)
  | "FloatArray" :: d :: r => do some (.floatArray (← parseDims d), r)
  | "AngleArray" :: d :: r => do some (.angleArray (← parseDims d), r)
  | "ComplexArray" :: d :: r => do some (.complexArray (← parseDims d), r)
  | "BoolArray" :: d :: r => do some (.boolArray (← parseDims d), r)
  | "DurationArray" :: d :: r => do some (.durationArray (← parseDims d), r)
  | "Gate" :: a :: b :: r => do some (.gate (← a.toNat?) (← b.toNat?), r)
  | "Sub" :: n :: r => do
      let (t, r') ← parseT r
      some (.subroutine (← n.toNat?) t, r')
  | "Range" :: r => some (.range, r)
  | "Set" :: r => some (.set, r)
  | "Void" :: r => some (.void, r)
  | "ToDo" :: r => some (.todo, r)
  | "Undefined" :: r => some (.undefined, r)
  | _ => none

def parseTFull (s : String) : Option T :=
  match parseT (words s) with
  | some (t, []) => some t
  | _ => none

def showB (b : Bool) : String := if b then "1" else "0"

def parseArithOp : String → Option ArithOp
  | "Add" => some .add | "Sub" => some .sub | "Mul" => some .mul | "Div" => some .div
  | "Rem" => some .rem | "Mod" => some .mod | "Shl" => some .shl | "Shr" => some .shr
  | "BitXOr" => some .bitXOr | "BitOr" => some .bitOr | "BitAnd" => some .bitAnd
  | _ => none

def allArithOps : List (String × ArithOp) :=
  [("Add", .add), ("Sub", .sub), ("Mul", .mul), ("Div", .div), ("Rem", .rem), ("Mod", .mod),
   ("Shl", .shl), ("Shr", .shr), ("BitXOr", .bitXOr), ("BitOr", .bitOr), ("BitAnd", .bitAnd)]

end Oq3.Driver
