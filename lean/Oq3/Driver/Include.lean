/-
Driver mode `include`: one case = TAB-separated fields
  main=<P>   file=<hex path>=<R>  …   search=<hex path>,…|-   env=<hex path>,…|-
  [entry=file  mainpath=<hex path>]   (file entry point: the top-level text is the content of the file `mainpath`
                                       resolves to; `main=` is then ignored)
with <P> = `LEX n` | `SYN n inc,inc` | `AST <I5 sexp>` (as printed by `oq3-run incscan`) and
<R> = `DIR` (exists but is not a readable file) | <P> of the file's content.
Prints the line of `oq3-run include` (I6 of the main context; `inc=` tree; `semtree=`).
-/
import Oq3.Driver.Sema
import Oq3.Driver.Lex
import Oq3.Model.Includes
import Oq3.Model.EntryPoints

namespace Oq3.Driver
open Oq3.Includes Oq3.Driver.SemaD

def unhexPath (h : String) : String :=
  match parseText ((h.drop 1).toString) with   -- paths are `x<hex>` atoms
  | some cs => String.ofList cs
  | none => "?"

def parseP (s : String) : Except String Parsed :=
  if s.startsWith "LEX " then .ok (.lexErrors ((s.drop 4).toString.toNat?.getD 1))
  else if s.startsWith "SYN " then
    match ((s.drop 4).toString.splitOn " ") with
    | n :: rest =>
      let incs := (" ".intercalate rest).splitOn "," |>.filter (· ≠ "") |>.map fun i =>
        if i == "!" then none else if i == "?" then some none else some (some (unhexPath i))
      .ok (.syntaxErrors (n.toNat?.getD 1) incs)
    | _ => .error "bad SYN"
  else if s.startsWith "AST " then
    match parseSexp (s.drop 4).toString with
    | .error e => .error s!"sexp: {e}"
    | .ok sx => match program sx with
      | .error e => .error e
      | .ok p => .ok (.clean p)
  else .error s!"bad parsed field: {s.take 20}"

partial def showSrc : PSrc → String
  | .mk path parsed ie kids =>
    let nsyn := match parsed with
      | some (.lexErrors n) => n | some (.syntaxErrors n _) => n | _ => 0
    let hasAst := parsed.isSome
    let ioerr := match ie with
      | some .notFound => "NotFound" | some .permissionDenied => "PermissionDenied"
      | some .other => "Other" | _ => "-"
    s!"({path} ast={if hasAst then 1 else 0} nsyn={nsyn} ioerr={ioerr} [{" ".intercalate (kids.map showSrc)}])"

partial def showErrTree : ErrTree → String
  | .mk path errs kids =>
    let own := ",".intercalate (errs.map fun e => s!"{errorKindS e.kind}@{e.start}-{e.stop}")
    s!"({path} [{own}] [{" ".intercalate (kids.map showErrTree)}])"

def includeLine (line : String) : String :=
  let fieldsL := line.splitOn "\t"
  let get (k : String) : Option String :=
    (fieldsL.find? (·.startsWith (k ++ "="))).map fun f => (f.drop (k.length + 1)).toString
  let files : List (String × String) := fieldsL.filterMap fun f =>
    if f.startsWith "file=" then
      match ((f.drop 5).toString.splitOn "=") with
      | p :: rest => some (unhexPath p, "=".intercalate rest)
      | _ => none
    else none
  let plist (k : String) : Option (List String) :=
    match get k with
    | some "-" | none => none
    | some s => some ((s.splitOn ",").filter (· ≠ "") |>.map unhexPath)
  let showFlags (sm : Summary) : String :=
    let b (x : Bool) := if x then "1" else "0"
    s!";xflags=syn:{b sm.anySyntax},sem:{b sm.anySemantic},any:{b sm.anyErrors},nsyn:{sm.numSyntax},nstmt:{sm.numStmts}"
  -- the "content" of a file is its path (contents are opaque to the model: `parse` looks
  -- the parsed form up by path)
  let fs : FS :=
    { isFile := fun p => match files.lookup p with | some r => r != "DIR" | none => false
      read := fun p => match files.lookup p with
        | some "DIR" => .other
        | some _ => .ok p
        | none => .notFound }
  let parse : String → Parsed := fun content =>
    match files.lookup content with
    | some r => match parseP r with | .ok p => p | .error _ => .lexErrors 999
    | none => .lexErrors 999
  let search := plist "search"
  let env := plist "env"
  let nfiles := files.length
  -- the top-level source: a string (its parsed form is given), or a file (resolved, read and parsed like an include)
  let top : Except String (String × Parsed) :=
    match get "entry", get "mainpath" with
    | some "file", some mp =>
      match parseEntry fs (fun _ => .lexErrors 0) search env 1 (.file (unhexPath mp)) with
      | .error (.panic site) => .error ("PANIC " ++ site)
      | .error .fuel => .error "FUEL"
      | .ok (tag, _, _) => .ok (tag, parse tag)
    | _, _ =>
      match get "main" with
      | none => .error "bad-case"
      | some mainS => match parseP mainS with
        | .error e => .error s!"BAD-AST {e}"
        | .ok mainP => .ok ("no file", mainP)
  match top with
  | .error e => e
  | .ok (tag, mainP) =>
      match parseIncludedFiles fs parse search env (8 * (nfiles + 4)) (includesOf mainP) with
      | .error (.panic site) => "PANIC " ++ site
      | .error .fuel => "FUEL"
      | .ok included =>
        if !mainP.haveParse then
          s!"SYNTAX-ERRORS;inc=[];semtree=({tag} [] []){showFlags (summarize mainP [] none)}"
        else
        let incS := " ".intercalate (included.map showSrc)
        let fuel := 100000
        match analyzeSource fuel mainP included with
        | .error (.panic site) => "PANIC " ++ site
        | .error .fuel => "FUEL"
        | .error .unsupportedInclude => "UNSUPPORTED-INCLUDE"
        | .ok none => s!"SYNTAX-ERRORS;inc=[{incS}];semtree=({tag} [] []){showFlags (summarize mainP included none)}"
        | .ok (some (c, trees)) =>
          let own := ",".intercalate (c.semanticErrors.map fun e => s!"{errorKindS e.kind}@{e.start}-{e.stop}")
          s!"{showCtx c};inc=[{incS}];semtree=({tag} [{own}] [{" ".intercalate (trees.map showErrTree)}]){showFlags (summarize mainP included (some (c, trees)))}"

end Oq3.Driver
