/-
Driver mode `tree` (end to end, I0 → I4): source text through the lexer model, `LexedStr`,
`to_input`, the grammar model, `process` and the builder model; prints the tree and the
diagnostics in the form of `/verif/harness/src/m_tree.rs`.
-/
import Oq3.Driver.Lex
import Oq3.Driver.Parse
import Oq3.Model.Builder
import Oq3.Model.Validation

namespace Oq3.Driver
open Oq3.Lexer Oq3.Lexed Oq3.Gen Oq3.Parser Oq3.Grammar Oq3.Builder

def hexOf (s : List Char) : String :=
  ".".intercalate (s.map fun c => String.ofList (Nat.toDigits 16 c.toNat))

partial def showTree (t : Tree) (off : Nat) : String × Nat :=
  match t with
  | .leaf k txt =>
    let e := off + Oq3.Builder.utf8Len txt
    (s!"{k.name}:{off}:{e}:{hexOf txt}", e)
  | .node k cs =>
    let (parts, e) := cs.foldl (fun (acc : List String × Nat) c =>
      let (s, e) := showTree c acc.2
      (acc.1 ++ [s], e)) ([], off)
    let body := if parts.isEmpty then "" else " " ++ " ".intercalate parts
    (s!"({k.name} {off} {e}{body})", e)

def escMsg (m : String) : String :=
  ((m.replace " " "_").replace ";" "%3b").replace "," "%2c"

/-- raw token table of a `LexedStr` (without the EOF sentinel) -/
def rawToks (l : LexedStr) : List RawTok :=
  (List.range l.len).filterMap fun i =>
    match l.kindAt i, l.textAt i with
    | some k, some t => some ⟨k, t⟩
    | _, _ => none

structure TreeResult where
  tree : String
  errors : String
  nerr : Nat

/-- `parsing::parse_text` on an already lexed text -/
def parseLexed (l : LexedStr) : Except String TreeResult :=
  match l.toInput with
  | none => .error "PANIC to_input"
  | some inp =>
    let kinds := inp.kind.toArray
    let joint := inp.joint.toArray
    match parseSourceFile (defaultFuel kinds.size) kinds joint (noProgressLimit kinds.size) with
    | .error (.panic site) => .error ("PANIC " ++ site)
    | .error .fuel => .error "FUEL"
    | .error (.modelError m) => .error ("MODEL-ERROR " ++ m)
    | .ok (events, _) =>
      match process events.toList with
      | none => .error "PANIC process"
      | some steps =>
        if !balanceCheck steps then .error "PANIC parse (debug balance assertion)"
        else
          let toks := rawToks l
          match buildTree toks steps with
          | .error e => .error ("PANIC " ++ e)
          | .ok (tree, errs, _) =>
            let perrs := errs.map fun e => s!"{e.pos}-{e.pos}:{escMsg e.msg}"
            let lerrs := l.errors.filterMap fun (i, msg) =>
              match l.textRange i with
              | some (a, b) => some s!"{a}-{b}:{escMsg msg}"
              | none => none
            let nerr := (tree.leaves.filter (·.1 == .ERROR)).length + countErrNodes tree
            match Oq3.Validation.validate tree 0 with
            | .error site => .error ("PANIC " ++ site)
            | .ok verrs =>
              let vs := verrs.map fun e => s!"{e.start}-{e.stop}:{escMsg e.msg}"
              .ok ⟨(showTree tree 0).1, ",".intercalate (perrs ++ lerrs ++ vs), nerr⟩
where
  countErrNodes : Tree → Nat
    | .leaf _ _ => 0
    | .node k cs => (if k == .ERROR then 1 else 0) + (cs.attach.map fun ⟨c, _⟩ => countErrNodes c).sum

/-- one `tree` case -/
def treeLine (tab : UClassTable) (line : String) : String :=
  match parseText line with
  | none => "bad-case"
  | some text =>
    if text.any (fun c => (tab.find? (·.1 == c.toNat)).isNone) then "missing-uclass"
    else
      let uc := ucOfTable tab
      match LexedStr.new uc text with
      | none => "PANIC LexedStr::new"
      | some l =>
        match parseLexed l with
        | .error e => e
        | .ok r =>
          -- the lex-checked entry point: no tree when there is a lexer error
          let (cl, clerrors) :=
            if l.error.isEmpty then ("same", r.errors)
            else ("none", ",".intercalate (l.errors.filterMap fun (i, msg) =>
              match l.textRange i with
              | some (a, b) => some s!"{a}-{b}:{escMsg msg}"
              | none => none))
          s!"tree={r.tree};errors={r.errors};cl={cl};clerrors={clerrors};nerr={r.nerr}"

end Oq3.Driver
