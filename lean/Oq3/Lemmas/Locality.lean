import Oq3.Lemmas.Run
set_option linter.unusedSimpArgs false
namespace Oq3.Parser
open Oq3.Gen

/-- `s'` is `s` with a possibly different input from index `m` on -/
structure Agree (m : Nat) (s s' : P) : Prop where
  rest : s' = { s with kinds := s'.kinds, joint := s'.joint }
  kinds : ∀ i, i < m → s'.kindAt i = s.kindAt i
  joint : ∀ i, i < m → s'.joint.getD i false = s.joint.getD i false

/-- **Locality**: a successful run that ends at position `p` with `p + 3 ≤ m` is reproduced
verbatim (same value, same state up to the input arrays) on every input that agrees on the
first `m` tokens.  The window of 3 is the look-ahead of the API: `nth(n)` for `n ≤ 2` and the
three raw tokens of a composite `at`. -/
def Loc {α} (x : G α) : Prop :=
  ∀ m s s' r, Agree m s s' → x s = .ok r → r.2.pos + 3 ≤ m →
    ∃ t', x s' = .ok (r.1, t') ∧ Agree m r.2 t'

/-- the position never moves backwards -/
def Mono {α} (x : G α) : Prop := ∀ s r, x s = .ok r → s.pos ≤ r.2.pos

/-- the input arrays are never written -/
def KeepIn {α} (x : G α) : Prop := ∀ s r, x s = .ok r → r.2.kinds = s.kinds ∧ r.2.joint = s.joint

structure LM {α} (x : G α) : Prop where
  loc : Loc x
  mono : Mono x
  keep : KeepIn x

theorem LM.bind {α β} {x : G α} {f : α → G β} (hx : LM x) (hf : ∀ a, LM (f a)) : LM (x >>= f) := by
  constructor
  · intro m s s' r hA h hm
    obtain ⟨a, s1, h1, h2⟩ := (G.bind_ok x f s r).mp h
    have hmono := (hf a).mono s1 r h2
    obtain ⟨t1, ht1, hA1⟩ := hx.loc m s s' (a, s1) hA h1 (by simp only; omega)
    obtain ⟨t2, ht2, hA2⟩ := (hf a).loc m s1 t1 r hA1 h2 hm
    exact ⟨t2, (G.bind_ok x f s' _).mpr ⟨a, t1, ht1, ht2⟩, hA2⟩
  · intro s r h
    obtain ⟨a, s1, h1, h2⟩ := (G.bind_ok x f s r).mp h
    have := hx.mono s _ h1
    have := (hf a).mono s1 r h2
    simp only at *; omega
  · intro s r h
    obtain ⟨a, s1, h1, h2⟩ := (G.bind_ok x f s r).mp h
    have k1 := hx.keep s _ h1
    have k2 := (hf a).keep s1 r h2
    simp only at k1 k2
    exact ⟨k2.1.trans k1.1, k2.2.trans k1.2⟩

theorem LM.pure {α} (a : α) : LM (pure a : G α) := by
  constructor
  · intro m s s' r hA h _
    simp at h; subst h
    exact ⟨s', by simp, hA⟩
  · intro s r h; simp at h; subst h; exact Nat.le_refl _
  · intro s r h; simp at h; subst h; exact ⟨rfl, rfl⟩

theorem LM.fail {α} (o : Outcome) : LM (fail o : G α) :=
  ⟨fun _ _ _ _ _ h => by simp at h, fun _ _ h => by simp at h, fun _ _ h => by simp at h⟩

theorem LM.panic {α} (site : String) : LM (panic site : G α) :=
  ⟨fun _ _ _ _ _ h => by simp at h, fun _ _ h => by simp at h, fun _ _ h => by simp at h⟩

theorem LM.ite {α} (c : Prop) [Decidable c] {x y : G α} (hx : LM x) (hy : LM y) :
    LM (if c then x else y) := by
  split <;> assumption

theorem lm_andM {x y : G Bool} (hx : LM x) (hy : LM y) : LM (x <&&> y) := by
  unfold _root_.andM
  refine LM.bind hx ?_
  intro b; cases b
  · exact LM.pure _
  · exact hy

theorem lm_orM {x y : G Bool} (hx : LM x) (hy : LM y) : LM (x <||> y) := by
  unfold _root_.orM
  refine LM.bind hx ?_
  intro b; cases b
  · exact hy
  · exact LM.pure _

theorem lm_map {α β} (f : α → β) {x : G α} (hx : LM x) : LM (f <$> x) := by
  constructor
  · intro m s s' r hA h hm
    rw [G.map_ok] at h
    obtain ⟨a, s1, h1, h2⟩ := h
    subst h2
    obtain ⟨t1, ht1, hA1⟩ := hx.loc m s s' (a, s1) hA h1 hm
    exact ⟨t1, (G.map_ok f x s' _).mpr ⟨a, t1, ht1, rfl⟩, hA1⟩
  · intro s r h
    rw [G.map_ok] at h
    obtain ⟨a, s1, h1, h2⟩ := h
    subst h2
    exact hx.mono s _ h1
  · intro s r h
    rw [G.map_ok] at h
    obtain ⟨a, s1, h1, h2⟩ := h
    subst h2
    exact hx.keep s _ h1

theorem lm_notM {x : G Bool} (hx : LM x) : LM (notM x) := by
  unfold _root_.notM
  exact lm_map _ hx

/-- apply a state transformation to the final state of a run -/
def mapSt {α} (g : P → P) : Except Outcome (α × P) → Except Outcome (α × P)
  | .ok (a, t) => .ok (a, g t)
  | .error e => .error e

/-- computations that neither read nor write the input arrays -/
def Obliv {α} (x : G α) : Prop :=
  ∀ s K J, x { s with kinds := K, joint := J } = mapSt (fun t => { t with kinds := K, joint := J }) (x s)

/-- computations that keep `pos`, `kinds`, `joint` -/
def Keeps {α} (x : G α) : Prop :=
  ∀ s, x s = mapSt (fun t => { t with kinds := s.kinds, joint := s.joint, pos := s.pos }) (x s)

theorem LM.of_obliv {α} {x : G α} (ho : Obliv x) (hk : Keeps x) : LM x := by
  constructor
  · intro m s s' r hA h _
    have e1 := ho s s'.kinds s'.joint
    rw [← hA.rest, h] at e1
    have hk' := hk s
    rw [h] at hk'
    simp only [mapSt, Except.ok.injEq] at hk'
    refine ⟨_, e1, ⟨rfl, ?_, ?_⟩⟩
    · intro i hi
      have := hA.kinds i hi
      have e : r.2.kinds = s.kinds := by rw [hk']
      simp only [P.kindAt] at this ⊢
      rw [e]; exact this
    · intro i hi
      have e : r.2.joint = s.joint := by rw [hk']
      simp only; rw [e]; exact hA.joint i hi
  · intro s r h
    have hk' := hk s
    rw [h] at hk'
    simp only [mapSt, Except.ok.injEq] at hk'
    rw [hk']; exact Nat.le_refl _
  · intro s r h
    have hk' := hk s
    rw [h] at hk'
    simp only [mapSt, Except.ok.injEq] at hk'
    rw [hk']; exact ⟨rfl, rfl⟩

theorem hookTrip_input (s : P) (K : Array SyntaxKind) (J : Array Bool) :
    ({ s with kinds := K, joint := J } : P).hookTrip = s.hookTrip := rfl

@[simp] theorem mapSt_ok {α} (g : P → P) (a : α) (t : P) : mapSt g (.ok (a, t)) = .ok (a, g t) := rfl
@[simp] theorem mapSt_error {α} (g : P → P) (e : Outcome) : mapSt (α := α) g (.error e) = .error e := rfl
theorem mapSt_ite {α} (g : P → P) (c : Prop) [Decidable c] (a b : Except Outcome (α × P)) :
    mapSt g (if c then a else b) = if c then mapSt g a else mapSt g b := by
  split <;> rfl

macro "fin" : tactic => `(tactic| ((repeat rw [mapSt_ite]); rfl))

theorem pushEvent_obliv (e : Ev) : Obliv (pushEvent e) := by
  intro s K J; rw [pushEvent_eq, pushEvent_eq]; fin
theorem pushEvent_keeps (e : Ev) : Keeps (pushEvent e) := by
  intro s; rw [pushEvent_eq]; fin
theorem error_lm (msg : String) : LM (error msg) := LM.of_obliv (pushEvent_obliv _) (pushEvent_keeps _)
theorem start_lm : LM start := by
  refine LM.of_obliv ?_ ?_
  · intro s K J; rw [start_eq, start_eq]; fin
  · intro s; rw [start_eq]; fin
theorem complete_lm (m : Marker) (k : SyntaxKind) : LM (m.complete k) := by
  refine LM.of_obliv ?_ ?_
  · intro s K J; rw [complete_eq, complete_eq]
    show (match s.events[m.pos]? with | some (.start k0 fp) => _ | _ => _) = _
    cases s.events[m.pos]? with
    | none => rfl
    | some e => cases e <;> first | rfl | fin
  · intro s; rw [complete_eq]
    cases s.events[m.pos]? with
    | none => rfl
    | some e => cases e <;> first | rfl | fin
theorem abandon_lm (m : Marker) : LM m.abandon := by
  refine LM.of_obliv ?_ ?_
  · intro s K J; rw [abandon_eq, abandon_eq]
    show (if _ then _ else if _ then _ else if _ then (match s.events.back? with | some (.start k fp) => _ | _ => _) else _) = _
    cases s.events.back? with
    | none => fin
    | some e => cases e <;> fin
  · intro s; rw [abandon_eq]
    cases s.events.back? with
    | none => fin
    | some e => cases e <;> fin
theorem precede_lm (cm : CompletedMarker) : LM cm.precede := by
  refine LM.of_obliv ?_ ?_
  · intro s K J; rw [precede_eq, precede_eq]
    show (if _ then _ else (match s.started.events[cm.pos]? with | some (.start k _) => _ | _ => _)) = _
    cases s.started.events[cm.pos]? with
    | none => fin
    | some e => cases e <;> fin
  · intro s; rw [precede_eq]
    cases s.started.events[cm.pos]? with
    | none => fin
    | some e => cases e <;> fin
theorem extendTo_lm (cm : CompletedMarker) (m : Marker) : LM (cm.extendTo m) := by
  refine LM.of_obliv ?_ ?_
  · intro s K J; rw [extendTo_eq, extendTo_eq]
    show (match s.events[m.pos]? with | some (.start k _) => _ | _ => _) = _
    cases s.events[m.pos]? with
    | none => rfl
    | some e =>
      cases e <;> (try rfl)
      show (if _ then _ else (match s.events[cm.pos]? with | some (.start k' _) => _ | _ => _)) = _
      cases s.events[cm.pos]? with
      | none => fin
      | some e2 => cases e2 <;> fin
  · intro s; rw [extendTo_eq]
    cases s.events[m.pos]? with
    | none => rfl
    | some e =>
      cases e <;> (try rfl)
      show (if _ then _ else (match s.events[cm.pos]? with | some (.start k' _) => _ | _ => _)) = _
      cases s.events[cm.pos]? with
      | none => fin
      | some e2 => cases e2 <;> fin


theorem Agree.pos_eq {m s s'} (h : Agree m s s') : s'.pos = s.pos := by rw [h.rest]
theorem Agree.steps_eq {m s s'} (h : Agree m s s') : s'.steps = s.steps := by rw [h.rest]
theorem Agree.stepLimit_eq {m s s'} (h : Agree m s s') : s'.stepLimit = s.stepLimit := by rw [h.rest]

theorem Agree.upd {m s s'} (h : Agree m s s') (f : P → P)
    (hf : ∀ t K J, f { t with kinds := K, joint := J } = { f t with kinds := K, joint := J })
    (hk : (f s).kinds = s.kinds) (hj : (f s).joint = s.joint) : Agree m (f s) (f s') := by
  have e : f s' = { f s with kinds := s'.kinds, joint := s'.joint } := by
    conv => lhs; rw [h.rest]
    exact hf s s'.kinds s'.joint
  refine ⟨?_, ?_, ?_⟩
  · rw [e]
  · intro i hi
    have := h.kinds i hi
    simp only [P.kindAt] at this ⊢
    rw [e, hk]; exact this
  · intro i hi
    rw [e, hj]; exact h.joint i hi

theorem current_lm : LM current := by
  constructor
  · intro m s s' r hA h hm
    rw [current_eq] at h
    simp only [Except.ok.injEq] at h; subst h
    refine ⟨s', ?_, hA⟩
    rw [current_eq, hA.pos_eq, hA.kinds _ (by simp only at hm; omega)]
  · intro s r h
    rw [current_eq] at h
    simp only [Except.ok.injEq] at h; subst h; exact Nat.le_refl _
  · intro s r h
    rw [current_eq] at h
    simp only [Except.ok.injEq] at h; subst h; exact ⟨rfl, rfl⟩

theorem nth_lm (n : Nat) (hn : n ≤ 2) : LM (nth n) := by
  constructor
  · intro m s s' r hA h hm
    rw [nth_eq] at h
    split at h
    · simp at h
    · rename_i h1
      split at h
      · simp at h
      · rename_i h2
        simp only [Except.ok.injEq] at h; subst h
        have hm' : s.pos + 3 ≤ m := hm
        refine ⟨{ s' with steps := s'.steps + 1 }, ?_, ?_⟩
        · rw [nth_eq, hA.steps_eq, hA.stepLimit_eq, hA.pos_eq]
          simp only [h1, h2, if_false]
          rw [hA.kinds _ (by omega)]
        · exact hA.upd (fun t => { t with steps := t.steps + 1 }) (fun _ _ _ => rfl) rfl rfl
  · intro s r h
    rw [nth_eq] at h
    split at h
    · simp at h
    · split at h
      · simp at h
      · simp only [Except.ok.injEq] at h; subst h; exact Nat.le_refl _
  · intro s r h
    rw [nth_eq] at h
    split at h
    · simp at h
    · split at h
      · simp at h
      · simp only [Except.ok.injEq] at h; subst h; exact ⟨rfl, rfl⟩

theorem isJoint_agree {m s s'} (hA : Agree m s s') (i : Nat) (hi : i + 1 < m)
    (hne : s.kindAt (i + 1) ≠ .EOF) : s'.isJoint i = s.isJoint i := by
  have h1 := kindAt_ne_eof_lt s _ hne
  have h2 : s'.kindAt (i + 1) ≠ .EOF := by rw [hA.kinds _ hi]; exact hne
  have h3 := kindAt_ne_eof_lt s' _ h2
  unfold P.isJoint
  have c1 : i / 64 < (s.kinds.size + 63) / 64 := by omega
  have c2 : i / 64 < (s'.kinds.size + 63) / 64 := by omega
  simp only [c1, c2, if_true]
  rw [hA.joint i (by omega)]

theorem jointRes_agree {m s s'} (hA : Agree m s s') (i : Nat) (hi : i + 1 < m)
    (hne : s.kindAt (i + 1) ≠ .EOF) (r : Bool × P) (h : s.jointRes i = .ok r) :
    s'.jointRes i = .ok (r.1, s') ∧ r.2 = s := by
  unfold P.jointRes at h ⊢
  rw [isJoint_agree hA i hi hne]
  cases hj : s.isJoint i with
  | error e => simp [hj] at h
  | ok b => simp [hj] at h; subst h; exact ⟨rfl, rfl⟩

theorem at_lm (k : SyntaxKind) : LM (at' k) := by
  have hmono : Mono (at' k) := by
    intro s r h
    have := at_readOnly k s r h
    rw [this]; exact Nat.le_refl _
  have hkeep : KeepIn (at' k) := by
    intro s r h
    have := at_readOnly k s r h
    rw [this]; exact ⟨rfl, rfl⟩
  refine ⟨?_, hmono, hkeep⟩
  intro m s s' r hA h hm
  have hro := at_readOnly k s r h
  rw [hro] at hm
  cases hc : compositePieces k with
  | none =>
    rw [at_simple_eq k hc] at h ⊢
    simp only [Except.ok.injEq] at h; subst h
    rw [hA.pos_eq, hA.kinds _ (by omega)]
    exact ⟨s', rfl, hA⟩
  | some ps =>
    obtain ⟨hlen, _, hne⟩ := tablesOK.1 k ps hc
    rcases ps with _ | ⟨k1, _ | ⟨k2, _ | ⟨k3, _ | ⟨k4, rest⟩⟩⟩⟩
    · simp at hlen
    · simp at hlen
    · rw [at_comp2_eq k k1 k2 hc] at h ⊢
      rw [hA.pos_eq, hA.kinds _ (show s.pos < m by omega), hA.kinds _ (show s.pos + 1 < m by omega)]
      split at h
      · rename_i hkk
        simp only [hkk, if_true]
        simp only [Bool.and_eq_true, beq_iff_eq] at hkk
        have hne2 : s.kindAt (s.pos + 1) ≠ .EOF := by rw [hkk.2]; exact (hne k2 (by simp)).1
        obtain ⟨e1, e2⟩ := jointRes_agree hA s.pos (by omega) hne2 r h
        exact ⟨s', e1, by rw [e2]; exact hA⟩
      · rename_i hkk
        simp only [hkk, if_false]
        simp only [Except.ok.injEq] at h; subst h
        exact ⟨s', rfl, hA⟩
    · rw [at_comp3_eq k k1 k2 k3 hc] at h ⊢
      rw [hA.pos_eq, hA.kinds _ (show s.pos < m by omega), hA.kinds _ (show s.pos + 1 < m by omega),
        hA.kinds _ (show s.pos + 2 < m by omega)]
      split at h
      · rename_i hkk
        simp only [hkk, if_true]
        simp only [Bool.and_eq_true, beq_iff_eq] at hkk
        have hne2 : s.kindAt (s.pos + 1) ≠ .EOF := by rw [hkk.1.2]; exact (hne k2 (by simp)).1
        have hne3 : s.kindAt (s.pos + 1 + 1) ≠ .EOF := by
          rw [show s.pos + 1 + 1 = s.pos + 2 by omega, hkk.2]; exact (hne k3 (by simp)).1
        rw [isJoint_agree hA s.pos (by omega) hne2]
        cases hj : s.isJoint s.pos with
        | error e => simp [hj] at h
        | ok b =>
          cases b with
          | false =>
            simp only [hj] at h ⊢
            simp only [Except.ok.injEq] at h; subst h
            exact ⟨s', rfl, hA⟩
          | true =>
            simp only [hj] at h ⊢
            obtain ⟨e1, e2⟩ := jointRes_agree hA (s.pos + 1) (by omega) hne3 r h
            exact ⟨s', e1, by rw [e2]; exact hA⟩
      · rename_i hkk
        simp only [hkk, if_false]
        simp only [Except.ok.injEq] at h; subst h
        exact ⟨s', rfl, hA⟩
    · simp at hlen

theorem atTs_lm (ts : TokenSet) : LM (atTs ts) := by
  constructor
  · intro m s s' r hA h hm
    have hro := atTs_readOnly ts s r h
    rw [hro] at hm
    rw [atTs_eq] at h ⊢
    rw [hA.pos_eq, hA.kinds _ (by omega)]
    simp only [Except.ok.injEq] at h; subst h
    exact ⟨s', rfl, hA⟩
  · intro s r h
    have := atTs_readOnly ts s r h
    rw [this]; exact Nat.le_refl _
  · intro s r h
    have := atTs_readOnly ts s r h
    rw [this]; exact ⟨rfl, rfl⟩

/-- the state after `do_bump` -/
def P.bumped (k : SyntaxKind) (n : Nat) (t : P) : P :=
  { t with pos := t.pos + n, steps := 0, sinceBump := 1, events := t.events.push (.token k n) }

theorem doBump_lm (k : SyntaxKind) (n : Nat) : LM (doBump k n) := by
  constructor
  · intro m s s' r hA h _
    rw [doBump_eq] at h ⊢
    simp only [Except.ok.injEq] at h; subst h
    exact ⟨_, rfl, hA.upd (P.bumped k n) (fun _ _ _ => rfl) rfl rfl⟩
  · intro s r h
    rw [doBump_eq] at h
    simp only [Except.ok.injEq] at h; subst h
    exact Nat.le_add_right _ _
  · intro s r h
    rw [doBump_eq] at h
    simp only [Except.ok.injEq] at h; subst h
    exact ⟨rfl, rfl⟩

/-- one structural step of a locality proof -/
syntax "lm_lemma" : tactic
macro_rules | `(tactic| lm_lemma) => `(tactic| fail "no lemma")
syntax "lm_ih" : tactic
macro_rules | `(tactic| lm_ih) => `(tactic| fail "no ih")

macro "lm_step" : tactic => `(tactic| first
  | with_reducible exact LM.pure _
  | with_reducible exact LM.panic _
  | with_reducible exact LM.fail _
  | with_reducible exact current_lm
  | with_reducible exact at_lm _
  | with_reducible exact atTs_lm _
  | with_reducible exact nth_lm _ (by decide)
  | with_reducible exact start_lm
  | with_reducible exact error_lm _
  | with_reducible exact doBump_lm _ _
  | with_reducible exact complete_lm _ _
  | with_reducible exact abandon_lm _
  | with_reducible exact precede_lm _
  | with_reducible exact extendTo_lm _ _
  | lm_lemma
  | lm_ih
  | with_reducible apply LM.bind
  | with_reducible apply lm_andM
  | with_reducible apply lm_orM
  | with_reducible apply lm_notM
  | intro _
  | with_reducible apply LM.ite
  | split
  | dsimp only)

macro "lm" : tactic => `(tactic| repeat' lm_step)

theorem eat_lm (k : SyntaxKind) : LM (eat k) := by unfold eat; lm
macro_rules | `(tactic| lm_lemma) => `(tactic| with_reducible exact eat_lm _)
theorem bump_lm (k : SyntaxKind) : LM (bump k) := by unfold bump; lm
macro_rules | `(tactic| lm_lemma) => `(tactic| with_reducible exact bump_lm _)
theorem bumpAny_lm : LM bumpAny := by unfold bumpAny; lm
macro_rules | `(tactic| lm_lemma) => `(tactic| with_reducible exact bumpAny_lm)
theorem expect_lm (k : SyntaxKind) : LM (expect k) := by unfold expect; lm
macro_rules | `(tactic| lm_lemma) => `(tactic| with_reducible exact expect_lm _)
theorem errRecover_lm (msg : String) (rec : TokenSet) : LM (errRecover msg rec) := by unfold errRecover; lm
macro_rules | `(tactic| lm_lemma) => `(tactic| with_reducible exact errRecover_lm _ _)
theorem errAndBump_lm (msg : String) : LM (errAndBump msg) := errRecover_lm msg []
macro_rules | `(tactic| lm_lemma) => `(tactic| with_reducible exact errAndBump_lm _)

end Oq3.Parser
