/-
`Dump.program` (the I5 S-expression of `Model/Accessors.lean`, validated character for character
against `oq3-run ast`) FACTORS through the structured `Build.program`:

   `Build.program t = .ok p  →  Dump.program t = Render.program p`        (`dump_eq_render`)

where `Render` prints a value of `Ast.Program` in the I5 format (the inverse of the decoder in
`Driver/Sema.lean`).  So the typed AST the layout theorems speak about is the one the dump shows.
(When `Build.program` fails with `badAst` the dump contains a `!` for a panicked text/kind accessor,
which the decoder rejects as `BAD-AST`.)
-/
import Oq3.Lemmas.AccBuild

namespace Oq3.Acc.Render
open Oq3.Gen Oq3.Acc.Dump

def rspan (s : Ast.Span) : String := s!"{s.start} {s.stop}"

def rStr (t : String) : String := hexOf t.toList

def rName (n : Ast.Name) : String := s!"(Name {rspan n.span} {rStr n.text})"
def rIdent (n : Ast.Identifier) : String := s!"(Identifier {rspan n.span} {rStr n.text})"
def rHw (n : Ast.HardwareQubit) : String := s!"(HardwareQubit {rspan n.span} {rStr n.text})"
def rParam (n : Ast.Param) : String := s!"(Param {rspan n.span} {rStr n.text})"
def rParamList (n : Ast.ParamList) : String := s!"(ParamList {rspan n.span} {list (n.params.map rParam)})"

def rLiteralKind : Ast.LiteralKind → String
  | .intNumber t v => s!"(IntNumber {rStr t} {opt v toString})"
  | .floatNumber t v => s!"(FloatNumber {rStr t} {opt v rStr})"
  | .bitString t v => s!"(BitString {rStr t} {opt v rStr})"
  | .bool v => s!"(Bool {b v})"
  | .byte => "Byte"
  | .char => "Char"
  | .string => "String"

def rLiteral (n : Ast.Literal) : String := s!"(Literal {rspan n.span} {rLiteralKind n.kind})"

def rFilePath (n : Ast.FilePath) : String := s!"(FilePath {rspan n.span} {opt n.toString? rStr})"

def rScalarTypeKind : Ast.ScalarTypeKind → String := scalarTypeKind

mutual
def rExpr : Ast.Expr → String
  | .prefixExpr s op e => s!"(PrefixExpr {rspan s} {opt op unaryOp} {rOExpr e})"
  | .parenExpr p => rParen p
  | .binExpr s op l r => s!"(BinExpr {rspan s} {opt op binaryOp} {rOExpr l} {rOExpr r})"
  | .literal l => rLiteral l
  | .timingLiteral s u t l => s!"(TimingLiteral {rspan s} {opt u timeUnit} {opt t rStr} {opt l rLiteral})"
  | .identifier i => rIdent i
  | .hardwareQubit h => rHw h
  | .rangeExpr r => rRange r
  | .indexExpr s e ix => s!"(IndexExpr {rspan s} {rOExpr e} {rOIndexOp ix})"
  | .indexedIdentifier ii => rIndexedIdent ii
  | .measureExpression s g => s!"(MeasureExpression {rspan s} {rOGateOperand g})"
  | .returnExpr s e => s!"(ReturnExpr {rspan s} {rOExpr e})"
  | .castExpression s st e => s!"(CastExpression {rspan s} {rOScalarType st} {rOExpr e})"
  | .callExpr s al i => s!"(CallExpr {rspan s} {rOArgList al} {opt i rIdent})"
  | .gateCallExpr g => rGateCall g
  | .gPhaseCallExpr g => rGPhase g
  | .modifiedGateCallExpr s ms g gp =>
    s!"(ModifiedGateCallExpr {rspan s} {list (rModifiers ms)} {rOGateCall g} {rOGPhase gp})"
  | .unsupported .blockExpr s => s!"(BlockExprE {rspan s})"
  | .unsupported .arrayExpr s => s!"(ArrayExpr {rspan s})"
  | .unsupported .arrayLiteral s => s!"(ArrayLiteral {rspan s})"
  | .unsupported .boxExpr s => s!"(BoxExpr {rspan s})"
  | .unsupported .dimExpr s => s!"(DimExpr {rspan s})"
def rOExpr : Option Ast.Expr → String
  | none => "_"
  | some e => rExpr e
def rExprs : List Ast.Expr → List String
  | [] => []
  | e :: es => rExpr e :: rExprs es
def rParen : Ast.ParenExpr → String
  | .mk s e => s!"(ParenExpr {rspan s} {rOExpr e})"
def rOParen : Option Ast.ParenExpr → String
  | none => "_"
  | some p => rParen p
def rRange : Ast.RangeExpr → String
  | .mk s a b c => s!"(RangeExpr {rspan s} {rOExpr a} {rOExpr b} {rOExpr c})"
def rDesignator : Ast.Designator → String
  | .mk s e => s!"(Designator {rspan s} {rOExpr e})"
def rODesignator : Option Ast.Designator → String
  | none => "_"
  | some d => rDesignator d
def rScalarType : Ast.ScalarType → String
  | .mk s k d st => s!"(ScalarType {rspan s} {rScalarTypeKind k} {rODesignator d} {rOScalarType st})"
def rOScalarType : Option Ast.ScalarType → String
  | none => "_"
  | some s => rScalarType s
def rExprList : Ast.ExpressionList → String
  | .mk s es => s!"(ExpressionList {rspan s} {list (rExprs es)})"
def rOExprList : Option Ast.ExpressionList → String
  | none => "_"
  | some el => rExprList el
def rSet : Ast.SetExpression → String
  | .mk s el => s!"(SetExpression {rspan s} {rOExprList el})"
def rIndexKind : Ast.IndexKind → String
  | .setExpression s => rSet s
  | .expressionList el => rExprList el
def rOIndexKind : Option Ast.IndexKind → String
  | none => "_"
  | some k => rIndexKind k
def rIndexOp : Ast.IndexOperator → String
  | .mk s k => s!"(IndexOperator {rspan s} {rOIndexKind k})"
def rOIndexOp : Option Ast.IndexOperator → String
  | none => "_"
  | some i => rIndexOp i
def rIndexOps : List Ast.IndexOperator → List String
  | [] => []
  | i :: is => rIndexOp i :: rIndexOps is
def rIndexedIdent : Ast.IndexedIdentifier → String
  | .mk s i ixs => s!"(IndexedIdentifier {rspan s} {opt i rIdent} {list (rIndexOps ixs)})"
def rGateOperand : Ast.GateOperand → String
  | .hardwareQubit h => rHw h
  | .identifier i => rIdent i
  | .indexedIdentifier ii => rIndexedIdent ii
def rOGateOperand : Option Ast.GateOperand → String
  | none => "_"
  | some g => rGateOperand g
def rGateOperands : List Ast.GateOperand → List String
  | [] => []
  | g :: gs => rGateOperand g :: rGateOperands gs
def rQubitList : Ast.QubitList → String
  | .mk s gs => s!"(QubitList {rspan s} {list (rGateOperands gs)})"
def rOQubitList : Option Ast.QubitList → String
  | none => "_"
  | some q => rQubitList q
def rArgList : Ast.ArgList → String
  | .mk s el => s!"(ArgList {rspan s} {rOExprList el})"
def rOArgList : Option Ast.ArgList → String
  | none => "_"
  | some a => rArgList a
def rGateCall : Ast.GateCallExpr → String
  | .mk s ql al i => s!"(GateCallExpr {rspan s} {rOQubitList ql} {rOArgList al} {opt i rIdent})"
def rOGateCall : Option Ast.GateCallExpr → String
  | none => "_"
  | some g => rGateCall g
def rGPhase : Ast.GPhaseCallExpr → String
  | .mk s a => s!"(GPhaseCallExpr {rspan s} {rOExpr a})"
def rOGPhase : Option Ast.GPhaseCallExpr → String
  | none => "_"
  | some g => rGPhase g
def rModifier : Ast.Modifier → String
  | .invModifier s => s!"(InvModifier {rspan s})"
  | .powModifier s p => s!"(PowModifier {rspan s} {rOParen p})"
  | .ctrlModifier s p => s!"(CtrlModifier {rspan s} {rOParen p})"
  | .negCtrlModifier s p => s!"(NegCtrlModifier {rspan s} {rOParen p})"
def rModifiers : List Ast.Modifier → List String
  | [] => []
  | m :: ms => rModifier m :: rModifiers ms
end

def rParamType : Ast.ParamType → String
  | .scalarType s => rScalarType s
  | .arrayRefType s => s!"(ArrayRefType {rspan s})"

def rTypedParam (p : Ast.TypedParam) : String :=
  s!"(TypedParam {rspan p.span} {opt p.paramType rParamType} {b p.oldTypedParam} {opt p.name rName})"

def rTypedParamList (l : Ast.TypedParamList) : String :=
  s!"(TypedParamList {rspan l.span} {list (l.typedParams.map rTypedParam)})"

def rReturnSignature (r : Ast.ReturnSignature) : String :=
  s!"(ReturnSignature {rspan r.span} {rOScalarType r.scalarType})"

def rQubitType (q : Ast.QubitType) : String := s!"(QubitType {rspan q.span} {rODesignator q.designator})"

def rForIterable (f : Ast.ForIterable) : String :=
  s!"(ForIterable {rspan f.span} {opt f.setExpression rSet} {opt f.rangeExpr rRange} {rOExpr f.forIterableExpr})"

mutual
def rStmt : Ast.Stmt → String
  | .ifStmt s c t f => s!"(IfStmt {rspan s} {rOExpr c} {rAccBos t} {rOBos f})"
  | .whileStmt s c bd => s!"(WhileStmt {rspan s} {rOExpr c} {rAccBos bd})"
  | .forStmt s v st it bd =>
    s!"(ForStmt {rspan s} {opt v rName} {rOScalarType st} {opt it rForIterable} {rAccBos bd})"
  | .switchCaseStmt s c cs d => s!"(SwitchCaseStmt {rspan s} {rOExpr c} {list (rCases cs)} {rOBlock d})"
  | .classicalDeclarationStatement s a st k n e =>
    s!"(ClassicalDeclarationStatement {rspan s} {b a} {rOScalarType st} {b k} {opt n rName} {rOExpr e})"
  | .ioDeclarationStatement s a st n i =>
    s!"(IODeclarationStatement {rspan s} {b a} {rOScalarType st} {opt n rName} {b i})"
  | .quantumDeclarationStatement s n h q =>
    s!"(QuantumDeclarationStatement {rspan s} {opt n rName} {opt h rHw} {opt q rQubitType})"
  | .assignmentStmt s i rhs ii =>
    s!"(AssignmentStmt {rspan s} {opt i rIdent} {rOExpr rhs} {opt ii rIndexedIdent})"
  | .breakStmt s => s!"(BreakStmt {rspan s})"
  | .continueStmt s => s!"(ContinueStmt {rspan s})"
  | .endStmt s => s!"(EndStmt {rspan s})"
  | .gate s n a q bd => s!"(Gate {rspan s} {opt n rName} {opt a rParamList} {opt q rParamList} {rOBlock bd})"
  | .defStmt s n tp bd rs =>
    s!"(Def {rspan s} {opt n rName} {opt tp rTypedParamList} {rOBlock bd} {opt rs rReturnSignature})"
  | .barrier s q => s!"(Barrier {rspan s} {rOQubitList q})"
  | .delayStmt s q d => s!"(DelayStmt {rspan s} {rOQubitList q} {rODesignator d})"
  | .reset s g => s!"(Reset {rspan s} {rOGateOperand g})"
  | .includeStmt s f => s!"(Include {rspan s} {opt f rFilePath})"
  | .exprStmt s e => s!"(ExprStmt {rspan s} {rOExpr e})"
  | .versionString s => s!"(VersionString {rspan s})"
  | .pragmaStatement s t => s!"(PragmaStatement {rspan s} {rStr t})"
  | .annotationStatement s t => s!"(AnnotationStatement {rspan s} {rStr t})"
  | .aliasDeclarationStatement s n e => s!"(AliasDeclarationStatement {rspan s} {opt n rName} {rOExpr e})"
  | .notImpl .oldStyleDeclarationStatement s => s!"(OldStyleDeclarationStatement {rspan s})"
  | .notImpl .defCal s => s!"(DefCal {rspan s})"
  | .notImpl .cal s => s!"(Cal {rspan s})"
  | .notImpl .defCalGrammar s => s!"(DefCalGrammar {rspan s})"
  | .notImpl .letStmt s => s!"(LetStmt {rspan s})"
  | .notImpl .measure s => s!"(Measure {rspan s})"
  | .notImpl .externStmt s => s!"(ExternStmt {rspan s})"
def rStmts : List Ast.Stmt → List String
  | [] => []
  | s :: ss => rStmt s :: rStmts ss
def rBlock : Ast.BlockExpr → String
  | .mk s ss => s!"(BlockExpr {rspan s} {list (rStmts ss)})"
def rOBlock : Option Ast.BlockExpr → String
  | none => "_"
  | some bl => rBlock bl
def rBos : Ast.BlockOrStmt → String
  | .blockExpr bl => s!"(BosBlock {rBlock bl})"
  | .stmt s => s!"(BosStmt {rStmt s})"
def rOBos : Option Ast.BlockOrStmt → String
  | none => "_"
  | some v => rBos v
def rAccBos : Ast.Acc Ast.BlockOrStmt → String
  | .ok v => rBos v
  | .panicked => "!"
def rCase : Ast.CaseExpr → String
  | .mk s el bl => s!"(CaseExpr {rspan s} {rOExprList el} {rOBlock bl})"
def rCases : List Ast.CaseExpr → List String
  | [] => []
  | c :: cs => rCase c :: rCases cs
end

/-- the I5 line of a typed AST -/
def program (p : Ast.Program) : String := s!"(Program {rspan p.span} {list (rStmts p.statements)})"

end Oq3.Acc.Render

namespace Oq3.Acc.Render
open Oq3.Gen Oq3.Acc.Dump

/-! ### `O`/`L` variants as `opt` / `map` -/

theorem rOExpr_eq (o : Option Ast.Expr) : rOExpr o = opt o rExpr := by cases o <;> rfl
theorem rExprs_eq (l : List Ast.Expr) : rExprs l = l.map rExpr := by
  induction l with
  | nil => rfl
  | cons x xs ih => simp [rExprs, ih]
theorem rOParen_eq (o : Option Ast.ParenExpr) : rOParen o = opt o rParen := by cases o <;> rfl
theorem rODesignator_eq (o : Option Ast.Designator) : rODesignator o = opt o rDesignator := by cases o <;> rfl
theorem rOScalarType_eq (o : Option Ast.ScalarType) : rOScalarType o = opt o rScalarType := by cases o <;> rfl
theorem rOExprList_eq (o : Option Ast.ExpressionList) : rOExprList o = opt o rExprList := by cases o <;> rfl
theorem rOIndexKind_eq (o : Option Ast.IndexKind) : rOIndexKind o = opt o rIndexKind := by cases o <;> rfl
theorem rOIndexOp_eq (o : Option Ast.IndexOperator) : rOIndexOp o = opt o rIndexOp := by cases o <;> rfl
theorem rIndexOps_eq (l : List Ast.IndexOperator) : rIndexOps l = l.map rIndexOp := by
  induction l with
  | nil => rfl
  | cons x xs ih => simp [rIndexOps, ih]
theorem rOGateOperand_eq (o : Option Ast.GateOperand) : rOGateOperand o = opt o rGateOperand := by
  cases o <;> rfl
theorem rGateOperands_eq (l : List Ast.GateOperand) : rGateOperands l = l.map rGateOperand := by
  induction l with
  | nil => rfl
  | cons x xs ih => simp [rGateOperands, ih]
theorem rOQubitList_eq (o : Option Ast.QubitList) : rOQubitList o = opt o rQubitList := by cases o <;> rfl
theorem rOArgList_eq (o : Option Ast.ArgList) : rOArgList o = opt o rArgList := by cases o <;> rfl
theorem rOGateCall_eq (o : Option Ast.GateCallExpr) : rOGateCall o = opt o rGateCall := by cases o <;> rfl
theorem rOGPhase_eq (o : Option Ast.GPhaseCallExpr) : rOGPhase o = opt o rGPhase := by cases o <;> rfl
theorem rModifiers_eq (l : List Ast.Modifier) : rModifiers l = l.map rModifier := by
  induction l with
  | nil => rfl
  | cons x xs ih => simp [rModifiers, ih]
theorem rStmts_eq (l : List Ast.Stmt) : rStmts l = l.map rStmt := by
  induction l with
  | nil => rfl
  | cons x xs ih => simp [rStmts, ih]
theorem rOBlock_eq (o : Option Ast.BlockExpr) : rOBlock o = opt o rBlock := by cases o <;> rfl
theorem rOBos_eq (o : Option Ast.BlockOrStmt) : rOBos o = opt o rBos := by cases o <;> rfl
theorem rCases_eq (l : List Ast.CaseExpr) : rCases l = l.map rCase := by
  induction l with
  | nil => rfl
  | cons x xs ih => simp [rCases, ih]

/-! ### inversion of the `BM` combinators -/

theorem map_ok {α β : Type} {x : BM α} {f : α → β} {v : β} (h : x.map f = .ok v) :
    ∃ a, x = .ok a ∧ v = f a := by
  cases x with
  | error e => cases h
  | ok a => cases h; exact ⟨a, rfl, rfl⟩

theorem bind_ok {α β : Type} {x : BM α} {f : α → BM β} {v : β}
    (h : (match x with | Except.error e => Except.error e | Except.ok a => f a) = .ok v) :
    ∃ a, x = .ok a ∧ f a = .ok v := by
  cases x with
  | error e => cases h
  | ok a => exact ⟨a, rfl, h⟩

theorem optM_render {α : Type} {f : CNode → BM α} {g : CNode → String} {r : α → String}
    (o : Option CNode) (h : ∀ c a, f c = .ok a → g c = r a) {e : Option α}
    (he : Build.optM f o = .ok e) : opt o g = opt e r := by
  cases o with
  | none => cases he; rfl
  | some c =>
    obtain ⟨a, ha, rfl⟩ := map_ok he
    exact h c a ha

theorem listM_render {α : Type} {f : CNode → BM α} {g : CNode → String} {r : α → String}
    (l : List CNode) (h : ∀ c a, f c = .ok a → g c = r a) {as : List α}
    (he : Build.listM f l = .ok as) : l.map g = as.map r := by
  induction l generalizing as with
  | nil => cases he; rfl
  | cons c cs ih =>
    simp only [Build.listM] at he
    obtain ⟨a, ha, hrest⟩ := bind_ok he
    obtain ⟨as', has, rfl⟩ := map_ok hrest
    simp [h c a ha, ih has]

theorem rng_eq (n : CNode) : rng n = rspan (Build.span n) := rfl

theorem rStr_str (cs : List Char) : rStr (Build.str cs) = hexOf cs := by
  simp [rStr, Build.str]

/-- `bmcase x as a hx at h`: `h` is `(match x with | .error e => .error e | .ok a => ..) = .ok v`;
keep the `.ok a` case with `hx : x = .ok a` -/
syntax "bmcase " term " as " ident ident " at " ident : tactic
macro_rules
  | `(tactic| bmcase $x as $a $hx at $h) =>
    `(tactic| (
        have hex : ∃ a, $x = Except.ok a := by
          cases hx0 : $x with
          | ok a => exact ⟨a, rfl⟩
          | error e => rw [hx0] at $h:ident; cases $h:ident
        have ⟨$a:ident, $hx:ident⟩ := hex
        rw [$hx:ident] at $h:ident
        simp only at $h:ident))

/-! ### leaves -/

theorem text_render {n : CNode} {t : String} (h : Build.text n = .ok t) :
    pText (HasTextNode.text n) = rStr t := by
  unfold Build.text at h
  obtain ⟨a, ha, rfl⟩ := map_ok h
  cases hx : HasTextNode.text n with
  | panic => rw [hx] at ha; cases ha
  | ok cs => rw [hx] at ha; cases ha; simp [pText, rStr_str]

theorem name_render (n : CNode) (v : Ast.Name) (h : Build.name n = .ok v) : name n = rName v := by
  unfold Build.name at h
  obtain ⟨t, ht, rfl⟩ := map_ok h
  unfold name rName; rw [text_render ht]; rfl

theorem identifier_render (n : CNode) (v : Ast.Identifier) (h : Build.identifier n = .ok v) :
    identifier n = rIdent v := by
  unfold Build.identifier at h
  obtain ⟨t, ht, rfl⟩ := map_ok h
  unfold identifier rIdent; rw [text_render ht]; rfl

theorem hardwareQubit_render (n : CNode) (v : Ast.HardwareQubit) (h : Build.hardwareQubit n = .ok v) :
    hardwareQubit n = rHw v := by
  unfold Build.hardwareQubit at h
  obtain ⟨t, ht, rfl⟩ := map_ok h
  unfold hardwareQubit rHw; rw [text_render ht]; rfl

theorem param_render (n : CNode) (v : Ast.Param) (h : Build.param n = .ok v) : param n = rParam v := by
  unfold Build.param at h
  obtain ⟨t, ht, rfl⟩ := map_ok h
  unfold param rParam; rw [text_render ht]; rfl

theorem paramList_render (n : CNode) (v : Ast.ParamList) (h : Build.paramList n = .ok v) :
    paramList n = rParamList v := by
  unfold Build.paramList at h
  obtain ⟨ps, hps, rfl⟩ := map_ok h
  unfold paramList rParamList; rw [listM_render _ param_render hps]; rfl

theorem opt_map_str (o : Option (List Char)) : opt (o.map Build.str) rStr = opt o hexOf := by
  cases o with
  | none => rfl
  | some cs => exact rStr_str cs

theorem literalKind_render (k : LiteralKind) : literalKind k = rLiteralKind (Build.literalKind k) := by
  cases k with
  | intNumber t => simp only [literalKind, rLiteralKind, Build.literalKind, rStr_str]
  | floatNumber t => simp only [literalKind, rLiteralKind, Build.literalKind, rStr_str, opt_map_str]
  | bitString t => simp only [literalKind, rLiteralKind, Build.literalKind, rStr_str, opt_map_str]
  | bool v => rfl
  | byte t => rfl
  | char t => rfl
  | string t => rfl

theorem literal_render (n : CNode) (v : Ast.Literal) (h : Build.literal n = .ok v) :
    literal n = rLiteral v := by
  unfold Build.literal at h
  obtain ⟨k, hk, rfl⟩ := map_ok h
  cases hx : Literal.kind n with
  | panic => rw [hx] at hk; cases hk
  | ok k' =>
    rw [hx] at hk; cases hk
    unfold literal rLiteral
    simp only [hx, literalKind_render]; rfl

theorem timingLiteral_render (n : CNode) (v : Ast.Expr) (h : Build.timingLiteral n = .ok v) :
    timingLiteral n = rExpr v := by
  unfold Build.timingLiteral at h
  cases hx : TimingLiteral.time_unit n with
  | panic => rw [hx] at h; cases h
  | ok u =>
    rw [hx] at h
    simp only [Build.ofPRes] at h
    bmcase Build.optM Build.text (TimingLiteral.identifier n) as it hit at h
    obtain ⟨l, hl, rfl⟩ := map_ok h
    unfold timingLiteral
    simp only [hx]
    rw [optM_render (g := fun i => pText (HasTextNode.text i)) (r := rStr) _ (fun c a hc => text_render hc) hit,
      optM_render _ literal_render hl]
    rfl

theorem filePath_render (n : CNode) (v : Ast.FilePath) (h : Build.filePath n = .ok v) :
    filePath n = rFilePath v := by
  unfold Build.filePath at h
  obtain ⟨s, hs, rfl⟩ := map_ok h
  cases hx : FilePath.to_string n with
  | panic => rw [hx] at hs; cases hs
  | ok s' =>
    rw [hx] at hs; cases hs
    unfold filePath rFilePath
    simp only [hx, opt_map_str]; rfl

/-! ### first mutual block -/

structure IH1 (fuel : Nat) : Prop where
  expr : ∀ n v, Build.expr fuel n = .ok v → expr fuel n = rExpr v
  designator : ∀ n v, Build.designator fuel n = .ok v → designator fuel n = rDesignator v
  scalarType : ∀ n v, Build.scalarType fuel n = .ok v → scalarType fuel n = rScalarType v
  expressionList : ∀ n v, Build.expressionList fuel n = .ok v → expressionList fuel n = rExprList v
  setExpression : ∀ n v, Build.setExpression fuel n = .ok v → setExpression fuel n = rSet v
  rangeExpr : ∀ n v, Build.rangeExpr fuel n = .ok v → rangeExpr fuel n = rRange v
  indexOperator : ∀ n v, Build.indexOperator fuel n = .ok v → indexOperator fuel n = rIndexOp v
  indexedIdentifier : ∀ n v, Build.indexedIdentifier fuel n = .ok v →
    indexedIdentifier fuel n = rIndexedIdent v
  gateOperand : ∀ n v, Build.gateOperand fuel n = .ok v → gateOperand fuel n = rGateOperand v
  qubitList : ∀ n v, Build.qubitList fuel n = .ok v → qubitList fuel n = rQubitList v
  argList : ∀ n v, Build.argList fuel n = .ok v → argList fuel n = rArgList v
  parenExpr : ∀ n v, Build.parenExpr fuel n = .ok v → parenExpr fuel n = rParen v
  gateCallExpr : ∀ n v, Build.gateCallExpr fuel n = .ok v → gateCallExpr fuel n = rGateCall v
  gPhaseCallExpr : ∀ n v, Build.gPhaseCallExpr fuel n = .ok v → gPhaseCallExpr fuel n = rGPhase v
  modifier : ∀ n v, Build.modifier fuel n = .ok v → modifier fuel n = rModifier v

variable {fuel : Nat}

theorem s_designator (ih : IH1 fuel) (n : CNode) (v : Ast.Designator)
    (h : Build.designator (fuel + 1) n = .ok v) : designator (fuel + 1) n = rDesignator v := by
  unfold Build.designator at h
  obtain ⟨e, he, rfl⟩ := map_ok h
  unfold designator
  rw [optM_render _ ih.expr he, rng_eq, ← rOExpr_eq]; rfl

theorem s_scalarType (ih : IH1 fuel) (n : CNode) (v : Ast.ScalarType)
    (h : Build.scalarType (fuel + 1) n = .ok v) : scalarType (fuel + 1) n = rScalarType v := by
  unfold Build.scalarType at h
  cases hx : ScalarType.kind n with
  | panic => rw [hx] at h; cases h
  | ok k' =>
    rw [hx] at h
    simp only [Build.ofPRes] at h
    bmcase Build.optM (Build.designator fuel) (ScalarType.designator n) as d hd at h
    obtain ⟨s, hs, rfl⟩ := map_ok h
    unfold scalarType
    simp only [hx]
    rw [optM_render _ ih.designator hd, optM_render _ ih.scalarType hs, rng_eq,
      ← rODesignator_eq, ← rOScalarType_eq]; rfl

theorem s_expressionList (ih : IH1 fuel) (n : CNode) (v : Ast.ExpressionList)
    (h : Build.expressionList (fuel + 1) n = .ok v) : expressionList (fuel + 1) n = rExprList v := by
  unfold Build.expressionList at h
  obtain ⟨es, hes, rfl⟩ := map_ok h
  unfold expressionList
  rw [listM_render _ ih.expr hes, rng_eq, ← rExprs_eq]; rfl

theorem s_setExpression (ih : IH1 fuel) (n : CNode) (v : Ast.SetExpression)
    (h : Build.setExpression (fuel + 1) n = .ok v) : setExpression (fuel + 1) n = rSet v := by
  unfold Build.setExpression at h
  obtain ⟨e, he, rfl⟩ := map_ok h
  unfold setExpression
  rw [optM_render _ ih.expressionList he, rng_eq, ← rOExprList_eq]; rfl

theorem s_rangeExpr (ih : IH1 fuel) (n : CNode) (v : Ast.RangeExpr)
    (h : Build.rangeExpr (fuel + 1) n = .ok v) : rangeExpr (fuel + 1) n = rRange v := by
  unfold Build.rangeExpr at h
  bmcase Build.optM (Build.expr fuel) (RangeExpr.start_step_stop n).1 as a ha at h
  bmcase Build.optM (Build.expr fuel) (RangeExpr.start_step_stop n).2.1 as b hb at h
  obtain ⟨c, hc, rfl⟩ := map_ok h
  unfold rangeExpr
  simp only
  rw [optM_render _ ih.expr ha, optM_render _ ih.expr hb, optM_render _ ih.expr hc, rng_eq,
    ← rOExpr_eq, ← rOExpr_eq, ← rOExpr_eq]; rfl

theorem indexKindOf_render (ih : IH1 fuel) (c : CNode) (a : Ast.IndexKind)
    (h : Build.indexKindOf (Build.setExpression fuel) (Build.expressionList fuel) c = .ok a) :
    (if c.kind == .SET_EXPRESSION then setExpression fuel c else expressionList fuel c) = rIndexKind a := by
  unfold Build.indexKindOf at h
  split at h
  · rename_i hk
    obtain ⟨x, hx, rfl⟩ := map_ok h
    simp only [hk, if_true, rIndexKind]; exact ih.setExpression c x hx
  · rename_i hk
    obtain ⟨x, hx, rfl⟩ := map_ok h
    simp only [hk, if_false, rIndexKind]; exact ih.expressionList c x hx

theorem s_indexOperator (ih : IH1 fuel) (n : CNode) (v : Ast.IndexOperator)
    (h : Build.indexOperator (fuel + 1) n = .ok v) : indexOperator (fuel + 1) n = rIndexOp v := by
  unfold Build.indexOperator at h
  obtain ⟨k, hk, rfl⟩ := map_ok h
  unfold indexOperator
  simp only
  rw [optM_render _ (indexKindOf_render ih) hk, rng_eq, ← rOIndexKind_eq]; rfl

theorem s_indexedIdentifier (ih : IH1 fuel) (n : CNode) (v : Ast.IndexedIdentifier)
    (h : Build.indexedIdentifier (fuel + 1) n = .ok v) :
    indexedIdentifier (fuel + 1) n = rIndexedIdent v := by
  unfold Build.indexedIdentifier at h
  bmcase Build.optM Build.identifier (IndexedIdentifier.identifier n) as i hi at h
  obtain ⟨ops, hops, rfl⟩ := map_ok h
  unfold indexedIdentifier
  rw [optM_render _ identifier_render hi, listM_render _ ih.indexOperator hops, rng_eq, ← rIndexOps_eq]; rfl

theorem s_gateOperand (ih : IH1 fuel) (n : CNode) (v : Ast.GateOperand)
    (h : Build.gateOperand (fuel + 1) n = .ok v) : gateOperand (fuel + 1) n = rGateOperand v := by
  unfold Build.gateOperand at h
  unfold gateOperand
  split
  · rename_i hk
    simp only [hk, beq_self_eq_true, if_true] at h
    obtain ⟨x, hx, rfl⟩ := map_ok h
    exact hardwareQubit_render n x hx
  · rename_i hk
    simp only [hk, show (SyntaxKind.IDENTIFIER == SyntaxKind.HARDWARE_QUBIT) = false from rfl,
      Bool.false_eq_true, if_false, beq_self_eq_true, if_true] at h
    obtain ⟨x, hx, rfl⟩ := map_ok h
    exact identifier_render n x hx
  · rename_i h1 h2
    have e1 : (n.kind == SyntaxKind.HARDWARE_QUBIT) = false := by
      cases hb : n.kind == SyntaxKind.HARDWARE_QUBIT
      · rfl
      · exact absurd (eq_of_beq hb) h1
    have e2 : (n.kind == SyntaxKind.IDENTIFIER) = false := by
      cases hb : n.kind == SyntaxKind.IDENTIFIER
      · rfl
      · exact absurd (eq_of_beq hb) h2
    simp only [e1, e2, Bool.false_eq_true, if_false] at h
    obtain ⟨x, hx, rfl⟩ := map_ok h
    exact ih.indexedIdentifier n x hx

theorem s_qubitList (ih : IH1 fuel) (n : CNode) (v : Ast.QubitList)
    (h : Build.qubitList (fuel + 1) n = .ok v) : qubitList (fuel + 1) n = rQubitList v := by
  unfold Build.qubitList at h
  obtain ⟨gs, hgs, rfl⟩ := map_ok h
  unfold qubitList
  rw [listM_render _ ih.gateOperand hgs, rng_eq, ← rGateOperands_eq]; rfl

theorem s_argList (ih : IH1 fuel) (n : CNode) (v : Ast.ArgList)
    (h : Build.argList (fuel + 1) n = .ok v) : argList (fuel + 1) n = rArgList v := by
  unfold Build.argList at h
  obtain ⟨e, he, rfl⟩ := map_ok h
  unfold argList
  rw [optM_render _ ih.expressionList he, rng_eq, ← rOExprList_eq]; rfl

theorem s_parenExpr (ih : IH1 fuel) (n : CNode) (v : Ast.ParenExpr)
    (h : Build.parenExpr (fuel + 1) n = .ok v) : parenExpr (fuel + 1) n = rParen v := by
  unfold Build.parenExpr at h
  obtain ⟨e, he, rfl⟩ := map_ok h
  unfold parenExpr
  rw [optM_render _ ih.expr he, rng_eq, ← rOExpr_eq]; rfl

theorem s_gateCallExpr (ih : IH1 fuel) (n : CNode) (v : Ast.GateCallExpr)
    (h : Build.gateCallExpr (fuel + 1) n = .ok v) : gateCallExpr (fuel + 1) n = rGateCall v := by
  unfold Build.gateCallExpr at h
  bmcase Build.optM (Build.qubitList fuel) (GateCallExpr.qubit_list n) as q hq at h
  bmcase Build.optM (Build.argList fuel) (GateCallExpr.arg_list n) as a ha at h
  obtain ⟨i, hi, rfl⟩ := map_ok h
  unfold gateCallExpr
  rw [optM_render _ ih.qubitList hq, optM_render _ ih.argList ha, optM_render _ identifier_render hi,
    rng_eq, ← rOQubitList_eq, ← rOArgList_eq]; rfl

theorem s_gPhaseCallExpr (ih : IH1 fuel) (n : CNode) (v : Ast.GPhaseCallExpr)
    (h : Build.gPhaseCallExpr (fuel + 1) n = .ok v) : gPhaseCallExpr (fuel + 1) n = rGPhase v := by
  unfold Build.gPhaseCallExpr at h
  obtain ⟨e, he, rfl⟩ := map_ok h
  unfold gPhaseCallExpr
  rw [optM_render _ ih.expr he, rng_eq, ← rOExpr_eq]; rfl

theorem beq_false_of_ne {a b : SyntaxKind} (h : a ≠ b) : (a == b) = false := by
  cases hb : a == b
  · rfl
  · exact absurd (eq_of_beq hb) h

theorem s_modifier (ih : IH1 fuel) (n : CNode) (v : Ast.Modifier)
    (h : Build.modifier (fuel + 1) n = .ok v) : modifier (fuel + 1) n = rModifier v := by
  unfold Build.modifier at h
  unfold modifier
  split
  · rename_i hk
    simp only [hk, beq_self_eq_true, if_true] at h
    cases h; rfl
  · rename_i hk
    simp only [hk, show (SyntaxKind.POW_MODIFIER == SyntaxKind.INV_MODIFIER) = false from rfl,
      Bool.false_eq_true, if_false, beq_self_eq_true, if_true] at h
    obtain ⟨p, hp, rfl⟩ := map_ok h
    rw [optM_render _ ih.parenExpr hp, rng_eq, ← rOParen_eq]; rfl
  · rename_i hk
    simp only [hk, show (SyntaxKind.CTRL_MODIFIER == SyntaxKind.INV_MODIFIER) = false from rfl,
      show (SyntaxKind.CTRL_MODIFIER == SyntaxKind.POW_MODIFIER) = false from rfl,
      Bool.false_eq_true, if_false, beq_self_eq_true, if_true] at h
    obtain ⟨p, hp, rfl⟩ := map_ok h
    rw [optM_render _ ih.parenExpr hp, rng_eq, ← rOParen_eq]; rfl
  · rename_i h1 h2 h3
    simp only [beq_false_of_ne h1, beq_false_of_ne h2, beq_false_of_ne h3, Bool.false_eq_true, if_false] at h
    obtain ⟨p, hp, rfl⟩ := map_ok h
    rw [optM_render _ ih.parenExpr hp, rng_eq, ← rOParen_eq]; rfl

theorem s_expr (ih : IH1 fuel) (n : CNode) (v : Ast.Expr)
    (h : Build.expr (fuel + 1) n = .ok v) : expr (fuel + 1) n = rExpr v := by
  unfold expr
  split
  · -- PREFIX_EXPR
    rename_i hk
    simp only [Build.expr, hk] at h
    obtain ⟨e, he, rfl⟩ := map_ok h
    rw [optM_render _ ih.expr he, rng_eq, ← rOExpr_eq]; rfl
  · rename_i hk
    simp only [Build.expr, hk] at h
    obtain ⟨x, hx, rfl⟩ := map_ok h
    exact ih.parenExpr n x hx
  · -- BIN_EXPR
    rename_i hk
    simp only [Build.expr, hk] at h
    bmcase Build.optM (Build.expr fuel) (BinExpr.lhs n) as l hl at h
    obtain ⟨r, hr, rfl⟩ := map_ok h
    rw [optM_render _ ih.expr hl, optM_render _ ih.expr hr, rng_eq, ← rOExpr_eq, ← rOExpr_eq]; rfl
  · rename_i hk
    simp only [Build.expr, hk] at h
    obtain ⟨x, hx, rfl⟩ := map_ok h
    exact literal_render n x hx
  · rename_i hk
    simp only [Build.expr, hk] at h
    exact timingLiteral_render n v h
  · rename_i hk
    simp only [Build.expr, hk] at h
    obtain ⟨x, hx, rfl⟩ := map_ok h
    exact identifier_render n x hx
  · rename_i hk
    simp only [Build.expr, hk] at h
    obtain ⟨x, hx, rfl⟩ := map_ok h
    exact hardwareQubit_render n x hx
  · rename_i hk
    simp only [Build.expr, hk] at h
    obtain ⟨x, hx, rfl⟩ := map_ok h
    exact ih.rangeExpr n x hx
  · -- INDEX_EXPR
    rename_i hk
    simp only [Build.expr, hk] at h
    bmcase Build.optM (Build.expr fuel) (IndexExpr.expr n) as e he at h
    obtain ⟨i, hi, rfl⟩ := map_ok h
    rw [optM_render _ ih.expr he, optM_render _ ih.indexOperator hi, rng_eq, ← rOExpr_eq, ← rOIndexOp_eq]; rfl
  · rename_i hk
    simp only [Build.expr, hk] at h
    obtain ⟨x, hx, rfl⟩ := map_ok h
    exact ih.indexedIdentifier n x hx
  · -- MEASURE_EXPRESSION
    rename_i hk
    simp only [Build.expr, hk] at h
    obtain ⟨g, hg, rfl⟩ := map_ok h
    rw [optM_render _ ih.gateOperand hg, rng_eq, ← rOGateOperand_eq]; rfl
  · -- RETURN_EXPR
    rename_i hk
    simp only [Build.expr, hk] at h
    obtain ⟨e, he, rfl⟩ := map_ok h
    rw [optM_render _ ih.expr he, rng_eq, ← rOExpr_eq]; rfl
  · -- CAST_EXPRESSION
    rename_i hk
    simp only [Build.expr, hk] at h
    bmcase Build.optM (Build.scalarType fuel) (CastExpression.scalar_type n) as st hst at h
    obtain ⟨e, he, rfl⟩ := map_ok h
    rw [optM_render _ ih.scalarType hst, optM_render _ ih.expr he, rng_eq, ← rOScalarType_eq, ← rOExpr_eq]; rfl
  · -- CALL_EXPR
    rename_i hk
    simp only [Build.expr, hk] at h
    bmcase Build.optM (Build.argList fuel) (CallExpr.arg_list n) as a ha at h
    obtain ⟨i, hi, rfl⟩ := map_ok h
    rw [optM_render _ ih.argList ha, optM_render _ identifier_render hi, rng_eq, ← rOArgList_eq]; rfl
  · rename_i hk
    simp only [Build.expr, hk] at h
    obtain ⟨x, hx, rfl⟩ := map_ok h
    exact ih.gateCallExpr n x hx
  · rename_i hk
    simp only [Build.expr, hk] at h
    obtain ⟨x, hx, rfl⟩ := map_ok h
    exact ih.gPhaseCallExpr n x hx
  · -- MODIFIED_GATE_CALL_EXPR
    rename_i hk
    simp only [Build.expr, hk] at h
    bmcase Build.listM (Build.modifier fuel) (ModifiedGateCallExpr.modifiers n) as ms hms at h
    bmcase Build.optM (Build.gateCallExpr fuel) (ModifiedGateCallExpr.gate_call_expr n) as g hg at h
    obtain ⟨p, hp, rfl⟩ := map_ok h
    rw [listM_render _ ih.modifier hms, optM_render _ ih.gateCallExpr hg, optM_render _ ih.gPhaseCallExpr hp,
      rng_eq, ← rModifiers_eq, ← rOGateCall_eq, ← rOGPhase_eq]; rfl
  · rename_i hk
    simp only [Build.expr, hk] at h
    cases h; rfl
  · rename_i hk
    simp only [Build.expr, hk] at h
    cases h; rfl
  · rename_i hk
    simp only [Build.expr, hk] at h
    cases h; rfl
  · rename_i hk
    simp only [Build.expr, hk] at h
    cases h; rfl
  · rename_i hk
    simp only [Build.expr, hk] at h
    cases h; rfl
  · -- not an Expr kind: `Build.expr` fails
    exfalso
    unfold Build.expr at h
    split at h <;> first | contradiction | cases h

theorem ih1_zero : IH1 0 := by
  constructor <;> intro n v h <;> cases h

theorem ih1_succ (ih : IH1 fuel) : IH1 (fuel + 1) :=
  ⟨s_expr ih, s_designator ih, s_scalarType ih, s_expressionList ih, s_setExpression ih, s_rangeExpr ih,
   s_indexOperator ih, s_indexedIdentifier ih, s_gateOperand ih, s_qubitList ih, s_argList ih,
   s_parenExpr ih, s_gateCallExpr ih, s_gPhaseCallExpr ih, s_modifier ih⟩

theorem ih1 : ∀ fuel, IH1 fuel
  | 0 => ih1_zero
  | fuel + 1 => ih1_succ (ih1 fuel)

/-! ### the functions between the blocks -/

theorem paramType_render (fuel : Nat) (n : CNode) (v : Ast.ParamType)
    (h : Build.paramType fuel n = .ok v) : paramType fuel n = rParamType v := by
  cases fuel with
  | zero => simp only [Build.paramType] at h; cases h
  | succ fuel =>
    simp only [Build.paramType] at h
    unfold paramType
    dsimp only
    split at h
    · rename_i hk
      obtain ⟨x, hx, rfl⟩ := map_ok h
      simp only [hk, if_true, rParamType]; exact (ih1 fuel).scalarType n x hx
    · rename_i hk
      cases h
      simp only [hk, if_false]; rfl

theorem typedParam_render (fuel : Nat) (n : CNode) (v : Ast.TypedParam)
    (h : Build.typedParam fuel n = .ok v) : typedParam fuel n = rTypedParam v := by
  cases fuel with
  | zero => simp only [Build.typedParam] at h; cases h
  | succ fuel =>
    simp only [Build.typedParam] at h
    bmcase Build.optM (Build.paramType fuel) (TypedParam.param_type n) as pt hpt at h
    obtain ⟨nm, hnm, rfl⟩ := map_ok h
    unfold typedParam
    dsimp only
    rw [optM_render _ (paramType_render fuel) hpt, optM_render _ name_render hnm, rng_eq]
    unfold rTypedParam
    rfl

theorem typedParamList_render (fuel : Nat) (n : CNode) (v : Ast.TypedParamList)
    (h : Build.typedParamList fuel n = .ok v) : typedParamList fuel n = rTypedParamList v := by
  cases fuel with
  | zero => simp only [Build.typedParamList] at h; cases h
  | succ fuel =>
    simp only [Build.typedParamList] at h
    obtain ⟨ps, hps, rfl⟩ := map_ok h
    unfold typedParamList
    dsimp only
    rw [listM_render _ (typedParam_render fuel) hps, rng_eq]
    unfold rTypedParamList
    rfl

theorem forIterable_render (fuel : Nat) (n : CNode) (v : Ast.ForIterable)
    (h : Build.forIterable fuel n = .ok v) : forIterable fuel n = rForIterable v := by
  cases fuel with
  | zero => simp only [Build.forIterable] at h; cases h
  | succ fuel =>
    simp only [Build.forIterable] at h
    bmcase Build.optM (Build.setExpression fuel) (ForIterable.set_expression n) as s hs at h
    bmcase Build.optM (Build.rangeExpr fuel) (ForIterable.range_expr n) as r hr at h
    obtain ⟨e, he, rfl⟩ := map_ok h
    unfold forIterable
    dsimp only
    rw [optM_render _ (ih1 fuel).setExpression hs, optM_render _ (ih1 fuel).rangeExpr hr,
      optM_render _ (ih1 fuel).expr he, rng_eq, ← rOExpr_eq]
    unfold rForIterable
    rfl

theorem qubitType_render (fuel : Nat) (q : CNode) (v : Ast.QubitType)
    (h : Build.qubitType fuel q = .ok v) :
    s!"(QubitType {rng q} {opt (QubitType.designator q) (designator fuel)})" = rQubitType v := by
  unfold Build.qubitType at h
  obtain ⟨d, hd, rfl⟩ := map_ok h
  rw [optM_render _ (ih1 fuel).designator hd, rng_eq, ← rODesignator_eq]
  unfold rQubitType
  rfl

theorem returnSignature_render (fuel : Nat) (r : CNode) (v : Ast.ReturnSignature)
    (h : Build.returnSignature fuel r = .ok v) :
    s!"(ReturnSignature {rng r} {opt (ReturnSignature.scalar_type r) (scalarType fuel)})" =
      rReturnSignature v := by
  unfold Build.returnSignature at h
  obtain ⟨s, hs, rfl⟩ := map_ok h
  rw [optM_render _ (ih1 fuel).scalarType hs, rng_eq, ← rOScalarType_eq]
  unfold rReturnSignature
  rfl

/-! ### second mutual block -/

structure IH2 (fuel : Nat) : Prop where
  stmt : ∀ n v, Build.stmt fuel n = .ok v → stmt fuel n = rStmt v
  blockExpr : ∀ n v, Build.blockExpr fuel n = .ok v → blockExpr fuel n = rBlock v
  bos : ∀ x v, Build.blockOrStmt fuel x = .ok v → blockOrStmt fuel (.ok x) = rBos v
  caseExpr : ∀ n v, Build.caseExpr fuel n = .ok v → caseExpr fuel n = rCase v

theorem s_blockExpr (ih : IH2 fuel) (n : CNode) (v : Ast.BlockExpr)
    (h : Build.blockExpr (fuel + 1) n = .ok v) : blockExpr (fuel + 1) n = rBlock v := by
  unfold Build.blockExpr at h
  obtain ⟨ss, hss, rfl⟩ := map_ok h
  unfold blockExpr
  rw [listM_render _ ih.stmt hss, rng_eq, ← rStmts_eq]; rfl

theorem s_bos (ih : IH2 fuel) (x : BlockOrStmt) (v : Ast.BlockOrStmt)
    (h : Build.blockOrStmt (fuel + 1) x = .ok v) : blockOrStmt (fuel + 1) (.ok x) = rBos v := by
  cases x with
  | blockExpr bl =>
    simp only [Build.blockOrStmt] at h
    obtain ⟨a, ha, rfl⟩ := map_ok h
    simp only [blockOrStmt, ih.blockExpr bl a ha]; rfl
  | stmt s =>
    simp only [Build.blockOrStmt] at h
    obtain ⟨a, ha, rfl⟩ := map_ok h
    simp only [blockOrStmt, ih.stmt s a ha]; rfl

theorem accBos_render (ih : IH2 fuel) (r : PRes BlockOrStmt) (v : Ast.Acc Ast.BlockOrStmt)
    (h : Build.accBosOf fuel (Build.blockOrStmt fuel) r = .ok v) : blockOrStmt fuel r = rAccBos v := by
  cases r with
  | panic =>
    simp only [Build.accBosOf] at h
    split at h
    · cases h
    · cases h
      cases fuel with
      | zero => contradiction
      | succ f => rfl
  | ok x =>
    simp only [Build.accBosOf] at h
    obtain ⟨a, ha, rfl⟩ := map_ok h
    exact ih.bos x a ha

theorem optBos_render (ih : IH2 fuel) (o : Option BlockOrStmt) (v : Option Ast.BlockOrStmt)
    (h : Build.optBosOf (Build.blockOrStmt fuel) o = .ok v) :
    opt o (fun x => blockOrStmt fuel (.ok x)) = rOBos v := by
  cases o with
  | none => cases h; rfl
  | some x =>
    simp only [Build.optBosOf] at h
    obtain ⟨a, ha, rfl⟩ := map_ok h
    exact ih.bos x a ha

theorem s_caseExpr (ih : IH2 fuel) (n : CNode) (v : Ast.CaseExpr)
    (h : Build.caseExpr (fuel + 1) n = .ok v) : caseExpr (fuel + 1) n = rCase v := by
  unfold Build.caseExpr at h
  bmcase Build.optM (Build.expressionList fuel) (CaseExpr.expression_list n) as el hel at h
  obtain ⟨bl, hbl, rfl⟩ := map_ok h
  unfold caseExpr
  rw [optM_render _ (ih1 fuel).expressionList hel, optM_render _ ih.blockExpr hbl, rng_eq,
    ← rOExprList_eq, ← rOBlock_eq]; rfl

theorem s_stmt (ih : IH2 fuel) (n : CNode) (v : Ast.Stmt)
    (h : Build.stmt (fuel + 1) n = .ok v) : stmt (fuel + 1) n = rStmt v := by
  have i1 := ih1 fuel
  unfold stmt
  split
  · -- IF_STMT
    rename_i hk
    simp only [Build.stmt, hk] at h
    bmcase Build.optM (Build.expr fuel) (IfStmt.condition n) as c hc at h
    bmcase Build.accBosOf fuel (Build.blockOrStmt fuel) (IfStmt.true_body_block_or_stmt n) as t ht at h
    obtain ⟨f, hf, rfl⟩ := map_ok h
    rw [optM_render _ i1.expr hc, accBos_render ih _ _ ht, optBos_render ih _ _ hf, rng_eq, ← rOExpr_eq]; rfl
  · -- WHILE_STMT
    rename_i hk
    simp only [Build.stmt, hk] at h
    bmcase Build.optM (Build.expr fuel) (WhileStmt.condition n) as c hc at h
    obtain ⟨t, ht, rfl⟩ := map_ok h
    rw [optM_render _ i1.expr hc, accBos_render ih _ _ ht, rng_eq, ← rOExpr_eq]; rfl
  · -- FOR_STMT
    rename_i hk
    simp only [Build.stmt, hk] at h
    bmcase Build.optM Build.name (ForStmt.loop_var n) as lv hlv at h
    bmcase Build.optM (Build.scalarType fuel) (ForStmt.scalar_type n) as st hst at h
    bmcase Build.optM (Build.forIterable fuel) (ForStmt.for_iterable n) as it hit at h
    obtain ⟨t, ht, rfl⟩ := map_ok h
    rw [optM_render _ name_render hlv, optM_render _ i1.scalarType hst,
      optM_render _ (forIterable_render fuel) hit, accBos_render ih _ _ ht, rng_eq, ← rOScalarType_eq]; rfl
  · -- SWITCH_CASE_STMT
    rename_i hk
    simp only [Build.stmt, hk] at h
    bmcase Build.optM (Build.expr fuel) (SwitchCaseStmt.control n) as c hc at h
    bmcase Build.listM (Build.caseExpr fuel) (SwitchCaseStmt.case_exprs n) as cs hcs at h
    obtain ⟨d, hd, rfl⟩ := map_ok h
    rw [optM_render _ i1.expr hc, listM_render _ ih.caseExpr hcs, optM_render _ ih.blockExpr hd, rng_eq,
      ← rOExpr_eq, ← rCases_eq, ← rOBlock_eq]; rfl
  · -- CLASSICAL_DECLARATION_STATEMENT
    rename_i hk
    simp only [Build.stmt, hk] at h
    bmcase Build.optM (Build.scalarType fuel) (ClassicalDeclarationStatement.scalar_type n) as st hst at h
    bmcase Build.optM Build.name (ClassicalDeclarationStatement.name n) as nm hnm at h
    obtain ⟨e, he, rfl⟩ := map_ok h
    rw [optM_render _ i1.scalarType hst, optM_render _ name_render hnm, optM_render _ i1.expr he, rng_eq,
      ← rOScalarType_eq, ← rOExpr_eq]; rfl
  · -- I_O_DECLARATION_STATEMENT
    rename_i hk
    simp only [Build.stmt, hk] at h
    bmcase Build.optM (Build.scalarType fuel) (IODeclarationStatement.scalar_type n) as st hst at h
    obtain ⟨nm, hnm, rfl⟩ := map_ok h
    rw [optM_render _ i1.scalarType hst, optM_render _ name_render hnm, rng_eq, ← rOScalarType_eq]; rfl
  · -- QUANTUM_DECLARATION_STATEMENT
    rename_i hk
    simp only [Build.stmt, hk] at h
    bmcase Build.optM Build.name (QuantumDeclarationStatement.name n) as nm hnm at h
    bmcase Build.optM Build.hardwareQubit (QuantumDeclarationStatement.hardware_qubit n) as hw hhw at h
    obtain ⟨q, hq, rfl⟩ := map_ok h
    rw [optM_render _ name_render hnm, optM_render _ hardwareQubit_render hhw,
      optM_render _ (qubitType_render fuel) hq, rng_eq]; rfl
  · -- ASSIGNMENT_STMT
    rename_i hk
    simp only [Build.stmt, hk] at h
    bmcase Build.optM Build.identifier (AssignmentStmt.identifier n) as i hi at h
    bmcase Build.optM (Build.expr fuel) (AssignmentStmt.rhs n) as r hr at h
    obtain ⟨ii, hii, rfl⟩ := map_ok h
    rw [optM_render _ identifier_render hi, optM_render _ i1.expr hr,
      optM_render _ i1.indexedIdentifier hii, rng_eq, ← rOExpr_eq]; rfl
  · rename_i hk
    simp only [Build.stmt, hk] at h
    cases h; rfl
  · rename_i hk
    simp only [Build.stmt, hk] at h
    cases h; rfl
  · rename_i hk
    simp only [Build.stmt, hk] at h
    cases h; rfl
  · -- GATE
    rename_i hk
    simp only [Build.stmt, hk] at h
    bmcase Build.optM Build.name (Gate.name n) as nm hnm at h
    bmcase Build.optM Build.paramList (Gate.angle_params n) as ap hap at h
    bmcase Build.optM Build.paramList (Gate.qubit_params n) as qp hqp at h
    obtain ⟨bd, hbd, rfl⟩ := map_ok h
    rw [optM_render _ name_render hnm, optM_render _ paramList_render hap, optM_render _ paramList_render hqp,
      optM_render _ ih.blockExpr hbd, rng_eq, ← rOBlock_eq]; rfl
  · -- DEF
    rename_i hk
    simp only [Build.stmt, hk] at h
    bmcase Build.optM Build.name (Def.name n) as nm hnm at h
    bmcase Build.optM (Build.typedParamList fuel) (Def.typed_param_list n) as tp htp at h
    bmcase Build.optM (Build.blockExpr fuel) (Def.body n) as bd hbd at h
    obtain ⟨rs, hrs, rfl⟩ := map_ok h
    rw [optM_render _ name_render hnm, optM_render _ (typedParamList_render fuel) htp,
      optM_render _ ih.blockExpr hbd, optM_render _ (returnSignature_render fuel) hrs, rng_eq, ← rOBlock_eq]; rfl
  · -- BARRIER
    rename_i hk
    simp only [Build.stmt, hk] at h
    obtain ⟨q, hq, rfl⟩ := map_ok h
    rw [optM_render _ i1.qubitList hq, rng_eq, ← rOQubitList_eq]; rfl
  · -- DELAY_STMT
    rename_i hk
    simp only [Build.stmt, hk] at h
    bmcase Build.optM (Build.qubitList fuel) (DelayStmt.qubit_list n) as q hq at h
    obtain ⟨d, hd, rfl⟩ := map_ok h
    rw [optM_render _ i1.qubitList hq, optM_render _ i1.designator hd, rng_eq, ← rOQubitList_eq,
      ← rODesignator_eq]; rfl
  · -- RESET
    rename_i hk
    simp only [Build.stmt, hk] at h
    obtain ⟨g, hg, rfl⟩ := map_ok h
    rw [optM_render _ i1.gateOperand hg, rng_eq, ← rOGateOperand_eq]; rfl
  · -- INCLUDE
    rename_i hk
    simp only [Build.stmt, hk] at h
    obtain ⟨f, hf, rfl⟩ := map_ok h
    rw [optM_render _ filePath_render hf, rng_eq]; rfl
  · -- EXPR_STMT
    rename_i hk
    simp only [Build.stmt, hk] at h
    obtain ⟨e, he, rfl⟩ := map_ok h
    rw [optM_render _ i1.expr he, rng_eq, ← rOExpr_eq]; rfl
  · rename_i hk
    simp only [Build.stmt, hk] at h
    cases h; rfl
  · -- PRAGMA_STATEMENT
    rename_i hk
    simp only [Build.stmt, hk] at h
    cases hx : PragmaStatement.pragma_text n with
    | panic => rw [hx] at h; cases h
    | ok t =>
      rw [hx] at h; cases h
      simp only [pText]; rw [← rStr_str t]; rfl
  · -- ANNOTATION_STATEMENT
    rename_i hk
    simp only [Build.stmt, hk] at h
    cases hx : AnnotationStatement.annotation_text n with
    | panic => rw [hx] at h; cases h
    | ok t =>
      rw [hx] at h; cases h
      simp only [pText]; rw [← rStr_str t]; rfl
  · -- ALIAS_DECLARATION_STATEMENT
    rename_i hk
    simp only [Build.stmt, hk] at h
    bmcase Build.optM Build.name (AliasDeclarationStatement.name n) as nm hnm at h
    obtain ⟨e, he, rfl⟩ := map_ok h
    rw [optM_render _ name_render hnm, optM_render _ i1.expr he, rng_eq, ← rOExpr_eq]; rfl
  · rename_i hk
    simp only [Build.stmt, hk] at h
    cases h; rfl
  · rename_i hk
    simp only [Build.stmt, hk] at h
    cases h; rfl
  · rename_i hk
    simp only [Build.stmt, hk] at h
    cases h; rfl
  · rename_i hk
    simp only [Build.stmt, hk] at h
    cases h; rfl
  · rename_i hk
    simp only [Build.stmt, hk] at h
    cases h; rfl
  · rename_i hk
    simp only [Build.stmt, hk] at h
    cases h; rfl
  · rename_i hk
    simp only [Build.stmt, hk] at h
    cases h; rfl
  · exfalso
    unfold Build.stmt at h
    split at h <;> first | contradiction | cases h

theorem ih2_zero : IH2 0 := by
  constructor <;> intro n v h <;> cases h

theorem ih2_succ (ih : IH2 fuel) : IH2 (fuel + 1) :=
  ⟨s_stmt ih, s_blockExpr ih, s_bos ih, s_caseExpr ih⟩

theorem ih2 : ∀ fuel, IH2 fuel
  | 0 => ih2_zero
  | fuel + 1 => ih2_succ (ih2 fuel)

/-- **`Dump.program` factors through `Build.program`** -/
theorem dump_eq_render (root : CNode) (p : Ast.Program) (h : Build.program root = .ok p) :
    Dump.program root = Render.program p := by
  unfold Build.program Build.programWith Build.defaultFuel at h
  obtain ⟨ss, hss, rfl⟩ := map_ok h
  unfold Dump.program Render.program
  rw [listM_render _ (ih2 _).stmt hss, rng_eq, ← rStmts_eq]

end Oq3.Acc.Render
