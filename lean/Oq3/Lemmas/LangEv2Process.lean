/-
C04, extended reference language, part 12: `process` on the events of a program yields the pre-order
node sequence of the derivation (`process_evsP2`).

Forward-parent chains of the extended expressions: a primary with postfix operators `b post₁ … post_k` is a chain
`b → post₁ → … → post_k`; the marker of `expr_bp` (and of `stmt`) links to the ROOT `post_k`, so `process` first walks
`TOMBSTONE → post_k (→ BIN_EXPR → …)` and later, when its main loop reaches `b`, the chain `b → … → post_{k-1}` into the
tombstone that `post_k` has become.  `SpineAt` is a chain that is entered at an offset `ent` of its segment.
-/
import Oq3.Lemmas.LangEvProcess
import Oq3.Lemmas.LangEv2S
import Oq3.Lemmas.LangEv2Run

namespace Oq3.LangEv2
open Oq3.Gen Oq3.Parser Oq3.PrattEv Oq3.LangEv

/-- `Oq3.LangEv.Spine` for a chain that is entered at the offset `ent` of the segment -/
structure SpineAt (X : Option Nat → List Ev) (sX : List Ev) (ks : List SyntaxKind) (c ent off : Nat) : Prop where
  walk : ∀ (g : Nat) (A R : List Ev) (fp : Option Nat) (idx fwd : Nat) (acc : List SyntaxKind),
    idx + fwd = A.length + ent →
    chain (g + c) (A ++ (X fp ++ R)) idx fwd acc =
      match fp with
      | none => some (ks ++ acc, A ++ (sX ++ R))
      | some d => chain g (A ++ (sX ++ R)) (A.length + off) d (ks ++ acc)
  len : ∀ fp, (X fp).length = sX.length
  fuel : ∀ fp, c ≤ cntFp (X fp) + (if fp.isSome then 0 else 1)
  noTomb : ks.filter (· != .TOMBSTONE) = ks

theorem get_mid2 (A P R : List Ev) (x : Ev) : (A ++ (P ++ (x :: R)))[A.length + P.length]? = some x := by
  rw [← List.append_assoc, ← List.length_append]; exact get_mid _ _ _

theorem set_mid2 (A P R : List Ev) (x y : Ev) : (A ++ (P ++ (x :: R))).set (A.length + P.length) y = A ++ (P ++ (y :: R)) := by
  rw [← List.append_assoc, ← List.length_append, set_mid, List.append_assoc]

/-- a single node whose `Start` (at offset `P.length`) carries the link -/
theorem spineAt_prim (P : List Ev) (k : SyntaxKind) (hk : (k != .TOMBSTONE) = true) (rest : List Ev) :
    SpineAt (fun fp => P ++ (.start k fp :: rest)) (P ++ (Ev.tombstone :: rest)) [k] 1 P.length P.length := by
  refine ⟨?_, fun _ => by simp, ?_, by simp [List.filter, hk]⟩
  · intro g A R fp idx fwd acc h
    simp only [List.append_assoc, List.cons_append, chain, h, get_mid2, set_mid2]
    cases fp <;> rfl
  · intro fp; cases fp <;> simp [cntFp_append, cntFp, Ev.hasFp] <;> omega

/-- **a postfix operator / binary operator on a chain**: the root of `X` links to a new `Start K` right after the
segment, which becomes the root -/
theorem SpineAt.post {X : Option Nat → List Ev} {sX : List Ev} {ks : List SyntaxKind} {c ent off : Nat}
    (hS : SpineAt X sX ks c ent off) (hoff : off ≤ sX.length) (K : SyntaxKind) (hK : (K != .TOMBSTONE) = true) (rest : List Ev) :
    SpineAt (fun fp => X (some (sX.length - off)) ++ (.start K fp :: rest)) (sX ++ (Ev.tombstone :: rest)) (K :: ks) (c + 1) ent sX.length := by
  refine ⟨?_, fun _ => by simp [hS.len], ?_, by simp [List.filter, hK, hS.noTomb]⟩
  · intro g A R fp idx fwd acc h
    simp only [List.append_assoc]
    rw [show g + (c + 1) = (g + 1) + c by omega, hS.walk (g + 1) A _ _ idx fwd acc h]
    simp only
    have hpos : A.length + off + (sX.length - off) = (A ++ sX).length := by
      rw [List.length_append]; omega
    have hlist : ∀ Y : List Ev, A ++ (sX ++ Y) = (A ++ sX) ++ Y := fun Y => (List.append_assoc _ _ _).symm
    rw [hlist]
    simp only [chain, hpos, List.cons_append, get_mid, set_mid]
    cases fp with
    | none => simp only [List.append_assoc, List.cons_append]
    | some d => simp only [List.append_assoc, List.cons_append, List.length_append]
  · intro fp
    have := hS.fuel (some (sX.length - off))
    cases fp <;> simp [cntFp_append, cntFp, Ev.hasFp] at this ⊢ <;> omega

theorem Spine.toAt {X : Option Nat → List Ev} {sX : List Ev} {ks : List SyntaxKind} {c off : Nat} (h : Spine X sX ks c off) :
    SpineAt X sX ks c 0 off := ⟨fun g A R fp idx fwd acc hh => h.walk g A R fp idx fwd acc (by simpa using hh), h.len, h.fuel, h.noTomb⟩

theorem SpineAt.toSpine {X : Option Nat → List Ev} {sX : List Ev} {ks : List SyntaxKind} {c off : Nat} (h : SpineAt X sX ks c 0 off) :
    Spine X sX ks c off := ⟨fun g A R fp idx fwd acc hh => h.walk g A R fp idx fwd acc (by simpa using hh), h.len, h.fuel, h.noTomb⟩


/-- **a chain that ends in its root**, entered through the marker of `expr_bp` -/
theorem goSeg_spineAt {X : Option Nat → List Ev} {sX : List Ev} {ks : List SyntaxKind} {c ent off : Nat}
    (hS : SpineAt X sX ks c ent off) {st : List Step} (hs : GoSeg sX st) :
    GoSeg (.start .TOMBSTONE (some (ent + 1)) :: X none) (ks.map .enter ++ st) := by
  intro n A R out
  obtain ⟨A', h'⟩ := hs n (A ++ [Ev.tombstone]) R (out ++ ks.map .enter)
  refine ⟨A', ?_⟩
  rw [← List.append_assoc out, ← h']
  have hc := hS.fuel none
  simp only [Option.isSome_none, Bool.false_eq_true, if_false] at hc
  rw [List.length_cons, hS.len none, ← Nat.add_assoc]
  simp only [List.cons_append, processGo, get_mid, set_mid]
  obtain ⟨g, hg⟩ : ∃ g, cntFp (A ++ (Ev.start SyntaxKind.TOMBSTONE (some (ent + 1)) :: (X none ++ R))) + 1 = g + c := by
    refine ⟨cntFp (A ++ (Ev.start SyntaxKind.TOMBSTONE (some (ent + 1)) :: (X none ++ R))) + 1 - c, ?_⟩
    have : cntFp (X none) + 1 ≤ cntFp (A ++ (Ev.start SyntaxKind.TOMBSTONE (some (ent + 1)) :: (X none ++ R))) := by
      rw [cntFp_append]
      simp only [cntFp, Ev.hasFp, if_true, cntFp_append]
      omega
    omega
  rw [hg, go_shift, hS.walk g (A ++ [Ev.tombstone]) R none A.length (ent + 1) _ (by simp; omega)]
  simp only [List.length_append, List.length_cons, List.length_nil]
  congr 1
  simp only [enters, List.filter_append, hS.noTomb, List.map_append]
  rw [show List.filter (fun x => x != SyntaxKind.TOMBSTONE) [SyntaxKind.TOMBSTONE] = [] from rfl]
  simp

/-- **a chain whose root links to a wrapper `Start` pushed right after it** (`EXPR_STMT`) -/
theorem goSeg_spineAt_wrap {X : Option Nat → List Ev} {sX : List Ev} {ks : List SyntaxKind} {c ent off : Nat}
    (hS : SpineAt X sX ks c ent off) (hoff : off ≤ sX.length) (W : SyntaxKind) (hW : (W != .TOMBSTONE) = true)
    (tail : List Ev) {st stTail : List Step} (hs : GoSeg sX st) (ht : GoSeg (Ev.tombstone :: tail) stTail) :
    GoSeg (.start .TOMBSTONE (some (ent + 1)) :: (X (some (sX.length - off)) ++ (.start W none :: tail)))
      (.enter W :: (ks.map .enter ++ (st ++ stTail))) := by
  have hS' := hS.post hoff W hW tail
  have := goSeg_spineAt hS' (hs.append ht)
  exact GoSeg.cast this rfl (by simp)

/-- the loop of `process` on a segment that is followed by a tombstone -/
def GoSegT (seg : List Ev) (steps : List Step) : Prop :=
  ∀ (n : Nat) (A R : List Ev) (out : List Step), ∃ A' : List Ev,
    processGo (n + seg.length) A.length (A ++ (seg ++ (Ev.tombstone :: R))) out =
      processGo n A'.length (A' ++ (Ev.tombstone :: R)) (out ++ steps)

theorem GoSeg.toT {seg : List Ev} {steps : List Step} (h : GoSeg seg steps) : GoSegT seg steps :=
  fun n A R out => h n A (Ev.tombstone :: R) out

theorem GoSegT.append {a b : List Ev} {sa sb : List Step} (ha : GoSegT a sa) (hb : GoSeg (Ev.tombstone :: b) sb) :
    GoSeg (a ++ (Ev.tombstone :: b)) (sa ++ sb) := by
  intro n A R out
  obtain ⟨A1, h1⟩ := ha (n + (b.length + 1)) A (b ++ R) out
  obtain ⟨A2, h2⟩ := hb n A1 R (out ++ sa)
  refine ⟨A2, ?_⟩
  have e : (a ++ (Ev.tombstone :: b)).length = (b.length + 1) + a.length := by simp; omega
  rw [e, ← Nat.add_assoc, List.append_assoc]
  simp only [List.cons_append] at h1 h2 ⊢
  rw [h1]
  rw [show (Ev.tombstone :: b).length = b.length + 1 from rfl] at h2
  rw [h2, List.append_assoc]


theorem chain_first (G : Nat) (evs : List Ev) (i : Nat) (k : SyntaxKind) (f : Nat) (acc : List SyntaxKind)
    (h : evs[i]? = some (.start k (some f))) :
    chain (G + 1) evs i 0 acc = chain G (evs.set i Ev.tombstone) i f (k :: acc) := by
  simp only [chain, Nat.add_zero, h]

theorem unstep (m : Nat) (A Y : List Ev) (out : List Step) :
    processGo (m + 1) A.length (A ++ (Ev.tombstone :: Y)) out = processGo m (A.length + 1) (A ++ (Ev.tombstone :: Y)) out := by
  rw [processGo, get_mid]
  simp only [Ev.tombstone]
  rw [set_mid]
  simp [enters, List.filter]

/-- **a chain entered at its first event by the main loop, whose root links to the tombstone right after the
segment** (the callee of a call, the base of an index expression: the operator they link to has been walked before) -/
theorem goSegT_spine {X : Option Nat → List Ev} {sX sX' : List Ev} {ks : List SyntaxKind} {c off : Nat}
    (hS : Spine X sX ks c off) (hoff : off ≤ sX.length) (hsX : sX = Ev.tombstone :: sX')
    (hhead : ∃ k f rest, X (some (sX.length - off)) = .start k (some f) :: rest)
    {st : List Step} (hs : GoSeg sX st) :
    GoSegT (X (some (sX.length - off))) (ks.map .enter ++ st) := by
  intro n A R out
  obtain ⟨A', h'⟩ := hs n A (Ev.tombstone :: R) (out ++ ks.map .enter)
  refine ⟨A', ?_⟩
  rw [← List.append_assoc out, ← h']
  obtain ⟨k, f, rest, hx⟩ := hhead
  have hc : c ≤ cntFp (X (some (sX.length - off))) := by
    have := hS.fuel (some (sX.length - off)); simpa using this
  have hlen := hS.len (some (sX.length - off))
  have hpos : A.length + off + (sX.length - off) = (A ++ sX).length := by rw [List.length_append]; omega
  have hwalk := hS.walk
  generalize sX.length - off = d at hx hc hlen hpos
  have hl1 : sX.length = sX'.length + 1 := by rw [hsX]; rfl
  rw [hlen, hl1, ← Nat.add_assoc]
  have hget : (A ++ (X (some d) ++ Ev.tombstone :: R))[A.length]? = some (.start k (some f)) := by
    rw [hx]; exact get_mid _ _ _
  rw [processGo, hget]
  simp only
  have hge : c + 1 ≤ cntFp (A ++ (X (some d) ++ Ev.tombstone :: R)) + 1 := by
    rw [cntFp_append, cntFp_append]; omega
  obtain ⟨g, hg⟩ : ∃ g, cntFp (A ++ (X (some d) ++ Ev.tombstone :: R)) + 1 + 1 = (g + 1) + c :=
    ⟨cntFp (A ++ (X (some d) ++ Ev.tombstone :: R)) + 1 - c, by omega⟩
  rw [← chain_first _ _ _ _ _ _ hget, hg, hwalk (g + 1) A _ _ A.length 0 [] rfl]
  simp only
  have hl : ∀ Y : List Ev, A ++ (sX ++ Y) = (A ++ sX) ++ Y := fun Y => (List.append_assoc _ _ _).symm
  rw [hl, chain, hpos, get_mid]
  simp only [Ev.tombstone, set_mid]
  rw [← hl, hsX]
  have := unstep (n + sX'.length) A (sX' ++ Ev.tombstone :: R) (out ++ ks.map .enter)
  simp only [List.cons_append, Ev.tombstone] at this ⊢
  rw [this]
  congr 1
  have hnt := hS.noTomb
  simp only [enters, List.filter_cons, List.filter_append] at hnt ⊢
  simp [hnt]

set_option linter.unusedVariables false

/-- events of a primary before its root `Start`: the chain that leads to the root -/
def preP : Prim → List Ev
  | .idIdx _ => [.start .IDENTIFIER (some 3), .token .IDENT 1, .finish]
  | .call p _ => bodyP p (some (lenP p - rootP p))
  | .index p _ => bodyP p (some (lenP p - rootP p))
  | _ => []

/-- events of a primary after its root `Start` -/
def postP : Prim → List Ev
  | .id => [.token .IDENT 1, .finish]
  | .lit k => [.token k.kind 1, .finish]
  | .timing k => [.start .LITERAL none, .token k.kind 1, .finish, .start .IDENTIFIER none, .token .IDENT 1, .finish, .finish]
  | .hw => [.token .HARDWAREIDENT 1, .finish]
  | .paren e => .token .L_PAREN 1 :: (evsX e ++ [.token .R_PAREN 1, .finish])
  | .cast0 ty e =>
    .start .SCALAR_TYPE none :: .token ty.kind 1 :: .finish :: .token .L_PAREN 1 :: (evsX e ++ [.token .R_PAREN 1, .finish])
  | .castW ty w e =>
    .start .SCALAR_TYPE none :: .token ty.kind 1 :: .start .DESIGNATOR none :: .token .L_BRACK 1 ::
      (evsX w ++ (.token .R_BRACK 1 :: .finish :: .finish :: .token .L_PAREN 1 :: (evsX e ++ [.token .R_PAREN 1, .finish])))
  | .measureE => [.token .MEASURE_KW 1, .start .IDENTIFIER none, .token .IDENT 1, .finish, .finish]
  | .measureHw => [.token .MEASURE_KW 1, .start .HARDWARE_QUBIT none, .token .HARDWAREIDENT 1, .finish, .finish]
  | .measureIdx ixs =>
    .token .MEASURE_KW 1 :: .start .IDENTIFIER (some 3) :: .token .IDENT 1 :: .finish :: .start .INDEXED_IDENTIFIER none ::
      (evsIdx ixs ++ [.finish, .finish])
  | .idIdx ixs => evsIdx ixs ++ [.finish]
  | .call _ args =>
    .start .ARG_LIST none :: .start .EXPRESSION_LIST none :: .token .L_PAREN 1 :: (evsXs args ++ [.token .R_PAREN 1, .finish, .finish, .finish])
  | .index _ items =>
    .start .INDEX_OPERATOR none :: .token .L_BRACK 1 :: .start .EXPRESSION_LIST none ::
      (evsItems items ++ [.finish, .token .R_BRACK 1, .finish, .finish])

theorem bodyP_split (p : Prim) (fp : Option Nat) : bodyP p fp = preP p ++ (.start p.kind fp :: postP p) := by
  cases p <;> simp [bodyP, preP, postP, Prim.kind, X.kind, evsX]

theorem preP_length (p : Prim) : (preP p).length = rootP p := by
  cases p <;> simp [preP, rootP, bodyP_length]


/-- kinds along the chain of a primary, outermost first -/
def spineKindsP : Prim → List SyntaxKind
  | .idIdx _ => [.INDEXED_IDENTIFIER, .IDENTIFIER]
  | .call p _ => .CALL_EXPR :: spineKindsP p
  | .index p _ => .INDEX_EXPR :: spineKindsP p
  | p => [p.kind]

def cP : Prim → Nat
  | .idIdx _ => 2
  | .call p _ => cP p + 1
  | .index p _ => cP p + 1
  | _ => 1

/-- `bodyP p _` after the walk of its whole chain -/
def sbodyP : Prim → List Ev
  | .idIdx ixs => Ev.tombstone :: .token .IDENT 1 :: .finish :: Ev.tombstone :: postP (.idIdx ixs)
  | .call p args => sbodyP p ++ (Ev.tombstone :: postP (.call p args))
  | .index p items => sbodyP p ++ (Ev.tombstone :: postP (.index p items))
  | p => Ev.tombstone :: postP p

theorem kind_ne_tomb' (p : Prim) : (p.kind != .TOMBSTONE) = true := by cases p <;> rfl

theorem bodyP_fun0 (p : Prim) (h : preP p = []) : bodyP p = fun fp => .start p.kind fp :: postP p := by
  funext fp; rw [bodyP_split, h]; rfl

/-- **the chain of a primary**, entered at its first event -/
theorem spineP : ∀ p : Prim, Spine (bodyP p) (sbodyP p) (spineKindsP p) (cP p) (rootP p)
  | .idIdx ixs => by
    have h := ((Spine.toAt (spine_prim .IDENTIFIER (by decide) [.token .IDENT 1, .finish])).post (Nat.zero_le _) .INDEXED_IDENTIFIER (by decide)
      (postP (.idIdx ixs))).toSpine
    exact h
  | .call p args => by
    have ih := spineP p
    have hl : (sbodyP p).length = lenP p := by rw [← ih.len none, bodyP_length]
    have h := ((Spine.toAt ih).post (by rw [hl]; have := lenP_pos p; omega) .CALL_EXPR (by decide) (postP (.call p args))).toSpine
    rw [hl] at h
    have e : bodyP (.call p args) = fun fp => bodyP p (some (lenP p - rootP p)) ++ (.start .CALL_EXPR fp :: postP (.call p args)) := by
      funext fp; rw [bodyP_split]; rfl
    rw [e]; exact h
  | .index p items => by
    have ih := spineP p
    have hl : (sbodyP p).length = lenP p := by rw [← ih.len none, bodyP_length]
    have h := ((Spine.toAt ih).post (by rw [hl]; have := lenP_pos p; omega) .INDEX_EXPR (by decide) (postP (.index p items))).toSpine
    rw [hl] at h
    have e : bodyP (.index p items) = fun fp => bodyP p (some (lenP p - rootP p)) ++ (.start .INDEX_EXPR fp :: postP (.index p items)) := by
      funext fp; rw [bodyP_split]; rfl
    rw [e]; exact h
  | .id => by rw [bodyP_fun0 _ rfl]; exact spine_prim _ (kind_ne_tomb' _) _
  | .lit k => by rw [bodyP_fun0 _ rfl]; exact spine_prim _ (kind_ne_tomb' _) _
  | .timing k => by rw [bodyP_fun0 _ rfl]; exact spine_prim _ (kind_ne_tomb' _) _
  | .hw => by rw [bodyP_fun0 _ rfl]; exact spine_prim _ (kind_ne_tomb' _) _
  | .paren e => by rw [bodyP_fun0 _ rfl]; exact spine_prim _ (kind_ne_tomb' _) _
  | .cast0 ty e => by rw [bodyP_fun0 _ rfl]; exact spine_prim _ (kind_ne_tomb' _) _
  | .castW ty w e => by rw [bodyP_fun0 _ rfl]; exact spine_prim _ (kind_ne_tomb' _) _
  | .measureE => by rw [bodyP_fun0 _ rfl]; exact spine_prim _ (kind_ne_tomb' _) _
  | .measureHw => by rw [bodyP_fun0 _ rfl]; exact spine_prim _ (kind_ne_tomb' _) _
  | .measureIdx ixs => by rw [bodyP_fun0 _ rfl]; exact spine_prim _ (kind_ne_tomb' _) _

/-- kinds along the chain from the root of the head primary -/
def hkindsX : X → List SyntaxKind
  | .prim p => [p.kind]
  | .bin _ l _ => .BIN_EXPR :: hkindsX l
  | .pre _ _ => [.PREFIX_EXPR]

def chX : X → Nat
  | .bin _ l _ => chX l + 1
  | _ => 1

/-- `bodyX x _` after the walk of the chain that starts at the root of its head primary -/
def hbodyX : X → List Ev
  | .prim p => preP p ++ (Ev.tombstone :: postP p)
  | .bin o l r => hbodyX l ++ (Ev.tombstone :: .token o.kind o.pieces.length :: (evsX r ++ [.finish]))
  | .pre o e => Ev.tombstone :: .token o.kind 1 :: (evsX e ++ [.finish])

/-- **the chain of an expression**, entered at the root of its head primary -/
theorem spineAtX : ∀ x : X, SpineAt (bodyX x) (hbodyX x) (hkindsX x) (chX x) (headOff x) (rootX x)
  | .prim p => by
    have h := spineAt_prim (preP p) p.kind (kind_ne_tomb' p) (postP p)
    rw [preP_length] at h
    have e : bodyX (.prim p) = fun fp => preP p ++ (.start p.kind fp :: postP p) := by
      funext fp; exact bodyP_split p fp
    rw [e]; exact h
  | .pre o e => by
    have h := spineAt_prim [] .PREFIX_EXPR (by decide) (.token o.kind 1 :: (evsX e ++ [.finish]))
    exact h
  | .bin o l r => by
    have ih := spineAtX l
    have hl : (hbodyX l).length = lenX l := by rw [← ih.len none, bodyX_length]
    have h := ih.post (by rw [hl]; have := lenX_pos l; omega) .BIN_EXPR (by decide) (.token o.kind o.pieces.length :: (evsX r ++ [.finish]))
    rw [hl] at h
    exact h


/-! ### nodes -/

def preNodesP : Prim → List Step
  | .idIdx _ => [.enter .IDENTIFIER, .token .IDENT 1, .exit]
  | .call p _ => nodesP p
  | .index p _ => nodesP p
  | _ => []

def postNodesP : Prim → List Step
  | .id => [.token .IDENT 1, .exit]
  | .lit k => [.token k.kind 1, .exit]
  | .timing k => [.enter .LITERAL, .token k.kind 1, .exit, .enter .IDENTIFIER, .token .IDENT 1, .exit, .exit]
  | .hw => [.token .HARDWAREIDENT 1, .exit]
  | .paren e => .token .L_PAREN 1 :: (nodesX e ++ [.token .R_PAREN 1, .exit])
  | .cast0 ty e =>
    .enter .SCALAR_TYPE :: .token ty.kind 1 :: .exit :: .token .L_PAREN 1 :: (nodesX e ++ [.token .R_PAREN 1, .exit])
  | .castW ty w e =>
    .enter .SCALAR_TYPE :: .token ty.kind 1 :: .enter .DESIGNATOR :: .token .L_BRACK 1 ::
      (nodesX w ++ (.token .R_BRACK 1 :: .exit :: .exit :: .token .L_PAREN 1 :: (nodesX e ++ [.token .R_PAREN 1, .exit])))
  | .measureE => [.token .MEASURE_KW 1, .enter .IDENTIFIER, .token .IDENT 1, .exit, .exit]
  | .measureHw => [.token .MEASURE_KW 1, .enter .HARDWARE_QUBIT, .token .HARDWAREIDENT 1, .exit, .exit]
  | .measureIdx ixs =>
    .token .MEASURE_KW 1 :: .enter .INDEXED_IDENTIFIER :: .enter .IDENTIFIER :: .token .IDENT 1 :: .exit :: (nodesIdx ixs ++ [.exit, .exit])
  | .idIdx ixs => nodesIdx ixs ++ [.exit]
  | .call _ args =>
    .enter .ARG_LIST :: .enter .EXPRESSION_LIST :: .token .L_PAREN 1 :: (nodesXs args ++ [.token .R_PAREN 1, .exit, .exit, .exit])
  | .index _ items =>
    .enter .INDEX_OPERATOR :: .token .L_BRACK 1 :: .enter .EXPRESSION_LIST :: (nodesItems items ++ [.exit, .token .R_BRACK 1, .exit, .exit])

theorem nodesP_split (p : Prim) : nodesP p = .enter p.kind :: (preNodesP p ++ postNodesP p) := by
  cases p <;> simp [nodesP, preNodesP, postNodesP, Prim.kind, X.kind]

def snodesP : Prim → List Step
  | .idIdx ixs => .token .IDENT 1 :: .exit :: postNodesP (.idIdx ixs)
  | .call p args => snodesP p ++ postNodesP (.call p args)
  | .index p items => snodesP p ++ postNodesP (.index p items)
  | p => postNodesP p

theorem nodesP_eq : ∀ p : Prim, nodesP p = (spineKindsP p).map .enter ++ snodesP p
  | .idIdx ixs => by simp [nodesP, spineKindsP, snodesP, postNodesP]
  | .call p args => by
    rw [nodesP_split, preNodesP, nodesP_eq p]; simp [spineKindsP, snodesP, Prim.kind, X.kind]
  | .index p items => by
    rw [nodesP_split, preNodesP, nodesP_eq p]; simp [spineKindsP, snodesP, Prim.kind, X.kind]
  | .id => rfl
  | .lit _ => rfl
  | .timing _ => rfl
  | .hw => rfl
  | .paren _ => by simp [nodesP, spineKindsP, snodesP, postNodesP, Prim.kind, X.kind]
  | .cast0 _ _ => by simp [nodesP, spineKindsP, snodesP, postNodesP, Prim.kind, X.kind]
  | .castW _ _ _ => by simp [nodesP, spineKindsP, snodesP, postNodesP, Prim.kind, X.kind]
  | .measureE => rfl
  | .measureHw => rfl
  | .measureIdx _ => by simp [nodesP, spineKindsP, snodesP, postNodesP, Prim.kind, X.kind]

def hnodesX : X → List Step
  | .prim p => preNodesP p ++ postNodesP p
  | .bin o l r => hnodesX l ++ (.token o.kind o.pieces.length :: (nodesX r ++ [.exit]))
  | .pre o e => .token o.kind 1 :: (nodesX e ++ [.exit])

theorem nodesX_eq : ∀ x : X, nodesX x = (hkindsX x).map .enter ++ hnodesX x
  | .prim p => by simp [nodesX, hkindsX, hnodesX, nodesP_split]
  | .pre o e => by simp [nodesX, hkindsX, hnodesX]
  | .bin o l r => by simp [nodesX, hkindsX, hnodesX, nodesX_eq l]


theorem bodyP_head : ∀ (p : Prim) (d : Nat), ∃ k f rest, bodyP p (some d) = .start k (some f) :: rest
  | .idIdx _, d => ⟨_, _, _, rfl⟩
  | .call p _, d => by
    obtain ⟨k, f, rest, h⟩ := bodyP_head p (lenP p - rootP p)
    exact ⟨k, f, _, by rw [bodyP_split, preP, h]; rfl⟩
  | .index p _, d => by
    obtain ⟨k, f, rest, h⟩ := bodyP_head p (lenP p - rootP p)
    exact ⟨k, f, _, by rw [bodyP_split, preP, h]; rfl⟩
  | .id, d => ⟨_, _, _, rfl⟩
  | .lit _, d => ⟨_, _, _, rfl⟩
  | .timing _, d => ⟨_, _, _, rfl⟩
  | .hw, d => ⟨_, _, _, rfl⟩
  | .paren _, d => ⟨_, _, _, rfl⟩
  | .cast0 _ _, d => ⟨_, _, _, rfl⟩
  | .castW _ _ _, d => ⟨_, _, _, rfl⟩
  | .measureE, d => ⟨_, _, _, rfl⟩
  | .measureHw, d => ⟨_, _, _, rfl⟩
  | .measureIdx _, d => ⟨_, _, _, rfl⟩

theorem sbodyP_head : ∀ (p : Prim), ∃ r, sbodyP p = Ev.tombstone :: r
  | .call p args => by obtain ⟨r, h⟩ := sbodyP_head p; exact ⟨_, by rw [sbodyP, h]; rfl⟩
  | .index p items => by obtain ⟨r, h⟩ := sbodyP_head p; exact ⟨_, by rw [sbodyP, h]; rfl⟩
  | .idIdx _ => ⟨_, rfl⟩
  | .id => ⟨_, rfl⟩
  | .lit _ => ⟨_, rfl⟩
  | .timing _ => ⟨_, rfl⟩
  | .hw => ⟨_, rfl⟩
  | .paren _ => ⟨_, rfl⟩
  | .cast0 _ _ => ⟨_, rfl⟩
  | .castW _ _ _ => ⟨_, rfl⟩
  | .measureE => ⟨_, rfl⟩
  | .measureHw => ⟨_, rfl⟩
  | .measureIdx _ => ⟨_, rfl⟩

theorem sbodyP_length (p : Prim) : (sbodyP p).length = lenP p := by
  rw [← (spineP p).len none, bodyP_length]

/-- the base of a postfix operator (entered at its first event, its root links to the tombstone that the
operator has become) -/
theorem goSegT_base (p : Prim) {st : List Step} (hs : GoSeg (sbodyP p) st) :
    GoSegT (bodyP p (some (lenP p - rootP p))) ((spineKindsP p).map .enter ++ st) := by
  obtain ⟨r, hr⟩ := sbodyP_head p
  have h := goSegT_spine (spineP p) (by rw [sbodyP_length]; have := lenP_pos p; omega) hr
    (by rw [sbodyP_length]; exact bodyP_head p _) hs
  rw [sbodyP_length] at h
  exact h

/-- `[Start IDENTIFIER → , IDENT, Finish, Start INDEXED_IDENTIFIER]`: an identifier whose index operators follow -/
theorem goSeg_identIdx : GoSeg [.start .IDENTIFIER (some 3), .token .IDENT 1, .finish, .start .INDEXED_IDENTIFIER none]
    [.enter .INDEXED_IDENTIFIER, .enter .IDENTIFIER, .token .IDENT 1, .exit] := by
  intro n A R out
  obtain ⟨A1, h1⟩ := ((GoSeg.token SyntaxKind.IDENT 1).append (GoSeg.finish.append GoSeg.tomb)) n (A ++ [Ev.tombstone])
    R (out ++ [Step.enter SyntaxKind.INDEXED_IDENTIFIER, Step.enter SyntaxKind.IDENTIFIER])
  refine ⟨A1, ?_⟩
  have e : out ++ [Step.enter SyntaxKind.INDEXED_IDENTIFIER, Step.enter SyntaxKind.IDENTIFIER, Step.token SyntaxKind.IDENT 1, Step.exit] =
      out ++ [Step.enter SyntaxKind.INDEXED_IDENTIFIER, Step.enter SyntaxKind.IDENTIFIER] ++ ([Step.token SyntaxKind.IDENT 1] ++ ([Step.exit] ++ [])) := by simp
  rw [e, ← h1]
  show processGo (n + 3 + 1) A.length
    (A ++ (Ev.start SyntaxKind.IDENTIFIER (some 3) :: (Ev.token SyntaxKind.IDENT 1 :: Ev.finish :: Ev.start SyntaxKind.INDEXED_IDENTIFIER none :: R))) out = _
  have e1 : ∀ (x y : Ev) (w : Ev) (L : List Ev), A ++ (Ev.tombstone :: x :: y :: w :: L) =
      (A ++ [Ev.tombstone, x, y]) ++ (w :: L) := by intro x y w L; simp
  have e2 : (A ++ [Ev.tombstone, Ev.token SyntaxKind.IDENT 1, Ev.finish]).length = A.length + 3 := by simp
  rw [processGo, get_mid]
  simp only
  rw [set_mid, e1, chain, ← e2, get_mid]
  simp only [set_mid]
  simp [enters, List.filter]
  rfl


theorem evsX_of_hbody (x : X) (h : GoSeg (hbodyX x) (hnodesX x)) : GoSeg (evsX x) (nodesX x) :=
  GoSeg.cast (goSeg_spineAt (spineAtX x) h) rfl (nodesX_eq x).symm

theorem GoSeg.cast_T {a : List Ev} {sa sa' : List Step} (h : GoSegT a sa) (hs : sa = sa') : GoSegT a sa' := by subst hs; exact h

theorem GoSegT.nil : GoSegT [] [] := fun n A R out => ⟨A, by simp⟩

theorem goSegT_callee : GoSegT [Ev.start SyntaxKind.IDENTIFIER (some 3), Ev.token SyntaxKind.IDENT 1, Ev.finish]
    [Step.enter SyntaxKind.IDENTIFIER, Step.token SyntaxKind.IDENT 1, Step.exit] :=
  fun n A R out => go_callee R n A [] out |>.imp fun A' h => by simpa using h


mutual
/-- the events of an expression after the walk of the chain of its head -/
theorem goH : ∀ x : X, GoSeg (hbodyX x) (hnodesX x)
  | .prim (.call p args) =>
    GoSeg.cast ((GoSeg.cast_T (goSegT_base p (goP p).1) (nodesP_eq p).symm).append (GoSeg.tomb.append (goP (.call p args)).2)) rfl rfl
  | .prim (.index p items) =>
    GoSeg.cast ((GoSeg.cast_T (goSegT_base p (goP p).1) (nodesP_eq p).symm).append (GoSeg.tomb.append (goP (.index p items)).2)) rfl rfl
  | .prim (.idIdx ixs) => GoSeg.cast (goSegT_callee.append (GoSeg.tomb.append (goP (.idIdx ixs)).2)) rfl rfl
  | .prim (.id) => GoSeg.cast (GoSegT.nil.append (GoSeg.tomb.append (goP (.id)).2)) rfl rfl
  | .prim (.lit k) => GoSeg.cast (GoSegT.nil.append (GoSeg.tomb.append (goP (.lit k)).2)) rfl rfl
  | .prim (.timing k) => GoSeg.cast (GoSegT.nil.append (GoSeg.tomb.append (goP (.timing k)).2)) rfl rfl
  | .prim (.hw) => GoSeg.cast (GoSegT.nil.append (GoSeg.tomb.append (goP (.hw)).2)) rfl rfl
  | .prim (.paren e) => GoSeg.cast (GoSegT.nil.append (GoSeg.tomb.append (goP (.paren e)).2)) rfl rfl
  | .prim (.cast0 ty e) => GoSeg.cast (GoSegT.nil.append (GoSeg.tomb.append (goP (.cast0 ty e)).2)) rfl rfl
  | .prim (.castW ty w e) => GoSeg.cast (GoSegT.nil.append (GoSeg.tomb.append (goP (.castW ty w e)).2)) rfl rfl
  | .prim (.measureE) => GoSeg.cast (GoSegT.nil.append (GoSeg.tomb.append (goP (.measureE)).2)) rfl rfl
  | .prim (.measureHw) => GoSeg.cast (GoSegT.nil.append (GoSeg.tomb.append (goP (.measureHw)).2)) rfl rfl
  | .prim (.measureIdx ixs) => GoSeg.cast (GoSegT.nil.append (GoSeg.tomb.append (goP (.measureIdx ixs)).2)) rfl rfl
  | .bin o l r =>
    (goH l).append (GoSeg.tomb.append ((GoSeg.token _ _).append ((evsX_of_hbody r (goH r)).append GoSeg.finish)))
  | .pre o e => GoSeg.tomb.append ((GoSeg.token _ _).append ((evsX_of_hbody e (goH e)).append GoSeg.finish))
/-- a primary after the walk of its whole chain; the events after its root -/
theorem goP : ∀ p : Prim, GoSeg (sbodyP p) (snodesP p) ∧ GoSeg (postP p) (postNodesP p)
  | .id => ⟨GoSeg.tomb.append ((GoSeg.token _ _).append GoSeg.finish), (GoSeg.token _ _).append GoSeg.finish⟩
  | .lit k => ⟨GoSeg.tomb.append ((GoSeg.token _ _).append GoSeg.finish), (GoSeg.token _ _).append GoSeg.finish⟩
  | .hw => ⟨GoSeg.tomb.append ((GoSeg.token _ _).append GoSeg.finish), (GoSeg.token _ _).append GoSeg.finish⟩
  | .timing k =>
    have hp : GoSeg (postP (.timing k)) (postNodesP (.timing k)) :=
      (GoSeg.start .LITERAL (by decide)).append ((GoSeg.token _ _).append (GoSeg.finish.append ((GoSeg.start .IDENTIFIER (by decide)).append
        ((GoSeg.token _ _).append (GoSeg.finish.append GoSeg.finish)))))
    ⟨GoSeg.tomb.append hp, hp⟩
  | .measureE =>
    have hp : GoSeg (postP .measureE) (postNodesP .measureE) :=
      (GoSeg.token _ _).append ((GoSeg.start .IDENTIFIER (by decide)).append ((GoSeg.token _ _).append (GoSeg.finish.append GoSeg.finish)))
    ⟨GoSeg.tomb.append hp, hp⟩
  | .measureHw =>
    have hp : GoSeg (postP .measureHw) (postNodesP .measureHw) :=
      (GoSeg.token _ _).append ((GoSeg.start .HARDWARE_QUBIT (by decide)).append ((GoSeg.token _ _).append (GoSeg.finish.append GoSeg.finish)))
    ⟨GoSeg.tomb.append hp, hp⟩
  | .measureIdx ixs =>
    have hp : GoSeg (postP (.measureIdx ixs)) (postNodesP (.measureIdx ixs)) :=
      GoSeg.cast ((GoSeg.token .MEASURE_KW 1).append (goSeg_identIdx.append ((goIdx ixs).append (GoSeg.finish.append GoSeg.finish))))
        (by simp [postP]) (by simp [postNodesP])
    ⟨GoSeg.tomb.append hp, hp⟩
  | .paren e =>
    have hp : GoSeg (postP (.paren e)) (postNodesP (.paren e)) :=
      (GoSeg.token _ _).append ((evsX_of_hbody e (goH e)).append ((GoSeg.token _ _).append GoSeg.finish))
    ⟨GoSeg.tomb.append hp, hp⟩
  | .cast0 ty e =>
    have hp : GoSeg (postP (.cast0 ty e)) (postNodesP (.cast0 ty e)) :=
      (GoSeg.start .SCALAR_TYPE (by decide)).append ((GoSeg.token _ _).append (GoSeg.finish.append ((GoSeg.token _ _).append
        ((evsX_of_hbody e (goH e)).append ((GoSeg.token _ _).append GoSeg.finish)))))
    ⟨GoSeg.tomb.append hp, hp⟩
  | .castW ty w e =>
    have hp : GoSeg (postP (.castW ty w e)) (postNodesP (.castW ty w e)) :=
      (GoSeg.start .SCALAR_TYPE (by decide)).append ((GoSeg.token _ _).append ((GoSeg.start .DESIGNATOR (by decide)).append ((GoSeg.token _ _).append
        ((evsX_of_hbody w (goH w)).append ((GoSeg.token _ _).append (GoSeg.finish.append (GoSeg.finish.append ((GoSeg.token _ _).append
          ((evsX_of_hbody e (goH e)).append ((GoSeg.token _ _).append GoSeg.finish))))))))))
    ⟨GoSeg.tomb.append hp, hp⟩
  | .idIdx ixs =>
    have hp : GoSeg (postP (.idIdx ixs)) (postNodesP (.idIdx ixs)) := (goIdx ixs).append GoSeg.finish
    ⟨GoSeg.tomb.append ((GoSeg.token _ _).append (GoSeg.finish.append (GoSeg.tomb.append hp))), hp⟩
  | .call p args =>
    have hp : GoSeg (postP (.call p args)) (postNodesP (.call p args)) :=
      (GoSeg.start .ARG_LIST (by decide)).append ((GoSeg.start .EXPRESSION_LIST (by decide)).append ((GoSeg.token _ _).append
        ((goXs args).append ((GoSeg.token _ _).append (GoSeg.finish.append (GoSeg.finish.append GoSeg.finish))))))
    ⟨(goP p).1.append (GoSeg.tomb.append hp), hp⟩
  | .index p items =>
    have hp : GoSeg (postP (.index p items)) (postNodesP (.index p items)) :=
      (GoSeg.start .INDEX_OPERATOR (by decide)).append ((GoSeg.token _ _).append ((GoSeg.start .EXPRESSION_LIST (by decide)).append
        ((goItems items).append (GoSeg.finish.append ((GoSeg.token _ _).append (GoSeg.finish.append GoSeg.finish))))))
    ⟨(goP p).1.append (GoSeg.tomb.append hp), hp⟩
theorem goXs : ∀ xs : XList, GoSeg (evsXs xs) (nodesXs xs)
  | .nil => GoSeg.nil
  | .cons x .nil => evsX_of_hbody x (goH x)
  | .cons x (.cons y ys) => (evsX_of_hbody x (goH x)).append ((GoSeg.token _ _).append (goXs (.cons y ys)))
theorem goItem : ∀ i : Item, GoSeg (evsItem i) (nodesItem i)
  | .ex x => GoSeg.tomb.append (evsX_of_hbody x (goH x))
  | .r2 lo hi =>
    (GoSeg.start .RANGE_EXPR (by decide)).append ((evsX_of_hbody lo (goH lo)).append ((GoSeg.token _ _).append
      ((evsX_of_hbody hi (goH hi)).append GoSeg.finish)))
  | .r3 lo mid hi =>
    (GoSeg.start .RANGE_EXPR (by decide)).append ((evsX_of_hbody lo (goH lo)).append ((GoSeg.token _ _).append
      ((evsX_of_hbody mid (goH mid)).append ((GoSeg.token _ _).append ((evsX_of_hbody hi (goH hi)).append GoSeg.finish)))))
theorem goItems : ∀ is : ItemList, GoSeg (evsItems is) (nodesItems is)
  | .one i => goItem i
  | .cons i is => (goItem i).append ((GoSeg.token _ _).append (goItems is))
theorem goIdx : ∀ ixs : IdxList, GoSeg (evsIdx ixs) (nodesIdx ixs)
  | .one is =>
    (GoSeg.start .INDEX_OPERATOR (by decide)).append ((GoSeg.token _ _).append ((GoSeg.start .EXPRESSION_LIST (by decide)).append
      ((goItems is).append (GoSeg.finish.append ((GoSeg.token _ _).append GoSeg.finish)))))
  | .cons is rest =>
    (GoSeg.start .INDEX_OPERATOR (by decide)).append ((GoSeg.token _ _).append ((GoSeg.start .EXPRESSION_LIST (by decide)).append
      ((goItems is).append (GoSeg.finish.append ((GoSeg.token _ _).append (GoSeg.finish.append (goIdx rest)))))))
end

/-- **`process` on the events of an extended expression** (compositional form) -/
theorem goSeg_evsX (x : X) : GoSeg (evsX x) (nodesX x) := evsX_of_hbody x (goH x)

set_option linter.unusedSimpArgs false

/-! ### the pieces of statements -/

theorem goSeg_Q : ∀ q : Q, GoSeg (evsQ q) (nodesQ q)
  | .id => (GoSeg.start _ (by decide)).append ((GoSeg.token _ _).append GoSeg.finish)
  | .hw => (GoSeg.start _ (by decide)).append ((GoSeg.token _ _).append GoSeg.finish)
  | .idx ixs => goSeg_identIdx.append ((goIdx ixs).append GoSeg.finish)

theorem goSeg_Qs : ∀ qs : QList, GoSeg (evsQs qs) (nodesQs qs)
  | .one q => goSeg_Q q
  | .cons q qs => (goSeg_Q q).append ((GoSeg.token _ _).append (goSeg_Qs qs))

theorem goSeg_paren (e : X) : GoSeg (parenEvs e) (parenNodes e) :=
  (GoSeg.start _ (by decide)).append ((GoSeg.token _ _).append ((goSeg_evsX e).append ((GoSeg.token _ _).append GoSeg.finish)))

theorem goSeg_Mod : ∀ m : Mod, GoSeg (evsMod m) (nodesMod m)
  | .inv => (GoSeg.start _ (by decide)).append ((GoSeg.token _ _).append ((GoSeg.token _ _).append GoSeg.finish))
  | .pow e => (GoSeg.start _ (by decide)).append ((GoSeg.token _ _).append ((goSeg_paren e).append ((GoSeg.token _ _).append GoSeg.finish)))
  | .ctrl none => (GoSeg.start _ (by decide)).append ((GoSeg.token _ _).append ((GoSeg.token _ _).append GoSeg.finish))
  | .ctrl (some e) => (GoSeg.start _ (by decide)).append ((GoSeg.token _ _).append ((goSeg_paren e).append ((GoSeg.token _ _).append GoSeg.finish)))
  | .negctrl none => (GoSeg.start _ (by decide)).append ((GoSeg.token _ _).append ((GoSeg.token _ _).append GoSeg.finish))
  | .negctrl (some e) => (GoSeg.start _ (by decide)).append ((GoSeg.token _ _).append ((goSeg_paren e).append ((GoSeg.token _ _).append GoSeg.finish)))

theorem goSeg_Mods : ∀ ms : List Mod, GoSeg (evsMods ms) (nodesMods ms)
  | [] => GoSeg.nil
  | m :: ms => (goSeg_Mod m).append (goSeg_Mods ms)

theorem goSeg_tyX (ty : Ty) : ∀ w : Option X, GoSeg (tyEvsX ty w) (tyNodesX ty w)
  | none => (GoSeg.start _ (by decide)).append ((GoSeg.token _ _).append GoSeg.finish)
  | some w =>
    (GoSeg.start _ (by decide)).append ((GoSeg.token _ _).append ((GoSeg.start _ (by decide)).append
      ((GoSeg.token _ _).append ((goSeg_evsX w).append ((GoSeg.token _ _).append (GoSeg.finish.append GoSeg.finish))))))

theorem goSeg_desig (w : X) : GoSeg (desigEvs w) (desigNodes w) :=
  (GoSeg.start _ (by decide)).append ((GoSeg.token _ _).append ((goSeg_evsX w).append ((GoSeg.token _ _).append GoSeg.finish)))

theorem goSeg_argList : ∀ args : XList, GoSeg (argListEvs args) (argListNodes args)
  | .nil => GoSeg.nil
  | .cons a as =>
    (GoSeg.start _ (by decide)).append ((GoSeg.start _ (by decide)).append ((GoSeg.token _ _).append
      ((goXs (.cons a as)).append ((GoSeg.token _ _).append (GoSeg.finish.append GoSeg.finish)))))

theorem goSeg_qlist (qs : QList) : GoSeg (qlistEvs qs) (qlistNodes qs) :=
  (GoSeg.start _ (by decide)).append ((goSeg_Qs qs).append GoSeg.finish)

theorem goSeg_name : GoSeg nameEvs nameNodes :=
  (GoSeg.start _ (by decide)).append ((GoSeg.token _ _).append GoSeg.finish)

theorem goSeg_iter : ∀ it : Iter, GoSeg (iterEvs it) (iterNodes it)
  | .range2 lo hi =>
    (GoSeg.start _ (by decide)).append ((GoSeg.token _ _).append ((goSeg_evsX lo).append ((GoSeg.token _ _).append
      ((goSeg_evsX hi).append ((GoSeg.token _ _).append GoSeg.finish)))))
  | .range3 lo mid hi =>
    (GoSeg.start _ (by decide)).append ((GoSeg.token _ _).append ((goSeg_evsX lo).append ((GoSeg.token _ _).append
      ((goSeg_evsX mid).append ((GoSeg.token _ _).append ((goSeg_evsX hi).append ((GoSeg.token _ _).append GoSeg.finish)))))))
  | .set is =>
    (GoSeg.start _ (by decide)).append ((GoSeg.token _ _).append ((GoSeg.start _ (by decide)).append
      ((goItems is).append (GoSeg.finish.append ((GoSeg.token _ _).append GoSeg.finish)))))
  | .ex x => goSeg_evsX x

theorem goSeg_ty1 (t : Ty) : GoSeg [Ev.start .SCALAR_TYPE none, .start .SCALAR_TYPE none, .token t.kind 1, .finish, .finish]
    [Step.enter .SCALAR_TYPE, .enter .SCALAR_TYPE, .token t.kind 1, .exit, .exit] :=
  (GoSeg.start .SCALAR_TYPE (by decide)).append ((GoSeg.start .SCALAR_TYPE (by decide)).append ((GoSeg.token t.kind 1).append
    (GoSeg.finish.append GoSeg.finish)))

theorem goSeg_tyList : ∀ ts : List Ty, GoSeg (tyListEvs ts) (tyListNodes ts)
  | [] => GoSeg.nil
  | [t] => goSeg_ty1 t
  | t :: u :: us => GoSeg.cast ((goSeg_ty1 t).append ((GoSeg.token .COMMA 1).append (goSeg_tyList (u :: us)))) (by simp [tyListEvs]) (by simp [tyListNodes])

/-- a node `k` wrapped into an `EXPR_STMT` by `stmt` -/
theorem goSeg_wrapStmt (k : SyntaxKind) (hk : (k != .TOMBSTONE) = true) (inner : List Ev) (innerN : List Step)
    (h : GoSeg inner innerN) : GoSeg (wrapStmt k inner) (wrapNodes k innerN) :=
  GoSeg.cast (goSeg_spine_wrap (spine_prim k hk inner) (Nat.zero_le _) .EXPR_STMT (by decide) [Ev.token .SEMICOLON 1, Ev.finish]
      (GoSeg.tomb.append h) goSeg_exprStmtTail)
    (by simp [wrapStmt, exprStmtTail, Ev.tombstone]) (by simp [wrapNodes])

theorem hbodyX_length (x : X) : (hbodyX x).length = lenX x := by
  rw [← (spineAtX x).len none, bodyX_length]

/-- `x ;` -/
theorem goSeg_exprS (x : X) : GoSeg (evsS2 (.exprS x)) (nodesS2 (.exprS x)) :=
  GoSeg.cast (goSeg_spineAt_wrap (spineAtX x) (by rw [hbodyX_length]; have := lenX_pos x; omega) .EXPR_STMT (by decide)
      [Ev.token .SEMICOLON 1, Ev.finish] (goH x) goSeg_exprStmtTail)
    (by simp only [evsS2, exprStmtTail, hbodyX_length]) (by simp [nodesS2, nodesX_eq])


/-- `target = rhs ;` -/
theorem goSeg_assign (ixs : Option IdxList) (rhs : X) : GoSeg (evsS2 (.assign ixs rhs)) (nodesS2 (.assign ixs rhs)) := by
  have hsp := (spineAtX (.prim (lhsP ixs))).post (by rw [hbodyX_length]; have := lenX_pos (.prim (lhsP ixs)); omega)
    .ASSIGNMENT_STMT (by decide) (.token .EQ 1 :: (evsX rhs ++ [.token .SEMICOLON 1, .finish]))
  have hrest : GoSeg (Ev.tombstone :: .token .EQ 1 :: (evsX rhs ++ [.token .SEMICOLON 1, .finish]))
      (.token .EQ 1 :: (nodesX rhs ++ [.token .SEMICOLON 1, .exit])) :=
    GoSeg.cast (GoSeg.tomb.append ((GoSeg.token .EQ 1).append ((goSeg_evsX rhs).append
      ((GoSeg.token .SEMICOLON 1).append GoSeg.finish)))) (by simp) (by simp)
  have h := goSeg_spineAt hsp ((goH (.prim (lhsP ixs))).append hrest)
  refine GoSeg.cast h ?_ ?_
  · simp only [evsS2, hbodyX_length, headOff, rootX, bodyX, lenX]
  · simp [nodesS2, hkindsX, hnodesX, nodesP_split]

/-- `g(args) qs ;` (the callee links to the `GATE_CALL_EXPR` that `precede` put after it) -/
theorem goSeg_gateArgs (a : X) (as : XList) (qs : QList) :
    GoSeg (evsS2 (.gate (.cons a as) qs)) (nodesS2 (.gate (.cons a as) qs)) := by
  have hsp := spineAt_prim [Ev.start .IDENTIFIER (some 3), .token .IDENT 1, .finish] .GATE_CALL_EXPR (by decide)
    (argListEvs (.cons a as) ++ (qlistEvs qs ++ [.finish]))
  have hrest : GoSeg (Ev.tombstone :: (argListEvs (.cons a as) ++ (qlistEvs qs ++ [.finish])))
      (argListNodes (.cons a as) ++ (qlistNodes qs ++ [.exit])) :=
    GoSeg.cast (GoSeg.tomb.append ((goSeg_argList (.cons a as)).append ((goSeg_qlist qs).append GoSeg.finish))) (by simp) (by simp)
  have h := goSeg_spineAt_wrap hsp (by simp) .EXPR_STMT (by decide) [Ev.token .SEMICOLON 1, Ev.finish]
    (goSegT_callee.append hrest) goSeg_exprStmtTail
  refine GoSeg.cast h ?_ ?_
  · simp [evsS2, exprStmtTail]; omega
  · simp [nodesS2, wrapNodes, gateCallInnerNodes]

/-- a bare block -/
theorem goSeg_blockS (ss : Stmts2) (h : GoSeg (evsL2 ss) (nodesL2 ss)) :
    GoSeg (evsS2 (.block ss)) (nodesS2 (.block ss)) := by
  have hin : GoSeg (Ev.tombstone :: .token .L_CURLY 1 :: (evsL2 ss ++ [.token .R_CURLY 1, .finish]))
      (.token .L_CURLY 1 :: (nodesL2 ss ++ [.token .R_CURLY 1, .exit])) :=
    GoSeg.cast (GoSeg.tomb.append ((GoSeg.token .L_CURLY 1).append (h.append ((GoSeg.token .R_CURLY 1).append GoSeg.finish)))) (by simp) (by simp)
  have ht : GoSeg (Ev.tombstone :: [Ev.finish]) [Step.exit] := GoSeg.cast (GoSeg.tomb.append GoSeg.finish) (by simp) (by simp)
  have h' := goSeg_spine_wrap (spine_prim .BLOCK_EXPR (by decide) (.token .L_CURLY 1 :: (evsL2 ss ++ [.token .R_CURLY 1, .finish])))
    (Nat.zero_le _) .EXPR_STMT (by decide) [Ev.finish] hin ht
  refine GoSeg.cast h' ?_ ?_
  · simp [evsS2, tombLink, Ev.tombstone]
  · simp [nodesS2, blockNodes]


/-! ### statements and programs -/

mutual
theorem goS2 : ∀ st : Stmt2, GoSeg (evsS2 st) (nodesS2 st)
  | .decl false ty w none =>
    GoSeg.cast ((GoSeg.start .CLASSICAL_DECLARATION_STATEMENT (by decide)).append (GoSeg.tomb.append ((goSeg_tyX ty w).append ((goSeg_name).append ((GoSeg.token .SEMICOLON 1).append GoSeg.finish)))))
      (by simp [evsS2, evsB, nameEvs, blockEvs, Ev.tombstone]) (by simp [nodesS2, nodesB, nameNodes, blockNodes])
  | .decl false ty w (some e) =>
    GoSeg.cast ((GoSeg.start .CLASSICAL_DECLARATION_STATEMENT (by decide)).append (GoSeg.tomb.append ((goSeg_tyX ty w).append ((goSeg_name).append ((GoSeg.token .EQ 1).append ((goSeg_evsX e).append ((GoSeg.token .SEMICOLON 1).append GoSeg.finish)))))))
      (by simp [evsS2, evsB, nameEvs, blockEvs, Ev.tombstone]) (by simp [nodesS2, nodesB, nameNodes, blockNodes])
  | .decl true ty w none =>
    GoSeg.cast ((GoSeg.start .CLASSICAL_DECLARATION_STATEMENT (by decide)).append ((GoSeg.token .CONST_KW 1).append (GoSeg.tomb.append ((goSeg_tyX ty w).append ((goSeg_name).append ((GoSeg.token .SEMICOLON 1).append GoSeg.finish))))))
      (by simp [evsS2, evsB, nameEvs, blockEvs, Ev.tombstone]) (by simp [nodesS2, nodesB, nameNodes, blockNodes])
  | .decl true ty w (some e) =>
    GoSeg.cast ((GoSeg.start .CLASSICAL_DECLARATION_STATEMENT (by decide)).append ((GoSeg.token .CONST_KW 1).append (GoSeg.tomb.append ((goSeg_tyX ty w).append ((goSeg_name).append ((GoSeg.token .EQ 1).append ((goSeg_evsX e).append ((GoSeg.token .SEMICOLON 1).append GoSeg.finish))))))))
      (by simp [evsS2, evsB, nameEvs, blockEvs, Ev.tombstone]) (by simp [nodesS2, nodesB, nameNodes, blockNodes])
  | .io out ty w =>
    GoSeg.cast ((GoSeg.start .I_O_DECLARATION_STATEMENT (by decide)).append ((GoSeg.token (if out then .OUTPUT_KW else .INPUT_KW) 1).append ((goSeg_tyX ty w).append ((goSeg_name).append ((GoSeg.token .SEMICOLON 1).append GoSeg.finish)))))
      (by simp [evsS2, evsB, nameEvs, blockEvs, Ev.tombstone]) (by simp [nodesS2, nodesB, nameNodes, blockNodes])
  | .qubit none =>
    GoSeg.cast ((GoSeg.start .QUANTUM_DECLARATION_STATEMENT (by decide)).append ((GoSeg.start .QUBIT_TYPE (by decide)).append ((GoSeg.token .QUBIT_KW 1).append (GoSeg.finish.append ((goSeg_name).append ((GoSeg.token .SEMICOLON 1).append GoSeg.finish))))))
      (by simp [evsS2, evsB, nameEvs, blockEvs, Ev.tombstone]) (by simp [nodesS2, nodesB, nameNodes, blockNodes])
  | .qubit (some w) =>
    GoSeg.cast ((GoSeg.start .QUANTUM_DECLARATION_STATEMENT (by decide)).append ((GoSeg.start .QUBIT_TYPE (by decide)).append ((GoSeg.token .QUBIT_KW 1).append ((goSeg_desig w).append (GoSeg.finish.append ((goSeg_name).append ((GoSeg.token .SEMICOLON 1).append GoSeg.finish)))))))
      (by simp [evsS2, evsB, nameEvs, blockEvs, Ev.tombstone]) (by simp [nodesS2, nodesB, nameNodes, blockNodes])
  | .oldReg c items =>
    GoSeg.cast ((GoSeg.start .OLD_STYLE_DECLARATION_STATEMENT (by decide)).append ((GoSeg.start .OLD_TYPED_PARAM (by decide)).append ((GoSeg.token (if c then .CREG_KW else .QREG_KW) 1).append ((GoSeg.token .IDENT 1).append ((GoSeg.start .INDEX_OPERATOR (by decide)).append ((GoSeg.token .L_BRACK 1).append ((GoSeg.start .EXPRESSION_LIST (by decide)).append ((goItems items).append (GoSeg.finish.append ((GoSeg.token .R_BRACK 1).append (GoSeg.finish.append (GoSeg.finish.append ((GoSeg.token .SEMICOLON 1).append GoSeg.finish)))))))))))))
      (by simp [evsS2, evsB, nameEvs, blockEvs, Ev.tombstone]) (by simp [nodesS2, nodesB, nameNodes, blockNodes])
  | .letS e =>
    GoSeg.cast ((GoSeg.start .LET_STMT (by decide)).append ((GoSeg.token .LET_KW 1).append ((GoSeg.token .IDENT 1).append ((GoSeg.token .EQ 1).append ((goSeg_evsX e).append ((GoSeg.token .SEMICOLON 1).append GoSeg.finish))))))
      (by simp [evsS2, evsB, nameEvs, blockEvs, Ev.tombstone]) (by simp [nodesS2, nodesB, nameNodes, blockNodes])
  | .alias e =>
    GoSeg.cast ((GoSeg.start .ALIAS_DECLARATION_STATEMENT (by decide)).append ((GoSeg.token .LET_KW 1).append ((goSeg_name).append ((GoSeg.token .EQ 1).append ((goSeg_evsX e).append ((GoSeg.token .SEMICOLON 1).append GoSeg.finish))))))
      (by simp [evsS2, evsB, nameEvs, blockEvs, Ev.tombstone]) (by simp [nodesS2, nodesB, nameNodes, blockNodes])
  | .reset q =>
    GoSeg.cast ((GoSeg.start .RESET (by decide)).append ((GoSeg.token .RESET_KW 1).append ((goSeg_Q q).append ((GoSeg.token .SEMICOLON 1).append GoSeg.finish))))
      (by simp [evsS2, evsB, nameEvs, blockEvs, Ev.tombstone]) (by simp [nodesS2, nodesB, nameNodes, blockNodes])
  | .barrier qs =>
    GoSeg.cast ((GoSeg.start .BARRIER (by decide)).append ((GoSeg.token .BARRIER_KW 1).append ((goSeg_qlist qs).append ((GoSeg.token .SEMICOLON 1).append GoSeg.finish))))
      (by simp [evsS2, evsB, nameEvs, blockEvs, Ev.tombstone]) (by simp [nodesS2, nodesB, nameNodes, blockNodes])
  | .delay d qs =>
    GoSeg.cast ((GoSeg.start .DELAY_STMT (by decide)).append ((GoSeg.token .DELAY_KW 1).append ((goSeg_desig d).append ((goSeg_qlist qs).append ((GoSeg.token .SEMICOLON 1).append GoSeg.finish)))))
      (by simp [evsS2, evsB, nameEvs, blockEvs, Ev.tombstone]) (by simp [nodesS2, nodesB, nameNodes, blockNodes])
  | .brk =>
    GoSeg.cast ((GoSeg.start .BREAK_STMT (by decide)).append ((GoSeg.token .BREAK_KW 1).append ((GoSeg.token .SEMICOLON 1).append GoSeg.finish)))
      (by simp [evsS2, evsB, nameEvs, blockEvs, Ev.tombstone]) (by simp [nodesS2, nodesB, nameNodes, blockNodes])
  | .cont =>
    GoSeg.cast ((GoSeg.start .CONTINUE_STMT (by decide)).append ((GoSeg.token .CONTINUE_KW 1).append ((GoSeg.token .SEMICOLON 1).append GoSeg.finish)))
      (by simp [evsS2, evsB, nameEvs, blockEvs, Ev.tombstone]) (by simp [nodesS2, nodesB, nameNodes, blockNodes])
  | .endS =>
    GoSeg.cast ((GoSeg.start .END_STMT (by decide)).append ((GoSeg.token .END_KW 1).append ((GoSeg.token .SEMICOLON 1).append GoSeg.finish)))
      (by simp [evsS2, evsB, nameEvs, blockEvs, Ev.tombstone]) (by simp [nodesS2, nodesB, nameNodes, blockNodes])
  | .pragma =>
    GoSeg.cast ((GoSeg.start .PRAGMA_STATEMENT (by decide)).append ((GoSeg.token .PRAGMA 1).append GoSeg.finish))
      (by simp [evsS2, evsB, nameEvs, blockEvs, Ev.tombstone]) (by simp [nodesS2, nodesB, nameNodes, blockNodes])
  | .annot =>
    GoSeg.cast ((GoSeg.start .ANNOTATION_STATEMENT (by decide)).append ((GoSeg.token .ANNOTATION 1).append GoSeg.finish))
      (by simp [evsS2, evsB, nameEvs, blockEvs, Ev.tombstone]) (by simp [nodesS2, nodesB, nameNodes, blockNodes])
  | .incl =>
    GoSeg.cast ((GoSeg.start .INCLUDE (by decide)).append ((GoSeg.token .INCLUDE_KW 1).append ((GoSeg.start .FILE_PATH (by decide)).append ((GoSeg.token .STRING 1).append (GoSeg.finish.append ((GoSeg.token .SEMICOLON 1).append GoSeg.finish))))))
      (by simp [evsS2, evsB, nameEvs, blockEvs, Ev.tombstone]) (by simp [nodesS2, nodesB, nameNodes, blockNodes])
  | .version =>
    GoSeg.cast ((GoSeg.start .VERSION_STRING (by decide)).append ((GoSeg.token .O_P_E_N_Q_A_S_M_KW 1).append ((GoSeg.start .VERSION (by decide)).append ((GoSeg.token .FLOAT_NUMBER 1).append ((GoSeg.token .SEMICOLON 1).append (GoSeg.finish.append GoSeg.finish))))))
      (by simp [evsS2, evsB, nameEvs, blockEvs, Ev.tombstone]) (by simp [nodesS2, nodesB, nameNodes, blockNodes])
  | .externS tys ret =>
    GoSeg.cast ((GoSeg.start .EXTERN_STMT (by decide)).append ((GoSeg.token .EXTERN_KW 1).append ((goSeg_name).append ((GoSeg.start .TYPE_LIST (by decide)).append ((GoSeg.token .L_PAREN 1).append ((goSeg_tyList tys).append ((GoSeg.token .R_PAREN 1).append (GoSeg.finish.append ((goSeg_retSig (some ret)).append ((GoSeg.token .SEMICOLON 1).append GoSeg.finish))))))))))
      (by simp [evsS2, evsB, nameEvs, blockEvs, Ev.tombstone]) (by simp [nodesS2, nodesB, nameNodes, blockNodes])
  | .ifS c thn =>
    GoSeg.cast ((GoSeg.start .IF_STMT (by decide)).append ((GoSeg.token .IF_KW 1).append ((GoSeg.token .L_PAREN 1).append ((goSeg_evsX c).append ((GoSeg.token .R_PAREN 1).append ((goB thn).append GoSeg.finish))))))
      (by simp [evsS2, evsB, nameEvs, blockEvs, Ev.tombstone]) (by simp [nodesS2, nodesB, nameNodes, blockNodes])
  | .ifElse c thn els =>
    GoSeg.cast ((GoSeg.start .IF_STMT (by decide)).append ((GoSeg.token .IF_KW 1).append ((GoSeg.token .L_PAREN 1).append ((goSeg_evsX c).append ((GoSeg.token .R_PAREN 1).append ((goB thn).append ((GoSeg.token .ELSE_KW 1).append ((goB els).append GoSeg.finish))))))))
      (by simp [evsS2, evsB, nameEvs, blockEvs, Ev.tombstone]) (by simp [nodesS2, nodesB, nameNodes, blockNodes])
  | .whileS c body =>
    GoSeg.cast ((GoSeg.start .WHILE_STMT (by decide)).append ((GoSeg.token .WHILE_KW 1).append ((GoSeg.token .L_PAREN 1).append ((goSeg_evsX c).append ((GoSeg.token .R_PAREN 1).append ((goB body).append GoSeg.finish))))))
      (by simp [evsS2, evsB, nameEvs, blockEvs, Ev.tombstone]) (by simp [nodesS2, nodesB, nameNodes, blockNodes])
  | .forS ty w it body =>
    GoSeg.cast ((GoSeg.start .FOR_STMT (by decide)).append ((GoSeg.token .FOR_KW 1).append ((goSeg_tyX ty w).append ((goSeg_name).append ((GoSeg.token .IN_KW 1).append ((GoSeg.start .FOR_ITERABLE (by decide)).append ((goSeg_iter it).append (GoSeg.finish.append ((goB body).append GoSeg.finish)))))))))
      (by simp [evsS2, evsB, nameEvs, blockEvs, Ev.tombstone]) (by simp [nodesS2, nodesB, nameNodes, blockNodes])
  | .switchS c cs =>
    GoSeg.cast ((GoSeg.start .SWITCH_CASE_STMT (by decide)).append ((GoSeg.token .SWITCH_KW 1).append ((GoSeg.token .L_PAREN 1).append ((goSeg_evsX c).append ((GoSeg.token .R_PAREN 1).append ((GoSeg.token .L_CURLY 1).append ((goC cs).append ((GoSeg.token .R_CURLY 1).append GoSeg.finish))))))))
      (by simp [evsS2, evsB, nameEvs, blockEvs, Ev.tombstone]) (by simp [nodesS2, nodesB, nameNodes, blockNodes])
  | .gateDef none nq body =>
    GoSeg.cast ((GoSeg.start .GATE (by decide)).append ((GoSeg.token .GATE_KW 1).append ((GoSeg.start .NAME (by decide)).append ((GoSeg.token .IDENT 1).append (GoSeg.finish.append ((GoSeg.start .PARAM_LIST (by decide)).append ((goSeg_params nq).append (GoSeg.finish.append ((goSeg_block (goL2 body)).append GoSeg.finish)))))))))
      (by simp [evsS2, evsB, nameEvs, blockEvs, Ev.tombstone]) (by simp [nodesS2, nodesB, nameNodes, blockNodes])
  | .gateDef (some k) nq body =>
    GoSeg.cast ((GoSeg.start .GATE (by decide)).append ((GoSeg.token .GATE_KW 1).append ((GoSeg.start .NAME (by decide)).append ((GoSeg.token .IDENT 1).append (GoSeg.finish.append ((GoSeg.start .PARAM_LIST (by decide)).append ((GoSeg.token .L_PAREN 1).append ((goSeg_params k).append ((GoSeg.token .R_PAREN 1).append (GoSeg.finish.append ((GoSeg.start .PARAM_LIST (by decide)).append ((goSeg_params nq).append (GoSeg.finish.append ((goSeg_block (goL2 body)).append GoSeg.finish))))))))))))))
      (by simp [evsS2, evsB, nameEvs, blockEvs, Ev.tombstone]) (by simp [nodesS2, nodesB, nameNodes, blockNodes])
  | .defS ps ret body =>
    GoSeg.cast ((GoSeg.start .DEF (by decide)).append ((GoSeg.token .DEF_KW 1).append ((GoSeg.start .NAME (by decide)).append ((GoSeg.token .IDENT 1).append (GoSeg.finish.append ((GoSeg.start .TYPED_PARAM_LIST (by decide)).append ((GoSeg.token .L_PAREN 1).append ((goSeg_typed ps).append ((GoSeg.token .R_PAREN 1).append (GoSeg.finish.append ((goSeg_retSig ret).append ((goSeg_block (goL2 body)).append GoSeg.finish))))))))))))
      (by simp [evsS2, evsB, nameEvs, blockEvs, Ev.tombstone]) (by simp [nodesS2, nodesB, nameNodes, blockNodes])
  | .cal body =>
    GoSeg.cast ((GoSeg.start .CAL (by decide)).append ((GoSeg.token .CAL_KW 1).append ((goSeg_block (goL2 body)).append GoSeg.finish)))
      (by simp [evsS2, evsB, nameEvs, blockEvs, Ev.tombstone]) (by simp [nodesS2, nodesB, nameNodes, blockNodes])
  | .assign ixs rhs => goSeg_assign ixs rhs
  | .exprS x => goSeg_exprS x
  | .gate .nil qs =>
    goSeg_wrapStmt .GATE_CALL_EXPR (by decide) _ _ (GoSeg.cast ((GoSeg.start .IDENTIFIER (by decide)).append ((GoSeg.token .IDENT 1).append
      (GoSeg.finish.append ((goSeg_argList .nil).append ((goSeg_qlist qs).append GoSeg.finish))))) (by simp [gateCallInner]) (by simp [gateCallInnerNodes]))
  | .gate (.cons a as) qs => goSeg_gateArgs a as qs
  | .modGate m ms args qs =>
    goSeg_wrapStmt .MODIFIED_GATE_CALL_EXPR (by decide) _ _ ((goSeg_Mods (m :: ms)).append (GoSeg.cast
      ((GoSeg.start .GATE_CALL_EXPR (by decide)).append ((GoSeg.start .IDENTIFIER (by decide)).append ((GoSeg.token .IDENT 1).append
        (GoSeg.finish.append ((goSeg_argList args).append ((goSeg_qlist qs).append (GoSeg.finish.append GoSeg.finish)))))))
      (by simp [gateCallInner]) (by simp [gateCallInnerNodes])))
  | .gphase x =>
    goSeg_wrapStmt .G_PHASE_CALL_EXPR (by decide) _ _ (GoSeg.cast ((GoSeg.token .GPHASE_KW 1).append ((goSeg_evsX x).append GoSeg.finish)) (by simp) (by simp))
  | .modGphase m ms x =>
    goSeg_wrapStmt .MODIFIED_GATE_CALL_EXPR (by decide) _ _ ((goSeg_Mods (m :: ms)).append (GoSeg.cast
      ((GoSeg.start .G_PHASE_CALL_EXPR (by decide)).append ((GoSeg.token .GPHASE_KW 1).append ((goSeg_evsX x).append (GoSeg.finish.append GoSeg.finish))))
      (by simp) (by simp)))
  | .block ss => goSeg_blockS ss (goL2 ss)
  | .ret none => goSeg_wrapStmt .RETURN_EXPR (by decide) _ _ ((GoSeg.token .RETURN_KW 1).append GoSeg.finish)
  | .ret (some e) =>
    goSeg_wrapStmt .RETURN_EXPR (by decide) _ _ (GoSeg.cast ((GoSeg.token .RETURN_KW 1).append ((goSeg_evsX e).append GoSeg.finish)) (by simp) (by simp))
theorem goB : ∀ b : Body, GoSeg (evsB b) (nodesB b)
  | .blk ss => goSeg_block (goL2 ss)
  | .one s => goS2 s
theorem goC : ∀ cs : Cases, GoSeg (evsC cs) (nodesC cs)
  | .nil => GoSeg.nil
  | .dflt body => (GoSeg.token .DEFAULT_KW 1).append (goSeg_block (goL2 body))
  | .cons vals body rest =>
    GoSeg.cast ((GoSeg.start .CASE_EXPR (by decide)).append ((GoSeg.token .CASE_KW 1).append ((GoSeg.start .EXPRESSION_LIST (by decide)).append
      ((goItems vals).append (GoSeg.finish.append ((goSeg_block (goL2 body)).append (GoSeg.finish.append (goC rest))))))))
      (by simp [evsC, blockEvs]) (by simp [nodesC, blockNodes])
theorem goL2 : ∀ ss : Stmts2, GoSeg (evsL2 ss) (nodesL2 ss)
  | .nil => GoSeg.nil
  | .cons st ss => (goS2 st).append (goL2 ss)
end

/-- **`process` turns the events of a program into the pre-order node sequence of its derivation** -/
theorem process_evsP2 (p : Stmts2) : process (evsP2 p) = some (nodesP2 p) := by
  have h := ((GoSeg.start .SOURCE_FILE (by decide)).append ((goL2 p).append GoSeg.finish)) 0 [] [] []
  obtain ⟨A', h⟩ := h
  unfold process
  simp only [Nat.zero_add, List.nil_append, List.append_nil, List.length_nil] at h
  have e1 : evsP2 p = [Ev.start SyntaxKind.SOURCE_FILE none] ++ (evsL2 p ++ [Ev.finish]) := rfl
  have e2 : nodesP2 p = [Step.enter SyntaxKind.SOURCE_FILE] ++ (nodesL2 p ++ [Step.exit]) := rfl
  rw [e1, e2, h]
  rfl

end Oq3.LangEv2
