/-
From the invariant to the top-level facts about `TopEntryPoint::SourceFile.parse`:
the final event list is one rooted node in index order, its forward-parent links are sound,
all input tokens are accounted for, and parsing stops only at end of input.
-/
import Oq3.Lemmas.GrammarInv

namespace Oq3.Grammar
open Oq3.Gen Oq3.Parser

/-- the strict machine one level deeper mirrors the weak machine -/
theorem runE_of_runW (d r : Nat) (l : List Ev) (h : runW d l = some r) :
    runE (some (d + 1)) l = some (some (r + 1)) := by
  induction l generalizing d with
  | nil => simp only [runW, Option.some.injEq] at h; subst h; rfl
  | cons e es ih =>
    cases e with
    | start k fp =>
      simp only [runW] at h
      simp only [runE, evM]
      split at h
      · rename_i hk; simp only [hk, if_true, Option.bind_some]; exact ih _ h
      · rename_i hk; simp only [hk, MS.enter, Option.bind_some]
        simp only [Bool.false_eq_true, if_false, Option.bind_some]; exact ih _ h
    | finish =>
      cases d with
      | zero => simp [runW] at h
      | succ d => simp only [runW] at h; simp only [runE, evM, MS.exit, Option.bind_some]; exact ih _ h
    | token k n => simp only [runW] at h; simp only [runE, evM, MS.inside, Option.bind_some]; exact ih _ h
    | error m => simp only [runW] at h; simp only [runE, evM, MS.inside, Option.bind_some]; exact ih _ h

/-- the initial parser state satisfies the invariant -/
theorem inv_init (kinds : Array SyntaxKind) (joint : Array Bool) (npl : Nat) :
    Inv kinds joint { kinds := kinds, joint := joint, noProgressLimit := npl } :=
  ⟨rfl, rfl, rfl, by intro j k f hj; simp at hj, rfl, Nat.zero_le _, rfl, rfl⟩

theorem at_simple_ok (k : SyntaxKind) (hc : compositePieces k = none) (s : P) (r : Bool × P)
    (h : at' k s = .ok r) : r = (s.kindAt s.pos == k, s) := by
  unfold at' nthAt at h
  simp only [hc] at h
  simp [G.bind_ok, G.map_ok] at h
  exact h

/-- the loop condition of `source_file_contents(p, false)`: read-only, true only at `EOF` -/
theorem sfc_cond (s : P) (r : Bool × P)
    (h : (at' .EOF <||> (at' .R_CURLY <&&> pure false)) s = .ok r) :
    r.2 = s ∧ (r.1 = true → s.kindAt s.pos = .EOF) := by
  unfold _root_.orM at h
  rw [G.bind_ok] at h
  obtain ⟨b1, s2, h3, h4⟩ := h
  have h3' := at_simple_ok .EOF (by decide) s _ h3
  obtain ⟨rfl, rfl⟩ := Prod.mk.inj h3'
  cases hb : (s2.kindAt s2.pos == SyntaxKind.EOF) with
  | true =>
    rw [hb] at h4
    have h4' : (pure true : G Bool) s2 = .ok r := h4
    simp only [G.pure_ok] at h4'; subst h4'
    exact ⟨rfl, fun _ => by simpa using hb⟩
  | false =>
    rw [hb] at h4
    have h4' : (at' .R_CURLY <&&> pure false) s2 = .ok r := h4
    clear h4
    unfold _root_.andM at h4'
    rw [G.bind_ok] at h4'
    obtain ⟨b2, s3, h5, h6⟩ := h4'
    have hs3 := at_readOnly .R_CURLY s2 (b2, s3) h5
    simp only at hs3; subst hs3
    cases b2
    · have h6' : (pure false : G Bool) s3 = .ok r := h6
      simp only [G.pure_ok] at h6'; subst h6'; exact ⟨rfl, fun e => by simp at e⟩
    · have h6' : (pure false : G Bool) s3 = .ok r := h6
      simp only [G.pure_ok] at h6'; subst h6'; exact ⟨rfl, fun e => by simp at e⟩

/-- `source_file_contents(p, false)` returns only at end of input -/
theorem sourceFileContents_at_eof (fuel : Nat) (s s' : P) (u : Unit)
    (h : sourceFileContents fuel false s = .ok (u, s')) : s'.kindAt s'.pos = .EOF := by
  induction fuel generalizing s with
  | zero => unfold sourceFileContents at h; simp at h
  | succ fuel ih =>
    unfold sourceFileContents at h
    rw [G.bind_ok] at h
    obtain ⟨b, s1, h1, h2⟩ := h
    obtain ⟨hs1, hb⟩ := sfc_cond s (b, s1) h1
    simp only at hs1 hb; subst hs1
    split at h2
    · rw [G.bind_ok] at h2
      obtain ⟨_, s4, _, h8⟩ := h2
      exact ih s4 h8
    · rename_i hnb
      simp only [G.pure_ok] at h2; obtain ⟨_, rfl⟩ := Prod.mk.inj h2
      exact hb (by simpa using hnb)

/-- what a successful run of `source_file` leaves behind -/
structure ParseOk (kinds : Array SyntaxKind) (joint : Array Bool) (events : List Ev) (pos : Nat) :
    Prop where
  /-- index order: one rooted, balanced node -/
  rootedE : runE none events = some (some 0)
  /-- forward-parent links are sound -/
  fp : FpOK events
  /-- every token event accounts for its raw tokens, and they are all of the input -/
  tok : sumTok events = pos
  glue : glueOK joint 0 events = true
  gluek : glueKE kinds 0 events = true
  pos_le : pos ≤ kinds.size
  /-- parsing stopped at end of input -/
  at_eof : kinds.getD pos .EOF = .EOF

theorem sourceFile_ok (fuel : Nat) (kinds : Array SyntaxKind) (joint : Array Bool) (npl : Nat)
    (u : Unit) (s' : P)
    (h : sourceFile fuel { kinds := kinds, joint := joint, noProgressLimit := npl } = .ok (u, s')) :
    ParseOk kinds joint s'.events.toList s'.pos := by
  unfold sourceFile at h
  rw [G.bind_ok] at h
  obtain ⟨m, s1, h1, h2⟩ := h
  have hst := start_ok _ _ h1
  obtain ⟨hm, hs1eq⟩ := Prod.mk.inj hst
  have hI1 := (start_pres (kinds := kinds) (joint := joint)).run _ _ (inv_init kinds joint npl) h1
  simp only at hI1
  rw [G.bind_ok] at h2
  obtain ⟨_, s2, h3, h4⟩ := h2
  have hI2 := ((allPres (kinds := kinds) (joint := joint) fuel).sourceFileContents false).run _ _ hI1 h3
  simp only at hI2
  have heof := sourceFileContents_at_eof fuel s1 s2 _ h3
  rw [G.bind_ok] at h4
  obtain ⟨cm, s3, h5, h6⟩ := h4
  simp only [G.pure_ok] at h6; obtain ⟨_, rfl⟩ := Prod.mk.inj h6
  have hI3 := (complete_pres (kinds := kinds) (joint := joint) m .SOURCE_FILE).run _ _ hI2 h5
  simp only at hI3
  -- shape of the completed event list
  have hmpos : m.pos = 0 := by rw [hm]; rfl
  unfold Marker.complete at h5
  simp only [G.get_bind_ok] at h5
  cases hm0 : s2.events[m.pos]? with
  | none => simp [hm0] at h5
  | some e0 =>
  cases e0 with
  | finish => simp [hm0] at h5
  | token _ _ => simp [hm0] at h5
  | error _ => simp [hm0] at h5
  | start k0 fp0 =>
  simp only [hm0] at h5
  split at h5
  · simp at h5
  · rename_i hk0
    split at h5
    · simp at h5
    · simp only [G.set_bind_ok] at h5
      rw [G.bind_ok] at h5
      obtain ⟨_, s4, h7, h8⟩ := h5
      have hp := pushEvent_ok _ _ _ h7
      obtain ⟨_, rfl⟩ := Prod.mk.inj hp
      simp only [G.pure_ok] at h8; obtain ⟨_, rfl⟩ := Prod.mk.inj h8
      have hk0' : k0 = .TOMBSTONE := by simpa using hk0
      subst hk0'
      rw [hmpos] at hm0
      have hm0' : s2.events.toList[0]? = some (.start .TOMBSTONE fp0) := by simpa using hm0
      obtain ⟨tail, htail⟩ : ∃ tail, s2.events.toList = .start .TOMBSTONE fp0 :: tail := by
        cases hl : s2.events.toList with
        | nil => simp [hl] at hm0'
        | cons x xs => simp [hl] at hm0'; exact ⟨xs, by rw [hm0']⟩
      have hd := hI2.dyck
      rw [htail] at hd
      simp only [runW, beq_self_eq_true, if_true] at hd
      refine ⟨?_, hI3.fp.toFpOK, hI3.tok, hI3.glue, hI3.gluek, hI3.pos_le, ?_⟩
      · have hev : ((s2.events.setIfInBounds m.pos (Ev.start .SOURCE_FILE fp0)).push Ev.finish).toList =
            Ev.start .SOURCE_FILE fp0 :: (tail ++ [Ev.finish]) := by
          simp [hmpos, htail]
        show runE none ((s2.events.set! m.pos (Ev.start .SOURCE_FILE fp0)).push Ev.finish).toList = _
        rw [show (s2.events.set! m.pos (Ev.start .SOURCE_FILE fp0)) =
          s2.events.setIfInBounds m.pos (Ev.start .SOURCE_FILE fp0) from rfl, hev]
        simp only [runE, evM, MS.enter, Option.bind_some]
        have : (SyntaxKind.SOURCE_FILE == SyntaxKind.TOMBSTONE) = false := by decide
        simp only [this, Bool.false_eq_true, if_false, Option.bind_some]
        rw [runE_append, runE_of_runW 0 0 tail hd]
        simp [runE, evM, MS.exit]
      · have hk := hI2.kinds_eq
        simp only [P.kindAt, hk] at heof
        exact heof

end Oq3.Grammar
