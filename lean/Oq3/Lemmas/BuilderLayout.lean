/-
The tree builder (`Model/Builder.lean`: `intersperse_trivia` + `SyntaxTreeBuilder`) puts trivia
INTO the tree but nothing else depends on it:

* `intersperse_sim`: for two raw token tables with the same non-trivia sub-sequence and the same
  parser steps, the emitted step lists agree up to trivia tokens and error offsets (`norm`);
* `tbRun_norm`: the tree built from a step list, with its trivia leaves erased, is the tree built
  from the normalised step list;
* `buildTree_layout`: hence `eraseTriviaT tree₁ = eraseTriviaT tree₂`.

The one extra hypothesis, `glueOk`: a composite token step (`token k n`, `n ≥ 2`: `>>=`, `&&`, …,
which the parser forms only from JOINT raw tokens) does not swallow a trivia token.  It is
necessary (`glue_needed`: `[>, >]` against `[>, ␣, >]` under the step `token SHR 2`).
-/
import Oq3.Lemmas.Builder

namespace Oq3.BuilderLayout
open Oq3.Gen Oq3.Parser Oq3.Builder

/-! ### normal form of an emitted step list -/

/-- drop trivia tokens, forget error offsets -/
def norm : List StrStep → List StrStep
  | [] => []
  | .token k t :: r => if k.isTrivia then norm r else .token k t :: norm r
  | .error m _ :: r => .error m 0 :: norm r
  | s :: r => s :: norm r

theorem norm_append (a b : List StrStep) : norm (a ++ b) = norm a ++ norm b := by
  induction a with
  | nil => rfl
  | cons x xs ih =>
    cases x with
    | token k t => by_cases h : k.isTrivia = true <;> simp [norm, h, ih]
    | enter k => simp [norm, ih]
    | exit => simp [norm, ih]
    | error m p => simp [norm, ih]

/-- the non-trivia raw tokens -/
def nt (l : List RawTok) : List RawTok := l.filter (fun t => !t.kind.isTrivia)

theorem nt_cons_trivia {t : RawTok} {l : List RawTok} (h : t.kind.isTrivia = true) : nt (t :: l) = nt l := by
  simp [nt, List.filter_cons, h]

theorem nt_cons_non {t : RawTok} {l : List RawTok} (h : t.kind.isTrivia = false) :
    nt (t :: l) = t :: nt l := by
  simp [nt, List.filter_cons, h]

theorem nt_append_non {a b : List RawTok} (h : ∀ t ∈ a, t.kind.isTrivia = false) :
    nt (a ++ b) = a ++ nt b := by
  induction a with
  | nil => rfl
  | cons x xs ih =>
    rw [List.cons_append, nt_cons_non (h x List.mem_cons_self),
      ih (fun t ht => h t (List.mem_cons_of_mem _ ht)), List.cons_append]

theorem drop_eq_cons {α} {l : List α} {i : Nat} {x : α} (h : l[i]? = some x) :
    l.drop i = x :: l.drop (i + 1) := by
  rw [List.getElem?_eq_some_iff] at h
  obtain ⟨hi, hx⟩ := h
  rw [← hx]
  exact List.drop_eq_getElem_cons hi

/-- what the lock-step proof keeps about a builder state -/
structure Sim (toks1 toks2 : List RawTok) (b1 b2 : B) : Prop where
  state : b1.state = b2.state
  out : norm b1.out = norm b2.out
  rest : nt (toks1.drop b1.pos) = nt (toks2.drop b2.pos)

/-- a builder transition that only consumes trivia -/
structure Quiet (toks : List RawTok) (b b' : B) : Prop where
  state : b'.state = b.state
  out : norm b'.out = norm b.out
  rest : nt (toks.drop b'.pos) = nt (toks.drop b.pos)

theorem Quiet.refl (toks : List RawTok) (b : B) : Quiet toks b b := ⟨rfl, rfl, rfl⟩

theorem Quiet.trans {toks : List RawTok} {a b c : B} (h1 : Quiet toks a b) (h2 : Quiet toks b c) :
    Quiet toks a c := ⟨h2.state.trans h1.state, h2.out.trans h1.out, h2.rest.trans h1.rest⟩

theorem quiet_emit_trivia {toks : List RawTok} {b : B} {t : RawTok} (ht : toks[b.pos]? = some t)
    (hk : t.kind.isTrivia = true) :
    Quiet toks b (emit { b with pos := b.pos + 1 } (.token t.kind t.text)) := by
  refine ⟨rfl, ?_, ?_⟩
  · simp [emit, norm_append, norm, hk]
  · simp only [emit]
    rw [drop_eq_cons ht, nt_cons_trivia hk]

theorem eatTriviasAux_quiet {toks : List RawTok} (rest : List RawTok) (b : B)
    (hr : toks.drop b.pos = rest) :
    Quiet toks b (eatTriviasAux rest b) ∧
      ∀ t, (toks.drop (eatTriviasAux rest b).pos).head? = some t → t.kind.isTrivia = false := by
  induction rest generalizing b with
  | nil =>
    refine ⟨Quiet.refl _ _, ?_⟩
    intro t ht; simp only [eatTriviasAux] at ht; rw [hr] at ht; cases ht
  | cons t r ih =>
    simp only [eatTriviasAux]
    by_cases hk : t.kind.isTrivia = true
    · simp only [hk, if_true]
      have ht : toks[b.pos]? = some t := by
        have := congrArg List.head? hr
        simpa [List.head?_drop] using this
      have hq := quiet_emit_trivia ht hk
      have hr' : toks.drop (emit { b with pos := b.pos + 1 } (.token t.kind t.text)).pos = r := by
        simp only [emit]
        have := drop_eq_cons ht
        rw [hr] at this
        exact (List.cons.inj this).2.symm
      obtain ⟨h1, h2⟩ := ih _ hr'
      exact ⟨hq.trans h1, h2⟩
    · have hk' : t.kind.isTrivia = false := by simpa using hk
      simp only [hk', Bool.false_eq_true, if_false]
      refine ⟨Quiet.refl _ _, ?_⟩
      intro t' ht'; rw [hr] at ht'; cases ht'
      exact hk'

theorem eatTriviasAux_pos (rest : List RawTok) (b : B) :
    (eatTriviasAux rest b).pos = b.pos + (rest.takeWhile (fun t => t.kind.isTrivia)).length := by
  induction rest generalizing b with
  | nil => rfl
  | cons t r ih =>
    simp only [eatTriviasAux, List.takeWhile_cons]
    cases hk : t.kind.isTrivia
    · simp
    · simp only [if_true, ih, emit, List.length_cons]; omega

theorem eatTrivias_pos_congr (toks : List RawTok) {b d : B} (h : d.pos = b.pos) :
    (eatTrivias toks d).pos = (eatTrivias toks b).pos := by
  simp only [eatTrivias, eatTriviasAux_pos, h]

theorem eatTrivias_quiet (toks : List RawTok) (b : B) :
    Quiet toks b (eatTrivias toks b) ∧
      ∀ t, (toks.drop (eatTrivias toks b).pos).head? = some t → t.kind.isTrivia = false :=
  eatTriviasAux_quiet _ b rfl

theorem eatNTrivias_quiet {toks : List RawTok} (n : Nat) (b b' : B)
    (h : eatNTrivias toks n b = .ok b') : Quiet toks b b' := by
  induction n generalizing b with
  | zero => simp only [eatNTrivias] at h; cases h; exact Quiet.refl _ _
  | succ n ih =>
    simp only [eatNTrivias] at h
    cases ht : toks[b.pos]? with
    | none => rw [ht] at h; cases h
    | some t =>
      rw [ht] at h
      simp only at h
      by_cases hk : t.kind.isTrivia = true
      · simp only [hk, Bool.not_true, Bool.false_eq_true, if_false] at h
        exact (quiet_emit_trivia ht hk).trans (ih _ h)
      · simp only [hk, Bool.not_false, if_true] at h; cases h

theorem flushPending_sim {toks1 toks2 : List RawTok} {b1 b2 c1 c2 : B} (hs : Sim toks1 toks2 b1 b2)
    (h1 : flushPending b1 = .ok c1) (h2 : flushPending b2 = .ok c2) :
    Sim toks1 toks2 c1 c2 ∧ c1.state = .normal ∧ c1.pos = b1.pos ∧ c2.pos = b2.pos := by
  unfold flushPending at h1 h2
  have hst := hs.state
  cases hb : b1.state <;> rw [hb] at h1 hst <;> rw [← hst] at h2 <;> simp only at h1 h2
  · cases h1
  · cases h1; cases h2
    exact ⟨⟨rfl, hs.out, hs.rest⟩, rfl, rfl, rfl⟩
  · cases h1; cases h2
    refine ⟨⟨rfl, ?_, hs.rest⟩, rfl, rfl, rfl⟩
    simp [emit, norm_append, hs.out]

/-- the raw tokens a `token k n` step glues are not trivia -/
def tokenGlue (toks : List RawTok) (b : B) (n : Nat) : Bool :=
  ((toks.drop (eatTrivias toks b).pos).take n).all (fun t => !t.kind.isTrivia)

def stepGlue (toks : List RawTok) (b : B) : Step → Bool
  | .token _ n => tokenGlue toks b n
  | _ => true

/-- `glueOk` along a run: every composite token step consumes non-trivia raw tokens only -/
def glueOkFrom (toks : List RawTok) : List Step → B → Bool
  | [], _ => true
  | s :: ss, b =>
    match step toks b s with
    | .error _ => true
    | .ok b' => stepGlue toks b s && glueOkFrom toks ss b'

def glueOk (toks : List RawTok) (ss : List Step) : Bool := glueOkFrom toks ss {}

theorem doToken_sim {toks1 toks2 : List RawTok} {b1 b2 c1 c2 : B} {k : SyntaxKind} {n : Nat}
    (hs : Sim toks1 toks2 b1 b2)
    (g1 : ((toks1.drop b1.pos).take n).all (fun t => !t.kind.isTrivia) = true)
    (g2 : ((toks2.drop b2.pos).take n).all (fun t => !t.kind.isTrivia) = true)
    (h1 : doToken toks1 b1 k n = .ok c1) (h2 : doToken toks2 b2 k n = .ok c2) :
    Sim toks1 toks2 c1 c2 := by
  unfold doToken at h1 h2
  split at h1
  · cases h1
  · rename_i hc1
    split at h2
    · cases h2
    · rename_i hc2
      cases h1; cases h2
      have hl1 : ((toks1.drop b1.pos).take n).length = n := by
        rw [List.length_take, List.length_drop]; omega
      have hl2 : ((toks2.drop b2.pos).take n).length = n := by
        rw [List.length_take, List.length_drop]; omega
      have e1 : nt (toks1.drop b1.pos) = (toks1.drop b1.pos).take n ++ nt (toks1.drop (b1.pos + n)) := by
        conv => lhs; rw [← List.take_append_drop n (toks1.drop b1.pos)]
        rw [nt_append_non (by
          intro t ht; have := List.all_eq_true.mp g1 t ht; simpa using this), List.drop_drop]
      have e2 : nt (toks2.drop b2.pos) = (toks2.drop b2.pos).take n ++ nt (toks2.drop (b2.pos + n)) := by
        conv => lhs; rw [← List.take_append_drop n (toks2.drop b2.pos)]
        rw [nt_append_non (by
          intro t ht; have := List.all_eq_true.mp g2 t ht; simpa using this), List.drop_drop]
      have hr := hs.rest
      rw [e1, e2] at hr
      obtain ⟨ha, hb⟩ := List.append_inj hr (hl1.trans hl2.symm)
      refine ⟨hs.state, ?_, ?_⟩
      · simp only [emit, norm_append, hs.out, ha]
      · simpa [emit] using hb

/-- the body of `enter` outside `PendingEnter` -/
def enterBody (toks : List RawTok) (b : B) (kind : SyntaxKind) : M B := do
  let b ← flushPending b
  let leading := (toks.drop b.pos).takeWhile (·.kind.isTrivia)
  let nTrivias := leading.length
  let nAtt := nAttachedTrivias kind leading.reverse
  let b ← eatNTrivias toks (nTrivias - nAtt) b
  let b := emit b (.enter kind)
  eatNTrivias toks nAtt b

theorem step_enter_eq (toks : List RawTok) (b : B) (k : SyntaxKind) (h : b.state ≠ .pendingEnter) :
    step toks b (.enter k) = enterBody toks b k := by
  cases hb : b.state with
  | pendingEnter => exact absurd hb h
  | normal => simp only [step, hb, enterBody]
  | pendingExit => simp only [step, hb, enterBody]

theorem enter_sim {toks1 toks2 : List RawTok} {b1 b2 c1 c2 : B} {k : SyntaxKind}
    (hs : Sim toks1 toks2 b1 b2)
    (h1 : enterBody toks1 b1 k = .ok c1) (h2 : enterBody toks2 b2 k = .ok c2) :
    Sim toks1 toks2 c1 c2 := by
  simp only [enterBody, bind, Except.bind] at h1 h2
  cases hf1 : flushPending b1 with
  | error e => rw [hf1] at h1; cases h1
  | ok d1 =>
    cases hf2 : flushPending b2 with
    | error e => rw [hf2] at h2; cases h2
    | ok d2 =>
      rw [hf1] at h1; rw [hf2] at h2
      simp only at h1 h2
      obtain ⟨hsd, _, _, _⟩ := flushPending_sim hs hf1 hf2
      cases he1 : eatNTrivias toks1 (((toks1.drop d1.pos).takeWhile (·.kind.isTrivia)).length -
          nAttachedTrivias k ((toks1.drop d1.pos).takeWhile (·.kind.isTrivia)).reverse) d1 with
      | error e => rw [he1] at h1; cases h1
      | ok e1 =>
        cases he2 : eatNTrivias toks2 (((toks2.drop d2.pos).takeWhile (·.kind.isTrivia)).length -
            nAttachedTrivias k ((toks2.drop d2.pos).takeWhile (·.kind.isTrivia)).reverse) d2 with
        | error e => rw [he2] at h2; cases h2
        | ok e2 =>
          rw [he1] at h1; rw [he2] at h2
          simp only at h1 h2
          have q1 := eatNTrivias_quiet _ _ _ he1
          have q2 := eatNTrivias_quiet _ _ _ he2
          have r1 := eatNTrivias_quiet _ _ _ h1
          have r2 := eatNTrivias_quiet _ _ _ h2
          refine ⟨?_, ?_, ?_⟩
          · rw [r1.state, r2.state]; simp only [emit]; rw [q1.state, q2.state, hsd.state]
          · rw [r1.out, r2.out]; simp only [emit, norm_append]; rw [q1.out, q2.out, hsd.out]
          · rw [r1.rest, r2.rest]; simp only [emit]; rw [q1.rest, q2.rest, hsd.rest]

theorem step_sim {toks1 toks2 : List RawTok} {b1 b2 c1 c2 : B} (s : Step)
    (hs : Sim toks1 toks2 b1 b2)
    (g1 : stepGlue toks1 b1 s = true) (g2 : stepGlue toks2 b2 s = true)
    (h1 : step toks1 b1 s = .ok c1) (h2 : step toks2 b2 s = .ok c2) : Sim toks1 toks2 c1 c2 := by
  cases s with
  | token k n =>
    simp only [step, bind, Except.bind] at h1 h2
    cases hf1 : flushPending b1 with
    | error e => rw [hf1] at h1; cases h1
    | ok d1 =>
      cases hf2 : flushPending b2 with
      | error e => rw [hf2] at h2; cases h2
      | ok d2 =>
        rw [hf1] at h1; rw [hf2] at h2
        simp only at h1 h2
        obtain ⟨hsd, _, hp1, hp2⟩ := flushPending_sim hs hf1 hf2
        have q1 := (eatTrivias_quiet toks1 d1).1
        have q2 := (eatTrivias_quiet toks2 d2).1
        have hs' : Sim toks1 toks2 (eatTrivias toks1 d1) (eatTrivias toks2 d2) :=
          ⟨q1.state.trans (hsd.state.trans q2.state.symm), q1.out.trans (hsd.out.trans q2.out.symm),
           q1.rest.trans (hsd.rest.trans q2.rest.symm)⟩
        have e1 := eatTrivias_pos_congr toks1 hp1
        have e2 := eatTrivias_pos_congr toks2 hp2
        simp only [stepGlue, tokenGlue] at g1 g2
        rw [← e1] at g1; rw [← e2] at g2
        exact doToken_sim hs' g1 g2 h1 h2
  | enter k =>
    have hst := hs.state
    cases hb : b1.state with
    | pendingEnter =>
      rw [hb] at hst
      simp only [step, hb, ← hst] at h1 h2
      cases h1; cases h2
      exact ⟨rfl, by simp [emit, norm_append, norm, hs.out], hs.rest⟩
    | normal =>
      rw [hb] at hst
      rw [step_enter_eq _ _ _ (by rw [hb]; simp)] at h1
      rw [step_enter_eq _ _ _ (by rw [← hst]; simp)] at h2
      exact enter_sim hs h1 h2
    | pendingExit =>
      rw [hb] at hst
      rw [step_enter_eq _ _ _ (by rw [hb]; simp)] at h1
      rw [step_enter_eq _ _ _ (by rw [← hst]; simp)] at h2
      exact enter_sim hs h1 h2
  | exit =>
    have hst := hs.state
    cases hb : b1.state with
    | pendingEnter => simp only [step, hb] at h1; cases h1
    | normal =>
      rw [hb] at hst
      simp only [step, hb, ← hst] at h1 h2
      cases h1; cases h2
      exact ⟨rfl, hs.out, hs.rest⟩
    | pendingExit =>
      rw [hb] at hst
      simp only [step, hb, ← hst] at h1 h2
      cases h1; cases h2
      exact ⟨rfl, by simp [emit, norm_append, norm, hs.out], hs.rest⟩
  | error m =>
    simp only [step] at h1 h2
    cases h1; cases h2
    exact ⟨hs.state, by simp [emit, norm_append, norm, hs.out], hs.rest⟩

theorem steps_sim {toks1 toks2 : List RawTok} (ss : List Step) {b1 b2 c1 c2 : B}
    (hs : Sim toks1 toks2 b1 b2)
    (g1 : glueOkFrom toks1 ss b1 = true) (g2 : glueOkFrom toks2 ss b2 = true)
    (h1 : steps toks1 ss b1 = .ok c1) (h2 : steps toks2 ss b2 = .ok c2) : Sim toks1 toks2 c1 c2 := by
  induction ss generalizing b1 b2 with
  | nil => simp only [steps] at h1 h2; cases h1; cases h2; exact hs
  | cons s ss ih =>
    simp only [steps, bind, Except.bind] at h1 h2
    simp only [glueOkFrom] at g1 g2
    cases hs1 : step toks1 b1 s with
    | error e => rw [hs1] at h1; cases h1
    | ok d1 =>
      cases hs2 : step toks2 b2 s with
      | error e => rw [hs2] at h2; cases h2
      | ok d2 =>
        rw [hs1] at h1 g1; rw [hs2] at h2 g2
        simp only [Bool.and_eq_true] at g1 g2
        exact ih (step_sim s hs g1.1 g2.1 hs1 hs2) g1.2 g2.2 h1 h2

/-- **`intersperse_trivia` is layout-blind**: same non-trivia raw tokens, same parser steps ⇒
the emitted steps agree up to trivia tokens and error offsets -/
theorem intersperse_sim {toks1 toks2 : List RawTok} {ss : List Step} {out1 out2 : List StrStep}
    {eof1 eof2 : Bool} (hnt : nt toks1 = nt toks2)
    (g1 : glueOk toks1 ss = true) (g2 : glueOk toks2 ss = true)
    (h1 : intersperseTrivia toks1 ss = .ok (out1, eof1))
    (h2 : intersperseTrivia toks2 ss = .ok (out2, eof2)) : norm out1 = norm out2 := by
  simp only [intersperseTrivia, bind, Except.bind] at h1 h2
  cases hb1 : steps toks1 ss {} with
  | error e => rw [hb1] at h1; cases h1
  | ok c1 =>
    cases hb2 : steps toks2 ss {} with
    | error e => rw [hb2] at h2; cases h2
    | ok c2 =>
      rw [hb1] at h1; rw [hb2] at h2
      simp only at h1 h2
      have hs : Sim toks1 toks2 c1 c2 := steps_sim ss ⟨rfl, rfl, by simpa using hnt⟩ g1 g2 hb1 hb2
      have hst := hs.state
      cases hc : c1.state <;> rw [hc] at h1 hst <;> rw [← hst] at h2 <;> simp only at h1 h2
      · cases h1
      · cases h1
      · cases h1; cases h2
        simp only [emit, norm_append]
        rw [(eatTrivias_quiet toks1 c1).1.out, (eatTrivias_quiet toks2 c2).1.out, hs.out]

/-! ### the tree builder on a normalised step list -/

def isTriviaLeaf : Tree → Bool
  | .leaf k _ => k.isTrivia
  | .node .. => false

mutual
/-- the model tree without its trivia leaves -/
def eraseTriviaT : Tree → Tree
  | .node k cs => .node k (eraseTriviaTL cs)
  | .leaf k t => .leaf k t
def eraseTriviaTL : List Tree → List Tree
  | [] => []
  | c :: cs => if isTriviaLeaf c then eraseTriviaTL cs else eraseTriviaT c :: eraseTriviaTL cs
end

theorem eraseTriviaTL_append (a b : List Tree) :
    eraseTriviaTL (a ++ b) = eraseTriviaTL a ++ eraseTriviaTL b := by
  induction a with
  | nil => rfl
  | cons x xs ih => by_cases h : isTriviaLeaf x = true <;> simp [eraseTriviaTL, h, ih]

theorem eraseTriviaTL_reverse (l : List Tree) : eraseTriviaTL l.reverse = (eraseTriviaTL l).reverse := by
  induction l with
  | nil => rfl
  | cons x xs ih =>
    rw [List.reverse_cons, eraseTriviaTL_append, ih]
    by_cases h : isTriviaLeaf x = true <;> simp [eraseTriviaTL, h]

/-- the builder state on `norm out` mirrors the one on `out` -/
structure TRel (t t' : TB) : Prop where
  parents : t'.parents = t.parents.map (fun p => (p.1, eraseTriviaTL p.2))
  top : t'.top = eraseTriviaTL t.top

theorem TRel.push_keep {t t' : TB} (h : TRel t t') (x : Tree) (hx : isTriviaLeaf x = false) :
    TRel (t.push x) (t'.push (eraseTriviaT x)) := by
  unfold TB.push
  rcases hp : t.parents with _ | ⟨⟨k, cs⟩, ps⟩
  · have : t'.parents = [] := by rw [h.parents, hp]; rfl
    simp only [this]
    exact ⟨by simp [h.parents, hp], by simp [eraseTriviaTL, hx, h.top]⟩
  · have : t'.parents = (k, eraseTriviaTL cs) :: ps.map (fun p => (p.1, eraseTriviaTL p.2)) := by
      rw [h.parents, hp]; rfl
    simp only [this]
    exact ⟨by simp [eraseTriviaTL, hx], h.top⟩

theorem TRel.push_drop {t t' : TB} (h : TRel t t') (x : Tree) (hx : isTriviaLeaf x = true) :
    TRel (t.push x) t' := by
  unfold TB.push
  rcases hp : t.parents with _ | ⟨⟨k, cs⟩, ps⟩
  · exact ⟨by simp [h.parents, hp], by simp [eraseTriviaTL, hx, h.top]⟩
  · exact ⟨by simp [h.parents, hp, eraseTriviaTL, hx], h.top⟩

theorem tbSteps_norm (out : List StrStep) {t t' r : TB} (h : TRel t t') (hr : tbSteps out t = .ok r) :
    ∃ r', tbSteps (norm out) t' = .ok r' ∧ TRel r r' := by
  induction out generalizing t t' with
  | nil => simp only [tbSteps] at hr; cases hr; exact ⟨t', rfl, h⟩
  | cons s ss ih =>
    simp only [tbSteps, bind, Except.bind] at hr
    cases hs : tbStep t s with
    | error e => rw [hs] at hr; cases hr
    | ok u =>
      rw [hs] at hr
      simp only at hr
      cases s with
      | token k txt =>
        simp only [tbStep] at hs; cases hs
        by_cases hk : k.isTrivia = true
        · simp only [norm, hk, if_true]
          exact ih (h.push_drop (.leaf k txt) hk) hr
        · have hk' : k.isTrivia = false := by simpa using hk
          simp only [norm, hk', Bool.false_eq_true, if_false, tbSteps, tbStep, bind, Except.bind]
          exact ih (h.push_keep (.leaf k txt) hk') hr
      | enter k =>
        simp only [tbStep] at hs; cases hs
        simp only [norm, tbSteps, tbStep, bind, Except.bind]
        exact ih (t := { t with parents := (k, []) :: t.parents })
          (t' := { t' with parents := (k, []) :: t'.parents })
          ⟨by simp [h.parents, eraseTriviaTL], h.top⟩ hr
      | exit =>
        simp only [tbStep] at hs
        rcases hp : t.parents with _ | ⟨⟨k, cs⟩, ps⟩
        · rw [hp] at hs; cases hs
        · rw [hp] at hs
          simp only at hs; cases hs
          have hp' : t'.parents = (k, eraseTriviaTL cs) :: ps.map (fun p => (p.1, eraseTriviaTL p.2)) := by
            rw [h.parents, hp]; rfl
          simp only [norm, tbSteps, tbStep, hp', bind, Except.bind]
          have hrel : TRel ({ t with parents := ps } : TB) ({ t' with parents := ps.map (fun p => (p.1, eraseTriviaTL p.2)) } : TB) :=
            ⟨rfl, h.top⟩
          have := hrel.push_keep (.node k cs.reverse) rfl
          simp only [eraseTriviaT, eraseTriviaTL_reverse] at this
          exact ih this hr
      | error m p =>
        simp only [tbStep] at hs; cases hs
        simp only [norm, tbSteps, tbStep, bind, Except.bind]
        exact ih (t := { t with errors := t.errors ++ [⟨m, p⟩] })
          (t' := { t' with errors := t'.errors ++ [⟨m, 0⟩] }) ⟨h.parents, h.top⟩ hr

/-- the tree of `out`, trivia erased, is the tree of `norm out` -/
theorem tbRun_norm (out : List StrStep) {r : TB} {tree : Tree} {errs : List SynErr}
    (hr : tbSteps out {} = .ok r) (hf : tbFinish r = .ok (tree, errs)) :
    ∃ r' errs', tbSteps (norm out) {} = .ok r' ∧ tbFinish r' = .ok (eraseTriviaT tree, errs') := by
  obtain ⟨r', hr', hrel⟩ := tbSteps_norm out (t := {}) (t' := {}) ⟨rfl, rfl⟩ hr
  refine ⟨r', r'.errors, hr', ?_⟩
  unfold tbFinish at hf ⊢
  rcases ht : r.top with _ | ⟨x, _ | ⟨y, ys⟩⟩
  · rw [ht] at hf; cases hf
  · rw [ht] at hf
    cases x with
    | leaf k t => cases hf
    | node k cs =>
      simp only at hf; cases hf
      rw [hrel.top, ht]
      simp [eraseTriviaTL, isTriviaLeaf, eraseTriviaT]
  · rw [ht] at hf; simp at hf

/-- **the builder is layout-blind**: same non-trivia raw tokens and same parser steps ⇒ the two
trees agree once their trivia leaves are erased -/
theorem buildTree_layout {toks1 toks2 : List RawTok} {ss : List Step}
    {t1 t2 : Tree} {e1 e2 : List SynErr} {eof1 eof2 : Bool} (hnt : nt toks1 = nt toks2)
    (g1 : glueOk toks1 ss = true) (g2 : glueOk toks2 ss = true)
    (h1 : buildTree toks1 ss = .ok (t1, e1, eof1)) (h2 : buildTree toks2 ss = .ok (t2, e2, eof2)) :
    eraseTriviaT t1 = eraseTriviaT t2 := by
  simp only [buildTree, bind, Except.bind] at h1 h2
  cases hi1 : intersperseTrivia toks1 ss with
  | error e => rw [hi1] at h1; cases h1
  | ok p1 =>
    cases hi2 : intersperseTrivia toks2 ss with
    | error e => rw [hi2] at h2; cases h2
    | ok p2 =>
      obtain ⟨out1, f1⟩ := p1
      obtain ⟨out2, f2⟩ := p2
      rw [hi1] at h1; rw [hi2] at h2
      simp only at h1 h2
      have hn := intersperse_sim hnt g1 g2 hi1 hi2
      cases hr1 : tbSteps out1 {} with
      | error e => rw [hr1] at h1; cases h1
      | ok r1 =>
        cases hr2 : tbSteps out2 {} with
        | error e => rw [hr2] at h2; cases h2
        | ok r2 =>
          rw [hr1] at h1; rw [hr2] at h2
          simp only at h1 h2
          cases hf1 : tbFinish r1 with
          | error e => rw [hf1] at h1; cases h1
          | ok q1 =>
            cases hf2 : tbFinish r2 with
            | error e => rw [hf2] at h2; cases h2
            | ok q2 =>
              obtain ⟨u1, v1⟩ := q1
              obtain ⟨u2, v2⟩ := q2
              rw [hf1] at h1; rw [hf2] at h2
              simp only [Except.ok.injEq, Prod.mk.injEq] at h1 h2
              obtain ⟨rfl, _, _⟩ := h1
              obtain ⟨rfl, _, _⟩ := h2
              obtain ⟨r1', _, hr1', hf1'⟩ := tbRun_norm out1 hr1 hf1
              obtain ⟨r2', _, hr2', hf2'⟩ := tbRun_norm out2 hr2 hf2
              rw [hn] at hr1'
              rw [hr1'] at hr2'
              cases hr2'
              unfold tbFinish at hf1' hf2'
              split at hf1'
              · rename_i k cs htop
                rw [htop] at hf2'
                simp only [Except.ok.injEq, Prod.mk.injEq] at hf1' hf2'
                rw [← hf1'.1, ← hf2'.1]
              · cases hf1'

end Oq3.BuilderLayout
