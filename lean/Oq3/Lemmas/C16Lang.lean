/-
C16 for the inductive language of `Props/C04Lang2.lean`, part 1: statement LISTS, the adjacency
conditions between neighbouring statements as decidable predicates, and the decomposition of the
well-formedness of a list (`WFL2`, `WFTop`) into "every statement is well formed ON ITS OWN" plus
those adjacency conditions.

* `ofList`: `List Stmt2 → Stmts2`; the print, the events and the nodes of `ofList l` are the
  concatenations (`List.flatMap`) of the prints / events / nodes of the statements.
* `Compat a b` (F09e): NOT (`a` ends — through brace-less bodies — with an assignment AND `b` is an
  expression statement whose first token is `-`).  `adjOK l`: every neighbouring pair is compatible.
* `lastOK l` (F09d / F09f): the last statement of a block body does not end with a bare block.
* `letOK l` (F09b): no `let` statement after the first statement that the top-level dispatcher
  `item` does not dispatch itself (`isItem2 = false`): from there on `let` is a LET_STMT, on its own
  (and in the item run) it is an ALIAS_DECLARATION_STATEMENT.
* `wfL2_ofList`: `WFL2 curly (ofList l) ↔ (∀ s ∈ l, WFS2 s) ∧ adjOK l ∧ (curly → lastOK l)`.
* `wfTop_ofList`: if every singleton program `[s]`, `s ∈ l`, is well formed, then
  `WFTop (ofList l) ↔ adjOK l ∧ letOK l`.
* `wfTop_ofList_full` (no hypothesis): `WFTop (ofList l) ↔ (∀ s ∈ l, WFTop [alone s]) ∧ adjOK l ∧ letMode l`, where
  `alone s` is the statement that the TEXT of `s` is on its own (`let`: alias declaration) and `letMode l` says that
  every `let` of `l` is in the mode of its position.
-/
import Oq3.Lemmas.LangEv2Top
set_option linter.unusedSimpArgs false
set_option linter.unusedVariables false

namespace Oq3.C16Lang
open Oq3.Gen Oq3.Parser Oq3.LangEv Oq3.LangEv2

/-! ### statement lists -/

def ofList : List Stmt2 → Stmts2
  | [] => .nil
  | s :: l => .cons s (ofList l)

/-- the program that consists of the single statement `s` -/
abbrev single (s : Stmt2) : Stmts2 := .cons s .nil

theorem ofList_single (s : Stmt2) : ofList [s] = single s := rfl

theorem toksL2_ofList : ∀ l : List Stmt2, toksL2 (ofList l) = l.flatMap toksS2
  | [] => rfl
  | s :: l => by simp only [ofList, toksL2, List.flatMap_cons, toksL2_ofList l]

theorem evsL2_ofList : ∀ l : List Stmt2, evsL2 (ofList l) = l.flatMap evsS2
  | [] => rfl
  | s :: l => by simp only [ofList, evsL2, List.flatMap_cons, evsL2_ofList l]

theorem nodesL2_ofList : ∀ l : List Stmt2, nodesL2 (ofList l) = l.flatMap nodesS2
  | [] => rfl
  | s :: l => by simp only [ofList, nodesL2, List.flatMap_cons, nodesL2_ofList l]

theorem toksL2_single (s : Stmt2) : toksL2 (single s) = toksS2 s := by simp [toksL2]
theorem evsL2_single (s : Stmt2) : evsL2 (single s) = evsS2 s := by simp [evsL2]
theorem nodesL2_single (s : Stmt2) : nodesL2 (single s) = nodesS2 s := by simp [nodesL2]

theorem ofList_ne_nil : ∀ l : List Stmt2, ofList l ≠ .nil ↔ l ≠ []
  | [] => by simp [ofList]
  | s :: l => by simp [ofList]

/-! ### fuel -/

theorem needL2_pos (ss : Stmts2) : 1 ≤ needL2 ss := by
  cases ss <;> simp only [needL2] <;> omega

/-- the fuel for the whole list suffices for every statement on its own -/
theorem needL2_single_le : ∀ (l : List Stmt2) (s : Stmt2), s ∈ l → needL2 (single s) ≤ needL2 (ofList l)
  | s' :: l, s, h => by
    have hp := needL2_pos (ofList l)
    rcases List.mem_cons.1 h with rfl | h
    · simp only [needL2, ofList]; omega
    · have := needL2_single_le l s h
      simp only [needL2, ofList] at this ⊢; omega

/-- an explicit bound: the largest need of a statement plus the number of statements plus one -/
def maxNeed : List Stmt2 → Nat
  | [] => 0
  | s :: l => max (needS2 s) (maxNeed l)

theorem needL2_ofList_le : ∀ l : List Stmt2, needL2 (ofList l) ≤ maxNeed l + l.length + 1
  | [] => by simp [ofList, needL2, maxNeed]
  | s :: l => by
    have := needL2_ofList_le l
    simp only [ofList, needL2, maxNeed, List.length_cons]; omega

/-! ### the adjacency conditions -/

/-- an expression statement whose first token is `-` -/
def startsMinusS : Stmt2 → Bool
  | .exprS x => firstX x == .MINUS
  | _ => false

theorem startsMinus2_cons (s : Stmt2) (ss : Stmts2) : startsMinus2 (.cons s ss) = startsMinusS s := by
  cases s <;> rfl

/-- **F09e**: `b` may follow `a` — not (`a` ends with an assignment and `b` starts with `-`) -/
def Compat (a b : Stmt2) : Bool := !(endsAssign a && startsMinusS b)

/-- `a` is compatible with the first statement of `l`, if there is one -/
def headOK (a : Stmt2) : List Stmt2 → Bool
  | [] => true
  | b :: _ => Compat a b

/-- every neighbouring pair of the list is compatible -/
def adjOK : List Stmt2 → Bool
  | [] => true
  | a :: l => headOK a l && adjOK l

/-- **F09d / F09f**: the last statement (of a block body) does not end with a bare block -/
def lastOK : List Stmt2 → Bool
  | [] => true
  | [a] => !endsBlock a
  | _ :: b :: l => lastOK (b :: l)

def noLet (l : List Stmt2) : Bool := l.all fun s => !isLet s

/-- **F09b**: no `let` after the first statement that `item` hands to the statement loop -/
def letOK : List Stmt2 → Bool
  | [] => true
  | s :: l => if isItem2 s then letOK l else noLet l

/-- the conditions between the statements of a top-level sequence -/
def compatTop (l : List Stmt2) : Bool := adjOK l && letOK l

/-- the conditions between the statements of a block body -/
def compatBlock (l : List Stmt2) : Bool := adjOK l && lastOK l

theorem adjOK_pair (a b : Stmt2) : adjOK [a, b] = Compat a b := by simp [adjOK, headOK]

theorem headOK_iff (a : Stmt2) (l : List Stmt2) :
    (endsAssign a = true → startsMinus2 (ofList l) = false) ↔ headOK a l = true := by
  cases l with
  | nil => simp [ofList, startsMinus2, headOK]
  | cons b l =>
    simp only [ofList, startsMinus2_cons, headOK, Compat]
    cases endsAssign a <;> cases startsMinusS b <;> simp

theorem lastOK_cons (s : Stmt2) (l : List Stmt2) :
    lastOK (s :: l) = true ↔ (endsBlock s = true → l ≠ []) ∧ lastOK l = true := by
  cases l with
  | nil => cases h : endsBlock s <;> simp [lastOK, h]
  | cons b l => simp [lastOK]

/-! ### the well-formedness of a list, decomposed -/

/-- **`WFL2` of a list = every statement well formed + the adjacency conditions** -/
theorem wfL2_ofList (curly : Bool) : ∀ l : List Stmt2,
    WFL2 curly (ofList l) ↔ (∀ s ∈ l, WFS2 s) ∧ adjOK l = true ∧ (curly = true → lastOK l = true)
  | [] => by simp [ofList, WFL2, adjOK, lastOK]
  | s :: l => by
    have ih := wfL2_ofList curly l
    simp only [ofList, WFL2, ih, headOK_iff, ofList_ne_nil, adjOK, Bool.and_eq_true, lastOK_cons, List.mem_cons,
      forall_eq_or_imp]
    constructor
    · rintro ⟨h1, ⟨h2, h3, h4⟩, h5, h6⟩
      exact ⟨⟨h1, h2⟩, ⟨h5, h3⟩, fun hc => ⟨fun hb => h6 hb hc, h4 hc⟩⟩
    · rintro ⟨⟨h1, h2⟩, ⟨h5, h3⟩, h4⟩
      exact ⟨h1, ⟨h2, h3, fun hc => (h4 hc).2⟩, h5, fun hb hc => (h4 hc).1 hb⟩

/-- a block body -/
theorem wfBlock_ofList (l : List Stmt2) :
    WFL2 true (ofList l) ↔ (∀ s ∈ l, WFS2 s) ∧ compatBlock l = true := by
  rw [wfL2_ofList]; simp [compatBlock, and_assoc]

/-- a statement alone in a block `{ s }` -/
theorem wfBlock_single (s : Stmt2) : WFL2 true (single s) ↔ WFS2 s ∧ endsBlock s = false := by
  have := wfBlock_ofList [s]
  simp only [ofList] at this
  rw [this]; simp [compatBlock, adjOK, headOK, lastOK]

/-- a statement alone at the top level -/
theorem wfTop_single (s : Stmt2) :
    WFTop (single s) ↔ (isItem2 s = true ∧ WFItem s) ∨ (isItem2 s = false ∧ WFS2 s) := by
  simp [WFTop, WFL2, startsMinus2]

theorem isItem2_of_isLet (s : Stmt2) (h : isLet s = true) : isItem2 s = true := by
  cases s <;> first | rfl | cases h

/-- a statement that parses alone at the top level and is not a `let` is accepted by `stmt` -/
theorem wfS2_of_single (s : Stmt2) (h : WFTop (single s)) (hl : isLet s = false) : WFS2 s := by
  rcases (wfTop_single s).1 h with ⟨-, h⟩ | ⟨-, h⟩
  · rwa [WFItem_eq s hl] at h
  · exact h

/-- a `let` is never both: a well-formed statement of the loop (LET_STMT) and well formed alone (alias) -/
theorem notLet_of (s : Stmt2) (h1 : WFS2 s) (h2 : WFTop (single s)) : isLet s = false := by
  cases s <;> first | rfl | skip
  · -- letS
    rcases (wfTop_single _).1 h2 with ⟨-, h⟩ | ⟨h, -⟩
    · exact absurd h (by simp [WFItem])
    · cases h
  · exact absurd h1 (by simp [WFS2])

theorem noLet_cons (s : Stmt2) (l : List Stmt2) : noLet (s :: l) = (!isLet s && noLet l) := by
  simp [noLet]

theorem letOK_of_noLet : ∀ l : List Stmt2, noLet l = true → letOK l = true
  | [], _ => rfl
  | s :: l, h => by
    rw [noLet_cons, Bool.and_eq_true] at h
    simp only [letOK]
    split
    · exact letOK_of_noLet l h.2
    · exact h.2

/-- the statement loop at the top level (after the first non-item statement) -/
theorem wfL2_false_of (l : List Stmt2) (hs : ∀ s ∈ l, WFTop (single s)) (hn : noLet l = true) (ha : adjOK l = true) :
    WFL2 false (ofList l) := by
  rw [wfL2_ofList]
  refine ⟨fun s h => wfS2_of_single s (hs s h) ?_, ha, fun h => by cases h⟩
  have := List.all_eq_true.1 hn s h
  simpa using this

theorem noLet_of_wfL2 (l : List Stmt2) (hs : ∀ s ∈ l, WFTop (single s)) (h : WFL2 false (ofList l)) :
    noLet l = true := by
  rw [wfL2_ofList] at h
  refine List.all_eq_true.2 fun s hm => ?_
  simp [notLet_of s (h.1 s hm) (hs s hm)]

/-- **`WFTop` of a list of statements that are well formed on their own = the adjacency conditions** -/
theorem wfTop_ofList : ∀ l : List Stmt2, (∀ s ∈ l, WFTop (single s)) →
    (WFTop (ofList l) ↔ compatTop l = true)
  | [], _ => by simp [ofList, WFTop, compatTop, adjOK, letOK]
  | s :: l, hs => by
    have hs' : ∀ s ∈ l, WFTop (single s) := fun x hx => hs x (List.mem_cons_of_mem _ hx)
    have ih := wfTop_ofList l hs'
    have h0 := (wfTop_single s).1 (hs s (List.mem_cons_self ..))
    simp only [compatTop, Bool.and_eq_true] at ih ⊢
    constructor
    · intro h
      simp only [ofList, WFTop] at h
      rcases h with ⟨hit, -, hws, hm⟩ | ⟨hnit, hwl⟩
      · have := ih.1 hws
        exact ⟨by simp only [adjOK, Bool.and_eq_true]; exact ⟨(headOK_iff s l).1 hm, this.1⟩,
          by simp only [letOK, hit, if_true]; exact this.2⟩
      · have hwl' : WFL2 false (ofList (s :: l)) := hwl
        have hall := (wfL2_ofList false (s :: l)).1 hwl'
        have hn : noLet l = true :=
          noLet_of_wfL2 l hs' (by simp only [ofList, WFL2] at hwl'; exact hwl'.2.1)
        exact ⟨hall.2.1, by simp only [letOK, hnit, Bool.false_eq_true, if_false]; exact hn⟩
    · rintro ⟨ha, hl⟩
      simp only [adjOK, Bool.and_eq_true] at ha
      simp only [ofList, WFTop]
      cases hit : isItem2 s with
      | true =>
        simp only [letOK, hit, if_true] at hl
        rcases h0 with ⟨-, hwi⟩ | ⟨hc, -⟩
        · exact Or.inl ⟨rfl, hwi, ih.2 ⟨ha.2, hl⟩, (headOK_iff s l).2 ha.1⟩
        · rw [hit] at hc; cases hc
      | false =>
        simp only [letOK, hit, Bool.false_eq_true, if_false] at hl
        refine Or.inr ⟨rfl, ?_⟩
        have hsl : isLet s = false := by
          cases h : isLet s with
          | false => rfl
          | true => rw [isItem2_of_isLet s h] at hit; cases hit
        have : WFL2 false (ofList (s :: l)) :=
          wfL2_false_of (s :: l) hs (by rw [noLet_cons, hsl, hl]; rfl)
            (by simp only [adjOK, Bool.and_eq_true]; exact ha)
        exact this

/-! ### the complete characterisation of `WFTop` on lists (both `let` modes) -/

def isLetS : Stmt2 → Bool
  | .letS _ => true
  | _ => false

/-- the statement that the text of `s` is when it is parsed on its own at the top level: `let` is an alias declaration -/
def alone : Stmt2 → Stmt2
  | .letS e => .alias e
  | s => s

theorem toksS2_alone (s : Stmt2) : toksS2 (alone s) = toksS2 s := by cases s <;> rfl

theorem needL2_single_alone (s : Stmt2) : needL2 (single (alone s)) ≤ needL2 (single s) + 2 := by
  cases s with
  | letS e => simp only [alone, needL2, needS2]; omega
  | _ => exact Nat.le_add_right _ _

theorem alone_of_notLetS (s : Stmt2) (h : isLetS s = false) : alone s = s := by
  cases s <;> first | rfl | cases h

def isAlias : Stmt2 → Bool
  | .alias _ => true
  | _ => false

/-- every `let` is in the mode of its position: ALIAS_DECLARATION_STATEMENT in the item run, LET_STMT after the
first statement that `item` does not dispatch -/
def letMode : List Stmt2 → Bool
  | [] => true
  | s :: l => if isItem2 s then !isLetS s && letMode l else l.all fun s => !isAlias s

theorem wfItem_iff (s : Stmt2) (h : isItem2 s = true) :
    WFItem s ↔ isLetS s = false ∧ WFTop (single (alone s)) := by
  cases s <;> first | (cases h; done) | simp [wfTop_single, alone, isItem2, WFItem, isLetS]

theorem wfS2_iff (s : Stmt2) : WFS2 s ↔ isAlias s = false ∧ WFTop (single (alone s)) := by
  cases s <;> simp [wfTop_single, alone, isItem2, WFItem, isAlias, WFS2]

theorem isAlias_item (s : Stmt2) (h : isItem2 s = false) : isAlias s = false := by
  cases s <;> first | rfl | cases h

/-- **`WFTop` of a list, completely**: the text of every statement is well formed on its own, neighbours are
compatible (F09e), and every `let` is in the mode of its position (F09b) -/
theorem wfTop_ofList_full : ∀ l : List Stmt2,
    WFTop (ofList l) ↔ (∀ s ∈ l, WFTop (single (alone s))) ∧ adjOK l = true ∧ letMode l = true
  | [] => by simp [ofList, WFTop, adjOK, letMode]
  | s :: l => by
    have ih := wfTop_ofList_full l
    cases hit : isItem2 s with
    | true =>
      simp only [ofList, WFTop, hit, true_and, Bool.true_eq_false, false_and, or_false, ih, headOK_iff, wfItem_iff s hit,
        adjOK, letMode, if_true, Bool.and_eq_true, Bool.not_eq_true', List.mem_cons, forall_eq_or_imp]
      constructor
      · rintro ⟨⟨h1, h2⟩, ⟨h3, h4, h5⟩, h6⟩
        exact ⟨⟨h2, h3⟩, ⟨h6, h4⟩, h1, h5⟩
      · rintro ⟨⟨h2, h3⟩, ⟨h6, h4⟩, h1, h5⟩
        exact ⟨⟨h1, h2⟩, ⟨h3, h4, h5⟩, h6⟩
    | false =>
      have hb : WFTop (ofList (s :: l)) ↔ WFL2 false (ofList (s :: l)) := by
        simp only [ofList, WFTop, hit, Bool.false_eq_true, false_and, false_or, true_and]
      rw [hb, wfL2_ofList]
      simp only [letMode, hit, Bool.false_eq_true, if_false, List.all_eq_true, Bool.not_eq_true', false_implies,
        and_true]
      constructor
      · rintro ⟨h1, h2⟩
        exact ⟨fun x hx => ((wfS2_iff x).1 (h1 x hx)).2, h2,
          fun x hx => ((wfS2_iff x).1 (h1 x (List.mem_cons_of_mem _ hx))).1⟩
      · rintro ⟨h1, h2, h3⟩
        refine ⟨fun x hx => (wfS2_iff x).2 ⟨?_, h1 x hx⟩, h2⟩
        rcases List.mem_cons.1 hx with rfl | hx'
        · exact isAlias_item _ hit
        · exact h3 x hx'


/-- the direction used below: statements that are well formed on their own and pairwise compatible
form a well-formed program -/
theorem wfTop_of_singles (l : List Stmt2) (hs : ∀ s ∈ l, WFTop (single s)) (hc : compatTop l = true) :
    WFTop (ofList l) := (wfTop_ofList l hs).2 hc

end Oq3.C16Lang
