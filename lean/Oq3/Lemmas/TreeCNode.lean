/-
The model syntax tree (`Builder.Tree`: kinds and leaf texts, ranges derived) as a `CNode`
(explicit ranges, the printed form of `oq3-run tree`), and the two notions of "erase the trivia":
`eraseTrivia (ofTree t off)` is a function of `eraseTriviaT t` alone (`E_ofTree`).
-/
import Oq3.Lemmas.AccTrivia
import Oq3.Lemmas.BuilderLayout

namespace Oq3.Acc
open Oq3.Gen Oq3.Builder Oq3.BuilderLayout

mutual
/-- the tree with its byte ranges, starting at offset `off`; second component: the end offset -/
def ofTree : Tree → Nat → CNode × Nat
  | .leaf k txt, off => (.token k off (off + Oq3.Builder.utf8Len txt) txt, off + Oq3.Builder.utf8Len txt)
  | .node k cs, off => (.node k off (ofTrees cs off).2 (ofTrees cs off).1, (ofTrees cs off).2)
def ofTrees : List Tree → Nat → List CNode × Nat
  | [], off => ([], off)
  | c :: cs, off => ((ofTree c off).1 :: (ofTrees cs (ofTree c off).2).1, (ofTrees cs (ofTree c off).2).2)
end

/-- the syntax tree (I4) of a model tree: ranges from offset 0 -/
def cnodeOf (t : Tree) : CNode := (ofTree t 0).1

mutual
/-- the tree with all ranges 0 -/
def zeroTree : Tree → CNode
  | .leaf k txt => .token k 0 0 txt
  | .node k cs => .node k 0 0 (zeroTrees cs)
def zeroTrees : List Tree → List CNode
  | [] => []
  | c :: cs => zeroTree c :: zeroTrees cs
end

theorem isTriviaTok_ofTree (c : Tree) (off : Nat) : isTriviaTok (ofTree c off).1 = isTriviaLeaf c := by
  cases c <;> rfl

mutual
theorem E_ofTree : ∀ (t : Tree) (off : Nat), eraseTrivia (ofTree t off).1 = zeroTree (eraseTriviaT t)
  | .leaf k txt, off => rfl
  | .node k cs, off => by
    simp only [ofTree, eraseTrivia, eraseTriviaT, zeroTree]
    rw [EL_ofTrees cs off]
theorem EL_ofTrees : ∀ (cs : List Tree) (off : Nat),
    eraseTriviaL (ofTrees cs off).1 = zeroTrees (eraseTriviaTL cs)
  | [], off => rfl
  | c :: cs, off => by
    simp only [ofTrees, eraseTriviaL, eraseTriviaTL, isTriviaTok_ofTree]
    split
    · exact EL_ofTrees cs _
    · simp only [zeroTrees]
      rw [E_ofTree c off, EL_ofTrees cs _]
end

/-- erasing trivia and ranges of the `CNode` of a model tree depends only on the model tree without
its trivia leaves -/
theorem eraseTrivia_cnodeOf {t1 t2 : Tree} (h : eraseTriviaT t1 = eraseTriviaT t2) :
    eraseTrivia (cnodeOf t1) = eraseTrivia (cnodeOf t2) := by
  unfold cnodeOf; rw [E_ofTree, E_ofTree, h]

end Oq3.Acc
