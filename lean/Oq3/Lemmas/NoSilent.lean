/-
"No silent error node" (C12), grammar-independent part.

A parser state is `NoSilent` when an `ERROR` node or `ERROR` token among its events is accompanied
by at least one `error` event.  The property is monotone — once an `error` event exists it exists
forever (`abandon` pops only a trailing tombstone `Start`; `complete`/`precede`/`extend_to` rewrite
a `Start` into a `Start`) — so all the work is at the places that can push `Token(ERROR)` (every
token-consuming primitive) or complete a node as `ERROR`.

Assertions: `St e ok s` :=  an error event exists  ∨  (`e` ∧ no ERROR node/token so far ∧ the
current token kind satisfies `ok`).  `e` is `False` once an error has certainly been pushed on the
path; `ok` is what the enclosing guards (`at`, `at_ts`, `current`) told about the current token;
it is forgotten (`Any`) by everything that consumes input.  `Tr A x B` is the Hoare triple for
successful runs.
-/
import Oq3.Lemmas.Tables
import Oq3.Model.Grammar

namespace Oq3.Parser
open Oq3.Gen

/-! ### the assertions -/

/-- the event is neither an `ERROR` node nor an `ERROR` token -/
def Ev.errFree : Ev → Bool
  | .start k _ => k != .ERROR
  | .token k _ => k != .ERROR
  | _ => true

/-- at least one diagnostic has been pushed -/
def HasErr (s : P) : Prop := ∃ m, Ev.error m ∈ s.events.toList

/-- no `ERROR` node and no `ERROR` token so far -/
def Clean (s : P) : Prop := ∀ e ∈ s.events.toList, e.errFree = true

/-- **the C12 clause on a parser state** -/
def NoSilent (s : P) : Prop :=
  (∃ e ∈ s.events.toList, (∃ fp, e = Ev.start .ERROR fp) ∨ (∃ n, e = Ev.token .ERROR n)) →
    ∃ m, Ev.error m ∈ s.events.toList

def Any : SyntaxKind → Prop := fun _ => True

def St (e : Prop) (ok : SyntaxKind → Prop) (s : P) : Prop :=
  HasErr s ∨ (e ∧ Clean s ∧ ok (s.kindAt s.pos))

theorem St.noSilent {e ok s} (h : St e ok s) : NoSilent s := by
  rintro ⟨ev, hev, hk⟩
  rcases h with h | ⟨_, hc, _⟩
  · exact h
  · have := hc ev hev
    rcases hk with ⟨fp, rfl⟩ | ⟨n, rfl⟩ <;> simp [Ev.errFree] at this

theorem St.weak {e e0 : Prop} {ok s} (hw : e → e0) (h : St e ok s) : St e0 Any s := by
  rcases h with h | ⟨he, hc, _⟩
  · exact .inl h
  · exact .inr ⟨hw he, hc, trivial⟩

theorem St.init (kinds : Array SyntaxKind) (joint : Array Bool) (npl : Nat) :
    St True Any { kinds := kinds, joint := joint, noProgressLimit := npl } :=
  .inr ⟨trivial, by intro e he; simp at he, trivial⟩

/-! ### how a primitive may change the state -/

/-- a step that consumes no input -/
structure Quiet (s s' : P) : Prop where
  kinds : s'.kinds = s.kinds
  pos : s'.pos = s.pos
  err : HasErr s → HasErr s'
  clean : Clean s → Clean s'

theorem Quiet.refl (s : P) : Quiet s s := ⟨rfl, rfl, id, id⟩

theorem Quiet.st {s s' : P} (q : Quiet s s') {e ok} (h : St e ok s) : St e ok s' := by
  rcases h with h | ⟨he, hc, hk⟩
  · exact .inl (q.err h)
  · refine .inr ⟨he, q.clean hc, ?_⟩
    unfold P.kindAt; rw [q.kinds, q.pos]; exact hk

theorem hasErr_push {evs : Array Ev} (x : Ev) (h : ∃ m, Ev.error m ∈ evs.toList) :
    ∃ m, Ev.error m ∈ (evs.push x).toList := by
  obtain ⟨m, hm⟩ := h
  exact ⟨m, by simp [hm]⟩

theorem clean_push {evs : Array Ev} (x : Ev) (hx : x.errFree = true)
    (h : ∀ e ∈ evs.toList, e.errFree = true) : ∀ e ∈ (evs.push x).toList, e.errFree = true := by
  intro e he
  simp only [Array.toList_push, List.mem_append, List.mem_singleton] at he
  rcases he with he | rfl
  · exact h e he
  · exact hx

theorem mem_set_of_ne {l : List Ev} {i : Nat} {x y a : Ev} (hi : l[i]? = some x) (hne : a ≠ x)
    (ha : a ∈ l) : a ∈ l.set i y := by
  obtain ⟨j, hj⟩ := List.mem_iff_getElem?.mp ha
  have hji : i ≠ j := by
    intro e; subst e; rw [hi] at hj; exact hne (Option.some.inj hj).symm
  exact List.mem_iff_getElem?.mpr ⟨j, by rw [List.getElem?_set_ne hji]; exact hj⟩

/-- rewriting a `Start` into a `Start` whose kind is not `ERROR` (or is the old kind) -/
theorem quiet_set_start {s : P} {i : Nat} {k0 k : SyntaxKind} {fp0 fp : Option Nat}
    (hi : s.events[i]? = some (.start k0 fp0)) (hk : k ≠ .ERROR ∨ k = k0) (s' : P)
    (hk' : s'.kinds = s.kinds) (hp : s'.pos = s.pos)
    (he : s'.events = s.events.setIfInBounds i (.start k fp)) : Quiet s s' := by
  have hi' : s.events.toList[i]? = some (.start k0 fp0) := by simpa using hi
  refine ⟨hk', hp, ?_, ?_⟩
  · rintro ⟨m, hm⟩
    refine ⟨m, ?_⟩
    rw [he, toList_set!]
    exact mem_set_of_ne hi' (by intro h; cases h) hm
  · intro hc e hmem
    rw [he, toList_set!] at hmem
    rcases List.mem_or_eq_of_mem_set hmem with h | rfl
    · exact hc e h
    · rcases hk with hk | rfl
      · simpa [Ev.errFree] using hk
      · have := hc _ (List.mem_of_getElem? hi')
        simpa [Ev.errFree] using this

theorem quiet_push {s : P} (x : Ev) (hx : x.errFree = true) (s' : P) (hk' : s'.kinds = s.kinds)
    (hp : s'.pos = s.pos) (he : s'.events = s.events.push x) : Quiet s s' :=
  ⟨hk', hp, fun h => by unfold HasErr; rw [he]; exact hasErr_push x h,
    fun h => by unfold Clean; rw [he]; exact clean_push x hx h⟩

theorem Quiet.trans {a b c : P} (h1 : Quiet a b) (h2 : Quiet b c) : Quiet a c :=
  ⟨h2.kinds.trans h1.kinds, h2.pos.trans h1.pos, fun h => h2.err (h1.err h),
    fun h => h2.clean (h1.clean h)⟩

/-! ### triples -/

/-- Hoare triple over successful runs (state-only postcondition) -/
structure Tr (A : P → Prop) {α} (x : G α) (B : P → Prop) : Prop where
  run : ∀ s r, A s → x s = .ok r → B r.2

/-- `x` keeps what is known about the current token (consumes nothing, adds no ERROR) -/
structure Keeps {α} (x : G α) : Prop where
  tr : ∀ e ok, Tr (St e ok) x (St e ok)

/-- `x` may consume input but never silently -/
structure Cons {α} (x : G α) : Prop where
  tr : ∀ e ok, Tr (St e ok) x (St e Any)

theorem Tr.bind {A B C : P → Prop} {α β} {x : G α} {f : α → G β} (hx : Tr A x B)
    (hf : ∀ a, Tr B (f a) C) : Tr A (x >>= f) C := by
  refine ⟨fun s r hs h => ?_⟩
  obtain ⟨a, s1, h1, h2⟩ := (G.bind_ok x f s r).mp h
  exact (hf a).run s1 r (hx.run s (a, s1) hs h1) h2

theorem Tr.post {A B C : P → Prop} {α} {x : G α} (hx : Tr A x B) (hw : ∀ s, B s → C s) :
    Tr A x C := ⟨fun s r hs h => hw _ (hx.run s r hs h)⟩

theorem Tr.pre {A A' B : P → Prop} {α} {x : G α} (hx : Tr A' x B) (hw : ∀ s, A s → A' s) :
    Tr A x B := ⟨fun s r hs h => hx.run s r (hw _ hs) h⟩

theorem Tr.fail {A B : P → Prop} {α} (o : Outcome) : Tr A (fail o : G α) B :=
  ⟨fun s r _ h => by simp at h⟩

theorem Tr.panic {A B : P → Prop} {α} (site : String) : Tr A (panic site : G α) B :=
  ⟨fun s r _ h => by simp at h⟩

theorem Tr.bind_panic {A C : P → Prop} {α β} (site : String) (f : α → G β) :
    Tr A ((Oq3.Parser.panic site : G α) >>= f) C := by
  refine ⟨fun s r _ h => ?_⟩
  obtain ⟨a, s1, h1, _⟩ := (G.bind_ok _ f s r).mp h
  simp at h1

theorem Tr.bind_fail {A C : P → Prop} {α β} (o : Outcome) (f : α → G β) :
    Tr A ((Oq3.Parser.fail o : G α) >>= f) C := by
  refine ⟨fun s r _ h => ?_⟩
  obtain ⟨a, s1, h1, _⟩ := (G.bind_ok _ f s r).mp h
  simp at h1

theorem Tr.ite {A C : P → Prop} {α} (c : Prop) [Decidable c] {x y : G α} (hx : c → Tr A x C)
    (hy : ¬c → Tr A y C) : Tr A (if c then x else y) C := by
  split
  · exact hx ‹_›
  · exact hy ‹_›

theorem Tr.pure_weak {e e0 : Prop} {ok} {α} (a : α) (hw : e → e0) :
    Tr (St e ok) (pure a : G α) (St e0 Any) := by
  refine ⟨fun s r hs h => ?_⟩; simp at h; subst h; exact hs.weak hw

/-- bind through a step that keeps the knowledge -/
theorem Tr.bind_keeps {e ok} {C : P → Prop} {α β} {x : G α} {f : α → G β} (hx : Keeps x)
    (hf : ∀ a, Tr (St e ok) (f a) C) : Tr (St e ok) (x >>= f) C := (hx.tr e ok).bind hf

/-- bind through a step that may consume -/
theorem Tr.bind_cons {e ok} {C : P → Prop} {α β} {x : G α} {f : α → G β} (hx : Cons x)
    (hf : ∀ a, Tr (St e Any) (f a) C) : Tr (St e ok) (x >>= f) C := (hx.tr e ok).bind hf

theorem Tr.tail_keeps {e e0 : Prop} {ok} {α} {x : G α} (hx : Keeps x) (hw : e → e0) :
    Tr (St e ok) x (St e0 Any) := (hx.tr e ok).post fun _ h => h.weak hw

theorem Tr.tail_cons {e e0 : Prop} {ok} {α} {x : G α} (hx : Cons x) (hw : e → e0) :
    Tr (St e ok) x (St e0 Any) := (hx.tr e ok).post fun _ h => h.weak hw

/-- bind / tail with an explicit triple whose postcondition is `St e' ok'` -/
theorem Tr.tail {e e' e0 : Prop} {ok ok'} {α} {x : G α} (hx : Tr (St e ok) x (St e' ok'))
    (hw : e' → e0) : Tr (St e ok) x (St e0 Any) := hx.post fun _ h => h.weak hw

theorem Keeps.cons {α} {x : G α} (h : Keeps x) : Cons x :=
  ⟨fun e ok => (h.tr e ok).post fun _ hs => hs.weak id⟩

/-! #### closure of `Keeps` and `Cons` -/

theorem Keeps.of_quiet {α} {x : G α} (h : ∀ s r, x s = .ok r → Quiet s r.2) : Keeps x :=
  ⟨fun _ _ => ⟨fun s r hs hr => (h s r hr).st hs⟩⟩

theorem Keeps.of_readOnly {α} {x : G α} (h : ReadOnly x) : Keeps x :=
  Keeps.of_quiet fun s r hr => by rw [h s r hr]; exact Quiet.refl s

theorem Keeps.bind {α β} {x : G α} {f : α → G β} (hx : Keeps x) (hf : ∀ a, Keeps (f a)) :
    Keeps (x >>= f) := ⟨fun e ok => (hx.tr e ok).bind fun a => (hf a).tr e ok⟩

theorem Keeps.pure {α} (a : α) : Keeps (pure a : G α) :=
  ⟨fun _ _ => ⟨fun s r hs h => by simp at h; subst h; exact hs⟩⟩

theorem Keeps.fail {α} (o : Outcome) : Keeps (fail o : G α) := ⟨fun _ _ => Tr.fail o⟩
theorem Keeps.panic {α} (site : String) : Keeps (panic site : G α) := ⟨fun _ _ => Tr.panic site⟩

theorem keeps_andM {x y : G Bool} (hx : Keeps x) (hy : Keeps y) : Keeps (x <&&> y) := by
  unfold _root_.andM
  refine Keeps.bind hx ?_
  intro b; cases b
  · exact Keeps.pure _
  · exact hy

theorem keeps_orM {x y : G Bool} (hx : Keeps x) (hy : Keeps y) : Keeps (x <||> y) := by
  unfold _root_.orM
  refine Keeps.bind hx ?_
  intro b; cases b
  · exact hy
  · exact Keeps.pure _

theorem keeps_notM {x : G Bool} (hx : Keeps x) : Keeps (notM x) := by
  unfold _root_.notM
  refine ⟨fun e ok => ⟨fun s r hs h => ?_⟩⟩
  rw [G.map_ok] at h
  obtain ⟨a, s1, h1, h2⟩ := h
  subst h2
  exact (hx.tr e ok).run s (a, s1) hs h1

theorem Keeps.ite {α} (c : Prop) [Decidable c] {x y : G α} (hx : Keeps x) (hy : Keeps y) :
    Keeps (if c then x else y) := by
  split <;> assumption

theorem Cons.bind {α β} {x : G α} {f : α → G β} (hx : Cons x) (hf : ∀ a, Cons (f a)) :
    Cons (x >>= f) := ⟨fun e ok => (hx.tr e ok).bind fun a => (hf a).tr e Any⟩

theorem Cons.pure {α} (a : α) : Cons (pure a : G α) := (Keeps.pure a).cons
theorem Cons.fail {α} (o : Outcome) : Cons (fail o : G α) := ⟨fun _ _ => Tr.fail o⟩
theorem Cons.panic {α} (site : String) : Cons (panic site : G α) := ⟨fun _ _ => Tr.panic site⟩

theorem cons_andM {x y : G Bool} (hx : Cons x) (hy : Cons y) : Cons (x <&&> y) := by
  unfold _root_.andM
  refine Cons.bind hx ?_
  intro b; cases b
  · exact Cons.pure _
  · exact hy

theorem cons_orM {x y : G Bool} (hx : Cons x) (hy : Cons y) : Cons (x <||> y) := by
  unfold _root_.orM
  refine Cons.bind hx ?_
  intro b; cases b
  · exact hy
  · exact Cons.pure _

theorem cons_notM {x : G Bool} (hx : Cons x) : Cons (notM x) := by
  unfold _root_.notM
  refine ⟨fun e ok => ⟨fun s r hs h => ?_⟩⟩
  rw [G.map_ok] at h
  obtain ⟨a, s1, h1, h2⟩ := h
  subst h2
  exact (hx.tr e ok).run s (a, s1) hs h1

theorem Cons.ite {α} (c : Prop) [Decidable c] {x y : G α} (hx : Cons x) (hy : Cons y) :
    Cons (if c then x else y) := by
  split <;> assumption

/-! ### the read side -/

theorem current_keeps : Keeps current := Keeps.of_readOnly current_readOnly
theorem at_keeps (k : SyntaxKind) : Keeps (at' k) := Keeps.of_readOnly (at_readOnly k)
theorem nthAt_keeps (n : Nat) (k : SyntaxKind) : Keeps (nthAt n k) :=
  Keeps.of_readOnly (nthAt_readOnly n k)
theorem atTs_keeps (ts : TokenSet) : Keeps (atTs ts) := Keeps.of_readOnly (atTs_readOnly ts)

theorem nth_keeps (n : Nat) : Keeps (nth n) := by
  refine Keeps.of_quiet fun s r h => ?_
  unfold nth at h
  simp only [G.get_bind_ok] at h
  split at h
  · simp at h
  · split at h
    · simp at h
    · simp only [G.set_bind_ok, G.pure_ok] at h
      subst h
      exact ⟨rfl, rfl, id, id⟩

/-- the raw token kind that `at(kind)` finds at the current position -/
def firstPiece (k : SyntaxKind) : SyntaxKind :=
  match compositePieces k with
  | some (k1 :: _) => k1
  | _ => k

theorem at_true_cur (k : SyntaxKind) (s : P) (r : Bool × P) (h : at' k s = .ok r)
    (hr : r.1 = true) : s.kindAt s.pos = firstPiece k := by
  unfold at' nthAt at h
  unfold firstPiece
  cases hc : compositePieces k with
  | none =>
    simp [hc, G.bind_ok, G.map_ok] at h
    subst h
    simpa using hr
  | some ps =>
    simp only [hc] at h
    rcases ps with _ | ⟨k1, _ | ⟨k2, _ | ⟨k3, _ | ⟨k4, rest⟩⟩⟩⟩
    · simp [atComposite] at h
    · simp [atComposite] at h
    · simp only [atComposite, G.get_bind_ok, Nat.add_zero] at h
      split at h
      · rename_i hkk
        simp only [Bool.and_eq_true, beq_iff_eq] at hkk
        exact hkk.1
      · simp at h; subst h; simp at hr
    · simp only [atComposite, G.get_bind_ok, Nat.add_zero] at h
      split at h
      · rename_i hkk
        simp only [Bool.and_eq_true, beq_iff_eq] at hkk
        exact hkk.1.1
      · simp at h; subst h; simp at hr
    · simp [atComposite] at h

/-- after `if p.at(k)`: the then-branch knows the current kind -/
theorem Tr.bind_at {e ok} {C : P → Prop} {β} (k : SyntaxKind) {f : Bool → G β}
    (ht : Tr (St e (fun c => c = firstPiece k)) (f true) C)
    (hf : Tr (St e ok) (f false) C) : Tr (St e ok) (at' k >>= f) C := by
  refine ⟨fun s r hs h => ?_⟩
  obtain ⟨b, s1, h1, h2⟩ := (G.bind_ok _ f s r).mp h
  have hro := at_readOnly k s (b, s1) h1
  simp only at hro; subst hro
  cases b with
  | false => exact hf.run _ r hs h2
  | true =>
    refine ht.run _ r ?_ h2
    have hc := at_true_cur k s1 _ h1 rfl
    rcases hs with hs | ⟨he, hcl, _⟩
    · exact .inl hs
    · exact .inr ⟨he, hcl, hc⟩

/-- after `if p.at(a) || p.at(b)` -/
theorem Tr.bind_at_or {e ok} {C : P → Prop} {β} (a b : SyntaxKind) {f : Bool → G β}
    (ht : Tr (St e (fun c => c = firstPiece a ∨ c = firstPiece b)) (f true) C)
    (hf : Tr (St e ok) (f false) C) : Tr (St e ok) ((at' a <||> at' b) >>= f) C := by
  refine ⟨fun s r hs h => ?_⟩
  obtain ⟨v, s1, h1, h2⟩ := (G.bind_ok _ f s r).mp h
  unfold _root_.orM at h1
  obtain ⟨b1, s2, h3, h4⟩ := (G.bind_ok _ _ s _).mp h1
  have hro := at_readOnly a s (b1, s2) h3
  simp only at hro; subst hro
  cases b1 with
  | true =>
    have h4' : (Pure.pure true : G Bool) s2 = .ok (v, s1) := h4
    simp only [G.pure_ok] at h4'
    obtain ⟨hv, hs1⟩ := Prod.mk.inj h4'
    rw [hv, hs1] at h2
    refine ht.run _ r ?_ h2
    have hc := at_true_cur a s2 _ h3 rfl
    rcases hs with hs | ⟨he, hcl, _⟩
    · exact .inl hs
    · exact .inr ⟨he, hcl, .inl hc⟩
  | false =>
    have h4' : at' b s2 = .ok (v, s1) := h4
    have hro := at_readOnly b s2 (v, s1) h4'
    simp only at hro; subst hro
    cases v with
    | false => exact hf.run _ r hs h2
    | true =>
      refine ht.run _ r ?_ h2
      have hc := at_true_cur b s1 _ h4' rfl
      rcases hs with hs | ⟨he, hcl, _⟩
      · exact .inl hs
      · exact .inr ⟨he, hcl, .inr hc⟩

/-- after `let k = p.current()` -/
theorem Tr.bind_current {e ok} {C : P → Prop} {β} {f : SyntaxKind → G β}
    (hf : ∀ k, Tr (St e (fun c => ok c ∧ c = k)) (f k) C) : Tr (St e ok) (current >>= f) C := by
  refine ⟨fun s r hs h => ?_⟩
  obtain ⟨k, s1, h1, h2⟩ := (G.bind_ok _ f s r).mp h
  rw [current_ok] at h1
  obtain ⟨rfl, rfl⟩ := Prod.mk.inj h1
  refine (hf _).run _ r ?_ h2
  rcases hs with hs | ⟨he, hcl, hk⟩
  · exact .inl hs
  · exact .inr ⟨he, hcl, hk, rfl⟩

/-- after `if p.at_ts(ts)` -/
theorem Tr.bind_atTs {e ok} {C : P → Prop} {β} (ts : TokenSet) {f : Bool → G β}
    (ht : Tr (St e (fun c => c ∈ ts)) (f true) C)
    (hf : Tr (St e ok) (f false) C) : Tr (St e ok) (atTs ts >>= f) C := by
  refine ⟨fun s r hs h => ?_⟩
  obtain ⟨b, s1, h1, h2⟩ := (G.bind_ok _ f s r).mp h
  have hro := atTs_readOnly ts s (b, s1) h1
  simp only at hro; subst hro
  cases b with
  | false => exact hf.run _ r hs h2
  | true =>
    refine ht.run _ r ?_ h2
    unfold atTs at h1
    simp only [G.bind_ok] at h1
    obtain ⟨c, s2, h3, h4⟩ := h1
    rw [current_ok] at h3
    obtain ⟨hc, hs2⟩ := Prod.mk.inj h3
    rw [hc, hs2] at h4
    unfold TokenSet.containsG at h4
    simp only [G.pure_ok, Prod.mk.injEq, and_true] at h4
    have hmem : s1.kindAt s1.pos ∈ ts := by
      have := h4.symm
      simp only [Bool.and_eq_true, decide_eq_true_eq, List.contains_iff_mem] at this
      exact this.2
    rcases hs with hs | ⟨he, hcl, _⟩
    · exact .inl hs
    · exact .inr ⟨he, hcl, hmem⟩

/-! ### pushing events -/

theorem start_keeps : Keeps start := by
  refine Keeps.of_quiet fun s r h => ?_
  have := start_ok s r h
  subst this
  exact quiet_push Ev.tombstone rfl _ rfl rfl rfl

/-- `p.error(..)`: from here on an error event exists -/
theorem error_tr (msg : String) {e ok} : Tr (St e ok) (error msg) (St False ok) := by
  refine ⟨fun s r _ h => ?_⟩
  have := pushEvent_ok _ s r h
  subst this
  exact .inl ⟨msg, by simp⟩

theorem error_keeps (msg : String) : Keeps (error msg) :=
  ⟨fun _ _ => (error_tr msg).post fun _ h => h.elim .inl fun h => h.1.elim⟩

/-- consuming a token whose kind is known not to be `ERROR` (or after an error) -/
theorem doBump_st {e ok} (k : SyntaxKind) (n : Nat) (s : P) (r : Unit × P)
    (hk : e → ok (s.kindAt s.pos) → k ≠ .ERROR) (hs : St e ok s) (h : doBump k n s = .ok r) :
    St e Any r.2 := by
  have := doBump_ok _ _ _ _ h
  subst this
  rcases hs with hs | ⟨he, hc, hok⟩
  · exact .inl (hasErr_push _ hs)
  · refine .inr ⟨he, clean_push _ ?_ hc, trivial⟩
    simpa [Ev.errFree] using hk he hok

theorem eat_cons (k : SyntaxKind) (hk : k ≠ .ERROR) : Cons (eat k) := by
  refine ⟨fun e ok => ⟨fun s r hs h => ?_⟩⟩
  unfold eat at h
  split at h
  · simp at h
  · simp only [G.bind_ok] at h
    obtain ⟨b, s1, h1, h2⟩ := h
    have hro := at_readOnly k s (b, s1) h1
    simp only at hro; subst hro
    split at h2
    · simp at h2; subst h2; exact hs.weak id
    · have h2' := (G.bind_ok _ _ _ _).mp h2
      obtain ⟨_, s3, h5, h6⟩ := h2'
      simp at h6; subst h6
      exact doBump_st k _ _ _ (fun _ _ => hk) hs h5

theorem bump_cons (k : SyntaxKind) (hk : k ≠ .ERROR) : Cons (bump k) := by
  unfold bump
  refine Cons.bind (eat_cons k hk) ?_
  intro b
  split
  · exact Cons.panic _
  · exact Cons.pure _

/-- `p.expect(k)`: consumes `k`, or reports -/
theorem expect_cons (k : SyntaxKind) (hk : k ≠ .ERROR) : Cons (expect k) := by
  unfold expect
  refine Cons.bind (eat_cons k hk) ?_
  intro b
  split
  · exact Cons.pure _
  · exact Cons.bind (error_keeps _).cons (fun _ => Cons.pure _)

/-- a failed `expect` has reported -/
theorem expect_false {ok} (k : SyntaxKind) (s : P) (r : Bool × P)
    (h : expect k s = .ok r) (hr : r.1 = false) : St False ok r.2 := by
  unfold expect at h
  obtain ⟨b, s1, h1, h2⟩ := (G.bind_ok _ _ _ _).mp h
  split at h2
  · simp at h2; subst h2; simp at hr
  · obtain ⟨_, s2, h3, h4⟩ := (G.bind_ok _ _ _ _).mp h2
    simp at h4; subst h4
    have := pushEvent_ok _ _ _ h3
    obtain ⟨_, rfl⟩ := Prod.mk.inj this
    refine .inl ⟨s!"expected {dbg k}", ?_⟩
    simp only [Array.toList_push]
    exact List.mem_append_right _ (List.mem_singleton.mpr rfl)

/-- `p.bump_any()`: the caller knows the current kind, or an error has been reported -/
theorem bumpAny_tr {e ok} (hk : ∀ c, ok c → c ≠ .ERROR) : Tr (St e ok) bumpAny (St e Any) := by
  refine ⟨fun s r hs h => ?_⟩
  unfold bumpAny at h
  simp only [G.bind_ok] at h
  obtain ⟨k, s1, h1, h2⟩ := h
  rw [current_ok] at h1
  obtain ⟨hk1, hs1⟩ := Prod.mk.inj h1
  rw [hs1, hk1] at h2
  split at h2
  · simp at h2; subst h2; exact hs.weak id
  · exact doBump_st _ 1 _ _ (fun _ hok => hk _ hok) hs h2


/-- `p.bump_any()` after an error has been reported -/
theorem bumpAny_err_tr {ok} : Tr (St False ok) bumpAny (St False Any) := by
  refine ⟨fun s r hs h => ?_⟩
  have hE : HasErr s := hs.elim id fun h => h.1.elim
  exact (bumpAny_tr (e := False) (ok := fun _ => False) (fun _ h => h.elim)).run s r (.inl hE) h

/-- `p.bump(p.current())` with a known current kind -/
theorem bump_current_tr {e ok} (k : SyntaxKind) (hk : e → k ≠ .ERROR) :
    Tr (St e ok) (bump k) (St e Any) := by
  refine ⟨fun s r hs h => ?_⟩
  by_cases he : e
  · exact ((bump_cons k (hk he)).tr e ok).run s r hs h
  · -- an error has been reported already: whatever is consumed is accounted for
    have hE : HasErr s := hs.elim id fun h => (he h.1).elim
    unfold bump at h
    obtain ⟨b, s1, h1, h2⟩ := (G.bind_ok _ _ _ _).mp h
    have : HasErr s1 := by
      unfold eat at h1
      split at h1
      · simp at h1
      · simp only [G.bind_ok] at h1
        obtain ⟨b', s2, h3, h4⟩ := h1
        have hro := at_readOnly k s (b', s2) h3
        simp only at hro; subst hro
        split at h4
        · simp at h4; obtain ⟨_, rfl⟩ := h4; exact hE
        · obtain ⟨_, s3, h5, h6⟩ := (G.bind_ok _ _ _ _).mp h4
          simp at h6; obtain ⟨_, rfl⟩ := h6
          have := doBump_ok _ _ _ _ h5
          obtain ⟨_, rfl⟩ := Prod.mk.inj this
          exact hasErr_push _ hE
    split at h2
    · simp at h2
    · simp at h2; subst h2; exact .inl this

/-! ### markers -/

theorem complete_quiet (m : Marker) (kind : SyntaxKind) (s : P) (r : CompletedMarker × P)
    (hk : kind ≠ .ERROR) (h : m.complete kind s = .ok r) : Quiet s r.2 := by
  unfold Marker.complete at h
  simp only [G.get_bind_ok] at h
  cases hm : s.events[m.pos]? with
  | none => simp [hm] at h
  | some e0 =>
  cases e0 with
  | finish => simp [hm] at h
  | token _ _ => simp [hm] at h
  | error _ => simp [hm] at h
  | start k0 fp =>
  simp only [hm] at h
  split at h
  · simp at h
  · split at h
    · simp at h
    · simp only [G.set_bind_ok] at h
      simp only [G.bind_ok] at h
      obtain ⟨_, s2, h2, h3⟩ := h
      have hp := pushEvent_ok _ _ _ h2
      obtain ⟨_, rfl⟩ := Prod.mk.inj hp
      simp at h3; subst h3
      refine (quiet_set_start (k := kind) (fp := fp) hm (.inl hk)
        { s with events := s.events.setIfInBounds m.pos (.start kind fp), live := s.live - 1,
                 protectedPos := s.protectedPos.filter (· != m.pos) } rfl rfl rfl).trans ?_
      exact quiet_push .finish rfl _ rfl rfl rfl

theorem complete_keeps (m : Marker) (kind : SyntaxKind) (hk : kind ≠ .ERROR) :
    Keeps (m.complete kind) := Keeps.of_quiet fun s r h => complete_quiet m kind s r hk h

/-- completing a node as `ERROR` is fine once an error has been reported -/
theorem complete_err_tr (m : Marker) {ok} : Tr (St False ok) (m.complete .ERROR) (St False ok) := by
  refine ⟨fun s r hs h => ?_⟩
  have hE : HasErr s := hs.elim id fun h => h.1.elim
  refine .inl ?_
  unfold Marker.complete at h
  simp only [G.get_bind_ok] at h
  cases hm : s.events[m.pos]? with
  | none => simp [hm] at h
  | some e0 =>
  cases e0 with
  | finish => simp [hm] at h
  | token _ _ => simp [hm] at h
  | error _ => simp [hm] at h
  | start k0 fp =>
  simp only [hm] at h
  split at h
  · simp at h
  · split at h
    · simp at h
    · simp only [G.set_bind_ok] at h
      simp only [G.bind_ok] at h
      obtain ⟨_, s2, h2, h3⟩ := h
      have hp := pushEvent_ok _ _ _ h2
      obtain ⟨_, rfl⟩ := Prod.mk.inj hp
      simp at h3; subst h3
      have hm' : s.events.toList[m.pos]? = some (.start k0 fp) := by simpa using hm
      obtain ⟨msg, hmsg⟩ := hE
      refine hasErr_push _ ⟨msg, ?_⟩
      show Ev.error msg ∈ (s.events.setIfInBounds m.pos (.start .ERROR fp)).toList
      rw [toList_set!]
      exact mem_set_of_ne hm' (by intro h; cases h) hmsg

theorem abandon_keeps (m : Marker) : Keeps m.abandon := by
  refine Keeps.of_quiet fun s r h => ?_
  unfold Marker.abandon at h
  simp only [G.get_bind_ok] at h
  split at h
  · simp at h
  · split at h
    · simp at h
    · split at h
      · cases hback : s.events.back? with
        | none => simp [hback] at h
        | some e0 =>
        cases e0 with
        | finish => simp [hback] at h
        | token _ _ => simp [hback] at h
        | error _ => simp [hback] at h
        | start kb fpb =>
        simp only [hback] at h
        split at h
        · simp at h; subst h
          have hback' : s.events.toList.getLast? = some (.start kb fpb) := by
            simpa [Array.back?] using hback
          have hl := dropLast_eq _ _ hback'
          refine ⟨rfl, rfl, ?_, ?_⟩
          · rintro ⟨msg, hmsg⟩
            refine ⟨msg, ?_⟩
            simp only [Array.toList_pop]
            rw [hl] at hmsg
            simp only [List.mem_append, List.mem_singleton] at hmsg
            rcases hmsg with hmsg | hmsg
            · exact hmsg
            · cases hmsg
          · intro hc e he
            simp only [Array.toList_pop] at he
            exact hc e (List.dropLast_subset _ he)
        · simp at h
      · simp at h; subst h; exact ⟨rfl, rfl, id, id⟩

theorem precede_keeps (cm : CompletedMarker) : Keeps cm.precede := by
  refine Keeps.of_quiet fun s r h => ?_
  unfold CompletedMarker.precede at h
  obtain ⟨np, s1, h1, h2⟩ := (G.bind_ok _ _ _ _).mp h
  have hst := start_ok s (np, s1) h1
  obtain ⟨_, hs1eq⟩ := Prod.mk.inj hst
  have q1 : Quiet s s1 := by rw [hs1eq]; exact quiet_push Ev.tombstone rfl _ rfl rfl rfl
  refine q1.trans ?_
  simp only [G.get_bind_ok] at h2
  cases hm : s1.events[cm.pos]? with
  | none => simp [hm] at h2
  | some e0 =>
  cases e0 with
  | finish => simp [hm] at h2
  | token _ _ => simp [hm] at h2
  | error _ => simp [hm] at h2
  | start k fp0 =>
  simp only [hm] at h2
  split at h2
  · simp at h2
  · simp only [G.set_bind_ok, G.pure_ok] at h2; subst h2
    exact quiet_set_start (k := k) (fp := some (np.pos - cm.pos)) hm (.inr rfl) _ rfl rfl rfl

theorem extendTo_keeps (cm : CompletedMarker) (m : Marker) : Keeps (cm.extendTo m) := by
  refine Keeps.of_quiet fun s r h => ?_
  unfold CompletedMarker.extendTo at h
  simp only [G.get_bind_ok] at h
  cases hm : s.events[m.pos]? with
  | none => simp [hm] at h
  | some e0 =>
  cases e0 with
  | finish => simp [hm] at h
  | token _ _ => simp [hm] at h
  | error _ => simp [hm] at h
  | start k fp0 =>
  simp only [hm] at h
  split at h
  · simp at h
  · cases hc : s.events[cm.pos]? with
    | none => simp [hc] at h
    | some e1 =>
    cases e1 with
    | finish => simp [hc] at h
    | token _ _ => simp [hc] at h
    | error _ => simp [hc] at h
    | start k' fp' =>
    simp only [hc] at h
    split at h
    · simp at h
    · simp only [G.set_bind_ok, G.pure_ok] at h; subst h
      exact quiet_set_start (k := k) (fp := some (cm.pos - m.pos)) hm (.inr rfl) _ rfl rfl rfl

/-! ### error recovery -/

/-- `err_recover` always reports before it wraps a token into an `ERROR` node -/
theorem errRecover_tr (msg : String) (rec : TokenSet) {e ok} :
    Tr (St e ok) (errRecover msg rec) (St False Any) := by
  unfold errRecover
  refine Tr.bind_keeps current_keeps fun k => ?_
  split
  · exact (error_tr _).bind fun _ => Tr.pure_weak _ id
  · refine Tr.bind_keeps (atTs_keeps rec) fun b => ?_
    split
    · exact (error_tr _).bind fun _ => Tr.pure_weak _ id
    · refine Tr.bind_keeps start_keeps fun m => ?_
      refine (error_tr _).bind fun _ => ?_
      refine Tr.bind (B := St False Any) ?_ fun _ => ?_
      · refine ⟨fun s r hs h => ?_⟩
        have hE : HasErr s := hs.elim id fun h => h.1.elim
        exact (bumpAny_tr (e := False) (ok := fun _ => False) (fun _ h => h.elim)).run s r (.inl hE) h
      · exact (complete_err_tr m).bind fun _ => Tr.pure_weak _ id

theorem errRecover_cons (msg : String) (rec : TokenSet) : Cons (errRecover msg rec) :=
  ⟨fun _ _ => (errRecover_tr msg rec).post fun _ h => h.weak False.elim⟩

theorem errAndBump_cons (msg : String) : Cons (errAndBump msg) := errRecover_cons msg []

/-! ### rule forms used by the generated proofs (one lemma per program shape, so that a rule that
does not apply fails by a cheap head-symbol mismatch) -/

/-- functions that begin with `bump_any`: fine when the caller knows the current token -/
structure ConsCur {α} (x : G α) : Prop where
  tr : ∀ e ok, (∀ c, ok c → c ≠ SyntaxKind.ERROR) → Tr (St e ok) x (St e Any)

theorem Tr.bind_conscur {e ok} {C : P → Prop} {α β} {x : G α} {f : α → G β} (hx : ConsCur x)
    (hk : ∀ c, ok c → c ≠ SyntaxKind.ERROR) (hf : ∀ a, Tr (St e Any) (f a) C) :
    Tr (St e ok) (x >>= f) C := (hx.tr e ok hk).bind hf

theorem Tr.tail_conscur {e e0 : Prop} {ok} {α} {x : G α} (hx : ConsCur x)
    (hk : ∀ c, ok c → c ≠ SyntaxKind.ERROR) (hw : e → e0) : Tr (St e ok) x (St e0 Any) :=
  (hx.tr e ok hk).post fun _ h => h.weak hw

theorem Tr.bind_bumpAny {e ok} {C : P → Prop} {β} {f : Unit → G β}
    (hk : ∀ c, ok c → c ≠ SyntaxKind.ERROR) (hf : ∀ a, Tr (St e Any) (f a) C) :
    Tr (St e ok) (bumpAny >>= f) C := (bumpAny_tr hk).bind hf

theorem Tr.tail_bumpAny {e e0 : Prop} {ok} (hk : ∀ c, ok c → c ≠ SyntaxKind.ERROR) (hw : e → e0) :
    Tr (St e ok) bumpAny (St e0 Any) := (bumpAny_tr hk).post fun _ h => h.weak hw

theorem Tr.bind_bumpAny_err {ok} {C : P → Prop} {β} {f : Unit → G β}
    (hf : ∀ a, Tr (St False Any) (f a) C) : Tr (St False ok) (bumpAny >>= f) C :=
  bumpAny_err_tr.bind hf

theorem Tr.tail_bumpAny_err {e0 : Prop} {ok} : Tr (St False ok) bumpAny (St e0 Any) :=
  bumpAny_err_tr.post fun _ h => h.weak False.elim

theorem Tr.bind_error {e ok} {C : P → Prop} {β} {msg : String} {f : Unit → G β}
    (hf : ∀ a, Tr (St False ok) (f a) C) : Tr (St e ok) (error msg >>= f) C :=
  (error_tr msg).bind hf

theorem Tr.tail_error {e e0 : Prop} {ok} {msg : String} : Tr (St e ok) (error msg) (St e0 Any) :=
  (error_tr msg).post fun _ h => h.weak False.elim

theorem Tr.bind_complete_err {ok} {C : P → Prop} {β} {m : Marker} {f : CompletedMarker → G β}
    (hf : ∀ a, Tr (St False ok) (f a) C) : Tr (St False ok) (m.complete .ERROR >>= f) C :=
  (complete_err_tr m).bind hf

theorem Tr.tail_complete_err {e0 : Prop} {ok} {m : Marker} :
    Tr (St False ok) (m.complete .ERROR) (St e0 Any) :=
  (complete_err_tr m).post fun _ h => h.weak False.elim

end Oq3.Parser
