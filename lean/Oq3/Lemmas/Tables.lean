/-
Facts about the TRANSLATED tables (`Oq3/Gen/*`), proved by kernel evaluation.  They are
re-checked whenever the translator regenerates the tables from /repo's sources: a change to
`Parser::nth_at` / `Parser::eat` that makes the two composite-token tables disagree breaks
`tablesOK` (and with it every theorem that relies on the parser-state invariant).
-/
import Oq3.Lemmas.ParserInv

namespace Oq3.Parser
open Oq3.Gen

theorem mem_all (k : SyntaxKind) : k ∈ SyntaxKind.all := by
  cases k <;> decide

def tablesOKb : Bool :=
  SyntaxKind.all.all fun k =>
    match compositePieces k with
    | some ps => (ps.length == 2 || ps.length == 3) && eatRawTokens k == ps.length && ps.all (fun p => p != .EOF && p != .FLOAT_NUMBER)
    | none => eatRawTokens k == 1

theorem tablesOKb_true : tablesOKb = true := by decide +kernel

/-- `nth_at`'s composite table and `eat`'s `n_raw_tokens` table agree: a composite kind is
glued from exactly as many raw tokens as `at` inspected, none of them `EOF` or `FLOAT_NUMBER`; every other kind
consumes one raw token. -/
theorem tablesOK : TablesOK := by
  have h := tablesOKb_true
  unfold tablesOKb at h
  rw [List.all_eq_true] at h
  constructor
  · intro k ps hk
    have := h k (mem_all k)
    simp only [hk, Bool.and_eq_true, Bool.or_eq_true, beq_iff_eq, List.all_eq_true, bne_iff_ne] at this
    exact ⟨this.1.1, this.1.2, fun p hp => this.2 p hp⟩
  · intro k hk
    have := h k (mem_all k)
    simpa [hk] using this

/-- every member of every translated token set has a discriminant below 128, so
`TokenSet::new` is well defined (the `u128` mask cannot overflow at compile time) -/
theorem tokenSets_small :
    (TokenSets.allSets.all fun p => p.2.all fun k => k.toNat < 128) = true := by decide +kernel

end Oq3.Parser
