/-
C04, extended reference language, part 11: the top level — `item` versus `stmt` on the extended statements
(`let` is an ALIAS_DECLARATION_STATEMENT where `item` dispatches it and a LET_STMT elsewhere), the
well-formedness of whole programs `WFTop`, `source_file_contents`, `source_file`.
-/
import Oq3.Lemmas.LangEv2Prog
import Oq3.Lemmas.LangEvTop
set_option linter.unusedSimpArgs false
set_option linter.unusedVariables false

namespace Oq3.LangEv2
open Oq3.Gen Oq3.Parser Oq3.Grammar Oq3.SymExec Oq3.PrattEv Oq3.LangEv
open Oq3.Gen.Ops (Assoc)

/-- statements on which the top-level dispatcher `item` parses one statement itself (`opt_item` succeeds) -/
def isItem2 : Stmt2 → Bool
  | .oldReg _ _ | .assign _ _ | .exprS _ | .gate _ _ | .modGate _ _ _ _ | .gphase _ | .modGphase _ _ _
  | .pragma | .annot | .block _ | .ret _ => false
  | _ => true

/-- first tokens of the statements that `item` hands to the statement loop -/
def restFirst (k : SyntaxKind) : Bool :=
  exprStmtFirst2 k || k == .CREG_KW || k == .QREG_KW || k == .PRAGMA || k == .ANNOTATION || k == .L_CURLY

theorem notItem_first2 (st : Stmt2) (hwf : WFS2 st) (h : isItem2 st = false) : restFirst (firstTokS2 st) = true := by
  cases st with
  | oldReg c items => cases c <;> rfl
  | exprS x => simp only [firstTokS2, restFirst, hwf.2, Bool.true_or]
  | modGate m ms args qs => rcases firstMod_cases m with h' | h' | h' | h' <;> simp only [firstTokS2, h'] <;> rfl
  | modGphase m ms x => rcases firstMod_cases m with h' | h' | h' | h' <;> simp only [firstTokS2, h'] <;> rfl
  | assign _ _ => rfl
  | gate _ _ => rfl
  | gphase _ => rfl
  | pragma => rfl
  | annot => rfl
  | block _ => rfl
  | ret _ => rfl
  | _ => cases h

/-- `item` on a statement that `opt_item` does not parse: the rest of the input goes to the statement loop -/
theorem item_rest2 (g : Nat) (s : P) (hr : RdyL 8 s) (k0 : SyntaxKind) (hk0 : restFirst k0 = true)
    (h0 : s.kindAt (s.pos + 0) = k0) (S'' : P)
    (hrest : exprBlockStatements (g + 1) (s.ov [] 0 (s.steps + 1) (s.sinceBump + 1) s.live s.protectedPos) = .ok ((), S'')) :
    item (g + 2) false s = .ok ((), S'') := by
  have hnp := hr.hook
  have hpr := hr.prot
  have hst : s.steps ≤ s.stepLimit := by have := hr.steps; omega
  simp only [restFirst, exprStmtFirst2, Bool.or_eq_true, beq_iff_eq] at hk0
  refine of_ov _ _ _ ?_
  rcases hk0 with (((((((((((((((((((((hk | hk) | hk) | hk) | hk) | hk) | hk) | hk) | hk) | hk) | hk) | hk) | hk) | hk) | hk) | hk) | hk) | hk) | hk) | hk) | hk) | hk) | hk <;>
  subst hk <;> (sym_eval [filter_base s hpr, contains_base s hpr, h0, hrest]; rfl)

def isLet : Stmt2 → Bool
  | .letS _ => true
  | .alias _ => true
  | _ => false

theorem isItem2_first (st : Stmt2) (h : isItem2 st = true) (hl : isLet st = false) (s : P) (htk : Toks s s.pos (toksS2 st)) :
    Oq3.Props.C16.itemFirst (s.kindAt s.pos) (s.kindAt (s.pos + 1)) = true ∧ s.kindAt s.pos ≠ .LET_KW := by
  cases st with
  | decl cst ty w init =>
    cases cst with
    | true =>
      have h0 : s.kindAt s.pos = .CONST_KW := by
        cases init <;> simp only [toksS2, if_true, List.cons_append, List.nil_append, Toks, tk] at htk <;> exact htk.1
      rw [h0]; exact ⟨by simp [Oq3.Props.C16.itemFirst, Oq3.Props.C16.itemKeyword], by decide⟩
    | false =>
      have h1 : s.kindAt s.pos = ty.kind ∧ s.kindAt (s.pos + 1) ≠ .L_PAREN := by
        cases w <;> cases init <;>
          simp only [toksS2, tyToksX, Toks, Toks_append, tk, List.cons_append, List.nil_append, Bool.false_eq_true, if_false] at htk <;>
          exact ⟨htk.1, by rw [htk.2.2.1]; decide⟩
      rw [h1.1]
      have h2 := h1.2
      cases ty <;> simp [Oq3.Props.C16.itemFirst, isClassicalType, SyntaxKind.isScalarType, Ty.kind, h2]
  | io out ty w =>
    cases out <;> simp only [toksS2, Toks, tk, Bool.false_eq_true, if_false, if_true] at htk <;> rw [htk.1] <;>
      exact ⟨by simp [Oq3.Props.C16.itemFirst, Oq3.Props.C16.itemKeyword], by decide⟩
  | qubit w =>
    cases w <;> simp only [toksS2, Toks, tk] at htk <;> rw [htk.1] <;>
      exact ⟨by simp [Oq3.Props.C16.itemFirst, Oq3.Props.C16.itemKeyword], by decide⟩
  | gateDef ps nq body =>
    cases ps <;> simp only [toksS2, Toks, tk] at htk <;> rw [htk.1] <;>
      exact ⟨by simp [Oq3.Props.C16.itemFirst, Oq3.Props.C16.itemKeyword], by decide⟩
  | letS _ => cases hl
  | alias _ => cases hl
  | oldReg _ _ => cases h
  | assign _ _ => cases h
  | exprS _ => cases h
  | gate _ _ => cases h
  | modGate _ _ _ _ => cases h
  | gphase _ => cases h
  | modGphase _ _ _ => cases h
  | pragma => cases h
  | annot => cases h
  | block _ => cases h
  | ret _ => cases h
  | _ =>
    simp only [toksS2, Toks, tk] at htk
    rw [htk.1]
    exact ⟨by simp [Oq3.Props.C16.itemFirst, Oq3.Props.C16.itemKeyword], by decide⟩

/-- `let x = e ;` where the top-level dispatcher `item` parses it: an ALIAS_DECLARATION_STATEMENT -/
theorem item_alias (e : X) (F : Nat) (s : P) (hr : RdyL 8 s) (hF : fuelX e + 6 ≤ F)
    (htk : Toks s s.pos (toksS2 (.alias e))) (hc : CanonX 1 e)
    (hnext : s.kindAt (s.pos + (toksS2 (.alias e)).length) ≠ .SEMICOLON) :
    Acc (item F false) s (toksS2 (.alias e)).length (evsS2 (.alias e)) := by
  obtain ⟨g, rfl⟩ : ∃ g, F = g + 1 + 3 := ⟨F - 4, by omega⟩
  simp only [toksS2, Toks, Toks_append, tk, List.length_cons, List.length_append, List.length_nil] at htk hnext ⊢
  obtain ⟨h0, -, h1, -, h2, -, hte, hsemi, -, -⟩ := htk
  rw [show s.pos = s.pos + 0 from rfl] at h0
  rw [show s.pos + 1 + 1 = s.pos + 2 from rfl] at h2
  have hpr' : ∀ n, ∀ p ∈ s.protectedPos, p < s.events.size + n := fun n p hp => Nat.lt_add_right n (hr.prot p hp)
  have he : ∀ st sb lv E0, st + 5 ≤ s.stepLimit → Oq3.Grammar.expr (g + 1) (s.ov E0 3 st sb lv s.protectedPos) = _ :=
    fun st sb lv E0 h1 => (exprX_ok e).expr g s E0 3 st sb lv s.protectedPos hr.hook h1 hr.lim (hpr' _)
      (Toks_pos hte (by omega)) hc (by rw [kindAt_pos hsemi (by omega)]; rfl) (by omega)
  have hsemi' : s.kindAt (s.pos + (3 + (toksX e).length)) = .SEMICOLON := kindAt_pos hsemi (by omega)
  have hnext' : s.kindAt (s.pos + (3 + (toksX e).length + 1)) ≠ .SEMICOLON := by
    intro h; exact hnext (kindAt_pos h (by omega))
  run_base3 [h0, h1, h2, he, hsemi', hnext']


/-- well-formedness of a statement in the item run of the top level: `let` is an alias declaration there -/
def WFItem : Stmt2 → Prop
  | .alias e => CanonX 1 e
  | .letS _ => False
  | st => WFS2 st

theorem WFItem_eq (st : Stmt2) (h : isLet st = false) : WFItem st = WFS2 st := by
  cases st <;> first | rfl | cases h

/-- **well-formed programs**: a run of statements that the top-level dispatcher `item` parses itself (with `let` as
alias declaration), then — from the first statement that `item` does not dispatch — a statement list parsed by the
statement loop (with `let` as LET_STMT) -/
def WFTop : Stmts2 → Prop
  | .nil => True
  | .cons st ss =>
    (isItem2 st = true ∧ WFItem st ∧ WFTop ss ∧ (endsAssign st = true → startsMinus2 ss = false)) ∨
    (isItem2 st = false ∧ WFL2 false (.cons st ss))

theorem closerOf_false {k : SyntaxKind} (h : k = .EOF) : closerOf false k := by unfold closerOf; simpa using h

/-- **the top-level loop accepts every well-formed program** -/
theorem sfc_ok2 : ∀ (p : Stmts2) (F : Nat) (s : P), needL2 p + 3 ≤ F → RdyL 9 s → Toks s s.pos (toksL2 p) →
    s.kindAt (s.pos + (toksL2 p).length) = .EOF → WFTop p →
    AccW (sourceFileContents F false) s (toksL2 p).length (evsL2 p)
  | .nil, F, s, hF, hr, htk, heof, _ => by
    obtain ⟨g, rfl⟩ : ∃ g, F = g + 1 := ⟨F - 1, by omega⟩
    obtain ⟨st, sb, -, h⟩ := sfc_nil g s heof
    exact ⟨st, sb, h⟩
  | .cons st ss, F, s, hF, hr, htk, heof, hwf => by
    obtain ⟨g, rfl⟩ : ∃ g, F = g + 1 + 1 + 1 := ⟨F - 3, by omega⟩
    have hF' := hF
    simp only [needL2] at hF'
    obtain ⟨j, ts, hts⟩ := toksS2_first st
    have htk' := htk
    simp only [toksL2, Toks_append, List.length_append] at htk' heof ⊢
    have h0 : s.kindAt s.pos = firstTokS2 st := by have := htk'.1; rw [hts] at this; exact this.1
    obtain ⟨hne1, hne2, -⟩ := stmtFirst_props _ (firstTokS2_stmtFirst st)
    have hnext : s.kindAt (s.pos + (toksS2 st).length) ≠ .SEMICOLON := by
      rcases next_tok ss false s _ htk'.2 (closerOf_false (by rw [Nat.add_assoc]; exact heof)) with ⟨-, h⟩ | ⟨-, h⟩
      · unfold closerOf at h; simp only [Bool.false_eq_true, if_false] at h; rw [h]; decide
      · exact (stmtFirst_props _ h).2.2.2.1
    rcases hwf with ⟨hit, hwi, hws, hm⟩ | ⟨hnit, hwl⟩
    · have hss := fun (st1 sb1 : Nat) (hle : st1 ≤ s.steps) => sfc_ok2 ss (g + 1 + 1)
        (s.ov (evsS2 st) (toksS2 st).length st1 sb1 s.live s.protectedPos) (by omega)
        (RdyL_ov 9 s _ _ _ _ _ _ hr.hook (by have := hr.steps; omega) (fun p hp => Nat.lt_add_right _ (hr.prot p hp)) hr.lim)
        ((Toks_ov s _ _ _ _ _ _ _ _).2 htk'.2)
        (by show s.kindAt (s.pos + _ + _) = _; rw [Nat.add_assoc]; exact heof) hws
      cases hl : isLet st with
      | true =>
        cases st <;> first | (cases hl; done) | skip
        · exact absurd hwi (by simp [WFItem])
        · rename_i e
          obtain ⟨st1, sb1, hle1, hx⟩ := item_alias e (g + 1 + 1) s (hr.mono (by omega)) (by simp only [needS2] at hF'; omega) htk'.1 hwi hnext
          exact sfc_cons (g + 1 + 1) s _ _ _ _ st1 sb1 (by rw [h0]; exact hne1) (by rw [h0]; exact hne2) hx (hss st1 sb1 hle1)
      | false =>
        obtain ⟨hif, hlet⟩ := isItem2_first st hit hl s htk'.1
        rw [WFItem_eq st hl] at hwi
        obtain ⟨st1, sb1, hle1, hx⟩ := item_of_stmt (g + 1) s _ _
            (stmt_ok2 st hwi (g + 1 + 1) s (by omega) (hr.mono (by omega)) htk'.1
              (followS2_next st ss false s _ htk'.2 (closerOf_false (by rw [Nat.add_assoc]; exact heof)) hm (fun _ h => by cases h)))
            hif hlet hnext
        exact sfc_cons (g + 1 + 1) s _ _ _ _ st1 sb1 (by rw [h0]; exact hne1) (by rw [h0]; exact hne2) hx (hss st1 sb1 hle1)
    · have hall := stmts_ok2 false (.cons st ss) hwl (g + 1)
        (s.ov [] 0 (s.steps + 1) (s.sinceBump + 1) s.live s.protectedPos) (by omega)
        (RdyL_ov 8 s _ _ _ _ _ _ hr.hook (by have := hr.steps; omega) (fun p hp => Nat.lt_add_right _ (hr.prot p hp)) hr.lim)
        ((Toks_ov s _ _ _ _ _ _ _ _).2 (by rw [Nat.add_zero]; exact htk))
        (closerOf_false (by show s.kindAt (s.pos + 0 + _) = _; rw [Nat.add_zero]; simp only [toksL2, List.length_append]; exact heof))
      obtain ⟨st', sb', hle, hrest'⟩ := hall.at_ov
      simp only [List.nil_append, Nat.zero_add] at hrest'
      have hitem := item_rest2 g s (hr.mono (by omega)) _ (notItem_first2 st hwl.1 hnit) h0 _ hrest'
      obtain ⟨st2, sb2, -, hnil⟩ := sfc_nil (g + 1) (s.ov (evsL2 (.cons st ss)) (toksL2 (.cons st ss)).length st' sb' s.live s.protectedPos)
        (by show s.kindAt (s.pos + _) = _; simp only [toksL2, List.length_append]; exact heof)
      have := sfc_cons (g + 2) s _ 0 _ [] st' sb' (by rw [h0]; exact hne1) (by rw [h0]; exact hne2) hitem ⟨st2, sb2, hnil⟩
      simpa [toksL2, evsL2] using this


/-- **`source_file` accepts every well-formed program**, from any ready state whose input is the
print of the program followed by the end of the input -/
theorem sourceFile_ok2 (p : Stmts2) (F : Nat) (s : P) (hF : needL2 p + 3 ≤ F) (hr : RdyL 9 s)
    (htk : Toks s s.pos (toksL2 p)) (heof : s.kindAt (s.pos + (toksL2 p).length) = .EOF) (hwf : WFTop p) :
    AccW (sourceFile F) s (toksL2 p).length (evsP2 p) := by
  have hnp := hr.hook
  have hpr := hr.prot
  obtain ⟨st, sb, hrun⟩ := sfc_ok2 p F (s.ov [.start .TOMBSTONE none] 0 s.steps (s.sinceBump + 1) (s.live + 1) s.protectedPos)
    hF (RdyL_ov 9 s _ _ _ _ _ _ hr.hook hr.steps (fun p hp => Nat.lt_add_right _ (hr.prot p hp)) hr.lim)
    ((Toks_ov s _ _ _ _ _ _ _ _).2 (by rw [Nat.add_zero]; exact htk))
    (by show s.kindAt (s.pos + 0 + _) = _; rw [Nat.add_zero]; exact heof) hwf
  rw [ov_ov] at hrun
  have hrun' : sourceFileContents F false (s.ov [Ev.start SyntaxKind.TOMBSTONE none] 0 s.steps (s.sinceBump + 1) (s.live + 1) s.protectedPos) =
      .ok ((), s.ov ([Ev.start SyntaxKind.TOMBSTONE none] ++ evsL2 p) (0 + (toksL2 p).length) st sb (s.live + 1) s.protectedPos) := hrun
  refine ⟨st, sb + 1, of_ov _ _ _ ?_⟩
  unfold sourceFile
  sym_eval [filter_base s hpr, hrun']
  refine ok_ov_congr _ _ _ _ _ _ _ _ _ _ _ rfl ?_ (by omega)
  simp only [evsP2, List.cons_append, List.nil_append]

end Oq3.LangEv2
