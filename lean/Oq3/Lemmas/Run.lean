import Lean
import Oq3.Lemmas.ParseTop
set_option linter.unusedSimpArgs false
namespace Oq3.Parser
open Oq3.Gen

/-! ### evaluation of `G` combinators on a state -/

theorem G.bind_apply {α β} (x : G α) (f : α → G β) (s : P) :
    (x >>= f) s = match x s with
      | .ok (a, s1) => f a s1
      | .error e => .error e := by
  show StateT.bind x f s = _
  unfold StateT.bind
  simp only [bind, Except.bind]
  cases x s with
  | error e => rfl
  | ok p => rfl

theorem G.pure_apply {α} (a : α) (s : P) : (pure a : G α) s = .ok (a, s) := rfl
theorem G.fail_apply {α} (o : Outcome) (s : P) : (fail o : G α) s = .error o := rfl
theorem G.panic_apply {α} (site : String) (s : P) : (panic site : G α) s = .error (.panic site) := rfl
theorem G.map_apply {α β} (f : α → β) (x : G α) (s : P) :
    (f <$> x) s = match x s with
      | .ok (a, s1) => .ok (f a, s1)
      | .error e => .error e := by
  show StateT.map f x s = _
  unfold StateT.map
  simp only [bind, Except.bind, pure, Except.pure]
  cases x s with
  | error e => rfl
  | ok p => rfl

theorem G.andM_apply (x y : G Bool) (s : P) :
    (x <&&> y) s = match x s with
      | .ok (b, s1) => if b = true then y s1 else .ok (false, s1)
      | .error e => .error e := by
  unfold _root_.andM
  rw [G.bind_apply]
  cases x s with
  | error e => rfl
  | ok p => obtain ⟨b, s1⟩ := p; cases b <;> rfl

theorem G.orM_apply (x y : G Bool) (s : P) :
    (x <||> y) s = match x s with
      | .ok (b, s1) => if b = true then .ok (true, s1) else y s1
      | .error e => .error e := by
  unfold _root_.orM
  rw [G.bind_apply]
  cases x s with
  | error e => rfl
  | ok p => obtain ⟨b, s1⟩ := p; cases b <;> rfl

theorem G.notM_apply (x : G Bool) (s : P) :
    (notM x) s = match x s with
      | .ok (b, s1) => .ok (!b, s1)
      | .error e => .error e := by
  unfold _root_.notM
  rw [G.map_apply]
  cases x s with
  | error e => rfl
  | ok p => rfl

/-! ### closed forms of the primitives -/

/-- the `oq3_verif` hook would trip on the next pushed event -/
def P.hookTrip (s : P) : Bool := decide (s.noProgressLimit > 0) && decide (s.sinceBump ≥ s.noProgressLimit)

theorem current_eq (s : P) : current s = .ok (s.kindAt s.pos, s) := rfl

theorem nth_eq (n : Nat) (s : P) :
    nth n s = if n > 3 then .error (.panic "Parser::nth assertion n <= 3")
      else if s.steps > s.stepLimit then .error (.panic "Parser::nth the parser seems stuck")
      else .ok (s.kindAt (s.pos + n), { s with steps := s.steps + 1 }) := by
  unfold nth
  show (if n > 3 then _ else _ : G SyntaxKind) s = _
  split
  · rfl
  · split <;> rfl

theorem at_simple_eq (k : SyntaxKind) (hc : compositePieces k = none) (s : P) :
    at' k s = .ok (s.kindAt s.pos == k, s) := by
  unfold at' nthAt
  simp only [hc]
  rfl

theorem pushEvent_eq (e : Ev) (s : P) :
    pushEvent e s = if s.hookTrip then .error (.panic "oq3_verif: no progress")
      else .ok ((), { s with events := s.events.push e, sinceBump := s.sinceBump + 1 }) := by
  unfold pushEvent P.hookTrip
  show (if _ then _ else _ : G Unit) s = _
  split <;> rfl

theorem error_eq (msg : String) (s : P) :
    error msg s = if s.hookTrip then .error (.panic "oq3_verif: no progress")
      else .ok ((), { s with events := s.events.push (.error msg), sinceBump := s.sinceBump + 1 }) :=
  pushEvent_eq _ s

theorem start_eq (s : P) :
    start s = if s.hookTrip then .error (.panic "oq3_verif: no progress")
      else .ok ({ pos := s.events.size },
        { s with events := s.events.push Ev.tombstone, sinceBump := s.sinceBump + 1, live := s.live + 1 }) := by
  unfold start
  show (pushEvent Ev.tombstone >>= fun _ => _) s = _
  rw [G.bind_apply, pushEvent_eq]
  by_cases h : s.hookTrip = true
  · simp only [h, if_true]
  · simp only [h, if_false]; rfl

theorem doBump_eq (k : SyntaxKind) (n : Nat) (s : P) :
    doBump k n s = .ok ((), { s with pos := s.pos + n, steps := 0, sinceBump := 1,
                                      events := s.events.push (.token k n) }) := by
  unfold doBump
  show pushEvent _ _ = _
  rw [pushEvent_eq]
  have : ({ s with pos := s.pos + n, steps := 0, sinceBump := 0 } : P).hookTrip = false := by
    simp [P.hookTrip]; omega
  rw [this]; rfl

theorem eat_simple_eq (k : SyntaxKind) (hc : compositePieces k = none) (hk : (k == .EOF) = false) (s : P) :
    eat k s = if (s.kindAt s.pos == k) = true then
        .ok (true, { s with pos := s.pos + 1, steps := 0, sinceBump := 1,
                            events := s.events.push (.token k 1) })
      else .ok (false, s) := by
  unfold eat
  simp only [hk, Bool.false_eq_true, if_false]
  rw [G.bind_apply, at_simple_eq k hc]
  simp only
  have he : eatRawTokens k = 1 := tablesOK.2 k hc
  cases hb : (s.kindAt s.pos == k) with
  | false => simp only [Bool.not_false, if_true, Bool.false_eq_true, if_false]; rfl
  | true =>
    simp only [Bool.not_true, Bool.false_eq_true, if_false, if_true]
    rw [G.bind_apply, doBump_eq, he]; rfl

theorem bump_simple_eq (k : SyntaxKind) (hc : compositePieces k = none) (hk : (k == .EOF) = false) (s : P) :
    bump k s = if (s.kindAt s.pos == k) = true then
        .ok ((), { s with pos := s.pos + 1, steps := 0, sinceBump := 1,
                          events := s.events.push (.token k 1) })
      else .error (.panic "Parser::bump assertion") := by
  unfold bump
  rw [G.bind_apply, eat_simple_eq k hc hk]
  by_cases h : (s.kindAt s.pos == k) = true
  · simp only [h, if_true]; rfl
  · simp only [h, if_false]; rfl

theorem bumpAny_eq (s : P) :
    bumpAny s = if (s.kindAt s.pos == .EOF) = true then .ok ((), s)
      else .ok ((), { s with pos := s.pos + 1, steps := 0, sinceBump := 1,
                             events := s.events.push (.token (s.kindAt s.pos) 1) }) := by
  unfold bumpAny
  rw [G.bind_apply, current_eq]
  simp only
  by_cases h : (s.kindAt s.pos == .EOF) = true
  · simp only [h, if_true]; rfl
  · simp only [h, if_false, Bool.false_eq_true]; rw [doBump_eq]

theorem expect_simple_eq (k : SyntaxKind) (hc : compositePieces k = none) (hk : (k == .EOF) = false) (s : P) :
    expect k s = if (s.kindAt s.pos == k) = true then
        .ok (true, { s with pos := s.pos + 1, steps := 0, sinceBump := 1,
                            events := s.events.push (.token k 1) })
      else if s.hookTrip then .error (.panic "oq3_verif: no progress")
      else .ok (false, { s with events := s.events.push (.error s!"expected {dbg k}"),
                                sinceBump := s.sinceBump + 1 }) := by
  unfold expect
  rw [G.bind_apply, eat_simple_eq k hc hk]
  by_cases h : (s.kindAt s.pos == k) = true
  · simp only [h, if_true]; rfl
  · simp only [h, if_false, Bool.false_eq_true]
    rw [G.bind_apply, error_eq]
    by_cases h2 : s.hookTrip = true
    · simp only [h2, if_true]
    · simp only [h2, if_false]; rfl

/-- the state right after `Marker::complete` rewrote the marker's slot (before the `Finish`) -/
def P.slotSet (s : P) (i : Nat) (kind : SyntaxKind) (fp : Option Nat) : P :=
  { s with events := s.events.set! i (.start kind fp), live := s.live - 1,
           protectedPos := s.protectedPos.filter (· != i) }

theorem complete_eq (m : Marker) (kind : SyntaxKind) (s : P) :
    m.complete kind s = match s.events[m.pos]? with
      | some (.start k0 fp) =>
        if (k0 != .TOMBSTONE) = true then .error (.modelError "Marker::complete: marker already completed")
        else if (kind == .TOMBSTONE) = true then .error (.modelError "Marker::complete with TOMBSTONE")
        else if s.hookTrip then .error (.panic "oq3_verif: no progress")
        else .ok (⟨m.pos, kind⟩,
          { s.slotSet m.pos kind fp with events := (s.slotSet m.pos kind fp).events.push .finish,
                                          sinceBump := s.sinceBump + 1 })
      | _ => .error (.panic "Marker::complete unreachable") := by
  unfold Marker.complete
  show (match s.events[m.pos]? with | some (.start k0 fp) => _ | _ => _ : G CompletedMarker) s = _
  cases s.events[m.pos]? with
  | none => rfl
  | some e =>
    cases e with
    | finish => rfl
    | token _ _ => rfl
    | error _ => rfl
    | start k0 fp =>
      simp only
      by_cases h1 : (k0 != .TOMBSTONE) = true
      · simp only [h1, if_true]; rfl
      · simp only [h1, if_false]
        by_cases h2 : (kind == .TOMBSTONE) = true
        · simp only [h2, if_true]; rfl
        · simp only [h2, if_false]
          show (pushEvent .finish >>= fun _ => _) (s.slotSet m.pos kind fp) = _
          rw [G.bind_apply, pushEvent_eq]
          have e : (s.slotSet m.pos kind fp).hookTrip = s.hookTrip := rfl
          rw [e]
          by_cases h3 : s.hookTrip = true
          · simp only [h3, if_true, if_false, Bool.false_eq_true]
          · simp only [h3, if_true, if_false, Bool.false_eq_true]; rfl

theorem abandon_eq (m : Marker) (s : P) :
    m.abandon s =
      if (m.isFp || s.protectedPos.contains m.pos) = true then
        .error (.modelError "Marker::abandon of a forward-parent marker")
      else if (s.events.size == 0) = true then .error (.panic "Marker::abandon underflow")
      else if (m.pos == s.events.size - 1) = true then
        match s.events.back? with
        | some (.start k fp) =>
          if (k == .TOMBSTONE && fp.isNone) = true then
            .ok ((), { s with events := s.events.pop, live := s.live - 1 })
          else .error (.panic "Marker::abandon unreachable")
        | _ => .error (.panic "Marker::abandon unreachable")
      else .ok ((), { s with live := s.live - 1 }) := by
  unfold Marker.abandon
  show (if _ then _ else _ : G Unit) s = _
  by_cases h1 : (m.isFp || s.protectedPos.contains m.pos) = true
  · simp only [h1, if_true]; rfl
  · simp only [h1, if_false]
    by_cases h2 : (s.events.size == 0) = true
    · simp only [h2, if_true]; rfl
    · simp only [h2, if_false]
      by_cases h3 : (m.pos == s.events.size - 1) = true
      · simp only [h3, if_true]
        cases s.events.back? with
        | none => rfl
        | some e =>
          cases e with
          | finish => rfl
          | token _ _ => rfl
          | error _ => rfl
          | start k fp =>
            simp only
            by_cases h4 : (k == .TOMBSTONE && fp.isNone) = true
            · simp only [h4, if_true]; rfl
            · simp only [h4, if_false]; rfl
      · simp only [h3, if_false]; rfl

/-- the state after the `start` inside `CompletedMarker::precede` -/
def P.started (s : P) : P :=
  { s with events := s.events.push Ev.tombstone, sinceBump := s.sinceBump + 1, live := s.live + 1 }

theorem precede_eq (cm : CompletedMarker) (s : P) :
    cm.precede s =
      if s.hookTrip then .error (.panic "oq3_verif: no progress")
      else match s.started.events[cm.pos]? with
        | some (.start k _) =>
          if s.events.size < cm.pos then .error (.panic "CompletedMarker::precede u32 underflow")
          else .ok ({ pos := s.events.size, isFp := true },
            { s.started with
                events := s.started.events.set! cm.pos (.start k (some (s.events.size - cm.pos))),
                protectedPos := s.events.size :: s.protectedPos })
        | _ => .error (.panic "CompletedMarker::precede unreachable") := by
  unfold CompletedMarker.precede
  rw [G.bind_apply, start_eq]
  by_cases h : s.hookTrip = true
  · simp only [h, if_true]
  · simp only [h, if_false]
    show (match s.started.events[cm.pos]? with | some (.start k _) => _ | _ => _ : G Marker) s.started = _
    cases s.started.events[cm.pos]? with
    | none => rfl
    | some e =>
      cases e with
      | finish => rfl
      | token _ _ => rfl
      | error _ => rfl
      | start k fp =>
        simp only
        by_cases h2 : s.events.size < cm.pos
        · simp only [h2, if_true]; rfl
        · simp only [h2, if_false]; rfl

theorem extendTo_eq (cm : CompletedMarker) (m : Marker) (s : P) :
    cm.extendTo m s = match s.events[m.pos]? with
      | some (.start k _) =>
        if cm.pos < m.pos then .error (.panic "CompletedMarker::extend_to u32 underflow")
        else match s.events[cm.pos]? with
          | some (.start k' _) =>
            if (k' == .TOMBSTONE) = true then
              .error (.modelError "CompletedMarker::extend_to: not a completed marker")
            else .ok (cm, { s with events := s.events.set! m.pos (.start k (some (cm.pos - m.pos))),
                                   live := s.live - 1 })
          | _ => .error (.modelError "CompletedMarker::extend_to: not a completed marker")
      | _ => .error (.panic "CompletedMarker::extend_to unreachable") := by
  unfold CompletedMarker.extendTo
  show (match s.events[m.pos]? with | some (.start k _) => _ | _ => _ : G CompletedMarker) s = _
  cases s.events[m.pos]? with
  | none => rfl
  | some e =>
    cases e with
    | finish => rfl
    | token _ _ => rfl
    | error _ => rfl
    | start k fp =>
      simp only
      by_cases h1 : cm.pos < m.pos
      · simp only [h1, if_true]; rfl
      · simp only [h1, if_false]
        show (match s.events[cm.pos]? with | some (.start k' _) => _ | _ => _ : G CompletedMarker) s = _
        cases s.events[cm.pos]? with
        | none => rfl
        | some e2 =>
          cases e2 with
          | finish => rfl
          | token _ _ => rfl
          | error _ => rfl
          | start k' fp' =>
            simp only
            by_cases h2 : (k' == .TOMBSTONE) = true
            · simp only [h2, if_true]; rfl
            · simp only [h2, if_false]; rfl

theorem atTs_eq (ts : TokenSet) (s : P) :
    atTs ts s = .ok (decide ((s.kindAt s.pos).toNat < 128) && ts.contains (s.kindAt s.pos), s) := by
  unfold atTs
  rw [G.bind_apply, current_eq]
  rfl

/-- lifting of `Input::is_joint` into a parser result -/
def P.jointRes (s : P) (i : Nat) : Except Outcome (Bool × P) :=
  match s.isJoint i with
  | .ok b => .ok (b, s)
  | .error e => .error e

theorem at_comp2_eq (k k1 k2 : SyntaxKind) (hc : compositePieces k = some [k1, k2]) (s : P) :
    at' k s = if (s.kindAt s.pos == k1 && s.kindAt (s.pos + 1) == k2) = true then s.jointRes s.pos
      else .ok (false, s) := by
  unfold at' nthAt
  simp only [hc]
  unfold atComposite
  show (if _ then _ else _ : G Bool) s = _
  simp only [Nat.add_zero]
  by_cases h : (s.kindAt s.pos == k1 && s.kindAt (s.pos + 1) == k2) = true
  · simp only [h, if_true]
    unfold P.jointRes
    cases s.isJoint s.pos <;> rfl
  · simp only [h, if_false]; rfl

theorem at_comp3_eq (k k1 k2 k3 : SyntaxKind) (hc : compositePieces k = some [k1, k2, k3]) (s : P) :
    at' k s =
      if (s.kindAt s.pos == k1 && s.kindAt (s.pos + 1) == k2 && s.kindAt (s.pos + 2) == k3) = true then
        match s.isJoint s.pos with
        | .ok false => .ok (false, s)
        | .ok true => s.jointRes (s.pos + 1)
        | .error e => .error e
      else .ok (false, s) := by
  unfold at' nthAt
  simp only [hc]
  unfold atComposite
  show (if _ then _ else _ : G Bool) s = _
  simp only [Nat.add_zero]
  by_cases h : (s.kindAt s.pos == k1 && s.kindAt (s.pos + 1) == k2 && s.kindAt (s.pos + 2) == k3) = true
  · simp only [h, if_true]
    unfold P.jointRes
    cases s.isJoint s.pos with
    | error e => rfl
    | ok b =>
      cases b
      · rfl
      · simp only
        cases s.isJoint (s.pos + 1) <;> rfl
  · simp only [h, if_false]; rfl

end Oq3.Parser
