/-
The tight work bounds: rules used by the generated proof `Lemmas/GrammarWork*.lean`.

Three counters are bounded separately:
  * `steps`      — `nth` calls since the last bump (what the step limit of `Parser::nth` looks at),
  * `sinceBump`  — events since the last bump (what the `oq3_verif` no-progress hook looks at),
  * `events.size`.
`sinceBump` and `events.size` change in the same way under every parser-API call (each pushes at
most one event), so the generated proof is written once for an abstract counter `M.val` (`Sys`)
and instantiated twice (`sysSB`, `sysEV`).  For `sysSB` the proof excludes the hook panic; for
`sysEV` the hook panic is tolerated (its absence is the other instance's result).
-/
import Oq3.Lemmas.Cost
set_option linter.unusedSimpArgs false
set_option linter.unusedVariables false

namespace Oq3.Parser
open Oq3.Gen

/-- an event-like counter with its budget invariant and the failures the proof tolerates -/
structure Sys where
  val : P → Nat
  A : Outcome → Prop
  /-- `Good B Bs s`: the budgets `B` (for `val`) and `Bs` (for `steps`) are below the limits of `s` -/
  Good : Nat → Nat → P → Prop
  push : ∀ s s', s'.events.size ≤ s.events.size + 1 → s'.sinceBump ≤ s.sinceBump + 1 → val s' ≤ val s + 1
  keep : ∀ s s', s'.events.size ≤ s.events.size → s'.sinceBump ≤ s.sinceBump → val s' ≤ val s
  good : ∀ B Bs s s', Good B Bs s → s'.noProgressLimit = s.noProgressLimit → s'.stepLimit = s.stepLimit → Good B Bs s'
  stepLim : ∀ B Bs s, Good B Bs s → Bs ≤ s.stepLimit
  hook : ∀ B Bs s, Good B Bs s → val s ≤ B → s.hookTrip = true → A (.panic "oq3_verif: no progress")
  other : ∀ o, o ≠ .fuel → o ≠ .panic "Parser::nth the parser seems stuck" → o ≠ .panic "oq3_verif: no progress" → A o

/-- a failure that is neither fuel exhaustion nor a hang detector is tolerated -/
macro "decS" : tactic => `(tactic| (apply Sys.other <;> decide))

section
variable {α : Type} {M : Sys} {s : P} {B Bs : Nat}

theorem wpS_atTs {ts : TokenSet} {Q : Bool → P → Prop}
    (h : Q (inSet ts (s.kindAt s.pos)) s) : wp M.A (atTs ts) Q s := wp_atTs h

theorem wpS_nth {n : Nat} (hn : n ≤ 3) (hl : M.Good B Bs s) (hb : s.steps ≤ Bs) {Q : SyntaxKind → P → Prop}
    (h : ∀ s', s'.tv = s.tv → M.Good B Bs s' → M.val s' ≤ M.val s → s'.steps ≤ s.steps + 1 →
      Q (s.kindAt (s.pos + n)) s') : wp M.A (nth n) Q s := by
  apply wp_def'; rw [nth_eq]
  have h1 : ¬ n > 3 := by omega
  have h2 : ¬ s.steps > s.stepLimit := by have := M.stepLim _ _ _ hl; omega
  simp only [h1, if_false, h2]
  exact h _ rfl (M.good _ _ _ _ hl rfl rfl) (M.keep _ _ (Nat.le_refl _) (Nat.le_refl _)) (Nat.le_refl _)

theorem wpS_start (hl : M.Good B Bs s) (hb : M.val s ≤ B) {Q : Marker → P → Prop}
    (h : ∀ m s', s'.tv = s.tv → M.Good B Bs s' → M.val s' ≤ M.val s + 1 → s'.steps ≤ s.steps → Q m s') :
    wp M.A start Q s := by
  apply wp_def'; rw [start_eq]
  cases ht : s.hookTrip with
  | true => simp only [if_true]; exact M.hook _ _ _ hl hb ht
  | false =>
    simp only [Bool.false_eq_true, if_false]
    exact h _ _ rfl (M.good _ _ _ _ hl rfl rfl)
      (M.push _ _ (by simp only [Array.size_push]; omega) (Nat.le_refl _)) (Nat.le_refl _)

theorem wpS_error {msg : String} (hl : M.Good B Bs s) (hb : M.val s ≤ B) {Q : Unit → P → Prop}
    (h : ∀ s', s'.tv = s.tv → M.Good B Bs s' → M.val s' ≤ M.val s + 1 → s'.steps ≤ s.steps → Q () s') :
    wp M.A (error msg) Q s := by
  apply wp_def'; rw [error_eq]
  cases ht : s.hookTrip with
  | true => simp only [if_true]; exact M.hook _ _ _ hl hb ht
  | false =>
    simp only [Bool.false_eq_true, if_false]
    exact h _ rfl (M.good _ _ _ _ hl rfl rfl)
      (M.push _ _ (by simp only [Array.size_push]; omega) (Nat.le_refl _)) (Nat.le_refl _)

theorem wpS_complete {m : Marker} {kind : SyntaxKind} (hl : M.Good B Bs s) (hb : M.val s ≤ B)
    {Q : CompletedMarker → P → Prop}
    (h : ∀ cm s', s'.tv = s.tv → M.Good B Bs s' → M.val s' ≤ M.val s + 1 → s'.steps ≤ s.steps → Q cm s') :
    wp M.A (m.complete kind) Q s := by
  apply wp_def'; rw [complete_eq]
  cases s.events[m.pos]? with
  | none => decS
  | some e =>
    cases e with
    | finish => decS
    | token _ _ => decS
    | error _ => decS
    | start k0 fp =>
      simp only
      split
      · decS
      · split
        · decS
        · cases ht : s.hookTrip with
          | true => simp only [if_true]; exact M.hook _ _ _ hl hb ht
          | false =>
            simp only [Bool.false_eq_true, if_false]
            refine h _ _ rfl (M.good _ _ _ _ hl rfl rfl) (M.push _ _ ?_ (Nat.le_refl _)) (Nat.le_refl _)
            simp only [P.slotSet, Array.size_push, Array.set!_eq_setIfInBounds, Array.size_setIfInBounds]
            omega

theorem wpS_abandon {m : Marker} (hl : M.Good B Bs s) {Q : Unit → P → Prop}
    (h : ∀ s', s'.tv = s.tv → M.Good B Bs s' → M.val s' ≤ M.val s → s'.steps ≤ s.steps → Q () s') :
    wp M.A m.abandon Q s := by
  apply wp_def'; rw [abandon_eq]
  split
  · decS
  · split
    · decS
    · split
      · cases s.events.back? with
        | none => decS
        | some e =>
          cases e with
          | finish => decS
          | token _ _ => decS
          | error _ => decS
          | start k fp =>
            simp only
            split
            · exact h _ rfl (M.good _ _ _ _ hl rfl rfl)
                (M.keep _ _ (by simp only [Array.size_pop]; omega) (Nat.le_refl _)) (Nat.le_refl _)
            · decS
      · exact h _ rfl (M.good _ _ _ _ hl rfl rfl) (M.keep _ _ (Nat.le_refl _) (Nat.le_refl _)) (Nat.le_refl _)

theorem wpS_precede {cm : CompletedMarker} (hl : M.Good B Bs s) (hb : M.val s ≤ B) {Q : Marker → P → Prop}
    (h : ∀ m s', s'.tv = s.tv → M.Good B Bs s' → M.val s' ≤ M.val s + 1 → s'.steps ≤ s.steps → Q m s') :
    wp M.A cm.precede Q s := by
  apply wp_def'; rw [precede_eq]
  cases ht : s.hookTrip with
  | true => simp only [if_true]; exact M.hook _ _ _ hl hb ht
  | false =>
    simp only [Bool.false_eq_true, if_false]
    cases s.started.events[cm.pos]? with
    | none => decS
    | some e =>
      cases e with
      | finish => decS
      | token _ _ => decS
      | error _ => decS
      | start k fp =>
        simp only
        split
        · decS
        · refine h _ _ rfl (M.good _ _ _ _ hl rfl rfl) (M.push _ _ ?_ (Nat.le_refl _)) (Nat.le_refl _)
          simp only [P.started, Array.size_push, Array.set!_eq_setIfInBounds, Array.size_setIfInBounds]
          omega

theorem wpS_extendTo {cm : CompletedMarker} {m : Marker} (hl : M.Good B Bs s) {Q : CompletedMarker → P → Prop}
    (h : ∀ s', s'.tv = s.tv → M.Good B Bs s' → M.val s' ≤ M.val s → s'.steps ≤ s.steps → Q cm s') :
    wp M.A (cm.extendTo m) Q s := by
  apply wp_def'; rw [extendTo_eq]
  cases s.events[m.pos]? with
  | none => decS
  | some e =>
    cases e with
    | finish => decS
    | token _ _ => decS
    | error _ => decS
    | start k fp =>
      simp only
      split
      · decS
      · cases s.events[cm.pos]? with
        | none => decS
        | some e2 =>
          cases e2 with
          | finish => decS
          | token _ _ => decS
          | error _ => decS
          | start k' fp' =>
            simp only
            split
            · decS
            · refine h _ rfl (M.good _ _ _ _ hl rfl rfl) (M.keep _ _ ?_ (Nat.le_refl _)) (Nat.le_refl _)
              simp only [Array.set!_eq_setIfInBounds, Array.size_setIfInBounds]
              omega

/-- `Parser::eat`: nothing happens, or the tokens of `k` are consumed, one event is pushed and
`steps` is reset -/
theorem wpS_eat {k : SyntaxKind} (hl : M.Good B Bs s) {Q : Bool → P → Prop}
    (h1 : atF k s.kinds s.joint s.pos = false → Q false s)
    (h2 : atF k s.kinds s.joint s.pos = true → ∀ s', Adv s s' → s.pos < s'.pos → M.Good B Bs s' →
      M.val s' ≤ M.val s + 1 → s'.steps ≤ s.steps → Q true s') :
    wp M.A (eat k) Q s := by
  by_cases hk : (k == .EOF) = true
  · unfold eat; simp only [hk, if_true]; exact wp_fail (by decS)
  · have hk' : (k == .EOF) = false := by simpa using hk
    apply wp_def'; rw [eat_eq' k hk']
    cases hb : atF k s.kinds s.joint s.pos with
    | false => simp only [Bool.false_eq_true, if_false]; exact h1 hb
    | true =>
      simp only [if_true]
      obtain ⟨hin, h1le⟩ := atF_inb hb hk'
      refine h2 hb _ ⟨rfl, rfl, rfl, Nat.le_add_right _ _, fun _ => hin⟩ ?_ (M.good _ _ _ _ hl rfl rfl)
        (M.push _ _ (by simp only [Array.size_push]; omega) (by show 1 ≤ s.sinceBump + 1; omega)) (Nat.zero_le _)
      show s.pos < s.pos + eatRawTokens k
      omega

theorem wpS_bump {k : SyntaxKind} (hl : M.Good B Bs s) {Q : Unit → P → Prop}
    (h : atF k s.kinds s.joint s.pos = true → ∀ s', Adv s s' → s.pos < s'.pos → M.Good B Bs s' →
      M.val s' ≤ M.val s + 1 → s'.steps ≤ s.steps → Q () s') : wp M.A (bump k) Q s := by
  unfold bump
  apply wp_bind
  apply wpS_eat hl
  · intro _; exact wp_panic (by decS)
  · intro hb s' ha hlt hl' hw hs; exact wp_pure (h hb s' ha hlt hl' hw hs)

theorem wpS_bumpAny (hl : M.Good B Bs s) {Q : Unit → P → Prop}
    (h1 : s.kindAt s.pos = .EOF → Q () s)
    (h2 : s.kindAt s.pos ≠ .EOF → ∀ s', Adv s s' → s.pos < s'.pos → M.Good B Bs s' →
      M.val s' ≤ M.val s + 1 → s'.steps ≤ s.steps → Q () s') :
    wp M.A bumpAny Q s := by
  apply wp_def'; rw [bumpAny_eq]
  split
  · rename_i he; exact h1 (by simpa using he)
  · rename_i he
    have hne : s.kindAt s.pos ≠ .EOF := by simpa using he
    have := kindAt_ne_eof_lt s _ hne
    exact h2 hne _ ⟨rfl, rfl, rfl, Nat.le_add_right _ _, fun _ => by show s.pos + 1 ≤ s.kinds.size; omega⟩
      (by show s.pos < s.pos + 1; omega) (M.good _ _ _ _ hl rfl rfl)
      (M.push _ _ (by simp only [Array.size_push]; omega) (by show 1 ≤ s.sinceBump + 1; omega)) (Nat.zero_le _)

/-- `Parser::expect`, one continuation -/
theorem wpS_expect {k : SyntaxKind} (hl : M.Good B Bs s) (hb : M.val s ≤ B) {Q : Bool → P → Prop}
    (h : ∀ s', Adv s s' → (atF k s.kinds s.joint s.pos = true → s.pos < s'.pos) →
      (atF k s.kinds s.joint s.pos = false → s'.tv = s.tv) → M.Good B Bs s' → M.val s' ≤ M.val s + 1 →
      s'.steps ≤ s.steps → Q (atF k s.kinds s.joint s.pos) s') :
    wp M.A (expect k) Q s := by
  unfold expect
  apply wp_bind
  apply wpS_eat hl
  · intro hf
    simp only [Bool.false_eq_true, if_false]
    apply wp_bind; apply wpS_error hl hb; intro s' htv hl' hw hs
    have := h s' (Adv.of_tv htv) (fun ht => by rw [hf] at ht; cases ht) (fun _ => htv) hl' hw hs
    rw [hf] at this
    exact wp_pure this
  · intro ht s' ha hlt hl' hw hs
    simp only [if_true]
    have := h s' ha (fun _ => hlt) (fun hf => by rw [ht] at hf; cases hf) hl' hw hs
    rw [ht] at this
    exact wp_pure this

/-- `err_recover`, one continuation: at most four events -/
theorem wpS_errRecover {msg : String} {rec : TokenSet} (hl : M.Good B Bs s) (hb : M.val s + 3 ≤ B)
    {Q : Unit → P → Prop}
    (h : ∀ s', Adv s s' → (recStop rec (s.kindAt s.pos) = false → s.pos < s'.pos) →
      (recStop rec (s.kindAt s.pos) = true → s'.tv = s.tv) → M.Good B Bs s' → M.val s' ≤ M.val s + 4 →
      s'.steps ≤ s.steps → Q () s') :
    wp M.A (errRecover msg rec) Q s := by
  unfold errRecover
  apply wp_bind; apply wp_current
  split
  · rename_i hc
    have hs : recStop rec (s.kindAt s.pos) = true := by simp only [recStop, hc, Bool.true_or]
    apply wp_bind; apply wpS_error hl (by omega); intro s' htv hl' hw hst
    exact wp_pure (h s' (Adv.of_tv htv) (fun hf => by rw [hs] at hf; cases hf) (fun _ => htv) hl' (by omega) hst)
  · rename_i hc
    apply wp_bind; apply wp_atTs
    split
    · rename_i ht
      have hs : recStop rec (s.kindAt s.pos) = true := by simp only [recStop, ht, Bool.true_or, Bool.or_true]
      apply wp_bind; apply wpS_error hl (by omega); intro s' htv hl' hw hst
      exact wp_pure (h s' (Adv.of_tv htv) (fun hf => by rw [hs] at hf; cases hf) (fun _ => htv) hl' (by omega) hst)
    · rename_i ht
      apply wp_bind; apply wpS_start hl (by omega); intro m s1 htv1 hl1 hw1 hs1
      apply wp_bind; apply wpS_error hl1 (by omega); intro s2 htv2 hl2 hw2 hs2
      have htv : s2.tv = s.tv := htv2.trans htv1
      have hk2 : s2.kindAt s2.pos = s.kindAt s.pos := by
        simp only [P.tv, Prod.mk.injEq] at htv
        simp only [P.kindAt, htv.1, htv.2.2]
      apply wp_bind
      apply wpS_bumpAny hl2
      · intro he
        -- at end of input nothing is consumed: `start`, `error`, `finish`
        apply wp_bind; apply wpS_complete hl2 (by omega); intro cm s4 htv4 hl4 hw4 hs4
        have hs : recStop rec (s.kindAt s.pos) = true := by
          rw [hk2] at he
          simp only [recStop, he, beq_self_eq_true, Bool.or_true]
        exact wp_pure (h s4 (Adv.of_tv (htv4.trans htv)) (fun hf => by rw [hs] at hf; cases hf)
          (fun _ => htv4.trans htv) hl4 (by omega) (by omega))
      · intro hne s3 ha3 hl3 hlim3 hw3 hs3
        apply wp_bind; apply wpS_complete hlim3 (by omega); intro cm s4 htv4 hl4 hw4 hs4
        have ha : Adv s s4 := (Adv.of_tv htv).trans (ha3.trans (Adv.of_tv htv4))
        have hlt : s.pos < s4.pos := by
          have e1 : s2.pos = s.pos := tv_pos htv
          have e2 : s4.pos = s3.pos := tv_pos htv4
          omega
        have hs : recStop rec (s.kindAt s.pos) = false := by
          rw [hk2] at hne
          have hc' : (s.kindAt s.pos == SyntaxKind.L_CURLY || s.kindAt s.pos == SyntaxKind.R_CURLY) = false := by
            simpa using hc
          have ht' : (decide ((s.kindAt s.pos).toNat < 128) && rec.contains (s.kindAt s.pos)) = false := by
            simpa using ht
          have he' : (s.kindAt s.pos == SyntaxKind.EOF) = false := by simpa using hne
          simp only [recStop, hc', ht', he', Bool.or_self]
        exact wp_pure (h s4 ha (fun _ => hlt) (fun ht => by rw [hs] at ht; cases ht) hl4 (by omega) (by omega))

theorem wpS_errAndBump {msg : String} (hl : M.Good B Bs s) (hb : M.val s + 3 ≤ B) {Q : Unit → P → Prop}
    (h : ∀ s', Adv s s' → (recStop [] (s.kindAt s.pos) = false → s.pos < s'.pos) →
      (recStop [] (s.kindAt s.pos) = true → s'.tv = s.tv) → M.Good B Bs s' → M.val s' ≤ M.val s + 4 →
      s'.steps ≤ s.steps → Q () s') :
    wp M.A (errAndBump msg) Q s := wpS_errRecover hl hb h

/-- `type_name`, one continuation -/
theorem wpS_typeName (hl : M.Good B Bs s) (hb : M.val s ≤ B) {Q : Unit → P → Prop}
    (h : ∀ s', Adv s s' → (isType (s.kindAt s.pos) = true → s.pos < s'.pos) →
      (isType (s.kindAt s.pos) = false → s'.tv = s.tv) → M.Good B Bs s' → M.val s' ≤ M.val s + 1 →
      s'.steps ≤ s.steps → Q () s') :
    wp M.A Oq3.Grammar.typeName Q s := by
  unfold Oq3.Grammar.typeName
  apply wp_bind; apply wp_current
  split
  · rename_i ht
    have hf : isType (s.kindAt s.pos) = false := by simpa using ht
    apply wp_bind; apply wpS_error hl hb; intro s' htv hl' hw hs
    exact wp_pure (h s' (Adv.of_tv htv) (fun ht => by rw [hf] at ht; cases ht) (fun _ => htv) hl' hw hs)
  · rename_i ht
    have htt : isType (s.kindAt s.pos) = true := by simpa using ht
    apply wp_bind; apply wp_current
    apply wpS_bump hl
    intro _ s' ha hlt hl' hw hs
    exact h s' ha (fun _ => hlt) (fun hf => by rw [htt] at hf; cases hf) hl' hw hs

end

open Lean Elab Tactic Meta in
/-- like `wp_callB`: the system `M` and the budgets are read off the hypothesis `M.Good B Bs s` for the
current state `s` -/
elab "wp_callS " sfx:ident : tactic => withMainContext do
  let g ← getMainGoal
  let t ← whnfR (← instantiateMVars (← g.getType))
  unless t.isAppOfArity ``Oq3.Parser.wp 5 do throwError "wp_callS: not a wp goal"
  let prog ← whnfR t.getAppArgs[2]!
  let st := t.getAppArgs[4]!
  let .const fn _ := prog.getAppFn | throwError "wp_callS: no head constant"
  unless (`Oq3.Grammar).isPrefixOf fn do throwError "wp_callS: not a grammar function"
  let mut bud : Option (Expr × Expr × Expr) := none
  for d in (← getLCtx) do
    if d.isImplementationDetail then continue
    let ty ← instantiateMVars d.type
    if ty.isAppOfArity ``Oq3.Parser.Sys.Good 4 && ty.getAppArgs[3]! == st then
      bud := some (ty.getAppArgs[0]!, ty.getAppArgs[1]!, ty.getAppArgs[2]!)
  let some (m, b, bs) := bud | throwError "wp_callS: no budget for the current state"
  let mstx ← Lean.Elab.Term.exprToSyntax m
  let bstx ← Lean.Elab.Term.exprToSyntax b
  let bsstx ← Lean.Elab.Term.exprToSyntax bs
  let nargs := prog.getAppNumArgs
  let leafName := fn.appendAfter ("_" ++ sfx.getId.eraseMacroScopes.toString)
  let hole ← `(_)
  if (← getEnv).contains leafName then
    let us : Array (TSyntax `term) := (#[mstx] ++ Array.replicate nargs hole).push bstx |>.push bsstx |>.push hole
    evalTactic (← `(tactic| with_reducible refine wp_conseq ($(mkIdent leafName) $us* ?_) ?_))
  else
    let some short := fn.components.getLast? | throwError "wp_callS: bad name"
    let us : Array (TSyntax `term) := (Array.replicate (nargs - 1) hole).push bstx |>.push bsstx |>.push hole
    evalTactic (← `(tactic| with_reducible refine wp_conseq ($(mkIdent (`ih ++ short)) $us* ?_) ?_))

end Oq3.Parser

namespace Oq3.Grammar
open Oq3.Gen Oq3.Parser

macro "pw_step" : tactic => `(tactic| first
  | (goal_kind wp; first
      | wp_rule [Pure.pure wp_pure, Bind.bind wp_bind, ite wp_ite, andM wp_andM, orM wp_orM, notM wp_notM,
          Functor.map wp_map, at' wp_at, current wp_current, atTs wpS_atTs, currentOp wp_currentOp,
          nth wpS_nth, start wpS_start, error wpS_error, Marker.complete wpS_complete,
          Marker.abandon wpS_abandon, CompletedMarker.precede wpS_precede,
          CompletedMarker.extendTo wpS_extendTo, eat wpS_eat, bump wpS_bump, bumpAny wpS_bumpAny,
          expect wpS_expect, errRecover wpS_errRecover, errAndBump wpS_errAndBump, typeName wpS_typeName]
      | (with_reducible apply wp_fail; decS)
      | (with_reducible apply wp_panic; decS)
      | wp_callS work
      | pg_split
      | dsimp only)
  | (goal_kind pi; pg_intro)
  | (goal_kind and; with_reducible apply And.intro)
  | pg_close
  | pg_split
  | dsimp only)

set_option hygiene false in
/-- absorb the hypothesis `hpre` of the statement, then run -/
macro "pw" : tactic => `(tactic| (revert hpre; repeat' pw_step))

end Oq3.Grammar
